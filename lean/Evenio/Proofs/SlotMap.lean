import Evenio.Model.SlotMap
/-! Helper lemmas for the generational slot map (`Evenio/Model/SlotMap.lean`):
    the well-formedness invariant `SlotMap.WF` (free list as a ghost chain), its preservation by
    `insertWith` / `remove`, operation histories (`SMOp`, `Trace`, `run`) and the history invariant
    `Trace.Inv` from which the C03 / C16 property theorems are read off. Core Lean only. -/
namespace Evenio
namespace SlotMap
variable {α : Type}

/-! ### The invariant -/

/-- `Chain slots h fl`: following `next` links from `h` visits exactly the indices `fl` (ghost list),
    each an in-range, vacant (`gen` even), non-retired (`gen ≠ 0`) slot, and ends in `U32MAX`. -/
def Chain (slots : List (Slot α)) : Nat → List Nat → Prop
  | h, [] => h = U32MAX
  | h, i :: fl => h = i ∧ ∃ s, slots[i]? = some s ∧ s.gen % 2 = 0 ∧ s.gen ≠ 0 ∧ Chain slots s.next fl

/-- Well-formedness of a slot map. -/
structure WF (sm : SlotMap α) : Prop where
  /-- generations fit in a `u32` -/
  genLt : ∀ (i : Nat) (s : Slot α), sm.slots[i]? = some s → s.gen < GENMOD
  /-- occupied ⇔ odd generation -/
  valIff : ∀ (i : Nat) (s : Slot α), sm.slots[i]? = some s → (s.val.isSome ↔ s.gen % 2 = 1)
  /-- the free list is a finite duplicate-free chain of vacant, non-retired, in-range slots -/
  chain : ∃ fl, Chain sm.slots sm.nextFree fl ∧ fl.Nodup
  /-- `len` counts the occupied slots -/
  lenEq : sm.len = sm.slots.countP (fun s => s.gen % 2 == 1)
  /-- indices fit below `u32::MAX` -/
  size : sm.slots.length ≤ U32MAX

theorem Chain.mem {slots : List (Slot α)} {h fl} (c : Chain slots h fl) :
    ∀ i ∈ fl, ∃ s, slots[i]? = some s ∧ s.gen % 2 = 0 ∧ s.gen ≠ 0 := by
  induction fl generalizing h with
  | nil => simp
  | cons j fl ih =>
    obtain ⟨_, s, hs, he, hn, c'⟩ := c
    intro i hi
    rcases List.mem_cons.1 hi with rfl | hi
    · exact ⟨s, hs, he, hn⟩
    · exact ih c' i hi

/-- Writing a slot that is not on the chain keeps the chain. -/
theorem Chain.set {slots : List (Slot α)} {h fl} (c : Chain slots h fl) {i : Nat} (x : Slot α)
    (hi : i ∉ fl) : Chain (slots.set i x) h fl := by
  induction fl generalizing h with
  | nil => exact c
  | cons j fl ih =>
    obtain ⟨hj, s, hs, he, hn, c'⟩ := c
    have hij : i ≠ j := fun e => hi (by simp [e])
    refine ⟨hj, s, ?_, he, hn, ih c' (fun m => hi (List.mem_cons_of_mem _ m))⟩
    rw [List.getElem?_set_ne hij]; exact hs

/-- Pushing a slot keeps the chain. -/
theorem Chain.append {slots : List (Slot α)} {h fl} (c : Chain slots h fl) (x : Slot α) :
    Chain (slots ++ [x]) h fl := by
  induction fl generalizing h with
  | nil => exact c
  | cons j fl ih =>
    obtain ⟨hj, s, hs, he, hn, c'⟩ := c
    refine ⟨hj, s, ?_, he, hn, ih c'⟩
    have : j < slots.length := by
      rcases List.getElem?_eq_some_iff.1 hs with ⟨h, _⟩; exact h
    rw [List.getElem?_append_left this]; exact hs

/-- The chain is determined by its head (the ghost list is unique). -/
theorem Chain.unique {slots : List (Slot α)} {h fl fl'} (c : Chain slots h fl) (c' : Chain slots h fl')
    (hsz : slots.length ≤ U32MAX) : fl = fl' := by
  induction fl generalizing h fl' with
  | nil =>
    cases fl' with
    | nil => rfl
    | cons j fl' =>
      obtain ⟨hj, s, hs, _⟩ := c'
      have : j < slots.length := by
        rcases List.getElem?_eq_some_iff.1 hs with ⟨h, _⟩; exact h
      simp [Chain] at c; omega
  | cons i fl ih =>
    obtain ⟨hi, s, hs, _, _, c1⟩ := c
    cases fl' with
    | nil =>
      have : i < slots.length := by
        rcases List.getElem?_eq_some_iff.1 hs with ⟨h, _⟩; exact h
      simp [Chain] at c'; omega
    | cons j fl' =>
      obtain ⟨hj, s', hs', _, _, c2⟩ := c'
      subst hi; subst hj
      rw [hs] at hs'; cases hs'
      rw [ih c1 c2]

theorem wf_empty : WF (empty : SlotMap α) := by
  refine ⟨?_, ?_, ⟨[], ?_, List.nodup_nil⟩, ?_, ?_⟩ <;> simp [empty, Chain, U32MAX]

/-! ### Shape of `insertWith` -/

theorem insertWith_pop {sm : SlotMap α} {f : Key → α} {s : Slot α}
    (h : sm.slots[sm.nextFree]? = some s) :
    sm.insertWith f = some (⟨sm.nextFree, s.gen + 1⟩,
      { slots := sm.slots.set sm.nextFree ⟨s.gen + 1, s.next, some (f ⟨sm.nextFree, s.gen + 1⟩)⟩,
        nextFree := s.next, len := sm.len + 1 }) := by
  simp [insertWith, h]

theorem insertWith_push {sm : SlotMap α} {f : Key → α}
    (h : sm.slots[sm.nextFree]? = none) (hl : sm.slots.length ≠ U32MAX) :
    sm.insertWith f = some (⟨sm.slots.length, 1⟩,
      { slots := sm.slots ++ [⟨1, U32MAX, some (f ⟨sm.slots.length, 1⟩)⟩],
        nextFree := sm.nextFree, len := sm.len + 1 }) := by
  simp [insertWith, h, hl]

theorem insertWith_full {sm : SlotMap α} {f : Key → α}
    (h : sm.slots[sm.nextFree]? = none) (hl : sm.slots.length = U32MAX) :
    sm.insertWith f = none := by
  simp [insertWith, h, hl]

/-- In a well-formed map an out-of-range free-list head is the end marker. -/
theorem WF.nextFree_none {sm : SlotMap α} (wf : WF sm) (h : sm.slots[sm.nextFree]? = none) :
    sm.nextFree = U32MAX := by
  obtain ⟨fl, c, _⟩ := wf.chain
  cases fl with
  | nil => exact c
  | cons j fl =>
    obtain ⟨hj, s, hs, _⟩ := c
    rw [hj, hs] at h; cases h

theorem WF.null_none {sm : SlotMap α} (wf : WF sm) : sm.slots[U32MAX]? = none :=
  List.getElem?_eq_none wf.size

/-- Case analysis of `insertWith` on a well-formed map. -/
theorem WF.insertWith_cases {sm : SlotMap α} (wf : WF sm) (f : Key → α) :
    (∃ s fl, sm.slots[sm.nextFree]? = some s ∧ s.gen % 2 = 0 ∧ s.gen ≠ 0 ∧ s.val = none ∧
        Chain sm.slots s.next fl ∧ fl.Nodup ∧ sm.nextFree ∉ fl ∧ sm.nextFree < sm.slots.length ∧
        sm.insertWith f = some (⟨sm.nextFree, s.gen + 1⟩,
          { slots := sm.slots.set sm.nextFree ⟨s.gen + 1, s.next, some (f ⟨sm.nextFree, s.gen + 1⟩)⟩,
            nextFree := s.next, len := sm.len + 1 })) ∨
    (sm.nextFree = U32MAX ∧ sm.slots.length < U32MAX ∧
        sm.insertWith f = some (⟨sm.slots.length, 1⟩,
          { slots := sm.slots ++ [⟨1, U32MAX, some (f ⟨sm.slots.length, 1⟩)⟩],
            nextFree := U32MAX, len := sm.len + 1 })) ∨
    (sm.nextFree = U32MAX ∧ sm.slots.length = U32MAX ∧ sm.insertWith f = none) := by
  cases h : sm.slots[sm.nextFree]? with
  | some s =>
    left
    obtain ⟨fl, c, nd⟩ := wf.chain
    cases fl with
    | nil =>
      have : sm.nextFree = U32MAX := c
      rw [this, wf.null_none] at h; cases h
    | cons j fl =>
      obtain ⟨hj, s', hs', he, hn, c'⟩ := c
      subst hj
      rw [h] at hs'; cases hs'
      have hlt : sm.nextFree < sm.slots.length := by
        rcases List.getElem?_eq_some_iff.1 h with ⟨h, _⟩; exact h
      have hv : s.val = none := by
        have := wf.valIff _ _ h
        cases hv : s.val with
        | none => rfl
        | some v => rw [hv] at this; simp at this; omega
      exact ⟨s, fl, rfl, he, hn, hv, c', (List.nodup_cons.1 nd).2, (List.nodup_cons.1 nd).1, hlt,
        insertWith_pop h⟩
  | none =>
    right
    have hnf := wf.nextFree_none h
    by_cases hl : sm.slots.length = U32MAX
    · right; exact ⟨hnf, hl, insertWith_full h hl⟩
    · left
      refine ⟨hnf, ?_, ?_⟩
      · have := wf.size; omega
      · rw [insertWith_push h hl, hnf]

/-! ### Shape of `remove` -/

/-- Case analysis of a successful `remove` on a well-formed map. -/
theorem WF.remove_cases {sm : SlotMap α} (wf : WF sm) {k : Key} {v : α} {sm' : SlotMap α}
    (h : sm.remove k = some (v, sm')) :
    ∃ s, sm.slots[k.idx]? = some s ∧ s.gen = k.gen ∧ s.val = some v ∧ s.gen % 2 = 1 ∧
      k.idx < sm.slots.length ∧
      ((s.gen + 1 < GENMOD ∧
          sm' = { slots := sm.slots.set k.idx ⟨s.gen + 1, sm.nextFree, none⟩,
                  nextFree := k.idx, len := sm.len - 1 }) ∨
       (s.gen + 1 = GENMOD ∧
          sm' = { slots := sm.slots.set k.idx ⟨0, s.next, none⟩,
                  nextFree := sm.nextFree, len := sm.len - 1 })) := by
  unfold remove at h
  cases hs : sm.slots[k.idx]? with
  | none => simp [hs] at h
  | some s =>
    simp only [hs] at h
    by_cases hg : s.gen = k.gen
    · cases hv : s.val with
      | none => simp [hg, hv] at h
      | some v' =>
        have hodd : s.gen % 2 = 1 := (wf.valIff _ _ hs).1 (by simp [hv])
        have hlt := wf.genLt _ _ hs
        have hidx : k.idx < sm.slots.length := by
          rcases List.getElem?_eq_some_iff.1 hs with ⟨h, _⟩; exact h
        refine ⟨s, rfl, hg, ?_, hodd, hidx, ?_⟩
        · simp [hg, hv] at h
          split at h <;> simp at h <;> rw [← h.1] <;> exact hv
        · by_cases hw : s.gen + 1 < GENMOD
          · left
            have hm : (s.gen + 1) % GENMOD = s.gen + 1 := Nat.mod_eq_of_lt hw
            simp [hg, hv] at h
            rw [← hg, hm] at h
            simp at h
            exact ⟨hw, h.2.symm⟩
          · right
            have he : s.gen + 1 = GENMOD := by omega
            have hm : (s.gen + 1) % GENMOD = 0 := by rw [he]; exact Nat.mod_self _
            simp [hg, hv] at h
            rw [← hg, hm] at h
            simp at h
            exact ⟨he, h.2.symm⟩
    · simp [hg] at h

/-! ### Preservation of `WF` -/

theorem getElem?_lt {l : List (Slot α)} {i : Nat} {s : Slot α} (h : l[i]? = some s) : i < l.length := by
  rcases List.getElem?_eq_some_iff.1 h with ⟨h, _⟩; exact h

theorem WF.insertWith {sm sm' : SlotMap α} (wf : WF sm) {f : Key → α} {k : Key}
    (h : sm.insertWith f = some (k, sm')) : WF sm' := by
  rcases wf.insertWith_cases f with
    ⟨s, fl, hs, he, hn, hv, c, nd, hnot, hlt, heq⟩ | ⟨hnf, hlen, heq⟩ | ⟨_, _, heq⟩
  · rw [heq] at h; cases h
    have hg := wf.genLt _ _ hs
    refine ⟨?_, ?_, ⟨fl, c.set _ hnot, nd⟩, ?_, ?_⟩
    · intro j t ht
      simp only [List.getElem?_set] at ht
      split at ht
      · simp at ht; subst ht; simp only [GENMOD] at hg ⊢; omega
      · exact wf.genLt _ _ ht
    · intro j t ht
      simp only [List.getElem?_set] at ht
      split at ht
      · simp at ht; subst ht; simp; omega
      · exact wf.valIff _ _ ht
    · simp only [List.countP_set hlt]
      have : sm.slots[sm.nextFree] = s := by
        rcases List.getElem?_eq_some_iff.1 hs with ⟨_, h⟩; exact h
      rw [this, wf.lenEq]
      have h1 : (s.gen % 2 == 1) = false := by simp; omega
      have h2 : ((s.gen + 1) % 2 == 1) = true := by simp; omega
      simp [h1, h2]
    · simpa using wf.size
  · rw [heq] at h; cases h
    obtain ⟨fl, c, nd⟩ := wf.chain
    refine ⟨?_, ?_, ⟨fl, ?_, nd⟩, ?_, ?_⟩
    · intro j t ht
      simp only [List.getElem?_append] at ht
      split at ht
      · exact wf.genLt _ _ ht
      · have : j - sm.slots.length = 0 := by
          cases hj : j - sm.slots.length with
          | zero => rfl
          | succ n => rw [hj] at ht; simp at ht
        rw [this] at ht; simp at ht; subst ht; simp [GENMOD]
    · intro j t ht
      simp only [List.getElem?_append] at ht
      split at ht
      · exact wf.valIff _ _ ht
      · have : j - sm.slots.length = 0 := by
          cases hj : j - sm.slots.length with
          | zero => rfl
          | succ n => rw [hj] at ht; simp at ht
        rw [this] at ht; simp at ht; subst ht; simp
    · rw [hnf] at c; exact c.append _
    · simp [List.countP_append, wf.lenEq]
    · simp; omega
  · rw [heq] at h; cases h

theorem WF.remove {sm sm' : SlotMap α} (wf : WF sm) {k : Key} {v : α}
    (h : sm.remove k = some (v, sm')) : WF sm' := by
  obtain ⟨s, hs, hg, hv, hodd, hidx, hcase⟩ := wf.remove_cases h
  obtain ⟨fl, c, nd⟩ := wf.chain
  have hnot : k.idx ∉ fl := by
    intro hm
    obtain ⟨t, ht, hte, _⟩ := c.mem _ hm
    rw [hs] at ht; cases ht; omega
  have hget : sm.slots[k.idx] = s := by
    rcases List.getElem?_eq_some_iff.1 hs with ⟨_, h⟩; exact h
  have hp : (s.gen % 2 == 1) = true := by simp; omega
  rcases hcase with ⟨hw, rfl⟩ | ⟨hw, rfl⟩
  · refine ⟨?_, ?_, ⟨k.idx :: fl, ?_, List.nodup_cons.2 ⟨hnot, nd⟩⟩, ?_, ?_⟩
    · intro j t ht
      simp only [List.getElem?_set] at ht
      split at ht
      · simp at ht; subst ht; exact hw
      · exact wf.genLt _ _ ht
    · intro j t ht
      simp only [List.getElem?_set] at ht
      split at ht
      · simp at ht; subst ht; simp; omega
      · exact wf.valIff _ _ ht
    · refine ⟨rfl, _, List.getElem?_set_self hidx, ?_, ?_, c.set _ hnot⟩
      · show (s.gen + 1) % 2 = 0; omega
      · show s.gen + 1 ≠ 0; omega
    · simp only [List.countP_set hidx]
      rw [hget, wf.lenEq]
      have h2 : ((s.gen + 1) % 2 == 1) = false := by simp; omega
      simp [hp, h2]
    · simpa using wf.size
  · refine ⟨?_, ?_, ⟨fl, c.set _ hnot, nd⟩, ?_, ?_⟩
    · intro j t ht
      simp only [List.getElem?_set] at ht
      split at ht
      · simp at ht; subst ht; simp [GENMOD]
      · exact wf.genLt _ _ ht
    · intro j t ht
      simp only [List.getElem?_set] at ht
      split at ht
      · simp at ht; subst ht; simp
      · exact wf.valIff _ _ ht
    · simp only [List.countP_set hidx]
      rw [hget, wf.lenEq]
      simp [hp]
    · simpa using wf.size

/-! ### `get` after an operation -/

theorem get_insertWith {sm sm' : SlotMap α} (wf : WF sm) {f : Key → α} {k : Key}
    (h : sm.insertWith f = some (k, sm')) (k' : Key) :
    sm'.get k' = if k' = k then some (f k) else sm.get k' := by
  rcases wf.insertWith_cases f with
    ⟨s, fl, hs, he, hn, hv, c, nd, hnot, hlt, heq⟩ | ⟨hnf, hlen, heq⟩ | ⟨_, _, heq⟩
  · rw [heq] at h; cases h
    unfold get
    simp only [List.getElem?_set]
    by_cases hi : sm.nextFree = k'.idx
    · simp only [hi, if_true]
      rw [← hi]; simp only [hlt, if_true, hs]
      by_cases hk : k' = ⟨sm.nextFree, s.gen + 1⟩
      · subst hk; simp
      · have : s.gen + 1 ≠ k'.gen := by
          intro e; apply hk; cases k'; simp_all
        simp [hk, this, hv]
    · have hk : k' ≠ ⟨sm.nextFree, s.gen + 1⟩ := by
        intro e; apply hi; rw [e]
      simp [hi, hk]
  · rw [heq] at h; cases h
    unfold get
    simp only [List.getElem?_append]
    by_cases hi : k'.idx < sm.slots.length
    · have hk : k' ≠ ⟨sm.slots.length, 1⟩ := by
        intro e; rw [e] at hi; simp at hi
      simp [hi, hk]
    · simp only [hi, if_false]
      rw [List.getElem?_eq_none (Nat.le_of_not_lt hi)]
      by_cases hk : k' = ⟨sm.slots.length, 1⟩
      · subst hk; simp
      · cases hj : k'.idx - sm.slots.length with
        | zero =>
          have : 1 ≠ k'.gen := by
            intro e; apply hk; cases k'; simp_all; omega
          simp [this, hk]
        | succ n => simp [hk]
  · rw [heq] at h; cases h

theorem get_remove {sm sm' : SlotMap α} (wf : WF sm) {k : Key} {v : α}
    (h : sm.remove k = some (v, sm')) (k' : Key) :
    sm'.get k' = if k' = k then none else sm.get k' := by
  obtain ⟨s, hs, hg, hv, hodd, hidx, hcase⟩ := wf.remove_cases h
  have key : ∀ x : Slot α, x.val = none →
      get { slots := sm.slots.set k.idx x, nextFree := sm'.nextFree, len := sm'.len } k' =
        if k' = k then none else sm.get k' := by
    intro x hx
    unfold get
    simp only [List.getElem?_set]
    by_cases hi : k.idx = k'.idx
    · simp only [hi, if_true]
      rw [← hi]; simp only [hidx, if_true, hs, hx]
      by_cases hk : k' = k
      · simp [hk]
      · have : s.gen ≠ k'.gen := by
          intro e; apply hk; cases k'; cases k; simp_all
        simp [hk, this]
    · have hk : k' ≠ k := by intro e; apply hi; rw [e]
      simp [hi, hk]
  rcases hcase with ⟨_, rfl⟩ | ⟨_, rfl⟩
  · exact key _ rfl
  · exact key _ rfl

theorem get_of_remove {sm sm' : SlotMap α} {k : Key} {v : α}
    (h : sm.remove k = some (v, sm')) : sm.get k = some v := by
  unfold remove at h; unfold get
  cases hs : sm.slots[k.idx]? with
  | none => simp [hs] at h
  | some s =>
    simp only [hs] at h ⊢
    by_cases hg : s.gen = k.gen
    · cases hv : s.val with
      | none => simp [hg, hv] at h
      | some v' =>
        simp [hg, hv] at h ⊢
        split at h <;> simp at h <;> exact h.1
    · simp [hg] at h

theorem remove_eq_none_iff {sm : SlotMap α} {k : Key} : sm.remove k = none ↔ sm.get k = none := by
  unfold remove get
  cases hs : sm.slots[k.idx]? with
  | none => simp
  | some s =>
    by_cases hg : s.gen = k.gen
    · cases hv : s.val with
      | none => simp [hg, hv]
      | some v' =>
        simp only [hg, hv, ne_eq, not_true_eq_false, if_false]
        split <;> simp
    · simp [hg]

theorem insertWith_len {sm sm' : SlotMap α} {f : Key → α} {k : Key}
    (h : sm.insertWith f = some (k, sm')) : sm'.len = sm.len + 1 := by
  cases hs : sm.slots[sm.nextFree]? with
  | some s => rw [insertWith_pop hs] at h; cases h; rfl
  | none =>
    by_cases hl : sm.slots.length = U32MAX
    · rw [insertWith_full hs hl] at h; cases h
    · rw [insertWith_push hs hl] at h; cases h; rfl

/-- A successful `remove` decrements a positive `len` (no underflow of the `u32`). -/
theorem remove_len {sm sm' : SlotMap α} (wf : WF sm) {k : Key} {v : α}
    (h : sm.remove k = some (v, sm')) : 0 < sm.len ∧ sm'.len = sm.len - 1 := by
  obtain ⟨s, hs, hg, hv, hodd, hidx, hcase⟩ := wf.remove_cases h
  constructor
  · rw [wf.lenEq]
    apply List.countP_pos_iff.2
    have hget : sm.slots[k.idx] = s := by
      rcases List.getElem?_eq_some_iff.1 hs with ⟨_, h⟩; exact h
    exact ⟨s, by rw [← hget]; exact List.getElem_mem _, by simp; omega⟩
  · rcases hcase with ⟨_, rfl⟩ | ⟨_, rfl⟩ <;> rfl

/-! ### Coverage: why an issued key can never be issued again -/

/-- `Covers sm k`: the slot of `k` exists and is either retired or at a generation `≥ k.gen`.
    Every key that was ever issued stays covered forever; a key about to be issued is not covered. -/
def Covers (sm : SlotMap α) (k : Key) : Prop :=
  ∃ s, sm.slots[k.idx]? = some s ∧ (s.gen = 0 ∨ k.gen ≤ s.gen)

/-- Properties of the key returned by `insertWith`: a valid `Key` (odd generation below `2^32`, index
    below `u32::MAX`), covered afterwards, and strictly above every covered key with the same index. -/
theorem insertWith_key {sm sm' : SlotMap α} (wf : WF sm) {f : Key → α} {k : Key}
    (h : sm.insertWith f = some (k, sm')) :
    k.gen % 2 = 1 ∧ k.gen < GENMOD ∧ k.idx < U32MAX ∧ Covers sm' k ∧
    (∀ k', Covers sm k' → Covers sm' k') ∧
    (∀ k', Covers sm k' → k'.idx = k.idx → k'.gen < k.gen) := by
  rcases wf.insertWith_cases f with
    ⟨s, fl, hs, he, hn, hv, c, nd, hnot, hlt, heq⟩ | ⟨hnf, hlen, heq⟩ | ⟨_, _, heq⟩
  · rw [heq] at h; cases h
    have hg := wf.genLt _ _ hs
    have hsz := wf.size
    refine ⟨by simp; omega, by simp only [GENMOD] at hg ⊢; omega, by simp; omega, ?_, ?_, ?_⟩
    · exact ⟨_, List.getElem?_set_self hlt, Or.inr (Nat.le_refl _)⟩
    · rintro k' ⟨t, ht, hc⟩
      by_cases hi : sm.nextFree = k'.idx
      · rw [← hi, hs] at ht; cases ht
        refine ⟨_, by rw [← hi]; exact List.getElem?_set_self hlt, ?_⟩
        right; show k'.gen ≤ s.gen + 1; omega
      · exact ⟨t, by simp only [List.getElem?_set_ne hi]; exact ht, hc⟩
    · rintro k' ⟨t, ht, hc⟩ hi
      simp only at hi
      rw [hi, hs] at ht; cases ht
      show k'.gen < s.gen + 1; omega
  · rw [heq] at h; cases h
    refine ⟨by simp, by simp [GENMOD], hlen, ?_, ?_, ?_⟩
    · exact ⟨⟨1, U32MAX, some (f ⟨sm.slots.length, 1⟩)⟩, by simp, Or.inr (Nat.le_refl _)⟩
    · rintro k' ⟨t, ht, hc⟩
      exact ⟨t, by rw [List.getElem?_append_left (getElem?_lt ht)]; exact ht, hc⟩
    · rintro k' ⟨t, ht, hc⟩ hi
      have := getElem?_lt ht
      simp only at hi; omega
  · rw [heq] at h; cases h

theorem covers_remove {sm sm' : SlotMap α} (wf : WF sm) {k : Key} {v : α}
    (h : sm.remove k = some (v, sm')) (k' : Key) (hc : Covers sm k') : Covers sm' k' := by
  obtain ⟨s, hs, hg, hv, hodd, hidx, hcase⟩ := wf.remove_cases h
  obtain ⟨t, ht, hc⟩ := hc
  by_cases hi : k.idx = k'.idx
  · rw [← hi, hs] at ht; cases ht
    rcases hcase with ⟨_, rfl⟩ | ⟨_, rfl⟩
    · refine ⟨_, by rw [← hi]; exact List.getElem?_set_self hidx, ?_⟩
      right; show k'.gen ≤ s.gen + 1; omega
    · exact ⟨_, by rw [← hi]; exact List.getElem?_set_self hidx, Or.inl rfl⟩
  · rcases hcase with ⟨_, rfl⟩ | ⟨_, rfl⟩ <;>
      exact ⟨t, by simp only [List.getElem?_set_ne hi]; exact ht, hc⟩

/-! ### Retirement -/

/-- Slot `i` is retired: its generation wrapped to 0. -/
def Retired (sm : SlotMap α) (i : Nat) : Prop := ∃ s, sm.slots[i]? = some s ∧ s.gen = 0

theorem retired_insertWith {sm sm' : SlotMap α} (wf : WF sm) {i : Nat} (hr : Retired sm i)
    {f : Key → α} {k : Key} (h : sm.insertWith f = some (k, sm')) : k.idx ≠ i ∧ Retired sm' i := by
  obtain ⟨t, ht, hz⟩ := hr
  rcases wf.insertWith_cases f with
    ⟨s, fl, hs, he, hn, hv, c, nd, hnot, hlt, heq⟩ | ⟨hnf, hlen, heq⟩ | ⟨_, _, heq⟩
  · rw [heq] at h; cases h
    have hne : sm.nextFree ≠ i := by
      intro e; rw [e, ht] at hs; cases hs; exact hn hz
    exact ⟨hne, t, by simp only [List.getElem?_set_ne hne]; exact ht, hz⟩
  · rw [heq] at h; cases h
    have hi := getElem?_lt ht
    exact ⟨by simp only; omega, t, by rw [List.getElem?_append_left hi]; exact ht, hz⟩
  · rw [heq] at h; cases h

theorem retired_remove {sm sm' : SlotMap α} (wf : WF sm) {i : Nat} (hr : Retired sm i)
    {k : Key} {v : α} (h : sm.remove k = some (v, sm')) : Retired sm' i := by
  obtain ⟨t, ht, hz⟩ := hr
  obtain ⟨s, hs, hg, hv, hodd, hidx, hcase⟩ := wf.remove_cases h
  have hne : k.idx ≠ i := by
    intro e; rw [e, ht] at hs; cases hs; omega
  rcases hcase with ⟨_, rfl⟩ | ⟨_, rfl⟩ <;>
    exact ⟨t, by simp only [List.getElem?_set_ne hne]; exact ht, hz⟩

/-- Removing a key at the last generation (`u32::MAX`) retires its slot. -/
theorem remove_max_retires {sm sm' : SlotMap α} (wf : WF sm) {k : Key} {v : α}
    (h : sm.remove k = some (v, sm')) (hk : k.gen = U32MAX) : Retired sm' k.idx ∧ sm'.nextFree = sm.nextFree := by
  obtain ⟨s, hs, hg, hv, hodd, hidx, hcase⟩ := wf.remove_cases h
  rcases hcase with ⟨hw, rfl⟩ | ⟨_, rfl⟩
  · simp only [GENMOD, U32MAX] at hw hk; omega
  · exact ⟨⟨_, List.getElem?_set_self hidx, rfl⟩, rfl⟩

/-- What the free list looks like in a well-formed map: a duplicate-free list of in-range indices,
    none equal to the end marker, each a vacant (`val = none`, even generation) and non-retired slot. -/
theorem WF.free_list {sm : SlotMap α} (wf : WF sm) :
    ∃ fl, Chain sm.slots sm.nextFree fl ∧ fl.Nodup ∧
      ∀ i ∈ fl, i < sm.slots.length ∧ i ≠ U32MAX ∧ ¬ Retired sm i ∧
        ∃ s, sm.slots[i]? = some s ∧ s.gen % 2 = 0 ∧ s.val = none := by
  obtain ⟨fl, c, nd⟩ := wf.chain
  refine ⟨fl, c, nd, ?_⟩
  intro i hi
  obtain ⟨s, hs, he, hn⟩ := c.mem i hi
  have hlt := getElem?_lt hs
  have hsz := wf.size
  refine ⟨hlt, by omega, ?_, s, hs, he, ?_⟩
  · rintro ⟨t, ht, hz⟩
    rw [hs] at ht; cases ht; exact hn hz
  · have := wf.valIff _ _ hs
    cases hv : s.val with
    | none => rfl
    | some v => rw [hv] at this; simp at this; omega

/-! ### Key prediction (`NextKeyIter`) -/

/-- Result of a batch of reservations made with `nextKey`, threading the cursor. -/
inductive Reserve
  | ok (ks : List Key) (cursor : Nat)
  | exhausted      -- `None` from `NextKeyIter::next` (`reserve` panics "too many entities")
  | badState       -- the `panic!("incorrect state for next key iter")`
deriving Repr, DecidableEq

/-- `count` calls of `NextKeyIter::next` starting with cursor `i`, map not mutated. -/
def reserveN (sm : SlotMap α) : Nat → Nat → Reserve
  | 0, i => .ok [] i
  | n + 1, i =>
    match sm.nextKey i with
    | .key k i' =>
      match reserveN sm n i' with
      | .ok ks j => .ok (k :: ks) j
      | r => r
    | .exhausted => .exhausted
    | .badState => .badState

/-- Successive `insertWith` calls, collecting the returned keys. `none` = capacity exhausted. -/
def insertMany (sm : SlotMap α) : List (Key → α) → Option (List Key × SlotMap α)
  | [] => some ([], sm)
  | f :: fs =>
    match sm.insertWith f with
    | none => none
    | some (k, sm') =>
      match insertMany sm' fs with
      | none => none
      | some (ks, sm'') => some (k :: ks, sm'')

/-- Prediction in the never-allocated region only depends on the cursor. -/
def freshN : Nat → Nat → Reserve
  | 0, i => .ok [] i
  | n + 1, i =>
    if i < U32MAX then
      match freshN n (i + 1) with
      | .ok ks j => .ok (⟨i, 1⟩ :: ks) j
      | r => r
    else .exhausted

theorem nextKey_beyond {sm : SlotMap α} {i : Nat} (h : sm.slots.length ≤ i) :
    sm.nextKey i = if i < U32MAX then .key ⟨i, 1⟩ (i + 1) else .exhausted := by
  simp [nextKey, List.getElem?_eq_none h]

theorem reserveN_beyond {sm : SlotMap α} (n : Nat) {i : Nat} (h : sm.slots.length ≤ i) :
    reserveN sm n i = freshN n i := by
  induction n generalizing i with
  | zero => rfl
  | succ n ih =>
    simp only [reserveN, freshN, nextKey_beyond h]
    by_cases hi : i < U32MAX
    · simp only [hi, if_true]; rw [ih (by omega)]
    · simp [hi]

theorem nextKey_vacant {sm : SlotMap α} {i : Nat} {s : Slot α} (hs : sm.slots[i]? = some s)
    (he : s.gen % 2 = 0) :
    sm.nextKey i = .key ⟨i, s.gen + 1⟩ (if s.next = U32MAX then sm.slots.length else s.next) := by
  simp [nextKey, hs, he]

/-- Prediction only reads the free chain and the length. -/
theorem reserveN_congr {sm sm' : SlotMap α} (hlen : sm'.slots.length = sm.slots.length)
    (n : Nat) {h : Nat} {fl : List Nat} (c : Chain sm.slots h fl)
    (hag : ∀ x ∈ fl, sm'.slots[x]? = sm.slots[x]?) :
    reserveN sm' n (if h = U32MAX then sm.slots.length else h) =
      reserveN sm n (if h = U32MAX then sm.slots.length else h) := by
  induction n generalizing h fl with
  | zero => rfl
  | succ n ih =>
    cases fl with
    | nil =>
      have : h = U32MAX := c
      simp only [this, if_true]
      rw [reserveN_beyond _ (Nat.le_refl _), reserveN_beyond _ (Nat.le_of_eq hlen)]
    | cons j fl =>
      obtain ⟨hj, s, hs, he, hn, c'⟩ := c
      subst hj
      have hs' : sm'.slots[h]? = some s := by rw [hag h (by simp)]; exact hs
      by_cases hU : h = U32MAX
      · simp only [hU, if_true]
        rw [reserveN_beyond _ (Nat.le_refl _), reserveN_beyond _ (Nat.le_of_eq hlen)]
      · simp only [hU, if_false, reserveN, nextKey_vacant hs he, nextKey_vacant hs' he, hlen]
        rw [ih c' (fun x hx => hag x (List.mem_cons_of_mem _ hx))]

/-- One `insertWith` consumes exactly the first predicted key, and the remaining predictions are the
    predictions of the new map. -/
theorem reserve_step {sm sm' : SlotMap α} (wf : WF sm) {f : Key → α} {k : Key}
    (h : sm.insertWith f = some (k, sm')) :
    sm.nextKey sm.nextKeyIndex = .key k sm'.nextKeyIndex ∧
    ∀ n, reserveN sm n sm'.nextKeyIndex = reserveN sm' n sm'.nextKeyIndex := by
  rcases wf.insertWith_cases f with
    ⟨s, fl, hs, he, hn, hv, c, nd, hnot, hlt, heq⟩ | ⟨hnf, hlen, heq⟩ | ⟨_, _, heq⟩
  · rw [heq] at h; cases h
    have hsz := wf.size
    have hne : sm.nextFree ≠ U32MAX := by omega
    constructor
    · simp only [nextKeyIndex, hne, if_false, nextKey_vacant hs he, List.length_set]
    · intro n
      simp only [nextKeyIndex, List.length_set]
      refine (reserveN_congr (by simp) n c ?_).symm
      intro x hx
      have : sm.nextFree ≠ x := fun e => hnot (e ▸ hx)
      simp only [List.getElem?_set_ne this]
  · rw [heq] at h; cases h
    constructor
    · simp only [nextKeyIndex, hnf, if_true, nextKey_beyond (Nat.le_refl _), hlen,
        List.length_append, List.length_singleton]
    · intro n
      simp only [nextKeyIndex, if_true, List.length_append, List.length_singleton]
      rw [reserveN_beyond _ (by omega), reserveN_beyond _ (by simp)]
  · rw [heq] at h; cases h

theorem reserve_full {sm : SlotMap α} (wf : WF sm) {f : Key → α} (h : sm.insertWith f = none) :
    sm.nextKey sm.nextKeyIndex = .exhausted := by
  rcases wf.insertWith_cases f with
    ⟨s, fl, hs, he, hn, hv, c, nd, hnot, hlt, heq⟩ | ⟨hnf, hlen, heq⟩ | ⟨hnf, hlen, heq⟩
  · rw [heq] at h; cases h
  · rw [heq] at h; cases h
  · have : sm.nextKeyIndex = U32MAX := by simp [nextKeyIndex, hnf, hlen]
    rw [this, nextKey_beyond (Nat.le_of_eq hlen)]; simp

theorem WF.insertMany {sm sm' : SlotMap α} (wf : WF sm) {fs : List (Key → α)} {ks : List Key}
    (h : sm.insertMany fs = some (ks, sm')) : WF sm' := by
  induction fs generalizing sm ks with
  | nil => simp [SlotMap.insertMany] at h; rw [← h.2]; exact wf
  | cons f fs ih =>
    simp only [SlotMap.insertMany] at h
    cases h1 : sm.insertWith f with
    | none => simp [h1] at h
    | some r =>
      obtain ⟨k, sm1⟩ := r
      simp only [h1] at h
      cases h2 : sm1.insertMany fs with
      | none => simp [h2] at h
      | some r2 =>
        obtain ⟨ks2, sm2⟩ := r2
        simp [h2] at h
        rw [h.2] at h2
        exact ih (wf.insertWith h1) h2

/-- Exact characterisation: reservations from `nextKeyIndex` agree with the inserts that follow. -/
theorem reserveN_eq_insertMany {sm : SlotMap α} (wf : WF sm) (fs : List (Key → α)) :
    reserveN sm fs.length sm.nextKeyIndex =
      match sm.insertMany fs with
      | some (ks, sm') => .ok ks sm'.nextKeyIndex
      | none => .exhausted := by
  induction fs generalizing sm with
  | nil => rfl
  | cons f fs ih =>
    simp only [List.length_cons, reserveN, SlotMap.insertMany]
    cases h1 : sm.insertWith f with
    | none => simp [reserve_full wf h1]
    | some r =>
      obtain ⟨k, sm1⟩ := r
      obtain ⟨hk, hrest⟩ := reserve_step wf h1
      simp only [hk, hrest, ih (wf.insertWith h1)]
      cases sm1.insertMany fs with
      | none => rfl
      | some r2 => rfl

theorem reserveN_bad {sm : SlotMap α} {n i : Nat} (h : reserveN sm n i = .badState) :
    ∃ j, sm.nextKey j = .badState := by
  induction n generalizing i with
  | zero => simp [reserveN] at h
  | succ n ih =>
    simp only [reserveN] at h
    cases hk : sm.nextKey i with
    | key k i' =>
      simp only [hk] at h
      cases hr : reserveN sm n i' with
      | ok ks j => simp [hr] at h
      | exhausted => simp [hr] at h
      | badState => exact ih hr
    | exhausted => simp [hk] at h
    | badState => exact ⟨i, hk⟩

theorem nextKey_bad_nonempty {sm : SlotMap α} (wf : WF sm) {j : Nat} (h : sm.nextKey j = .badState) :
    Nonempty α := by
  unfold nextKey at h
  cases hs : sm.slots[j]? with
  | none => simp only [hs] at h; split at h <;> cases h
  | some s =>
    simp only [hs] at h
    by_cases he : s.gen % 2 = 0
    · simp [he] at h
    · have := (wf.valIff _ _ hs).2 (by omega)
      cases hv : s.val with
      | none => simp [hv] at this
      | some v => exact ⟨v⟩

/-! ### `toList` -/

theorem mem_toList_iff {sm : SlotMap α} (wf : WF sm) (k : Key) (v : α) :
    (k, v) ∈ sm.toList ↔ sm.get k = some v := by
  unfold toList get
  simp only [List.mem_filterMap, List.mem_zipIdx_iff_getElem?, Prod.exists]
  constructor
  · rintro ⟨s, i, hs, hf⟩
    by_cases he : s.gen % 2 = 0
    · simp [he] at hf
    · simp only [he, if_false, Option.map_eq_some_iff] at hf
      obtain ⟨v', hv, heq⟩ := hf
      cases heq
      simp [hs, hv]
  · intro h
    cases hs : sm.slots[k.idx]? with
    | none => simp [hs] at h
    | some s =>
      simp only [hs] at h
      by_cases hg : s.gen = k.gen
      · simp only [hg, if_true] at h
        have hodd : s.gen % 2 = 1 := (wf.valIff _ _ hs).1 (by simp [h])
        refine ⟨s, k.idx, hs, ?_⟩
        have : ¬ k.gen % 2 = 0 := by omega
        simp only [h, Option.map_some, hg, this, if_false]
      · simp [hg] at h

end SlotMap

/-! ### Operation histories -/

/-- One operation of a history. `ins v` is `insert(v)` = `insert_with(|_| v)`; `insWith f` is the
    general `insert_with(f)` whose value may depend on the key (as in the registries). -/
inductive SMOp (α : Type)
  | ins (v : α)
  | insWith (f : Key → α)
  | rem (k : Key)

/-- State of a run: the map, every key returned by `insertWith` (oldest first) and every key
    successfully removed (oldest first). -/
structure Trace (α : Type) where
  sm : SlotMap α := {}
  issued : List Key := []
  removed : List Key := []

namespace Trace
variable {α : Type}

/-- Insert, recording the returned key; at capacity (`insertWith = none`) the state is unchanged. -/
def insStep (t : Trace α) (f : Key → α) : Trace α :=
  match t.sm.insertWith f with
  | some (k, sm') => { sm := sm', issued := t.issued ++ [k], removed := t.removed }
  | none => t

/-- Remove, recording the key when the removal succeeds; otherwise the state is unchanged. -/
def remStep (t : Trace α) (k : Key) : Trace α :=
  match t.sm.remove k with
  | some (_, sm') => { sm := sm', issued := t.issued, removed := t.removed ++ [k] }
  | none => t

/-- Execute one operation. -/
def step (t : Trace α) : SMOp α → Trace α
  | .ins v => t.insStep (fun _ => v)
  | .insWith f => t.insStep f
  | .rem k => t.remStep k

theorem insStep_some {t : Trace α} {f : Key → α} {k : Key} {sm' : SlotMap α}
    (h : t.sm.insertWith f = some (k, sm')) :
    t.insStep f = { sm := sm', issued := t.issued ++ [k], removed := t.removed } := by
  simp [insStep, h]

theorem insStep_none {t : Trace α} {f : Key → α} (h : t.sm.insertWith f = none) :
    t.insStep f = t := by
  simp [insStep, h]

theorem remStep_some {t : Trace α} {k : Key} {v : α} {sm' : SlotMap α}
    (h : t.sm.remove k = some (v, sm')) :
    t.remStep k = { sm := sm', issued := t.issued, removed := t.removed ++ [k] } := by
  simp [remStep, h]

theorem remStep_none {t : Trace α} {k : Key} (h : t.sm.remove k = none) :
    t.remStep k = t := by
  simp [remStep, h]

def runFrom (t : Trace α) (ops : List (SMOp α)) : Trace α := ops.foldl step t

theorem runFrom_append (t : Trace α) (a b : List (SMOp α)) :
    t.runFrom (a ++ b) = (t.runFrom a).runFrom b := by
  simp [runFrom, List.foldl_append]

/-- Induction principle: a predicate preserved by `insStep` and `remStep` is preserved by `step`. -/
theorem step_ind {P : Trace α → Prop} {t : Trace α} (hi : ∀ f, P (t.insStep f))
    (hr : ∀ k, P (t.remStep k)) (op : SMOp α) : P (t.step op) := by
  cases op with
  | ins v => exact hi _
  | insWith f => exact hi f
  | rem k => exact hr k

/-- The history invariant. -/
structure Inv (t : Trace α) : Prop where
  wf : t.sm.WF
  covered : ∀ k ∈ t.issued, t.sm.Covers k
  valid : ∀ k ∈ t.issued, k.gen % 2 = 1 ∧ k.gen < GENMOD ∧ k.idx < U32MAX
  /-- issued keys, in order: a later key with the same index has a strictly larger generation -/
  mono : t.issued.Pairwise (fun a b => a.idx = b.idx → a.gen < b.gen)
  live : ∀ k, (t.sm.get k).isSome ↔ (k ∈ t.issued ∧ k ∉ t.removed)
  remSub : ∀ k ∈ t.removed, k ∈ t.issued
  remNodup : t.removed.Nodup
  lenEq : t.sm.len + t.removed.length = t.issued.length

theorem inv_init : Inv ({} : Trace α) := by
  refine ⟨SlotMap.wf_empty, ?_, ?_, ?_, ?_, ?_, ?_, ?_⟩ <;> simp [SlotMap.get]

theorem Inv.insStep {t : Trace α} (inv : Inv t) (f : Key → α) : Inv (t.insStep f) := by
  cases h : t.sm.insertWith f with
  | none => rw [insStep_none h]; exact inv
  | some r =>
    obtain ⟨k, sm'⟩ := r
    rw [insStep_some h]
    obtain ⟨hodd, hlt, hidx, hcov, hmono, hfresh⟩ := SlotMap.insertWith_key inv.wf h
    have hget := SlotMap.get_insertWith inv.wf h
    have hnew : k ∉ t.issued := by
      intro hm
      have := hfresh k (inv.covered k hm) rfl
      omega
    refine ⟨inv.wf.insertWith h, ?_, ?_, ?_, ?_, ?_, inv.remNodup, ?_⟩
    · intro k' hk'
      rcases List.mem_append.1 hk' with hk' | hk'
      · exact hmono _ (inv.covered _ hk')
      · simp at hk'; subst hk'; exact hcov
    · intro k' hk'
      rcases List.mem_append.1 hk' with hk' | hk'
      · exact inv.valid _ hk'
      · simp at hk'; subst hk'; exact ⟨hodd, hlt, hidx⟩
    · refine List.pairwise_append.2 ⟨inv.mono, by simp, ?_⟩
      intro a ha b hb hi
      simp at hb; subst hb
      exact hfresh a (inv.covered a ha) hi
    · intro k'
      simp only [hget k']
      by_cases hk : k' = k
      · subst hk
        have : k' ∉ t.removed := fun hm => hnew (inv.remSub _ hm)
        simp [this]
      · simp [hk, inv.live k']
    · intro k' hk'; exact List.mem_append_left _ (inv.remSub _ hk')
    · have h1 := SlotMap.insertWith_len h
      have := inv.lenEq
      simp only [List.length_append, List.length_singleton, h1]; omega

theorem Inv.remStep {t : Trace α} (inv : Inv t) (k : Key) : Inv (t.remStep k) := by
  cases h : t.sm.remove k with
  | none => rw [remStep_none h]; exact inv
  | some r =>
    obtain ⟨v, sm'⟩ := r
    rw [remStep_some h]
    have hget := SlotMap.get_remove inv.wf h
    have hk := SlotMap.get_of_remove h
    have hlive : k ∈ t.issued ∧ k ∉ t.removed := (inv.live k).1 (by simp [hk])
    have hlen := SlotMap.remove_len inv.wf h
    refine ⟨inv.wf.remove h, ?_, inv.valid, inv.mono, ?_, ?_, ?_, ?_⟩
    · intro k' hk'; exact SlotMap.covers_remove inv.wf h k' (inv.covered _ hk')
    · intro k'
      simp only [hget k']
      by_cases hkk : k' = k
      · subst hkk; simp
      · simp [hkk, inv.live k']
    · intro k' hk'
      rcases List.mem_append.1 hk' with hk' | hk'
      · exact inv.remSub _ hk'
      · simp at hk'; subst hk'; exact hlive.1
    · exact List.nodup_append.2 ⟨inv.remNodup, by simp, by
        intro a ha b hb; simp at hb; subst hb; intro e; subst e; exact hlive.2 ha⟩
    · have := inv.lenEq
      simp only [List.length_append, List.length_singleton]; omega

theorem Inv.step {t : Trace α} (inv : Inv t) (op : SMOp α) : Inv (t.step op) :=
  step_ind (P := Inv) inv.insStep inv.remStep op

theorem Inv.runFrom {t : Trace α} (inv : Inv t) (ops : List (SMOp α)) : Inv (t.runFrom ops) := by
  induction ops generalizing t with
  | nil => exact inv
  | cons op ops ih => exact ih (inv.step op)

/-! Monotonicity of the recorded lists, retired slots along a run -/

theorem step_issued_prefix (t : Trace α) (op : SMOp α) : t.issued <+: (t.step op).issued := by
  refine step_ind (P := fun t' => t.issued <+: t'.issued) ?_ ?_ op
  · intro f
    cases h : t.sm.insertWith f with
    | none => rw [insStep_none h]; exact List.prefix_rfl
    | some r => obtain ⟨k, sm'⟩ := r; rw [insStep_some h]; exact List.prefix_append _ _
  · intro k
    cases h : t.sm.remove k with
    | none => rw [remStep_none h]; exact List.prefix_rfl
    | some r => obtain ⟨v, sm'⟩ := r; rw [remStep_some h]; exact List.prefix_rfl

theorem step_removed_prefix (t : Trace α) (op : SMOp α) : t.removed <+: (t.step op).removed := by
  refine step_ind (P := fun t' => t.removed <+: t'.removed) ?_ ?_ op
  · intro f
    cases h : t.sm.insertWith f with
    | none => rw [insStep_none h]; exact List.prefix_rfl
    | some r => obtain ⟨k, sm'⟩ := r; rw [insStep_some h]; exact List.prefix_rfl
  · intro k
    cases h : t.sm.remove k with
    | none => rw [remStep_none h]; exact List.prefix_rfl
    | some r => obtain ⟨v, sm'⟩ := r; rw [remStep_some h]; exact List.prefix_append _ _

theorem runFrom_issued_prefix (t : Trace α) (ops : List (SMOp α)) :
    t.issued <+: (t.runFrom ops).issued := by
  induction ops generalizing t with
  | nil => exact List.prefix_rfl
  | cons op ops ih => exact (step_issued_prefix t op).trans (ih (t.step op))

theorem runFrom_removed_prefix (t : Trace α) (ops : List (SMOp α)) :
    t.removed <+: (t.runFrom ops).removed := by
  induction ops generalizing t with
  | nil => exact List.prefix_rfl
  | cons op ops ih => exact (step_removed_prefix t op).trans (ih (t.step op))

theorem wf_step {t : Trace α} (wf : t.sm.WF) (op : SMOp α) : (t.step op).sm.WF := by
  refine step_ind (P := fun t' => t'.sm.WF) ?_ ?_ op
  · intro f
    cases h : t.sm.insertWith f with
    | none => rw [insStep_none h]; exact wf
    | some r => obtain ⟨k, sm'⟩ := r; rw [insStep_some h]; exact wf.insertWith h
  · intro k
    cases h : t.sm.remove k with
    | none => rw [remStep_none h]; exact wf
    | some r => obtain ⟨v, sm'⟩ := r; rw [remStep_some h]; exact wf.remove h

theorem wf_runFrom {t : Trace α} (wf : t.sm.WF) (ops : List (SMOp α)) : (t.runFrom ops).sm.WF := by
  induction ops generalizing t with
  | nil => exact wf
  | cons op ops ih => exact ih (wf_step wf op)

/-- A retired slot stays retired and its index is never handed out by any continuation. -/
theorem retired_runFrom {t : Trace α} (wf : t.sm.WF) {i : Nat} (hr : t.sm.Retired i)
    (ops : List (SMOp α)) :
    (t.runFrom ops).sm.Retired i ∧
    ∃ ext, (t.runFrom ops).issued = t.issued ++ ext ∧ ∀ k ∈ ext, k.idx ≠ i := by
  induction ops generalizing t with
  | nil => exact ⟨hr, [], by simp [runFrom], by simp⟩
  | cons op ops ih =>
    have key : (t.step op).sm.Retired i ∧
        ∃ e, (t.step op).issued = t.issued ++ e ∧ ∀ k ∈ e, k.idx ≠ i := by
      refine step_ind (P := fun t' => t'.sm.Retired i ∧
        ∃ e, t'.issued = t.issued ++ e ∧ ∀ k ∈ e, k.idx ≠ i) ?_ ?_ op
      · intro f
        cases h : t.sm.insertWith f with
        | none => rw [insStep_none h]; exact ⟨hr, [], by simp, by simp⟩
        | some r =>
          obtain ⟨k, sm'⟩ := r
          rw [insStep_some h]
          obtain ⟨h1, h2⟩ := SlotMap.retired_insertWith wf hr h
          exact ⟨h2, [k], rfl, by simpa using h1⟩
      · intro k
        cases h : t.sm.remove k with
        | none => rw [remStep_none h]; exact ⟨hr, [], by simp, by simp⟩
        | some r =>
          obtain ⟨v, sm'⟩ := r
          rw [remStep_some h]
          exact ⟨SlotMap.retired_remove wf hr h, [], by simp, by simp⟩
    obtain ⟨hr1, e1, he1, hn1⟩ := key
    obtain ⟨hr2, e2, he2, hn2⟩ := ih (wf_step wf op) hr1
    refine ⟨hr2, e1 ++ e2, ?_, ?_⟩
    · show ((t.step op).runFrom ops).issued = _
      rw [he2, he1, List.append_assoc]
    · intro k hk
      rcases List.mem_append.1 hk with hk | hk
      · exact hn1 k hk
      · exact hn2 k hk

end Trace

/-- Run a history from the empty map. -/
def run {α : Type} (ops : List (SMOp α)) : Trace α := Trace.runFrom {} ops

theorem run_append {α : Type} (ops more : List (SMOp α)) :
    run (ops ++ more) = (run ops).runFrom more := Trace.runFrom_append _ _ _

theorem run_snoc {α : Type} (ops : List (SMOp α)) (op : SMOp α) :
    run (ops ++ [op]) = (run ops).step op := by
  simp [run_append, Trace.runFrom]

theorem inv_run {α : Type} (ops : List (SMOp α)) : (run ops).Inv := Trace.inv_init.runFrom ops

end Evenio
