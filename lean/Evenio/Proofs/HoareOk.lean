import Evenio.Proofs.Keeps
/-! Partial-correctness triples for normal returns of the world monad: `HoareOk P m Q` — if `P` holds before and
    `m` returns normally with value `a`, then `Q a` holds after. (Nothing is claimed about runs that throw.) The
    `hoare_inv` tactic proves triples whose precondition is kept as an invariant by every step. -/
namespace Evenio

structure HoareOk {α : Type} (P : World → Prop) (m : M α) (Q : α → World → Prop) : Prop where
  run : ∀ w, P w → ∀ a w', m.run.run w = (.ok a, w') → Q a w'

namespace HoareOk
variable {α β : Type} {P : World → Prop}

theorem pure {a : α} {Q : α → World → Prop} (h : ∀ w, P w → Q a w) : HoareOk P (Pure.pure a : M α) Q :=
  ⟨fun w hw a' w' hr => by cases hr; exact h w hw⟩

theorem throw (e : Err) {Q : α → World → Prop} : HoareOk P (MonadExcept.throw e : M α) Q :=
  ⟨fun w _ a' w' hr => by cases hr⟩

theorem ubErr (s : String) {Q : α → World → Prop} : HoareOk P (Evenio.ubErr s : M α) Q := throw _

theorem bind {m : M α} {f : α → M β} {R : α → World → Prop} {Q : β → World → Prop}
    (hm : HoareOk P m R) (hf : ∀ a, HoareOk (R a) (f a) Q) : HoareOk P (m >>= f) Q := by
  refine ⟨fun w hw b w' hr => ?_⟩
  rw [run_bind] at hr
  generalize hm' : m.run.run w = r at hr
  obtain ⟨(e|a), w1⟩ := r
  · cases hr
  · exact (hf a).run w1 (hm.run w hw a w1 hm') b w' hr

/-- a step that keeps the precondition -/
theorem bind_inv {m : M α} {f : α → M β} {Q : β → World → Prop}
    (hm : HoareOk P m (fun _ => P)) (hf : ∀ a, HoareOk P (f a) Q) : HoareOk P (m >>= f) Q :=
  bind hm hf

/-- whatever `m` does, `m; throw e` does not return normally -/
theorem bind_throw {m : M α} {e : Err} {Q : β → World → Prop} :
    HoareOk P (m >>= fun _ => (MonadExcept.throw e : M β)) Q := by
  refine ⟨fun w _ b w' hr => ?_⟩
  rw [run_bind] at hr
  generalize m.run.run w = r at hr
  obtain ⟨(e|a), w1⟩ := r <;> cases hr

theorem get_bind {f : World → M β} {Q : β → World → Prop} (hf : ∀ w, P w → HoareOk P (f w) Q) :
    HoareOk P (MonadState.get >>= f) Q := by
  refine ⟨fun w hw b w' hr => ?_⟩
  rw [run_bind, run_get] at hr
  exact (hf w hw).run w hw b w' hr

theorem pre {P' : World → Prop} {m : M α} {Q : α → World → Prop} (h : HoareOk P' m Q) (hp : ∀ w, P w → P' w) :
    HoareOk P m Q :=
  ⟨fun w hw a w' hr => h.run w (hp w hw) a w' hr⟩

theorem post {m : M α} {Q Q' : α → World → Prop} (h : HoareOk P m Q) (hq : ∀ a w, Q a w → Q' a w) :
    HoareOk P m Q' :=
  ⟨fun w hw a w' hr => hq a w' (h.run w hw a w' hr)⟩

/-- an invariant kept on every return is in particular kept on normal return -/
theorem of_keeps {m : M α} (h : Keeps P m) : HoareOk P m (fun _ => P) :=
  ⟨fun w hw a w' hr => by have := h.run w hw; rw [hr] at this; exact this⟩

/-- a `tryCatch` whose handler never returns normally behaves, on normal return, like its body -/
theorem tryCatch_rethrow {m : M α} {h : Err → M α} {Q : α → World → Prop} (hm : HoareOk P m Q)
    (hh : ∀ e w a w', (h e).run.run w ≠ (.ok a, w')) : HoareOk P (MonadExcept.tryCatch m h) Q := by
  refine ⟨fun w hw a w' hr => ?_⟩
  rw [run_tryCatch] at hr
  generalize hm' : m.run.run w = r at hr
  obtain ⟨(e|a1), w1⟩ := r
  · exact absurd hr (hh e w1 a w')
  · cases hr; exact hm.run w hw a w' hm'

theorem forIn_list {γ : Type} {l : List γ} {b : β} {f : γ → β → M (ForInStep β)} (Inv : β → World → Prop)
    (hf : ∀ a b, HoareOk (Inv b) (f a b) (fun r => Inv r.value)) : HoareOk (Inv b) (forIn l b f) Inv := by
  induction l generalizing b with
  | nil => exact HoareOk.pure fun _ h => h
  | cons a l ih =>
    rw [List.forIn_cons]
    refine bind (hf a b) fun r => ?_
    cases r with
    | done b => exact HoareOk.pure fun _ h => h
    | yield b => exact ih

/-- loops that keep the precondition -/
theorem forIn_list_inv {γ : Type} {l : List γ} {b : β} {f : γ → β → M (ForInStep β)}
    (hf : ∀ a b, HoareOk P (f a b) (fun _ => P)) : HoareOk P (forIn l b f) (fun _ => P) :=
  forIn_list (fun _ => P) hf

theorem forIn_range_inv {r : Std.Legacy.Range} {b : β} {f : Nat → β → M (ForInStep β)}
    (hf : ∀ a b, HoareOk P (f a b) (fun _ => P)) : HoareOk P (forIn r b f) (fun _ => P) := by
  rw [Std.Legacy.Range.forIn_eq_forIn_range']
  exact forIn_list_inv hf

theorem ite {c : Prop} [Decidable c] {t e : M α} {Q : α → World → Prop} (ht : HoareOk P t Q) (he : HoareOk P e Q) :
    HoareOk P (if c then t else e) Q := by
  split <;> assumption

end HoareOk

/-- closes `∀ w, P w → Q a w` at a `pure`; extended with `macro_rules` -/
syntax "hoare_close" : tactic
macro_rules | `(tactic| hoare_close) => `(tactic| first | exact fun _ h => h | exact fun _ h => ⟨h, rfl⟩ | exact fun _ _ => trivial)

/-- closes `∀ a w, P w → Q a w` after a leaf in tail position -/
syntax "hoare_close_post" : tactic
macro_rules | `(tactic| hoare_close_post) => `(tactic| first | exact fun _ _ h => h | exact fun _ _ h => ⟨h, rfl⟩ | exact fun _ _ _ => trivial)

/-- leaf triples about named model functions; extended with `macro_rules` -/
syntax "hoare_leaf" : tactic
macro_rules | `(tactic| hoare_leaf) => `(tactic| fail "no leaf triple")

/-- proof-local special steps (tried at default transparency, before the generic `bind` rule) -/
syntax "hoare_special" : tactic
macro_rules | `(tactic| hoare_special) => `(tactic| fail "no special step")

syntax "hoare_inv_step" : tactic
macro_rules
  | `(tactic| hoare_inv_step) => `(tactic| first
      | ((with_reducible refine HoareOk.pure ?_); hoare_close)
      | with_reducible exact HoareOk.throw _
      | with_reducible exact HoareOk.ubErr _
      | with_reducible exact HoareOk.bind_throw
      | with_reducible hoare_leaf
      | hoare_special
      | ((with_reducible refine HoareOk.of_keeps ?_); keeps; done)
      | (with_reducible refine HoareOk.get_bind (fun _ _ => ?_))
      | (with_reducible refine HoareOk.bind_inv ?_ (fun _ => ?_))
      | (with_reducible refine HoareOk.forIn_list_inv (fun _ _ => ?_))
      | (with_reducible refine HoareOk.forIn_range_inv (fun _ _ => ?_))
      | (with_reducible refine HoareOk.ite ?_ ?_)
      | dsimp only
      | split
      | ((with_reducible refine HoareOk.post (HoareOk.of_keeps ?k) ?p); (case k => (keeps; done)); (case p => hoare_close_post)))

/-- prove `HoareOk P m Q` when every step of `m` keeps `P` and `Q` follows from `P` at every normal exit -/
macro "hoare_inv" : tactic => `(tactic| repeat' hoare_inv_step)

end Evenio
