import Evenio.Model.SparseMap
/-! Proofs about `SparseMap` (sparse_map.rs): the well-formedness invariant that makes the
    `get_unchecked` accesses in bounds, its preservation by `insert`/`remove`, the map laws, and the
    alignment of `keys()` with `values()` that `FetcherState::iter`/`par_iter` rely on (C06, C19).
    Core Lean only. -/
namespace Evenio
namespace SparseMap
variable {ν : Type}

/-- Well-formedness.  Stated with `[·]?` so that no bound proofs appear in the statement;
    `wf_iff_bounded` shows it is the same as the bounded-index formulation
    (`indices.length = dense.length`, `sparse[indices[i]] = i` for `i < indices.length`,
    `sparse[k] = MAX ∨ indices[sparse[k]] = k` for `k < sparse.length`, `dense.length < MAX`). -/
structure WF (m : SparseMap ν) : Prop where
  len : m.indices.length = m.dense.length
  fwd : ∀ i k : Nat, m.indices[i]? = some k → m.sparse[k]? = some i
  bwd : ∀ k i : Nat, m.sparse[k]? = some i → i = U32MAX ∨ m.indices[i]? = some k
  small : m.dense.length < U32MAX

theorem wf_iff_bounded (m : SparseMap ν) :
    WF m ↔
      m.indices.length = m.dense.length ∧
      (∀ i (h : i < m.indices.length), ∃ h' : m.indices[i] < m.sparse.length, m.sparse[m.indices[i]] = i) ∧
      (∀ k (h : k < m.sparse.length), m.sparse[k] = U32MAX ∨
        ∃ h' : m.sparse[k] < m.indices.length, m.indices[m.sparse[k]] = k) ∧
      m.dense.length < U32MAX := by
  constructor
  · rintro ⟨h1, h2, h3, h4⟩
    refine ⟨h1, ?_, ?_, h4⟩
    · intro i h
      have := h2 i m.indices[i] (List.getElem?_eq_getElem h)
      exact List.getElem?_eq_some_iff.1 this
    · intro k h
      rcases h3 k m.sparse[k] (List.getElem?_eq_getElem h) with h | h
      · exact .inl h
      · exact .inr (List.getElem?_eq_some_iff.1 h)
  · rintro ⟨h1, h2, h3, h4⟩
    refine ⟨h1, ?_, ?_, h4⟩
    · intro i k h
      obtain ⟨hi, rfl⟩ := List.getElem?_eq_some_iff.1 h
      exact List.getElem?_eq_some_iff.2 (h2 i hi)
    · intro k i h
      obtain ⟨hk, rfl⟩ := List.getElem?_eq_some_iff.1 h
      rcases h3 k hk with h | h
      · exact .inl h
      · exact .inr (List.getElem?_eq_some_iff.2 h)

theorem wf_empty : WF ({} : SparseMap ν) :=
  ⟨rfl, by simp, by simp, by simp [U32MAX]⟩

/-! ### `Vec::swap_remove` -/

theorem length_swapRemove {α : Type} (l : List α) (i : Nat) :
    (swapRemove l i).length = l.length - 1 := by
  unfold swapRemove
  cases h : l.getLast? with
  | none => simp_all
  | some last => dsimp only; split <;> simp

theorem getElem?_swapRemove {α : Type} (l : List α) (i j : Nat) (h : i < l.length) :
    (swapRemove l i)[j]? =
      if j + 1 < l.length then (if j = i then l[l.length - 1]? else l[j]?) else none := by
  unfold swapRemove
  cases hl : l.getLast? with
  | none => simp_all
  | some last =>
    rw [List.getLast?_eq_getElem?] at hl
    dsimp only
    split
    · rw [List.getElem?_dropLast]
      grind
    · rw [List.getElem?_dropLast, List.length_set, List.getElem?_set]
      grind

/-! ### the resized `sparse` vector of `insert` -/

/-- `sparse.resize(key + 1, MAX)` if `key` is out of range -/
def ext (sparse : List Nat) (key : Nat) : List Nat :=
  if key ≥ sparse.length then sparse ++ List.replicate (key + 1 - sparse.length) U32MAX else sparse

theorem getElem?_ext (s : List Nat) (key k : Nat) :
    (ext s key)[k]? = if k < s.length then s[k]? else if k ≤ key then some U32MAX else none := by
  unfold ext
  split
  · rw [List.getElem?_append, List.getElem?_replicate]; grind
  · grind

theorem length_ext (s : List Nat) (key : Nat) : key < (ext s key).length := by
  unfold ext
  split
  · simp; omega
  · omega

/-- `insert`, case "key absent": push -/
def insertNew (m : SparseMap ν) (key : Nat) (v : ν) : SparseMap ν :=
  { sparse := (ext m.sparse key).set key m.dense.length, dense := m.dense ++ [v],
    indices := m.indices ++ [key] }

/-- `insert`, case "key present at `idx`": overwrite -/
def insertOld (m : SparseMap ν) (idx : Nat) (v : ν) : SparseMap ν :=
  { sparse := m.sparse, dense := m.dense.set idx v, indices := m.indices }

theorem insert_eq (m : SparseMap ν) (key : Nat) (v : ν) :
    m.insert key v =
      match m.sparse[key]? with
      | none => insertNew m key v
      | some idx => if idx = U32MAX then insertNew m key v else insertOld m idx v := by
  have he := getElem?_ext m.sparse key key
  have hl := length_ext m.sparse key
  unfold insert
  change (match (ext m.sparse key)[key]? with | some idx => _ | none => _) = _
  cases hs : m.sparse[key]? with
  | none =>
    have : ¬ key < m.sparse.length := by
      intro h; rw [List.getElem?_eq_getElem h] at hs; cases hs
    rw [if_neg this, if_pos (Nat.le_refl _)] at he
    rw [he]; simp [insertNew, ext]
  | some idx =>
    have : key < m.sparse.length := by
      apply Classical.byContradiction; intro h
      rw [List.getElem?_eq_none_iff.2 (Nat.le_of_not_lt h)] at hs; cases hs
    rw [if_pos this, hs] at he
    rw [he]
    dsimp only
    split
    · simp [insertNew, ext]
    · have : ¬ key ≥ m.sparse.length := by omega
      simp [insertOld, this]

theorem getElem?_insertNew_sparse (m : SparseMap ν) (key : Nat) (v : ν) (k : Nat) :
    (insertNew m key v).sparse[k]? =
      if k = key then some m.dense.length
      else if k < m.sparse.length then m.sparse[k]?
      else if k ≤ key then some U32MAX else none := by
  have hl := length_ext m.sparse key
  simp only [insertNew, List.getElem?_set, getElem?_ext, hl, if_true]
  grind

theorem getElem?_snoc {α : Type} (l : List α) (a : α) (i : Nat) :
    (l ++ [a])[i]? = if i = l.length then some a else l[i]? := by
  rw [List.getElem?_append]
  grind

/-- the two situations in which `insert` pushes a new entry -/
def Absent (m : SparseMap ν) (key : Nat) : Prop :=
  m.sparse[key]? = none ∨ m.sparse[key]? = some U32MAX

theorem wf_insertNew {m : SparseMap ν} (h : WF m) {key : Nat} (ha : Absent m key) (v : ν)
    (hlen : m.dense.length + 1 < U32MAX) : WF (insertNew m key v) := by
  obtain ⟨h1, h2, h3, h4⟩ := h
  refine ⟨?_, ?_, ?_, ?_⟩
  · simp [insertNew, h1]
  · intro i k hik
    rw [getElem?_insertNew_sparse]
    simp only [insertNew, getElem?_snoc] at hik
    unfold Absent at ha
    grind
  · intro k i hki
    rw [getElem?_insertNew_sparse] at hki
    simp only [insertNew, getElem?_snoc]
    unfold Absent at ha
    grind
  · simpa [insertNew] using hlen

theorem wf_insertOld {m : SparseMap ν} (h : WF m) (idx : Nat) (v : ν) : WF (insertOld m idx v) := by
  obtain ⟨h1, h2, h3, h4⟩ := h
  exact ⟨by simp [insertOld, h1], h2, h3, by simpa [insertOld] using h4⟩

/-- `insert` preserves well-formedness.  `key < U32MAX` is the `assert_ne!` of the Rust code (keys are
    `u32`).  `hlen` is the capacity side condition: pushing a NEW key needs room below the `MAX` sentinel
    (`dense.len() + 1 < u32::MAX`); it is not needed when the key is already present. -/
theorem insert_wf {m : SparseMap ν} (h : WF m) {key : Nat} (_hk : key < U32MAX) (v : ν)
    (hlen : m.get key = none → m.dense.length + 1 < U32MAX) : WF (m.insert key v) := by
  rw [insert_eq]
  cases hs : m.sparse[key]? with
  | none =>
    exact wf_insertNew h (.inl hs) v (hlen (by simp [get, hs]))
  | some idx =>
    dsimp only
    split
    · next hi =>
      subst hi
      exact wf_insertNew h (.inr hs) v (hlen (by simp [get, hs]))
    · exact wf_insertOld h idx v

/-! ### remove -/

/-- `remove`, case "key present at `idx`", before the `sparse` fix-up of the moved key -/
def removeAt (m : SparseMap ν) (key idx : Nat) : SparseMap ν :=
  let sparse := m.sparse.set key U32MAX
  let indices := swapRemove m.indices idx
  { sparse := match indices[idx]? with
      | some moved => sparse.set moved idx
      | none => sparse,
    dense := swapRemove m.dense idx, indices }

theorem remove_eq (m : SparseMap ν) (key : Nat) :
    m.remove key =
      match m.sparse[key]? with
      | none => m
      | some idx => if idx = U32MAX then m else removeAt m key idx := by
  unfold remove
  cases hs : m.sparse[key]? with
  | none => rfl
  | some idx =>
    dsimp only
    split
    · next hi =>
      subst hi
      have : m.sparse.set key U32MAX = m.sparse := by
        apply List.ext_getElem?
        intro j
        rw [List.getElem?_set]
        grind
      rw [this]
    · unfold removeAt
      dsimp only
      cases (swapRemove m.indices idx)[idx]? <;> rfl

theorem getElem?_removeAt_indices (m : SparseMap ν) (key idx j : Nat) (h : idx < m.indices.length) :
    (removeAt m key idx).indices[j]? =
      if j + 1 < m.indices.length then
        (if j = idx then m.indices[m.indices.length - 1]? else m.indices[j]?) else none := by
  simp only [removeAt, getElem?_swapRemove _ _ _ h]

theorem getElem?_removeAt_dense (m : SparseMap ν) (key idx j : Nat) (h : idx < m.dense.length) :
    (removeAt m key idx).dense[j]? =
      if j + 1 < m.dense.length then
        (if j = idx then m.dense[m.dense.length - 1]? else m.dense[j]?) else none := by
  simp only [removeAt, getElem?_swapRemove _ _ _ h]

/-- pointwise description of `sparse` after removing `key` stored at `idx` (under `WF`) -/
theorem getElem?_removeAt_sparse {m : SparseMap ν} (hw : WF m) {key idx : Nat}
    (hs : m.sparse[key]? = some idx) (hi : idx ≠ U32MAX) (k : Nat) :
    (removeAt m key idx).sparse[k]? =
      if k = key then some U32MAX
      else if m.sparse[k]? = some (m.indices.length - 1) then some idx
      else m.sparse[k]? := by
  obtain ⟨h1, h2, h3, h4⟩ := hw
  have hk : m.indices[idx]? = some key := by
    rcases h3 key idx hs with h | h
    · exact absurd h hi
    · exact h
  have hlt : idx < m.indices.length := (List.getElem?_eq_some_iff.1 hk).1
  have hkl : key < m.sparse.length := (List.getElem?_eq_some_iff.1 hs).1
  have hm := getElem?_swapRemove m.indices idx idx hlt
  simp only [removeAt]
  by_cases hlast : idx + 1 < m.indices.length
  · -- a key is moved into the hole
    have hlast' : m.indices.length - 1 < m.indices.length := by omega
    have hmv : m.indices[m.indices.length - 1]? = some m.indices[m.indices.length - 1] :=
      List.getElem?_eq_getElem hlast'
    have hsm := h2 _ _ hmv
    rw [if_pos hlast, if_pos rfl, hmv] at hm
    rw [hm]
    dsimp only
    rw [List.getElem?_set, List.getElem?_set, List.length_set]
    have hml : m.indices[m.indices.length - 1] < m.sparse.length :=
      (List.getElem?_eq_some_iff.1 hsm).1
    grind
  · -- the removed key was the last one
    rw [if_neg hlast] at hm
    rw [hm]
    dsimp only
    rw [List.getElem?_set]
    grind

theorem wf_removeAt {m : SparseMap ν} (hw : WF m) {key idx : Nat}
    (hs : m.sparse[key]? = some idx) (hi : idx ≠ U32MAX) : WF (removeAt m key idx) := by
  have hsp := getElem?_removeAt_sparse hw hs hi
  obtain ⟨h1, h2, h3, h4⟩ := hw
  have hk : m.indices[idx]? = some key := by
    rcases h3 key idx hs with h | h
    · exact absurd h hi
    · exact h
  have hlt : idx < m.indices.length := (List.getElem?_eq_some_iff.1 hk).1
  have hin := fun j => getElem?_removeAt_indices m key idx j hlt
  refine ⟨?_, ?_, ?_, ?_⟩
  · simp [removeAt, length_swapRemove, h1]
  · intro i k hik
    rw [hsp]
    rw [hin] at hik
    grind
  · intro k i hki
    rw [hsp] at hki
    rw [hin]
    grind
  · simp only [removeAt, length_swapRemove]; omega

theorem remove_wf {m : SparseMap ν} (h : WF m) (key : Nat) : WF (m.remove key) := by
  rw [remove_eq]
  cases hs : m.sparse[key]? with
  | none => exact h
  | some idx =>
    dsimp only
    split
    · exact h
    · next hi => exact wf_removeAt h hs hi

/-! ### map laws -/

/-- under `WF`, a stored dense index is in bounds of `dense` and below the sentinel -/
theorem WF.idx_lt {m : SparseMap ν} (hw : WF m) {key idx : Nat} (hs : m.sparse[key]? = some idx)
    (hi : idx ≠ U32MAX) : idx < m.dense.length ∧ m.indices[idx]? = some key := by
  rcases hw.bwd key idx hs with h | h
  · exact absurd h hi
  · exact ⟨hw.len ▸ (List.getElem?_eq_some_iff.1 h).1, h⟩

/-- under `WF` the `get_unchecked` in `get`/`get_mut` is never out of bounds -/
theorem getChecked_eq {m : SparseMap ν} (hw : WF m) (k : Nat) : m.getChecked k = some (m.get k) := by
  unfold getChecked get
  cases hs : m.sparse[k]? with
  | none => rfl
  | some idx =>
    dsimp only
    split
    · rfl
    · next hge =>
      have := (hw.idx_lt hs (by omega)).1
      rw [List.getElem?_eq_getElem this]

theorem getChecked_ne_none {m : SparseMap ν} (hw : WF m) (k : Nat) : m.getChecked k ≠ none := by
  rw [getChecked_eq hw]; exact Option.some_ne_none _

/-- `get` in terms of the aligned `indices`/`dense` vectors -/
theorem get_eq_some_iff {m : SparseMap ν} (hw : WF m) (k : Nat) (v : ν) :
    m.get k = some v ↔ ∃ i : Nat, m.indices[i]? = some k ∧ m.dense[i]? = some v := by
  unfold get
  constructor
  · intro h
    cases hs : m.sparse[k]? with
    | none => rw [hs] at h; cases h
    | some idx =>
      rw [hs] at h
      dsimp only at h
      split at h
      · cases h
      · exact ⟨idx, (hw.idx_lt hs (by omega)).2, h⟩
  · rintro ⟨i, hi, hv⟩
    have hs := hw.fwd i k hi
    have hlt : i < m.dense.length := (List.getElem?_eq_some_iff.1 hv).1
    have := hw.small
    rw [hs]
    dsimp only
    rw [if_neg (by omega)]
    exact hv

theorem get_eq_none_iff {m : SparseMap ν} (hw : WF m) (k : Nat) : m.get k = none ↔ k ∉ m.keys := by
  rw [keys, List.mem_iff_getElem?]
  constructor
  · rintro h ⟨i, hi⟩
    have hlt : i < m.dense.length := hw.len ▸ (List.getElem?_eq_some_iff.1 hi).1
    have := (get_eq_some_iff hw k m.dense[i]).2 ⟨i, hi, List.getElem?_eq_getElem hlt⟩
    rw [h] at this; cases this
  · intro h
    cases hg : m.get k with
    | none => rfl
    | some v =>
      obtain ⟨i, hi, -⟩ := (get_eq_some_iff hw k v).1 hg
      exact absurd ⟨i, hi⟩ h

theorem keys_nodup {m : SparseMap ν} (hw : WF m) : m.keys.Nodup := by
  rw [keys, List.nodup_iff_pairwise_ne, List.pairwise_iff_getElem]
  intro i j hi hj hij e
  have h1 := hw.fwd i _ (List.getElem?_eq_getElem hi)
  have h2 := hw.fwd j _ (List.getElem?_eq_getElem hj)
  rw [e, h2] at h1
  cases h1
  omega

/-- `keys()` and `values()` are aligned: zipping them gives exactly the association list of `get`.
    This is what `FetcherState::iter`/`par_iter` (`zip_eq`) rely on. -/
theorem keys_values_aligned {m : SparseMap ν} (hw : WF m) (k : Nat) (v : ν) :
    m.get k = some v ↔ (k, v) ∈ m.keys.zip m.values := by
  rw [get_eq_some_iff hw, keys, values, List.mem_iff_getElem?]
  simp only [List.getElem?_zip_eq_some]

theorem keys_length_eq_values_length {m : SparseMap ν} (hw : WF m) :
    m.keys.length = m.values.length := hw.len

theorem get_insert_same {m : SparseMap ν} (hw : WF m) (key : Nat) (v : ν) :
    (m.insert key v).get key = some v := by
  have hsm := hw.small
  rw [insert_eq]
  cases hs : m.sparse[key]? with
  | none =>
    simp only [get, getElem?_insertNew_sparse, if_true]
    rw [if_neg (by omega)]
    simp [insertNew]
  | some idx =>
    dsimp only
    split
    · simp only [get, getElem?_insertNew_sparse, if_true]
      rw [if_neg (by omega)]
      simp [insertNew]
    · next hi =>
      have := (hw.idx_lt hs hi).1
      simp only [get, insertOld, hs]
      rw [if_neg (by omega)]
      simp [this]

theorem get_insert_other {m : SparseMap ν} (hw : WF m) {key k : Nat} (hne : k ≠ key) (v : ν) :
    (m.insert key v).get k = m.get k := by
  have hsm := hw.small
  have hnew : (insertNew m key v).get k = m.get k := by
    simp only [get, getElem?_insertNew_sparse, if_neg hne]
    by_cases hk : k < m.sparse.length
    · rw [if_pos hk]
      cases hs : m.sparse[k]? with
      | none => rfl
      | some idx =>
        dsimp only
        split
        · rfl
        · next hge =>
          have := (hw.idx_lt hs (by omega)).1
          simp only [insertNew]
          rw [List.getElem?_append_left this]
    · rw [if_neg hk, List.getElem?_eq_none_iff.2 (Nat.le_of_not_lt hk)]
      by_cases hkk : k ≤ key
      · rw [if_pos hkk]; simp
      · rw [if_neg hkk]
  rw [insert_eq]
  cases hs : m.sparse[key]? with
  | none => exact hnew
  | some idx =>
    dsimp only
    split
    · exact hnew
    · next hi =>
      obtain ⟨hlt, hik⟩ := hw.idx_lt hs hi
      simp only [get, insertOld]
      cases hs' : m.sparse[k]? with
      | none => rfl
      | some idx' =>
        dsimp only
        split
        · rfl
        · next hge =>
          have hik' := (hw.idx_lt hs' (by omega)).2
          have : idx ≠ idx' := by
            intro e; subst e; rw [hik] at hik'; cases hik'; exact hne rfl
          rw [List.getElem?_set_ne this]

theorem get_remove_same {m : SparseMap ν} (hw : WF m) (key : Nat) : (m.remove key).get key = none := by
  rw [remove_eq]
  cases hs : m.sparse[key]? with
  | none => simp [get, hs]
  | some idx =>
    dsimp only
    split
    · next hi => subst hi; simp [get, hs]
    · next hi =>
      simp only [get, getElem?_removeAt_sparse hw hs hi, if_true]
      simp

theorem get_remove_other {m : SparseMap ν} (hw : WF m) {key k : Nat} (hne : k ≠ key) :
    (m.remove key).get k = m.get k := by
  rw [remove_eq]
  cases hs : m.sparse[key]? with
  | none => rfl
  | some idx =>
    dsimp only
    split
    · rfl
    · next hi =>
      obtain ⟨hlt, hik⟩ := hw.idx_lt hs hi
      have hsm := hw.small
      have hlen := hw.len
      simp only [get, getElem?_removeAt_sparse hw hs hi, if_neg hne]
      have hd := fun j => getElem?_removeAt_dense m key idx j hlt
      cases hs' : m.sparse[k]? with
      | none => simp
      | some idx' =>
        by_cases hge : idx' ≥ U32MAX
        · have : idx' ≠ m.indices.length - 1 := by omega
          simp [this, hge]
        · obtain ⟨hlt', hik'⟩ := hw.idx_lt hs' (by omega)
          have hne' : idx' ≠ idx := by
            intro e; subst e; rw [hik] at hik'; cases hik'; exact hne rfl
          by_cases hl : idx' = m.indices.length - 1
          · subst hl
            simp only [if_true]
            rw [if_neg (by omega), if_neg hge, hd, if_pos (by omega), if_pos rfl, hlen]
          · simp only [Option.some.injEq, hl, if_false]
            rw [if_neg hge, if_neg hge, hd, if_pos (by omega), if_neg hne']

/-! ### discharging the capacity side condition of `insert_wf` -/

/-- pigeonhole: a duplicate-free list of naturals below `N` has at most `N` elements -/
theorem length_le_of_nodup_of_lt {l : List Nat} (hn : l.Nodup) {N : Nat} (hb : ∀ k ∈ l, k < N) :
    l.length ≤ N := by
  induction N generalizing l with
  | zero =>
    cases l with
    | nil => exact Nat.le_refl 0
    | cons a l => exact absurd (hb a (List.mem_cons_self ..)) (Nat.not_lt_zero a)
  | succ N ih =>
    have h1 : (l.erase N).length ≤ N := by
      refine ih (hn.erase N) fun k hk => ?_
      obtain ⟨hne, hkl⟩ := hn.mem_erase_iff.1 hk
      have := hb k hkl
      omega
    rw [List.length_erase] at h1
    split at h1 <;> omega

/-- a well-formed map whose keys are all below `N` holds at most `N` entries -/
theorem WF.length_le {m : SparseMap ν} (hw : WF m) {N : Nat} (hb : ∀ k ∈ m.keys, k < N) :
    m.dense.length ≤ N := by
  rw [← hw.len]; exact length_le_of_nodup_of_lt (keys_nodup hw) hb

/-- `insert_wf` with the capacity condition discharged from a bound on the key space: if every key ever
    inserted is below some `N < U32MAX` (in evenio: archetype / component / event indices, all far below
    `u32::MAX`), `insert` preserves well-formedness unconditionally. -/
theorem insert_wf_of_bound {m : SparseMap ν} (hw : WF m) {N : Nat} (hN : N < U32MAX)
    (hb : ∀ k ∈ m.keys, k < N) {key : Nat} (hk : key < N) (v : ν) : WF (m.insert key v) := by
  refine insert_wf hw (Nat.lt_trans hk hN) v fun hg => ?_
  have hnot := (get_eq_none_iff hw key).1 hg
  have hnd : (key :: m.keys).Nodup := List.nodup_cons.2 ⟨hnot, keys_nodup hw⟩
  have := length_le_of_nodup_of_lt hnd (N := N) (by
    intro k hk'
    rcases List.mem_cons.1 hk' with rfl | h
    · exact hk
    · exact hb k h)
  rw [List.length_cons, keys, hw.len] at this
  omega

/-- the keys after an `insert` (for maintaining the bound of `insert_wf_of_bound` along a history) -/
theorem mem_keys_insert (m : SparseMap ν) (key : Nat) (v : ν) (k : Nat) :
    k ∈ (m.insert key v).keys → k = key ∨ k ∈ m.keys := by
  intro h
  by_cases hk : k = key
  · exact .inl hk
  · refine .inr ?_
    rw [insert_eq] at h
    cases hs : m.sparse[key]? with
    | none => rw [hs] at h; simpa [insertNew, keys, hk] using h
    | some idx =>
      rw [hs] at h
      dsimp only at h
      split at h
      · simpa [insertNew, keys, hk] using h
      · exact h

/-- the keys after a `remove` -/
theorem mem_keys_remove {m : SparseMap ν} (hw : WF m) (key k : Nat) :
    k ∈ (m.remove key).keys → k ∈ m.keys := by
  intro h
  apply Classical.byContradiction
  intro hn
  have h1 := (get_eq_none_iff hw k).2 hn
  have h2 : ¬ (m.remove key).get k = none := fun e => (get_eq_none_iff (remove_wf hw key) k).1 e h
  by_cases hk : k = key
  · subst hk; exact h2 (get_remove_same hw k)
  · rw [get_remove_other hw hk] at h2; exact h2 h1

/-! ### non-vacuity -/
section Examples

/-- the unit test of sparse_map.rs, replayed on the model -/
def exMap : SparseMap Char :=
  ((((((({} : SparseMap Char).insert 12 'a').insert 5 'b').insert 42 'c').insert 5 'd').remove 42).insert 42
    'e').insert 43 'f'

example : exMap.get 12 = some 'a' ∧ exMap.get 5 = some 'd' ∧ exMap.get 42 = some 'e' ∧
    exMap.get 43 = some 'f' ∧ exMap.get 7 = none ∧ exMap.get 1000 = none := by decide

example : exMap.keys = [12, 5, 42, 43] ∧ exMap.values = ['a', 'd', 'e', 'f'] := by decide

example : (exMap.remove 12).keys = [43, 5, 42] ∧ (exMap.remove 12).values = ['f', 'd', 'e'] ∧
    (exMap.remove 12).get 43 = some 'f' := by decide

/-- `WF` is not vacuous on it … -/
example : WF (({} : SparseMap Char).insert 3 'x') :=
  insert_wf wf_empty (by decide) _ (fun _ => by decide)

/-- … and it is needed: on an ill-formed map the unchecked access IS out of bounds. -/
example : ({ sparse := [7], dense := ['a'], indices := [0] } : SparseMap Char).getChecked 0 = none := by
  decide

end Examples

end SparseMap
end Evenio

#print axioms Evenio.SparseMap.wf_iff_bounded
#print axioms Evenio.SparseMap.wf_empty
#print axioms Evenio.SparseMap.insert_wf
#print axioms Evenio.SparseMap.remove_wf
#print axioms Evenio.SparseMap.get_insert_same
#print axioms Evenio.SparseMap.get_insert_other
#print axioms Evenio.SparseMap.get_remove_same
#print axioms Evenio.SparseMap.get_remove_other
#print axioms Evenio.SparseMap.get_eq_none_iff
#print axioms Evenio.SparseMap.get_eq_some_iff
#print axioms Evenio.SparseMap.keys_nodup
#print axioms Evenio.SparseMap.keys_values_aligned
#print axioms Evenio.SparseMap.keys_length_eq_values_length
#print axioms Evenio.SparseMap.getChecked_eq
#print axioms Evenio.SparseMap.getChecked_ne_none
#print axioms Evenio.SparseMap.insert_wf_of_bound
#print axioms Evenio.SparseMap.mem_keys_insert
#print axioms Evenio.SparseMap.mem_keys_remove
