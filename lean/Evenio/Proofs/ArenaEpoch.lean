import Evenio.Proofs.Frame
/-! No function reachable from `deliverOne` assigns `arenaEpoch` (C20): the arena epoch is part of the frame
    (`Evenio/Proofs/Frame.lean`). -/
namespace Evenio

/-- the invariant: the arena epoch is `n` -/
abbrev AE (n : Nat) : World → Prop := fun w => w.arenaEpoch = n

/-- a computation that keeps every frame keeps the arena epoch -/
theorem Keeps.ae_of_frame {α : Type} {m : M α} (h : ∀ c, Keeps (FR c) m) (n : Nat) : Keeps (AE n) m :=
  ⟨fun w hw => by
    have := (h w.frame).run w rfl
    have e : (m.run.run w).2.arenaEpoch = w.arenaEpoch := congrArg Frame.arenaEpoch this
    exact e.trans hw⟩

variable {n : Nat}

theorem deliverOne_ae (it : QItem) : Keeps (AE n) (deliverOne it) := Keeps.ae_of_frame (fun _ => deliverOne_fr it) n
theorem runHandler_ae (hk : Key) (it : QItem) (loc : Loc) : Keeps (AE n) (runHandler hk it loc) :=
  Keeps.ae_of_frame (fun _ => runHandler_fr hk it loc) n
theorem runAct_ae (hk : Key) (it : QItem) (loc : Loc) (act : Act) : Keeps (AE n) (runAct hk it loc act) :=
  Keeps.ae_of_frame (fun _ => runAct_fr hk it loc act) n
theorem dropQueued_ae : Keeps (AE n) dropQueued := Keeps.ae_of_frame (fun _ => dropQueued_fr) n

end Evenio
