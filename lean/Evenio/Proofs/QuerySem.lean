import Evenio.Model.Query
import Evenio.Proofs.AccessSem
/-! Helper lemmas for C06: the structural matcher (`Query.archState`), the access expression
    (`Query.init`) and the documented Boolean meaning (`Query.sem`) agree; `AS.item` reads only the
    columns its arch state refers to. -/
namespace Evenio

/-- evaluates closed `CA`/`Query.init` expressions by rewriting with the defining equations.
    (`mergeCase` is defined by well-founded recursion, so plain `decide` gets stuck on it; this uses
    `simp` with the equation lemmas and the generated tables instead — no extra axioms.) -/
macro "ca_eval" : tactic =>
  `(tactic| (set_option linter.unusedSimpArgs false in
      simp [Query.init, CA.and, CA.or, CA.not, CA.tt, CA.ff, CA.var, CA.clearAccess, CA.hasConflict,
        CA.matches, Case.sat, lit, positive, varLit, negLit, negate, clearLit, mergeCase, combine]))

theorem archState_isSome (S : Nat → Bool) (q : Query) : (q.archState S).isSome = q.sem S := by
  induction q with
  | ref c => cases h : S c <;> simp [Query.archState, Query.sem, h]
  | «mut» c => cases h : S c <;> simp [Query.archState, Query.sem, h]
  | unit => rfl
  | snoc t q iht ihq =>
    simp only [Query.archState, Query.sem, ← iht, ← ihq]
    cases Query.archState S t <;> cases Query.archState S q <;> rfl
  | opt q ih =>
    simp only [Query.archState, Query.sem]
    cases Query.archState S q <;> rfl
  | or l r ihl ihr =>
    simp only [Query.archState, Query.sem, ← ihl, ← ihr]
    cases Query.archState S l <;> cases Query.archState S r <;> rfl
  | xor l r ihl ihr =>
    simp only [Query.archState, Query.sem, ← ihl, ← ihr]
    cases Query.archState S l <;> cases Query.archState S r <;> rfl
  | not q ih =>
    simp only [Query.archState, Query.sem, ← ih]
    cases Query.archState S q <;> rfl
  | wth q ih =>
    simp only [Query.archState, Query.sem, ← ih]
    cases Query.archState S q <;> rfl
  | has q ih => rfl
  | eid => rfl
  | phantom => rfl

theorem archState_eq_none (S : Nat → Bool) (q : Query) : q.archState S = none ↔ q.sem S = false := by
  rw [← archState_isSome]; cases q.archState S <;> simp

theorem archState_eq_some (S : Nat → Bool) (q : Query) : (∃ a, q.archState S = some a) ↔ q.sem S = true := by
  rw [← archState_isSome]; cases q.archState S <;> simp

theorem init_matches (S : Nat → Bool) (q : Query) : q.init.matches S = q.sem S := by
  induction q with
  | ref c => simp [Query.init, Query.sem]
  | «mut» c => simp [Query.init, Query.sem]
  | unit => simp [Query.init, Query.sem]
  | snoc t q iht ihq => simp [Query.init, Query.sem, and_matches, iht, ihq]
  | opt q ih => simp [Query.init, Query.sem, or_matches]
  | or l r ihl ihr =>
    simp only [Query.init, Query.sem, or_matches, and_matches, ihl, ihr]
    cases Query.sem S l <;> cases Query.sem S r <;> rfl
  | xor l r ihl ihr =>
    simp only [Query.init, Query.sem, or_matches, and_matches, not_matches, ihl, ihr]
    cases Query.sem S l <;> cases Query.sem S r <;> rfl
  | not q ih => simp [Query.init, Query.sem, not_matches, ih]
  | wth q ih => simp [Query.init, Query.sem, clear_matches, ih]
  | has q ih => simp [Query.init, Query.sem]
  | eid => simp [Query.init, Query.sem]
  | phantom => simp [Query.init, Query.sem]

/-- every `.r c v` / `.m c v` leaf of an item carries the value `rd c` -/
def Item.leavesFrom (rd : Nat → Option Nat) : Item → Prop
  | .r c v => rd c = Option.some v
  | .m c v => rd c = Option.some v
  | .eid _ _ => True
  | .triv => True
  | .flag _ => True
  | .snoc t i => leavesFrom rd t ∧ leavesFrom rd i
  | .some i => leavesFrom rd i
  | .none => True
  | .left i => leavesFrom rd i
  | .right i => leavesFrom rd i
  | .both i j => leavesFrom rd i ∧ leavesFrom rd j

theorem item_congr (rd rd' : Nat → Option Nat) (ent : Nat × Nat) (st : AS)
    (h : ∀ c m, (c, m) ∈ st.refs → rd c = rd' c) : st.item rd ent = st.item rd' ent := by
  induction st with
  | col c m =>
    have := h c m (by simp [AS.refs])
    cases m <;> simp [AS.item, this]
  | ids => rfl
  | triv => rfl
  | flag b => rfl
  | snoc t a iht iha =>
    simp only [AS.refs, List.mem_append] at h
    simp only [AS.item, iht (fun c m hm => h c m (Or.inl hm)), iha (fun c m hm => h c m (Or.inr hm))]
  | optSome a ih => simp only [AS.item, ih (fun c m hm => h c m (by simpa [AS.refs] using hm))]
  | optNone => rfl
  | left a ih => simp only [AS.item, ih (fun c m hm => h c m (by simpa [AS.refs] using hm))]
  | right a ih => simp only [AS.item, ih (fun c m hm => h c m (by simpa [AS.refs] using hm))]
  | both a b iha ihb =>
    simp only [AS.refs, List.mem_append] at h
    simp only [AS.item, iha (fun c m hm => h c m (Or.inl hm)), ihb (fun c m hm => h c m (Or.inr hm))]

theorem item_leaves (rd : Nat → Option Nat) (ent : Nat × Nat) (st : AS) (it : Item)
    (h : st.item rd ent = some it) : it.leavesFrom rd := by
  induction st generalizing it with
  | col c m =>
    cases m <;> simp only [AS.item, Option.map_eq_some_iff] at h <;>
      (obtain ⟨v, hv, rfl⟩ := h; simpa [Item.leavesFrom] using hv)
  | ids => simp only [AS.item, Option.some.injEq] at h; subst h; trivial
  | triv => simp only [AS.item, Option.some.injEq] at h; subst h; trivial
  | flag b => simp only [AS.item, Option.some.injEq] at h; subst h; trivial
  | snoc t a iht iha =>
    simp only [AS.item] at h
    cases ht : AS.item rd ent t <;> cases ha : AS.item rd ent a <;> simp [ht, ha] at h
    subst h; exact ⟨iht _ ht, iha _ ha⟩
  | optSome a ih =>
    simp only [AS.item, Option.map_eq_some_iff] at h
    obtain ⟨v, hv, rfl⟩ := h; simpa [Item.leavesFrom] using ih _ hv
  | optNone => simp only [AS.item, Option.some.injEq] at h; subst h; trivial
  | left a ih =>
    simp only [AS.item, Option.map_eq_some_iff] at h
    obtain ⟨v, hv, rfl⟩ := h; simpa [Item.leavesFrom] using ih _ hv
  | right a ih =>
    simp only [AS.item, Option.map_eq_some_iff] at h
    obtain ⟨v, hv, rfl⟩ := h; simpa [Item.leavesFrom] using ih _ hv
  | both a b iha ihb =>
    simp only [AS.item] at h
    cases ht : AS.item rd ent a <;> cases ha : AS.item rd ent b <;> simp [ht, ha] at h
    subst h; exact ⟨iha _ ht, ihb _ ha⟩

/-- the item exists (no UB marker) exactly when every referenced column exists -/
theorem item_isSome (rd : Nat → Option Nat) (ent : Nat × Nat) (st : AS) :
    (st.item rd ent).isSome = st.refs.all fun r => (rd r.1).isSome := by
  induction st with
  | col c m => cases m <;> simp [AS.item, AS.refs]
  | ids => rfl
  | triv => rfl
  | flag b => rfl
  | snoc t a iht iha =>
    simp only [AS.item, AS.refs, List.all_append, ← iht, ← iha]
    cases AS.item rd ent t <;> cases AS.item rd ent a <;> rfl
  | optSome a ih => simp [AS.item, AS.refs, ← ih]
  | optNone => rfl
  | left a ih => simp [AS.item, AS.refs, ← ih]
  | right a ih => simp [AS.item, AS.refs, ← ih]
  | both a b iha ihb =>
    simp only [AS.item, AS.refs, List.all_append, ← iha, ← ihb]
    cases AS.item rd ent a <;> cases AS.item rd ent b <;> rfl

/-- every column an arch state refers to exists on the archetype it was built for -/
theorem archState_refs_present (S : Nat → Bool) (q : Query) (st : AS)
    (h : q.archState S = some st) : ∀ r ∈ st.refs, S r.1 = true := by
  induction q generalizing st with
  | ref c =>
    simp only [Query.archState] at h
    split at h <;> simp at h
    subst h; simpa [AS.refs]
  | «mut» c =>
    simp only [Query.archState] at h
    split at h <;> simp at h
    subst h; simpa [AS.refs]
  | unit => simp only [Query.archState, Option.some.injEq] at h; subst h; simp [AS.refs]
  | snoc t q iht ihq =>
    simp only [Query.archState] at h
    cases ht : Query.archState S t <;> cases hq : Query.archState S q <;> simp [ht, hq] at h
    subst h
    intro r hr
    simp only [AS.refs, List.mem_append] at hr
    rcases hr with hr | hr
    · exact iht _ ht r hr
    · exact ihq _ hq r hr
  | opt q ih =>
    simp only [Query.archState] at h
    cases hq : Query.archState S q <;> simp [hq] at h <;> subst h
    · simp [AS.refs]
    · simpa [AS.refs] using ih _ hq
  | or l r ihl ihr =>
    simp only [Query.archState] at h
    cases hl : Query.archState S l <;> cases hr : Query.archState S r <;> simp [hl, hr] at h <;> subst h
    · simpa [AS.refs] using ihr _ hr
    · simpa [AS.refs] using ihl _ hl
    · intro x hx
      simp only [AS.refs, List.mem_append] at hx
      rcases hx with hx | hx
      · exact ihl _ hl x hx
      · exact ihr _ hr x hx
  | xor l r ihl ihr =>
    simp only [Query.archState] at h
    cases hl : Query.archState S l <;> cases hr : Query.archState S r <;> simp [hl, hr] at h <;> subst h
    · simpa [AS.refs] using ihr _ hr
    · simpa [AS.refs] using ihl _ hl
  | not q ih =>
    simp only [Query.archState] at h
    cases hq : Query.archState S q <;> simp [hq] at h
    subst h; simp [AS.refs]
  | wth q ih =>
    simp only [Query.archState, Option.map_eq_some_iff] at h
    obtain ⟨_, _, rfl⟩ := h; simp [AS.refs]
  | has q ih => simp only [Query.archState, Option.some.injEq] at h; subst h; simp [AS.refs]
  | eid => simp only [Query.archState, Option.some.injEq] at h; subst h; simp [AS.refs]
  | phantom => simp only [Query.archState, Option.some.injEq] at h; subst h; simp [AS.refs]

end Evenio
