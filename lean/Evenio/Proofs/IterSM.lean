import Evenio.Model.IterSM
import Evenio.Proofs.StorageRefine
/-! # The sequential fetcher iterator: the pointer state machine computes what `paramRows` computes

`Evenio/Model/IterSM.lean` models `fetch.rs: Iter` literally (offsets `pos`/`last`, `row`, `len`, the `next` and `len()`
code paths with their `unwrap_unchecked`/`assume_unchecked` markers).  Here:

* `spec` — the abstraction function: the items a state will still yield and the marker it will end in (if any);
  `next_spec`: ONE call of `next` is exactly "uncons of `spec`" (for every `keys`/`count`, no cache invariant);
* `drainFrom_spec` / `runFrom_spec` — the drivers compute `spec`;
* `run_exact`, `remaining_exact`, `lens_exact`, `fused`, `first_may_be_empty`, `stale_marker_*`, `run_dead`, `no_oob`;
* `paramRows_cases`, `paramRows_eq_run`, `paramRows_ok`, `paramRows_marker_iff`, `paramRows_error`, `paramRows_rowsOf` — the
  executed world model's `paramRows` against the state machine;
* `Example` — non-vacuity on a concrete cache / world.
Core Lean only. -/
namespace Evenio
namespace IterSM

variable {keys : List Nat} {count : Nat → Option Nat} {it it' : IterSM}

/-! ## vocabulary of the statements -/

/-- the fetcher-cache invariant as seen by the iterator (`CacheGroup.live` + exactness of the cache, C10 `CachesOK`):
    every cached archetype is live and non-empty -/
def Good (keys : List Nat) (count : Nat → Option Nat) : Prop := ∀ k ∈ keys, ∃ n, count k = some n ∧ 0 < n

/-- every cached archetype is live (possibly empty) -/
def AllLive (keys : List Nat) (count : Nat → Option Nat) : Prop := ∀ k ∈ keys, ∃ n, count k = some n

/-- entity count, `0` for a dead archetype -/
def cnt (count : Nat → Option Nat) (k : Nat) : Nat := (count k).getD 0

/-- rows of the archetypes `ks`, the first of which sits at position `j` of the dense arrays -/
def rowsFrom (count : Nat → Option Nat) (j : Nat) (ks : List Nat) : List (Nat × Nat) :=
  (ks.zipIdx j).flatMap fun ki => (List.range (cnt count ki.1)).map fun r => (ki.2, r)

/-- every row of every cached archetype exactly once: archetypes in dense-array order, rows ascending -/
def rowsOf (keys : List Nat) (count : Nat → Option Nat) : List (Nat × Nat) := rowsFrom count 0 keys

/-- number of entities in the cached archetypes -/
def total (keys : List Nat) (count : Nat → Option Nat) : Nat := (keys.map (cnt count)).sum

/-- `[n, n-1, …, 0]` -/
def countdown : Nat → List Nat
  | 0 => [0]
  | n + 1 => (n + 1) :: countdown n

theorem countdown_getElem? (n i : Nat) (h : i ≤ n) : (countdown n)[i]? = some (n - i) := by
  induction n generalizing i with
  | zero => cases Nat.le_zero.1 h; rfl
  | succ n ih =>
    cases i with
    | zero => rfl
    | succ i =>
      rw [countdown, List.getElem?_cons_succ, ih i (by omega)]
      congr 1
      omega

theorem countdown_length (n : Nat) : (countdown n).length = n + 1 := by
  induction n with
  | zero => rfl
  | succ n ih => simp [countdown, ih]

theorem Good.allLive (h : Good keys count) : AllLive keys count := fun k hk =>
  let ⟨n, hn, _⟩ := h k hk; ⟨n, hn⟩

/-! ## state invariant and abstraction function -/

/-- what `iter_unchecked` establishes and `next` keeps (for ANY `keys`, `count`) -/
structure Valid (keys : List Nat) (it : IterSM) : Prop where
  last_eq : it.last = keys.length - 1
  pos_le : it.pos ≤ it.last
  row_le : it.row ≤ it.len

/-- rows `row, row+1, …, len-1` of the archetype at position `pos` -/
def curRows (pos row len : Nat) : List (Nat × Nat) := (List.range' row (len - row)).map fun r => (pos, r)

/-- what entering the archetypes `ks` one after the other (the `row == len` branch of `next`) yields: the items, and the
    marker the traversal ends in (`none`: it reaches the end) -/
def tailSpec (count : Nat → Option Nat) : Nat → List Nat → List (Nat × Nat) × Option String
  | _, [] => ([], none)
  | j, k :: ks =>
    match count k with
    | none => ([], some siteGet)
    | some n =>
      if n = 0 then ([], some siteAssume)
      else (curRows j 0 n ++ (tailSpec count (j + 1) ks).1, (tailSpec count (j + 1) ks).2)

/-- abstraction function: everything the state `it` will still yield, and how the iteration ends -/
def spec (keys : List Nat) (count : Nat → Option Nat) (it : IterSM) : List (Nat × Nat) × Option String :=
  (curRows it.pos it.row it.len ++ (tailSpec count (it.pos + 1) (keys.drop (it.pos + 1))).1,
   (tailSpec count (it.pos + 1) (keys.drop (it.pos + 1))).2)

theorem curRows_self (p n : Nat) : curRows p n n = [] := by simp [curRows]

theorem curRows_lt {p row len : Nat} (h : row < len) : curRows p row len = (p, row) :: curRows p (row + 1) len := by
  unfold curRows
  have : len - row = (len - (row + 1)) + 1 := by omega
  rw [this, List.range'_succ]
  rfl

theorem curRows_length (p row len : Nat) : (curRows p row len).length = len - row := by simp [curRows]

theorem tailSpec_cons_none {k : Nat} (j : Nat) (ks : List Nat) (h : count k = none) :
    tailSpec count j (k :: ks) = ([], some siteGet) := by simp [tailSpec, h]

theorem tailSpec_cons_zero {k : Nat} (j : Nat) (ks : List Nat) (h : count k = some 0) :
    tailSpec count j (k :: ks) = ([], some siteAssume) := by simp [tailSpec, h]

theorem tailSpec_cons_pos {k n : Nat} (j : Nat) (ks : List Nat) (h : count k = some n) (hn : n ≠ 0) :
    tailSpec count j (k :: ks) = (curRows j 0 n ++ (tailSpec count (j + 1) ks).1, (tailSpec count (j + 1) ks).2) := by
  simp [tailSpec, h, hn]

/-- one call of `next`, seen through `spec` -/
inductive Step (keys : List Nat) (count : Nat → Option Nat) (it : IterSM) : Prop
  | stop : spec keys count it = ([], none) → next keys count it = .ok (none, it) → Step keys count it
  | err (e : String) : spec keys count it = ([], some e) → next keys count it = .error e → e ≠ siteOob →
      Step keys count it
  | yield (x : Nat × Nat) (xs : List (Nat × Nat)) (oe : Option String) (it' : IterSM) :
      spec keys count it = (x :: xs, oe) → next keys count it = .ok (some x, it') → Valid keys it' →
      spec keys count it' = (xs, oe) → Step keys count it

/-- **`next` is `uncons` of the abstraction**, for every cache and every archetype table -/
theorem next_spec (hv : Valid keys it) : Step keys count it := by
  obtain ⟨hl, hp, hr⟩ := hv
  by_cases hrow : it.row = it.len
  · by_cases hpos : it.pos = it.last
    · have hdrop : keys.drop (it.pos + 1) = [] := List.drop_eq_nil_of_le (by omega)
      refine .stop ?_ ?_
      · simp [spec, hdrop, tailSpec, hrow, curRows_self]
      · simp [next, hrow, hpos]
    · have hlt : it.pos + 1 < keys.length := by omega
      have hdrop : keys.drop (it.pos + 1) = keys[it.pos + 1] :: keys.drop (it.pos + 1 + 1) :=
        List.drop_eq_getElem_cons hlt
      have hget : keys[it.pos + 1]? = some keys[it.pos + 1] := List.getElem?_eq_getElem hlt
      cases hc : count keys[it.pos + 1] with
      | none =>
        refine .err siteGet ?_ ?_ (by decide)
        · unfold spec; rw [hdrop, hrow, curRows_self, tailSpec_cons_none _ _ hc]; rfl
        · simp [next, hrow, hpos, hget, hc]
      | some n =>
        by_cases hn : n = 0
        · refine .err siteAssume ?_ ?_ (by decide)
          · unfold spec; rw [hdrop, hrow, curRows_self, tailSpec_cons_zero _ _ (hn ▸ hc)]; rfl
          · simp [next, hrow, hpos, hget, hc, hn]
        · refine .yield (it.pos + 1, 0) (curRows (it.pos + 1) 1 n ++ (tailSpec count (it.pos + 1 + 1) (keys.drop (it.pos + 1 + 1))).1)
            (tailSpec count (it.pos + 1 + 1) (keys.drop (it.pos + 1 + 1))).2
            { it with pos := it.pos + 1, row := 1, len := n } ?_ ?_ ⟨hl, by show it.pos + 1 ≤ it.last; omega, by show 1 ≤ n; omega⟩ rfl
          · unfold spec
            rw [hdrop, hrow, curRows_self, tailSpec_cons_pos _ _ hc hn, curRows_lt (Nat.pos_of_ne_zero hn)]
            rfl
          · simp [next, hrow, hpos, hget, hc, hn]
  · have hlt : it.row < it.len := by omega
    refine .yield (it.pos, it.row) (curRows it.pos (it.row + 1) it.len ++ (tailSpec count (it.pos + 1) (keys.drop (it.pos + 1))).1)
      (tailSpec count (it.pos + 1) (keys.drop (it.pos + 1))).2 { it with row := it.row + 1 } ?_ ?_ ⟨hl, hp, hlt⟩ rfl
    · simp [spec, curRows_lt hlt]
    · simp [next, hrow]

/-- the dense-array read of `next` is never out of bounds -/
theorem next_ne_oob (hv : Valid keys it) : next keys count it ≠ .error siteOob := by
  cases next_spec (count := count) hv with
  | stop _ hn => rw [hn]; exact fun h => nomatch h
  | err e _ hn hne => rw [hn]; exact fun h => hne (by injection h)
  | yield _ _ _ _ _ hn _ _ => rw [hn]; exact fun h => nomatch h

/-! ## `len()` -/

theorem total_nil : total [] count = 0 := rfl
theorem total_cons (k : Nat) (ks : List Nat) : total (k :: ks) count = cnt count k + total ks count := by
  simp [total]

theorem total_append (l₁ l₂ : List Nat) : total (l₁ ++ l₂) count = total l₁ count + total l₂ count := by
  simp [total]

theorem remainingLoop_eq (hlive : AllLive keys count) (last : Nat) (hl : last = keys.length - 1) :
    ∀ (fuel index acc : Nat), fuel = keys.length - index → index ≤ last →
      remainingLoop keys count last fuel index acc = .ok (acc + total (keys.drop (index + 1)) count) := by
  intro fuel
  induction fuel with
  | zero =>
    intro index acc hf hi
    have hil : (index == last) = true := by rw [beq_iff_eq]; omega
    have hd : keys.drop (index + 1) = [] := List.drop_eq_nil_of_le (by omega)
    rw [remainingLoop, if_pos hil, hd, total_nil, Nat.add_zero]
  | succ fuel ih =>
    intro index acc hf hi
    by_cases hil : index = last
    · have hd : keys.drop (index + 1) = [] := List.drop_eq_nil_of_le (by omega)
      rw [remainingLoop, if_pos (by rw [beq_iff_eq]; exact hil), hd, total_nil, Nat.add_zero]
    · have hlt : index + 1 < keys.length := by omega
      have hdrop : keys.drop (index + 1) = keys[index + 1] :: keys.drop (index + 1 + 1) :=
        List.drop_eq_getElem_cons hlt
      obtain ⟨n, hn⟩ := hlive keys[index + 1] (List.getElem_mem hlt)
      have hne : ¬ ((index == last) = true) := by rw [beq_iff_eq]; exact hil
      rw [remainingLoop, if_neg hne, List.getElem?_eq_getElem hlt]
      dsimp only
      rw [hn]
      dsimp only
      rw [ih (index + 1) (acc + n) (by omega) (by omega), hdrop, total_cons, cnt, hn, Option.getD_some, Nat.add_assoc]

/-- the value of `len()` in a valid state over a cache of live archetypes -/
theorem remaining_eq (hlive : AllLive keys count) (hv : Valid keys it) :
    remaining keys count it = .ok (it.len - it.row + total (keys.drop (it.pos + 1)) count) :=
  remainingLoop_eq hlive it.last hv.last_eq _ _ _ rfl hv.pos_le

/-- `len()` hits `unwrap_unchecked` as soon as ANY archetype after the current one is dead -/
theorem remainingLoop_dead (last : Nat) (hl : last = keys.length - 1) :
    ∀ (fuel index acc : Nat), fuel = keys.length - index → index ≤ last →
      (∃ k ∈ keys.drop (index + 1), count k = none) →
      remainingLoop keys count last fuel index acc = .error siteGet := by
  intro fuel
  induction fuel with
  | zero =>
    intro index acc hf hi ⟨k, hk, _⟩
    have hd : keys.drop (index + 1) = [] := List.drop_eq_nil_of_le (by omega)
    rw [hd] at hk
    cases hk
  | succ fuel ih =>
    intro index acc hf hi ⟨k, hk, hkc⟩
    by_cases hil : index = last
    · have hd : keys.drop (index + 1) = [] := List.drop_eq_nil_of_le (by omega)
      rw [hd] at hk
      cases hk
    · have hlt : index + 1 < keys.length := by omega
      have hdrop : keys.drop (index + 1) = keys[index + 1] :: keys.drop (index + 1 + 1) :=
        List.drop_eq_getElem_cons hlt
      have hne : ¬ ((index == last) = true) := by rw [beq_iff_eq]; exact hil
      rw [remainingLoop, if_neg hne, List.getElem?_eq_getElem hlt]
      dsimp only
      cases hn : count keys[index + 1] with
      | none => rfl
      | some n =>
        dsimp only
        rw [hdrop] at hk
        rcases List.mem_cons.1 hk with rfl | hk
        · rw [hn] at hkc; cases hkc
        · exact ih (index + 1) (acc + n) (by omega) (by omega) ⟨k, hk, hkc⟩

theorem remaining_dead (hv : Valid keys it) (hd : ∃ k ∈ keys.drop (it.pos + 1), count k = none) :
    remaining keys count it = .error siteGet :=
  remainingLoop_dead it.last hv.last_eq _ _ _ rfl hv.pos_le hd

/-! ## size of the abstraction -/

theorem tailSpec_length_le (j : Nat) (ks : List Nat) : (tailSpec count j ks).1.length ≤ total ks count := by
  induction ks generalizing j with
  | nil => simp [tailSpec]
  | cons k ks ih =>
    cases hc : count k with
    | none => rw [tailSpec_cons_none _ _ hc]; exact Nat.zero_le _
    | some n =>
      by_cases hn : n = 0
      · rw [tailSpec_cons_zero _ _ (hn ▸ hc)]; exact Nat.zero_le _
      · rw [tailSpec_cons_pos _ _ hc hn, total_cons, cnt, hc]
        have := ih (j + 1)
        simp only [List.length_append, curRows_length, Option.getD_some]
        omega

theorem tailSpec_length (j : Nat) (ks : List Nat) (h : (tailSpec count j ks).2 = none) :
    (tailSpec count j ks).1.length = total ks count := by
  induction ks generalizing j with
  | nil => simp [tailSpec, total]
  | cons k ks ih =>
    cases hc : count k with
    | none => rw [tailSpec_cons_none _ _ hc] at h; cases h
    | some n =>
      by_cases hn : n = 0
      · rw [tailSpec_cons_zero _ _ (hn ▸ hc)] at h; cases h
      · rw [tailSpec_cons_pos _ _ hc hn] at h ⊢
        rw [total_cons, cnt, hc]
        have := ih (j + 1) h
        simp only [List.length_append, curRows_length, Option.getD_some]
        omega

theorem spec_length (h : (spec keys count it).2 = none) :
    (spec keys count it).1.length = it.len - it.row + total (keys.drop (it.pos + 1)) count := by
  unfold spec at h ⊢
  simp only [List.length_append, curRows_length]
  rw [tailSpec_length _ _ h]

theorem spec_length_le : (spec keys count it).1.length ≤ it.len - it.row + total (keys.drop (it.pos + 1)) count := by
  unfold spec
  simp only [List.length_append, curRows_length]
  have := tailSpec_length_le (count := count) (it.pos + 1) (keys.drop (it.pos + 1))
  omega

/-! ## the drivers compute the abstraction -/

/-- `for item in iter`: the yielded list is `spec.1`; the loop ends normally iff `spec.2 = none`, otherwise in exactly
    the marker `spec.2`.  Holds for every cache and archetype table. -/
theorem drainFrom_spec : ∀ (fuel : Nat) (it : IterSM), Valid keys it → (spec keys count it).1.length < fuel →
    match (spec keys count it).2 with
    | none => ∃ fin, drainFrom keys count fuel it = .ok ⟨(spec keys count it).1, [], fin, true⟩ ∧
        next keys count fin = .ok (none, fin)
    | some e => drainFrom keys count fuel it = .error e
  | 0, _, _, hf => absurd hf (Nat.not_lt_zero _)
  | fuel + 1, it, hv, hf => by
    cases next_spec (count := count) hv with
    | stop hs hn =>
      rw [hs]
      exact ⟨it, by simp [drainFrom, hn], hn⟩
    | err e hs hn _ =>
      rw [hs]
      simp [drainFrom, hn]
    | yield x xs oe it' hs hn hv' hs' =>
      have ih := drainFrom_spec fuel it' hv'
        (by rw [hs']; rw [hs] at hf; simpa using hf)
      rw [hs'] at ih
      rw [hs]
      cases oe with
      | none =>
        obtain ⟨fin, h1, h2⟩ := ih
        exact ⟨fin, by simp [drainFrom, hn, h1], h2⟩
      | some e =>
        dsimp only at ih ⊢
        simp [drainFrom, hn, ih]

/-- the harness loop (`len()` before every `next()`) over a cache of live archetypes: additionally the observed
    `len()` values are the exact countdown -/
theorem runFrom_spec (hlive : AllLive keys count) : ∀ (fuel : Nat) (it : IterSM), Valid keys it →
    (spec keys count it).1.length < fuel →
    match (spec keys count it).2 with
    | none => ∃ fin, runFrom keys count fuel it =
          .ok ⟨(spec keys count it).1, countdown (spec keys count it).1.length, fin, true⟩ ∧
        next keys count fin = .ok (none, fin)
    | some e => runFrom keys count fuel it = .error e
  | 0, _, _, hf => absurd hf (Nat.not_lt_zero _)
  | fuel + 1, it, hv, hf => by
    have hrem := remaining_eq hlive hv
    cases next_spec (count := count) hv with
    | stop hs hn =>
      have hlen := spec_length (keys := keys) (count := count) (it := it) (by rw [hs])
      rw [hs] at hlen
      rw [← hlen] at hrem
      rw [hs]
      exact ⟨it, by simp [runFrom, hn, hrem, countdown], hn⟩
    | err e hs hn _ =>
      rw [hs]
      simp [runFrom, hn, hrem]
    | yield x xs oe it' hs hn hv' hs' =>
      have ih := runFrom_spec hlive fuel it' hv' (by rw [hs']; rw [hs] at hf; simpa using hf)
      rw [hs'] at ih
      cases oe with
      | none =>
        have hlen := spec_length (keys := keys) (count := count) (it := it) (by rw [hs])
        rw [hs] at hlen
        rw [← hlen] at hrem
        rw [hs]
        obtain ⟨fin, h1, h2⟩ := ih
        exact ⟨fin, by simp [runFrom, hn, h1, hrem, countdown], h2⟩
      | some e =>
        rw [hs]
        dsimp only at ih ⊢
        simp [runFrom, hn, ih, hrem]

/-- a dead archetype anywhere after the current one: the first `len()` ends the run -/
theorem runFrom_dead (hv : Valid keys it) (hd : ∃ k ∈ keys.drop (it.pos + 1), count k = none) (fuel : Nat) :
    runFrom keys count (fuel + 1) it = .error siteGet := by
  simp [runFrom, remaining_dead hv hd]

/-! ## `iter_unchecked` and the whole iteration -/

/-- the whole iteration from `iter_unchecked` on: items and final marker.  The FIRST archetype is looked up by
    `iter_unchecked` without `assume_unchecked(len > 0)`: if it is empty it simply contributes no item. -/
def fullSpec (count : Nat → Option Nat) (keys : List Nat) : List (Nat × Nat) × Option String :=
  match keys with
  | [] => ([], none)
  | k0 :: ks =>
    match count k0 with
    | none => ([], some siteGet)
    | some n0 => (curRows 0 0 n0 ++ (tailSpec count 1 ks).1, (tailSpec count 1 ks).2)

theorem fullSpec_cons_none {k0 : Nat} (ks : List Nat) (h : count k0 = none) :
    fullSpec count (k0 :: ks) = ([], some siteGet) := by simp [fullSpec, h]

theorem fullSpec_cons_some {k0 n0 : Nat} (ks : List Nat) (h : count k0 = some n0) :
    fullSpec count (k0 :: ks) = (curRows 0 0 n0 ++ (tailSpec count 1 ks).1, (tailSpec count 1 ks).2) := by
  simp [fullSpec, h]

theorem new_cons_none {k0 : Nat} (ks : List Nat) (h : count k0 = none) : new (k0 :: ks) count = .error siteGet := by
  simp [new, h]

theorem new_cons_some {k0 n0 : Nat} (ks : List Nat) (h : count k0 = some n0) :
    new (k0 :: ks) count = .ok ⟨0, ks.length, false, 0, n0⟩ := by
  simp [new, h]

theorem valid_start (k0 : Nat) (ks : List Nat) (n0 : Nat) : Valid (k0 :: ks) ⟨0, ks.length, false, 0, n0⟩ :=
  ⟨rfl, Nat.zero_le _, Nat.zero_le _⟩

theorem new_valid (h : new keys count = .ok it) : Valid keys it := by
  cases keys with
  | nil => cases h; exact ⟨rfl, Nat.le_refl _, Nat.le_refl _⟩
  | cons k0 ks =>
    cases hc : count k0 with
    | none => rw [new_cons_none _ hc] at h; cases h
    | some n0 => rw [new_cons_some _ hc] at h; cases h; exact valid_start _ _ _

/-- the pointers are dangling exactly for the empty cache, and then `next` returns `None` without reading anything -/
theorem new_dangling (h : new keys count = .ok it) :
    (it.dangling = true ↔ keys = []) ∧ (it.dangling = true → next keys count it = .ok (none, it)) := by
  cases keys with
  | nil => cases h; exact ⟨⟨fun _ => rfl, fun _ => rfl⟩, fun _ => rfl⟩
  | cons k0 ks =>
    cases hc : count k0 with
    | none => rw [new_cons_none _ hc] at h; cases h
    | some n0 =>
      rw [new_cons_some _ hc] at h
      cases h
      exact ⟨⟨fun h => (nomatch h), fun h => (nomatch h)⟩, fun h => (nomatch h)⟩

theorem fullSpec_length_le : (fullSpec count keys).1.length ≤ total keys count := by
  cases keys with
  | nil => exact Nat.le_refl _
  | cons k0 ks =>
    cases hc : count k0 with
    | none => rw [fullSpec_cons_none _ hc]; exact Nat.zero_le _
    | some n0 =>
      rw [fullSpec_cons_some _ hc]
      have := tailSpec_length_le (count := count) 1 ks
      simp only [List.length_append, curRows_length, total_cons, cnt, hc, Option.getD_some]
      omega

/-- `for item in fetcher.iter()` computes `fullSpec`, for every cache and archetype table -/
theorem drain_spec {fuel : Nat} (hf : total keys count < fuel) :
    match (fullSpec count keys).2 with
    | none => ∃ fin, drain keys count fuel = .ok ⟨(fullSpec count keys).1, [], fin, true⟩ ∧
        next keys count fin = .ok (none, fin)
    | some e => drain keys count fuel = .error e := by
  have hle := fullSpec_length_le (count := count) (keys := keys)
  cases keys with
  | nil =>
    cases fuel with
    | zero => exact absurd hf (Nat.not_lt_zero _)
    | succ fuel => exact ⟨_, rfl, rfl⟩
  | cons k0 ks =>
    unfold drain
    cases hc : count k0 with
    | none => rw [fullSpec_cons_none _ hc, new_cons_none _ hc]
    | some n0 =>
      rw [fullSpec_cons_some _ hc] at hle ⊢
      rw [new_cons_some _ hc]
      exact drainFrom_spec (keys := k0 :: ks) (count := count) fuel ⟨0, ks.length, false, 0, n0⟩
        (valid_start _ _ _) (Nat.lt_of_le_of_lt hle hf)

/-- the harness loop computes `fullSpec` and the exact `len()` countdown over a cache of live archetypes -/
theorem run_spec {fuel : Nat} (hlive : AllLive keys count) (hf : total keys count < fuel) :
    match (fullSpec count keys).2 with
    | none => ∃ fin, run keys count fuel =
          .ok ⟨(fullSpec count keys).1, countdown (fullSpec count keys).1.length, fin, true⟩ ∧
        next keys count fin = .ok (none, fin)
    | some e => run keys count fuel = .error e := by
  have hle := fullSpec_length_le (count := count) (keys := keys)
  cases keys with
  | nil =>
    cases fuel with
    | zero => exact absurd hf (Nat.not_lt_zero _)
    | succ fuel => exact ⟨_, rfl, rfl⟩
  | cons k0 ks =>
    unfold run
    cases hc : count k0 with
    | none => rw [fullSpec_cons_none _ hc, new_cons_none _ hc]
    | some n0 =>
      rw [fullSpec_cons_some _ hc] at hle ⊢
      rw [new_cons_some _ hc]
      exact runFrom_spec hlive fuel ⟨0, ks.length, false, 0, n0⟩ (valid_start _ _ _) (Nat.lt_of_le_of_lt hle hf)

/-- ANY dead archetype in the cache: `iter_unchecked` or the first `len()` hits `unwrap_unchecked` -/
theorem run_dead {k : Nat} (hk : k ∈ keys) (hd : count k = none) (fuel : Nat) :
    run keys count (fuel + 1) = .error siteGet := by
  cases keys with
  | nil => cases hk
  | cons k0 ks =>
    unfold run
    cases hc : count k0 with
    | none => rw [new_cons_none _ hc]
    | some n0 =>
      rw [new_cons_some _ hc]
      rcases List.mem_cons.1 hk with rfl | hk
      · rw [hc] at hd; cases hd
      · exact runFrom_dead (keys := k0 :: ks) (it := ⟨0, ks.length, false, 0, n0⟩)
          (valid_start _ _ _) ⟨k, hk, hd⟩ fuel

/-! ## `fullSpec` under the cache invariant, and where it breaks -/

theorem rowsFrom_nil (j : Nat) : rowsFrom count j [] = [] := rfl

theorem rowsFrom_cons (j k : Nat) (ks : List Nat) :
    rowsFrom count j (k :: ks) = curRows j 0 (cnt count k) ++ rowsFrom count (j + 1) ks := by
  simp [rowsFrom, List.zipIdx_cons, curRows, List.range_eq_range']

theorem rowsFrom_length (j : Nat) (ks : List Nat) : (rowsFrom count j ks).length = total ks count := by
  induction ks generalizing j with
  | nil => rfl
  | cons k ks ih => rw [rowsFrom_cons, List.length_append, curRows_length, ih, total_cons]; omega

theorem rowsOf_length : (rowsOf keys count).length = total keys count := rowsFrom_length 0 keys

/-- entering a run `pre` of live non-empty archetypes yields exactly their rows and goes on with what follows -/
theorem tailSpec_append_good {pre : List Nat} (hg : Good pre count) (rest : List Nat) (j : Nat) :
    tailSpec count j (pre ++ rest) =
      (rowsFrom count j pre ++ (tailSpec count (j + pre.length) rest).1, (tailSpec count (j + pre.length) rest).2) := by
  induction pre generalizing j with
  | nil => simp [rowsFrom_nil]
  | cons k pre ih =>
    obtain ⟨n, hn, hpos⟩ := hg k List.mem_cons_self
    have hg' : Good pre count := fun k' hk' => hg k' (List.mem_cons_of_mem _ hk')
    have hj : j + 1 + pre.length = j + (k :: pre).length := by simp only [List.length_cons]; omega
    rw [List.cons_append, tailSpec_cons_pos _ _ hn (by omega), ih hg', rowsFrom_cons, cnt, hn, Option.getD_some, hj,
      List.append_assoc]

theorem fullSpec_prefix {k0 n0 : Nat} {pre : List Nat} (h0 : count k0 = some n0) (hg : Good pre count)
    (rest : List Nat) :
    fullSpec count (k0 :: (pre ++ rest)) =
      (rowsOf (k0 :: pre) count ++ (tailSpec count (1 + pre.length) rest).1,
       (tailSpec count (1 + pre.length) rest).2) := by
  rw [fullSpec_cons_some _ h0, tailSpec_append_good hg, rowsOf, rowsFrom_cons, cnt, h0, Option.getD_some, List.append_assoc]

theorem fullSpec_good (hg : Good keys count) : fullSpec count keys = (rowsOf keys count, none) := by
  cases keys with
  | nil => rfl
  | cons k0 ks =>
    obtain ⟨n0, h0, -⟩ := hg k0 List.mem_cons_self
    have := fullSpec_prefix h0 (fun k hk => hg k (List.mem_cons_of_mem _ hk)) []
    simpa [tailSpec] using this

/-! ## the theorems -/

/-- **the iteration is exact.**  Under the cache invariant and with `fuel > total` (number of items + 1 calls of `next`)
    the harness loop ends normally (`done`, no marker), yields every row of every cached archetype exactly once in
    dense-array order with rows ascending, observes the exact `len()` countdown `[total, …, 1, 0]`, and leaves an
    exhausted iterator. -/
theorem run_exact {fuel : Nat} (hg : Good keys count) (hf : total keys count < fuel) :
    ∃ fin, run keys count fuel = .ok ⟨rowsOf keys count, countdown (total keys count), fin, true⟩ ∧
      next keys count fin = .ok (none, fin) := by
  have h := run_spec hg.allLive hf
  rw [fullSpec_good hg] at h
  dsimp only at h
  rw [rowsOf_length] at h
  exact h

/-- the same for the plain `for` loop -/
theorem drain_exact {fuel : Nat} (hg : Good keys count) (hf : total keys count < fuel) :
    ∃ fin, drain keys count fuel = .ok ⟨rowsOf keys count, [], fin, true⟩ ∧ next keys count fin = .ok (none, fin) := by
  have h := drain_spec (count := count) hf
  rw [fullSpec_good hg] at h
  exact h

/-- **`len()` is exact at every position**: the value observed before the `i`-th `next()` (`i = 0, …, total`; the last
    one is the call that returns `None`) is `total - i` -/
theorem remaining_exact {fuel : Nat} (hg : Good keys count) (hf : total keys count < fuel) :
    ∃ t, run keys count fuel = .ok t ∧ t.lens.length = total keys count + 1 ∧
      ∀ i, i ≤ total keys count → t.lens[i]? = some (total keys count - i) := by
  obtain ⟨fin, h, -⟩ := run_exact hg hf
  exact ⟨_, h, countdown_length _, fun i hi => countdown_getElem? _ i hi⟩

/-- `next` `n + 1` times, returning the last result -/
def nextN (keys : List Nat) (count : Nat → Option Nat) : Nat → IterSM → Except String (Option (Nat × Nat) × IterSM)
  | 0, it => next keys count it
  | n + 1, it =>
    match next keys count it with
    | .error e => .error e
    | .ok (_, it') => nextN keys count n it'

/-- `None` leaves the state alone -/
theorem next_none_state {it' : IterSM} (h : next keys count it = .ok (none, it')) :
    it' = it ∧ it.row = it.len ∧ it.pos = it.last := by
  unfold next at h
  by_cases hr : it.row = it.len
  · by_cases hp : it.pos = it.last
    · simp [hr, hp] at h
      exact ⟨h.symm, hr, hp⟩
    · simp only [hr, hp, beq_self_eq_true, if_true, beq_iff_eq, if_false] at h
      split at h
      · cases h
      · split at h
        · cases h
        · split at h <;> cases h
  · simp [hr] at h

/-- **`FusedIterator`**: once `next` has returned `None` the state does not change and `next` returns `None` forever;
    `len()` is `0` from then on -/
theorem fused {it' : IterSM} (h : next keys count it = .ok (none, it')) :
    it' = it ∧ (∀ n, nextN keys count n it' = .ok (none, it')) ∧ remaining keys count it' = .ok 0 := by
  obtain ⟨rfl, hr, hp⟩ := next_none_state h
  refine ⟨rfl, fun n => ?_, ?_⟩
  · induction n with
    | zero => exact h
    | succ n ih => rw [nextN, h]; exact ih
  · unfold remaining
    rw [hr, Nat.sub_self]
    cases keys.length - it'.pos with
    | zero => rw [remainingLoop, if_pos (by rw [beq_iff_eq]; exact hp)]
    | succ f => rw [remainingLoop, if_pos (by rw [beq_iff_eq]; exact hp)]

/-- … and the drivers observe nothing more on an exhausted iterator -/
theorem fused_run {it' : IterSM} (h : next keys count it = .ok (none, it')) (fuel : Nat) :
    runFrom keys count (fuel + 1) it' = .ok ⟨[], [0], it', true⟩ ∧
    drainFrom keys count (fuel + 1) it' = .ok ⟨[], [], it', true⟩ := by
  obtain ⟨rfl, h1, h2⟩ := fused h
  exact ⟨by simp [runFrom, h2, h], by simp [drainFrom, h]⟩

/-- **the FIRST cached archetype may be empty**: `iter_unchecked` has no `assume_unchecked` on it; `next` finds
    `row == len == 0`, skips it and goes on — no marker, the other archetypes keep their positions `1, 2, …` -/
theorem first_may_be_empty {k0 : Nat} {ks : List Nat} {fuel : Nat} (h0 : count k0 = some 0) (hg : Good ks count)
    (hf : total ks count < fuel) :
    ∃ fin, run (k0 :: ks) count fuel = .ok ⟨rowsFrom count 1 ks, countdown (total ks count), fin, true⟩ ∧
      next (k0 :: ks) count fin = .ok (none, fin) := by
  have hlive : AllLive (k0 :: ks) count := fun k hk => by
    rcases List.mem_cons.1 hk with rfl | hk
    · exact ⟨0, h0⟩
    · exact hg.allLive k hk
  have ht : total (k0 :: ks) count = total ks count := by rw [total_cons, cnt, h0]; simp
  have h := run_spec hlive (fuel := fuel) (by rw [ht]; exact hf)
  have hs := fullSpec_prefix h0 hg []
  rw [List.append_nil] at hs
  rw [hs] at h
  simp only [tailSpec, List.append_nil] at h
  have hr : rowsOf (k0 :: ks) count = rowsFrom count 1 ks := by
    rw [rowsOf, rowsFrom_cons, cnt, h0]; rfl
  rw [hr, rowsFrom_length] at h
  exact h

/-- **a LATER cached archetype is empty** (first archetype live, everything before the empty one live and non-empty):
    the `for` loop ends in exactly `assume_nonempty`, after the `total (k0 :: pre)` good items -/
theorem stale_marker_empty {k0 n0 k : Nat} {pre post : List Nat} {fuel : Nat} (h0 : count k0 = some n0)
    (hg : Good pre count) (hk : count k = some 0) (hf : total (k0 :: (pre ++ k :: post)) count < fuel) :
    drain (k0 :: (pre ++ k :: post)) count fuel = .error siteAssume := by
  have h := drain_spec (count := count) hf
  rw [fullSpec_prefix h0 hg, tailSpec_cons_zero _ _ hk] at h
  exact h

/-- … the same for the harness loop, when no archetype of the cache is dead -/
theorem stale_marker_empty_run {k0 n0 k : Nat} {pre post : List Nat} {fuel : Nat} (h0 : count k0 = some n0)
    (hg : Good pre count) (hk : count k = some 0) (hpost : AllLive post count)
    (hf : total (k0 :: (pre ++ k :: post)) count < fuel) :
    run (k0 :: (pre ++ k :: post)) count fuel = .error siteAssume := by
  have hlive : AllLive (k0 :: (pre ++ k :: post)) count := fun x hx => by
    rcases List.mem_cons.1 hx with rfl | hx
    · exact ⟨n0, h0⟩
    · rcases List.mem_append.1 hx with hx | hx
      · exact hg.allLive x hx
      · rcases List.mem_cons.1 hx with rfl | hx
        · exact ⟨0, hk⟩
        · exact hpost x hx
  have h := run_spec hlive hf
  rw [fullSpec_prefix h0 hg, tailSpec_cons_zero _ _ hk] at h
  exact h

/-- **a LATER cached archetype is dead**: the `for` loop ends in exactly `archetypes.get`
    (the harness loop does so at once, whatever the rest of the cache looks like: `run_dead`) -/
theorem stale_marker_dead {k0 n0 k : Nat} {pre post : List Nat} {fuel : Nat} (h0 : count k0 = some n0)
    (hg : Good pre count) (hk : count k = none) (hf : total (k0 :: (pre ++ k :: post)) count < fuel) :
    drain (k0 :: (pre ++ k :: post)) count fuel = .error siteGet := by
  have h := drain_spec (count := count) hf
  rw [fullSpec_prefix h0 hg, tailSpec_cons_none _ _ hk] at h
  exact h

/-- the first cached archetype is dead: `iter_unchecked` itself hits `unwrap_unchecked` -/
theorem stale_marker_dead_first {k0 : Nat} {ks : List Nat} (h0 : count k0 = none) (fuel : Nat) :
    drain (k0 :: ks) count fuel = .error siteGet ∧ run (k0 :: ks) count fuel = .error siteGet := by
  simp [drain, run, new, h0]

/-- converse of `runFrom_spec`: a harness loop that saw `None` has yielded all of `spec` and observed the countdown -/
theorem runFrom_done (hlive : AllLive keys count) : ∀ (fuel : Nat) (it : IterSM) (t : Trace), Valid keys it →
    runFrom keys count fuel it = .ok t → t.done = true →
    spec keys count it = (t.items, none) ∧ t.lens = countdown t.items.length
  | 0, _, _, _, h, hd => by cases h; cases hd
  | fuel + 1, it, t, hv, h, hd => by
    have hrem := remaining_eq hlive hv
    unfold runFrom at h
    rw [hrem] at h
    dsimp only at h
    cases next_spec (count := count) hv with
    | stop hs hn =>
      have hlen := spec_length (keys := keys) (count := count) (it := it) (by rw [hs])
      rw [hs] at hlen
      rw [hn, ← hlen] at h
      cases h
      exact ⟨hs, rfl⟩
    | err e hs hn _ => rw [hn] at h; cases h
    | yield x xs oe it' hs hn hv' hs' =>
      rw [hn] at h
      dsimp only at h
      cases hr : runFrom keys count fuel it' with
      | error e => rw [hr] at h; cases h
      | ok t' =>
        rw [hr] at h
        cases h
        obtain ⟨h1, h2⟩ := runFrom_done hlive fuel it' t' hv' hr hd
        rw [hs'] at h1
        cases h1
        have hlen := spec_length (keys := keys) (count := count) (it := it) (by rw [hs])
        rw [hs] at hlen
        refine ⟨hs, ?_⟩
        show _ :: t'.lens = countdown (t'.items.length + 1)
        rw [h2, ← hlen]
        rfl

/-- **`ExactSizeIterator` without the cache invariant**: whenever the harness loop runs to `None` without hitting a
    marker — for ANY cache and archetype table — the observed `len()` values are exactly the countdown
    `items.length, …, 1, 0`: `len()` always was the number of items still to come -/
theorem lens_exact {fuel : Nat} {t : Trace} (h : run keys count fuel = .ok t) (hd : t.done = true) :
    t.lens = countdown t.items.length ∧ (fullSpec count keys) = (t.items, none) := by
  cases fuel with
  | zero =>
    unfold run at h
    cases hn : new keys count with
    | error e => rw [hn] at h; cases h
    | ok it => rw [hn] at h; cases h; cases hd
  | succ fuel =>
    have hlive : AllLive keys count := fun k hk => by
      cases hc : count k with
      | none => rw [run_dead hk hc] at h; cases h
      | some n => exact ⟨n, rfl⟩
    cases keys with
    | nil => cases h; exact ⟨rfl, rfl⟩
    | cons k0 ks =>
      obtain ⟨n0, h0⟩ := hlive k0 List.mem_cons_self
      unfold run at h
      rw [new_cons_some _ h0] at h
      obtain ⟨h1, h2⟩ := runFrom_done hlive _ _ t (valid_start k0 ks n0) h hd
      exact ⟨h2, by rw [fullSpec_cons_some _ h0]; exact h1⟩

/-! ## the drivers never read outside the dense array -/

theorem remainingLoop_ne_oob (last : Nat) (hl : last = keys.length - 1) :
    ∀ (fuel index acc : Nat), fuel = keys.length - index → index ≤ last →
      remainingLoop keys count last fuel index acc ≠ .error siteOob := by
  intro fuel
  induction fuel with
  | zero =>
    intro index acc hf hi
    rw [remainingLoop, if_pos (by rw [beq_iff_eq]; omega)]
    exact fun h => nomatch h
  | succ fuel ih =>
    intro index acc hf hi
    by_cases hil : index = last
    · rw [remainingLoop, if_pos (by rw [beq_iff_eq]; exact hil)]
      exact fun h => nomatch h
    · have hlt : index + 1 < keys.length := by omega
      have hne : ¬ ((index == last) = true) := by rw [beq_iff_eq]; exact hil
      rw [remainingLoop, if_neg hne, List.getElem?_eq_getElem hlt]
      dsimp only
      cases hn : count keys[index + 1] with
      | none => exact fun h => absurd (Except.error.inj h) (by decide)
      | some n => exact ih (index + 1) (acc + n) (by omega) (by omega)

theorem remaining_ne_oob (hv : Valid keys it) : remaining keys count it ≠ .error siteOob :=
  remainingLoop_ne_oob it.last hv.last_eq _ _ _ rfl hv.pos_le

theorem drainFrom_ne_oob : ∀ (fuel : Nat) (it : IterSM), Valid keys it →
    drainFrom keys count fuel it ≠ .error siteOob
  | 0, _, _ => fun h => nomatch h
  | fuel + 1, it, hv => by
    intro hcontra
    cases next_spec (count := count) hv with
    | stop hs hn => simp [drainFrom, hn] at hcontra
    | err e hs hn hne =>
      simp only [drainFrom, hn] at hcontra
      exact hne (Except.error.inj hcontra)
    | yield x xs oe it' hs hn hv' hs' =>
      have ih := drainFrom_ne_oob fuel it' hv'
      simp only [drainFrom, hn] at hcontra
      cases h : drainFrom keys count fuel it' with
      | error e =>
        rw [h] at hcontra
        exact ih (by rw [h, Except.error.inj hcontra])
      | ok t => rw [h] at hcontra; cases hcontra

theorem runFrom_ne_oob : ∀ (fuel : Nat) (it : IterSM), Valid keys it →
    runFrom keys count fuel it ≠ .error siteOob
  | 0, _, _ => fun h => nomatch h
  | fuel + 1, it, hv => by
    intro hcontra
    have hrem := remaining_ne_oob (count := count) hv
    unfold runFrom at hcontra
    cases hr : remaining keys count it with
    | error e =>
      rw [hr] at hcontra hrem
      exact hrem (by rw [Except.error.inj hcontra])
    | ok r =>
      rw [hr] at hcontra
      dsimp only at hcontra
      cases next_spec (count := count) hv with
      | stop hs hn => simp [hn] at hcontra
      | err e hs hn hne =>
        simp only [hn] at hcontra
        exact hne (Except.error.inj hcontra)
      | yield x xs oe it' hs hn hv' hs' =>
        have ih := runFrom_ne_oob fuel it' hv'
        simp only [hn] at hcontra
        cases h : runFrom keys count fuel it' with
        | error e =>
          rw [h] at hcontra
          exact ih (by rw [h, Except.error.inj hcontra])
        | ok t => rw [h] at hcontra; cases hcontra

/-- **the out-of-bounds marker of the model is unreachable**: whatever the cache and the archetype table look like
    (no invariant at all), an iterator made by `iter_unchecked` never reads `*index` outside `self.map.keys()` -/
theorem no_oob (keys : List Nat) (count : Nat → Option Nat) (fuel : Nat) :
    drain keys count fuel ≠ .error siteOob ∧ run keys count fuel ≠ .error siteOob := by
  unfold drain run
  cases h : new keys count with
  | error e =>
    have : e = siteGet := by
      cases keys with
      | nil => cases h
      | cons k0 ks =>
        cases hc : count k0 with
        | none => rw [new_cons_none _ hc] at h; exact (Except.error.inj h).symm
        | some n0 => rw [new_cons_some _ hc] at h; cases h
    subst this
    exact ⟨fun h => absurd (Except.error.inj h) (by decide), fun h => absurd (Except.error.inj h) (by decide)⟩
  | ok it => exact ⟨drainFrom_ne_oob fuel it (new_valid h), runFrom_ne_oob fuel it (new_valid h)⟩

/-! ## the executed world model: `paramRows` -/

def siteStale : String := "fetch.rs:stale-column-pointer"

/-- the inner `for row in 0..len` loop of `paramRows` -/
theorem run_forIn_rows {β : Type} (f : Nat → β) (l : List Nat) (res : List β) (w : World) :
    (forIn l res fun row r => (pure (ForInStep.yield (r ++ [f row])) : M (ForInStep (List β)))).run.run w =
      (.ok (res ++ l.map f), w) := by
  induction l generalizing res with
  | nil => simp; rfl
  | cons x l ih => rw [List.forIn_cons, run_bind, run_pure]; dsimp only; rw [ih]; simp

/-- one iteration of the outer loop of `paramRows` -/
def prStep (x : Nat × AS × Nat) (s : List (AS × Arch × Nat) × Bool) (w : World) :
    Except Err (List (AS × Arch × Nat) × Bool) × World :=
  match w.archs.get x.1 with
  | none => (.error (.ub siteGet), w)
  | some a =>
    if a.ids.length = 0 ∧ s.2 = false then (.error (.ub siteAssume), w)
    else if 0 < a.ids.length ∧ x.2.2 ≠ a.epoch then (.error (.ub siteStale), w)
    else (.ok (s.1 ++ (List.range' 0 a.ids.length).map fun row => (x.2.1, a, row), false), w)

theorem run_paramRows (p : Param) (w : World) :
    (paramRows p).run.run w =
      match foldSteps prStep (p.cache.keys.zip p.cache.values) ([], true) w with
      | (.ok s, w') => (.ok s.1, w')
      | (.error e, w') => (.error e, w') := by
  unfold paramRows
  dsimp only
  rw [run_bind, run_forIn_steps prStep]
  · generalize foldSteps prStep _ _ w = r
    obtain ⟨(e | s), w'⟩ := r <;> rfl
  · rintro ⟨ai, st, ep⟩ ⟨res, first⟩ w
    dsimp only
    rw [run_bind, run_getArch']
    unfold prStep
    dsimp only
    cases w.archs.get ai with
    | none => rfl
    | some a =>
      dsimp only
      have e1 : ((a.ids.length == 0 && !first) = true) = (a.ids.length = 0 ∧ first = false) := by simp
      have e2 : ((decide (a.ids.length > 0) && ep != a.epoch) = true) = (0 < a.ids.length ∧ ep ≠ a.epoch) := by simp
      simp only [e1, e2]
      by_cases h1 : a.ids.length = 0 ∧ first = false
      · rw [if_pos h1, if_pos h1, run_bind, run_ubErr]
        rfl
      · rw [if_neg h1, if_neg h1]
        by_cases h2 : 0 < a.ids.length ∧ ep ≠ a.epoch
        · rw [if_pos h2, if_pos h2, run_bind, run_ubErr]
          rfl
        · rw [if_neg h2, if_neg h2, run_bind, Std.Legacy.Range.forIn_eq_forIn_range',
            run_forIn_rows (fun row => (st, a, row))]
          simp [Std.Legacy.Range.size]
          rfl


theorem entityCount_none {w : World} {k : Nat} (h : w.archs.get k = none) : w.entityCount k = none := by
  simp [World.entityCount, h]

theorem entityCount_some {w : World} {k : Nat} {a : Arch} (h : w.archs.get k = some a) :
    w.entityCount k = some a.ids.length := by
  simp [World.entityCount, h]

/-- some cached column pointer is stale: the entry's epoch is not the epoch of its (non-empty) archetype -/
def StaleIn (w : World) (l : List (Nat × AS × Nat)) : Prop :=
  ∃ x ∈ l, ∃ a, w.archs.get x.1 = some a ∧ 0 < a.ids.length ∧ x.2.2 ≠ a.epoch

/-- the loop of `paramRows` (result `r`, started with `res`) agrees with the state-machine abstraction `sp`; `g`
    dereferences an item -/
def Agree (w : World) (g : Nat × Nat → Option (AS × Arch × Nat)) (sp : List (Nat × Nat) × Option String)
    (r : Except Err (List (AS × Arch × Nat) × Bool) × World) (res : List (AS × Arch × Nat)) : Prop :=
  (∀ e, sp.2 = some e → r = (.error (.ub e), w)) ∧
  (sp.2 = none → ∃ rows b, r = (.ok (res ++ rows, b), w) ∧ sp.1.map g = rows.map some)

theorem curRows_map_deref {g : Nat × Nat → Option (AS × Arch × Nat)} {j : Nat} {st : AS} {a : Arch}
    (hg : ∀ row, g (j, row) = some (st, a, row)) (n : Nat) :
    (curRows j 0 n).map g = ((List.range' 0 n).map fun row => (st, a, row)).map some := by
  simp [curRows, List.map_map, Function.comp_def, hg]

theorem foldSteps_tail (w : World) (g : Nat × Nat → Option (AS × Arch × Nat)) :
    ∀ (l : List (Nat × AS × Nat)) (j : Nat) (res : List (AS × Arch × Nat)),
      (∀ i (h : i < l.length) row a, w.archs.get l[i].1 = some a → g (j + i, row) = some (l[i].2.1, a, row)) →
      (StaleIn w l ∧ foldSteps prStep l (res, false) w = (.error (.ub siteStale), w)) ∨
      Agree w g (tailSpec w.entityCount j (l.map (·.1))) (foldSteps prStep l (res, false) w) res
  | [], j, res, _ => .inr ⟨fun e h => (nomatch h), fun _ => ⟨[], false, by simp [foldSteps], rfl⟩⟩
  | x :: l, j, res, hg => by
    obtain ⟨k, st, ep⟩ := x
    have hg' : ∀ i (h : i < l.length) row a, w.archs.get l[i].1 = some a →
        g (j + 1 + i, row) = some (l[i].2.1, a, row) := fun i h row a ha => by
      have e : j + 1 + i = j + (i + 1) := by omega
      rw [e]
      exact hg (i + 1) (by simp only [List.length_cons]; omega) row a ha
    rw [List.map_cons]
    cases hget : w.archs.get k with
    | none =>
      refine .inr ?_
      rw [tailSpec_cons_none _ _ (entityCount_none hget)]
      refine ⟨fun e h => ?_, fun h => nomatch h⟩
      cases h
      simp [foldSteps, prStep, hget]
    | some a =>
      have hc := entityCount_some hget
      by_cases h0 : a.ids.length = 0
      · refine .inr ?_
        rw [tailSpec_cons_zero _ _ (h0 ▸ hc)]
        refine ⟨fun e h => ?_, fun h => nomatch h⟩
        cases h
        simp [foldSteps, prStep, hget, h0]
      · by_cases h2 : ep ≠ a.epoch
        · refine .inl ⟨⟨(k, st, ep), List.mem_cons_self, a, hget, Nat.pos_of_ne_zero h0, h2⟩, ?_⟩
          simp [foldSteps, prStep, hget, h0, Nat.pos_of_ne_zero h0, h2]
        · have hstep : foldSteps prStep ((k, st, ep) :: l) (res, false) w =
              foldSteps prStep l (res ++ (List.range' 0 a.ids.length).map fun row => (st, a, row), false) w := by
            simp [foldSteps, prStep, hget, h0, h2]
          rw [hstep, tailSpec_cons_pos _ _ hc h0]
          rcases foldSteps_tail w g l (j + 1) _ hg' with ⟨hs, hr⟩ | ⟨he, hok⟩
          · exact .inl ⟨let ⟨x, hx, h⟩ := hs; ⟨x, List.mem_cons_of_mem _ hx, h⟩, hr⟩
          · refine .inr ⟨he, fun hn => ?_⟩
            obtain ⟨rows, b, hr, hm⟩ := hok hn
            refine ⟨((List.range' 0 a.ids.length).map fun row => (st, a, row)) ++ rows, b, by rw [hr, List.append_assoc], ?_⟩
            have h00 := hg 0 (by simp) 
            simp only [Nat.add_zero, List.getElem_cons_zero] at h00
            rw [List.map_append, List.map_append, hm, curRows_map_deref (fun row => h00 row a hget)]


theorem foldSteps_full (w : World) (g : Nat × Nat → Option (AS × Arch × Nat)) (l : List (Nat × AS × Nat))
    (hg : ∀ i (h : i < l.length) row a, w.archs.get l[i].1 = some a → g (i, row) = some (l[i].2.1, a, row)) :
    (StaleIn w l ∧ foldSteps prStep l ([], true) w = (.error (.ub siteStale), w)) ∨
    Agree w g (fullSpec w.entityCount (l.map (·.1))) (foldSteps prStep l ([], true) w) [] := by
  cases l with
  | nil => exact .inr ⟨fun e h => (nomatch h), fun _ => ⟨[], true, rfl, rfl⟩⟩
  | cons x l =>
    obtain ⟨k, st, ep⟩ := x
    have hg' : ∀ i (h : i < l.length) row a, w.archs.get l[i].1 = some a →
        g (1 + i, row) = some (l[i].2.1, a, row) := fun i h row a ha => by
      rw [Nat.add_comm]
      exact hg (i + 1) (by simp only [List.length_cons]; omega) row a ha
    rw [List.map_cons]
    cases hget : w.archs.get k with
    | none =>
      refine .inr ?_
      rw [fullSpec_cons_none _ (entityCount_none hget)]
      refine ⟨fun e h => ?_, fun h => nomatch h⟩
      cases h
      simp [foldSteps, prStep, hget]
    | some a =>
      have hc := entityCount_some hget
      by_cases h2 : 0 < a.ids.length ∧ ep ≠ a.epoch
      · refine .inl ⟨⟨(k, st, ep), List.mem_cons_self, a, hget, h2.1, h2.2⟩, ?_⟩
        simp [foldSteps, prStep, hget, h2]
      · have hstep : foldSteps prStep ((k, st, ep) :: l) ([], true) w =
            foldSteps prStep l ([] ++ (List.range' 0 a.ids.length).map fun row => (st, a, row), false) w := by
          simp [foldSteps, prStep, hget, h2]
        rw [hstep, fullSpec_cons_some _ hc]
        rcases foldSteps_tail w g l 1 _ hg' with ⟨hs, hr⟩ | ⟨he, hok⟩
        · exact .inl ⟨let ⟨x, hx, h⟩ := hs; ⟨x, List.mem_cons_of_mem _ hx, h⟩, hr⟩
        · refine .inr ⟨he, fun hn => ?_⟩
          obtain ⟨rows, b, hr, hm⟩ := hok hn
          refine ⟨((List.range' 0 a.ids.length).map fun row => (st, a, row)) ++ rows, b,
            by rw [hr, List.append_assoc], ?_⟩
          have h00 := hg 0 (by simp)
          simp only [List.getElem_cons_zero] at h00
          rw [List.map_append, List.map_append, hm, curRows_map_deref (fun row => h00 row a hget)]

theorem deref_zip (w : World) (keys : List Nat) (vals : List (AS × Nat)) (i : Nat)
    (h : i < (keys.zip vals).length) (row : Nat) (a : Arch) (ha : w.archs.get (keys.zip vals)[i].1 = some a) :
    deref w keys vals (i, row) = some ((keys.zip vals)[i].2.1, a, row) := by
  have h1 : i < keys.length := by rw [List.length_zip] at h; omega
  have h2 : i < vals.length := by rw [List.length_zip] at h; omega
  rw [List.getElem_zip] at ha ⊢
  unfold deref
  simp only [List.getElem?_eq_getElem h1, List.getElem?_eq_getElem h2]
  rw [ha]
  rfl

/-- all cached column pointers are current (`FetcherState` refreshes them on `refresh_archetype`; C10 / `WInv`) -/
def EpochsOK (w : World) (p : Param) : Prop :=
  ∀ x ∈ p.cache.keys.zip p.cache.values, ∀ a, w.archs.get x.1 = some a → 0 < a.ids.length → x.2.2 = a.epoch

/-- **`paramRows` against the state machine, every case.**  `paramRows p` in world `w` and the state machine over the
    dense arrays of `p`'s cache with `count := w.entityCount` (and `fuel > total`):
    * either some cached column pointer is stale and `paramRows` raises its extra marker `fetch.rs:stale-column-pointer`
      (column pointers are not part of the iterator state machine), or
    * the `for` loop over the state machine ends normally, `paramRows` returns `rows`, and dereferencing the yielded
      `(pos, row)` items (`deref`: arch state `vals[pos]`, archetype `keys[pos]`) gives exactly `rows`, in order; or
    * the state machine ends in the marker `e` and `paramRows` raises `Err.ub e` — the SAME marker
      (`archetypes.get` / `assume_nonempty`); the world is never changed. -/
theorem paramRows_cases (w : World) (p : Param) (hlen : p.cache.keys.length = p.cache.values.length) {fuel : Nat}
    (hf : total p.cache.keys w.entityCount < fuel) :
    (StaleIn w (p.cache.keys.zip p.cache.values) ∧
      (paramRows p).run.run w = (.error (.ub "fetch.rs:stale-column-pointer"), w)) ∨
    match drain p.cache.keys w.entityCount fuel with
    | .ok t => t.done = true ∧ ∃ rows, (paramRows p).run.run w = (.ok rows, w) ∧
        t.items.map (deref w p.cache.keys p.cache.values) = rows.map some
    | .error e => (paramRows p).run.run w = (.error (.ub e), w) := by
  have hmap : (p.cache.keys.zip p.cache.values).map (·.1) = p.cache.keys := List.map_fst_zip (Nat.le_of_eq hlen)
  rcases foldSteps_full w (deref w p.cache.keys p.cache.values) _ (deref_zip w _ _) with ⟨hs, hr⟩ | hag
  · exact .inl ⟨hs, by rw [run_paramRows, hr]; rfl⟩
  · refine .inr ?_
    rw [hmap] at hag
    have hd := drain_spec (count := w.entityCount) hf
    cases hsp : (fullSpec w.entityCount p.cache.keys).2 with
    | none =>
      rw [hsp] at hd
      obtain ⟨fin, hd, -⟩ := hd
      obtain ⟨rows, b, hr, hm⟩ := hag.2 hsp
      rw [hd]
      exact ⟨rfl, rows, by rw [run_paramRows, hr, List.nil_append], hm⟩
    | some e =>
      rw [hsp] at hd
      rw [hd, run_paramRows, hag.1 e hsp]

/-- **the tie to the executed world model**, under "all cached epochs current" -/
theorem paramRows_eq_run (w : World) (p : Param) (hlen : p.cache.keys.length = p.cache.values.length)
    (hep : EpochsOK w p) {fuel : Nat} (hf : total p.cache.keys w.entityCount < fuel) :
    match drain p.cache.keys w.entityCount fuel with
    | .ok t => t.done = true ∧ ∃ rows, (paramRows p).run.run w = (.ok rows, w) ∧
        t.items.map (deref w p.cache.keys p.cache.values) = rows.map some
    | .error e => (paramRows p).run.run w = (.error (.ub e), w) := by
  rcases paramRows_cases w p hlen hf with ⟨⟨x, hx, a, ha, hpos, hne⟩, -⟩ | h
  · exact absurd (hep x hx a ha hpos) hne
  · exact h


/-- the `(archetype index, row)` an item stands for -/
def cell (keys : List Nat) (x : Nat × Nat) : Nat × Nat := (keys[x.1]?.getD 0, x.2)

theorem deref_cell {w : World} (hidx : IndexOk w) {keys : List Nat} {vals : List (AS × Nat)} {x : Nat × Nat}
    {r : AS × Arch × Nat} (h : deref w keys vals x = some r) : (r.2.1.index, r.2.2) = cell keys x := by
  unfold deref at h
  split at h
  · rename_i k v hk hv
    cases ha : w.archs.get k with
    | none => rw [ha] at h; cases h
    | some a =>
      rw [ha] at h
      cases h
      simp [cell, hk, hidx k a ha]
  · cases h

theorem map_of_map_some {α β γ : Type} {f : α → Option β} {g : β → γ} {h : α → γ}
    (hfg : ∀ x r, f x = some r → g r = h x) :
    ∀ (items : List α) (rows : List β), items.map f = rows.map some → rows.map g = items.map h
  | [], [], _ => rfl
  | [], _ :: _, e => nomatch e
  | _ :: _, [], e => nomatch e
  | x :: items, r :: rows, e => by
    rw [List.map_cons, List.map_cons] at e
    injection e with e1 e2
    rw [List.map_cons, List.map_cons, hfg x r e1, map_of_map_some hfg items rows e2]

/-- **`paramRows` returns normally ⇒ it returned what the state machine yields** (no epoch hypothesis needed): the
    `(archetype index, row)` sequence of `rows` is the yielded `(pos, row)` sequence mapped through `keys[pos]`, and
    the state machine ended normally too -/
theorem paramRows_ok (w : World) (p : Param) (hlen : p.cache.keys.length = p.cache.values.length) (hidx : IndexOk w)
    {fuel : Nat} (hf : total p.cache.keys w.entityCount < fuel) {rows : List (AS × Arch × Nat)} {w' : World}
    (h : (paramRows p).run.run w = (.ok rows, w')) :
    w' = w ∧ ∃ t, drain p.cache.keys w.entityCount fuel = .ok t ∧ t.done = true ∧
      rows.map (fun r => (r.2.1.index, r.2.2)) = t.items.map (cell p.cache.keys) := by
  rcases paramRows_cases w p hlen hf with ⟨-, hs⟩ | hm
  · rw [hs] at h; cases h
  · cases hd : drain p.cache.keys w.entityCount fuel with
    | error e => rw [hd] at hm; rw [hm] at h; cases h
    | ok t =>
      rw [hd] at hm
      obtain ⟨hdone, rows', hr, hmap⟩ := hm
      rw [hr] at h
      cases h
      exact ⟨rfl, t, rfl, hdone, map_of_map_some (fun x r hx => deref_cell hidx hx) _ _ hmap⟩

/-- **`paramRows` raises `archetypes.get` / `assume_nonempty` exactly when the state machine does** (epochs current) -/
theorem paramRows_marker_iff (w : World) (p : Param) (hlen : p.cache.keys.length = p.cache.values.length)
    (hep : EpochsOK w p) {fuel : Nat} (hf : total p.cache.keys w.entityCount < fuel) (e : String) :
    (paramRows p).run.run w = (.error (.ub e), w) ↔ drain p.cache.keys w.entityCount fuel = .error e := by
  have hm := paramRows_eq_run w p hlen hep hf
  constructor
  · intro h
    cases hd : drain p.cache.keys w.entityCount fuel with
    | error e' =>
      rw [hd] at hm
      rw [hm] at h
      injection h with h1 _
      injection h1 with h1
      injection h1 with h1
      rw [h1]
    | ok t =>
      rw [hd] at hm
      obtain ⟨-, rows, hr, -⟩ := hm
      rw [hr] at h
      cases h
  · intro hd
    rw [hd] at hm
    exact hm

/-- … and the only other way `paramRows` can fail is its extra marker, which needs a stale cached column pointer -/
theorem paramRows_error (w : World) (p : Param) (hlen : p.cache.keys.length = p.cache.values.length) {fuel : Nat}
    (hf : total p.cache.keys w.entityCount < fuel) {err : Err} {w' : World}
    (h : (paramRows p).run.run w = (.error err, w')) :
    w' = w ∧ ((err = .ub "fetch.rs:stale-column-pointer" ∧ StaleIn w (p.cache.keys.zip p.cache.values)) ∨
      ∃ e, err = .ub e ∧ drain p.cache.keys w.entityCount fuel = .error e) := by
  rcases paramRows_cases w p hlen hf with ⟨hst, hs⟩ | hm
  · rw [hs] at h
    cases h
    exact ⟨rfl, .inl ⟨rfl, hst⟩⟩
  · cases hd : drain p.cache.keys w.entityCount fuel with
    | error e =>
      rw [hd] at hm
      rw [hm] at h
      cases h
      exact ⟨rfl, .inr ⟨e, rfl, rfl⟩⟩
    | ok t =>
      rw [hd] at hm
      obtain ⟨-, rows, hr, -⟩ := hm
      rw [hr] at h
      cases h

/-- under the cache invariant (`Good` for the world's entity counts, current epochs) `paramRows` returns exactly the
    rows of `rowsOf`, dereferenced -/
theorem paramRows_rowsOf (w : World) (p : Param) (hlen : p.cache.keys.length = p.cache.values.length)
    (hep : EpochsOK w p) (hg : Good p.cache.keys w.entityCount) :
    ∃ rows, (paramRows p).run.run w = (.ok rows, w) ∧
      (rowsOf p.cache.keys w.entityCount).map (deref w p.cache.keys p.cache.values) = rows.map some := by
  have hm := paramRows_eq_run w p hlen hep (Nat.lt_succ_self _)
  obtain ⟨fin, hd, -⟩ := drain_exact hg (Nat.lt_succ_self (total p.cache.keys w.entityCount))
  rw [hd] at hm
  exact hm.2

/-! ## non-vacuity: a concrete cache with three archetypes of sizes 2, 1, 3 -/

namespace Example

/-- three cached archetypes `5, 7, 9` with `2, 1, 3` entities; archetype `4` is live and empty; all others are dead -/
def exCount : Nat → Option Nat
  | 5 => some 2
  | 7 => some 1
  | 9 => some 3
  | 4 => some 0
  | _ => none

def exKeys : List Nat := [5, 7, 9]

example : Good exKeys exCount := by
  intro k hk
  simp only [exKeys, List.mem_cons, List.not_mem_nil, or_false] at hk
  rcases hk with rfl | rfl | rfl
  · exact ⟨2, rfl, by decide⟩
  · exact ⟨1, rfl, by decide⟩
  · exact ⟨3, rfl, by decide⟩

example : total exKeys exCount = 6 := by decide
example : rowsOf exKeys exCount = [(0, 0), (0, 1), (1, 0), (2, 0), (2, 1), (2, 2)] := by decide

/-- the harness loop: six items, the countdown `6, …, 0`, exhausted at `pos = last = 2`, `row = len = 3` -/
example : run exKeys exCount 7 =
    .ok ⟨[(0, 0), (0, 1), (1, 0), (2, 0), (2, 1), (2, 2)], [6, 5, 4, 3, 2, 1, 0], ⟨2, 2, false, 3, 3⟩, true⟩ := rfl

/-- the fuel bound `total + 1` is tight: with `total` calls of `next` the `None` has not been seen yet -/
example : run exKeys exCount 6 =
    .ok ⟨[(0, 0), (0, 1), (1, 0), (2, 0), (2, 1), (2, 2)], [6, 5, 4, 3, 2, 1], ⟨2, 2, false, 3, 3⟩, false⟩ := rfl

/-- fused: five more rounds on the exhausted iterator -/
example : nextN exKeys exCount 5 ⟨2, 2, false, 3, 3⟩ = .ok (none, ⟨2, 2, false, 3, 3⟩) := rfl
example : remaining exKeys exCount ⟨2, 2, false, 3, 3⟩ = .ok 0 := rfl

/-- the empty cache: dangling pointers, nothing is read -/
example : run [] exCount 1 = .ok ⟨[], [0], ⟨0, 0, true, 0, 0⟩, true⟩ := rfl

/-- the FIRST archetype is empty: skipped, no marker -/
example : run [4, 7, 9] exCount 5 =
    .ok ⟨[(1, 0), (2, 0), (2, 1), (2, 2)], [4, 3, 2, 1, 0], ⟨2, 2, false, 3, 3⟩, true⟩ := rfl

/-- a LATER archetype is empty / dead -/
example : run [5, 4, 9] exCount 7 = .error "fetch.rs:iter:assume_nonempty" := rfl
example : drain [5, 4, 9] exCount 7 = .error "fetch.rs:iter:assume_nonempty" := rfl
example : drain [5, 7, 1] exCount 7 = .error "fetch.rs:iter:archetypes.get" := rfl
example : run [5, 7, 1] exCount 7 = .error "fetch.rs:iter:archetypes.get" := rfl
/-- the two drivers differ when an empty archetype comes BEFORE a dead one: `len()` looks ahead -/
example : drain [5, 4, 1] exCount 7 = .error "fetch.rs:iter:assume_nonempty" := rfl
example : run [5, 4, 1] exCount 7 = .error "fetch.rs:iter:archetypes.get" := rfl
/-- the first archetype is dead: `iter_unchecked` -/
example : run [1, 7] exCount 7 = .error "fetch.rs:iter:archetypes.get" := rfl

/-! a concrete world for `paramRows_eq_run`: archetypes `0` (empty), `1, 2, 3` with `2, 1, 3` entities -/

def exArch (i n ep : Nat) : Arch :=
  { index := i, comps := [], cols := [], ids := (List.range n).map fun r => ⟨10 * i + r, 0⟩, epoch := ep }

def exWorld : World :=
  { (default : World) with
    archs := { entries := [.occ (exArch 0 0 0), .occ (exArch 1 2 7), .occ (exArch 2 1 8), .occ (exArch 3 3 9)], next := 4 } }

def exParam : Param :=
  { kind := .fetch, hasQ := true,
    cache := ((({} : SparseMap (AS × Nat)).insert 1 (.triv, 7)).insert 2 (.triv, 8)).insert 3 (.triv, 9) }

example : exParam.cache.keys = [1, 2, 3] := by decide
example : exParam.cache.keys.length = exParam.cache.values.length := by decide

theorem exZip : exParam.cache.keys.zip exParam.cache.values = [(1, .triv, 7), (2, .triv, 8), (3, .triv, 9)] := by
  decide

theorem exEpochs : EpochsOK exWorld exParam := by
  intro x hx a ha _
  rw [exZip] at hx
  simp only [List.mem_cons, List.not_mem_nil, or_false] at hx
  rcases hx with rfl | rfl | rfl <;> (cases ha; rfl)

theorem exGood : Good exParam.cache.keys exWorld.entityCount := by
  intro k hk
  rw [show exParam.cache.keys = [1, 2, 3] by decide] at hk
  simp only [List.mem_cons, List.not_mem_nil, or_false] at hk
  rcases hk with rfl | rfl | rfl
  · exact ⟨2, rfl, by decide⟩
  · exact ⟨1, rfl, by decide⟩
  · exact ⟨3, rfl, by decide⟩

/-- the hypotheses of `paramRows_eq_run` / `paramRows_rowsOf` are satisfiable, and what both sides compute -/
example : ∃ rows, (paramRows exParam).run.run exWorld = (.ok rows, exWorld) ∧
    (rowsOf exParam.cache.keys exWorld.entityCount).map (deref exWorld exParam.cache.keys exParam.cache.values) =
      rows.map some :=
  paramRows_rowsOf exWorld exParam (by decide) exEpochs exGood

example : (paramRows exParam).run.run exWorld =
    (.ok [(.triv, exArch 1 2 7, 0), (.triv, exArch 1 2 7, 1), (.triv, exArch 2 1 8, 0),
          (.triv, exArch 3 3 9, 0), (.triv, exArch 3 3 9, 1), (.triv, exArch 3 3 9, 2)], exWorld) := by
  rw [run_paramRows]
  rfl

example : (drain exParam.cache.keys exWorld.entityCount 7).toOption.map (·.items.map (cell exParam.cache.keys)) =
    some [(1, 0), (1, 1), (2, 0), (3, 0), (3, 1), (3, 2)] := by decide

/-- a stale column pointer (the cache remembers epoch `8` of archetype `2`, which has reallocated to `80`): `paramRows`
    raises its extra marker, the state machine does not notice -/
def exWorldStale : World :=
  { (default : World) with
    archs := { entries := [.occ (exArch 0 0 0), .occ (exArch 1 2 7), .occ (exArch 2 1 80), .occ (exArch 3 3 9)], next := 4 } }

example : (paramRows exParam).run.run exWorldStale = (.error (.ub "fetch.rs:stale-column-pointer"), exWorldStale) := by
  rw [run_paramRows]
  rfl

/-- archetype `2` has been emptied but is still cached: both sides end in `assume_nonempty` -/
def exWorldEmptied : World :=
  { (default : World) with
    archs := { entries := [.occ (exArch 0 0 0), .occ (exArch 1 2 7), .occ (exArch 2 0 8), .occ (exArch 3 3 9)], next := 4 } }

example : (paramRows exParam).run.run exWorldEmptied = (.error (.ub "fetch.rs:iter:assume_nonempty"), exWorldEmptied) := by
  rw [run_paramRows]
  rfl
example : drain exParam.cache.keys exWorldEmptied.entityCount 7 = .error "fetch.rs:iter:assume_nonempty" := rfl

end Example
end IterSM
end Evenio
