import Evenio.Proofs.DeliverOne
import Evenio.Proofs.StorageRefine
/-! # The component store along the handler phase: handlers write component VALUES only, and only through `bump`

`World.read w e c` is `World::get` written out (entity map → archetype → column cell); it coincides with
`World.getCell` (the read through `absStore`) whenever the entity map is well formed (`Props/C02History.lean`,
`read_eq_getCell`).  A read depends on two fields only: `entities` and `archs`.

The one-state predicate `HB E H A C` ("handler bound", parametrised by the entity map `E`, the handler registry `H`
and the archetype slab `A` of the START state and by a set `C` of component indices):

* the entity map and the handler registry are literally the ones of the start;
* every archetype is stored under its own index;
* `SlabSim C A w.archs`: slot by slot the archetype is the one of the start in every field but `cols`, and `cols`
  differs from the start at most in the PAYLOAD `Cell.v` of cells of columns whose component is in `C` — same number
  of columns, same column lengths, same ledger serial of every cell.

One `Keeps (HB …)` lemma per model function a running handler reaches (`runAct`, `runHandler`, `handlerLoop`,
`handlerPhase`), proved by the structural tactic of `Proofs/Keeps.lean` with a PRIVATE leaf table (`sh_leaf`).
`bumpCell` is the only leaf that writes `archs`; every action but `bump` keeps `HB` for EVERY `C`, in particular for
`C = ∅`, where `SlabSim` says "same archetype in every slot", hence the same reads. -/
namespace Evenio

/-- `World::get::<C>(e)`: location of `e` in the entity map, archetype at that location, cell of `c`'s column -/
def World.read (w : World) (e : Key) (c : Nat) : Option Cell :=
  match w.entities.get e with
  | none => none
  | some loc =>
    match w.archs.get loc.arch with
    | none => none
    | some a => a.readCell c loc.row

/-- the component set of `e`'s archetype -/
def World.compsAt (w : World) (e : Key) : Option (List Nat) :=
  match w.entities.get e with
  | none => none
  | some loc => (w.archs.get loc.arch).map (·.comps)

/-! ## similarity of columns, archetypes, slabs -/

/-- same length, same serial in every row; the same cell when `keep` holds -/
def ColSim (keep : Prop) (ca cb : List Cell) : Prop :=
  cb.length = ca.length ∧ ∀ (r : Nat) (x : Cell), ca[r]? = some x → ∃ y : Cell, cb[r]? = some y ∧ y.ser = x.ser ∧ (keep → y = x)

theorem ColSim.refl (keep : Prop) (ca : List Cell) : ColSim keep ca ca :=
  ⟨rfl, fun _ x h => ⟨x, h, rfl, fun _ => rfl⟩⟩

theorem ColSim.trans {keep : Prop} {a b c : List Cell} (h1 : ColSim keep a b) (h2 : ColSim keep b c) :
    ColSim keep a c := by
  refine ⟨h2.1.trans h1.1, fun r x hx => ?_⟩
  obtain ⟨y, hy, hs, hk⟩ := h1.2 r x hx
  obtain ⟨z, hz, hs', hk'⟩ := h2.2 r y hy
  exact ⟨z, hz, hs'.trans hs, fun k => (hk' k).trans (hk k)⟩

/-- `b` is `a` up to the payloads of cells in columns of components in `C` -/
structure ArchSim (C : Nat → Prop) (a b : Arch) : Prop where
  rest : b = { a with cols := b.cols }
  len : b.cols.length = a.cols.length
  col : ∀ (i : Nat) (ca : List Cell), a.cols[i]? = some ca →
    ∃ cb : List Cell, b.cols[i]? = some cb ∧ ColSim (∀ c : Nat, a.comps[i]? = some c → ¬ C c) ca cb

theorem ArchSim.refl (C : Nat → Prop) (a : Arch) : ArchSim C a a :=
  ⟨rfl, rfl, fun _ ca h => ⟨ca, h, ColSim.refl _ _⟩⟩

theorem ArchSim.comps {C : Nat → Prop} {a b : Arch} (h : ArchSim C a b) : b.comps = a.comps := by
  rw [h.rest]
theorem ArchSim.index {C : Nat → Prop} {a b : Arch} (h : ArchSim C a b) : b.index = a.index := by
  rw [h.rest]
theorem ArchSim.ids {C : Nat → Prop} {a b : Arch} (h : ArchSim C a b) : b.ids = a.ids := by
  rw [h.rest]

theorem ArchSim.trans {C : Nat → Prop} {a b c : Arch} (h1 : ArchSim C a b) (h2 : ArchSim C b c) : ArchSim C a c := by
  refine ⟨?_, h2.len.trans h1.len, fun i ca hca => ?_⟩
  · have e1 := h1.rest; have e2 := h2.rest
    rw [e2, e1]
  · obtain ⟨cb, hcb, s1⟩ := h1.col i ca hca
    obtain ⟨cc, hcc, s2⟩ := h2.col i cb hcb
    rw [h1.comps] at s2
    exact ⟨cc, hcc, s1.trans s2⟩

/-- a larger set of writable components -/
theorem ArchSim.mono {C D : Nat → Prop} (hCD : ∀ c, C c → D c) {a b : Arch} (h : ArchSim C a b) : ArchSim D a b := by
  refine ⟨h.rest, h.len, fun i ca hca => ?_⟩
  obtain ⟨cb, hcb, hl, hr⟩ := h.col i ca hca
  refine ⟨cb, hcb, hl, fun r x hx => ?_⟩
  obtain ⟨y, hy, hs, hk⟩ := hr r x hx
  exact ⟨y, hy, hs, fun k => hk fun c hc hC => k c hc (hCD c hC)⟩

theorem colIdx_getElem {a : Arch} {c i : Nat} (h : a.colIdx c = some i) : a.comps[i]? = some c := by
  unfold Arch.colIdx at h
  obtain ⟨hlt, hx, -⟩ := List.idxOf?_eq_some_iff.1 h
  rw [List.getElem?_eq_getElem hlt, hx]

/-- **what a read sees of a similar archetype**: presence and serial always, the cell itself outside `C` -/
theorem ArchSim.readCell {C : Nat → Prop} {a b : Arch} (h : ArchSim C a b) (c row : Nat) :
    (∀ x, a.readCell c row = some x → ∃ y, b.readCell c row = some y ∧ y.ser = x.ser ∧ (¬ C c → y = x)) ∧
    (a.readCell c row = none → b.readCell c row = none) := by
  unfold Arch.readCell Arch.colIdx
  rw [h.comps]
  cases hi : a.comps.idxOf? c with
  | none => exact ⟨fun x hx => (by cases hx), fun _ => rfl⟩
  | some i =>
    have hci : a.comps[i]? = some c := colIdx_getElem (a := a) hi
    cases hca : a.cols[i]? with
    | none =>
      have : b.cols[i]? = none := by
        rw [List.getElem?_eq_none_iff] at hca ⊢
        rw [h.len]; exact hca
      simp only [Option.bind_eq_bind, Option.bind_some, hca, this, Option.bind_none]
      exact ⟨fun x hx => (by cases hx), fun _ => trivial⟩
    | some ca =>
      obtain ⟨cb, hcb, hl, hr⟩ := h.col i ca hca
      simp only [Option.bind_eq_bind, Option.bind_some, hca, hcb]
      refine ⟨fun x hx => ?_, fun hn => ?_⟩
      · obtain ⟨y, hy, hs, hk⟩ := hr row x hx
        exact ⟨y, hy, hs, fun hC => hk fun c' hc' => by rw [hci] at hc'; cases hc'; exact hC⟩
      · rw [List.getElem?_eq_none_iff] at hn ⊢
        rw [hl]; exact hn

/-- slot by slot: vacant stays vacant, an occupant is similar to the occupant of the start -/
def SlabSim (C : Nat → Prop) (A B : Slab Arch) : Prop :=
  ∀ i, (A.get i = none → B.get i = none) ∧ ∀ a, A.get i = some a → ∃ b, B.get i = some b ∧ ArchSim C a b

theorem SlabSim.refl (C : Nat → Prop) (A : Slab Arch) : SlabSim C A A :=
  fun _ => ⟨fun h => h, fun a h => ⟨a, h, ArchSim.refl C a⟩⟩

theorem SlabSim.mono {C D : Nat → Prop} (hCD : ∀ c, C c → D c) {A B : Slab Arch} (h : SlabSim C A B) :
    SlabSim D A B := fun i =>
  ⟨(h i).1, fun a ha => by obtain ⟨b, hb, hs⟩ := (h i).2 a ha; exact ⟨b, hb, hs.mono hCD⟩⟩

/-- one archetype is replaced by a similar one -/
theorem SlabSim.set {C : Nat → Prop} {A B : Slab Arch} (h : SlabSim C A B) {i : Nat} {b b' : Arch}
    (hb : B.get i = some b) (hs : ArchSim C b b') : SlabSim C A (B.set i b') := by
  intro j
  rw [slab_get_set b' hb j]
  by_cases hj : j = i
  · subst hj
    rw [if_pos rfl]
    refine ⟨fun hn => ?_, fun a ha => ?_⟩
    · rw [(h j).1 hn] at hb; cases hb
    · obtain ⟨b0, hb0, hs0⟩ := (h j).2 a ha
      rw [hb] at hb0; cases hb0
      exact ⟨b', rfl, hs0.trans hs⟩
  · rw [if_neg hj]; exact h j

/-! ## the predicate -/

/-- every archetype is stored under its own index -/
def SlabIdx (A : Slab Arch) : Prop := ∀ i a, A.get i = some a → a.index = i

/-- the entity map and the handler registry are `E`, `H`; the slab is `A` up to payloads of `C`-columns -/
abbrev HB (E : SlotMap Loc) (H : SlotMap HInfo) (A : Slab Arch) (C : Nat → Prop) : World → Prop :=
  fun w => w.entities = E ∧ w.handlers = H ∧ SlabIdx w.archs ∧ SlabSim C A w.archs

theorem HB.init {w : World} (hi : SlabIdx w.archs) (C : Nat → Prop) : HB w.entities w.handlers w.archs C w :=
  ⟨rfl, rfl, hi, SlabSim.refl C _⟩

variable {E : SlotMap Loc} {H : SlotMap HInfo} {A : Slab Arch} {C : Nat → Prop}

/-- **reads under `HB`**: the same presence and the same serial at every `(e, c)`; the same cell when `c ∉ C` -/
theorem HB.read {w0 w : World} (h : HB w0.entities w0.handlers w0.archs C w) (e : Key) (c : Nat) :
    (∀ x, w0.read e c = some x → ∃ y, w.read e c = some y ∧ y.ser = x.ser ∧ (¬ C c → y = x)) ∧
    (w0.read e c = none → w.read e c = none) := by
  obtain ⟨he, -, -, hs⟩ := h
  unfold World.read
  rw [he]
  cases w0.entities.get e with
  | none => exact ⟨fun x hx => (by cases hx), fun _ => rfl⟩
  | some loc =>
    dsimp only
    cases ha : w0.archs.get loc.arch with
    | none =>
      rw [(hs loc.arch).1 ha]
      exact ⟨fun x hx => (by cases hx), fun _ => rfl⟩
    | some a =>
      obtain ⟨b, hb, hab⟩ := (hs loc.arch).2 a ha
      rw [hb]
      exact hab.readCell c loc.row

/-- the component set of every id is unchanged -/
theorem HB.compsAt {w0 w : World} (h : HB w0.entities w0.handlers w0.archs C w) (e : Key) :
    w.compsAt e = w0.compsAt e := by
  obtain ⟨he, -, -, hs⟩ := h
  unfold World.compsAt
  rw [he]
  cases w0.entities.get e with
  | none => rfl
  | some loc =>
    dsimp only
    cases ha : w0.archs.get loc.arch with
    | none => rw [(hs loc.arch).1 ha]
    | some a =>
      obtain ⟨b, hb, hab⟩ := (hs loc.arch).2 a ha
      rw [hb, Option.map_some, Option.map_some, hab.comps]

/-- with no writable component the reads are literally the same -/
theorem HB.read_eq {w0 w : World} (h : HB w0.entities w0.handlers w0.archs (fun _ => False) w) (e : Key) (c : Nat) :
    w.read e c = w0.read e c := by
  obtain ⟨h1, h2⟩ := h.read e c
  cases h0 : w0.read e c with
  | none => exact h2 h0
  | some x =>
    obtain ⟨y, hy, -, hk⟩ := h1 x h0
    rw [hy, hk (fun hf => hf)]

/-! ## the structural tactic with a private leaf table -/

/-- leaf lemmas of this file; extended with `macro_rules` -/
syntax "sh_leaf" : tactic
/-- one structural step (`keeps_step` with `sh_leaf`) -/
syntax "sh_step" : tactic

macro_rules | `(tactic| sh_leaf) => `(tactic| fail "no leaf lemma")

macro_rules
  | `(tactic| sh_step) => `(tactic| first
      | with_reducible exact Keeps.pure _
      | with_reducible exact Keeps.throw _
      | with_reducible exact Keeps.get
      | with_reducible sh_leaf
      | ((with_reducible refine Keeps.set ?_); first | assumption | (simp only []; assumption))
      | ((with_reducible refine Keeps.modify (fun _ h => ?_)); first | exact h | (simp only []; exact h))
      | ((with_reducible refine Keeps.modifyGet (fun _ h => ?_)); first | exact h | (simp only []; exact h))
      | (with_reducible refine Keeps.get_bind (fun _ _ => ?_))
      | (with_reducible refine Keeps.bind ?_ (fun _ => ?_))
      | (with_reducible refine Keeps.tryCatch ?_ (fun _ => ?_))
      | (with_reducible refine Keeps.tryCatchThe ?_ (fun _ => ?_))
      | (with_reducible refine Keeps.forIn_list (fun _ _ => ?_))
      | (with_reducible refine Keeps.forIn_range (fun _ _ => ?_))
      | (with_reducible refine Keeps.ite ?_ ?_)
      | dsimp only
      | split)

/-- prove `Keeps I m` structurally, with the leaves of `sh_leaf` -/
macro "sh_keeps" : tactic => `(tactic| repeat' sh_step)

theorem logT_hb (s : String) : Keeps (HB E H A C) (logT s) := by unfold logT; sh_keeps
macro_rules | `(tactic| sh_leaf) => `(tactic| exact logT_hb _)
theorem ubErr_hb {α : Type} (s : String) : Keeps (HB E H A C) ((ubErr s : M α)) := by unfold ubErr; sh_keeps
macro_rules | `(tactic| sh_leaf) => `(tactic| exact ubErr_hb _)
theorem dbgAssert_hb (c : Bool) (s : String) : Keeps (HB E H A C) (dbgAssert c s) := by unfold dbgAssert; sh_keeps
macro_rules | `(tactic| sh_leaf) => `(tactic| exact dbgAssert_hb _ _)
theorem dropCell_hb (ty : Nat) (c : Cell) : Keeps (HB E H A C) (dropCell ty c) := by unfold dropCell; sh_keeps
macro_rules | `(tactic| sh_leaf) => `(tactic| exact dropCell_hb _ _)
theorem dropEvent_hb (it : QItem) : Keeps (HB E H A C) (dropEvent it) := by unfold dropEvent; sh_keeps
macro_rules | `(tactic| sh_leaf) => `(tactic| exact dropEvent_hb _)
theorem getArch_hb (i : Nat) (s : String) : Keeps (HB E H A C) (getArch i s) := by unfold getArch; sh_keeps
macro_rules | `(tactic| sh_leaf) => `(tactic| exact getArch_hb _ _)
theorem reserve_hb : Keeps (HB E H A C) (reserve) := by unfold reserve; sh_keeps
macro_rules | `(tactic| sh_leaf) => `(tactic| exact reserve_hb)
theorem push_hb (it : QItem) : Keeps (HB E H A C) (push it) := by unfold push; sh_keeps
macro_rules | `(tactic| sh_leaf) => `(tactic| exact push_hb _)
theorem takeBudget_hb : Keeps (HB E H A C) (takeBudget) := by unfold takeBudget; sh_keeps
macro_rules | `(tactic| sh_leaf) => `(tactic| exact takeBudget_hb)
theorem freshE_hb : Keeps (HB E H A C) (freshE) := by unfold freshE; sh_keeps
macro_rules | `(tactic| sh_leaf) => `(tactic| exact freshE_hb)
theorem freshC_hb : Keeps (HB E H A C) (freshC) := by unfold freshC; sh_keeps
macro_rules | `(tactic| sh_leaf) => `(tactic| exact freshC_hb)
theorem senderPush_hb (h : HInfo) (it : QItem) : Keeps (HB E H A C) (senderPush h it) := by unfold senderPush; sh_keeps
macro_rules | `(tactic| sh_leaf) => `(tactic| exact senderPush_hb _ _)
theorem paramRows_hb (p : Param) : Keeps (HB E H A C) (paramRows p) := by unfold paramRows; sh_keeps
macro_rules | `(tactic| sh_leaf) => `(tactic| exact paramRows_hb _)
theorem itemAt_hb (st : AS) (a : Arch) (row : Nat) : Keeps (HB E H A C) (itemAt st a row) := by unfold itemAt; sh_keeps
macro_rules | `(tactic| sh_leaf) => `(tactic| exact itemAt_hb _ _ _)
theorem paramGet_hb (p : Param) (id : Key) : Keeps (HB E H A C) (paramGet p id) := by unfold paramGet; sh_keeps
macro_rules | `(tactic| sh_leaf) => `(tactic| exact paramGet_hb _ _)
theorem getParam_hb (h : HInfo) (p : Nat) : Keeps (HB E H A C) (getParam h p) := by unfold getParam; sh_keeps
macro_rules | `(tactic| sh_leaf) => `(tactic| exact getParam_hb _ _)

/-! ## `bumpCell`: the one write of the handler phase -/

/-- the run of `bumpCell`, case by case -/
theorem run_bumpCell (ai row c : Nat) (w : World) :
    (bumpCell ai row c).run.run w =
      match w.archs.get ai with
      | none => (.error (.ub "bump:arch"), w)
      | some a =>
        match a.colIdx c with
        | none => (.error (.ub "bump:column"), w)
        | some i =>
          match a.cols[i]? with
          | none => (.error (.ub "bump:column"), w)
          | some col =>
            match col[row]? with
            | none => (.error (.ub "bump:row"), w)
            | some x =>
              (.ok (), { w with archs :=
                (w.archs.set a.index { a with cols := a.cols.set i (col.set row { x with v := x.v + 1 }) }) }) := by
  unfold bumpCell
  rw [run_bind, run_getArch']
  cases w.archs.get ai with
  | none => rfl
  | some a =>
    dsimp only
    cases a.colIdx c with
    | none => rfl
    | some i =>
      dsimp only
      cases a.cols[i]? with
      | none => rfl
      | some col =>
        dsimp only
        cases col[row]? with
        | none => rfl
        | some x => rfl

/-- the archetype `bumpCell` writes back is similar to the one it read, for every `C` that contains the component -/
theorem archSim_bump {a : Arch} {c i row : Nat} {col : List Cell} {x : Cell} (hC : C c)
    (hi : a.colIdx c = some i) (hcol : a.cols[i]? = some col) (hx : col[row]? = some x) :
    ArchSim C a { a with cols := a.cols.set i (col.set row { x with v := x.v + 1 }) } := by
  have hlt : i < a.cols.length := (List.getElem?_eq_some_iff.1 hcol).1
  have hrow : row < col.length := (List.getElem?_eq_some_iff.1 hx).1
  refine ⟨rfl, by simp, fun j ca hca => ?_⟩
  by_cases hj : i = j
  · subst hj
    rw [hcol] at hca; cases hca
    refine ⟨col.set row { x with v := x.v + 1 }, List.getElem?_set_self hlt, List.length_set .., fun r y hy => ?_⟩
    by_cases hr : row = r
    · subst hr
      rw [hx] at hy; cases hy
      exact ⟨{ x with v := x.v + 1 }, List.getElem?_set_self hrow, rfl, fun k => absurd hC (k c (colIdx_getElem hi))⟩
    · exact ⟨y, by rw [List.getElem?_set_ne hr]; exact hy, rfl, fun _ => rfl⟩
  · exact ⟨ca, by dsimp only; rw [List.getElem?_set_ne hj]; exact hca, ColSim.refl _ _⟩

/-- **`bumpCell` of a component in `C`** -/
theorem bumpCell_hb (ai row c : Nat) (hC : C c) : Keeps (HB E H A C) (bumpCell ai row c) := by
  refine ⟨fun w hw => ?_⟩
  rw [run_bumpCell]
  cases ha : w.archs.get ai with
  | none => exact hw
  | some a =>
    dsimp only
    cases hi : a.colIdx c with
    | none => exact hw
    | some i =>
      dsimp only
      cases hcol : a.cols[i]? with
      | none => exact hw
      | some col =>
        dsimp only
        cases hx : col[row]? with
        | none => exact hw
        | some x =>
          obtain ⟨h1, h2, h3, h4⟩ := hw
          have hidx : a.index = ai := h3 ai a ha
          subst hidx
          refine ⟨h1, h2, ?_, ?_⟩
          · intro j b hb
            dsimp only at hb
            rw [slab_get_set _ ha j] at hb
            by_cases hj : j = a.index
            · rw [if_pos hj] at hb; cases hb; exact hj.symm
            · rw [if_neg hj] at hb; exact h3 j b hb
          · exact h4.set ha (archSim_bump hC hi hcol hx)

/-! ## actions, handlers, the handler loop -/

theorem Keeps.forIn_list_mem {β γ : Type} {I : World → Prop} {l : List γ} {b : β}
    {f : γ → β → M (ForInStep β)} (hf : ∀ a ∈ l, ∀ b, Keeps I (f a b)) : Keeps I (forIn l b f) := by
  induction l generalizing b with
  | nil => exact Keeps.pure b
  | cons a l ih =>
    rw [List.forIn_cons]
    refine Keeps.bind (hf a (List.mem_cons_self ..) b) fun r => ?_
    cases r with
    | done b => exact Keeps.pure b
    | yield b => exact ih fun a ha => hf a (List.mem_cons_of_mem _ ha)

/-- **one scripted action.**  Every action but `bump` keeps the bound for every `C` — so for `C = ∅`: such an action
    changes no read.  `bump` keeps it when `C` is everything. -/
theorem runAct_hb (hk : Key) (it : QItem) (loc : Loc) (act : Act) (hC : (∃ p, act = .bump p) → ∀ c, C c) :
    Keeps (HB E H A C) (runAct hk it loc act) := by
  unfold runAct
  cases act with
  | bump p =>
    have hC' : ∀ c, C c := hC ⟨p, rfl⟩
    refine Keeps.get_bind fun w _ => ?_
    split
    · dsimp only
      refine Keeps.bind (getParam_hb _ _) fun pm => ?_
      split
      · exact Keeps.pure _
      · refine Keeps.bind (paramRows_hb _) fun rows => ?_
        refine Keeps.bind ?_ fun _ => Keeps.pure _
        refine Keeps.forIn_list fun x _ => ?_
        refine Keeps.bind ?_ fun _ => Keeps.pure _
        refine Keeps.forIn_list fun c _ => ?_
        exact Keeps.bind (bumpCell_hb _ _ _ (hC' c)) fun _ => Keeps.pure _
    · exact ubErr_hb _
  | _ => sh_keeps

/-- the form the leaf table uses inside the body loop of `runHandler` -/
theorem runAct_hb' {body : List Act} (hall : ∀ act ∈ body, (∃ p, act = Act.bump p) → ∀ c, C c) {act : Act}
    (hm : act ∈ body) (hk : Key) (it : QItem) (loc : Loc) : Keeps (HB E H A C) (runAct hk it loc act) :=
  runAct_hb hk it loc act (hall act hm)

/-- **one handler run** (`Handler::run`): the bound is kept for every `C` if the body has no `bump`, and for `C` =
    everything otherwise -/
theorem runHandler_hb (hk : Key) (it : QItem) (loc : Loc)
    (hC : ∀ h p, H.get hk = some h → Act.bump p ∈ h.body → ∀ c, C c) :
    Keeps (HB E H A C) (runHandler hk it loc) := by
  unfold runHandler
  refine Keeps.get_bind fun w hw => ?_
  split
  · rename_i h hh
    have hall : ∀ act ∈ h.body, (∃ p, act = Act.bump p) → ∀ c, C c := by
      rintro act ha ⟨p, rfl⟩
      exact hC h p (by rw [← hw.2.1]; exact hh) ha
    repeat' first
      | (with_reducible refine Keeps.forIn_list_mem (fun _ _ _ => ?_))
      | exact runAct_hb' hall (by assumption) _ _ _
      | sh_step
  · exact ubErr_hb _

theorem runHandler_hb' {hs : List Key} (hall : ∀ hk ∈ hs, ∀ h p, H.get hk = some h → Act.bump p ∈ h.body → ∀ c, C c)
    {hk : Key} (hm : hk ∈ hs) (it : QItem) (loc : Loc) : Keeps (HB E H A C) (runHandler hk it loc) :=
  runHandler_hb hk it loc (hall hk hm)

/-- **the handler loop of a delivery** -/
theorem handlerLoop_hb (it : QItem) (info : EvInfo) (loc : Loc) (hs : List Key)
    (hC : ∀ hk ∈ hs, ∀ h p, H.get hk = some h → Act.bump p ∈ h.body → ∀ c, C c) :
    Keeps (HB E H A C) (handlerLoop it info loc hs) := by
  unfold handlerLoop
  repeat' first
    | (with_reducible refine Keeps.forIn_list_mem (fun _ _ _ => ?_))
    | exact runHandler_hb' hC (by assumption) _ _
    | sh_step

/-- **the handler phase of a delivery** (ownership flag cleared, then the loop) -/
theorem handlerPhase_hb (it : QItem) (info : EvInfo) (loc : Loc) (hs : List Key)
    (hC : ∀ hk ∈ hs, ∀ h p, H.get hk = some h → Act.bump p ∈ h.body → ∀ c, C c) :
    Keeps (HB E H A C) (handlerPhase it info loc hs) := by
  unfold handlerPhase
  exact Keeps.bind (Keeps.modify fun _ h => h) fun _ => handlerLoop_hb it info loc hs hC

end Evenio
