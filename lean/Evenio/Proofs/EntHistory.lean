import Evenio.Proofs.Inv.Pending
import Evenio.Proofs.Inv.Mono
/-! # Entity ids along whole WORLD histories: the generation rank of every entity slot only grows

`Props/C03.lean` proves the history facts of C03 ("issued keys are distinct, removed keys are never valid / reissued")
for the stand-alone slot map, over traces of `insertWith` / `remove`.  The world writes its entity map in more ways
(`SlotMap.set` through `setLoc` and `spawnAll`, the generation hook `setgen`, `remove` in `removeEntity` AND in
`archsRemoveComponent`), from inside arbitrary handler programs, and an operation may end in a panic half way.  This
file proves the one fact all of them share, for EVERY model function `execOp` reaches and for every exit (normal,
panic, `ub`/`assert` marker):

* `Slot.rank` — the generation of a slot, with the retired generation `0` counted as `2^32` (above every generation);
* `SlotMap.Le a b` — `b` has at least the slots of `a`, each at a rank that is at least as high;
* `EI sm0 w := w.entities.WF ∧ sm0.Le w.entities` — a ONE-state predicate (the start map is a parameter), so the unary
  `Keeps` calculus of `Proofs/Keeps.lean` applies as it stands: one `Keeps (EI sm0) f` lemma per model function,
  registered as a `keeps` leaf, exactly like `Proofs/Frame.lean` and `Proofs/Inv/Mono.lean`;
* `execOp_ei` — every valid top-level operation; `step_entLe` — the protocol step of the driver.

`SlotMap.WF` is part of the predicate because monotonicity NEEDS it: `insertWith` pops the head of the free list and
adds one to its generation, which lowers the rank if the head is a retired slot (`le_insertWith_needs_wf`), and
`remove` wraps a generation `≥ 2^32` to a small one.  `Op.Valid` is needed for the hook: `setgen` to a generation
`≥ 2^32` breaks `WF` (and then ids do come back: `Props/C03History.lean`, `setgen_unbounded_resurrects`).

Second half: `Issued` / `DeadIssued` (a key at or below / strictly below the rank of its slot), their monotonicity,
and the one-state predicate `IR id` that follows a reservation to its materialisation (for "the id `World::spawn`
returned has been issued when the call returns"). -/
namespace Evenio

/-! ## rank and the order on slot maps -/

/-- the generation of a slot, the retired generation `0` counted as `2^32`: it only grows during the life of a slot -/
def Slot.rank {α : Type} (s : Slot α) : Nat := if s.gen = 0 then GENMOD else s.gen

theorem Slot.rank_of_ne {α : Type} {s : Slot α} (h : s.gen ≠ 0) : s.rank = s.gen := by
  unfold Slot.rank; rw [if_neg h]

theorem Slot.rank_of_zero {α : Type} {s : Slot α} (h : s.gen = 0) : s.rank = GENMOD := by
  unfold Slot.rank; rw [if_pos h]

theorem Slot.rank_pos {α : Type} (s : Slot α) : 0 < s.rank := by
  unfold Slot.rank; split
  · decide
  · omega

namespace SlotMap
variable {α : Type}

/-- `b` has every slot of `a`, at a rank that is at least as high -/
def Le (a b : SlotMap α) : Prop :=
  a.slots.length ≤ b.slots.length ∧
  ∀ (i : Nat) (s : Slot α), a.slots[i]? = some s → ∃ s' : Slot α, b.slots[i]? = some s' ∧ s.rank ≤ s'.rank

theorem Le.refl (a : SlotMap α) : Le a a := ⟨Nat.le_refl _, fun _ s h => ⟨s, h, Nat.le_refl _⟩⟩

theorem Le.trans {a b c : SlotMap α} (h1 : Le a b) (h2 : Le b c) : Le a c := by
  refine ⟨Nat.le_trans h1.1 h2.1, fun i s hs => ?_⟩
  obtain ⟨s', hs', hr⟩ := h1.2 i s hs
  obtain ⟨s'', hs'', hr'⟩ := h2.2 i s' hs'
  exact ⟨s'', hs'', Nat.le_trans hr hr'⟩

/-- only the slot list matters -/
theorem Le.congr_right {a b c : SlotMap α} (h : Le a b) (hs : c.slots = b.slots) : Le a c := by
  unfold Le; rw [hs]; exact h

/-- one slot is overwritten by a slot of higher or equal rank -/
theorem le_slots_set {a b : SlotMap α} {i : Nat} {t : Slot α} (hb : b.slots = a.slots.set i t)
    (hr : ∀ s, a.slots[i]? = some s → s.rank ≤ t.rank) : Le a b := by
  refine ⟨by rw [hb, List.length_set]; exact Nat.le_refl _, fun j s hs => ?_⟩
  rw [hb]
  by_cases hj : i = j
  · subst hj
    exact ⟨t, List.getElem?_set_self (getElem?_lt hs), hr s hs⟩
  · exact ⟨s, by rw [List.getElem?_set_ne hj]; exact hs, Nat.le_refl _⟩

/-- a slot is appended -/
theorem le_slots_append {a b : SlotMap α} {t : Slot α} (hb : b.slots = a.slots ++ [t]) : Le a b := by
  refine ⟨by rw [hb]; simp, fun j s hs => ⟨s, ?_, Nat.le_refl _⟩⟩
  rw [hb, List.getElem?_append_left (getElem?_lt hs)]; exact hs

/-- **`insert_with` on a well-formed map**: the popped slot is vacant and not retired, its generation grows by one -/
theorem le_insertWith {sm sm' : SlotMap α} (wf : WF sm) {f : Key → α} {k : Key}
    (h : sm.insertWith f = some (k, sm')) : Le sm sm' := by
  rcases wf.insertWith_cases f with
    ⟨s, fl, hs, he, hn, hv, c, nd, hnot, hlt, heq⟩ | ⟨hnf, hlen, heq⟩ | ⟨_, _, heq⟩
  · rw [heq] at h; cases h
    refine le_slots_set (i := sm.nextFree) rfl fun s0 hs0 => ?_
    rw [hs] at hs0; cases hs0
    rw [Slot.rank_of_ne hn, Slot.rank_of_ne (by simp)]
    exact Nat.le_succ _
  · rw [heq] at h; cases h
    exact le_slots_append rfl
  · rw [heq] at h; cases h

/-- **`remove` on a well-formed map**: the generation grows by one, or the slot is retired (rank `2^32`) -/
theorem le_remove {sm sm' : SlotMap α} (wf : WF sm) {k : Key} {v : α}
    (h : sm.remove k = some (v, sm')) : Le sm sm' := by
  obtain ⟨s, hs, hg, hv, hodd, hidx, hcase⟩ := wf.remove_cases h
  have hne : s.gen ≠ 0 := by omega
  rcases hcase with ⟨hw, rfl⟩ | ⟨hw, rfl⟩
  · refine le_slots_set (i := k.idx) rfl fun s0 hs0 => ?_
    rw [hs] at hs0; cases hs0
    rw [Slot.rank_of_ne hne, Slot.rank_of_ne (by simp)]
    exact Nat.le_succ _
  · refine le_slots_set (i := k.idx) rfl fun s0 hs0 => ?_
    rw [hs] at hs0; cases hs0
    rw [Slot.rank_of_ne hne, Slot.rank_of_zero rfl]
    omega

/-- **`set`** (`get_mut`) never touches a generation -/
theorem le_set (sm : SlotMap α) (k : Key) (v : α) : Le sm (sm.set k v) := by
  unfold set
  split
  · split
    · rename_i s hs hg
      refine le_slots_set (i := k.idx) rfl fun s0 hs0 => ?_
      rw [hs] at hs0; cases hs0
      exact Nat.le_refl _
    · exact Le.refl _
  · exact Le.refl _

/-- **the generation hook**: a live slot (odd generation) is moved to a generation that is not smaller -/
theorem le_setGen {sm : SlotMap α} {i : Nat} {s : Slot α} (hs : sm.slots[i]? = some s) {g : Nat}
    (hne : s.gen ≠ 0) (hle : s.gen ≤ g) : Le sm { sm with slots := sm.slots.set i { s with gen := g } } := by
  refine le_slots_set (i := i) rfl fun s0 hs0 => ?_
  rw [hs] at hs0; cases hs0
  rw [Slot.rank_of_ne hne, Slot.rank_of_ne (show g ≠ 0 by omega)]
  exact hle

/-- without well-formedness `insert_with` lowers a rank: a retired slot at the head of the free list is handed out at
    generation 1 (so `SlotMap.WF` has to be part of the invariant) -/
theorem le_insertWith_needs_wf :
    let sm : SlotMap Unit := { slots := [⟨0, U32MAX, none⟩], nextFree := 0, len := 0 }
    ∃ k sm', sm.insertWith (fun _ => ()) = some (k, sm') ∧ k = ⟨0, 1⟩ ∧ ¬ Le sm sm' := by
  refine ⟨_, _, rfl, rfl, ?_⟩
  rintro ⟨-, h⟩
  obtain ⟨s', hs', hr⟩ := h 0 ⟨0, U32MAX, none⟩ rfl
  simp only [List.set_cons_zero, List.getElem?_cons_zero, Option.some.injEq] at hs'
  subst hs'
  revert hr
  decide

end SlotMap

/-! ## the one-state predicate and its leaves -/

/-- the entity map is well formed and above `sm0` -/
abbrev EI (sm0 : SlotMap Loc) : World → Prop := fun w => w.entities.WF ∧ sm0.Le w.entities

/-- `EntLe w w'`: every entity slot of `w` still exists in `w'`, at a rank that is at least as high -/
def EntLe (w w' : World) : Prop := w.entities.Le w'.entities

theorem EntLe.refl (w : World) : EntLe w w := SlotMap.Le.refl _
theorem EntLe.trans {a b c : World} (h1 : EntLe a b) (h2 : EntLe b c) : EntLe a c := SlotMap.Le.trans h1 h2

variable {sm0 : SlotMap Loc}

theorem EI.insertWith {w : World} (h : EI sm0 w) {f : Key → Loc} {k : Key} {ents : SlotMap Loc}
    (hi : w.entities.insertWith f = some (k, ents)) : EI sm0 { w with entities := ents } :=
  ⟨h.1.insertWith hi, h.2.trans (SlotMap.le_insertWith h.1 hi)⟩

theorem EI.remove {w : World} (h : EI sm0 w) {k : Key} {v : Loc} {ents : SlotMap Loc}
    (hr : w.entities.remove k = some (v, ents)) : EI sm0 { w with entities := ents } :=
  ⟨h.1.remove hr, h.2.trans (SlotMap.le_remove h.1 hr)⟩

theorem EI.set_live {w : World} (h : EI sm0 w) {k : Key} {l : Loc} (hg : w.entities.get k = some l) (v : Loc) :
    EI sm0 { w with entities := w.entities.set k v } :=
  ⟨h.1.set hg v, h.2.trans (SlotMap.le_set _ _ _)⟩

theorem EI.key_odd {w : World} {f : Key → Loc} {k : Key} {ents : SlotMap Loc}
    (hi : w.entities.insertWith f = some (k, ents)) (h : EI sm0 w) : k.gen % 2 = 1 :=
  (SlotMap.insertWith_key h.1 hi).1

theorem EI.set_odd {w : World} (h : EI sm0 w) {k : Key} (hk : k.gen % 2 = 1) (v : Loc) :
    EI sm0 { w with entities := w.entities.set k v } :=
  ⟨h.1.set_reserve hk v, h.2.trans (SlotMap.le_set _ _ _)⟩

/-! The structural tactic of `Proofs/Keeps.lean` with a leaf table of its own (`ent_leaf`): the shared table
    `keeps_leaf` has several hundred entries by now, each of which is tried at every node. -/

/-- leaf lemmas of this file and of `Proofs/EntIssued.lean`; extended with `macro_rules` -/
syntax "ent_leaf" : tactic
/-- one structural step (`keeps_step` with `ent_leaf`) -/
syntax "ent_step" : tactic

macro_rules | `(tactic| ent_leaf) => `(tactic| fail "no leaf lemma")

macro_rules
  | `(tactic| ent_step) => `(tactic| first
      | with_reducible exact Keeps.pure _
      | with_reducible exact Keeps.throw _
      | with_reducible exact Keeps.get
      | with_reducible ent_leaf
      | ((with_reducible refine Keeps.set ?_); first | assumption | (simp only []; assumption))
      | ((with_reducible refine Keeps.modify (fun _ h => ?_)); first | exact h | (simp only []; exact h))
      | ((with_reducible refine Keeps.modifyGet (fun _ h => ?_)); first | exact h | (simp only []; exact h))
      | (with_reducible refine Keeps.get_bind (fun _ _ => ?_))
      | (with_reducible refine Keeps.bind ?_ (fun _ => ?_))
      | (with_reducible refine Keeps.tryCatch ?_ (fun _ => ?_))
      | (with_reducible refine Keeps.tryCatchThe ?_ (fun _ => ?_))
      | (with_reducible refine Keeps.forIn_list (fun _ _ => ?_))
      | (with_reducible refine Keeps.forIn_range (fun _ _ => ?_))
      | (with_reducible refine Keeps.ite ?_ ?_)
      | dsimp only
      | split)

/-- prove `Keeps I m` structurally, with the leaves of `ent_leaf` -/
macro "ent_keeps" : tactic => `(tactic| repeat' ent_step)

/-- closes the goals `ent_keeps` leaves: the writes to `entities` -/
syntax "entfix" : tactic
macro_rules | `(tactic| entfix) => `(tactic| first
  | (refine Keeps.set ?_; first
      | exact EI.insertWith ‹EI _ _› ‹_›
      | exact EI.remove ‹EI _ _› ‹_›
      | exact EI.set_live ‹EI _ _› ‹_› _)
  | (refine Keeps.modify fun w h => ?_; first
      | exact EI.set_odd h (EI.key_odd ‹_ = some _› (by assumption)) _
      | (split
         · exact EI.remove h ‹_›
         · exact h)))

theorem logT_ei (s : String) : Keeps (EI sm0) (logT s) := by unfold logT; ent_keeps
macro_rules | `(tactic| ent_leaf) => `(tactic| exact logT_ei _)
theorem ubErr_ei {α : Type} (s : String) : Keeps (EI sm0) ((ubErr s : M α)) := by unfold ubErr; ent_keeps
macro_rules | `(tactic| ent_leaf) => `(tactic| exact ubErr_ei _)
theorem dbgAssert_ei (c : Bool) (s : String) : Keeps (EI sm0) (dbgAssert c s) := by unfold dbgAssert; ent_keeps
macro_rules | `(tactic| ent_leaf) => `(tactic| exact dbgAssert_ei _ _)
theorem dropCell_ei (ty : Nat) (c : Cell) : Keeps (EI sm0) (dropCell ty c) := by unfold dropCell; ent_keeps
macro_rules | `(tactic| ent_leaf) => `(tactic| exact dropCell_ei _ _)
theorem dropCellIdx_ei (ty : Nat) (c : Cell) : Keeps (EI sm0) (dropCellIdx ty c) := by unfold dropCellIdx; ent_keeps
macro_rules | `(tactic| ent_leaf) => `(tactic| exact dropCellIdx_ei _ _)
theorem dropEvent_ei (it : QItem) : Keeps (EI sm0) (dropEvent it) := by unfold dropEvent; ent_keeps
macro_rules | `(tactic| ent_leaf) => `(tactic| exact dropEvent_ei _)
theorem handlerRefresh_ei (hk : Key) (a : Arch) : Keeps (EI sm0) (handlerRefresh hk a) := by unfold handlerRefresh; ent_keeps
macro_rules | `(tactic| ent_leaf) => `(tactic| exact handlerRefresh_ei _ _)
theorem handlerRemoveArch_ei (hk : Key) (a : Arch) : Keeps (EI sm0) (handlerRemoveArch hk a) := by unfold handlerRemoveArch; ent_keeps
macro_rules | `(tactic| ent_leaf) => `(tactic| exact handlerRemoveArch_ei _ _)
theorem getArch_ei (i : Nat) (s : String) : Keeps (EI sm0) (getArch i s) := by unfold getArch; ent_keeps
macro_rules | `(tactic| ent_leaf) => `(tactic| exact getArch_ei _ _)
theorem setArch_ei (a : Arch) : Keeps (EI sm0) (setArch a) := by unfold setArch; ent_keeps
macro_rules | `(tactic| ent_leaf) => `(tactic| exact setArch_ei _)
theorem freshEpoch_ei : Keeps (EI sm0) (freshEpoch) := by unfold freshEpoch; ent_keeps
macro_rules | `(tactic| ent_leaf) => `(tactic| exact freshEpoch_ei)
theorem registerHandler_ei (a : Arch) (h : HInfo) : Keeps (EI sm0) (a.registerHandler h) := by unfold Arch.registerHandler; ent_keeps
macro_rules | `(tactic| ent_leaf) => `(tactic| exact registerHandler_ei _ _)
theorem archSpawn_ei (id : Key) : Keeps (EI sm0) (archSpawn id) := by unfold archSpawn; ent_keeps
macro_rules | `(tactic| ent_leaf) => `(tactic| exact archSpawn_ei _)
theorem reserve_ei : Keeps (EI sm0) (reserve) := by unfold reserve; ent_keeps
macro_rules | `(tactic| ent_leaf) => `(tactic| exact reserve_ei)
/-- `spawn_all`: `insert_with`, then the location is written through the key just issued (odd generation) -/
theorem spawnAll_ei : Keeps (EI sm0) (spawnAll) := by
  unfold spawnAll; ent_keeps
  all_goals entfix
macro_rules | `(tactic| ent_leaf) => `(tactic| exact spawnAll_ei)
theorem resRefresh_ei : Keeps (EI sm0) (resRefresh) := by unfold resRefresh; ent_keeps
macro_rules | `(tactic| ent_leaf) => `(tactic| exact resRefresh_ei)
/-- `get_mut` of a live id -/
theorem setLoc_ei (id : Key) (s : String) (f : Loc → Loc) : Keeps (EI sm0) (setLoc id s f) := by
  unfold setLoc; ent_keeps
  all_goals entfix
macro_rules | `(tactic| ent_leaf) => `(tactic| exact setLoc_ei _ _ _)
theorem newArch_ei (cs : List Nat) (a b : Option (Nat × Nat)) : Keeps (EI sm0) (newArch cs a b) := by unfold newArch; ent_keeps
macro_rules | `(tactic| ent_leaf) => `(tactic| exact newArch_ei _ _ _)
theorem traverseInsert_ei (src c : Nat) : Keeps (EI sm0) (traverseInsert src c) := by unfold traverseInsert; ent_keeps
macro_rules | `(tactic| ent_leaf) => `(tactic| exact traverseInsert_ei _ _)
theorem traverseRemove_ei (src c : Nat) : Keeps (EI sm0) (traverseRemove src c) := by unfold traverseRemove; ent_keeps
macro_rules | `(tactic| ent_leaf) => `(tactic| exact traverseRemove_ei _ _)
theorem moveEntity_ei (src : Loc) (dst : Nat) (new : List (Nat × Cell)) : Keeps (EI sm0) (moveEntity src dst new) := by unfold moveEntity; ent_keeps
macro_rules | `(tactic| ent_leaf) => `(tactic| exact moveEntity_ei _ _ _)
/-- `remove_entity`: the one `remove` of the delivery path -/
theorem removeEntity_ei (loc : Loc) : Keeps (EI sm0) (removeEntity loc) := by
  unfold removeEntity; ent_keeps
  all_goals entfix
macro_rules | `(tactic| ent_leaf) => `(tactic| exact removeEntity_ei _)
theorem push_ei (it : QItem) : Keeps (EI sm0) (push it) := by unfold push; ent_keeps
macro_rules | `(tactic| ent_leaf) => `(tactic| exact push_ei _)
theorem takeBudget_ei : Keeps (EI sm0) (takeBudget) := by unfold takeBudget; ent_keeps
macro_rules | `(tactic| ent_leaf) => `(tactic| exact takeBudget_ei)
theorem freshE_ei : Keeps (EI sm0) (freshE) := by unfold freshE; ent_keeps
macro_rules | `(tactic| ent_leaf) => `(tactic| exact freshE_ei)
theorem freshC_ei : Keeps (EI sm0) (freshC) := by unfold freshC; ent_keeps
macro_rules | `(tactic| ent_leaf) => `(tactic| exact freshC_ei)
theorem senderPush_ei (h : HInfo) (it : QItem) : Keeps (EI sm0) (senderPush h it) := by unfold senderPush; ent_keeps
macro_rules | `(tactic| ent_leaf) => `(tactic| exact senderPush_ei _ _)
theorem paramRows_ei (p : Param) : Keeps (EI sm0) (paramRows p) := by unfold paramRows; ent_keeps
macro_rules | `(tactic| ent_leaf) => `(tactic| exact paramRows_ei _)
theorem itemAt_ei (st : AS) (a : Arch) (row : Nat) : Keeps (EI sm0) (itemAt st a row) := by unfold itemAt; ent_keeps
macro_rules | `(tactic| ent_leaf) => `(tactic| exact itemAt_ei _ _ _)
theorem paramGet_ei (p : Param) (id : Key) : Keeps (EI sm0) (paramGet p id) := by unfold paramGet; ent_keeps
macro_rules | `(tactic| ent_leaf) => `(tactic| exact paramGet_ei _ _)
theorem bumpCell_ei (ai row c : Nat) : Keeps (EI sm0) (bumpCell ai row c) := by unfold bumpCell; ent_keeps
macro_rules | `(tactic| ent_leaf) => `(tactic| exact bumpCell_ei _ _ _)
theorem getParam_ei (h : HInfo) (p : Nat) : Keeps (EI sm0) (getParam h p) := by unfold getParam; ent_keeps
macro_rules | `(tactic| ent_leaf) => `(tactic| exact getParam_ei _ _)
theorem runAct_ei (hk : Key) (it : QItem) (loc : Loc) (act : Act) : Keeps (EI sm0) (runAct hk it loc act) := by unfold runAct; ent_keeps
macro_rules | `(tactic| ent_leaf) => `(tactic| exact runAct_ei _ _ _ _)
theorem runHandler_ei (hk : Key) (it : QItem) (loc : Loc) : Keeps (EI sm0) (runHandler hk it loc) := by unfold runHandler; ent_keeps
macro_rules | `(tactic| ent_leaf) => `(tactic| exact runHandler_ei _ _ _)
theorem deliverOne_ei (it : QItem) : Keeps (EI sm0) (deliverOne it) := by unfold deliverOne; ent_keeps
macro_rules | `(tactic| ent_leaf) => `(tactic| exact deliverOne_ei _)
theorem dropQueued_ei : Keeps (EI sm0) (dropQueued) := by unfold dropQueued; ent_keeps
macro_rules | `(tactic| ent_leaf) => `(tactic| exact dropQueued_ei)
theorem ei_queueBlind : QueueBlind (EI sm0) := fun _ _ _ h => h
theorem flush_ei (fuel : Nat) : Keeps (EI sm0) (flush fuel) :=
  flushWith_keeps ei_queueBlind deliverOne_ei dropQueued_ei fuel
macro_rules | `(tactic| ent_leaf) => `(tactic| exact flush_ei _)
theorem ensureAddG_ei : Keeps (EI sm0) (ensureAddG) := by unfold ensureAddG; ent_keeps
macro_rules | `(tactic| ent_leaf) => `(tactic| exact ensureAddG_ei)
theorem addGlobalEvent_ei (ty : EvTy) : Keeps (EI sm0) (addGlobalEvent ty) := by unfold addGlobalEvent; ent_keeps
macro_rules | `(tactic| ent_leaf) => `(tactic| exact addGlobalEvent_ei _)
theorem sendGlobal_ei (ty : EvTy) (pay : Payload) : Keeps (EI sm0) (sendGlobal ty pay) := by unfold sendGlobal; ent_keeps
macro_rules | `(tactic| ent_leaf) => `(tactic| exact sendGlobal_ei _ _)
theorem addComponent_ei (ty : Nat) : Keeps (EI sm0) (addComponent ty) := by unfold addComponent; ent_keeps
macro_rules | `(tactic| ent_leaf) => `(tactic| exact addComponent_ei _)
theorem addTargetedEvent_ei (ty : EvTy) : Keeps (EI sm0) (addTargetedEvent ty) := by unfold addTargetedEvent; ent_keeps
macro_rules | `(tactic| ent_leaf) => `(tactic| exact addTargetedEvent_ei _)
theorem addEvent_ei (ty : EvTy) : Keeps (EI sm0) (addEvent ty) := by unfold addEvent; ent_keeps
macro_rules | `(tactic| ent_leaf) => `(tactic| exact addEvent_ei _)
theorem sendTargeted_ei (ty : EvTy) (tg : Key) (pay : Payload) : Keeps (EI sm0) (sendTargeted ty tg pay) := by unfold sendTargeted; ent_keeps
macro_rules | `(tactic| ent_leaf) => `(tactic| exact sendTargeted_ei _ _ _)
theorem initQuery_ei (q : Query) (cfg : Config) : Keeps (EI sm0) (initQuery q cfg) := by unfold initQuery; ent_keeps
macro_rules | `(tactic| ent_leaf) => `(tactic| exact initQuery_ei _ _)
theorem initParam_ei (ps : PSpec) (cfg : Config) : Keeps (EI sm0) (initParam ps cfg) := by unfold initParam; ent_keeps
macro_rules | `(tactic| ent_leaf) => `(tactic| exact initParam_ei _ _)
theorem addHandler_ei (hs : HSpec) : Keeps (EI sm0) (addHandler hs) := by unfold addHandler; ent_keeps
macro_rules | `(tactic| ent_leaf) => `(tactic| exact addHandler_ei _)
theorem removeHandler_ei (k : Key) : Keeps (EI sm0) (removeHandler k) := by unfold removeHandler; ent_keeps
macro_rules | `(tactic| ent_leaf) => `(tactic| exact removeHandler_ei _)
theorem assertQueueEmpty_ei : Keeps (EI sm0) (assertQueueEmpty) := by unfold assertQueueEmpty; ent_keeps
macro_rules | `(tactic| ent_leaf) => `(tactic| exact assertQueueEmpty_ei)
theorem removeEvent_ei (ty : EvTy) (k : Key) : Keeps (EI sm0) (removeEvent ty k) := by unfold removeEvent; ent_keeps
macro_rules | `(tactic| ent_leaf) => `(tactic| exact removeEvent_ei _ _)
/-- `Archetypes::remove_component`: the entities of every archetype that has the component are removed from the entity
    map directly (no `Despawn` event) -/
theorem archsRemoveComponent_ei (info : CompInfo) : Keeps (EI sm0) (archsRemoveComponent info) := by
  unfold archsRemoveComponent; ent_keeps
  all_goals entfix
macro_rules | `(tactic| ent_leaf) => `(tactic| exact archsRemoveComponent_ei _)
theorem removeComponent_ei (k : Key) : Keeps (EI sm0) (removeComponent k) := by unfold removeComponent; ent_keeps
macro_rules | `(tactic| ent_leaf) => `(tactic| exact removeComponent_ei _)
theorem opSpawn_ei : Keeps (EI sm0) (opSpawn) := by unfold opSpawn; ent_keeps
macro_rules | `(tactic| ent_leaf) => `(tactic| exact opSpawn_ei)

/-! ## the top-level operations -/

/-- the generation hook on a live entity, with a generation the hook accepts (odd, not smaller) that fits in a `u32`
    (`Op.Valid`) -/
theorem EI.setGen {w : World} (h : EI sm0 w) {id : Key} {loc : Loc} {s : Slot Loc} {g : Nat}
    (hg : w.entities.get id = some loc) (hs : w.entities.slots[id.idx]? = some s)
    (hc : (g % 2 != 1 || decide (g < s.gen)) = false) (hlt : g < GENMOD) (ords : Array Key) :
    EI sm0 { w with entities := { w.entities with slots := w.entities.slots.set id.idx { s with gen := g } },
                    ords := ords } := by
  have hodd : g % 2 = 1 := by
    cases h1 : (g % 2 != 1) with
    | true => rw [h1] at hc; cases hc
    | false => simpa using h1
  have hle : s.gen ≤ g := by
    cases h2 : decide (g < s.gen) with
    | true => rw [h2, Bool.or_true] at hc; cases hc
    | false => have := of_decide_eq_false h2; omega
  have hsodd : s.gen % 2 = 1 := by
    refine (h.1.valIff _ _ hs).1 ?_
    unfold SlotMap.get at hg
    rw [hs] at hg
    simp only at hg
    split at hg
    · rw [hg]; rfl
    · cases hg
  exact ⟨InvV5.wf_setGen h.1 hg hs hodd hlt, h.2.trans (SlotMap.le_setGen hs (by omega) hle)⟩

/-- **every valid top-level operation, on every exit**: the entity map stays well formed and no slot loses rank.
    (`drop` resets the entity map and `setgen` beyond `u32` breaks `SlotMap.WF`: both are excluded by `Op.Valid`.) -/
theorem execOp_ei (op : Op) (hv : op.Valid) : Keeps (EI sm0) (execOp op) := by
  unfold execOp
  cases op with
  | drop => exact hv.elim
  | setgen n g =>
    have hg : g < GENMOD := hv
    refine Keeps.get_bind fun w hw => ?_
    dsimp only
    split
    · ent_keeps
    · split
      · ent_keeps
      · split
        · ent_keeps
        · rename_i hc
          ent_keeps
          refine Keeps.set (EI.setGen hw ‹_› ‹_› ?_ hg _)
          simpa using hc
  | _ => ent_keeps

/-- the world `step` runs `execOp` in has the entity map of `w` -/
theorem stepInit_entities (w : World) : (stepInit w).entities = w.entities := rfl

theorem step_fst_eq (w : World) (op : Op) : (step w op).1 = ((execOp op).run.run (stepInit w)).2 := rfl

/-- **one protocol step of the driver** (`step`), whatever the operation does and however it ends -/
theorem step_ei {w : World} {op : Op} (hv : op.Valid) (h : EI sm0 w) : EI sm0 (step w op).1 := by
  rw [step_fst_eq]
  exact (execOp_ei op hv).run (stepInit w) h

/-- **(A) monotonicity, one step**: from a world with a well-formed entity map, a valid operation — normal return,
    panic or marker — leaves the entity map well formed and every slot at a rank that is at least as high -/
theorem step_entLe {w : World} {op : Op} (hv : op.Valid) (wf : w.entities.WF) :
    (step w op).1.entities.WF ∧ EntLe w (step w op).1 :=
  step_ei hv ⟨wf, SlotMap.Le.refl _⟩

/-- the same for the monadic run of `execOp` from ANY world (not only the ones `step` prepares) -/
theorem execOp_entLe {w : World} {op : Op} (hv : op.Valid) (wf : w.entities.WF) :
    ((execOp op).run.run w).2.entities.WF ∧ EntLe w ((execOp op).run.run w).2 :=
  (execOp_ei op hv).run w ⟨wf, SlotMap.Le.refl _⟩

/-- a history: the operations of `ops` run one after the other by `step`, each from the world the previous one left
    (whether it returned or panicked) -/
def runHist (w : World) (ops : List Op) : World := ops.foldl (fun w op => (step w op).1) w

@[simp] theorem runHist_nil (w : World) : runHist w [] = w := rfl
@[simp] theorem runHist_cons (w : World) (op : Op) (ops : List Op) : runHist w (op :: ops) = runHist (step w op).1 ops := rfl
theorem runHist_append (w : World) (a b : List Op) : runHist w (a ++ b) = runHist (runHist w a) b := by
  unfold runHist; rw [List.foldl_append]

/-- **(A) monotonicity, every history** -/
theorem runHist_entLe {w : World} (ops : List Op) (hv : ∀ op ∈ ops, op.Valid) (wf : w.entities.WF) :
    (runHist w ops).entities.WF ∧ EntLe w (runHist w ops) := by
  induction ops generalizing w with
  | nil => exact ⟨wf, EntLe.refl _⟩
  | cons op ops ih =>
    obtain ⟨wf1, h1⟩ := step_entLe (hv op (List.mem_cons_self ..)) wf
    obtain ⟨wf2, h2⟩ := ih (fun o ho => hv o (List.mem_cons_of_mem _ ho)) wf1
    exact ⟨wf2, h1.trans h2⟩

end Evenio
