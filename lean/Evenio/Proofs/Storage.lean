import Evenio.Model.StoragePure
/-! Helper lemmas for C02 / C12 (core Lean only): `Vec::swap_remove`, sorted component lists, the `moveCols` merge loop
    (success, source / destination columns, dropped cells, multiset conservation), association-list lookups, and the
    two halves of a move (swap-remove a row, push a row) on an abstract location ↔ row bijection. -/
namespace Evenio
open SparseMap (swapRemove)
set_option linter.unusedSimpArgs false

/-! ### `Vec::swap_remove` -/

theorem length_swapRemove {α} (l : List α) (i : Nat) :
    (swapRemove l i).length = l.length - 1 := by
  unfold swapRemove
  cases hl : l.getLast? with
  | none => simp_all
  | some last => simp only; split <;> simp

theorem getElem?_swapRemove {α} (l : List α) (i j : Nat) (h : i < l.length) :
    (swapRemove l i)[j]? = if j + 1 < l.length then (if j = i then l[l.length - 1]? else l[j]?) else none := by
  unfold swapRemove
  cases hl : l.getLast? with
  | none => simp_all
  | some last =>
    simp only
    rw [List.getLast?_eq_getElem?] at hl
    split <;> grind

theorem set_perm {α} (m : List α) (i : Nat) (y : α) (h : i < m.length) :
    (m[i] :: m.set i y).Perm (y :: m) := by
  induction m generalizing i with
  | nil => simp at h
  | cons a m ih =>
    cases i with
    | zero => simpa using List.Perm.swap _ _ _
    | succ i =>
      simp only [List.getElem_cons_succ, List.set_cons_succ]
      have := ih i (by simpa using h)
      exact (List.Perm.swap _ _ _).trans ((this.cons a).trans (List.Perm.swap _ _ _))

theorem swapRemove_concat {α} (m : List α) (last : α) (i : Nat) (h : i ≤ m.length) :
    swapRemove (m ++ [last]) i = if i = m.length then m else m.set i last := by
  unfold swapRemove
  simp only [List.getLast?_concat, List.length_append, List.length_cons, List.length_nil]
  split
  · simp_all
  · have : i < m.length := by omega
    rw [if_neg (by omega), List.set_append_left _ _ this]; simp

theorem perm_swapRemove {α} (l : List α) (i : Nat) (x : α) (h : l[i]? = some x) :
    l.Perm (x :: swapRemove l i) := by
  have hi : i < l.length := by
    rcases Nat.lt_or_ge i l.length with h' | h'
    · exact h'
    · simp [List.getElem?_eq_none h'] at h
  have hne : l ≠ [] := by intro h0; simp [h0] at hi
  obtain ⟨m, last, rfl⟩ : ∃ m last, l = m ++ [last] := ⟨l.dropLast, l.getLast hne, (List.dropLast_concat_getLast hne).symm⟩
  simp only [List.length_append, List.length_cons, List.length_nil] at hi
  rw [swapRemove_concat _ _ _ (by omega)]
  split
  · subst i; simp at h; subst h; exact List.perm_append_comm
  · have hi' : i < m.length := by omega
    rw [List.getElem?_append_left hi'] at h
    have hx : m[i] = x := by simpa [List.getElem?_eq_getElem hi'] using h
    subst hx
    exact (List.perm_append_comm).trans (set_perm m i last hi').symm
/-! ### sorted component lists -/

abbrev Sorted (l : List Nat) : Prop := l.Pairwise (· < ·)

theorem Sorted.tail {a : Nat} {l} (h : Sorted (a :: l)) : Sorted l := (List.pairwise_cons.mp h).2
theorem Sorted.head_lt {a : Nat} {l} (h : Sorted (a :: l)) : ∀ b ∈ l, a < b := (List.pairwise_cons.mp h).1
theorem Sorted.head_le {a : Nat} {l} (h : Sorted (a :: l)) : ∀ b ∈ a :: l, a ≤ b := by
  intro b hb
  rcases List.mem_cons.mp hb with rfl | hb
  · exact Nat.le_refl _
  · exact Nat.le_of_lt (h.head_lt b hb)

/-- `a` is smaller than everything in `l`: `l \ (a :: m) = l \ m` -/
theorem filter_notin_lt {a b : Nat} {l m : List Nat} (hl : Sorted (b :: l)) (h : a < b) :
    (b :: l).filter (fun c => !(a :: m).contains c) = (b :: l).filter (fun c => !m.contains c) := by
  apply List.filter_congr
  intro c hc
  have := hl.head_le c hc
  have : c ≠ a := by omega
  simp [this]

theorem filter_notin_eq {a : Nat} {l m : List Nat} (hl : Sorted (a :: l)) :
    (a :: l).filter (fun c => !(a :: m).contains c) = l.filter (fun c => !m.contains c) := by
  rw [List.filter_cons_of_neg (by simp)]
  apply List.filter_congr
  intro c hc
  have := hl.head_lt c hc
  have : c ≠ a := by omega
  simp [this]

theorem filter_notin_gt {a b : Nat} {l m : List Nat} (hm : Sorted (b :: m)) (h : a < b) :
    (a :: l).filter (fun c => !(b :: m).contains c) = a :: l.filter (fun c => !(b :: m).contains c) := by
  rw [List.filter_cons_of_pos]
  have : a ∉ b :: m := fun hmem => by have := hm.head_le a hmem; omega
  simpa using this

/-! ### `cellAt`: `Arch.readCell` on raw lists -/

def cellAt (row : Nat) (cs : List Nat) (cols : List (List Cell)) (c : Nat) : Option Cell := do
  let i ← cs.idxOf? c
  let col ← cols[i]?
  col[row]?
@[simp] theorem cellAt_nil (row cols c) : cellAt row [] cols c = none := by simp [cellAt]

theorem cellAt_cons (row c' cs col cols c) :
    cellAt row (c' :: cs) (col :: cols) c = if c' = c then col[row]? else cellAt row cs cols c := by
  simp only [cellAt, List.idxOf?_cons]
  by_cases h : c' = c
  · simp [h]
  · simp [h]
    cases List.idxOf? c cs <;> simp

theorem cellAt_not_mem (row cs cols c) (h : c ∉ cs) : cellAt row cs cols c = none := by
  simp [cellAt, List.idxOf?_eq_none_iff.mpr h]

/-! ### the merge loop `moveCols` -/

theorem moveCols_src (row : Nat) (scs scols dcs dcols new r)
    (h : moveCols row scs scols dcs dcols new = some r) : r.src = scols.map (swapRemove · row) := by
  fun_induction moveCols row scs scols dcs dcols new generalizing r <;> grind

/-- unconditional shape of the destination columns -/
theorem moveCols_dst_shape (row : Nat) (scs scols dcs dcols new r)
    (h : moveCols row scs scols dcs dcols new = some r) :
    r.dst.length = dcols.length ∧ ∀ (j : Nat) (dcol : List Cell), dcols[j]? = some dcol → ∃ x, r.dst[j]? = some (dcol ++ [x]) := by
  fun_induction moveCols row scs scols dcs dcols new generalizing r <;> grind

theorem moveCols_lens (row : Nat) (scs scols dcs dcols new r)
    (h : moveCols row scs scols dcs dcols new = some r) :
    scols.length = scs.length ∧ dcols.length = dcs.length := by
  fun_induction moveCols row scs scols dcs dcols new generalizing r <;> grind

theorem moveCols_some (row n : Nat) (scs scols dcs dcols new)
    (hs : Sorted scs) (hd : Sorted dcs)
    (hsl : scols.length = scs.length) (hdl : dcols.length = dcs.length)
    (hcol : ∀ col ∈ scols, col.length = n) (hrow : row < n)
    (hnew : new.map (·.1) = dcs.filter (fun c => !scs.contains c)) :
    ∃ r, moveCols row scs scols dcs dcols new = some r := by
  fun_induction moveCols row scs scols dcs dcols new with
  | case1 => simp
  | case2 => simp
  | case3 head scs scol scols new hnone ih =>
    exfalso
    obtain ⟨r, hr⟩ := ih hs.tail hd (by simpa using hsl) hdl (fun c hc => hcol c (by simp [hc])) (by simpa using hnew)
    have : row < scol.length := by rw [hcol scol (by simp)]; exact hrow
    exact hnone scol[row] r (by simp [this]) hr
  | case4 => simp
  | case5 dcs dcol dcols nc nv new hnone ih =>
    exfalso
    obtain ⟨r, hr⟩ := ih hs hd.tail hsl (by simpa using hdl) hcol (by simpa using hnew)
    simp [hr] at hnone
  | case6 dc dcs dcol dcols nc nv new hne => simp at hnew; exact absurd hnew.1 hne
  | case7 => simp
  | case8 sc scs scol scols dc dcs dcol dcols new hlt hnone ih =>
    exfalso
    obtain ⟨r, hr⟩ := ih hs.tail hd (by simpa using hsl) hdl (fun c hc => hcol c (by simp [hc]))
      (by rw [hnew, filter_notin_lt hd hlt])
    have : row < scol.length := by rw [hcol scol (by simp)]; exact hrow
    exact hnone scol[row] r (by simp [this]) hr
  | case9 => simp
  | case10 scs scol scols dc dcs dcol dcols new hnone hnlt ih =>
    exfalso
    obtain ⟨r, hr⟩ := ih hs.tail hd.tail (by simpa using hsl) (by simpa using hdl) (fun c hc => hcol c (by simp [hc]))
      (by rw [hnew, filter_notin_eq hd])
    have : row < scol.length := by rw [hcol scol (by simp)]; exact hrow
    exact hnone scol[row] r (by simp [this]) hr
  | case11 => simp
  | case12 sc scs scol scols dcs dcol dcols nc nv new' hnone hnlt hne ih =>
    exfalso
    rw [filter_notin_gt hs (by omega)] at hnew
    obtain ⟨r, hr⟩ := ih hs hd.tail hsl (by simpa using hdl) hcol (by simpa using hnew)
    simp [hr] at hnone
  | case13 sc scs scol scols dc dcs dcol dcols hnlt hne nc nv new' hne' =>
    rw [filter_notin_gt hs (by omega)] at hnew
    simp at hnew; exact absurd hnew.1 hne'
  | case14 sc scs scol scols dc dcs dcol dcols hnlt hne =>
    rw [filter_notin_gt hs (by omega)] at hnew
    simp at hnew
  | case15 x x1 x2 x3 x4 h1 h2 h3 h4 =>
    exfalso
    cases x <;> cases x1 <;> cases x2 <;> cases x3 <;> simp at hsl hdl
    · exact h1 rfl rfl rfl rfl
    · cases x4 with
      | nil => simp at hnew
      | cons p x4 => exact h3 _ _ _ _ p.1 p.2 x4 rfl rfl rfl rfl rfl
    · exact h2 _ _ _ _ rfl rfl rfl rfl
    · exact h4 _ _ _ _ _ _ _ _ rfl rfl rfl rfl

/-- the cell appended to the destination column of component `dc`: the source's cell if the source has `dc`,
    else the supplied new cell -/
def movedVal (row : Nat) (scs : List Nat) (scols : List (List Cell)) (new : List (Nat × Cell)) (dc : Nat) :
    Option Cell :=
  if dc ∈ scs then cellAt row scs scols dc else new.lookup dc

theorem movedVal_cons_ne (row sc scs scol scols new dc) (h : sc ≠ dc) :
    movedVal row (sc :: scs) (scol :: scols) new dc = movedVal row scs scols new dc := by
  simp [movedVal, cellAt_cons, h, Ne.symm h]

theorem movedVal_new_ne (row scs scols nc nv new dc) (h : nc ≠ dc) :
    movedVal row scs scols ((nc, nv) :: new) dc = movedVal row scs scols new dc := by
  have : (dc == nc) = false := by simp [Ne.symm h]
  simp [movedVal, List.lookup, this]

theorem moveCols_dst_val (row : Nat) (scs scols dcs dcols new r)
    (h : moveCols row scs scols dcs dcols new = some r)
    (hs : Sorted scs) (hd : Sorted dcs) :
    ∀ (j dc : Nat) (dcol : List Cell), dcs[j]? = some dc → dcols[j]? = some dcol →
      ∃ x, r.dst[j]? = some (dcol ++ [x]) ∧ movedVal row scs scols new dc = some x := by
  fun_induction moveCols row scs scols dcs dcols new generalizing r with
  | case1 => simp
  | case2 => simp
  | case3 => simp at h
  | case4 dcs dcol dcols nc nv new r' hr ih =>
    simp only [Option.some.injEq] at h; subst h
    intro j dc' dcol' h1 h2
    cases j with
    | zero => simp_all [movedVal, List.lookup]
    | succ j =>
      simp only [List.getElem?_cons_succ] at h1 h2 ⊢
      have hlt : nc < dc' := hd.head_lt _ (List.mem_of_getElem? h1)
      rw [movedVal_new_ne _ _ _ _ _ _ _ (by omega)]
      exact ih r' hr hs hd.tail j dc' dcol' h1 h2
  | case5 => simp_all
  | case6 => simp_all
  | case7 sc scs scol scols dc dcs dcol dcols new hlt x r' hr hx ih =>
    simp only [Option.some.injEq] at h; subst h
    intro j dc' dcol' h1 h2
    have hge : dc ≤ dc' := hd.head_le _ (List.mem_of_getElem? h1)
    rw [movedVal_cons_ne _ _ _ _ _ _ _ (by omega)]
    exact ih r' hr hs.tail hd j dc' dcol' h1 h2
  | case8 => simp_all
  | case9 scs scol scols dc dcs dcol dcols new x r' hr hx hnlt ih =>
    simp only [Option.some.injEq] at h; subst h
    intro j dc' dcol' h1 h2
    cases j with
    | zero => simp_all [movedVal, cellAt_cons]
    | succ j =>
      simp only [List.getElem?_cons_succ] at h1 h2 ⊢
      have hlt : dc < dc' := hd.head_lt _ (List.mem_of_getElem? h1)
      rw [movedVal_cons_ne _ _ _ _ _ _ _ (by omega)]
      exact ih r' hr hs.tail hd.tail j dc' dcol' h1 h2
  | case10 => simp_all
  | case11 sc scs scol scols dcs dcol dcols nc nv new' r' hr hnlt hne ih =>
    simp only [Option.some.injEq] at h; subst h
    intro j dc' dcol' h1 h2
    cases j with
    | zero =>
      have : nc ∉ sc :: scs := fun hm => by have := hs.head_le _ hm; omega
      simp only [List.getElem?_cons_zero, Option.some.injEq] at h1 h2
      subst h1 h2
      simp [movedVal, this, List.lookup]
    | succ j =>
      simp only [List.getElem?_cons_succ] at h1 h2 ⊢
      have hlt : nc < dc' := hd.head_lt _ (List.mem_of_getElem? h1)
      rw [movedVal_new_ne _ _ _ _ _ _ _ (by omega)]
      exact ih r' hr hs hd.tail j dc' dcol' h1 h2
  | case12 => simp_all
  | case13 => simp_all
  | case14 => simp_all
  | case15 => simp_all

theorem moveCols_dropped (row : Nat) (scs scols dcs dcols new r)
    (h : moveCols row scs scols dcs dcols new = some r)
    (hs : Sorted scs) (hd : Sorted dcs) :
    r.dropped.map some = (scs.filter fun c => !dcs.contains c).map (cellAt row scs scols) := by
  have key : ∀ (sc : Nat) (scs : List Nat) scol scols (l : List Nat), Sorted (sc :: scs) → (∀ c ∈ l, c ∈ scs) →
      l.map (cellAt row (sc :: scs) (scol :: scols)) = l.map (cellAt row scs scols) := by
    intro sc scs scol scols l hs hl
    apply List.map_congr_left
    intro c hc
    have := hs.head_lt c (hl c hc)
    rw [cellAt_cons, if_neg (by omega)]
  fun_induction moveCols row scs scols dcs dcols new generalizing r with
  | case1 => simp at h; subst h; simp
  | case2 head scs scol scols new x r' hr hx ih =>
    simp only [Option.some.injEq] at h; subst h
    have := ih r' hr hs.tail hd
    have hf : ∀ l : List Nat, l.filter (fun c => !([] : List Nat).contains c) = l := by intro l; simp
    rw [hf] at this ⊢
    rw [List.map_cons, List.map_cons, cellAt_cons, if_pos rfl, key _ _ _ _ _ hs (fun c hc => hc), ← this, hx]
  | case3 => simp at h
  | case4 dcs dcol dcols nc nv new r' hr ih =>
    simp only [Option.some.injEq] at h; subst h
    simpa using ih r' hr hs hd.tail
  | case5 => simp_all
  | case6 => simp_all
  | case7 sc scs scol scols dc dcs dcol dcols new hlt x r' hr hx ih =>
    simp only [Option.some.injEq] at h; subst h
    have := ih r' hr hs.tail hd
    rw [filter_notin_gt hd hlt, List.map_cons, List.map_cons, cellAt_cons, if_pos rfl,
      key _ _ _ _ _ hs (fun c hc => (List.mem_filter.mp hc).1), ← this, hx]
  | case8 => simp_all
  | case9 scs scol scols dc dcs dcol dcols new x r' hr hx hnlt ih =>
    simp only [Option.some.injEq] at h; subst h
    have := ih r' hr hs.tail hd.tail
    rw [filter_notin_eq hs, key _ _ _ _ _ hs (fun c hc => (List.mem_filter.mp hc).1), ← this]
  | case10 => simp_all
  | case11 sc scs scol scols dcs dcol dcols nc nv new' r' hr hnlt hne ih =>
    simp only [Option.some.injEq] at h; subst h
    have := ih r' hr hs hd.tail
    rw [filter_notin_lt hs (by omega)]
    exact this
  | case12 => simp_all
  | case13 => simp_all
  | case14 => simp_all
  | case15 => simp_all

theorem count_swapRemove {α} [DecidableEq α] (l : List α) (i : Nat) (x a : α) (h : l[i]? = some x) :
    l.count a = (swapRemove l i).count a + [x].count a := by
  rw [(perm_swapRemove l i x h).count_eq a, List.count_cons, List.count_cons]; simp

theorem moveCols_count (row : Nat) (scs scols dcs dcols new r)
    (h : moveCols row scs scols dcs dcols new = some r)
    (hs : Sorted scs) (hd : Sorted dcs)
    (hnew : new.map (·.1) = dcs.filter (fun c => !scs.contains c)) (a : Cell) :
    scols.flatten.count a + dcols.flatten.count a + (new.map (·.2)).count a
      = r.src.flatten.count a + r.dst.flatten.count a + r.dropped.count a := by
  fun_induction moveCols row scs scols dcs dcols new generalizing r with
  | case1 new => simp at hnew h; subst h hnew; simp
  | case2 head scs scol scols new x r' hr hx ih =>
    simp only [Option.some.injEq] at h; subst h
    have := ih r' hr hs.tail hd (by simpa using hnew)
    have := count_swapRemove scol row x a hx
    simp only [List.flatten_cons, List.count_append, List.count_cons, List.count_nil, List.flatten_nil] at *
    omega
  | case3 => simp at h
  | case4 dcs dcol dcols nc nv new r' hr ih =>
    simp only [Option.some.injEq] at h; subst h
    have := ih r' hr hs hd.tail (by simpa using hnew)
    simp only [List.flatten_cons, List.count_append, List.count_cons, List.count_nil, List.flatten_nil, List.map_cons] at *
    omega
  | case5 => simp_all
  | case6 => simp_all
  | case7 sc scs scol scols dc dcs dcol dcols new hlt x r' hr hx ih =>
    simp only [Option.some.injEq] at h; subst h
    have := ih r' hr hs.tail hd (by rw [hnew, filter_notin_lt hd hlt])
    have := count_swapRemove scol row x a hx
    simp only [List.flatten_cons, List.count_append, List.count_cons, List.count_nil, List.flatten_nil] at *
    omega
  | case8 => simp_all
  | case9 scs scol scols dc dcs dcol dcols new x r' hr hx hnlt ih =>
    simp only [Option.some.injEq] at h; subst h
    have := ih r' hr hs.tail hd.tail (by rw [hnew, filter_notin_eq hd])
    have := count_swapRemove scol row x a hx
    simp only [List.flatten_cons, List.count_append, List.count_cons, List.count_nil, List.flatten_nil] at *
    omega
  | case10 => simp_all
  | case11 sc scs scol scols dcs dcol dcols nc nv new' r' hr hnlt hne ih =>
    simp only [Option.some.injEq] at h; subst h
    rw [filter_notin_gt hs (by omega)] at hnew
    have := ih r' hr hs hd.tail (by simpa using hnew)
    simp only [List.flatten_cons, List.count_append, List.count_cons, List.count_nil, List.flatten_nil, List.map_cons] at *
    omega
  | case12 => simp_all
  | case13 => simp_all
  | case14 => simp_all
  | case15 => simp_all

/-! ### association-list lookups (`Store.loc`) -/

/-- `Store.loc` on the raw list -/
def alookup (locs : List (Key × Loc)) (e : Key) : Option Loc := (locs.find? fun p => p.1 = e).map (·.2)

theorem Store.loc_eq (st : Store) (e : Key) : st.loc e = alookup st.locs e := rfl

@[simp] theorem alookup_nil (e) : alookup [] e = none := rfl
theorem alookup_cons (p : Key × Loc) (locs e) :
    alookup (p :: locs) e = if p.1 = e then some p.2 else alookup locs e := by
  simp only [alookup, List.find?_cons]
  by_cases h : p.1 = e <;> simp [h]

theorem alookup_upd (locs : List (Key × Loc)) (id : Key) (f : Loc → Loc) (e : Key) :
    alookup (locs.map fun p => if p.1 = id then (p.1, f p.2) else p) e
      = if e = id then (alookup locs e).map f else alookup locs e := by
  induction locs with
  | nil => simp
  | cons p locs ih =>
    rw [List.map_cons, alookup_cons, alookup_cons, ih]
    by_cases h1 : p.1 = id <;> by_cases h2 : p.1 = e <;> grind

theorem keys_upd (locs : List (Key × Loc)) (id : Key) (f : Loc → Loc) :
    (locs.map fun p => if p.1 = id then (p.1, f p.2) else p).map (·.1) = locs.map (·.1) := by
  rw [List.map_map]; apply List.map_congr_left; intro p _; simp only [Function.comp]; split <;> rfl

theorem alookup_erase (locs : List (Key × Loc)) (id : Key) (e : Key) :
    alookup (locs.filter fun p => p.1 ≠ id) e = if e = id then none else alookup locs e := by
  induction locs with
  | nil => simp
  | cons p locs ih =>
    by_cases h1 : p.1 = id
    · rw [List.filter_cons_of_neg (by simp [h1]), ih, alookup_cons]; grind
    · rw [List.filter_cons_of_pos (by simp [h1]), alookup_cons, alookup_cons, ih]; grind

theorem alookup_append_single (locs : List (Key × Loc)) (id : Key) (l : Loc) (e : Key) :
    alookup (locs ++ [(id, l)]) e = match alookup locs e with
      | some l' => some l'
      | none => if e = id then some l else none := by
  induction locs with
  | nil => simp [alookup_cons]; grind
  | cons p locs ih => rw [List.cons_append, alookup_cons, alookup_cons, ih]; grind

theorem alookup_eq_none_iff (locs : List (Key × Loc)) (e : Key) :
    alookup locs e = none ↔ e ∉ locs.map (·.1) := by
  induction locs with
  | nil => simp
  | cons p locs ih => rw [alookup_cons]; grind

theorem mem_iff_alookup (locs : List (Key × Loc)) (hk : (locs.map (·.1)).Nodup) (e : Key) (l : Loc) :
    (e, l) ∈ locs ↔ alookup locs e = some l := by
  induction locs with
  | nil => simp
  | cons p locs ih =>
    have hk' := List.nodup_cons.mp hk
    rw [alookup_cons, List.mem_cons, ih hk'.2]
    by_cases h : p.1 = e
    · have : alookup locs e = none := (alookup_eq_none_iff _ _).mpr (h ▸ hk'.1)
      obtain ⟨k, l'⟩ := p
      simp_all
      grind
    · obtain ⟨k, l'⟩ := p
      simp_all
      grind

/-! ### the two halves of a move on the location ↔ row bijection, abstractly -/

def locSR (L : Key → Option Loc) (sids : List Key) (row : Nat) (eid : Key) : Key → Option Loc := fun e' =>
  if e' = eid then none else
    match (swapRemove sids row)[row]? with
    | some sw => if e' = sw then (L e').map (fun l => { l with row := row }) else L e'
    | none => L e'

def rowSR (R : Loc → Option Key) (s : Nat) (sids : List Key) (row : Nat) : Loc → Option Key := fun l =>
  if l.arch = s then (swapRemove sids row)[l.row]? else R l

/-- the location map after pushing `eid` as the last row of archetype `d` (which had `dlen` rows) -/
def locPush (L : Key → Option Loc) (d dlen : Nat) (eid : Key) : Key → Option Loc := fun e' =>
  if e' = eid then some ⟨d, dlen⟩ else L e'

def rowPush (R : Loc → Option Key) (d : Nat) (dids : List Key) (eid : Key) : Loc → Option Key := fun l =>
  if l.arch = d then (dids ++ [eid])[l.row]? else R l

theorem bij_swapRemove (L : Key → Option Loc) (R : Loc → Option Key) (hb : ∀ e l, L e = some l ↔ R l = some e)
    (s : Nat) (sids : List Key) (hR : ∀ r, R ⟨s, r⟩ = sids[r]?) (row : Nat) (eid : Key) (he : sids[row]? = some eid) :
    ∀ e l, locSR L sids row eid e = some l ↔ rowSR R s sids row l = some e := by
  have hrow : row < sids.length := by
    rcases Nat.lt_or_ge row sids.length with h | h
    · exact h
    · simp [List.getElem?_eq_none h] at he
  have hinj : ∀ (i j : Nat) (k : Key), sids[i]? = some k → sids[j]? = some k → i = j := by
    intro i j k hi hj
    have h1 := (hb k ⟨s, i⟩).mpr (by rw [hR]; exact hi)
    have h2 := (hb k ⟨s, j⟩).mpr (by rw [hR]; exact hj)
    rw [h1] at h2; simpa using h2
  intro e l
  obtain ⟨a, r⟩ := l
  have heid : L eid = some ⟨s, row⟩ := (hb _ _).mpr (by rw [hR]; exact he)
  have hlast : ∀ sw, sids[sids.length - 1]? = some sw → L sw = some ⟨s, sids.length - 1⟩ :=
    fun sw h => (hb _ _).mpr (by rw [hR]; exact h)
  have hfun : ∀ l', L e = some l' → R l' = some e := fun l' h => (hb _ _).mp h
  have hfun' : R ⟨a, r⟩ = some e → L e = some ⟨a, r⟩ := fun h => (hb _ _).mpr h
  simp only [locSR, rowSR, getElem?_swapRemove _ _ _ hrow]
  by_cases hl : row + 1 < sids.length
  · obtain ⟨sw, hsw⟩ : ∃ sw, sids[sids.length - 1]? = some sw := ⟨sids[sids.length - 1], by simp⟩
    have := hlast sw hsw
    simp only [hl, if_true, hsw]
    cases hLe : L e with
    | none => grind
    | some l' => obtain ⟨a', r'⟩ := l'; have := hfun _ hLe; grind
  · simp only [hl, if_false]
    cases hLe : L e with
    | none => grind
    | some l' => obtain ⟨a', r'⟩ := l'; have := hfun _ hLe; grind

theorem bij_push (L : Key → Option Loc) (R : Loc → Option Key) (hb : ∀ e l, L e = some l ↔ R l = some e)
    (d : Nat) (dids : List Key) (hR : ∀ r, R ⟨d, r⟩ = dids[r]?) (eid : Key) (hnone : L eid = none) :
    ∀ e l, locPush L d dids.length eid e = some l ↔ rowPush R d dids eid l = some e := by
  intro e l
  obtain ⟨a, r⟩ := l
  have hfun' : R ⟨a, r⟩ = some e → L e = some ⟨a, r⟩ := fun h => (hb _ _).mpr h
  have hRr := hR r
  simp only [locPush, rowPush]
  cases hLe : L e with
  | none => grind
  | some l' => obtain ⟨a', r'⟩ := l'; have := (hb _ _).mp hLe; have := hR r'; grind

theorem bind_locSR {β : Type} (G G1 : Loc → Option β)
    (L : Key → Option Loc) (R : Loc → Option Key) (hb : ∀ e l, L e = some l ↔ R l = some e)
    (s : Nat) (sids : List Key) (hR : ∀ r, R ⟨s, r⟩ = sids[r]?) (row : Nat) (eid : Key) (he : sids[row]? = some eid)
    (hGs : ∀ r, r + 1 < sids.length → G1 ⟨s, r⟩ = if r = row then G ⟨s, sids.length - 1⟩ else G ⟨s, r⟩)
    (hGo : ∀ a r, a ≠ s → G1 ⟨a, r⟩ = G ⟨a, r⟩) (e' : Key) (hne : e' ≠ eid) :
    (locSR L sids row eid e').bind G1 = (L e').bind G := by
  have hrow : row < sids.length := by
    rcases Nat.lt_or_ge row sids.length with h | h
    · exact h
    · simp [List.getElem?_eq_none h] at he
  have hinj : ∀ (i j : Nat) (k : Key), sids[i]? = some k → sids[j]? = some k → i = j := by
    intro i j k hi hj
    have h1 := (hb k ⟨s, i⟩).mpr (by rw [hR]; exact hi)
    have h2 := (hb k ⟨s, j⟩).mpr (by rw [hR]; exact hj)
    rw [h1] at h2; simpa using h2
  have hlast : ∀ sw, sids[sids.length - 1]? = some sw → L sw = some ⟨s, sids.length - 1⟩ :=
    fun sw h => (hb _ _).mpr (by rw [hR]; exact h)
  simp only [locSR, getElem?_swapRemove _ _ _ hrow, if_neg hne]
  by_cases hl : row + 1 < sids.length
  · obtain ⟨sw, hsw⟩ : ∃ sw, sids[sids.length - 1]? = some sw := ⟨sids[sids.length - 1], by simp⟩
    have := hlast sw hsw
    simp only [hl, if_true, hsw]
    cases hLe : L e' with
    | none => grind
    | some l' =>
      obtain ⟨a', r'⟩ := l'
      have := (hb _ _).mp hLe
      have := hR r'
      have := hGs r'
      have := hGs row
      have := hGo a' r'
      grind
  · simp only [hl, if_false]
    cases hLe : L e' with
    | none => grind
    | some l' =>
      obtain ⟨a', r'⟩ := l'
      have := (hb _ _).mp hLe
      have := hR r'
      have := hGs r'
      have := hGo a' r'
      grind

theorem bind_locPush {β : Type} (G1 G2 : Loc → Option β)
    (L : Key → Option Loc) (R : Loc → Option Key) (hb : ∀ e l, L e = some l ↔ R l = some e)
    (d : Nat) (dids : List Key) (hR : ∀ r, R ⟨d, r⟩ = dids[r]?) (eid : Key)
    (hGd : ∀ r, r < dids.length → G2 ⟨d, r⟩ = G1 ⟨d, r⟩)
    (hGo : ∀ a r, a ≠ d → G2 ⟨a, r⟩ = G1 ⟨a, r⟩) (e' : Key) (hne : e' ≠ eid) :
    (locPush L d dids.length eid e').bind G2 = (L e').bind G1 := by
  simp only [locPush, if_neg hne]
  cases hLe : L e' with
  | none => rfl
  | some l' =>
    obtain ⟨a', r'⟩ := l'
    have := (hb _ _).mp hLe
    have := hR r'
    have := hGd r'
    have := hGo a' r'
    grind

/-! ### reading cells after the column operations -/

theorem Sorted.nodup {l : List Nat} (h : Sorted l) : l.Nodup :=
  List.Pairwise.imp (fun hab => Nat.ne_of_lt hab) h

theorem idxOf?_of_nodup {cs : List Nat} (h : cs.Nodup) {j c : Nat} (hj : cs[j]? = some c) : cs.idxOf? c = some j := by
  obtain ⟨hlt, hc⟩ := List.getElem?_eq_some_iff.mp hj
  unfold List.idxOf?
  rw [List.findIdx?_eq_some_iff_getElem]
  refine ⟨hlt, by simp [hc], ?_⟩
  intro k hk hk'
  simp only [beq_iff_eq] at hk'
  have := (List.getElem_inj (h₀ := by omega) (h₁ := hlt) h).mp (hk'.trans hc.symm)
  omega

theorem cellAt_of_idx {cs : List Nat} (h : cs.Nodup) {j c : Nat} (hj : cs[j]? = some c) (r : Nat)
    (cols : List (List Cell)) : cellAt r cs cols c = (cols[j]?).bind (·[r]?) := by
  simp only [cellAt, idxOf?_of_nodup h hj]; rfl

theorem cellAt_swapRemove (n row : Nat) (cs : List Nat) (cols : List (List Cell))
    (hcol : ∀ col ∈ cols, col.length = n) (hrow : row < n) (r c : Nat) :
    cellAt r cs (cols.map (swapRemove · row)) c
      = if r + 1 < n then (if r = row then cellAt (n - 1) cs cols c else cellAt r cs cols c) else none := by
  simp only [cellAt]
  cases List.idxOf? c cs with
  | none => simp
  | some i =>
    simp only [Option.bind_eq_bind, Option.bind_some, List.getElem?_map]
    cases hc : cols[i]? with
    | none => simp
    | some col =>
      have hl := hcol col (List.mem_of_getElem? hc)
      simp only [Option.map_some, Option.bind_some]
      rw [getElem?_swapRemove _ _ _ (by omega), hl]

theorem cellAt_dst_lt {dcs : List Nat} (hd : Sorted dcs) {dcols dst : List (List Cell)} {m : Nat}
    (hlen : dst.length = dcols.length)
    (hshape : ∀ (j : Nat) (dcol : List Cell), dcols[j]? = some dcol → ∃ x, dst[j]? = some (dcol ++ [x]))
    (hcol : ∀ col ∈ dcols, col.length = m) (r c : Nat) (hr : r < m) :
    cellAt r dcs dst c = cellAt r dcs dcols c := by
  by_cases hc : c ∈ dcs
  · obtain ⟨j, hj⟩ := List.getElem?_of_mem hc
    rw [cellAt_of_idx hd.nodup hj, cellAt_of_idx hd.nodup hj]
    cases hdc : dcols[j]? with
    | none =>
      have : dst[j]? = none := by
        rw [List.getElem?_eq_none_iff] at hdc ⊢; omega
      simp [this]
    | some dcol =>
      obtain ⟨x, hx⟩ := hshape j dcol hdc
      have := hcol dcol (List.mem_of_getElem? hdc)
      simp [hx, List.getElem?_append_left (show r < dcol.length by omega)]
  · rw [cellAt_not_mem _ _ _ _ hc, cellAt_not_mem _ _ _ _ hc]

theorem cellAt_dst_last {dcs : List Nat} (hd : Sorted dcs) {dcols dst : List (List Cell)} {m : Nat}
    (hdl : dcols.length = dcs.length) (val : Nat → Option Cell)
    (hval : ∀ (j dc : Nat) (dcol : List Cell), dcs[j]? = some dc → dcols[j]? = some dcol →
      ∃ x, dst[j]? = some (dcol ++ [x]) ∧ val dc = some x)
    (hcol : ∀ col ∈ dcols, col.length = m) (c : Nat) :
    cellAt m dcs dst c = if c ∈ dcs then val c else none := by
  by_cases hc : c ∈ dcs
  · obtain ⟨j, hj⟩ := List.getElem?_of_mem hc
    rw [cellAt_of_idx hd.nodup hj, if_pos hc]
    have hjl : j < dcols.length := by rw [hdl]; exact (List.getElem?_eq_some_iff.mp hj).1
    obtain ⟨x, hx, hv⟩ := hval j c dcols[j] hj (by simp [hjl])
    have := hcol dcols[j] (List.getElem_mem hjl)
    simp [hx, hv, ← this]
  · rw [cellAt_not_mem _ _ _ _ hc, if_neg hc]

end Evenio
