import Evenio.Model.World
/-! Equational theory of `M = ExceptT Err (StateM World)` in `run.run` form, the one-step unfolding of `flushWith`,
    and the depth-first big-step specification of the event loop (used by C04, C11, C13, C20).

    Everything is about `flushWith deliver` for an ARBITRARY `deliver : QItem → M Unit`. -/
namespace Evenio

/-! ### `run.run` equations -/
section run
variable {α β : Type}

@[simp] theorem run_pure (a : α) (w : World) : (pure a : M α).run.run w = (.ok a, w) := rfl
@[simp] theorem run_throw (e : Err) (w : World) : (throw e : M α).run.run w = (.error e, w) := rfl
@[simp] theorem run_get (w : World) : (get : M World).run.run w = (.ok w, w) := rfl
@[simp] theorem run_set (w' w : World) : (set w' : M Unit).run.run w = (.ok (), w') := rfl
@[simp] theorem run_modify (f : World → World) (w : World) : (modify f : M Unit).run.run w = (.ok (), f w) := rfl
@[simp] theorem run_modifyGet (f : World → α × World) (w : World) :
    (modifyGet f : M α).run.run w = (.ok (f w).1, (f w).2) := rfl

theorem run_bind (m : M α) (f : α → M β) (w : World) :
    (m >>= f).run.run w =
      match m.run.run w with
      | (.ok a, w') => (f a).run.run w'
      | (.error e, w') => (.error e, w') := by
  show (ExceptT.bind m f).run.run w = _
  simp only [ExceptT.bind, ExceptT.run, ExceptT.mk, bind, StateT.bind, StateT.run, ExceptT.bindCont]
  generalize m w = r
  obtain ⟨(e|a), w'⟩ := r <;> rfl

theorem run_tryCatch (m : M α) (h : Err → M α) (w : World) :
    (tryCatch m h).run.run w =
      match m.run.run w with
      | (.ok a, w') => (.ok a, w')
      | (.error e, w') => (h e).run.run w' := by
  show (ExceptT.tryCatch m h).run.run w = _
  simp only [ExceptT.tryCatch, ExceptT.run, ExceptT.mk, bind, StateT.bind, StateT.run]
  generalize m w = r
  obtain ⟨(e|a), w'⟩ := r <;> rfl

end run

/-! ### one iteration of `flushWith` -/

/-- What the unwinding guard of `flushWith` (`EventDropper::drop`) does with the state `wp` the failing delivery
    left, whose queue is everything still pending (`rest ++ segment`): a panic runs `dropQueued`, then rethrows. -/
def guardExit (e : Err) (wp : World) : Except Err Unit × World :=
  match e with
  | .panic _ =>
    match dropQueued.run.run wp with
    | (.ok _, w3) => (.error e, w3)
    | (.error e', w3) => (.error e', w3)
  | _ => (.error e, wp)

theorem guardExit_ne_ok (e : Err) (wp w' : World) : guardExit e wp ≠ (.ok (), w') := by
  unfold guardExit
  cases e with
  | panic c =>
    simp only
    generalize dropQueued.run.run wp = r
    obtain ⟨(e|a), w3⟩ := r <;> simp
  | _ => simp

theorem flushWith_zero (deliver : QItem → M Unit) (w : World) :
    (flushWith deliver 0).run.run w = (.error (.panic "model:fuel"), w) := rfl

theorem flushWith_succ (deliver : QItem → M Unit) (fuel : Nat) (w : World) :
    (flushWith deliver (fuel + 1)).run.run w =
      match w.queue.getLast? with
      | none => (.ok (), { w with arenaEpoch := w.arenaEpoch + 1 })
      | some it =>
        match (deliver it).run.run { w with queue := [] } with
        | (.ok _, w'') => (flushWith deliver fuel).run.run { w'' with queue := w.queue.dropLast ++ w''.queue }
        | (.error e, w'') => guardExit e { w'' with queue := w.queue.dropLast ++ w''.queue } := by
  rw [flushWith]
  simp only [run_bind, run_get]
  cases hq : w.queue.getLast? with
  | none => simp
  | some it =>
    simp only [run_bind, run_set, run_tryCatch]
    generalize (deliver it).run.run { w with queue := [] } = r
    obtain ⟨(e|a), w''⟩ := r
    · cases e <;> simp only [run_bind, run_modify, run_throw, guardExit]
      generalize dropQueued.run.run _ = r
      obtain ⟨(e|a), w3⟩ := r <;> rfl
    · simp only [run_modify]

/-- the loop on an empty stack: reset the arena, return -/
theorem flushWith_nil (deliver : QItem → M Unit) (fuel : Nat) (w : World) :
    (flushWith deliver (fuel + 1)).run.run { w with queue := [] } =
      (.ok (), { w with queue := [], arenaEpoch := w.arenaEpoch + 1 }) := by
  rw [flushWith_succ]; rfl

/-- the loop on a stack with top `e` -/
theorem flushWith_concat (deliver : QItem → M Unit) (fuel : Nat) (w : World) (q : List QItem) (e : QItem) :
    (flushWith deliver (fuel + 1)).run.run { w with queue := q ++ [e] } =
      match (deliver e).run.run { w with queue := [] } with
      | (.ok _, w'') => (flushWith deliver fuel).run.run { w'' with queue := q ++ w''.queue }
      | (.error err, w'') => guardExit err { w'' with queue := q ++ w''.queue } := by
  rw [flushWith_succ]
  simp only [List.getLast?_append, List.getLast?_singleton, Option.some_or, List.dropLast_concat]

/-! ### the specification -/

/-- One delivery, run with the rest of the stack set aside. `seg` is what the delivery left queued, in STACK order
    (last = next to pop); the events it sent, in the order the loop will pop them, are `seg.reverse`. -/
def Step (deliver : QItem → M Unit) (w : World) (it : QItem) (w' : World) (seg : List QItem) : Prop :=
  ∃ w'', (deliver it).run.run { w with queue := [] } = (.ok (), w'') ∧ seg = w''.queue ∧ w' = { w'' with queue := [] }

/-- Depth-first propagation of a list of events (in pop order): deliver `e`; then everything it left queued, each
    completely, in pop order; only then the next sibling. -/
inductive Dfs (deliver : QItem → M Unit) : World → List QItem → World → Prop
  | nil (w : World) : Dfs deliver w [] w
  | cons {w : World} {e : QItem} {w1 : World} {seg : List QItem} {w2 : World} {es : List QItem} {w3 : World} :
      Step deliver w e w1 seg → Dfs deliver w1 seg.reverse w2 → Dfs deliver w2 es w3 → Dfs deliver w (e :: es) w3

/-- record of one completed delivery -/
structure Delivery where
  pre : World
  ev : QItem
  post : World
  seg : List QItem

/-- `Dfs` carrying the log of its deliveries, in the order they happen. The log of `e :: es` is by construction the
    depth-first (pre-order) flattening: `e`, then the whole log of what `e` left queued, then the log of `es`. -/
inductive DfsLog (deliver : QItem → M Unit) : World → List QItem → World → List Delivery → Prop
  | nil (w : World) : DfsLog deliver w [] w []
  | cons {w : World} {e : QItem} {w1 : World} {seg : List QItem} {w2 : World} {es : List QItem} {w3 : World}
      {l1 l2 : List Delivery} :
      Step deliver w e w1 seg → DfsLog deliver w1 seg.reverse w2 l1 → DfsLog deliver w2 es w3 l2 →
      DfsLog deliver w (e :: es) w3 (⟨w, e, w1, seg⟩ :: l1 ++ l2)

variable {deliver : QItem → M Unit}

theorem Step.queue_nil {w it w' seg} (h : Step deliver w it w' seg) : w'.queue = [] := by
  obtain ⟨w'', _, _, rfl⟩ := h; rfl

theorem Step.det {w it w1 s1 w2 s2} (h1 : Step deliver w it w1 s1) (h2 : Step deliver w it w2 s2) :
    w1 = w2 ∧ s1 = s2 := by
  obtain ⟨a, ha, rfl, rfl⟩ := h1
  obtain ⟨b, hb, rfl, rfl⟩ := h2
  rw [ha] at hb
  cases hb
  exact ⟨rfl, rfl⟩

theorem DfsLog.toDfs {w es w' log} (h : DfsLog deliver w es w' log) : Dfs deliver w es w' := by
  induction h with
  | nil w => exact .nil w
  | cons hs _ _ ih1 ih2 => exact .cons hs ih1 ih2

theorem Dfs.toLog {w es w'} (h : Dfs deliver w es w') : ∃ log, DfsLog deliver w es w' log := by
  induction h with
  | nil w => exact ⟨[], .nil w⟩
  | cons hs _ _ ih1 ih2 =>
    obtain ⟨l1, h1⟩ := ih1
    obtain ⟨l2, h2⟩ := ih2
    exact ⟨_, .cons hs h1 h2⟩

theorem dfs_iff_log {w es w'} : Dfs deliver w es w' ↔ ∃ log, DfsLog deliver w es w' log :=
  ⟨Dfs.toLog, fun ⟨_, h⟩ => h.toDfs⟩

theorem DfsLog.queue_nil {w es w' log} (h : DfsLog deliver w es w' log) (hw : w.queue = []) : w'.queue = [] := by
  induction h with
  | nil w => exact hw
  | cons hs _ _ ih1 ih2 => exact ih2 (ih1 hs.queue_nil)

theorem Dfs.queue_nil {w es w'} (h : Dfs deliver w es w') (hw : w.queue = []) : w'.queue = [] := by
  obtain ⟨_, h⟩ := h.toLog; exact h.queue_nil hw

theorem DfsLog.append {w a w1 l1 b w2 l2} (h1 : DfsLog deliver w a w1 l1) (h2 : DfsLog deliver w1 b w2 l2) :
    DfsLog deliver w (a ++ b) w2 (l1 ++ l2) := by
  induction h1 with
  | nil w => simpa using h2
  | cons hs hc _ _ ih2 =>
    have := DfsLog.cons hs hc (ih2 h2)
    simpa [List.append_assoc] using this

theorem DfsLog.split (a : List QItem) {w b w' log} (h : DfsLog deliver w (a ++ b) w' log) :
    ∃ wm l1 l2, DfsLog deliver w a wm l1 ∧ DfsLog deliver wm b w' l2 ∧ log = l1 ++ l2 := by
  induction a generalizing w log with
  | nil => exact ⟨w, [], log, .nil w, by simpa using h, by simp⟩
  | cons e a ih =>
    cases h with
    | cons hs hc hr =>
      obtain ⟨wm, u1, u2, ha, hb, rfl⟩ := ih hr
      exact ⟨wm, _, u2, .cons hs hc ha, hb, by simp [List.append_assoc]⟩

theorem Dfs.append {w a w1 b w2} (h1 : Dfs deliver w a w1) (h2 : Dfs deliver w1 b w2) :
    Dfs deliver w (a ++ b) w2 := by
  obtain ⟨_, h1⟩ := h1.toLog
  obtain ⟨_, h2⟩ := h2.toLog
  exact (h1.append h2).toDfs

theorem Dfs.split (a : List QItem) {w b w'} (h : Dfs deliver w (a ++ b) w') :
    ∃ wm, Dfs deliver w a wm ∧ Dfs deliver wm b w' := by
  obtain ⟨_, h⟩ := h.toLog
  obtain ⟨wm, _, _, ha, hb, _⟩ := h.split a
  exact ⟨wm, ha.toDfs, hb.toDfs⟩

/-- the specification is deterministic: final world and log are functions of the start -/
theorem DfsLog.det {w es w1 l1 w2 l2} (h1 : DfsLog deliver w es w1 l1) (h2 : DfsLog deliver w es w2 l2) :
    w1 = w2 ∧ l1 = l2 := by
  induction h1 generalizing w2 l2 with
  | nil w => cases h2; exact ⟨rfl, rfl⟩
  | cons hs _ _ ih1 ih2 =>
    cases h2 with
    | cons hs' hc' hr' =>
      obtain ⟨rfl, rfl⟩ := hs.det hs'
      obtain ⟨rfl, rfl⟩ := ih1 hc'
      obtain ⟨rfl, rfl⟩ := ih2 hr'
      exact ⟨rfl, rfl⟩

theorem Dfs.det {w es w1 w2} (h1 : Dfs deliver w es w1) (h2 : Dfs deliver w es w2) : w1 = w2 := by
  obtain ⟨_, h1⟩ := h1.toLog
  obtain ⟨_, h2⟩ := h2.toLog
  exact (h1.det h2).1

/-- every log entry is a genuine delivery -/
theorem DfsLog.steps {w es w' log} (h : DfsLog deliver w es w' log) :
    ∀ d ∈ log, Step deliver d.pre d.ev d.post d.seg := by
  induction h with
  | nil w => simp
  | cons hs _ _ ih1 ih2 =>
    intro d hd
    simp only [List.cons_append, List.mem_cons, List.mem_append] at hd
    rcases hd with rfl | hd | hd
    · exact hs
    · exact ih1 d hd
    · exact ih2 d hd

/-! ### soundness: the stack loop refines the depth-first specification -/

/-- Normal return of the loop started on stack `q` from `w0`: the deliveries are a depth-first propagation of `q`
    in pop order (`q.reverse`); the arena is reset exactly once, at the very end. -/
theorem flushWith_ok_log {fuel : Nat} {w0 : World} {q : List QItem} {w' : World}
    (h : (flushWith deliver fuel).run.run { w0 with queue := q } = (.ok (), w')) :
    ∃ wd log, DfsLog deliver { w0 with queue := [] } q.reverse wd log ∧
      w' = { wd with arenaEpoch := wd.arenaEpoch + 1 } := by
  induction fuel generalizing w0 q with
  | zero => rw [flushWith_zero] at h; cases h
  | succ fuel ih =>
    rcases List.eq_nil_or_concat q with rfl | ⟨q', e, rfl⟩
    · rw [flushWith_nil] at h
      cases h
      exact ⟨_, [], .nil _, rfl⟩
    · simp only [List.concat_eq_append] at h ⊢
      rw [flushWith_concat] at h
      generalize hd : (deliver e).run.run { w0 with queue := [] } = r at h
      obtain ⟨(err|_), w''⟩ := r
      · exact absurd h (guardExit_ne_ok _ _ _)
      · obtain ⟨wd, log, hdfs, rfl⟩ := ih (w0 := w'') (q := q' ++ w''.queue) h
        rw [List.reverse_append] at hdfs
        obtain ⟨wm, l1, l2, h1, h2, rfl⟩ := hdfs.split _
        have hs : Step deliver { w0 with queue := [] } e { w'' with queue := [] } w''.queue := ⟨w'', hd, rfl, rfl⟩
        refine ⟨wd, ⟨{ w0 with queue := [] }, e, { w'' with queue := [] }, w''.queue⟩ :: l1 ++ l2, ?_, rfl⟩
        simpa using DfsLog.cons hs h1 h2

/-! ### completeness: with enough fuel the loop realises every derivation -/

/-- Running the loop on `rest ++ es.reverse` (so `es` is popped first) for `log.length` iterations leaves the loop on
    `rest`, in the world the specification predicts. -/
theorem DfsLog.run {w es wd log} (h : DfsLog deliver w es wd log) (rest : List QItem) (fuel : Nat) :
    (flushWith deliver (fuel + log.length)).run.run { w with queue := rest ++ es.reverse } =
      (flushWith deliver fuel).run.run { wd with queue := rest } := by
  induction h generalizing rest fuel with
  | nil w => simp
  | @cons w e w1 seg w2 es w3 l1 l2 hs _ _ ih1 ih2 =>
    obtain ⟨w'', hd, rfl, rfl⟩ := hs
    have hlen : fuel + (({ pre := w, ev := e, post := { w'' with queue := [] }, seg := w''.queue } : Delivery) ::
        l1 ++ l2).length = (fuel + l2.length + l1.length) + 1 := by
      simp only [List.cons_append, List.length_cons, List.length_append]; omega
    rw [hlen, List.reverse_cons, ← List.append_assoc, flushWith_concat, hd]
    simp only
    have := ih1 (rest ++ es.reverse) (fuel + l2.length)
    rw [List.reverse_reverse] at this
    exact this.trans (ih2 rest fuel)

theorem flushWith_complete {w es wd log} (h : DfsLog deliver w es wd log) (fuel : Nat) (hf : log.length < fuel) :
    (flushWith deliver fuel).run.run { w with queue := es.reverse } =
      (.ok (), { wd with queue := [], arenaEpoch := wd.arenaEpoch + 1 }) := by
  obtain ⟨k, rfl⟩ : ∃ k, fuel = (k + 1) + log.length := ⟨fuel - log.length - 1, by omega⟩
  have := h.run [] (k + 1)
  rw [List.nil_append] at this
  rw [this, flushWith_nil]

end Evenio
