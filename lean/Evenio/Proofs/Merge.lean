import Evenio.Model.Query
import Evenio.Proofs.AccessSem
/-! Sortedness of cases (`Case.sorted`: strictly increasing component indices), its preservation by
    the merge loop of `ComponentAccess::and`, and the pointwise description of the merge result
    (`mergeCase_look`).  Well-formedness `CA.WF` (every case strictly sorted) is preserved by every
    `ComponentAccess` operation and holds for every `Query.init q`. -/
namespace Evenio

/-- all keys of `c` are `>` a bound -/
def Case.keysGt (b : Nat) (c : Case) : Prop := ∀ p ∈ c, b < p.1

/-- strictly increasing keys -/
def Case.sorted : Case → Prop
  | [] => True
  | (i, _) :: c => Case.keysGt i c ∧ Case.sorted c

/-- the literal of a case at component `i` (first occurrence; the only one in a sorted case) -/
def Case.look (c : Case) (i : Nat) : Option CaseAccess := (c.find? (·.1 == i)).map (·.2)

/-- pointwise combination of two optional literals -/
def combO : Option CaseAccess → Option CaseAccess → Option CaseAccess
  | none, b => b
  | a, none => a
  | some a, some b => combine a b

theorem look_of_keysGt {b i : Nat} {c : Case} (h : c.keysGt b) (hi : i ≤ b) : c.look i = none := by
  unfold Case.look
  rw [List.find?_eq_none.mpr]; · rfl
  intro p hp; have := h p hp; simp; omega

theorem keysGt_mono {a b : Nat} {c : Case} (h : c.keysGt b) (hab : a ≤ b) : c.keysGt a :=
  fun p hp => Nat.lt_of_le_of_lt hab (h p hp)

@[simp] theorem keysGt_nil (b : Nat) : Case.keysGt b [] := fun _ h => by simp at h
@[simp] theorem sorted_nil : Case.sorted [] := trivial
@[simp] theorem sorted_singleton (i : Nat) (a : CaseAccess) : Case.sorted [(i, a)] := ⟨keysGt_nil i, trivial⟩

theorem mergeCase_keysGt {b : Nat} {l r c : Case} (hl : l.keysGt b) (hr : r.keysGt b)
    (h : mergeCase l r = some c) : c.keysGt b := by
  fun_induction mergeCase l r generalizing c with
  | case1 r => simp_all
  | case2 l _ => simp_all
  | case3 li la l ri ra r hlt ih =>
    simp only [Option.map_eq_some_iff] at h
    obtain ⟨c', hc', rfl⟩ := h
    intro p hp
    rcases List.mem_cons.mp hp with rfl | hp
    · exact hl _ (List.mem_cons_self ..)
    · exact ih (fun p hp => hl p (List.mem_cons_of_mem _ hp)) hr hc' p hp
  | case4 la l ri ra r hc hlt => simp_all
  | case5 la l ri ra r a hc hlt ih =>
    simp only [Option.map_eq_some_iff] at h
    obtain ⟨c', hc', rfl⟩ := h
    intro p hp
    rcases List.mem_cons.mp hp with rfl | hp
    · exact hl (ri, la) (List.mem_cons_self ..)
    · exact ih (fun p hp => hl p (List.mem_cons_of_mem _ hp)) (fun p hp => hr p (List.mem_cons_of_mem _ hp)) hc' p hp
  | case6 li la l ri ra r hlt hne ih =>
    simp only [Option.map_eq_some_iff] at h
    obtain ⟨c', hc', rfl⟩ := h
    intro p hp
    rcases List.mem_cons.mp hp with rfl | hp
    · exact hr _ (List.mem_cons_self ..)
    · exact ih hl (fun p hp => hr p (List.mem_cons_of_mem _ hp)) hc' p hp

/-- the merge loop of `and` keeps cases strictly sorted -/
theorem mergeCase_sorted {l r c : Case} (hl : l.sorted) (hr : r.sorted)
    (h : mergeCase l r = some c) : c.sorted := by
  fun_induction mergeCase l r generalizing c with
  | case1 r => simp_all
  | case2 l _ => simp_all
  | case3 li la l ri ra r hlt ih =>
    simp only [Option.map_eq_some_iff] at h
    obtain ⟨c', hc', rfl⟩ := h
    refine ⟨mergeCase_keysGt hl.1 ?_ hc', ih hl.2 hr hc'⟩
    intro p hp
    rcases List.mem_cons.mp hp with rfl | hp
    · exact hlt
    · exact Nat.lt_trans hlt (hr.1 p hp)
  | case4 la l ri ra r hc hlt => simp_all
  | case5 la l ri ra r a hc hlt ih =>
    simp only [Option.map_eq_some_iff] at h
    obtain ⟨c', hc', rfl⟩ := h
    exact ⟨mergeCase_keysGt hl.1 hr.1 hc', ih hl.2 hr.2 hc'⟩
  | case6 li la l ri ra r hlt hne ih =>
    simp only [Option.map_eq_some_iff] at h
    obtain ⟨c', hc', rfl⟩ := h
    have hgt : ri < li := by omega
    refine ⟨mergeCase_keysGt ?_ hr.1 hc', ih hl hr.2 hc'⟩
    intro p hp
    rcases List.mem_cons.mp hp with rfl | hp
    · exact hgt
    · exact Nat.lt_trans hgt (hl.1 p hp)

@[simp] theorem look_nil (i : Nat) : Case.look [] i = none := rfl
theorem look_cons (k : Nat) (a : CaseAccess) (c : Case) (i : Nat) :
    Case.look ((k, a) :: c) i = if k = i then some a else c.look i := by
  unfold Case.look
  by_cases h : k = i <;> simp [h]

theorem combO_none_right (a : Option CaseAccess) : combO a none = a := by cases a <;> rfl

/-- the literal of the merged case at `i` is the pointwise `combine` of the operands' literals -/
theorem mergeCase_look {l r c : Case} (hl : l.sorted) (hr : r.sorted)
    (h : mergeCase l r = some c) (i : Nat) : c.look i = combO (l.look i) (r.look i) := by
  fun_induction mergeCase l r generalizing c with
  | case1 r => simp_all [combO]
  | case2 l _ => simp_all [combO_none_right]
  | case3 li la l ri ra r hlt ih =>
    simp only [Option.map_eq_some_iff] at h
    obtain ⟨c', hc', rfl⟩ := h
    have ih' := ih hl.2 hr hc'
    rw [look_cons, look_cons li la l]
    by_cases hi : li = i
    · subst hi
      have : Case.look ((ri, ra) :: r) li = none :=
        look_of_keysGt (b := li) (fun p hp => by
          rcases List.mem_cons.mp hp with rfl | hp
          · exact hlt
          · exact Nat.lt_trans hlt (hr.1 p hp)) (Nat.le_refl _)
      simp [this, combO]
    · simp [hi, ih']
  | case4 la l ri ra r hc hlt => simp_all
  | case5 la l ri ra r a hc hlt ih =>
    simp only [Option.map_eq_some_iff] at h
    obtain ⟨c', hc', rfl⟩ := h
    have ih' := ih hl.2 hr.2 hc'
    rw [look_cons, look_cons ri la l, look_cons ri ra r]
    by_cases hi : ri = i
    · simp [hi, combO, hc]
    · simp [hi, ih']
  | case6 li la l ri ra r hlt hne ih =>
    simp only [Option.map_eq_some_iff] at h
    obtain ⟨c', hc', rfl⟩ := h
    have ih' := ih hl hr.2 hc'
    have hgt : ri < li := by omega
    rw [look_cons, look_cons ri ra r]
    by_cases hi : ri = i
    · subst hi
      have : Case.look ((li, la) :: l) ri = none :=
        look_of_keysGt (b := ri) (fun p hp => by
          rcases List.mem_cons.mp hp with rfl | hp
          · exact hgt
          · exact Nat.lt_trans hgt (hl.1 p hp)) (Nat.le_refl _)
      simp [this, combO]
    · simp [hi, ih']

/-! ### membership vs. lookup -/

theorem mem_of_look {c : Case} {i : Nat} {a : CaseAccess} (h : c.look i = some a) : (i, a) ∈ c := by
  induction c with
  | nil => simp at h
  | cons p c ih =>
    obtain ⟨k, x⟩ := p
    rw [look_cons] at h
    by_cases hk : k = i
    · simp [hk] at h; subst hk; subst h; exact List.mem_cons_self ..
    · simp [hk] at h; exact List.mem_cons_of_mem _ (ih h)

/-- in a sorted case every literal is the one found by `look` (one literal per component) -/
theorem look_of_mem {c : Case} (hs : c.sorted) {i : Nat} {a : CaseAccess} (h : (i, a) ∈ c) :
    c.look i = some a := by
  induction c with
  | nil => simp at h
  | cons p c ih =>
    obtain ⟨k, x⟩ := p
    rw [look_cons]
    rcases List.mem_cons.mp h with heq | hm
    · cases heq; simp
    · have : k < i := hs.1 _ hm
      have hk : k ≠ i := by omega
      simp [hk, ih hs.2 hm]

/-! ### canonical archetype of a sorted case -/

/-- the archetype consisting of exactly the positive literals of a case -/
def Case.canon (c : Case) : Nat → Bool := fun i =>
  match c.look i with
  | some a => positive a
  | none => false

/-- a sorted case is never contradictory: it is satisfied by its canonical archetype -/
theorem sat_canon {c : Case} (hs : c.sorted) : c.sat c.canon = true := by
  simp only [Case.sat, List.all_eq_true]
  intro p hp
  obtain ⟨i, a⟩ := p
  have := look_of_mem hs hp
  simp only [lit, Case.canon, this]
  cases positive a <;> rfl

theorem lit_of_sat {c : Case} {S : Nat → Bool} (h : c.sat S = true) {i : Nat} {a : CaseAccess}
    (hm : (i, a) ∈ c) : lit S (i, a) = true := by
  simp only [Case.sat, List.all_eq_true] at h
  exact h _ hm

/-- at a common component the merge succeeded only because `combine` did -/
theorem mergeCase_combine_some {l r c : Case} (hl : l.sorted) (hr : r.sorted)
    (h : mergeCase l r = some c) {i : Nat} {a b : CaseAccess}
    (ha : l.look i = some a) (hb : r.look i = some b) : ∃ x, combine a b = some x := by
  have hc := mergeCase_sorted hl hr h
  have hsat := sat_canon hc
  have hm := mergeCase_sat c.canon l r
  rw [h] at hm
  simp only [hsat] at hm
  have hm' : l.sat c.canon = true ∧ r.sat c.canon = true := by
    simpa using hm.symm
  have h1 := lit_of_sat hm'.1 (mem_of_look ha)
  have h2 := lit_of_sat hm'.2 (mem_of_look hb)
  have := combine_lit c.canon i a b
  cases hx : combine a b with
  | some x => exact ⟨x, rfl⟩
  | none => simp [hx, h1, h2] at this

/-! ### well-formedness -/

/-- every case strictly sorted -/
def CA.WF (ca : CA) : Prop := ∀ c ∈ ca, Case.sorted c

theorem wf_tt : CA.WF CA.tt := by intro c hc; simp [CA.tt] at hc; subst hc; trivial
theorem wf_ff : CA.WF CA.ff := by intro c hc; simp [CA.ff] at hc
theorem wf_var (i : Nat) (a : Access) : CA.WF (CA.var i a) := by
  intro c hc; simp [CA.var] at hc; subst hc; exact sorted_singleton ..

theorem mem_and {a b : CA} {c : Case} :
    c ∈ a.and b ↔ ∃ l ∈ a, ∃ r ∈ b, mergeCase l r = some c := by
  simp only [CA.and, List.mem_flatMap, List.mem_filterMap]
  constructor
  · rintro ⟨r, hr, l, hl, h⟩; exact ⟨l, hl, r, hr, h⟩
  · rintro ⟨l, hl, r, hr, h⟩; exact ⟨r, hr, l, hl, h⟩

theorem wf_and {a b : CA} (ha : a.WF) (hb : b.WF) : (a.and b).WF := by
  intro c hc
  obtain ⟨l, hl, r, hr, h⟩ := mem_and.mp hc
  exact mergeCase_sorted (ha l hl) (hb r hr) h

theorem wf_or {a b : CA} (ha : a.WF) (hb : b.WF) : (a.or b).WF := by
  intro c hc
  simp only [CA.or, List.mem_append] at hc
  rcases hc with hc | hc
  · exact ha c hc
  · exact hb c hc

theorem wf_negCase (c : Case) : CA.WF (c.map negLit) := by
  intro x hx
  simp only [List.mem_map] at hx
  obtain ⟨⟨i, a⟩, _, rfl⟩ := hx
  exact sorted_singleton ..

theorem wf_not_aux (ca acc : CA) (hacc : acc.WF) :
    (ca.foldl (fun acc c => acc.and (c.map negLit)) acc).WF := by
  induction ca generalizing acc with
  | nil => exact hacc
  | cons c ca ih => exact ih _ (wf_and hacc (wf_negCase c))

theorem wf_not (ca : CA) : ca.not.WF := wf_not_aux ca CA.tt wf_tt

theorem keysGt_map_snd {b : Nat} {c : Case} (f : CaseAccess → CaseAccess) (h : c.keysGt b) :
    Case.keysGt b (c.map fun (i, a) => (i, f a)) := by
  intro p hp
  simp only [List.mem_map] at hp
  obtain ⟨⟨i, a⟩, hm, rfl⟩ := hp
  exact h (i, a) hm

theorem sorted_map_snd {c : Case} (f : CaseAccess → CaseAccess) (h : c.sorted) :
    Case.sorted (c.map fun (i, a) => (i, f a)) := by
  induction c with
  | nil => trivial
  | cons p c ih =>
    obtain ⟨k, x⟩ := p
    exact ⟨keysGt_map_snd f h.1, ih h.2⟩

theorem wf_clearAccess {ca : CA} (h : ca.WF) : ca.clearAccess.WF := by
  intro c hc
  simp only [CA.clearAccess, List.mem_map] at hc
  obtain ⟨c', hc', rfl⟩ := hc
  exact sorted_map_snd clearLit (h c' hc')

/-- every access expression a query registers is well-formed -/
theorem wf_init (q : Query) : q.init.WF := by
  induction q with
  | ref c => exact wf_var c .read
  | «mut» c => exact wf_var c .readWrite
  | unit => exact wf_tt
  | snoc t q iht ihq => exact wf_and iht ihq
  | opt q ih => exact wf_or wf_tt ih
  | or l r ihl ihr => exact wf_or (wf_or ihl ihr) (wf_and ihl ihr)
  | xor l r ihl ihr => exact wf_or (wf_and ihl (wf_not _)) (wf_and ihr (wf_not _))
  | not q ih => exact wf_not _
  | wth q ih => exact wf_clearAccess ih
  | has q ih => exact wf_tt
  | eid => exact wf_tt
  | phantom => exact wf_tt

end Evenio
