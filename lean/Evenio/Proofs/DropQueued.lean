import Evenio.Proofs.Flush
/-! The unwinding path `dropQueued` (second half of `EventDropper::drop`), as a pure function on worlds. -/
namespace Evenio

/-- effect of `dropCell` on the ledger -/
def dropCellW (ty : Nat) (c : Cell) (w : World) : World :=
  if compNeedsDrop ty then { w with cdrops := (ty, c.ser) :: w.cdrops } else w

/-- effect of `dropEvent` on the ledger -/
def dropEventW (it : QItem) (w : World) : World :=
  match it.ty with
  | .g _ | .t _ => { w with edrops := it.pay.serial :: w.edrops }
  | .ins k => dropCellW k it.pay.cell w
  | _ => w

@[simp] theorem run_dropCell (ty : Nat) (c : Cell) (w : World) :
    (dropCell ty c).run.run w = (.ok (), dropCellW ty c w) := by
  unfold dropCell dropCellW
  split <;> rfl

@[simp] theorem run_dropEvent (it : QItem) (w : World) : (dropEvent it).run.run w = (.ok (), dropEventW it w) := by
  obtain ⟨ty, idx, tgt, pay⟩ := it
  cases ty <;> first | rfl | exact run_dropCell ..

/-- the registry entry the drop function of a queued event is looked up in -/
def World.evInfo (w : World) (q : QItem) : Option EvInfo :=
  if q.ty.targeted then (w.tevs.getByIndex q.idx).map (·.2) else (w.gevs.getByIndex q.idx).map (·.2)

def dropSite (q : QItem) : String :=
  if q.ty.targeted then "world.rs:EventDropper:targeted_events.get_by_index"
  else "world.rs:EventDropper:global_events.get_by_index"

/-- the loop of `dropQueued` as a recursive function -/
def dropLoop : List QItem → World → Except Err Unit × World
  | [], w => (.ok (), w)
  | q :: l, w =>
    match w.evInfo q with
    | none => (.error (.ub (dropSite q)), w)
    | some ei => dropLoop l (if ei.needsDrop then dropEventW q w else w)

/-- the body of the `for` loop of `dropQueued`, verbatim -/
def dropBody (q : QItem) (_ : PUnit) : M (ForInStep PUnit) := do
  let w ← get
  if q.ty.targeted = true then
    match w.tevs.getByIndex q.idx with
    | none => do
      ubErr "world.rs:EventDropper:targeted_events.get_by_index"
      pure (ForInStep.yield PUnit.unit)
    | some (_, ei) =>
      if ei.needsDrop = true then do
        dropEvent q
        pure (ForInStep.yield PUnit.unit)
      else pure (ForInStep.yield PUnit.unit)
  else
    match w.gevs.getByIndex q.idx with
    | none => do
      ubErr "world.rs:EventDropper:global_events.get_by_index"
      pure (ForInStep.yield PUnit.unit)
    | some (_, ei) =>
      if ei.needsDrop = true then do
        dropEvent q
        pure (ForInStep.yield PUnit.unit)
      else pure (ForInStep.yield PUnit.unit)

theorem dropQueued_eq :
    dropQueued = (do
      let w ← get
      forIn w.queue PUnit.unit dropBody
      modify fun w => { w with queue := [] }) := rfl

set_option linter.unusedSimpArgs false in
theorem run_dropBody (q : QItem) (u : PUnit) (w : World) :
    (dropBody q u).run.run w =
      match w.evInfo q with
      | none => (.error (.ub (dropSite q)), w)
      | some ei => (.ok (.yield PUnit.unit), if ei.needsDrop then dropEventW q w else w) := by
  unfold dropBody
  rw [run_bind, run_get]
  simp only [World.evInfo, dropSite]
  cases ht : q.ty.targeted
  · cases hg : w.gevs.getByIndex q.idx with
    | none => simp only [reduceIte, Bool.false_eq_true, Option.map_none, Option.map_some, ubErr, run_bind, run_throw, run_pure, run_dropEvent]
    | some p =>
      obtain ⟨k, ei⟩ := p
      cases hn : ei.needsDrop <;> simp only [hn, reduceIte, Bool.false_eq_true, Option.map_none, Option.map_some, ubErr, run_bind, run_throw, run_pure, run_dropEvent]
  · cases hg : w.tevs.getByIndex q.idx with
    | none => simp only [reduceIte, Bool.false_eq_true, Option.map_none, Option.map_some, ubErr, run_bind, run_throw, run_pure, run_dropEvent]
    | some p =>
      obtain ⟨k, ei⟩ := p
      cases hn : ei.needsDrop <;> simp only [hn, reduceIte, Bool.false_eq_true, Option.map_none, Option.map_some, ubErr, run_bind, run_throw, run_pure, run_dropEvent]

theorem dropLoop_forIn (l : List QItem) (w : World) :
    (forIn l PUnit.unit dropBody).run.run w =
      match dropLoop l w with
      | (.ok _, w') => (.ok PUnit.unit, w')
      | (.error e, w') => (.error e, w') := by
  induction l generalizing w with
  | nil => rfl
  | cons q l ih =>
    rw [List.forIn_cons, run_bind, run_dropBody]
    simp only [dropLoop]
    cases w.evInfo q with
    | none => rfl
    | some ei => exact ih _

theorem dropQueued_run (w : World) :
    dropQueued.run.run w =
      match dropLoop w.queue w with
      | (.ok _, w') => (.ok (), { w' with queue := [] })
      | (.error e, w') => (.error e, w') := by
  rw [dropQueued_eq, run_bind, run_get]
  simp only
  rw [run_bind, dropLoop_forIn]
  generalize dropLoop w.queue w = r
  obtain ⟨(e|a), w'⟩ := r <;> rfl

/-! ### consequences -/

theorem dropLoop_error_ub {l : List QItem} {w w' : World} {e : Err} (h : dropLoop l w = (.error e, w')) :
    ∃ s, e = .ub s := by
  induction l generalizing w with
  | nil => cases h
  | cons q l ih =>
    simp only [dropLoop] at h
    cases hq : w.evInfo q with
    | none => rw [hq] at h; cases h; exact ⟨_, rfl⟩
    | some ei => rw [hq] at h; exact ih h

/-- `dropQueued` itself fails only with `ub` (an event type that is no longer registered), never with a panic -/
theorem dropQueued_error_ub {w w' : World} {e : Err} (h : dropQueued.run.run w = (.error e, w')) :
    ∃ s, e = .ub s := by
  rw [dropQueued_run] at h
  generalize hr : dropLoop w.queue w = r at h
  obtain ⟨(e'|a), w1⟩ := r
  · cases h; exact dropLoop_error_ub hr
  · cases h

/-- on normal return of `dropQueued` nothing is queued -/
theorem dropQueued_ok_queue {w w' : World} (h : dropQueued.run.run w = (.ok (), w')) : w'.queue = [] := by
  rw [dropQueued_run] at h
  generalize dropLoop w.queue w = r at h
  obtain ⟨(e'|a), w1⟩ := r
  · cases h
  · cases h; rfl

/-- serial dropped for a queued user event (`G`/`T`) whose registry entry has a drop function -/
def World.dropsE (w : World) (q : QItem) : Option Nat :=
  match w.evInfo q with
  | some ei =>
    if ei.needsDrop then (match q.ty with | .g _ | .t _ => some q.pay.serial | _ => none) else none
  | none => none

/-- cell dropped for a queued `Insert` whose registry entry has a drop function and whose component needs one -/
def World.dropsC (w : World) (q : QItem) : Option (Nat × Nat) :=
  match w.evInfo q with
  | some ei =>
    if ei.needsDrop then
      (match q.ty with | .ins k => if compNeedsDrop k then some (k, q.pay.cell.ser) else none | _ => none)
    else none
  | none => none

theorem dropOne_eq {w : World} {q : QItem} {ei : EvInfo} (h : w.evInfo q = some ei) :
    (if ei.needsDrop then dropEventW q w else w) =
      { w with edrops := (w.dropsE q).toList ++ w.edrops, cdrops := (w.dropsC q).toList ++ w.cdrops } := by
  simp only [World.dropsE, World.dropsC, h]
  cases ei.needsDrop
  · rfl
  · obtain ⟨ty, idx, tgt, pay⟩ := q
    cases ty <;> try rfl
    rename_i k
    simp only [dropEventW, dropCellW]
    cases compNeedsDrop k <;> rfl

theorem dropLoop_spec (l : List QItem) (w : World) (h : ∀ q ∈ l, (w.evInfo q).isSome) :
    dropLoop l w = (.ok (), { w with
        edrops := (l.filterMap w.dropsE).reverse ++ w.edrops
        cdrops := (l.filterMap w.dropsC).reverse ++ w.cdrops }) := by
  induction l generalizing w with
  | nil => rfl
  | cons q l ih =>
    have hq := h q (List.mem_cons_self ..)
    obtain ⟨ei, hei⟩ := Option.isSome_iff_exists.mp hq
    simp only [dropLoop, hei]
    rw [dropOne_eq hei, ih]
    · have e1 : ({ w with edrops := (w.dropsE q).toList ++ w.edrops, cdrops := (w.dropsC q).toList ++ w.cdrops } : World).dropsE = w.dropsE := rfl
      have e2 : ({ w with edrops := (w.dropsE q).toList ++ w.edrops, cdrops := (w.dropsC q).toList ++ w.cdrops } : World).dropsC = w.dropsC := rfl
      simp only [e1, e2, List.filterMap_cons]
      cases w.dropsE q <;> cases w.dropsC q <;> simp
    · intro x hx
      exact h x (List.mem_cons_of_mem _ hx)

/-- `dropQueued` when every queued event's type is still registered: returns normally, clears the queue, extends
    `edrops` by exactly the serials of the queued user events whose registry entry has `needsDrop` and `cdrops` by the
    cells of the queued `Insert` events whose entry has `needsDrop` and whose component needs a destructor (both in
    queue order, most recent first in the ledger); nothing else changes. -/
theorem dropQueued_spec' (w : World) (h : ∀ q ∈ w.queue, (w.evInfo q).isSome) :
    dropQueued.run.run w =
      (.ok (), { w with
        queue := []
        edrops := (w.queue.filterMap w.dropsE).reverse ++ w.edrops
        cdrops := (w.queue.filterMap w.dropsC).reverse ++ w.cdrops }) := by
  rw [dropQueued_run, dropLoop_spec _ _ h]

end Evenio
