import Evenio.Proofs.Keeps
/-! Triples with a normal and an exceptional postcondition for the world monad: `Hoare P m Q E` — if `P` holds before,
    then `Q a` holds after a normal return with value `a`, and `E e` holds after `m` throws `e`. The `hoare2_inv`
    tactic proves triples whose precondition is kept as an invariant by every step. -/
namespace Evenio

structure Hoare {α : Type} (P : World → Prop) (m : M α) (Q : α → World → Prop) (E : Err → World → Prop) : Prop where
  run : ∀ w, P w →
    match m.run.run w with
    | (.ok a, w') => Q a w'
    | (.error e, w') => E e w'

namespace Hoare
variable {α β : Type} {P : World → Prop} {E : Err → World → Prop}

theorem ok {m : M α} {Q : α → World → Prop} (h : Hoare P m Q E) {w : World} (hw : P w) {a : α} {w' : World}
    (hr : m.run.run w = (.ok a, w')) : Q a w' := by
  have := h.run w hw; rw [hr] at this; exact this

theorem err {m : M α} {Q : α → World → Prop} (h : Hoare P m Q E) {w : World} (hw : P w) {e : Err} {w' : World}
    (hr : m.run.run w = (.error e, w')) : E e w' := by
  have := h.run w hw; rw [hr] at this; exact this

theorem pure {a : α} {Q : α → World → Prop} (h : ∀ w, P w → Q a w) : Hoare P (Pure.pure a : M α) Q E :=
  ⟨fun w hw => h w hw⟩

theorem throw {e : Err} {Q : α → World → Prop} (h : ∀ w, P w → E e w) : Hoare P (MonadExcept.throw e : M α) Q E :=
  ⟨fun w hw => h w hw⟩

theorem ubErr {s : String} {Q : α → World → Prop} (h : ∀ w, P w → E (.ub s) w) : Hoare P (Evenio.ubErr s : M α) Q E :=
  throw h

theorem bind {m : M α} {f : α → M β} {R : α → World → Prop} {Q : β → World → Prop}
    (hm : Hoare P m R E) (hf : ∀ a, Hoare (R a) (f a) Q E) : Hoare P (m >>= f) Q E := by
  refine ⟨fun w hw => ?_⟩
  rw [run_bind]
  have := hm.run w hw
  generalize m.run.run w = r at this
  obtain ⟨(e|a), w1⟩ := r
  · exact this
  · exact (hf a).run w1 this

theorem bind_inv {m : M α} {f : α → M β} {Q : β → World → Prop}
    (hm : Hoare P m (fun _ => P) E) (hf : ∀ a, Hoare P (f a) Q E) : Hoare P (m >>= f) Q E :=
  bind hm hf

theorem get_bind {f : World → M β} {Q : β → World → Prop} (hf : ∀ w, P w → Hoare P (f w) Q E) :
    Hoare P (MonadState.get >>= f) Q E := by
  refine ⟨fun w hw => ?_⟩
  rw [run_bind, run_get]
  exact (hf w hw).run w hw

theorem pre {P' : World → Prop} {m : M α} {Q : α → World → Prop} (h : Hoare P' m Q E) (hp : ∀ w, P w → P' w) :
    Hoare P m Q E :=
  ⟨fun w hw => h.run w (hp w hw)⟩

theorem post {m : M α} {Q Q' : α → World → Prop} {E' : Err → World → Prop} (h : Hoare P m Q E)
    (hq : ∀ a w, Q a w → Q' a w) (he : ∀ e w, E e w → E' e w) : Hoare P m Q' E' := by
  refine ⟨fun w hw => ?_⟩
  have := h.run w hw
  generalize m.run.run w = r at this
  obtain ⟨(e|a), w1⟩ := r
  · exact he _ _ this
  · exact hq _ _ this

/-- an invariant kept on every return -/
theorem of_keeps {m : M α} (h : Keeps P m) (hE : ∀ e w, P w → E e w) : Hoare P m (fun _ => P) E := by
  refine ⟨fun w hw => ?_⟩
  have := h.run w hw
  generalize m.run.run w = r at this
  obtain ⟨(e|a), w1⟩ := r
  · exact hE _ _ this
  · exact this

theorem tryCatch {m : M α} {h : Err → M α} {Q : α → World → Prop} {E1 : Err → World → Prop}
    (hm : Hoare P m Q E1) (hh : ∀ e, Hoare (E1 e) (h e) Q E) : Hoare P (MonadExcept.tryCatch m h) Q E := by
  refine ⟨fun w hw => ?_⟩
  rw [run_tryCatch]
  have := hm.run w hw
  generalize m.run.run w = r at this
  obtain ⟨(e|a), w1⟩ := r
  · exact (hh e).run w1 this
  · exact this

theorem forIn_list {γ : Type} {l : List γ} {b : β} {f : γ → β → M (ForInStep β)} (Inv : β → World → Prop)
    (hf : ∀ a b, Hoare (Inv b) (f a b) (fun r => Inv r.value) E) : Hoare (Inv b) (forIn l b f) Inv E := by
  induction l generalizing b with
  | nil => exact Hoare.pure fun _ h => h
  | cons a l ih =>
    rw [List.forIn_cons]
    refine bind (hf a b) fun r => ?_
    cases r with
    | done b => exact Hoare.pure fun _ h => h
    | yield b => exact ih

theorem forIn_list_inv {γ : Type} {l : List γ} {b : β} {f : γ → β → M (ForInStep β)}
    (hf : ∀ a b, Hoare P (f a b) (fun _ => P) E) : Hoare P (forIn l b f) (fun _ => P) E :=
  forIn_list (fun _ => P) hf

theorem forIn_range_inv {r : Std.Legacy.Range} {b : β} {f : Nat → β → M (ForInStep β)}
    (hf : ∀ a b, Hoare P (f a b) (fun _ => P) E) : Hoare P (forIn r b f) (fun _ => P) E := by
  rw [Std.Legacy.Range.forIn_eq_forIn_range']
  exact forIn_list_inv hf

theorem ite {c : Prop} [Decidable c] {t e : M α} {Q : α → World → Prop} (ht : Hoare P t Q E) (he : Hoare P e Q E) :
    Hoare P (if c then t else e) Q E := by
  split <;> assumption

end Hoare

/-- closes `∀ w, P w → Q a w` at a `pure` -/
syntax "hoare2_close" : tactic
macro_rules | `(tactic| hoare2_close) => `(tactic| first | exact fun _ h => h | exact fun _ h => ⟨h, rfl⟩ | exact fun _ _ => trivial)

/-- closes `∀ w, P w → E e w` at a `throw` and `∀ e w, P w → E e w` at a leaf; extended with `macro_rules` -/
syntax "hoare2_err" : tactic
macro_rules | `(tactic| hoare2_err) => `(tactic| first | exact fun _ h => h | exact fun _ _ h => h | exact fun _ _ => trivial | exact fun _ _ _ => trivial)

syntax "hoare2_leaf" : tactic
macro_rules | `(tactic| hoare2_leaf) => `(tactic| fail "no leaf triple")

syntax "hoare2_special" : tactic
macro_rules | `(tactic| hoare2_special) => `(tactic| fail "no special step")

syntax "hoare2_inv_step" : tactic
macro_rules
  | `(tactic| hoare2_inv_step) => `(tactic| first
      | ((with_reducible refine Hoare.pure ?_); hoare2_close)
      | ((with_reducible refine Hoare.throw ?_); hoare2_err)
      | ((with_reducible refine Hoare.ubErr ?_); hoare2_err)
      | with_reducible hoare2_leaf
      | hoare2_special
      | ((with_reducible refine Hoare.of_keeps ?k ?e); (case k => (keeps; done)); (case e => hoare2_err))
      | (with_reducible refine Hoare.get_bind (fun _ _ => ?_))
      | (with_reducible refine Hoare.bind_inv ?_ (fun _ => ?_))
      | (with_reducible refine Hoare.forIn_list_inv (fun _ _ => ?_))
      | (with_reducible refine Hoare.forIn_range_inv (fun _ _ => ?_))
      | (with_reducible refine Hoare.ite ?_ ?_)
      | dsimp only
      | split)

/-- prove `Hoare P m Q E` when every step of `m` keeps `P`, `Q` follows from `P` at every normal exit and `E` follows
    from `P` at every `throw` -/
macro "hoare2_inv" : tactic => `(tactic| repeat' hoare2_inv_step)

end Evenio
