import Evenio.Proofs.Inv.ReachPanic
/-!
# C01 — no `ub` / `assert` marker is reachable: shapes, combinators, the additional invariants

`Safe P m` — started in a state satisfying `P`, `m` never exits with `Err.ub _` / `Err.assert _` (if the final state is
`Small`; see `NoUB`).  `SafeK J m` — additionally the (guarded) invariant `J` holds again on normal return AND on panic
exits: the shape needed where an unwinding path goes on using the state (`flushWith`: `dropQueued` after a panic).

What `WInv` lacks for C01 (see `Plan.md`):

* `QInv` — every QUEUED item refers to a live slot of the registry its type selects, and an arena payload belongs to
  the current arena epoch.  It reads `queue gevs tevs arenaEpoch` only (through `World.frame`).
* `RecvInv` — the first parameter of every registered handler, if it carries a query, is the receiver: the scripted
  action `Act.recv` of the MODEL reads `h.params[0]` (finding N1: without it `ub fetch.rs:get_by_location_mut` is
  reachable by valid operations).  Reads the `kind`/`hasQ` of `handlers` only.
* outside a flush the queue is EMPTY (`QNil`, `Inv/QueueEmpty.lean`), so `QInv` is trivial there.
-/
namespace Evenio
open InvV7

/-! ## the shapes -/

/-- exceptional postcondition "the exit is a panic" — under the resource hypothesis on the FINAL state, like every
    statement about `WInv` (`Guarded`) -/
def NoUB : Err → World → Prop := fun e w => Small w → e.isPanic = true

/-- **`m` never runs into a `ub` / `assert` marker from `P`** -/
abbrev Safe {α : Type} (P : World → Prop) (m : M α) : Prop := Hoare P m (fun _ _ => True) NoUB

/-- exceptional postcondition "the exit is a panic and `J` holds" (guarded) -/
def PanicAnd (J : World → Prop) : Err → World → Prop := fun e w => Small w → e.isPanic = true ∧ J w

/-- **`m` keeps the guarded invariant `J` on normal return and on panic, and has no other exit** -/
abbrev SafeK {α : Type} (J : World → Prop) (m : M α) : Prop := Hoare (Guarded J) m (fun _ => Guarded J) (PanicAnd J)

theorem NoUB.of_panic {e : Err} {w : World} (h : e.isPanic = true) : NoUB e w := fun _ => h
theorem NoUB.absorb (e : Err) (w : World) (h : Small w → NoUB e w) : NoUB e w := fun hs => h hs hs
theorem PanicAnd.absorb {J : World → Prop} (e : Err) (w : World) (h : Small w → PanicAnd J e w) : PanicAnd J e w :=
  fun hs => h hs hs
theorem PanicAnd.noUB {J : World → Prop} {e : Err} {w : World} (h : PanicAnd J e w) : NoUB e w := fun hs => (h hs).1

namespace Safe
variable {α β : Type} {P : World → Prop}

theorem pure (a : α) : Safe P (Pure.pure a : M α) := Hoare.pure fun _ _ => trivial

/-- only panics may be thrown -/
theorem throw {e : Err} (h : e.isPanic = true) : Safe P (MonadExcept.throw e : M α) :=
  Hoare.throw fun _ _ => NoUB.of_panic h

/-- an unchecked site: its failure must contradict the precondition -/
theorem ubErr {s : String} (h : ∀ w, P w → False) : Safe P (Evenio.ubErr s : M α) :=
  Hoare.ubErr fun w hw => (h w hw).elim

theorem pre {P' : World → Prop} {m : M α} (h : Safe P' m) (hp : ∀ w, P w → P' w) : Safe P m := Hoare.pre h hp

/-- from any triple whose exceptional postcondition implies `NoUB` -/
theorem of_hoare {m : M α} {Q : α → World → Prop} {E : Err → World → Prop} (h : Hoare P m Q E)
    (hE : ∀ e w, E e w → NoUB e w) : Safe P m := Hoare.post h (fun _ _ _ => trivial) hE

/-- a program that never throws -/
theorem of_noError {m : M α} (h : ∀ w, P w → ∃ a w', m.run.run w = (.ok a, w')) : Safe P m :=
  ⟨fun w hw => by obtain ⟨a, w', hr⟩ := h w hw; rw [hr]; trivial⟩

/-- from a run-level statement -/
theorem of_run {m : M α} (h : ∀ w e w', P w → m.run.run w = (.error e, w') → Small w' → e.isPanic = true) :
    Safe P m := by
  refine ⟨fun w hw => ?_⟩
  generalize hr : m.run.run w = res
  obtain ⟨(e|a), w'⟩ := res
  · exact fun hs => h w e w' hw hr hs
  · trivial

/-- what `Safe` says about a run -/
theorem at_run {m : M α} (h : Safe P m) {w : World} (hw : P w) {e : Err} {w' : World}
    (hr : m.run.run w = (.error e, w')) (hs : Small w') : e.isPanic = true := h.err hw hr hs

/-- **dropping the guard**: `m` never shrinks the slab, so the resource bound of the final state holds in the initial
    state `w0`, which may be taken exact and unguarded -/
theorem unguard {J : World → Prop} {m : M α} (hmono : SlabMono m)
    (h : ∀ w0, Small w0 → J w0 → Safe (fun w => w = w0) m) : Safe (Guarded J) m :=
  Hoare.unguard hmono (fun _ _ _ => trivial) NoUB.absorb h

/-- **sequencing**: `Safe` of `m`, a normal-return triple of `m` (any exceptional postcondition), `Safe` of the
    continuation from what `m` establishes -/
theorem bind {m : M α} {f : α → M β} {R : α → World → Prop} {E : Err → World → Prop} (hm : Safe P m)
    (hR : Hoare P m R E) (hf : ∀ a, Safe (R a) (f a)) : Safe P (m >>= f) :=
  Hoare.bind (Hoare.post (Hoare.and hm hR) (fun _ _ h => h.2) (fun _ _ h => h.1)) hf

/-- sequencing when the first program keeps the precondition -/
theorem bind_inv {m : M α} {f : α → M β} {E : Err → World → Prop} (hm : Safe P m) (hR : Hoare P m (fun _ => P) E)
    (hf : ∀ a, Safe P (f a)) : Safe P (m >>= f) := bind hm hR hf

/-- sequencing with a normal-return-only triple -/
theorem bind_ok {m : M α} {f : α → M β} {R : α → World → Prop} (hm : Safe P m) (hR : HoareOk P m R)
    (hf : ∀ a, Safe (R a) (f a)) : Safe P (m >>= f) := bind hm (Hoare.of_hoareOk hR) hf

theorem get_bind {f : World → M β} (hf : ∀ w, P w → Safe P (f w)) : Safe P (MonadState.get >>= f) :=
  Hoare.get_bind hf

/-- the continuation starts in exactly the state that was read -/
theorem get_bind_eq {f : World → M β} (hf : ∀ w, P w → Safe (fun w' => w' = w) (f w)) :
    Safe P (MonadState.get >>= f) := Hoare.get_bind_eq hf

theorem ite {c : Prop} [Decidable c] {t e : M α} (ht : Safe P t) (he : Safe P e) : Safe P (if c then t else e) :=
  Hoare.ite ht he

/-- a step that cannot fail and keeps the precondition (writes to fields `P` does not read) -/
theorem of_keeps_bind {m : M α} {f : α → M β} (hk : Keeps P m) (hm : Safe P m) (hf : ∀ a, Safe P (f a)) :
    Safe P (m >>= f) := bind_inv hm (Hoare.of_keeps (E := fun _ _ => True) hk fun _ _ _ => trivial) hf

/-- **loops**: a loop invariant `Inv b` kept on normal returns of the body, the body safe from it -/
theorem forIn_list {γ : Type} {l : List γ} {b : β} {f : γ → β → M (ForInStep β)} (Inv : β → World → Prop)
    {E : Err → World → Prop} (hk : ∀ a ∈ l, ∀ b, Hoare (Inv b) (f a b) (fun r => Inv r.value) E)
    (hs : ∀ a ∈ l, ∀ b, Safe (Inv b) (f a b)) : Safe (Inv b) (forIn l b f) :=
  of_hoare (Hoare.forIn_list_mem (E := NoUB) Inv fun a ha b =>
    Hoare.post (Hoare.and (hs a ha b) (hk a ha b)) (fun _ _ h => h.2) (fun _ _ h => h.1)) fun _ _ h => h

/-- the loop itself, as a triple that also returns the invariant (for `Safe.bind` after a loop) -/
theorem forIn_list_inv {γ : Type} {l : List γ} {b : β} {f : γ → β → M (ForInStep β)} (Inv : β → World → Prop)
    {E : Err → World → Prop} (hk : ∀ a ∈ l, ∀ b, Hoare (Inv b) (f a b) (fun r => Inv r.value) E)
    (hs : ∀ a ∈ l, ∀ b, Safe (Inv b) (f a b)) : Hoare (Inv b) (forIn l b f) Inv NoUB :=
  Hoare.forIn_list_mem (E := NoUB) Inv fun a ha b =>
    Hoare.post (Hoare.and (hs a ha b) (hk a ha b)) (fun _ _ h => h.2) (fun _ _ h => h.1)

theorem forIn_range {r : Std.Legacy.Range} {b : β} {f : Nat → β → M (ForInStep β)} (Inv : β → World → Prop)
    {E : Err → World → Prop} (hk : ∀ a b, Hoare (Inv b) (f a b) (fun r => Inv r.value) E)
    (hs : ∀ a b, Safe (Inv b) (f a b)) : Safe (Inv b) (forIn r b f) := by
  rw [Std.Legacy.Range.forIn_eq_forIn_range']
  exact forIn_list Inv (fun a _ b => hk a b) (fun a _ b => hs a b)

/-- **`tryCatch`**: the handler is only analysed for panics (`E1 e` is what the body guarantees after a panic); after
    a `ub` / `assert` exit of the body the final state is not `Small` (the handler never shrinks the slab), so nothing
    is to be shown -/
theorem tryCatch {m : M α} {h : Err → M α} {E1 : Err → World → Prop} (hm : Safe P m)
    (hE : Hoare P m (fun _ _ => True) E1) (hmono : ∀ e, SlabMono (h e))
    (hh : ∀ e, e.isPanic = true → Safe (E1 e) (h e)) : Safe P (MonadExcept.tryCatch m h) := by
  refine ⟨fun w hw => ?_⟩
  rw [run_tryCatch]
  have r1 := hm.run w hw
  have r2 := hE.run w hw
  generalize m.run.run w = r at r1 r2
  obtain ⟨(e|a), w1⟩ := r
  · by_cases hp : e.isPanic = true
    · exact (hh e hp).run w1 r2
    · dsimp only
      generalize hr : (h e).run.run w1 = res
      obtain ⟨(e'|a'), w2⟩ := res
      · exact fun hs => absurd (r1 ((hmono e).small hr hs)) hp
      · trivial
  · trivial

end Safe

namespace SafeK
variable {α β : Type} {J : World → Prop}

/-- **from the existing preservation theorem and `Safe`** -/
theorem of {m : M α} (hk : Hoare (Guarded J) m (fun _ => Guarded J) (PanicOnly (Guarded J))) (hs : Safe (Guarded J) m) :
    SafeK J m :=
  Hoare.post (Hoare.and hk hs) (fun _ _ h => h.1) fun _ _ h hsm => ⟨h.2 hsm, h.1 (h.2 hsm) hsm⟩

theorem safe {m : M α} (h : SafeK J m) : Safe (Guarded J) m := Safe.of_hoare h fun _ _ h => h.noUB

/-- the preservation part, in the shape of `KeepsG` -/
theorem keeps {m : M α} (h : SafeK J m) : Hoare (Guarded J) m (fun _ => Guarded J) (PanicOnly (Guarded J)) :=
  Hoare.post h (fun _ _ h => h) fun _ _ h _ hs => (h hs).2

theorem pure (a : α) : SafeK J (Pure.pure a : M α) := Hoare.pure fun _ h => h
theorem throw {e : Err} (h : e.isPanic = true) : SafeK J (MonadExcept.throw e : M α) :=
  Hoare.throw fun _ hw hs => ⟨h, hw hs⟩
theorem bind {m : M α} {f : α → M β} (hm : SafeK J m) (hf : ∀ a, SafeK J (f a)) : SafeK J (m >>= f) :=
  Hoare.bind_inv hm hf
theorem get_bind {f : World → M β} (hf : ∀ w, Guarded J w → SafeK J (f w)) : SafeK J (MonadState.get >>= f) :=
  Hoare.get_bind hf
theorem forIn_list {γ : Type} {l : List γ} {b : β} {f : γ → β → M (ForInStep β)} (hf : ∀ a b, SafeK J (f a b)) :
    SafeK J (forIn l b f) := Hoare.forIn_list_inv hf
theorem ite {c : Prop} [Decidable c] {t e : M α} (ht : SafeK J t) (he : SafeK J e) : SafeK J (if c then t else e) :=
  Hoare.ite ht he

/-- a step that keeps `Guarded J` on every exit and cannot fail -/
theorem of_keeps {m : M α} (hk : Keeps (Guarded J) m) (hs : Safe (Guarded J) m) : SafeK J m :=
  of (Hoare.of_keeps_panicOnly hk) hs

/-- **`tryCatch` with a handler that re-establishes / keeps the invariant after a panic** (the unwinding guards of
    `flushWith`, `deliverOne`, `sendGlobal`: they all rethrow) -/
theorem tryCatch {m : M α} {h : Err → M α} (hm : SafeK J m) (hmono : ∀ e, SlabMono (h e))
    (hh : ∀ e, e.isPanic = true → SafeK J (h e)) : SafeK J (MonadExcept.tryCatch m h) := by
  refine ⟨fun w hw => ?_⟩
  rw [run_tryCatch]
  have r1 := hm.run w hw
  generalize m.run.run w = r at r1
  obtain ⟨(e|a), w1⟩ := r
  · by_cases hp : e.isPanic = true
    · exact (hh e hp).run w1 fun hs => (r1 hs).2
    · dsimp only
      generalize hr : (h e).run.run w1 = res
      obtain ⟨(e'|a'), w2⟩ := res
      · exact fun hs => absurd (r1 ((hmono e).small hr hs)).1 hp
      · exact fun hs => absurd (r1 ((hmono e).small hr hs)).1 hp
  · exact r1

end SafeK

/-! ## the additional invariants -/

/-- a queued / in-flight item is deliverable in the frame `fr`: its index is a live slot of the registry its type
    selects (`world.rs:flush:*get_by_index`, `world.rs:EventDropper:*`), and an arena payload was allocated in the
    current epoch (`arena:use-after-reset`) -/
def ItemOK (fr : Frame) (q : QItem) : Prop :=
  (if q.ty.targeted = true then (fr.tevs.getByIndex q.idx).isSome = true
    else (fr.gevs.getByIndex q.idx).isSome = true) ∧
  ∀ x, q.pay.arena = some x → x.1 = fr.arenaEpoch

/-- every item of the list is deliverable -/
def QOK (fr : Frame) (Q : List QItem) : Prop := ∀ q ∈ Q, ItemOK fr q

/-- **the queue invariant**: reads `queue`, `gevs`, `tevs`, `arenaEpoch` -/
def QInv (w : World) : Prop := QOK w.frame w.queue

theorem QOK.nil (fr : Frame) : QOK fr [] := fun _ h => nomatch h
theorem QOK.append {fr : Frame} {a b : List QItem} (ha : QOK fr a) (hb : QOK fr b) : QOK fr (a ++ b) :=
  fun q hq => (List.mem_append.1 hq).elim (ha q) (hb q)
theorem QOK.snoc {fr : Frame} {a : List QItem} {q : QItem} (ha : QOK fr a) (hq : ItemOK fr q) : QOK fr (a ++ [q]) :=
  ha.append fun q' h => by cases List.mem_singleton.1 h; exact hq
theorem QOK.reverse {fr : Frame} {a : List QItem} (ha : QOK fr a) : QOK fr a.reverse :=
  fun q hq => ha q (List.mem_reverse.1 hq)
theorem QOK.of_getLast? {fr : Frame} {l : List QItem} {it : QItem} (h : QOK fr l) (hl : l.getLast? = some it) :
    ItemOK fr it ∧ QOK fr l.dropLast :=
  ⟨h it ((mem_queue_of_getLast? hl it).2 (.inr rfl)), fun q hq => h q ((mem_queue_of_getLast? hl q).2 (.inl hq))⟩

theorem QInv.of_qnil {w : World} (h : w.queue = []) : QInv w := by unfold QInv; rw [h]; exact QOK.nil _

/-- what the scripted actions of the MODEL assume about the parameter list of a registry entry (all three facts only
    depend on `h.core`, so cache refreshes keep them):
    * `first` — the first parameter, if it carries a query, is the receiver: `runAct … .recv` reads `h.params[0]`
      (finding N1);
    * `recvT` — a receiver parameter with a query belongs to a handler of a TARGETED event (`addHandler` rejects two
      receivers of different events: `multievent`), so it is only ever run with a real location;
    * `hasQ` — `Fetcher` / `Single` / `TrySingle` parameters carry a query (the cache invariant `CacheGroup` only
      speaks about parameters with `hasQ`) -/
structure HInfo.ParamsOK (h : HInfo) : Prop where
  first : ∀ pm, h.params[0]? = some pm → pm.hasQ = true → pm.kind = .recv
  recvT : ∀ pm ∈ h.params, pm.kind = .recv → pm.hasQ = true → h.recv.targeted = true
  hasQ : ∀ pm ∈ h.params, pm.kind = .fetch ∨ pm.kind = .single ∨ pm.kind = .trySingle → pm.hasQ = true

/-- … for every registered handler -/
def RecvInv' (H : SlotMap HInfo) : Prop := ∀ k h, H.get k = some h → h.ParamsOK
abbrev RecvInv (w : World) : Prop := RecvInv' w.handlers

/-- the corresponding restriction on handler specifications (the harness always lists the receiver first) -/
def HSpec.RecvFirst (hs : HSpec) : Prop :=
  match hs.params with
  | .fetch _ :: _ | .single _ :: _ | .trySingle _ :: _ => False
  | _ => True

/-- the operations C01 is proved for -/
def Op.SValid (op : Op) : Prop :=
  op.Valid ∧ match op with
    | .addh hs => hs.RecvFirst
    | _ => True

/-- **the queue-blind part of the C01 invariant** -/
def SMid (w : World) : Prop := WInvMid w ∧ RecvInv w
/-- **the C01 invariant inside a flush** -/
def SInv (w : World) : Prop := SMid w ∧ QInv w

abbrev GSM : World → Prop := Guarded SMid
abbrev GS : World → Prop := Guarded SInv

/-- **the C01 invariant outside a flush** (between the steps of the registration / removal functions): the queue is
    empty -/
abbrev MS : World → Prop := Guarded fun w => SMid w ∧ QNil w

/-- **the C01 invariant between top-level operations** -/
abbrev STop : World → Prop := Guarded fun w => (WInv w ∧ Quiescent w ∧ AuxInv w) ∧ RecvInv w

theorem SMid.winvMid {w : World} (h : SMid w) : WInvMid w := h.1
theorem SInv.winvMid {w : World} (h : SInv w) : WInvMid w := h.1.1
theorem SInv.winv {w : World} (h : SInv w) : WInv w := h.1.1.1
theorem GS.gw {w : World} (h : GS w) : GW w := fun hs => (h hs).1.1
theorem GSM.gw {w : World} (h : GSM w) : GW w := fun hs => (h hs).1
theorem GS.gsm {w : World} (h : GS w) : GSM w := fun hs => (h hs).1
theorem MS.gs {w : World} (h : MS w) : GS w := fun hs => ⟨(h hs).1, QInv.of_qnil (h hs).2⟩
theorem MS.gsm {w : World} (h : MS w) : GSM w := fun hs => (h hs).1
theorem STop.ms {w : World} (h : STop w) : MS w :=
  fun hs => ⟨⟨⟨(h hs).1.1, (h hs).1.2.1.reservedSome⟩, (h hs).2⟩, (h hs).1.2.1.1⟩
theorem STop.gqa {w : World} (h : STop w) : GQA AuxInv w := fun hs => (h hs).1

/-! ## conjoining an invariant kept on every exit (`Keeps`: `RecvInv`, `AuxInv`, a frame) with a guarded triple -/

/-- a guarded preservation triple and a `Keeps` invariant, conjoined under the guard -/
theorem Guarded.and_keeps {α : Type} {J K : World → Prop} {m : M α} (hmono : SlabMono m)
    (hJ : Hoare (Guarded J) m (fun _ => Guarded J) (PanicOnly (Guarded J))) (hK : Keeps K m) :
    Hoare (Guarded fun w => J w ∧ K w) m (fun _ => Guarded fun w => J w ∧ K w)
      (PanicOnly (Guarded fun w => J w ∧ K w)) := by
  refine Hoare.unguard hmono (fun _ => guarded_absorb) panicOnly_guarded_absorb fun w0 _ hw0 => ⟨fun w h => ?_⟩
  subst h
  have r1 := hJ.run w fun _ => hw0.1
  have r2 := hK.run w hw0.2
  generalize m.run.run w = res at r1 r2
  obtain ⟨(e|a), w'⟩ := res
  · exact fun hp hs => ⟨r1 hp hs, r2⟩
  · exact fun hs => ⟨r1 hs, r2⟩

/-- … and the empty queue (`QE`, Inv/QueueEmpty.lean), on normal returns -/
theorem Guarded.and_qe {α : Type} {J : World → Prop} {m : M α} {E : Err → World → Prop} (hmono : SlabMono m)
    (hJ : Hoare (Guarded J) m (fun _ => Guarded J) E) (hq : QE m) :
    Hoare (Guarded fun w => J w ∧ QNil w) m (fun _ => Guarded fun w => J w ∧ QNil w) (fun _ _ => True) := by
  refine Hoare.unguard hmono (fun _ => guarded_absorb) (fun _ _ _ => trivial) fun w0 _ hw0 => ⟨fun w h => ?_⟩
  subst h
  have r1 := hJ.run w fun _ => hw0.1
  have r2 := hq.run w hw0.2
  generalize m.run.run w = res at r1 r2
  obtain ⟨(e|a), w'⟩ := res
  · trivial
  · exact fun hs => ⟨r1 hs, r2⟩

/-! ## tactic support

`safe_step` / `safe`: structural walk for goals `Safe P m` (more generally `Hoare P m Q NoUB`) where EVERY step keeps
the precondition `P` — typically `P = SAME w0` (nothing is written before the last step) or a loop invariant.  Leaves:
`pure`, `throw (.panic _)`, an assumption, a registered `safe_leaf`; `ubErr` and `dbgAssert` sites are left to the user as
goals `∀ w, P w → False` resp. as the remaining triple.  Register lemmas with
`macro_rules | `(tactic| safe_leaf) => `(tactic| exact my_lemma _ _)`. -/

syntax "safe_leaf" : tactic
macro_rules | `(tactic| safe_leaf) => `(tactic| fail "no safe leaf")

syntax "safe_step" : tactic
macro_rules
  | `(tactic| safe_step) => `(tactic| first
      | assumption
      | (with_reducible exact Safe.pure _)
      | (with_reducible exact Safe.throw rfl)
      | with_reducible safe_leaf
      | (with_reducible refine Safe.ubErr ?_)
      | (with_reducible refine Safe.get_bind (fun _ _ => ?_))
      | (with_reducible refine Safe.ite ?_ ?_)
      | dsimp only
      | split)

/-- walk a program all of whose binds are `get >>= _`, `if`, `match` down to its leaves -/
macro "safe" : tactic => `(tactic| repeat' safe_step)

end Evenio
