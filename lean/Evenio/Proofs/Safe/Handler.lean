import Evenio.Proofs.Safe.HandlerAux
/-!
# C01, worker W3 — caches and handler actions (section C of `Safe/Obligations.lean`)

Closed as stated (`theorem <name> : SObl.<name>`, no extra hypotheses): `itemAt_safe`, `paramGet_safe`, `paramRows_safe`,
`paramRows_rows`, `bumpRows_pre`, `senderPush_qinv`, `runAct_safeK`, `runHandler_safeK`.

**`SObl.runHandler_ctx` is FALSE as stated** (`runHandler_ctx_false`, concrete witness `SafeS3.cexW`): it is a `Keeps`
statement from ANY world, and — exactly like `SObl.bumpCell_bumpPre` (W2) — `bumpCell ai …` writes the archetype it read
at slab position `ai` back to position `a.index`; in a world where an archetype is not stored under its own index the
`.bump` action clobbers the archetype at `loc.arch`, whose component set the listener filter of `RunCtx` speaks about.
Corrected variants, all proved here:

* `runHandler_ctx' : Keeps (fun w => IndexOk w ∧ RunCtx hk' it loc w) (runHandler hk it loc)` — the missing hypothesis
  is `IndexOk`, a conjunct of the invariant (`WInv.storeOk.idx`), and it is kept too;
* `runHandler_ctx_guarded : Keeps (Guarded fun w => WInvMid w ∧ ∀ hk' ∈ hs, RunCtx hk' it loc w) (runHandler hk it loc)`
  — the guarded form, for a list, on every exit;
* `runHandler_safeK_ctx` — `runHandler_safeK` with `∀ hk' ∈ hs, RunCtx hk' it loc w` carried along in pre- and
  postcondition.  This is literally the loop invariant of `SObl.handlerLoop_safeK` (W4: `Guarded (SInv ∧ ∀ hk ∈ hs,
  RunCtx …)`), so W4's `handlerLoop` needs nothing else: at the call site `IndexOk` comes from `SInv` (→ `WInv`).

How the triples are built (`SafeS3.assemble`).  A program `m` of the handler phase has four independent properties:
1. `Keeps GW m` — `WInvMid` on EVERY exit (exists: `runAct_gw`, `runHandler_gw` with `pieces.kw_reserve/kw_bumpCell`);
2. `Keeps (CX H E n f) m` — handler table, entity map, arena epoch literally unchanged, archetypes stay under their own
   index and keep their component sets (⇒ `RecvInv`, `RunCtx`); `Safe/HandlerAux.lean`, structural `keeps` walk;
3. `Keeps (QP fr H) m` — frame and handler table unchanged, the queue only grows by deliverable items (⇒ `QInv`); the
   index of a pushed item comes from `h.sends` (`HandlerRefs.sendsG/T` ⇒ `SendsOK`), an arena payload is stamped with
   the current epoch (`.alloc`) or copied from the in-flight item (`.fwd`, `RunCtx.arena`);
4. `Safe (· = w0) m` from the exact initial state (`runAct_safe0`, `runHandler_safe0`): all reads (`paramRows`,
   `itemAt`, `paramGet`, the receiver's cache) happen in the state the action was started in (`Reads` / `ReadsP`
   calculus), except the bump double loop (`bumpLoop_safe`: invariant `IndexOk ∧ every cell of the precomputed list
   satisfies BumpPre`, kept by `SafeS2.bumpCell_bumpPre_list`).
`fetch.rs:get_by_location_mut`: `SafeS3.recv_cache` (`ParamsOK.first/.recvT`, `RunCtx`, `HInfo.FilterOk.matches`,
`init_matches`, `archState_eq_some`, `read_winv`, `cache_entry_winv`).
-/
namespace Evenio
open InvV7


namespace SafeS3

/-! ## reads that may panic -/

abbrev ReadsP {α : Type} (w0 : World) (m : M α) (Q : α → Prop) : Prop :=
  Hoare (fun w => w = w0) m (fun a w => w = w0 ∧ Q a) (fun e _ => e.isPanic = true)

section readsP
variable {α β : Type} {w0 : World}

theorem Reads.readsP {m : M α} {Q : α → Prop} (h : Reads w0 m Q) : ReadsP w0 m Q :=
  Hoare.post h (fun _ _ h => h) fun _ _ h => h.elim

theorem ReadsP.weaken {m : M α} {Q Q' : α → Prop} (h : ReadsP w0 m Q) (hq : ∀ a, Q a → Q' a) : ReadsP w0 m Q' :=
  Hoare.post h (fun _ _ h => ⟨h.1, hq _ h.2⟩) fun _ _ h => h

theorem ReadsP.pure {a : α} {Q : α → Prop} (h : Q a) : ReadsP w0 (Pure.pure a : M α) Q := Hoare.pure fun _ hw => ⟨hw, h⟩

theorem ReadsP.bind {m : M α} {f : α → M β} {R : α → Prop} {Q : β → Prop} (hm : ReadsP w0 m R)
    (hf : ∀ a, R a → ReadsP w0 (f a) Q) : ReadsP w0 (m >>= f) Q :=
  Hoare.bind hm fun a => Hoare.of_pre_prop (hf a)

theorem ReadsP.get_bind {f : World → M β} {Q : β → Prop} (hf : ReadsP w0 (f w0) Q) :
    ReadsP w0 (MonadState.get >>= f) Q :=
  Hoare.get_bind fun w hw => by subst hw; exact hf

theorem ReadsP.forIn {γ : Type} {l : List γ} {b : β} {f : γ → β → M (ForInStep β)}
    (h : ∀ a ∈ l, ∀ b, ReadsP w0 (f a b) (fun _ => True)) : ReadsP w0 (forIn l b f) (fun _ => True) :=
  Hoare.post (Hoare.forIn_list_mem (Inv := fun _ w => w = w0) fun a ha b =>
    Hoare.post (h a ha b) (fun _ _ h => h.1) fun _ _ h => h) (fun _ _ h => ⟨h, trivial⟩) fun _ _ h => h

theorem ReadsP.safe {m : M α} {Q : α → Prop} (h : ReadsP w0 m Q) : Safe (fun w => w = w0) m :=
  Safe.of_hoare h fun _ _ h => NoUB.of_panic h

/-- sequencing after a read -/
theorem safe_bind_reads {m : M α} {f : α → M β} {Q : α → Prop} (h : ReadsP w0 m Q)
    (hf : ∀ a, Q a → Safe (fun w => w = w0) (f a)) : Safe (fun w => w = w0) (m >>= f) :=
  Safe.bind h.safe h fun a => Hoare.of_pre_prop (hf a)

theorem getParam_readsP (h : HInfo) (p : Nat) : ReadsP w0 (getParam h p) (fun pm => h.params[p]? = some pm) := by
  unfold getParam
  split
  · next x hx => exact Hoare.pure fun _ hw => ⟨hw, hx⟩
  · exact Hoare.throw fun _ _ => rfl

theorem getArch_reads {i : Nat} {a : Arch} (s : String) (ha : w0.archs.get i = some a) :
    ReadsP w0 (getArch i s) (fun b => b = a) :=
  ⟨fun w hw => by subst hw; rw [run_getArch _ ha]; exact ⟨rfl, rfl⟩⟩

end readsP

/-! ## programs without any unchecked site -/

abbrev SafeT {α : Type} (m : M α) : Prop := Safe (fun _ => True) m

theorem SafeT.bind {α β : Type} {m : M α} {f : α → M β} (hm : SafeT m) (hf : ∀ a, SafeT (f a)) : SafeT (m >>= f) :=
  Safe.bind_inv hm SafeS2.hoare_true hf

theorem SafeT.safe {α : Type} {P : World → Prop} {m : M α} (h : SafeT m) : Safe P m := Safe.pre h fun _ _ => trivial

theorem SafeT.forIn {β γ : Type} {l : List γ} {b : β} {f : γ → β → M (ForInStep β)} (h : ∀ a b, SafeT (f a b)) :
    SafeT (forIn l b f) :=
  Safe.forIn_list (fun _ _ => True) (fun _ _ _ => SafeS2.hoare_true) fun a _ b => h a b

theorem logT_safeT (s : String) : SafeT (logT s) := Safe.of_noError fun _ _ => ⟨_, _, rfl⟩
theorem freshE_safeT : SafeT freshE := Safe.of_noError fun _ _ => ⟨_, _, rfl⟩
theorem freshC_safeT : SafeT freshC := Safe.of_noError fun _ _ => ⟨_, _, rfl⟩
theorem push_safeT (it : QItem) : SafeT (push it) := Safe.of_noError fun _ _ => ⟨_, _, rfl⟩
theorem dropEvent_safeT (it : QItem) : SafeT (dropEvent it) := Safe.of_noError fun w _ => ⟨_, _, run_dropEvent it w⟩
theorem modify_safeT (f : World → World) : SafeT (modify f : M PUnit) := Safe.of_noError fun _ _ => ⟨_, _, rfl⟩
theorem set_safeT (w : World) : SafeT (set w : M PUnit) := Safe.of_noError fun _ _ => ⟨_, _, rfl⟩
theorem takeBudget_safeT : SafeT takeBudget := by
  unfold takeBudget
  refine Safe.get_bind fun w _ => ?_
  split
  · exact Safe.pure _
  · exact SafeT.bind (set_safeT _) fun _ => Safe.pure _

syntax "safeT_step" : tactic
macro_rules
  | `(tactic| safeT_step) => `(tactic| first
      | (with_reducible exact Safe.pure _)
      | (with_reducible exact Safe.throw rfl)
      | exact logT_safeT _
      | exact freshE_safeT
      | exact freshC_safeT
      | exact push_safeT _
      | exact dropEvent_safeT _
      | exact modify_safeT _
      | exact set_safeT _
      | exact takeBudget_safeT
      | exact senderPush_safe _ _
      | exact reserve_safe
      | (with_reducible refine Safe.get_bind (fun _ _ => ?_))
      | (with_reducible refine SafeT.bind ?_ (fun _ => ?_))
      | (with_reducible refine SafeT.forIn (fun _ _ => ?_))
      | (with_reducible refine Safe.ite ?_ ?_)
      | dsimp only
      | split)

/-- walk a program that has no unchecked site -/
macro "safeT" : tactic => `(tactic| repeat' safeT_step)

/-! ## the receiver's cache holds the archetype of the target (`fetch.rs:get_by_location_mut`) -/

theorem recv_cache {w : World} (hW : WInv w) {hk : Key} {h : HInfo} (hh : w.handlers.get hk = some h) {pm : Param}
    (hmem : pm ∈ h.params) (hkind : pm.kind = .recv) (hq : pm.hasQ = true) (ht : h.recv.targeted = true) {e : Key}
    {loc : Loc} (hent : w.entities.get e = some loc) {a : Arch} (ha : w.archs.get loc.arch = some a)
    (hm : h.filter.matches a.S = true) :
    ∃ st, pm.q.archState a.S = some st ∧ pm.cache.get loc.arch = some (st, a.epoch) ∧ loc.row < a.ids.length := by
  have hf : h.FilterOk := (hW.lists.handler hk h hh).filter
  have hall := hf.matches ht a.S
  rw [hm] at hall
  have hrecv : pm.isTRecv = true := by unfold Param.isTRecv; rw [hkind, hq]; rfl
  have hin : pm.q.init ∈ recvInits h.params := List.mem_map.2 ⟨pm, List.mem_filter.2 ⟨hmem, hrecv⟩, rfl⟩
  have hq' : pm.q.init.matches a.S = true := List.all_eq_true.1 hall.symm _ hin
  rw [init_matches] at hq'
  obtain ⟨st, hst⟩ := (archState_eq_some a.S pm.q).2 hq'
  obtain ⟨a', ha', hrow, -⟩ := ReachStore.read_winv hW hent
  rw [ha] at ha'; cases ha'
  have hlt : loc.row < a.ids.length := (List.getElem?_eq_some_iff.1 hrow).1
  refine ⟨st, hst, ?_, hlt⟩
  rw [ReachStore.cache_entry_winv hW hh hmem hq loc.arch, ha]
  dsimp only
  have : a.ids.isEmpty = false := by cases hi : a.ids with
    | nil => rw [hi] at hlt; cases hlt
    | cons _ _ => rfl
  rw [this, if_neg Bool.false_ne_true, hst]
  rfl

/-! ## `runAct` from the exact state it is started in -/

/-- the cells the bump loop is going to hit -/
def bumpList (rows : List (AS × Arch × Nat)) : List (Nat × Nat × Nat) :=
  rows.flatMap fun r => r.1.mutCols.map fun c => (r.2.1.index, r.2.2, c)

abbrev BumpInv (L : List (Nat × Nat × Nat)) : World → Prop :=
  fun w => IndexOk w ∧ ∀ t ∈ L, BumpPre t.1 t.2.1 t.2.2 w

theorem bumpLoop_safe (rows : List (AS × Arch × Nat)) :
    Safe (BumpInv (bumpList rows))
      (forIn rows PUnit.unit fun x (_ : PUnit) => do
        forIn x.fst.mutCols PUnit.unit fun c (_ : PUnit) => do
            bumpCell x.2.fst.index x.2.snd c
            pure (ForInStep.yield PUnit.unit)
        pure (ForInStep.yield PUnit.unit) : M PUnit) := by
  have hk : ∀ ai row c, Keeps (BumpInv (bumpList rows)) (bumpCell ai row c) := fun ai row c =>
    SafeS2.bumpCell_bumpPre_list ai row c _
  refine Safe.forIn_list (fun _ => BumpInv (bumpList rows)) (E := fun _ _ => True) (fun x _ _ => ?_) (fun x hx _ => ?_)
  · refine Hoare.of_keeps ?_ fun _ _ _ => trivial
    have := hk
    keeps
    exact this _ _ _
  · refine Safe.bind_inv (E := fun _ _ => True) ?_ ?_ fun _ => Safe.pure _
    · refine Safe.forIn_list (fun _ => BumpInv (bumpList rows)) (E := fun _ _ => True) (fun c _ _ => ?_)
        (fun c hc _ => ?_)
      · refine Hoare.of_keeps ?_ fun _ _ _ => trivial
        have := hk
        keeps
        exact this _ _ _
      · refine Safe.bind_inv (E := fun _ _ => True) ?_ (Hoare.of_keeps (hk _ _ _) fun _ _ _ => trivial)
          fun _ => Safe.pure _
        refine Safe.pre (bumpCell_safe _ _ _) fun w hw => hw.2 (x.2.1.index, x.2.2, c) ?_
        exact List.mem_flatMap.2 ⟨x, hx, List.mem_map.2 ⟨c, hc, rfl⟩⟩
    · refine Hoare.of_keeps ?_ fun _ _ _ => trivial
      have := hk
      keeps
      exact this _ _ _

theorem runAct_safe0 {w0 : World} (hI : SInv w0) {hk : Key} {it : QItem} {loc : Loc} (hc : RunCtx hk it loc w0)
    (act : Act) : Safe (fun w => w = w0) (runAct hk it loc act) := by
  have hW : WInv w0 := hI.winv
  unfold runAct
  refine Safe.get_bind fun w hw => ?_
  subst hw
  split
  · next h hh =>
    have hpo : h.ParamsOK := hI.1.2 hk h hh
    cases act
    case iter p =>
      dsimp only
      refine safe_bind_reads (getParam_readsP h p) fun pm hpm => ?_
      have hmem : pm ∈ h.params := List.mem_of_getElem? hpm
      split
      · exact Safe.pure _
      · next hkind =>
        have hkd : pm.kind = .fetch := by simpa using hkind
        have hq := hpo.hasQ pm hmem (.inl hkd)
        refine safe_bind_reads (paramRows_reads hW hh hmem hq).readsP fun rows hrows => ?_
        refine safe_bind_reads (Q := fun _ => True) (ReadsP.forIn fun x hx b => ?_) fun items _ => ?_
        · obtain ⟨h1, h2, h3⟩ := hrows x hx
          exact ReadsP.bind (itemAt_reads hW h1 h2 h3).readsP fun i _ =>
            ReadsP.get_bind (ReadsP.pure trivial)
        · exact SafeT.safe (by safeT)
    case bump p =>
      dsimp only
      refine safe_bind_reads (getParam_readsP h p) fun pm hpm => ?_
      have hmem : pm ∈ h.params := List.mem_of_getElem? hpm
      split
      · exact Safe.pure _
      · next hkind =>
        have hkd : pm.kind = .fetch := by simpa using hkind
        have hq := hpo.hasQ pm hmem (.inl hkd)
        refine safe_bind_reads (paramRows_reads hW hh hmem hq).readsP fun rows hrows => ?_
        refine Safe.bind (R := fun _ _ => True) (E := fun _ _ => True) ?_ SafeS2.hoare_true fun _ => Safe.pure _
        refine Safe.pre (bumpLoop_safe rows) fun w hw => ?_
        subst hw
        refine ⟨hW.storeOk.idx, fun t ht => ?_⟩
        obtain ⟨r, hr, htr⟩ := List.mem_flatMap.1 ht
        obtain ⟨c, hc, rfl⟩ := List.mem_map.1 htr
        obtain ⟨h1, h2, h3⟩ := hrows r hr
        exact bumpPre_of_row hW h1 h2 h3 hc
    case get p tg =>
      dsimp only
      refine safe_bind_reads (getParam_readsP h p) fun pm hpm => ?_
      have hmem : pm ∈ h.params := List.mem_of_getElem? hpm
      split
      · exact Safe.pure _
      · next hkind =>
        have hkd : pm.kind = .fetch := by simpa using hkind
        have hq := hpo.hasQ pm hmem (.inl hkd)
        refine safe_bind_reads (paramGet_reads hW hh hmem hq _).readsP fun r _ => ?_
        exact SafeT.safe (by safeT)
    case getMany p tgs =>
      dsimp only
      refine safe_bind_reads (getParam_readsP h p) fun pm hpm => ?_
      have hmem : pm ∈ h.params := List.mem_of_getElem? hpm
      split
      · exact Safe.pure _
      · next hkind =>
        have hkd : pm.kind = .fetch := by simpa using hkind
        have hq := hpo.hasQ pm hmem (.inl hkd)
        split
        · exact SafeT.safe (by safeT)
        · refine safe_bind_reads (Q := fun _ => True) (ReadsP.forIn fun id _ b => ?_) fun r _ => ?_
          · split
            · refine ReadsP.bind (paramGet_reads hW hh hmem hq id).readsP fun r _ => ?_
              split
              · exact ReadsP.get_bind (ReadsP.pure trivial)
              · exact ReadsP.pure trivial
            · exact ReadsP.pure trivial
          · exact SafeT.safe (by safeT)
    case single p =>
      dsimp only
      refine safe_bind_reads (getParam_readsP h p) fun pm hpm => ?_
      have hmem : pm ∈ h.params := List.mem_of_getElem? hpm
      split
      · exact Safe.pure _
      · next hkind =>
        have hkd : pm.kind = .single ∨ pm.kind = .trySingle := by
          cases hk' : pm.kind <;> simp [hk'] at hkind ⊢
        have hq := hpo.hasQ pm hmem (.inr hkd)
        refine safe_bind_reads (paramRows_reads hW hh hmem hq).readsP fun rows hrows => ?_
        split
        · next st a row =>
          obtain ⟨h1, h2, h3⟩ := hrows (st, a, row) (List.mem_singleton.2 rfl)
          refine safe_bind_reads (itemAt_reads hW h1 h2 h3).readsP fun i _ => ?_
          exact SafeT.safe (by safeT)
        · exact SafeT.safe (by safeT)
        · exact SafeT.safe (by safeT)
    case recv =>
      dsimp only
      split
      · next pm hpm =>
        have hmem : pm ∈ h.params := List.mem_of_getElem? hpm
        split
        · next hq =>
          have hkind := hpo.first pm hpm hq
          have ht := hpo.recvT pm hmem hkind hq
          obtain ⟨h', hh', hctx⟩ := hc.live
          rw [hh] at hh'; cases hh'
          obtain ⟨hent, a, ha, hm⟩ := hctx ht
          obtain ⟨st, hst, hcache, hrow⟩ := recv_cache hW hh hmem hkind hq ht hent ha hm
          split
          · next hnone => rw [hcache] at hnone; cases hnone
          · next st' ep hsome =>
            rw [hcache] at hsome; cases hsome
            refine safe_bind_reads (getArch_reads _ ha) fun a' ha' => ?_
            subst ha'
            refine safe_bind_reads (itemAt_reads hW ha hrow hst).readsP fun i _ => ?_
            exact SafeT.safe (by safeT)
        · exact SafeT.safe (by safeT)
      · exact Safe.pure _
    all_goals exact SafeT.safe (by safeT)
  · next hnone =>
    obtain ⟨h, hh, -⟩ := hc.live
    exact absurd hh (hnone h)

/-! ## assembling the invariant from its independently kept parts -/

/-- `RunCtx` only reads what `CX` fixes -/
theorem runCtx_of_cx {w w' : World} {hk : Key} {it : QItem} {loc : Loc} (hc : RunCtx hk it loc w)
    (h : CX w.handlers w.entities w.arenaEpoch (fun i => (w.archs.get i).map Arch.comps) w') :
    RunCtx hk it loc w' := by
  obtain ⟨h1, h2, h3, -, h5⟩ := h
  obtain ⟨hi, hh, hctx⟩ := hc.live
  refine ⟨⟨hi, by rw [h1]; exact hh, fun ht => ?_⟩, fun x hx => by rw [h3]; exact hc.arena x hx⟩
  obtain ⟨hent, a, ha, hm⟩ := hctx ht
  refine ⟨by rw [h2]; exact hent, ?_⟩
  have : (w'.archs.get loc.arch).map Arch.comps = (w.archs.get loc.arch).map Arch.comps := h5 loc.arch
  rw [ha] at this
  cases ha' : w'.archs.get loc.arch with
  | none => rw [ha'] at this; cases this
  | some a' =>
    rw [ha'] at this
    have hcs : a'.comps = a.comps := by simpa using this
    exact ⟨a', rfl, by rw [C10.S_congr hcs]; exact hm⟩

theorem cx_self (w : World) (hidx : IndexOk w) :
    CX w.handlers w.entities w.arenaEpoch (fun i => (w.archs.get i).map Arch.comps) w :=
  ⟨rfl, rfl, rfl, hidx, fun _ => rfl⟩

/-- `SInv` from the three parts -/
theorem sinv_of_parts {w w' : World} (hI : SInv w) (h1 : WInvMid w') (h2 : w'.handlers = w.handlers)
    (h3 : QP w.frame w.handlers w') : SInv w' := by
  refine ⟨⟨h1, ?_⟩, ?_⟩
  · show RecvInv' w'.handlers
    rw [h2]; exact hI.1.2
  · show QOK w'.frame w'.queue
    rw [h3.1]; exact h3.2.2

theorem sendsOK_of_winv {w : World} (hW : WInv w) : ∀ k h, w.handlers.get k = some h → SendsOK w.frame h :=
  fun k h hk => SendsOK.of_refs (C := w.comps) (hW.registry.handlerRefs k h hk)

/-- a program of the handler phase: from its four independent properties to the `SafeK`-like triple -/
theorem assemble {α : Type} {m : M α} {hk : Key} {it : QItem} {loc : Loc} (hmono : SlabMono m) (hgw : Keeps GW m)
    (hcx : ∀ H E n f, Keeps (CX H E n f) m)
    (hqp : ∀ fr H, (∀ k h, H.get k = some h → SendsOK fr h) → (∀ x, it.pay.arena = some x → x.1 = fr.arenaEpoch) →
      Keeps (QP fr H) m)
    (hsafe : ∀ w0, SInv w0 → RunCtx hk it loc w0 → Safe (fun w => w = w0) m) :
    Hoare (Guarded fun w => SInv w ∧ RunCtx hk it loc w) m (fun _ => Guarded fun w => SInv w ∧ RunCtx hk it loc w)
      (PanicAnd SInv) := by
  refine Hoare.unguard hmono (fun _ => guarded_absorb) PanicAnd.absorb fun w0 _ hJ => ⟨fun w hw => ?_⟩
  subst hw
  obtain ⟨hI, hc⟩ := hJ
  have hW := hI.winv
  have r1 := hgw.run w fun _ => hI.winvMid
  have r2 := (hcx _ _ _ _).run w (cx_self w hW.storeOk.idx)
  have r3 := (hqp w.frame w.handlers (sendsOK_of_winv hW) hc.arena).run w ⟨rfl, rfl, hI.2⟩
  have r4 := (hsafe w hI hc).run w rfl
  generalize m.run.run w = res at r1 r2 r3 r4
  obtain ⟨(e|b), w'⟩ := res
  · exact fun hs => ⟨r4 hs, sinv_of_parts hI (r1 hs) r2.1 r3⟩
  · exact fun hs => ⟨sinv_of_parts hI (r1 hs) r2.1 r3, runCtx_of_cx hc r2⟩

/-! ## `runHandler` -/

/-- from reads at every exact state to a triple with an invariant -/
theorem hoare_of_reads {α : Type} {J : World → Prop} {m : M α} {Q : World → α → Prop}
    (h : ∀ w0, J w0 → ReadsP w0 m (Q w0)) :
    Hoare J m (fun a w => J w ∧ Q w a) (fun e _ => e.isPanic = true) := by
  refine ⟨fun w hw => ?_⟩
  have := (h w hw).run w rfl
  generalize m.run.run w = res at this
  obtain ⟨(e|a), w'⟩ := res
  · exact this
  · obtain ⟨rfl, hq⟩ := this; exact ⟨hw, hq⟩

theorem sinv_out {w : World} (h : SInv w) (o : Array String) : SInv { w with out := o } :=
  ⟨⟨WInvMid.frame h.1.1 (by releq) rfl rfl, h.1.2⟩, h.2⟩

/-- the state of the materialisation phase: the invariant, the context, the handler entry and the arena epoch that
    were read at the start -/
abbrev J1 (hk : Key) (it : QItem) (loc : Loc) (h : HInfo) (n : Nat) : World → Prop :=
  fun w => SInv w ∧ RunCtx hk it loc w ∧ w.handlers.get hk = some h ∧ w.arenaEpoch = n

theorem logT_j1 {hk : Key} {it : QItem} {loc : Loc} {h : HInfo} {n : Nat} (s : String) :
    Hoare (J1 hk it loc h n) (logT s) (fun _ => J1 hk it loc h n) (fun e _ => e.isPanic = true) :=
  ⟨fun _ hw => ⟨sinv_out hw.1 _, ⟨hw.2.1.live, hw.2.1.arena⟩, hw.2.2.1, hw.2.2.2⟩⟩

/-- the invariant of the body loop -/
abbrev GJ (hk : Key) (it : QItem) (loc : Loc) : World → Prop := Guarded fun w => SInv w ∧ RunCtx hk it loc w

theorem logT_gj {hk : Key} {it : QItem} {loc : Loc} (s : String) :
    Hoare (GJ hk it loc) (logT s) (fun _ => GJ hk it loc) (PanicAnd SInv) :=
  ⟨fun _ hw hs => ⟨sinv_out (hw hs).1 _, ⟨(hw hs).2.live, (hw hs).2.arena⟩⟩⟩

theorem throw_bind_gj {α β : Type} {hk : Key} {it : QItem} {loc : Loc} {s : String} {f : α → M β}
    {Q : β → World → Prop} : Hoare (GJ hk it loc) ((throw (Err.panic s) : M α) >>= f) Q (PanicAnd SInv) :=
  Hoare.bind (R := fun _ _ => False) (Hoare.throw fun _ hw hs => ⟨rfl, (hw hs).1⟩) fun _ => ⟨fun _ h => h.elim⟩

end SafeS3

/-! ## the obligations about reads -/

theorem itemAt_safe : SObl.itemAt_safe := fun _ st a row =>
  SafeS3.Reads.safe (Q := fun _ _ => True) (fun _ => itemAt_sl st a row) fun _ _ hJ =>
    SafeS3.itemAt_reads hJ.1.1 hJ.2.1 hJ.2.2.1 hJ.2.2.2

theorem paramGet_safe : SObl.paramGet_safe := fun _ _ p id =>
  SafeS3.Reads.safe (Q := fun _ _ => True) (fun _ => paramGet_sl p id) fun _ _ hJ =>
    SafeS3.paramGet_reads hJ.1.1 hJ.2.1 hJ.2.2.1 hJ.2.2.2 id

theorem paramRows_safe : SObl.paramRows_safe := fun _ _ p =>
  SafeS3.Reads.safe (Q := fun w rows => ∀ r ∈ rows, SafeS3.RowOK w p r) (fun _ => paramRows_sl p) fun _ _ hJ =>
    SafeS3.paramRows_reads hJ.1.1 hJ.2.1 hJ.2.2.1 hJ.2.2.2

theorem paramRows_rows : SObl.paramRows_rows := fun _ _ p =>
  HoareOk.post (SafeS3.Reads.hoareOk (Q := fun rows w => ∀ r ∈ rows, SafeS3.RowOK w p r) (fun _ => paramRows_sl p)
    fun _ _ hJ => SafeS3.paramRows_reads hJ.1.1 hJ.2.1 hJ.2.2.1 hJ.2.2.2) fun _ _ h hs => ⟨(h hs).1.1, (h hs).2⟩

theorem bumpRows_pre : SObl.bumpRows_pre := fun _ _ _ _ _ hw ha hrow hst _ hc =>
  SafeS3.bumpPre_of_row hw ha hrow hst hc

/-! ## C: handler execution -/

theorem senderPush_qinv : SObl.senderPush_qinv := fun h it => by
  refine Hoare.unguard (fun _ => senderPush_sl h it) (fun _ => guarded_absorb) PanicAnd.absorb
    fun w0 _ hJ => ⟨fun w hw => ?_⟩
  subst hw
  obtain ⟨hI, href, harena⟩ := hJ
  have r1 := (senderPush_gw h it).run w fun _ => hI.winvMid
  have r2 := (SafeS3.senderPush_cx h it).run w (SafeS3.cx_self w hI.winv.storeOk.idx)
  have r3 := (SafeS3.senderPush_qp (fr := w.frame) (H := w.handlers) (SafeS3.SendsOK.of_refs href) harena).run w
    ⟨rfl, rfl, hI.2⟩
  have r4 := (senderPush_safe h it).run w trivial
  generalize (senderPush h it).run.run w = res at r1 r2 r3 r4
  obtain ⟨(e|b), w'⟩ := res
  · exact fun hs => ⟨r4 hs, SafeS3.sinv_of_parts hI (r1 hs) r2.1 r3⟩
  · exact fun hs => SafeS3.sinv_of_parts hI (r1 hs) r2.1 r3

theorem runAct_safeK : SObl.runAct_safeK := fun hk it loc act =>
  SafeS3.assemble (fun _ => runAct_sl hk it loc act)
    (Evenio.runAct_gw pieces.kw_reserve pieces.kw_bumpCell hk it loc act)
    (fun _ _ _ _ => SafeS3.runAct_cx hk it loc act) (fun _ _ hst ha => SafeS3.runAct_qp hst ha hk loc act)
    fun _ hI hc => SafeS3.runAct_safe0 hI hc act

namespace SafeS3

/-- the materialisation of one parameter (`HandlerParam::get`) -/
theorem paramStep_j1 {hk : Key} {it : QItem} {loc : Loc} {h : HInfo} {n : Nat} {pm : Param} (hmem : pm ∈ h.params) :
    ∀ w, J1 hk it loc h n w → WInv w ∧ h.ParamsOK ∧
      (pm.kind = .recv → pm.hasQ = true → ∃ a st, w.archs.get loc.arch = some a ∧
        pm.cache.get loc.arch = some (st, a.epoch)) := by
  intro w hw
  obtain ⟨hI, hc, hh, -⟩ := hw
  have hpo : h.ParamsOK := hI.1.2 hk h hh
  refine ⟨hI.winv, hpo, fun hkind hq => ?_⟩
  have ht := hpo.recvT pm hmem hkind hq
  obtain ⟨h', hh', hctx⟩ := hc.live
  rw [hh] at hh'; cases hh'
  obtain ⟨hent, a, ha, hm⟩ := hctx ht
  obtain ⟨st, -, hcache, -⟩ := recv_cache hI.winv hh hmem hkind hq ht hent ha hm
  exact ⟨a, st, ha, hcache⟩

theorem safe_bind_hoare {α β : Type} {P : World → Prop} {m : M α} {f : α → M β} {R : α → World → Prop}
    (hR : Hoare P m R (fun e _ => e.isPanic = true)) (hf : ∀ a, Safe (R a) (f a)) : Safe P (m >>= f) :=
  Safe.bind (Safe.of_hoare hR fun _ _ h => NoUB.of_panic h) hR hf

set_option hygiene false in
/-- the two loops of `runHandler` (the join point after the arena check) -/
local macro "rh_rest" : tactic => `(tactic| (
  refine safe_bind_hoare (R := fun _ => J1 hk it loc h w.arenaEpoch) ?_ fun _ => ?_
  · refine Hoare.forIn_list_mem (Inv := fun _ => J1 hk it loc h w.arenaEpoch) fun pm hmem b => ?_
    split
    · split
      · next hkind hq =>
        refine ⟨fun w' hw' => ?_⟩
        obtain ⟨-, -, hx⟩ := paramStep_j1 hmem w' hw'
        obtain ⟨a, st, ha, hcache⟩ := hx hkind hq
        rw [hcache]
        dsimp only
        rw [run_bind, run_getArch _ ha]
        dsimp only
        have : ¬ ((a.epoch != a.epoch) = true) := by simp
        rw [if_neg this]
        exact hw'
      · exact Hoare.pure fun _ h => h
    · next hkind =>
      refine Hoare.bind (R := fun _ => J1 hk it loc h w.arenaEpoch) ?_ fun rows => ?_
      · refine Hoare.post (hoare_of_reads (Q := fun _ _ => True) fun w' hw' => ?_) (fun _ _ h => h.1) fun _ _ h => h
        obtain ⟨hW', hpo, -⟩ := paramStep_j1 hmem w' hw'
        exact ((paramRows_reads hW' hw'.2.2.1 hmem (hpo.hasQ pm hmem (.inr (.inl hkind)))).readsP).weaken
          fun _ _ => trivial
      · split
        · exact Hoare.bind (R := fun _ _ => False) (Hoare.throw fun _ _ => rfl) fun _ => ⟨fun _ h => h.elim⟩
        · exact Hoare.pure fun _ h => h
    · next hkind =>
      refine Hoare.bind (R := fun _ => J1 hk it loc h w.arenaEpoch) ?_ fun rows => Hoare.pure fun _ h => h
      refine Hoare.post (hoare_of_reads (Q := fun _ _ => True) fun w' hw' => ?_) (fun _ _ h => h.1) fun _ _ h => h
      obtain ⟨hW', hpo, -⟩ := paramStep_j1 hmem w' hw'
      exact ((paramRows_reads hW' hw'.2.2.1 hmem (hpo.hasQ pm hmem (.inr (.inr hkind)))).readsP).weaken
        fun _ _ => trivial
    · exact Hoare.pure fun _ h => h
  · refine Safe.bind (R := fun _ _ => True) (E := fun _ _ => True) ?_ SafeS2.hoare_true fun _ => Safe.pure _
    refine Safe.pre (P' := GJ hk it loc) ?_ fun w' hw' _ => ⟨hw'.1, hw'.2.1⟩
    refine Safe.of_hoare (Hoare.forIn_list_inv (P := GJ hk it loc) (E := PanicAnd SInv) fun act b => ?_)
      fun _ _ h => h.noUB
    repeat' first
      | exact Hoare.pure fun _ h => h
      | exact throw_bind_gj
      | exact logT_gj _
      | exact runAct_safeK _ _ _ _
      | (with_reducible refine Hoare.bind_inv ?_ (fun _ => ?_))
      | (with_reducible refine Hoare.ite ?_ ?_)
      | dsimp only
      | split))

theorem runHandler_safe0 (hk : Key) (it : QItem) (loc : Loc) :
    Safe (fun w => SInv w ∧ RunCtx hk it loc w) (runHandler hk it loc) := by
  unfold runHandler
  refine Safe.get_bind_eq fun w hw => ?_
  obtain ⟨hI, hc⟩ := hw
  split
  · next h hh =>
    dsimp only
    refine Safe.pre (P' := J1 hk it loc h w.arenaEpoch) ?_ fun w' hw' => by subst hw'; exact ⟨hI, hc, hh, rfl⟩
    refine Safe.bind_inv (Safe.of_hoare (logT_j1 _) fun _ _ h => NoUB.of_panic h) (logT_j1 _) fun _ => ?_
    split
    · next ep n len harena =>
      split
      · next hne =>
        refine Safe.bind (R := fun _ _ => False) (E := fun _ _ => True) (Safe.ubErr fun w' hw' => ?_)
          (Hoare.ubErr fun _ _ => trivial) fun _ => ⟨fun _ h => h.elim⟩
        have := hw'.2.1.arena _ harena
        rw [hw'.2.2.2] at this
        have hne' : ep ≠ w.arenaEpoch := by simpa using hne
        exact hne' this
      · refine Safe.bind_inv (Safe.of_hoare (logT_j1 _) fun _ _ h => NoUB.of_panic h) (logT_j1 _) fun _ => ?_
        rh_rest
    · rh_rest
  · next hnone =>
    obtain ⟨h, hh, -⟩ := hc.live
    exact absurd hh (hnone h)

end SafeS3

theorem runHandler_safeK : SObl.runHandler_safeK := fun hk it loc =>
  SafeS3.assemble (fun _ => runHandler_sl hk it loc)
    (Evenio.runHandler_gw pieces.kw_reserve pieces.kw_bumpCell hk it loc)
    (fun _ _ _ _ => SafeS3.runHandler_cx hk it loc) (fun _ _ hst ha => SafeS3.runHandler_qp hst ha hk loc)
    fun w0 hI hc => Safe.pre (SafeS3.runHandler_safe0 hk it loc) fun w hw => by subst hw; exact ⟨hI, hc⟩

/-- **corrected `runHandler_ctx`** (see the header): with `IndexOk` (a conjunct of `WInv`: `WInv.storeOk.idx`), which
    `runHandler` keeps as well -/
theorem runHandler_ctx' : ∀ hk it loc hk',
    Keeps (fun w => IndexOk w ∧ RunCtx hk' it loc w) (runHandler hk it loc) := fun hk it loc _ =>
  ⟨fun w hw => by
    have r := (SafeS3.runHandler_cx hk it loc).run w (SafeS3.cx_self w hw.1)
    exact ⟨r.2.2.2.1, SafeS3.runCtx_of_cx hw.2 r⟩⟩

/-- **the guarded form of `runHandler_ctx`**, for a whole list of handlers, on every exit: what the handler loop of
    `deliverOne` conjoins with `runHandler_safeK` -/
theorem runHandler_ctx_guarded (hk : Key) (it : QItem) (loc : Loc) (hs : List Key) :
    Keeps (Guarded fun w => WInvMid w ∧ ∀ hk' ∈ hs, RunCtx hk' it loc w) (runHandler hk it loc) := by
  refine ⟨fun w hw hs' => ?_⟩
  have hs0 : Small w := SlabMono.small (m := runHandler hk it loc) (fun _ => runHandler_sl hk it loc) rfl hs'
  obtain ⟨hW, hctx⟩ := hw hs0
  have r1 := (Evenio.runHandler_gw pieces.kw_reserve pieces.kw_bumpCell hk it loc).run w fun _ => hW
  have r2 := (SafeS3.runHandler_cx hk it loc).run w (SafeS3.cx_self w hW.1.storeOk.idx)
  exact ⟨r1 hs', fun hk' hm => SafeS3.runCtx_of_cx (hctx hk' hm) r2⟩

/-- **`runHandler_safeK` together with the contexts of the handlers still to run** — the loop invariant of
    `handlerLoop` (`hs` = the rest of the list) is kept as it stands -/
theorem runHandler_safeK_ctx (hk : Key) (it : QItem) (loc : Loc) (hs : List Key) :
    Hoare (Guarded fun w => SInv w ∧ RunCtx hk it loc w ∧ ∀ hk' ∈ hs, RunCtx hk' it loc w) (runHandler hk it loc)
      (fun _ => Guarded fun w => SInv w ∧ RunCtx hk it loc w ∧ ∀ hk' ∈ hs, RunCtx hk' it loc w) (PanicAnd SInv) :=
  Hoare.post
    (Hoare.and (Hoare.pre (runHandler_safeK hk it loc) fun _ h hs' => ⟨(h hs').1, (h hs').2.1⟩)
      (Hoare.pre (Hoare.of_keeps (E := fun _ _ => True) (runHandler_ctx_guarded hk it loc hs) fun _ _ _ => trivial)
        fun _ h hs' => ⟨(h hs').1.winvMid, (h hs').2.2⟩))
    (fun _ _ h hs' => ⟨(h.1 hs').1, (h.1 hs').2, (h.2 hs').2⟩) fun _ _ h => h.1

/-! ## `SObl.runHandler_ctx` is false as stated -/

namespace SafeS3

def cexPm : Param :=
  { kind := .fetch, q := .mut 0, hasQ := true, cache := { sparse := [0], dense := [(.col 0 true, 0)], indices := [0] } }

def cexH : HInfo :=
  { name := "h", key := ⟨0, 1⟩, order := 0, tid := none, recv := .t 0, recvIdx := 0, recvKey := ⟨0, 1⟩, recvMut := false,
    filter := [[(1, .wth)]], sentG := [], sentT := [], sends := [], compAccess := [], archFilter := [],
    referenced := [], prio := .medium, params := [cexPm], body := [.bump 0] }

def cexB0 : Arch := { index := 1, comps := [0], cols := [[⟨0, 0⟩]], ids := [⟨5, 1⟩] }
def cexB1' : Arch := { index := 2, comps := [0], cols := [[⟨1, 0⟩]], ids := [⟨6, 1⟩] }

/-- archetypes 0 and 1 are not stored under their own index -/
def cexW : World :=
  { handlers := { slots := [⟨1, U32MAX, some cexH⟩], nextFree := U32MAX, len := 1 },
    entities := { slots := [⟨1, U32MAX, some ⟨2, 0⟩⟩], nextFree := U32MAX, len := 1 },
    archs := { entries := [.occ cexB0,
                           .occ { index := 2, comps := [0], cols := [[⟨0, 0⟩]], ids := [⟨6, 1⟩] },
                           .occ { index := 2, comps := [1], cols := [[⟨0, 0⟩]], ids := [⟨0, 1⟩] }], next := 3 } }

def cexIt : QItem := { ty := .t 0, idx := 0, target := ⟨0, 1⟩ }

/-- `paramRows` with the row loop over a list (the kernel does not unfold `Std.Legacy.Range.forIn`) -/
def paramRowsL (p : Param) : M (List (AS × Arch × Nat)) := do
  let mut res := []
  let mut first := true
  for (ai, (st, ep)) in p.cache.keys.zip p.cache.values do
    let a ← getArch ai "fetch.rs:iter:archetypes.get"
    if a.ids.length == 0 && !first then ubErr "fetch.rs:iter:assume_nonempty"
    if a.ids.length > 0 && ep != a.epoch then ubErr "fetch.rs:stale-column-pointer"
    first := false
    for row in List.range' 0 a.ids.length do
      res := res ++ [(st, a, row)]
  pure res

theorem range_size (n : Nat) : ([:n] : Std.Legacy.Range).size = n := by
  simp [Std.Legacy.Range.size]

theorem paramRows_eq : paramRows = paramRowsL := by
  funext p
  unfold paramRows paramRowsL
  simp only [Std.Legacy.Range.forIn_eq_forIn_range', range_size]

theorem cex_archs : ((runHandler ⟨0, 1⟩ cexIt ⟨2, 0⟩).run.run cexW).2.archs.get 2 = some cexB1' := by
  unfold runHandler runAct
  simp only [paramRows_eq]
  rfl

theorem cex_handlers :
    ((runHandler ⟨0, 1⟩ cexIt ⟨2, 0⟩).run.run cexW).2.handlers.get ⟨0, 1⟩ = some cexH := by
  unfold runHandler runAct
  simp only [paramRows_eq]
  rfl

theorem cex_pre : RunCtx ⟨0, 1⟩ cexIt ⟨2, 0⟩ cexW :=
  ⟨⟨cexH, rfl, fun _ => ⟨rfl, _, rfl, rfl⟩⟩, fun x hx => by cases hx⟩

/-- **`SObl.runHandler_ctx` is false as stated**: in a world where an archetype is not stored under its own index, the
    write-back of `bumpCell` clobbers the archetype the context of the running handler speaks about -/
theorem runHandler_ctx_false : ¬ SObl.runHandler_ctx := by
  intro h
  have hpost := (h ⟨0, 1⟩ cexIt ⟨2, 0⟩ ⟨0, 1⟩).run cexW cex_pre
  obtain ⟨h', hh', hctx⟩ := hpost.live
  rw [cex_handlers] at hh'
  cases hh'
  obtain ⟨-, a, ha, hm⟩ := hctx rfl
  rw [cex_archs] at ha
  cases ha
  have : cexH.filter.matches cexB1'.S = false := rfl
  rw [this] at hm
  cases hm

end SafeS3

theorem runHandler_ctx_false : ¬ SObl.runHandler_ctx := SafeS3.runHandler_ctx_false

end Evenio
