import Evenio.Proofs.Safe.Flush
/-!
# The proof obligations for C01: no `ub` / `assert` marker is reachable

Every obligation is a `def SObl.… : Prop`; a worker proves `theorem <name> : SObl.<name>`.  Nothing is assumed here.
Shapes (Safe/Defs.lean): `Safe P m` (no `ub`/`assert` exit from `P`), `SafeK J m` (`Safe` + the guarded invariant `J`
again on normal return and on panic), `Keeps K m` (an unguarded invariant kept on EVERY exit).

Sections: (A) closed primitives with explicit argument preconditions, and the postconditions callers need;
(B) raw registry steps and registration functions; (C) handler execution; (D) the event loop, incl. preservation of
the new invariants `QInv` / `RecvInv`; (E) top level and the final theorems.

Conventions: preconditions of primitives are LOCAL facts about the arguments wherever that is enough (`BumpPre`,
`SpawnPre`, `HLive`), otherwise `Guarded (WInvMid ∧ <argument facts>)`.  The invariant parts of the triples the glue
needs on normal returns exist already (`Pieces.kw_*`, `Pieces.glue_*`, `*_qe`, `auxInv.*`); `Safe.bind` takes them as its
second argument.
-/
namespace Evenio
open InvV7

/-! ### argument preconditions -/

/-- the handlers `ks` are registered (handler pointers stored in `refresh` sets / handler lists are valid) -/
def HLive (ks : List Key) (w : World) : Prop := ∀ k ∈ ks, (w.handlers.get k).isSome = true

/-- `bumpCell ai row c` hits a cell -/
def BumpPre (ai row c : Nat) (w : World) : Prop :=
  ∃ a i col x, w.archs.get ai = some a ∧ a.colIdx c = some i ∧ a.cols[i]? = some col ∧ col[row]? = some x

/-- `spawnAll` / `archSpawn`: the empty archetype exists and its refresh listeners are registered -/
def SpawnPre (w : World) : Prop := ∃ a0, w.archs.get 0 = some a0 ∧ HLive a0.refresh w

/-- `loc` is the location of a live entity -/
def LocLive (loc : Loc) (w : World) : Prop := ∃ e, w.entities.get e = some loc

/-- the contract of `moveEntity src dst new`: `src` is the location of a live entity, `dst` is a live archetype, and
    `new` supplies exactly the components of `dst` that `src.arch` lacks (`NewOk`, Props/C02World.lean); when source and
    destination coincide, only existing columns are assigned -/
def MovePre (src : Loc) (dst : Nat) (new : List (Nat × Cell)) (w : World) : Prop :=
  LocLive src w ∧ (w.archs.get dst).isSome = true ∧ NewOk w src dst new ∧
  (src.arch = dst → ∀ sa, w.archs.get dst = some sa → ∀ p ∈ new, p.1 ∈ sa.comps)

/-- a live component index -/
def CompLive (c : Nat) (w : World) : Prop := (w.comps.getByIndex c).isSome = true

/-- what the handler loop of `deliverOne` knows when it runs handler `hk` on the item `it` looked up at `loc`:
    the handler pointer is valid; if the handler receives a targeted event then `loc` is the location of the (live)
    target and the handler's listener filter accepts its archetype (the handler came from that archetype's listener
    table); an arena payload belongs to the current epoch -/
structure RunCtx (hk : Key) (it : QItem) (loc : Loc) (w : World) : Prop where
  live : ∃ h, w.handlers.get hk = some h ∧ (h.recv.targeted = true →
    w.entities.get it.target = some loc ∧ ∃ a, w.archs.get loc.arch = some a ∧ h.filter.matches a.S = true)
  arena : ∀ x, it.pay.arena = some x → x.1 = w.arenaEpoch

/-- what `lookupPhase` returns, in the state it was run in -/
structure LookupOK (it : QItem) (w : World) (info : EvInfo) (hs : Option (List Key)) (loc : Loc) : Prop where
  /-- every handler of the list can be run -/
  ctx : ∀ l, hs = some l → ∀ hk ∈ l, RunCtx hk it loc w
  /-- events with a relocating / despawning effect are targeted ones, delivered at the location of the live target -/
  target : ∀ l, hs = some l → (∃ c, info.kind = .insert c) ∨ (∃ c, info.kind = .remove c) ∨ info.kind = .despawn →
    w.entities.get it.target = some loc
  /-- the component of an `Insert` event is registered (`RegistryInv.tevComp`) -/
  insComp : ∀ c, info.kind = .insert c → CompLive c w

namespace SObl

/-! ## A. closed primitives -/

/-- `reserve` has no unchecked site -/
def reserve_safe : Prop := Safe (fun _ => True) reserve

def bumpCell_safe : Prop := ∀ ai row c, Safe (BumpPre ai row c) (bumpCell ai row c)
/-- a bump keeps every cell address valid (only a value changes) -/
def bumpCell_bumpPre : Prop := ∀ ai row c ai' row' c', Keeps (BumpPre ai' row' c') (bumpCell ai row c)

/-- handler pointers: `handlerRefresh` (also its `debug_assert!(!arch.is_empty())`), `handlerRemoveArch` -/
def handlerRefresh_safe : Prop :=
  ∀ hk a, Safe (fun w => (w.handlers.get hk).isSome = true ∧ a.ids.length ≠ 0) (handlerRefresh hk a)
def handlerRemoveArch_safe : Prop := ∀ hk a, Safe (fun w => (w.handlers.get hk).isSome = true) (handlerRemoveArch hk a)
/-- `Arch.registerHandler` refreshes `h.key` only for a non-empty archetype -/
def registerHandler_safe : Prop := ∀ (a : Arch) h, Safe (fun w => (w.handlers.get h.key).isSome = true) (a.registerHandler h)
/-- no primitive removes a handler: registered handlers stay registered (from the `HK_refine` lemmas of
    Proofs/StorageRefine.lean; `newArch`, `traverse*` need new `hk_refine` leaves) -/
def hlive_keeps : Prop := ∀ ks,
  (∀ hk a, Keeps (HLive ks) (handlerRefresh hk a)) ∧ (∀ hk a, Keeps (HLive ks) (handlerRemoveArch hk a)) ∧
  (∀ id, Keeps (HLive ks) (archSpawn id)) ∧ Keeps (HLive ks) spawnAll ∧
  (∀ src dst new, Keeps (HLive ks) (moveEntity src dst new)) ∧ (∀ loc, Keeps (HLive ks) (removeEntity loc)) ∧
  (∀ src c, Keeps (HLive ks) (traverseInsert src c)) ∧ (∀ src c, Keeps (HLive ks) (traverseRemove src c)) ∧
  (∀ hk it loc, Keeps (HLive ks) (runHandler hk it loc))

/-- `spawnAll`: `archetype.rs:empty_mut`, the refresh of the empty archetype; `SpawnPre` is its own loop invariant -/
def spawnAll_safe : Prop := Safe SpawnPre spawnAll
def spawnPre_of_winv : Prop := ∀ w, WInv w → SpawnPre w
/-- `spawnAll` only adds entities and rows at the end of archetype 0: live locations stay live … -/
def spawnAll_locLive : Prop := ∀ loc, HoareOk (Guarded fun w => WInvMid w ∧ LocLive loc w) spawnAll
  (fun _ => Guarded fun w => WInvMid w ∧ LocLive loc w)
/-- … and afterwards nothing is reserved (from `Obl.spawnAll_clears`) -/
def spawnAll_count : Prop := HoareOk GW spawnAll (fun _ => Guarded fun w => w.resCount = 0)

/-- `traverse_insert`: `src` live, `c` a live component (`debug_assert`, `Archetype::new:component`,
    `handler-ptr:by_insert_order`; a new archetype is empty, so `registerHandler` never refreshes) -/
def traverseInsert_safe : Prop := ∀ src c,
  Safe (Guarded fun w => WInvMid w ∧ (w.archs.get src).isSome = true ∧ CompLive c w) (traverseInsert src c)
def traverseRemove_safe : Prop := ∀ src c,
  Safe (Guarded fun w => WInvMid w ∧ (w.archs.get src).isSome = true) (traverseRemove src c)
/-- what the `Insert` / `Remove` effects need from the traversal: the contract of the following `moveEntity`
    (`C17.traverseInsert_spec` / `traverseRemove_spec`, `traverse*_store_winv` of Props/ReachStore.lean) -/
def traverseInsert_movePre : Prop := ∀ (loc : Loc) c x,
  HoareOk (Guarded fun w => WInvMid w ∧ LocLive loc w ∧ CompLive c w) (traverseInsert loc.arch c)
    (fun dst => Guarded fun w => WInvMid w ∧ MovePre loc dst [(c, x)] w)
def traverseRemove_movePre : Prop := ∀ (loc : Loc) c,
  HoareOk (Guarded fun w => WInvMid w ∧ LocLive loc w) (traverseRemove loc.arch c)
    (fun dst => Guarded fun w => WInvMid w ∧ MovePre loc dst [] w)

/-- `move_entity` under its contract -/
def moveEntity_safe : Prop := ∀ src dst new,
  Safe (Guarded fun w => WInvMid w ∧ MovePre src dst new w) (moveEntity src dst new)
/-- `remove_entity` at the location of a live entity (also the two `debug_assert`s) -/
def removeEntity_safe : Prop := ∀ loc, Safe (Guarded fun w => WInvMid w ∧ LocLive loc w) (removeEntity loc)
def removeEntity_count : Prop := ∀ loc n, Keeps (fun w => w.resCount = n) (removeEntity loc)
/-- `ReservedEntities::refresh`: the `debug_assert_eq!(self.count, 0)` — F8 is the failure of this precondition -/
def resRefresh_safe : Prop := Safe (fun w => w.resCount = 0) resRefresh
/-- the `Despawn` effect as a unit -/
def fixedDespawn_safe : Prop := ∀ loc, Safe (Guarded fun w => WInvMid w ∧ LocLive loc w) (fixedDespawn loc)

/-! ## B. raw registry steps and registration functions -/

/-- the registration loop of `addHandler`, from the exact state `Handlers::add` left -/
def registerAll_safe : Prop :=
  ∀ (w : World) (k : Key) (h : HInfo) (handlers' : SlotMap HInfo), WInvMid w → NewHandlerPre w k h handlers' →
    Safe (fun w1 => w1 = Step.insertHandler w k handlers' h.recv h.recvKey h.prio) (registerAll k)
/-- `debug_assert_eq!(handlers.len(), by_insert_order.len())` after `Handlers::add` (`ListsInv.ordLen`) -/
def insertHandler_len : Prop :=
  ∀ (w : World) (k : Key) (h : HInfo) (handlers' : SlotMap HInfo), WInvMid w → NewHandlerPre w k h handlers' →
    handlers'.len = (w.byInsertOrder ++ [k]).length
/-- … and after `Handlers::remove` -/
def removeHandler_len : Prop :=
  ∀ (w : World) (k : Key) (h : HInfo) (handlers' : SlotMap HInfo), WInvMid w → w.handlers.remove k = some (h, handlers') →
    handlers'.len = (w.byInsertOrder.filter (· != k)).length
/-- the tail of `removeEvent` has no unchecked site -/
def removeEventFinish_safe : Prop := ∀ ty k, Safe (fun _ => True) (removeEventFinish ty k)
/-- the tail of `removeComponent`: `handler-ptr:remove_archetype`, `components.get_by_index_mut`, and the final
    `resRefresh` — from a QUIESCENT world (`resCount = 0`) -/
def dropCompTail_safe : Prop :=
  ∀ (w : World) (k : Key) (info : CompInfo) (comps' : SlotMap CompInfo), WInvMid w → w.resCount = 0 →
    CompUnused w k info → info.id = k → w.comps.remove k = some (info, comps') →
    Safe (fun w1 => w1 = Step.dropComp w k comps') (dropCompTail info)

/-- the registration / removal functions, entered with an empty queue (they are never called inside a flush) -/
def ensureAddG_safe : Prop := Safe MS ensureAddG
def addGlobalEvent_safe : Prop := ∀ ty, Safe MS (addGlobalEvent ty)
def sendGlobal_safe : Prop := ∀ ty pay, Safe MS (sendGlobal ty pay)
def addComponent_safe : Prop := ∀ ty, Safe MS (addComponent ty)
def addTargetedEvent_safe : Prop := ∀ ty, ty.targeted = true → Safe MS (addTargetedEvent ty)
def addEvent_safe : Prop := ∀ ty, Safe MS (addEvent ty)
def sendTargeted_safe : Prop := ∀ ty tg pay, ty.targeted = true → Safe MS (sendTargeted ty tg pay)
def initQuery_safe : Prop := ∀ q cfg, Safe MS (initQuery q cfg)
def initParam_safe : Prop := ∀ ps cfg, Safe MS (initParam ps cfg)
def addHandler_safe : Prop := ∀ hs : HSpec, hs.Valid → hs.RecvFirst → Safe MS (addHandler hs)
def removeHandler_safe : Prop := ∀ k, Safe MS (removeHandler k)

/-- `MS` is kept on normal returns by all of them: `Pieces.glue_*` + `*_qe` + `RecvInv` (section D), by
    `Guarded.and_keeps` / `Guarded.and_qe`; stated once, generically -/
def ms_keeps : Prop := ∀ {α : Type} (m : M α), SlabMono m → KeepsW m → QE m → Keeps RecvInv m →
  Hoare MS m (fun _ => MS) (fun _ _ => True)

/-- **entering a flush**: the pushed item is deliverable, the queue was empty -/
def push_flush_safe : Prop := ∀ it fuel,
  Safe (Guarded fun w => (SMid w ∧ QNil w) ∧ ItemOK w.frame it) (push it >>= fun _ => flush fuel)
/-- the key a registration function returns is a live slot of its registry (from `Obl.add*_live`), so the item pushed
    next is deliverable -/
def addGlobalEvent_itemOK : Prop := ∀ ty, HoareOk MS (addGlobalEvent ty)
  (fun k => Guarded fun w => (w.gevs.getByIndex k.idx).isSome = true)
def ensureAddG_itemOK : Prop := HoareOk MS ensureAddG (fun k => Guarded fun w => (w.gevs.getByIndex k.idx).isSome = true)
def addTargetedEvent_itemOK : Prop := ∀ ty, ty.targeted = true → HoareOk MS (addTargetedEvent ty)
  (fun k => Guarded fun w => (w.tevs.getByIndex k.idx).isSome = true)

/-! ## C. handler execution -/

/-- `Sender::send`: no unchecked site … -/
def senderPush_safe : Prop := ∀ h it, Safe (fun _ => True) (senderPush h it)
/-- … and what it queues is deliverable: the index comes from the sender's event set (`HandlerRefs.sendsG/T`), the
    arena payload from the current epoch -/
def senderPush_qinv : Prop := ∀ (h : HInfo) (it : QItem),
  Hoare (Guarded fun w => SInv w ∧ HandlerRefs w.comps w.gevs w.tevs h ∧ ∀ x, it.pay.arena = some x → x.1 = w.arenaEpoch)
    (senderPush h it) (fun _ => GS) (PanicAnd SInv)

/-- `Fetcher::iter` & co.: every cache key is a live, non-empty archetype with a current column pointer
    (`CacheGroup.live`, `C10.CachesOK`); the rows returned are rows of live archetypes the query accepts -/
def paramRows_safe : Prop := ∀ k h p,
  Safe (Guarded fun w => WInvMid w ∧ w.handlers.get k = some h ∧ p ∈ h.params ∧ p.hasQ = true) (paramRows p)
def paramRows_rows : Prop := ∀ k h p,
  HoareOk (Guarded fun w => WInvMid w ∧ w.handlers.get k = some h ∧ p ∈ h.params ∧ p.hasQ = true) (paramRows p)
    (fun rows => Guarded fun w => WInvMid w ∧ ∀ r ∈ rows, w.archs.get r.2.1.index = some r.2.1 ∧
      r.2.2 < r.2.1.ids.length ∧ p.q.archState r.2.1.S = some r.1)
/-- `Query::get` on a row of a well-formed archetype the arch state was computed for -/
def itemAt_safe : Prop := ∀ (q : Query) st (a : Arch) row,
  Safe (Guarded fun w => WInvMid w ∧ w.archs.get a.index = some a ∧ row < a.ids.length ∧ q.archState a.S = some st)
    (itemAt st a row)
/-- `FetcherState::get` (this is `paramGet_winv` of Props/ReachStore.lean, for live and dead ids) -/
def paramGet_safe : Prop := ∀ k h p id,
  Safe (Guarded fun w => WInvMid w ∧ w.handlers.get k = some h ∧ p ∈ h.params ∧ p.hasQ = true) (paramGet p id)
/-- the mutable columns of an arch state are columns of the archetype: every bump of a returned row hits a cell -/
def bumpRows_pre : Prop := ∀ (w : World) (q : Query) st (a : Arch) row, WInv w → w.archs.get a.index = some a →
  row < a.ids.length → q.archState a.S = some st → ∀ c ∈ st.mutCols, BumpPre a.index row c w

/-- one scripted action (by cases on `act`; `.recv` uses `RecvInv`/`ParamsOK.first`, `RunCtx` and cache exactness;
    `.iter/.bump/.get/.getMany/.single` use `ParamsOK.hasQ` and the five obligations above; the sending actions
    `senderPush_qinv` and `Pieces.kw_reserve`) -/
def runAct_safeK : Prop := ∀ hk it loc act,
  Hoare (Guarded fun w => SInv w ∧ RunCtx hk it loc w) (runAct hk it loc act)
    (fun _ => Guarded fun w => SInv w ∧ RunCtx hk it loc w) (PanicAnd SInv)
/-- `Handler::run`: `arena:use-after-reset`, the materialisation of the parameters (`fetch.rs:get_by_location_mut`:
    `ParamsOK.recvT` + `RunCtx` + `FilterOk` + `init_matches`/`archState_isSome` + cache exactness), the body -/
def runHandler_safeK : Prop := ∀ hk it loc,
  Hoare (Guarded fun w => SInv w ∧ RunCtx hk it loc w) (runHandler hk it loc)
    (fun _ => Guarded fun w => SInv w ∧ RunCtx hk it loc w) (PanicAnd SInv)
/-- running one handler does not invalidate the context of the others (handler table keys and cores: `HK`; `entities`
    untouched; archetypes keep `comps`; arena epoch: `runHandler_ae`) -/
def runHandler_ctx : Prop := ∀ hk it loc hk', Keeps (RunCtx hk' it loc) (runHandler hk it loc)

/-! ## D. the event loop -/

/-- `lookupPhase`: the registry lookups by index (`ItemOK`), the global list (`ListsInv.gExact`), the archetype of the
    target (`StoreInv`); the state is not changed -/
def lookupPhase_safe : Prop := ∀ it w0,
  Safe (fun w => w = w0 ∧ SInv w0 ∧ ItemOK w0.frame it) (lookupPhase it w0)
def lookupPhase_ok : Prop := ∀ it w0 r w1, SInv w0 → ItemOK w0.frame it →
  (lookupPhase it w0).run.run w0 = (.ok r, w1) → w1 = w0 ∧ LookupOK it w0 r.1 r.2.1 r.2.2
/-- the handler loop with its unwinding handler (first half of `EventDropper::drop`) -/
def handlerLoop_safeK : Prop := ∀ it info loc hs,
  Hoare (Guarded fun w => SInv w ∧ ∀ hk ∈ hs, RunCtx hk it loc w) (handlerLoop it info loc hs) (fun _ => GS)
    (PanicAnd SInv)
/-- the handler phase does not touch `entities`, `comps`, `resCount` nor the set of live archetypes: what
    `lookupPhase` found is still true when the effect runs -/
def handlerLoop_frame : Prop := ∀ it info loc hs e c,
  Keeps (fun w => w.entities.get e = some loc ∧ CompLive c w) (handlerLoop it info loc hs)
/-- the built-in effects -/
def effectPhase_safeK : Prop := ∀ it info loc,
  Hoare (Guarded fun w => SInv w ∧ ((∃ c, info.kind = .insert c) ∨ (∃ c, info.kind = .remove c) ∨ info.kind = .despawn →
      w.entities.get it.target = some loc) ∧ (∀ c, info.kind = .insert c → CompLive c w))
    (effectPhase it info loc) (fun _ => GS) (PanicAnd SInv)
/-- **the per-delivery obligation** (hypothesis `hd` of `flushWith_safeK`) -/
def deliverOne_safeK : Prop := DeliverS deliverOne
/-- the unwinding path: every queued item finds its drop function (hypothesis `hq` of `flushWith_safeK`) -/
def dropQueued_safeK : Prop := SafeK SInv dropQueued
/-- **the flush** = `flushWith_safeK` instantiated (`deliverOne_sl`, `deliverOne_fr`) -/
def flush_safeK : Prop := ∀ fuel, SafeK SInv (flush fuel)

/-- preservation of the NEW invariants by the delivery path.  `QInv`: only `push` (via `senderPush`, `runAct .spawn`),
    the reversal in `deliverOne` and `dropQueued` write the queue, nothing writes the frame; every primitive keeps
    `fun w => w.queue = q ∧ w.frame = fr` (`*_fr` of Proofs/Frame.lean + a `keeps` walk for the queue).  -/
def prims_queue_frame : Prop := ∀ (q : List QItem) (fr : Frame),
  let I : World → Prop := fun w => w.queue = q ∧ w.frame = fr
  Keeps I reserve ∧ (∀ ai row c, Keeps I (bumpCell ai row c)) ∧ Keeps I spawnAll ∧
  (∀ src c, Keeps I (traverseInsert src c)) ∧ (∀ src c, Keeps I (traverseRemove src c)) ∧
  (∀ src dst new, Keeps I (moveEntity src dst new)) ∧ (∀ loc, Keeps I (removeEntity loc)) ∧ Keeps I resRefresh
/-- `RecvInv` only depends on handler cores (`HK`, Proofs/Listeners.lean) -/
def recvInv_of_hk : Prop := ∀ {α : Type} (m : M α), (∀ reg, Keeps (HK reg) m) → Keeps RecvInv m
def recvInv_deliverOne : Prop := ∀ it, Keeps RecvInv (deliverOne it)
def recvInv_flush : Prop := ∀ fuel, Keeps RecvInv (flush fuel)
/-- the registration functions never change an existing entry's core; `addHandler` adds an entry that satisfies
    `ParamsOK` (loop invariant over `initParam`: every receiver parameter with a query was configured for the one
    targeted event in `cfg.recvEv`; `HSpec.RecvFirst` for the first parameter); `removeHandler` removes one -/
def recvInv_sendGlobal : Prop := ∀ ty pay, Keeps RecvInv (sendGlobal ty pay)
def recvInv_addTargetedEvent : Prop := ∀ ty, Keeps RecvInv (addTargetedEvent ty)
def recvInv_addEvent : Prop := ∀ ty, Keeps RecvInv (addEvent ty)
def recvInv_addComponent : Prop := ∀ ty, Keeps RecvInv (addComponent ty)
def recvInv_initParam : Prop := ∀ ps cfg, Keeps RecvInv (initParam ps cfg)
def recvInv_addHandler : Prop := ∀ hs : HSpec, hs.RecvFirst → Keeps RecvInv (addHandler hs)
def recvInv_removeHandler : Prop := ∀ k, Keeps RecvInv (removeHandler k)
def recvInv_removeEvent : Prop := ∀ ty k, Keeps RecvInv (removeEvent ty k)
def recvInv_removeComponent : Prop := ∀ k, Keeps RecvInv (removeComponent k)
def recvInv_execOp : Prop := ∀ op : Op, op.SValid → Keeps RecvInv (execOp op)

/-! ## E. top level -/

/-- from a quiescent world; `removeEvent` walks `removeEvent_run`, `removeComponent` the proof of
    `Pieces.topQ_removeComponent` (Inv/RemoveComp.lean), conjoining `Safe` at every step -/
def removeEvent_safe : Prop := ∀ ty k, Safe STop (removeEvent ty k)
def removeComponent_safe : Prop := ∀ k, Safe STop (removeComponent k)
def opSpawn_safe : Prop := Safe STop opSpawn
/-- the generation hook: `setgen:arch` (`StoreInv`) -/
def setGen_safe : Prop := ∀ n g, Safe STop (execOp (.setgen n g))
def execOp_safe : Prop := ∀ op : Op, op.SValid → Safe STop (execOp op)

end SObl

/-- `ReachP` (Inv/ReachPanic.lean) for the operations C01 is proved for -/
inductive ReachS : World → Prop
  | init : ReachS {}
  | step {w : World} (op : Op) : ReachS w → op.SValid → StepOk w op → ReachS (step w op).1
  | panic {w : World} (op : Op) : ReachS w → op.SValid → StepPanic w op → (step w op).1.resCount = 0 →
      ReachS (step w op).1

namespace SObl

/-- **C01**: no operation started in a reachable world ends in a `ub` or `assert` marker — in debug and release mode,
    for every handler program.  (`Op.SValid` instead of `Op.Valid`: finding N1.) -/
def reachable_no_ub : Prop :=
  ∀ w op, ReachS w → op.SValid → Small (step w op).1 →
    ∀ e, ((execOp op).run.run (stepInit w)).1 = .error e → e.isPanic = true

/-- … and from ANY world satisfying the invariants -/
def step_no_ub : Prop :=
  ∀ w op, WInv w → Quiescent w → AuxInv w → RecvInv w → op.SValid → Small (step w op).1 →
    ∀ e, ((execOp op).run.run (stepInit w)).1 = .error e → e.isPanic = true

end SObl

end Evenio
