import Evenio.Proofs.Safe.Deliver
import Evenio.Proofs.Safe.Reg
/-!
# C01, assembler — the top level (section E of `Safe/Obligations.lean`) and the last `recvInv_*` of section D

All eight obligations are closed exactly as stated; the only hypothesis left anywhere is the flush obligation
`(hfl : SObl.flush_safeK)`, i.e. (through W4's theorem `flush_safeK`) W3's `SObl.runHandler_safeK`, `SObl.runHandler_ctx`.
Everything else is used directly: W1 / W2 / W4 / `Samples.lean` (`dropCompTail_safe`, `reserve_safe`, `ms_keeps`,
`recvInv_of_hk`, `recvInv_flush`, …) and W5's Safe/Reg.lean (`addTargetedEvent_safe`, `addComponent_safe`,
`addEvent_safe`, `addHandler_safe`, `removeHandler_safe`, `removeEventFinish_safe`, `recvInv_sendGlobal`,
`recvInv_addTargetedEvent`, `recvInv_addEvent`, `recvInv_addComponent`, `recvInv_addHandler`, `recvInv_removeHandler`,
`SafeS5.recvInv_sendTargeted`).

| obligation | hypotheses |
|---|---|
| `recvInv_removeEvent`, `recvInv_removeComponent`, `recvInv_execOp` | — |
| `setGen_safe` | — |
| `removeEvent_safe`, `removeComponent_safe`, `opSpawn_safe`, `execOp_safe` | `hfl : SObl.flush_safeK` |

End results: `step_no_ub_of_flush`, `reachable_no_ub_of_flush` (from `hfl`) and, with
`structure SafeTop.Deps : Prop where runHandler_safeK : SObl.runHandler_safeK; runHandler_ctx : SObl.runHandler_ctx`,
**`step_no_ub_of_deps`**, **`reachable_no_ub_of_deps`** `(d : SafeTop.Deps)`.

**`SObl.sendGlobal_safe` and `SObl.sendTargeted_safe` are NOT used**: they are FALSE as stated (they quantify over every
payload, and `sendGlobal` over every event type: an arena payload stamped with a foreign epoch runs the first receiving
handler into `ub arena:use-after-reset`; W5: `sendGlobal_safe_false`).  The top level uses W5's corrected
`sendGlobal_safe'` (`ty.targeted = false → pay.arena = none → …`) and `sendTargeted_safe'` (`… → pay.arena = none → …`):
at every call site of the model the payload is a literal without `arena` field and the event type a literal (in
`removeEvent`: `if ty.targeted then .remT else .remG`), so the side conditions hold by `rfl`.  No obligation of THIS
file and none of the end results had to be changed.

How:
* `RecvInv` is kept on EVERY exit (`Keeps`, no resource hypothesis), so the walks carry it OUTSIDE the guard:
  `SafeTop.TQ = GQ ∧ RecvInv`, `SafeTop.JR F = JF AuxInv F ∧ RecvInv` (`JF`: the invariant of
  `Pieces.topQ_removeComponent`, Inv/RemoveComp.lean); `Safe.unguard` (exact, unguarded initial state) enters them from
  `STop`.  All walks are done with triples `Hoare P m R NoUB` (`SafeTop.with_safe`: `Safe` + an existing normal-return
  triple), composed with the plain `Hoare.bind` / `Hoare.forIn_list_inv`.
* `removeEvent_safe` — `removeEvent_run` (Proofs/Listeners.lean); the announcement and the `removeHandler` loop keep `TQ`
  (`Pieces.topQ_sendGlobal`, `Pieces.topQ_removeHandler`), `removeEventFinish_safe` needs nothing.
* `removeComponent_safe` — the walk of `Pieces.topQ_removeComponent` step by step (`SafeTop.jr_step` = `jf_step` +
  `Keeps RecvInv` + `Safe`).  New: the key `addTargetedEvent .despawn` returns is a live slot (`addTargetedEvent_live`,
  Inv/Facts.lean), so the queued `Despawn` items satisfy `ItemOK` (`SafeTop.push_pl`, invariant `SafeTop.PL`) and the
  flush starts from `GS` (`SafeTop.flush_pl`); the `removeEvent` loop uses `removeEvent_safe` above; the tail is
  `dropCompTail_safe` (W2) with `resCount = 0` from `Quiescent` and `info.id = k` from `AuxInv` (`SafeTop.dropTail_jr`).
* `setGen_safe` — `setgen:arch`: `ReachStore.read_winv`.
* `execOp_safe`, `recvInv_execOp` — by cases on the operation; `recvInv_*` by the `keeps` walker, `RecvInv` of the
  primitives from `recvInv_of_hk` and the `*_hk` lemmas of Proofs/Listeners.lean.
-/
namespace Evenio
open InvV7

namespace SafeTop

/-! ### shapes -/

/-- a triple with the C01 exceptional postcondition: what `Safe.bind` builds from `Safe` and a normal-return triple -/
theorem with_safe {α : Type} {P : World → Prop} {m : M α} {R : α → World → Prop} {E : Err → World → Prop}
    (hm : Safe P m) (hR : Hoare P m R E) : Hoare P m R NoUB :=
  Hoare.post (Hoare.and hm hR) (fun _ _ h => h.2) (fun _ _ h => h.1)

theorem hoare_true {α : Type} {P : World → Prop} {m : M α} : Hoare P m (fun _ _ => True) (fun _ _ => True) :=
  ⟨fun w _ => by cases m.run.run w with | mk r w' => cases r <;> trivial⟩

/-- the last step of a walk: nothing has to be kept -/
theorem safe_last {α β : Type} {P : World → Prop} {m : M α} {f : α → M β} (hm : Safe P m)
    (hf : ∀ a, Safe (fun _ => True) (f a)) : Safe P (m >>= f) :=
  Safe.bind (R := fun _ _ => True) hm hoare_true hf

/-- the top-level invariant of the `WInv` project (`GQ`, guarded) with the handler-parameter invariant outside the guard
    (`RecvInv` is kept on every exit, whatever the resources) -/
abbrev TQ : World → Prop := fun w => GQ w ∧ RecvInv w

theorem TQ.ms {w : World} (h : TQ w) : MS w :=
  fun hs => ⟨⟨⟨(h.1 hs).1, (h.1 hs).2.reservedSome⟩, h.2⟩, (h.1 hs).2.1⟩

/-- one step of a top-level walk: `TopQ`, `Keeps RecvInv` -/
theorem tq_step {α : Type} {m : M α} (hT : TopQ m) (hR : Keeps RecvInv m) :
    Hoare TQ m (fun _ => TQ) (fun _ _ => True) :=
  Hoare.post (Hoare.and (Hoare.pre hT fun _ h => h.1)
    (Hoare.pre (Hoare.of_keeps (E := fun _ _ => True) hR fun _ _ _ => trivial) fun _ h => h.2))
    (fun _ _ h => h) (fun _ _ _ => trivial)

/-- … with `Safe` from the registration invariant `MS` -/
theorem tq_safe_step {α : Type} {m : M α} (hS : Safe MS m) (hT : TopQ m) (hR : Keeps RecvInv m) :
    Hoare TQ m (fun _ => TQ) NoUB :=
  with_safe (hS.pre fun _ h => h.ms) (tq_step hT hR)

end SafeTop

open SafeTop

/-! ## `removeEvent` -/

/-- `RecvInv` reads `handlers` only: the registry writes of `removeEvent` keep it -/
theorem recvInv_removeEvent : SObl.recvInv_removeEvent := fun ty k => by
  have hA : Keeps RecvInv assertQueueEmpty := by unfold assertQueueEmpty; keeps
  unfold removeEvent
  keeps
  all_goals first
    | exact hA
    | exact recvInv_sendGlobal _ _
    | exact recvInv_removeHandler _

theorem removeEvent_safe (hfl : SObl.flush_safeK) : SObl.removeEvent_safe := fun ty k => by
  refine Safe.unguard (fun _ => removeEvent_sl ty k) fun w0 _ hJ0 => ⟨fun w h => ?_⟩
  subst h
  obtain ⟨⟨hW, hQ, -⟩, hR⟩ := hJ0
  by_cases hlive : (if ty.targeted then w.tevs.contains k else w.gevs.contains k) = true
  · rw [removeEvent_run ty k w hQ.1 hlive]
    refine (?hm : Safe TQ _).run w ⟨fun _ => ⟨hW, hQ⟩, hR⟩
    refine Hoare.bind (tq_safe_step (sendGlobal_safe' hfl _ _ (by split <;> rfl) rfl) (pieces.topQ_sendGlobal _ _)
      (recvInv_sendGlobal _ _)) fun _ => ?_
    refine Safe.get_bind fun w1 _ => ?_
    refine safe_last ?_ fun _ => removeEventFinish_safe ty k
    unfold removeAll
    refine Safe.of_hoare (Hoare.forIn_list_inv fun hk _ => ?_) fun _ _ h => h
    exact Hoare.bind_inv (tq_safe_step (removeHandler_safe hfl hk) (pieces.topQ_removeHandler hk)
      (recvInv_removeHandler hk)) fun _ =>
      Hoare.pure fun _ h => h
  · rw [removeEvent_dead ty k w hQ.1 (by simpa using hlive)]
    trivial

/-! ## `removeComponent` -/

namespace SafeTop

/-- the invariant of the walk of `Pieces.topQ_removeComponent` (`JF`: `WInv ∧ Quiescent ∧ AuxInv` and a functional
    fact `F`, guarded), with `RecvInv` outside the guard -/
abbrev JR (F : World → Prop) : World → Prop := fun w => JF AuxInv F w ∧ RecvInv w

theorem JR.ms {F : World → Prop} {w : World} (h : JR F w) : MS w :=
  fun hs => ⟨⟨⟨(h.1 hs).1, (h.1 hs).2.1.reservedSome⟩, h.2⟩, (h.1 hs).2.1.1⟩

theorem JR.stop {F : World → Prop} {w : World} (h : JR F w) : STop w :=
  fun hs => ⟨⟨(h.1 hs).1, (h.1 hs).2.1, (h.1 hs).2.2.1⟩, h.2⟩

/-- one step of the walk: `jf_step` of Inv/RemoveComp.lean, `Keeps RecvInv`, and `Safe` -/
theorem jr_step {α : Type} {m : M α} {F : World → Prop} {F' : α → World → Prop} (hmono : SlabMono m)
    (hS : Safe (JR F) m) (hT : TopQ m) (hA : Keeps AuxInv m) (hR : Keeps RecvInv m)
    (hF : ∀ w a w', WInv w → Quiescent w → AuxInv w → F w → m.run.run w = (.ok a, w') → WInv w' → F' a w') :
    Hoare (JR F) m (fun a => JR (F' a)) NoUB :=
  with_safe hS (Hoare.and (Hoare.pre (jf_step hmono hT hA hF) fun _ h => h.1)
    (Hoare.pre (Hoare.of_keeps (E := fun _ _ => True) hR fun _ _ _ => trivial) fun _ h => h.2))

/-- between the announcement and the flush of `removeComponent`: the `Despawn` events are being queued -/
abbrev PL (dk : Key) : World → Prop := fun w =>
  Guarded (fun w => WInvMid w ∧ PendingOK False w ∧ AuxInv w) w ∧ RecvInv w ∧
  Guarded (fun w => QInv w ∧ (w.tevs.getByIndex dk.idx).isSome = true) w

theorem PL.gs {dk : Key} {w : World} (h : PL dk w) : GS w := fun hs => ⟨⟨(h.1 hs).1, h.2.1⟩, (h.2.2 hs).1⟩

theorem push_pl (dk id : Key) :
    Hoare (PL dk) (push { ty := .despawn, idx := dk.idx, target := id }) (fun _ => PL dk) NoUB := by
  refine ⟨fun w hw => ?_⟩
  show PL dk { w with queue := w.queue ++ [{ ty := .despawn, idx := dk.idx, target := id }] }
  refine ⟨(Pieces.push_jp auxInv _).run w hw.1, hw.2.1, fun hs => ?_⟩
  obtain ⟨hq, hd⟩ := hw.2.2 hs
  exact ⟨QOK.snoc hq ⟨hd, fun x hx => nomatch hx⟩, hd⟩

theorem flush_pl (hfl : SObl.flush_safeK) (dk : Key) :
    Hoare (PL dk) (flush FUEL) (fun _ => JR fun _ => True) NoUB :=
  with_safe ((hfl FUEL).safe.pre fun _ h => h.gs)
    (Hoare.and (Hoare.pre (pieces.flush_jp auxInv) fun _ h => h.1)
      (Hoare.pre (Hoare.of_keeps (E := fun _ _ => True) (recvInv_flush FUEL) fun _ _ _ => trivial) fun _ h => h.2.1))

/-- the `removeHandler` loop of `removeComponent` -/
theorem handlerLoop_jr (hfl : SObl.flush_safeK) (k : Key) (l : List Key) :
    Hoare (JR (Rem k.idx l))
      (forIn l PUnit.unit fun hk _ => (removeHandler hk >>= fun _ => pure (ForInStep.yield PUnit.unit) : M _))
      (fun _ => JR (Rem k.idx [])) NoUB := by
  induction l with
  | nil => exact Hoare.pure fun _ h => h
  | cons x l ih =>
    rw [List.forIn_cons]
    refine Hoare.bind (R := fun r w => r = ForInStep.yield PUnit.unit ∧ JR (Rem k.idx l) w) ?_ fun r => ?_
    · refine Hoare.bind (jr_step (F' := fun _ => Rem k.idx l) (fun _ => removeHandler_sl x)
        ((removeHandler_safe hfl x).pre fun _ h => h.ms) (pieces.topQ_removeHandler x) (auxInv.removeHandler x)
        (recvInv_removeHandler x)
        fun w b w' _ _ _ hF hr _ => rem_step pieces.removeHandler_cores hr hF) fun _ => ?_
      exact Hoare.pure fun _ h => ⟨rfl, h⟩
    · refine ⟨fun w hw => ?_⟩
      obtain ⟨rfl, hw⟩ := hw
      exact ih.run w hw

/-- the `removeEvent` loop of `removeComponent` -/
theorem eventLoop_jr (hRE : SObl.removeEvent_safe) (k : Key) (l : List Key) :
    Hoare (JR (EvLeft k l))
      (forIn l PUnit.unit fun ev _ => (do
        let w ← get
        match w.tevs.get ev with
          | some ei => do
            let _ ← removeEvent ei.ty ev
            pure (ForInStep.yield PUnit.unit)
          | none => pure (ForInStep.yield PUnit.unit) : M _))
      (fun _ => JR (EvLeft k [])) NoUB := by
  induction l with
  | nil => exact Hoare.pure fun _ h => h
  | cons ev l ih =>
    rw [List.forIn_cons]
    refine Hoare.bind (R := fun r w => r = ForInStep.yield PUnit.unit ∧ JR (EvLeft k l) w) ?_ fun r => ?_
    · refine Hoare.get_bind_eq fun w hw => ?_
      split
      · next ei hei =>
        refine Hoare.bind (R := fun _ => JR (EvLeft k l)) ?_ fun _ => Hoare.pure fun _ h => ⟨rfl, h⟩
        refine Hoare.pre (jr_step (F := fun w' => w' = w ∧ EvLeft k (ev :: l) w') (F' := fun _ => EvLeft k l)
          (fun _ => removeEvent_sl _ _) ((hRE _ _).pre fun _ h => h.stop) (pieces.topQ_removeEvent _ _)
          (auxInv.removeEvent _ _) (recvInv_removeEvent _ _) ?_) fun w' h => ?_
        · rintro w1 b w' _ hQ hA1 ⟨rfl, hF⟩ hr hW'
          exact evLeft_step pieces.removeHandler_cores hQ hei (auxInv.tevTyped _ hA1 _ _ hei) hr hW' hF
        · subst h
          exact ⟨fun hs => ⟨(hw.1 hs).1, (hw.1 hs).2.1, (hw.1 hs).2.2.1, rfl, (hw.1 hs).2.2.2⟩, hw.2⟩
      · next hnone =>
        refine Hoare.pure fun w' h => ⟨rfl, ?_⟩
        subst h
        exact ⟨fun hs => ⟨(hw.1 hs).1, (hw.1 hs).2.1, (hw.1 hs).2.2.1, evLeft_skip (hw.1 hs).1 hnone (hw.1 hs).2.2.2⟩,
          hw.2⟩
    · refine ⟨fun w hw => ?_⟩
      obtain ⟨rfl, hw⟩ := hw
      exact ih.run w hw

/-- the tail of `removeComponent`, from the exact state in which the registry entry is removed: `dropCompTail_safe`
    (W2) with `resCount = 0` from `Quiescent` and `info.id = k` from `AuxInv` -/
theorem dropTail_jr {w : World} {k : Key} (hw : JR (EvLeft k []) w) {info : CompInfo} {comps' : SlotMap CompInfo}
    (hrm : w.comps.remove k = some (info, comps')) :
    Safe (fun w1 => w1 = Step.dropComp w k comps') (dropCompTail info) := by
  refine Hoare.unguard_at (Pieces.dropCompTail_sl info) (fun _ _ _ => trivial) NoUB.absorb fun hs1 => ?_
  have hs0 : Small w := hs1
  obtain ⟨hW, hQ, hA, hNo, hEv⟩ := hw.1 hs0
  have hget := SlotMap.get_of_remove hrm
  have hU : CompUnused w k info := by
    refine ⟨hget, hNo, ?_, ?_⟩
    · cases hl : info.insEvents with
      | nil => rfl
      | cons e l => exact nomatch hEv info hget e (.inl (by rw [hl]; exact List.mem_cons_self))
    · cases hl : info.remEvents with
      | nil => rfl
      | cons e l => exact nomatch hEv info hget e (.inr (by rw [hl]; exact List.mem_cons_self))
  exact dropCompTail_safe w k info comps' ⟨hW, hQ.reservedSome⟩ (resCount_of_reserved_nil hQ.2) hU
    (auxInv.compId w hA k info hget) hrm

end SafeTop

theorem removeComponent_safe (hfl : SObl.flush_safeK) : SObl.removeComponent_safe := fun k => by
  refine Safe.unguard (fun _ => removeComponent_sl k) fun w0 _ hJ0 =>
    Safe.pre (P' := JR fun _ => True) ?_ fun w h => by
      subst h; exact ⟨fun _ => ⟨hJ0.1.1, hJ0.1.2.1, hJ0.1.2.2, trivial⟩, hJ0.2⟩
  unfold removeComponent
  refine Safe.get_bind fun w0 _ => ?_
  split
  · exact Safe.pure _
  -- the announcement, the registration of `Despawn`
  refine Hoare.bind (jr_step (F' := fun _ _ => True) (fun _ => sendGlobal_sl _ _)
    ((sendGlobal_safe' hfl _ _ rfl rfl).pre fun _ h => h.ms)
    (pieces.topQ_sendGlobal _ _) (auxInv.sendGlobal _ _) (recvInv_sendGlobal _ _) fun _ _ _ _ _ _ _ _ _ => trivial)
    fun _ => ?_
  refine Hoare.bind (jr_step (F' := fun dk w => (w.tevs.getByIndex dk.idx).isSome = true)
    (fun _ => addTargetedEvent_sl _) ((addTargetedEvent_safe hfl .despawn rfl).pre fun _ h => h.ms)
    (pieces.topQ_addTargetedEvent .despawn rfl) auxInv.addTargetedEvent_despawn
    (recvInv_addTargetedEvent .despawn) fun w dk w' _ _ _ _ hr hW' => ?_) fun dk => ?_
  · obtain ⟨ei, hei, -⟩ := (addTargetedEvent_live .despawn).run w trivial dk w' hr
    rw [SlotMap.get_getByIndex hW'.tevsWF hei]; rfl
  -- the `Despawn` events are queued and flushed
  refine Safe.get_bind fun w1 _ => ?_
  refine Hoare.bind (R := fun _ => PL dk) ?_ fun _ => ?_
  · refine Hoare.pre (P' := PL dk) ?_ fun w h => ⟨fun hs => ⟨⟨(h.1 hs).1, (h.1 hs).2.1.reservedSome⟩,
      (h.1 hs).2.1.pendingOK False, (h.1 hs).2.2.1⟩, h.2, fun hs => ⟨QInv.of_qnil (h.1 hs).2.1.1, (h.1 hs).2.2.2⟩⟩
    refine Hoare.forIn_list_inv fun x _ => ?_
    obtain ⟨i, a⟩ := x
    dsimp only
    split
    · exact Hoare.bind_inv (Hoare.forIn_list_inv fun id _ => Hoare.bind_inv (push_pl dk id) fun _ =>
        Hoare.pure fun _ h => h) fun _ => Hoare.pure fun _ h => h
    · exact Hoare.pure fun _ h => h
  refine Hoare.bind (flush_pl hfl dk) fun _ => ?_
  -- the handlers referencing the component
  refine Hoare.get_bind_eq fun w2 hw2 => ?_
  dsimp only
  refine Hoare.bind (R := fun _ => JR (Rem k.idx [])) (Hoare.pre (handlerLoop_jr hfl k _) fun w h => ?_)
    fun _ => ?_
  · subst h
    exact ⟨fun hs => ⟨(hw2.1 hs).1, (hw2.1 hs).2.1, (hw2.1 hs).2.2.1, rem_init (hw2.1 hs).1 k.idx⟩, hw2.2⟩
  -- the Insert/Remove events of the component
  refine Hoare.get_bind_eq fun w3 hw3 => ?_
  split
  · exact Safe.throw rfl
  next info hinfo =>
  refine Hoare.bind (R := fun _ => JR (EvLeft k []))
    (Hoare.pre (eventLoop_jr (removeEvent_safe hfl) k _) fun w h => ?_) fun _ => ?_
  · subst h
    refine ⟨fun hs => ⟨(hw3.1 hs).1, (hw3.1 hs).2.1, (hw3.1 hs).2.2.1, fun hk h hg hc => ?_, fun ci hci e he => ?_⟩,
      hw3.2⟩
    · exact nomatch (hw3.1 hs).2.2.2 hk h hg hc
    · rw [hinfo] at hci
      cases hci
      exact List.mem_append.2 he
  -- the registry entry, the archetypes
  refine Hoare.get_bind_eq fun w4 hw4 => ?_
  split
  · exact Safe.throw rfl
  next info' comps' hrm =>
  refine Hoare.bind (R := fun _ w' => w' = Step.dropComp w4 k comps') ⟨fun w _ => ?_⟩ fun _ => ?_
  · simp only [run_set]; rfl
  refine Hoare.congr_run (m := dropCompTail info' >>= fun _ => pure true) ?_ fun w => ?_
  · exact safe_last (dropTail_jr hw4 hrm) fun _ => Safe.pure _
  · unfold dropCompTail
    simp only [run_bind]
    generalize (archsRemoveComponent info').run.run w = r
    obtain ⟨(e|a), w2⟩ := r
    · rfl
    · rfl

theorem recvInv_removeComponent : SObl.recvInv_removeComponent := fun k => by
  have hP : ∀ it, Keeps RecvInv (push it) := fun it => recvInv_of_hk _ fun _ => push_hk it
  have hAr : ∀ info, Keeps RecvInv (archsRemoveComponent info) := fun info =>
    recvInv_of_hk _ fun _ => InvV6.archsRemoveComponent_hk info
  have hRr : Keeps RecvInv resRefresh := recvInv_of_hk _ fun _ => resRefresh_hk
  unfold removeComponent
  keeps
  all_goals first
    | exact recvInv_sendGlobal _ _
    | exact recvInv_addTargetedEvent _
    | exact hP _
    | exact recvInv_flush _
    | exact recvInv_removeHandler _
    | exact recvInv_removeEvent _ _
    | exact hAr _
    | exact hRr

/-! ## `opSpawn`, the generation hook -/

theorem opSpawn_safe (hfl : SObl.flush_safeK) : SObl.opSpawn_safe := by
  unfold SObl.opSpawn_safe opSpawn
  refine Safe.pre (P' := MS) ?_ fun _ h => h.ms
  refine Safe.bind (reserve_safe.pre fun _ _ => trivial)
    (ms_keeps reserve (fun _ => reserve_sl) pieces.kw_reserve (qe_of_keeps reserve_qn)
      (recvInv_of_hk _ fun _ => reserve_hk)) fun id => ?_
  refine safe_last (sendGlobal_safe' hfl _ _ rfl rfl) fun _ => ?_
  exact safe_last (Safe.of_noError fun _ _ => ⟨_, _, rfl⟩) fun _ => Safe.pure _

/-- `setgen:arch`: the location of a live entity names a live archetype (`StoreInv`, `read_winv`) -/
theorem setGen_safe : SObl.setGen_safe := fun n g => by
  refine Safe.unguard (fun _ => execOp_sl _ (fun h => nomatch h)) fun w0 _ hJ0 => ?_
  unfold execOp
  dsimp only
  refine Safe.get_bind fun w hw => ?_
  subst hw
  split
  · exact Safe.pure _
  · next loc hloc =>
    split
    · exact Safe.pure _
    · split
      · exact Safe.pure _
      · obtain ⟨a, ha, -⟩ := ReachStore.read_winv hJ0.1.1 hloc
        refine Safe.of_noError fun w' h => ?_
        subst h
        simp only [run_bind, run_getArch _ ha, run_set, setArch, run_modify, run_pure]
        exact ⟨_, _, rfl⟩

/-! ## `execOp` -/

namespace SafeTop

/-- a leaf that only writes fields no invariant reads (`freshC`, `freshE`) -/
theorem stop_keeps_modifyGet {α : Type} {f : World → α × World}
    (hf : ∀ w, RelEq w (f w).2 ∧ resView (f w).2 = resView w) : Keeps STop (modifyGet f : M α) :=
  Keeps.modifyGet fun w h hs => by
    obtain ⟨h1, h2⟩ := hf w
    have hs' : Small w := by unfold Small at hs ⊢; rw [← h1.archs, ← h1.tevs]; exact hs
    refine ⟨⟨(h hs').1.1.frame h1, Quiescent.of_res (h hs').1.2.1 h2, auxInv.frame w _ h1.comps h1.tevs (h hs').1.2.2⟩,
      ?_⟩
    show RecvInv' (f w).2.handlers
    rw [h1.handlers]
    exact (h hs').2

theorem freshC_stop : Keeps STop freshC := stop_keeps_modifyGet fun _ => ⟨by releq, rfl⟩
theorem freshE_stop : Keeps STop freshE := stop_keeps_modifyGet fun _ => ⟨by releq, rfl⟩
theorem freshC_safe {P : World → Prop} : Safe P freshC := Safe.of_noError fun _ _ => ⟨_, _, rfl⟩
theorem freshE_safe {P : World → Prop} : Safe P freshE := Safe.of_noError fun _ _ => ⟨_, _, rfl⟩

theorem recvInv_opSpawn : Keeps RecvInv opSpawn := by
  have hR : Keeps RecvInv reserve := recvInv_of_hk _ fun _ => reserve_hk
  unfold opSpawn
  keeps
  all_goals first
    | exact hR
    | exact recvInv_sendGlobal _ _

end SafeTop

theorem execOp_safe (hfl : SObl.flush_safeK) : SObl.execOp_safe := fun op hv => by
  have hSG := sendGlobal_safe' hfl
  have hST := sendTargeted_safe' hfl
  have hAC := addComponent_safe hfl
  have hAE := addEvent_safe hfl
  have hAH := addHandler_safe hfl
  have hRH := removeHandler_safe hfl
  have hRE := removeEvent_safe hfl
  have hRC := removeComponent_safe hfl
  cases op with
  | setgen n g => exact setGen_safe n g
  | drop => exact hv.1.elim
  | addh h =>
    unfold execOp
    dsimp only
    refine safe_last ((hAH h hv.1 hv.2).pre fun _ h => h.ms) fun r => ?_
    split <;> exact Safe.pure _
  | spawn =>
    unfold execOp
    dsimp only
    exact safe_last (opSpawn_safe hfl) fun _ => Safe.get_bind fun _ _ => Safe.pure _
  | despawn n =>
    unfold execOp
    dsimp only
    exact Safe.get_bind fun _ _ => safe_last ((hST _ _ _ rfl rfl).pre fun _ h => h.ms) fun _ => Safe.pure _
  | insert n k v =>
    unfold execOp
    dsimp only
    exact Safe.of_keeps_bind freshC_stop freshC_safe fun _ => Safe.get_bind fun _ _ =>
      safe_last ((hST _ _ _ rfl rfl).pre fun _ h => h.ms) fun _ => Safe.pure _
  | remove n k =>
    unfold execOp
    dsimp only
    exact Safe.get_bind fun _ _ => safe_last ((hST _ _ _ rfl rfl).pre fun _ h => h.ms) fun _ => Safe.pure _
  | send g =>
    unfold execOp
    dsimp only
    exact Safe.of_keeps_bind freshE_stop freshE_safe fun _ =>
      safe_last ((hSG _ _ rfl rfl).pre fun _ h => h.ms) fun _ => Safe.pure _
  | sendto t n =>
    unfold execOp
    dsimp only
    exact Safe.of_keeps_bind freshE_stop freshE_safe fun _ => Safe.get_bind fun _ _ =>
      safe_last ((hST _ _ _ rfl rfl).pre fun _ h => h.ms) fun _ => Safe.pure _
  | rmh name =>
    unfold execOp
    dsimp only
    refine Safe.get_bind fun _ _ => ?_
    split
    · exact safe_last ((hRH _).pre fun _ h => h.ms) fun _ => Safe.pure _
    · exact Safe.pure _
  | addc k =>
    unfold execOp
    dsimp only
    exact safe_last ((hAC _).pre fun _ h => h.ms) fun _ => Safe.pure _
  | rmc k =>
    unfold execOp
    dsimp only
    refine Safe.get_bind fun _ _ => ?_
    split
    · exact safe_last (hRC _) fun _ => Safe.pure _
    · exact Safe.pure _
  | addev ev =>
    unfold execOp
    dsimp only
    exact safe_last ((hAE _).pre fun _ h => h.ms) fun _ => Safe.pure _
  | rmev ev =>
    unfold execOp
    dsimp only
    refine Safe.get_bind fun _ _ => ?_
    split
    · exact safe_last (hRE _ _) fun _ => Safe.pure _
    · exact Safe.pure _

theorem recvInv_execOp : SObl.recvInv_execOp := fun op hv => by
  have hC : Keeps RecvInv freshC := recvInv_of_hk _ fun _ => freshC_hk
  have hE : Keeps RecvInv freshE := recvInv_of_hk _ fun _ => freshE_hk
  have hG : ∀ i s, Keeps RecvInv (getArch i s) := fun i s => recvInv_of_hk _ fun _ => getArch_hk i s
  have hS : ∀ a, Keeps RecvInv (setArch a) := fun a => recvInv_of_hk _ fun _ => setArch_hk a
  cases op with
  | drop => exact hv.1.elim
  | addh h =>
    unfold execOp
    dsimp only
    keeps
    exact recvInv_addHandler h hv.2
  | _ =>
    unfold execOp
    dsimp only
    keeps
    all_goals first
      | exact recvInv_opSpawn
      | exact SafeS5.recvInv_sendTargeted _ _ _
      | exact recvInv_sendGlobal _ _
      | exact recvInv_removeHandler _
      | exact recvInv_addComponent _
      | exact recvInv_addEvent _
      | exact recvInv_removeEvent _ _
      | exact recvInv_removeComponent _
      | exact hC
      | exact hE
      | exact hG _ _
      | exact hS _

/-! ## the end result, conditional on section C (W3) only -/

/-- C01 from the flush obligation -/
theorem step_no_ub_of_flush (hfl : SObl.flush_safeK) : SObl.step_no_ub := step_no_ub_of (execOp_safe hfl)
theorem reachable_no_ub_of_flush (hfl : SObl.flush_safeK) : SObl.reachable_no_ub :=
  reachable_no_ub_of (execOp_safe hfl) recvInv_execOp

/-- **everything the top level still depends on**: the two obligations of `Handler::run` owned by W3 (section C); W4's
    theorem `flush_safeK` turns them into the flush obligation, which is all W5's registration glue and this file use -/
structure SafeTop.Deps : Prop where
  runHandler_safeK : SObl.runHandler_safeK
  runHandler_ctx : SObl.runHandler_ctx

theorem SafeTop.Deps.flush_safeK (d : SafeTop.Deps) : SObl.flush_safeK :=
  Evenio.flush_safeK d.runHandler_safeK d.runHandler_ctx

theorem execOp_safe_of_deps (d : SafeTop.Deps) : SObl.execOp_safe := execOp_safe d.flush_safeK

/-- **C01 from any world satisfying the invariants**, conditional on W3 -/
theorem step_no_ub_of_deps (d : SafeTop.Deps) : SObl.step_no_ub := step_no_ub_of_flush d.flush_safeK

/-- **C01 for reachable worlds**, conditional on W3 -/
theorem reachable_no_ub_of_deps (d : SafeTop.Deps) : SObl.reachable_no_ub := reachable_no_ub_of_flush d.flush_safeK

#print axioms step_no_ub_of_deps
#print axioms reachable_no_ub_of_deps

end Evenio
