import Evenio.Proofs.Safe.Store
/-!
# C01, worker W3 — auxiliary lemmas for `Safe/Handler.lean`

* `Reads w0 m Q`: `m` never fails from `w0`, leaves it unchanged and returns a value satisfying `Q`; instances
  `itemAt_reads`, `paramRows_reads`, `paramGet_reads` (under `WInv`); `bumpPre_of_row`.
* `CX H E n f` / `QP fr H`: two invariants kept by EVERY exit of every function of the handler phase (structural
  `keeps` walks with registered leaves): the context of a running handler is untouched / the queue only grows by
  deliverable items.
-/
namespace Evenio
open InvV7

namespace SafeS3

/-- "never fails, does not change the state, the result satisfies `Q`" from the exact state `w0` -/
abbrev Reads {α : Type} (w0 : World) (m : M α) (Q : α → Prop) : Prop :=
  Hoare (fun w => w = w0) m (fun a w => w = w0 ∧ Q a) (fun _ _ => False)

/-! ## `itemAt` -/

theorem itemAtPure_ok {w : World} (hw : WInv w) {q : Query} {st : AS} {a : Arch} {i row : Nat}
    (ha : w.archs.get i = some a) (hrow : row < a.ids.length) (hst : q.archState a.S = some st) :
    ∃ it, itemAtPure st a row = .ok it := by
  obtain ⟨hcols, hlen, -⟩ := (winv_implies_invStore_rows hw).2 i a ha
  unfold itemAtPure
  rw [List.getElem?_eq_getElem hrow]
  dsimp only
  have hdef := item_defined_on_own_archetype q a.S st hst
    (fun c => (a.readCell c row).map (·.v)) ((a.ids[row]).idx, (a.ids[row]).gen) (fun c hc => by
      rw [Option.isSome_map]; exact readCell_isSome hcols hlen hrow hc)
  cases hit : st.item (fun c => (a.readCell c row).map (·.v)) ((a.ids[row]).idx, (a.ids[row]).gen) with
  | none => rw [hit] at hdef; cases hdef
  | some it => exact ⟨it, rfl⟩

theorem itemAt_reads {w0 : World} (hw : WInv w0) {q : Query} {st : AS} {a : Arch} {i row : Nat}
    (ha : w0.archs.get i = some a) (hrow : row < a.ids.length) (hst : q.archState a.S = some st) :
    Reads w0 (itemAt st a row) (fun _ => True) := by
  refine ⟨fun w h => ?_⟩
  subst h
  obtain ⟨it, hit⟩ := itemAtPure_ok hw ha hrow hst
  rw [run_itemAt, hit]
  exact ⟨rfl, trivial⟩

/-! ## `paramRows` -/

theorem Hoare.of_pre_prop {α : Type} {P : World → Prop} {p : Prop} {m : M α} {Q : α → World → Prop}
    {E : Err → World → Prop} (h : p → Hoare P m Q E) : Hoare (fun w => P w ∧ p) m Q E :=
  ⟨fun w hw => (h hw.2).run w hw.1⟩

/-- what `paramRows p` returns in `w` -/
def RowOK (w : World) (p : Param) (r : AS × Arch × Nat) : Prop :=
  w.archs.get r.2.1.index = some r.2.1 ∧ r.2.2 < r.2.1.ids.length ∧ p.q.archState r.2.1.S = some r.1

theorem mem_range_lt {n row : Nat} (h : row ∈ List.range' (0 : Nat) ([:n] : Std.Legacy.Range).size 1) : row < n := by
  simp [Std.Legacy.Range.size, List.mem_range'] at h
  omega

/-- a cache entry of a query parameter of a registered handler, under the invariant -/
theorem cache_entry_some {w : World} (hw : WInv w) {k : Key} {h : HInfo} {p : Param} (hk : w.handlers.get k = some h)
    (hp : p ∈ h.params) (hq : p.hasQ = true) {ai : Nat} {st : AS} {ep : Nat} (hc : p.cache.get ai = some (st, ep)) :
    ∃ a, w.archs.get ai = some a ∧ a.index = ai ∧ a.ids.length ≠ 0 ∧ p.q.archState a.S = some st ∧ ep = a.epoch := by
  rw [ReachStore.cache_entry_winv hw hk hp hq ai] at hc
  cases ha : w.archs.get ai with
  | none => rw [ha] at hc; cases hc
  | some a =>
    rw [ha] at hc
    dsimp only at hc
    cases hids : a.ids with
    | nil => rw [hids] at hc; cases hc
    | cons x xs =>
      rw [hids, show (x :: xs).isEmpty = false from rfl, if_neg Bool.false_ne_true] at hc
      cases hst : p.q.archState a.S with
      | none => rw [hst] at hc; cases hc
      | some st' =>
        rw [hst] at hc
        cases hc
        exact ⟨a, rfl, hw.indexOK _ _ ha, by rw [hids]; simp, hst, rfl⟩

theorem paramRows_reads {w0 : World} (hw : WInv w0) {k : Key} {h : HInfo} {p : Param}
    (hk : w0.handlers.get k = some h) (hp : p ∈ h.params) (hq : p.hasQ = true) :
    Reads w0 (paramRows p) (fun rows => ∀ r ∈ rows, RowOK w0 p r) := by
  unfold paramRows
  dsimp only
  refine Hoare.bind (R := fun (s : List (AS × Arch × Nat) × Bool) w => w = w0 ∧ ∀ r ∈ s.1, RowOK w0 p r) ?_
    fun s => Hoare.pure fun _ h => h
  refine Hoare.pre (Hoare.forIn_list_mem
    (Inv := fun (s : List (AS × Arch × Nat) × Bool) w => w = w0 ∧ ∀ r ∈ s.1, RowOK w0 p r) fun x hx s => ?_)
    fun _ h => ⟨h, fun _ h => nomatch h⟩
  obtain ⟨ai, st, ep⟩ := x
  obtain ⟨res, first⟩ := s
  have hc := (SparseMap.keys_values_aligned (hw.cache.caches.wf k h hk p hp).1 ai (st, ep)).2 hx
  obtain ⟨a, ha, hai, hne, hst, hep⟩ := cache_entry_some hw hk hp hq hc
  dsimp only
  refine Hoare.bind (R := fun b w => (w = w0 ∧ ∀ r ∈ res, RowOK w0 p r) ∧ b = a) ⟨fun w hw' => ?_⟩ fun b => ?_
  · rw [hw'.1, run_getArch _ ha]
    exact ⟨⟨rfl, hw'.2⟩, rfl⟩
  refine Hoare.of_pre_prop fun hb => ?_
  subst hb
  have h1 : ¬ ((b.ids.length == 0 && !first) = true) := by simp [hne]
  have h2 : ¬ ((decide (b.ids.length > 0) && ep != b.epoch) = true) := by simp [hep]
  rw [if_neg h1, if_neg h2]
  rw [Std.Legacy.Range.forIn_eq_forIn_range']
  refine Hoare.bind (R := fun (s : List (AS × Arch × Nat)) w => w = w0 ∧ ∀ r ∈ s, RowOK w0 p r)
    (Hoare.forIn_list_mem (Inv := fun (s : List (AS × Arch × Nat)) w => w = w0 ∧ ∀ r ∈ s, RowOK w0 p r)
      fun row hrow s => ?_)
    fun s => Hoare.pure fun _ h => h
  refine Hoare.pure fun w hw' => ⟨hw'.1, fun r hr => ?_⟩
  rcases List.mem_append.1 hr with hr | hr
  · exact hw'.2 r hr
  · cases List.mem_singleton.1 hr
    exact ⟨by rw [hai]; exact ha, mem_range_lt hrow, hst⟩

/-! ## `paramGet` -/

theorem paramGet_reads {w0 : World} (hw : WInv w0) {k : Key} {h : HInfo} {p : Param}
    (hk : w0.handlers.get k = some h) (hp : p ∈ h.params) (hq : p.hasQ = true) (id : Key) :
    Reads w0 (paramGet p id) (fun _ => True) := by
  refine ⟨fun w hw' => ?_⟩
  subst hw'
  cases he : w.entities.get id with
  | none =>
    unfold paramGet
    rw [run_bind, run_get]
    dsimp only
    rw [he]
    exact ⟨rfl, trivial⟩
  | some loc =>
    obtain ⟨a, -, -, h1, h2⟩ := ReachStore.paramGet_winv hw hk hp hq he
    cases hs : p.q.sem a.S with
    | false => rw [h1 hs]; exact ⟨rfl, trivial⟩
    | true => obtain ⟨st, it, -, -, hr⟩ := h2 hs; rw [hr]; exact ⟨rfl, trivial⟩

/-! ## from `Reads` to the guarded shapes -/

theorem Reads.safe {α : Type} {J : World → Prop} {m : M α} {Q : World → α → Prop} (hmono : SlabMono m)
    (h : ∀ w0, Small w0 → J w0 → Reads w0 m (Q w0)) : Safe (Guarded J) m :=
  Safe.unguard hmono fun w0 hs hJ => Safe.of_hoare (h w0 hs hJ) fun _ _ h => h.elim

theorem Reads.hoareOk {α : Type} {J : World → Prop} {m : M α} {Q : α → World → Prop} (hmono : SlabMono m)
    (h : ∀ w0, Small w0 → J w0 → Reads w0 m (fun a => Q a w0)) :
    HoareOk (Guarded J) m (fun a => Guarded fun w => J w ∧ Q a w) := by
  refine ⟨fun w hw a w' hr hs' => ?_⟩
  have hs := hmono.small hr hs'
  obtain ⟨rfl, hq⟩ := (h w hs (hw hs)).ok rfl hr
  exact ⟨hw hs, hq⟩

/-! ## `bumpRows_pre` -/

theorem mem_mutCols {st : AS} {c : Nat} (h : c ∈ st.mutCols) : ∃ r ∈ st.refs, r.1 = c := by
  unfold AS.mutCols at h
  obtain ⟨⟨c', m⟩, hr, hm⟩ := List.mem_filterMap.1 h
  refine ⟨(c', m), hr, ?_⟩
  cases m <;> simp at hm
  exact hm

theorem bumpPre_of_row {w : World} (hw : WInv w) {q : Query} {st : AS} {a : Arch} {i row : Nat}
    (ha : w.archs.get i = some a) (hrow : row < a.ids.length) (hst : q.archState a.S = some st) {c : Nat}
    (hc : c ∈ st.mutCols) : BumpPre i row c w := by
  obtain ⟨hcols, hlen, -⟩ := (winv_implies_invStore_rows hw).2 i a ha
  obtain ⟨r, hr, rfl⟩ := mem_mutCols hc
  have hS := archState_refs_present a.S q st hst r hr
  unfold Arch.S at hS
  rw [List.contains_eq_mem, decide_eq_true_eq] at hS
  obtain ⟨j, hj, hlt⟩ := SafeS2.idxOf?_of_mem hS
  have hlt' : j < a.cols.length := hcols ▸ hlt
  have hcl : a.cols[j].length = a.ids.length := hlen _ (List.getElem_mem hlt')
  have hr' : row < a.cols[j].length := hcl ▸ hrow
  exact ⟨a, j, a.cols[j], a.cols[j][row], ha, hj, List.getElem?_eq_getElem hlt', List.getElem?_eq_getElem hr'⟩

/-! ## the context of a running handler is not touched by the handler phase

`CX H E n f`: the handler table, the entity map and the arena epoch are literally unchanged, archetypes are stored
under their own index and keep their component sets (`bumpCell` only writes cells). -/

abbrev CX (H : SlotMap HInfo) (E : SlotMap Loc) (n : Nat) (f : Nat → Option (List Nat)) : World → Prop :=
  fun w => w.handlers = H ∧ w.entities = E ∧ w.arenaEpoch = n ∧ IndexOk w ∧
    ∀ i, (w.archs.get i).map Arch.comps = f i

section cx
variable {H : SlotMap HInfo} {E : SlotMap Loc} {n : Nat} {f : Nat → Option (List Nat)}

theorem logT_cx (s : String) : Keeps (CX H E n f) (logT s) := by unfold logT; keeps
macro_rules | `(tactic| keeps_leaf) => `(tactic| exact logT_cx _)
theorem ubErr_cx {α : Type} (s : String) : Keeps (CX H E n f) (ubErr s : M α) := by unfold ubErr; keeps
macro_rules | `(tactic| keeps_leaf) => `(tactic| exact ubErr_cx _)
theorem dropCell_cx (ty : Nat) (c : Cell) : Keeps (CX H E n f) (dropCell ty c) := by unfold dropCell; keeps
macro_rules | `(tactic| keeps_leaf) => `(tactic| exact dropCell_cx _ _)
theorem dropEvent_cx (it : QItem) : Keeps (CX H E n f) (dropEvent it) := by unfold dropEvent; keeps
macro_rules | `(tactic| keeps_leaf) => `(tactic| exact dropEvent_cx _)
theorem getArch_cx (i : Nat) (s : String) : Keeps (CX H E n f) (getArch i s) := by unfold getArch; keeps
macro_rules | `(tactic| keeps_leaf) => `(tactic| exact getArch_cx _ _)
theorem reserve_cx : Keeps (CX H E n f) reserve := by unfold reserve; keeps
macro_rules | `(tactic| keeps_leaf) => `(tactic| exact reserve_cx)
theorem push_cx (it : QItem) : Keeps (CX H E n f) (push it) := by unfold push; keeps
macro_rules | `(tactic| keeps_leaf) => `(tactic| exact push_cx _)
theorem takeBudget_cx : Keeps (CX H E n f) takeBudget := by unfold takeBudget; keeps
macro_rules | `(tactic| keeps_leaf) => `(tactic| exact takeBudget_cx)
theorem freshE_cx : Keeps (CX H E n f) freshE := by unfold freshE; keeps
macro_rules | `(tactic| keeps_leaf) => `(tactic| exact freshE_cx)
theorem freshC_cx : Keeps (CX H E n f) freshC := by unfold freshC; keeps
macro_rules | `(tactic| keeps_leaf) => `(tactic| exact freshC_cx)
theorem getParam_cx (h : HInfo) (p : Nat) : Keeps (CX H E n f) (getParam h p) := by unfold getParam; keeps
macro_rules | `(tactic| keeps_leaf) => `(tactic| exact getParam_cx _ _)
theorem senderPush_cx (h : HInfo) (it : QItem) : Keeps (CX H E n f) (senderPush h it) := by unfold senderPush; keeps
macro_rules | `(tactic| keeps_leaf) => `(tactic| exact senderPush_cx _ _)
theorem itemAt_cx (st : AS) (a : Arch) (row : Nat) : Keeps (CX H E n f) (itemAt st a row) := by unfold itemAt; keeps
macro_rules | `(tactic| keeps_leaf) => `(tactic| exact itemAt_cx _ _ _)
theorem paramRows_cx (p : Param) : Keeps (CX H E n f) (paramRows p) := by unfold paramRows; keeps
macro_rules | `(tactic| keeps_leaf) => `(tactic| exact paramRows_cx _)
theorem paramGet_cx (p : Param) (id : Key) : Keeps (CX H E n f) (paramGet p id) := by unfold paramGet; keeps
macro_rules | `(tactic| keeps_leaf) => `(tactic| exact paramGet_cx _ _)

theorem bumpCell_cx (ai row c : Nat) : Keeps (CX H E n f) (bumpCell ai row c) := by
  refine ⟨fun w hw => ?_⟩
  unfold bumpCell
  rw [run_bind, run_getArch']
  cases ha : w.archs.get ai with
  | none => exact hw
  | some a =>
    dsimp only
    cases hci : a.colIdx c with
    | none => exact hw
    | some i =>
      dsimp only
      cases hcol : a.cols[i]? with
      | none => exact hw
      | some col =>
        dsimp only
        cases hx : col[row]? with
        | none => exact hw
        | some x =>
          dsimp only
          rw [run_setArch]
          obtain ⟨h1, h2, h3, hidx, h5⟩ := hw
          have hai : a.index = ai := hidx _ _ ha
          refine ⟨h1, h2, h3, indexOk_set hidx ha (a' := { a with cols := a.cols.set i (col.set row { x with v := x.v + 1 }) })
            (by rw [hai]) hai, fun j => ?_⟩
          show ((w.archs.set a.index _).get j).map Arch.comps = f j
          rw [hai, slab_get_set _ ha, ← h5 j]
          by_cases hj : j = ai
          · rw [if_pos hj, hj, ha]; rfl
          · rw [if_neg hj]
macro_rules | `(tactic| keeps_leaf) => `(tactic| exact bumpCell_cx _ _ _)

end cx

theorem runAct_cx {H : SlotMap HInfo} {E : SlotMap Loc} {n : Nat} {f : Nat → Option (List Nat)} (hk : Key) (it : QItem)
    (loc : Loc) (act : Act) : Keeps (CX H E n f) (runAct hk it loc act) := by unfold runAct; keeps
macro_rules | `(tactic| keeps_leaf) => `(tactic| exact runAct_cx _ _ _ _)
theorem runHandler_cx {H : SlotMap HInfo} {E : SlotMap Loc} {n : Nat} {f : Nat → Option (List Nat)} (hk : Key) (it : QItem)
    (loc : Loc) : Keeps (CX H E n f) (runHandler hk it loc) := by unfold runHandler; keeps

/-! ## the queue of a running handler only grows by deliverable items

`QP fr H`: the frame and the handler table are literally unchanged, every queued item is deliverable in `fr`. -/

/-- the event set of a sender only holds live registry indices -/
def SendsOK (fr : Frame) (h : HInfo) : Prop :=
  ∀ ev i, (ev, i) ∈ h.sends →
    if ev.targeted = true then (fr.tevs.getByIndex i).isSome = true else (fr.gevs.getByIndex i).isSome = true

theorem SendsOK.of_refs {C : SlotMap CompInfo} {fr : Frame} {h : HInfo} (hr : HandlerRefs C fr.gevs fr.tevs h) :
    SendsOK fr h := by
  intro ev i hm
  split
  · next ht => obtain ⟨-, k, info, hg, -⟩ := hr.sendsT ev i hm ht; rw [hg]; rfl
  · next ht =>
    obtain ⟨-, k, info, hg, -⟩ := hr.sendsG ev i hm (by cases h : ev.targeted <;> simp_all); rw [hg]; rfl

abbrev QP (fr : Frame) (H : SlotMap HInfo) : World → Prop :=
  fun w => w.frame = fr ∧ w.handlers = H ∧ QOK fr w.queue

section qp
variable {fr : Frame} {H : SlotMap HInfo}

theorem logT_qp (s : String) : Keeps (QP fr H) (logT s) := by unfold logT; keeps
macro_rules | `(tactic| keeps_leaf) => `(tactic| exact logT_qp _)
theorem ubErr_qp {α : Type} (s : String) : Keeps (QP fr H) (ubErr s : M α) := by unfold ubErr; keeps
macro_rules | `(tactic| keeps_leaf) => `(tactic| exact ubErr_qp _)
theorem dropCell_qp (ty : Nat) (c : Cell) : Keeps (QP fr H) (dropCell ty c) := by unfold dropCell; keeps
macro_rules | `(tactic| keeps_leaf) => `(tactic| exact dropCell_qp _ _)
theorem dropEvent_qp (it : QItem) : Keeps (QP fr H) (dropEvent it) := by unfold dropEvent; keeps
macro_rules | `(tactic| keeps_leaf) => `(tactic| exact dropEvent_qp _)
theorem getArch_qp (i : Nat) (s : String) : Keeps (QP fr H) (getArch i s) := by unfold getArch; keeps
macro_rules | `(tactic| keeps_leaf) => `(tactic| exact getArch_qp _ _)
theorem setArch_qp (a : Arch) : Keeps (QP fr H) (setArch a) := by unfold setArch; keeps
macro_rules | `(tactic| keeps_leaf) => `(tactic| exact setArch_qp _)
theorem reserve_qp : Keeps (QP fr H) reserve := by unfold reserve; keeps
macro_rules | `(tactic| keeps_leaf) => `(tactic| exact reserve_qp)
theorem takeBudget_qp : Keeps (QP fr H) takeBudget := by unfold takeBudget; keeps
macro_rules | `(tactic| keeps_leaf) => `(tactic| exact takeBudget_qp)
theorem freshE_qp : Keeps (QP fr H) freshE := by unfold freshE; keeps
macro_rules | `(tactic| keeps_leaf) => `(tactic| exact freshE_qp)
theorem freshC_qp : Keeps (QP fr H) freshC := by unfold freshC; keeps
macro_rules | `(tactic| keeps_leaf) => `(tactic| exact freshC_qp)
theorem getParam_qp (h : HInfo) (p : Nat) : Keeps (QP fr H) (getParam h p) := by unfold getParam; keeps
macro_rules | `(tactic| keeps_leaf) => `(tactic| exact getParam_qp _ _)
theorem itemAt_qp (st : AS) (a : Arch) (row : Nat) : Keeps (QP fr H) (itemAt st a row) := by unfold itemAt; keeps
macro_rules | `(tactic| keeps_leaf) => `(tactic| exact itemAt_qp _ _ _)
theorem paramRows_qp (p : Param) : Keeps (QP fr H) (paramRows p) := by unfold paramRows; keeps
macro_rules | `(tactic| keeps_leaf) => `(tactic| exact paramRows_qp _)
theorem paramGet_qp (p : Param) (id : Key) : Keeps (QP fr H) (paramGet p id) := by unfold paramGet; keeps
macro_rules | `(tactic| keeps_leaf) => `(tactic| exact paramGet_qp _ _)
theorem bumpCell_qp (ai row c : Nat) : Keeps (QP fr H) (bumpCell ai row c) := by unfold bumpCell; keeps
macro_rules | `(tactic| keeps_leaf) => `(tactic| exact bumpCell_qp _ _ _)

theorem push_qp {it : QItem} (hit : ItemOK fr it) : Keeps (QP fr H) (push it) :=
  Keeps.modify fun _ h => ⟨h.1, h.2.1, h.2.2.snoc hit⟩

theorem senderPush_qp {h : HInfo} {it : QItem} (hs : SendsOK fr h)
    (ha : ∀ x, it.pay.arena = some x → x.1 = fr.arenaEpoch) : Keeps (QP fr H) (senderPush h it) := by
  unfold senderPush
  split
  · keeps
  · next ev idx hf =>
    refine push_qp ⟨?_, ha⟩
    have hm := List.mem_of_find?_eq_some hf
    have he : ev = it.ty := by simpa using List.find?_some hf
    have := hs ev idx hm
    rw [he] at this
    exact this

theorem none_arena {x : Option (Nat × Nat × Nat)} {n : Nat} (h : x = none) : ∀ y, x = some y → y.1 = n :=
  fun _ hy => by rw [h] at hy; cases hy

theorem runAct_qp (hst : ∀ k h, H.get k = some h → SendsOK fr h) {it : QItem}
    (ha : ∀ x, it.pay.arena = some x → x.1 = fr.arenaEpoch) (hk : Key) (loc : Loc) (act : Act) :
    Keeps (QP fr H) (runAct hk it loc act) := by
  unfold runAct
  refine Keeps.get_bind fun w hw => ?_
  split
  · next h hh =>
    have hs : SendsOK fr h := hst hk h (hw.2.1 ▸ hh)
    cases act
    case spawn =>
      dsimp only
      repeat' first
        | (refine push_qp ⟨?_, none_arena rfl⟩)
        | keeps_step
      all_goals
        rename_i ev idx hf ht
        first
          | exact absurd ht (by decide)
          | (have hm := List.mem_of_find?_eq_some hf
             have he : ev = EvTy.spawn := by simpa using List.find?_some hf
             rw [he] at hm
             have := hs _ _ hm
             rw [if_neg ht] at this
             exact this)
    case alloc =>
      dsimp only
      repeat' first
        | (refine senderPush_qp hs ?_)
        | keeps_step
      rename_i hw' _
      intro x hx
      cases hx
      show (World.frame _).arenaEpoch = _
      rw [hw'.1]
    all_goals
      dsimp only
      repeat' first
        | exact senderPush_qp hs (none_arena rfl)
        | exact senderPush_qp hs ha
        | keeps_step
  · keeps

theorem runHandler_qp (hst : ∀ k h, H.get k = some h → SendsOK fr h) {it : QItem}
    (ha : ∀ x, it.pay.arena = some x → x.1 = fr.arenaEpoch) (hk : Key) (loc : Loc) :
    Keeps (QP fr H) (runHandler hk it loc) := by
  unfold runHandler
  repeat' first
    | exact runAct_qp hst ha _ _ _
    | keeps_step

end qp

end SafeS3

end Evenio
