import Evenio.Proofs.Safe.Defs
/-! # The event loop: a per-delivery C01 obligation lifts to `flushWith`, unwinding included (sample / section D)

`DeliverS deliver`: started with the invariant `SInv` and a deliverable item `it` (`ItemOK`), `deliver it` ends — on
normal return and on panic — with `SInv` again (in particular `QInv` of the segment it leaves), and has no `ub` /
`assert` exit.  Together with "`deliver` does not assign the frame" (`Keeps (FR fr)`: registries cannot change during a
flush, the arena epoch is only bumped when the queue is empty) and `SafeK SInv dropQueued` this gives
`SafeK SInv (flushWith deliver fuel)`. -/
namespace Evenio
open InvV7

theorem SMid.frame_queue {w : World} (h : SMid w) (q : List QItem) (n : Nat) :
    SMid { w with queue := q, arenaEpoch := n } := ⟨h.1.frame (by releq) rfl rfl, h.2⟩

/-- `tryCatch` for triples whose exceptional postcondition is `PanicAnd _`: the handler is only analysed for panics -/
theorem Hoare.tryCatch_panicAnd {α : Type} {m : M α} {h : Err → M α} {P : World → Prop} {Q : α → World → Prop}
    {J1 J : World → Prop} (hm : Hoare P m Q (PanicAnd J1)) (hmono : ∀ e, SlabMono (h e))
    (hQ : ∀ a w, (Small w → Q a w) → Q a w)
    (hh : ∀ e, e.isPanic = true → Hoare (Guarded J1) (h e) Q (PanicAnd J)) :
    Hoare P (MonadExcept.tryCatch m h) Q (PanicAnd J) := by
  refine ⟨fun w hw => ?_⟩
  rw [run_tryCatch]
  have r1 := hm.run w hw
  generalize m.run.run w = r at r1
  obtain ⟨(e|a), w1⟩ := r
  · by_cases hp : e.isPanic = true
    · exact (hh e hp).run w1 fun hs => (r1 hs).2
    · dsimp only
      generalize hr : (h e).run.run w1 = res
      obtain ⟨(e'|a'), w2⟩ := res
      · exact fun hs => absurd (r1 ((hmono e).small hr hs)).1 hp
      · exact hQ _ _ fun hs => absurd (r1 ((hmono e).small hr hs)).1 hp
  · exact r1

/-- **the per-delivery obligation of C01** -/
def DeliverS (deliver : QItem → M Unit) : Prop :=
  ∀ it, Hoare (Guarded fun w => SInv w ∧ ItemOK w.frame it) (deliver it) (fun _ => GS) (PanicAnd SInv)

theorem flushWith_slabMono {deliver : QItem → M Unit} (hmono : ∀ it, SlabMono (deliver it)) (fuel : Nat) :
    SlabMono (flushWith deliver fuel) :=
  fun n => flushWith_keeps sl_queueBlind (fun it => hmono it n) dropQueued_sl fuel

/-- the unwinding guard of `flushWith` never shrinks the slab -/
theorem flushGuard_slabMono (rest : List QItem) (e : Err) :
    SlabMono (do
      modify fun w => { w with queue := rest ++ w.queue }
      match e with
      | .panic _ => dropQueued
      | _ => pure ()
      throw e : M Unit) := fun n => by keeps

/-- **a per-delivery obligation lifts to the whole flush**, unwinding included: when `deliver` panics, `SInv` holds in
    the state it left, the guard puts the set-aside items back (they are still deliverable: the frame did not change) and
    `dropQueued` finds the drop function of every one of them -/
theorem flushWith_safeK {deliver : QItem → M Unit} (hmono : ∀ it, SlabMono (deliver it))
    (hfr : ∀ it fr, Keeps (FR fr) (deliver it)) (hd : DeliverS deliver) (hq : SafeK SInv dropQueued) (fuel : Nat) :
    SafeK SInv (flushWith deliver fuel) := by
  induction fuel with
  | zero => exact SafeK.throw rfl
  | succ fuel ih =>
    refine Hoare.unguard (flushWith_slabMono hmono _) (fun _ => guarded_absorb) PanicAnd.absorb fun w0 _ hw0 => ?_
    rw [flushWith]
    refine Hoare.get_bind_eq fun w hw => ?_
    subst hw
    split
    · next hnone =>
      refine ⟨fun w1 _ => ?_⟩
      simp only [run_set]
      exact fun _ => ⟨hw0.1.frame_queue _ _, QInv.of_qnil (List.getLast?_eq_none_iff.1 hnone)⟩
    · next it hit =>
      obtain ⟨hitem, hrest⟩ := QOK.of_getLast? hw0.2 hit
      -- the set-aside items stay deliverable as long as the frame is the one of `w`
      let J1 : World → Prop := fun w1 => SInv w1 ∧ FR w.frame w1
      have hback : ∀ w2, Guarded J1 w2 → GS { w2 with queue := w.queue.dropLast ++ w2.queue } := by
        intro w2 h2 hs
        obtain ⟨h3, h4⟩ := h2 hs
        refine ⟨h3.1.frame_queue _ _, ?_⟩
        have hf : ({ w2 with queue := w.queue.dropLast ++ w2.queue } : World).frame = w.frame := h4
        unfold QInv
        rw [hf]
        exact hrest.append (by have := h3.2; unfold QInv at this; rw [show w2.frame = w.frame from h4] at this; exact this)
      refine Hoare.bind (R := fun _ w1 => FR w.frame w1 ∧ Guarded (fun w => SInv w ∧ ItemOK w.frame it) w1)
        ⟨fun w1 _ => ?_⟩ fun _ => ?_
      · simp only [run_set]
        exact ⟨rfl, fun _ => ⟨⟨hw0.1.frame_queue _ _, QInv.of_qnil rfl⟩, hitem⟩⟩
      refine Hoare.bind (R := fun _ => Guarded J1) (Hoare.tryCatch_panicAnd (J1 := J1) ?_
        (flushGuard_slabMono _) (fun _ => guarded_absorb) fun e hp => ?_) fun _ => ?_
      · -- the delivery
        have h1 := Hoare.of_keeps (E := fun _ => FR w.frame) (hfr it w.frame) (fun _ _ h => h)
        refine Hoare.post (Hoare.and (Hoare.pre h1 fun _ h => h.1) (Hoare.pre (hd it) fun _ h => h.2)) ?_ ?_
        · exact fun _ w2 h hs => ⟨h.2 hs, h.1⟩
        · exact fun e w2 h hs => ⟨(h.2 hs).1, (h.2 hs).2, h.1⟩
      · -- the unwinding guard
        cases e with
        | panic s =>
          refine Hoare.bind (R := fun _ => GS) ⟨fun w2 h2 => ?_⟩ fun _ => ?_
          · simp only [run_modify]; exact hback w2 h2
          · exact Hoare.bind (Hoare.post hq (fun _ _ h => h) fun _ _ h => h) fun _ =>
              Hoare.throw fun w3 h3 hs => ⟨rfl, h3 hs⟩
        | ub s => cases hp
        | assert s => cases hp
      · -- normal return of the delivery: the set-aside items go back under the segment, the loop goes on
        refine Hoare.bind (R := fun _ => GS) ⟨fun w2 h2 => ?_⟩ fun _ => ih
        simp only [run_modify]; exact hback w2 h2

/-- … in particular `Safe` -/
theorem flushWith_safe {deliver : QItem → M Unit} (hmono : ∀ it, SlabMono (deliver it))
    (hfr : ∀ it fr, Keeps (FR fr) (deliver it)) (hd : DeliverS deliver) (hq : SafeK SInv dropQueued) (fuel : Nat) :
    Safe GS (flushWith deliver fuel) := (flushWith_safeK hmono hfr hd hq fuel).safe

end Evenio
