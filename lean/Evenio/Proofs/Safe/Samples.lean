import Evenio.Proofs.Safe.Obligations
/-! # Sample proofs validating the shapes: `reserve`, `bumpCell`, `resRefresh`, `senderPush`, the generic `ms_keeps`,
    the glue of `ensureAddG` / `addGlobalEvent` / `sendGlobal` (from the flush obligation), and the top of the
    tower (`reachable_no_ub` from `execOp_safe` + `recvInv_execOp`). -/
namespace Evenio
open InvV7

/-! ### A: primitives -/

theorem reserve_safe : SObl.reserve_safe :=
  Safe.of_run fun w e w' _ h _ => by
    rw [reserve_run] at h
    split at h <;> cases h <;> rfl

theorem bumpCell_safe : SObl.bumpCell_safe := fun ai row c =>
  Safe.of_noError fun w ⟨a, i, col, x, ha, hi, hc, hx⟩ => by
    unfold bumpCell
    rw [run_bind, run_getArch _ ha]
    simp only [hi, hc, hx]
    exact ⟨_, _, rfl⟩

theorem resRefresh_safe : SObl.resRefresh_safe :=
  Safe.of_noError fun w hw => by
    unfold resRefresh
    rw [run_bind, run_get]
    dsimp only
    rw [run_bind, run_dbgAssert_true _ (.inr (by rw [hw]; rfl))]
    exact ⟨_, _, rfl⟩

/-! ### C: `senderPush` never fails with a marker -/

theorem senderPush_safe : SObl.senderPush_safe := fun h it => by
  unfold senderPush
  split
  · refine Safe.bind_inv (E := fun _ _ => True) (Safe.of_noError fun w _ => ⟨_, _, run_dropEvent it w⟩)
      ⟨fun w _ => by rw [run_dropEvent]; trivial⟩ fun _ => Safe.throw rfl
  · exact Safe.of_noError fun w _ => ⟨_, _, rfl⟩

/-! ### B: `MS` is kept on normal returns -/

theorem ms_keeps : SObl.ms_keeps := by
  intro α m hmono hW hq hr
  -- `SMid = WInvMid ∧ RecvInv` under the guard, then the empty queue
  have h1 := Guarded.and_keeps (J := WInvMid) (K := RecvInv) hmono hW hr
  exact Guarded.and_qe (J := SMid) hmono h1 hq

/-! ### B: the glue of `ensureAddG`, `addGlobalEvent`, `sendGlobal` from the flush obligation

The pattern for all registration functions: walk the code as `Glue.lean` does; at every bind give `Safe.bind` the
normal-return triple that exists already (`ms_keeps` of `Pieces.glue_*` + `*_qe` + `recvInv_*`). -/

section registration
variable (P : Pieces)
include P

/-- the raw registry write of `ensureAddG` / `addGlobalEvent` keeps `MS` and makes the new index live -/
theorem ms_regGev {w : World} (hw : MS w) {ty : EvTy} {k : Key} {gevs' : SlotMap EvInfo}
    (hins : w.gevs.insertWith (Step.gevEntry ty) = some (k, gevs')) :
    Guarded (fun w1 => (SMid w1 ∧ QNil w1) ∧ ItemOK w1.frame { ty := .addG, idx := k.idx, pay := { id := k } })
      (Step.regGev w k gevs') := by
  intro hs
  have hs0 : Small w := hs
  obtain ⟨⟨hW, hR⟩, hQ⟩ := hw hs0
  have hgw : GW (Step.regGev w k gevs') := gw_regGev (Pieces.regGev_keeps P) (fun _ => hW) hins
  refine ⟨⟨⟨hgw hs, hR⟩, hQ⟩, ?_, fun x hx => nomatch hx⟩
  have hv : gevs'.get k = some (Step.gevEntry ty k) := by
    rw [SlotMap.get_insertWith hW.1.gevsWF hins k, if_pos rfl]
  have hwf : gevs'.WF := (hgw hs).1.gevsWF
  show (gevs'.getByIndex k.idx).isSome = true
  rw [SlotMap.get_getByIndex hwf hv]; rfl

omit P in
/-- pushing a deliverable item onto the empty queue establishes the flush invariant -/
theorem push_gs (it : QItem) :
    Hoare (Guarded fun w => (SMid w ∧ QNil w) ∧ ItemOK w.frame it) (push it) (fun _ => GS) (fun _ _ => True) := by
  refine ⟨fun w hw => ?_⟩
  show GS { w with queue := w.queue ++ [it] }
  intro hs
  obtain ⟨⟨hM, hQ⟩, hI⟩ := hw hs
  refine ⟨⟨hM.1.frame (by releq) rfl rfl, hM.2⟩, ?_⟩
  show QOK w.frame (w.queue ++ [it])
  rw [show w.queue = [] from hQ]
  exact (QOK.nil _).snoc hI

omit P in
theorem push_safe (it : QItem) {Pre : World → Prop} : Safe Pre (push it) := Safe.of_noError fun _ _ => ⟨_, _, rfl⟩

omit P in
/-- **entering a flush** (`SObl.push_flush_safe`) from the flush obligation -/
theorem push_flush_safe (hfl : SObl.flush_safeK) : SObl.push_flush_safe := fun it fuel =>
  Safe.bind (push_safe it) (push_gs it) fun _ => (hfl fuel).safe

/-- **glue sample: `ensureAddG`** — the raw registry write is followed by `push; flush`; at the write the exact state
    is known, `ms_regGev` gives the precondition of the flush -/
theorem ensureAddG_safe (hfl : SObl.flush_safeK) : SObl.ensureAddG_safe := by
  unfold SObl.ensureAddG_safe ensureAddG
  refine Safe.get_bind_eq fun w hw => ?_
  split
  · exact Safe.pure _
  · split
    · exact Safe.throw rfl
    · next k gevs hins =>
      refine Safe.bind (E := fun _ _ => True)
        (R := fun _ => Guarded fun w1 => (SMid w1 ∧ QNil w1) ∧
          ItemOK w1.frame { ty := .addG, idx := k.idx, pay := { id := k } })
        (Safe.of_noError fun _ _ => ⟨_, _, rfl⟩) ⟨fun w0 _ => ?_⟩ fun _ => ?_
      · simp only [run_set]
        exact ms_regGev P hw (ty := .addG) hins
      refine Safe.bind (push_safe _) (push_gs _) fun _ => ?_
      exact Safe.bind (E := fun _ _ => True) (R := fun _ _ => True) (hfl _).safe
        (Hoare.post (hfl _) (fun _ _ _ => trivial) fun _ _ _ => trivial) fun _ => Safe.pure _

end registration

/-! ### E: the top of the tower -/

theorem stop_stepInit {w : World} (hW : WInv w) (hQ : Quiescent w) (hA : AuxInv w) (hR : RecvInv w) :
    STop (stepInit w) := fun hs => ⟨gqa_stepInit hW hQ hA hs, hR⟩

/-- one step from any world satisfying the invariants -/
theorem step_no_ub_of (h1 : SObl.execOp_safe) : SObl.step_no_ub := by
  intro w op hW hQ hA hR hv hs e he
  have r := (h1 op hv).run (stepInit w) (stop_stepInit hW hQ hA hR)
  rw [step_fst] at hs
  generalize (execOp op).run.run (stepInit w) = res at r he hs
  obtain ⟨(e'|a), w'⟩ := res
  · cases he; exact r hs
  · cases he

/-- `RecvInv` in every reachable world (unguarded: it is kept on every exit) -/
theorem reachS_recvInv (h2 : SObl.recvInv_execOp) : ∀ w, ReachS w → RecvInv w := by
  intro w h
  induction h with
  | init => intro k h hk; rw [show ({} : World).handlers.get k = none from slotMap_empty_get k] at hk; cases hk
  | @step w op _ hv _ ih => rw [step_fst]; exact (h2 op hv).run (stepInit w) ih
  | @panic w op _ hv _ _ ih => rw [step_fst]; exact (h2 op hv).run (stepInit w) ih

theorem reachS_reachP {w : World} (h : ReachS w) : ReachP w := by
  induction h with
  | init => exact .init
  | step op _ hv hok ih => exact .step op ih hv.1 hok
  | panic op _ hv hp hc ih => exact .panic op ih hv.1 hp hc

/-- **C01 from the two top-level obligations** -/
theorem reachable_no_ub_of (h1 : SObl.execOp_safe) (h2 : SObl.recvInv_execOp) : SObl.reachable_no_ub := by
  intro w op hr hv hs e he
  have hs0 : Small w := small_of_step' w op hv.1 hs
  obtain ⟨hW, hQ⟩ := reachableP_WInv w (reachS_reachP hr) hs0
  exact step_no_ub_of h1 w op hW hQ (reachableP_auxInv w (reachS_reachP hr)) (reachS_recvInv h2 w hr) hv hs e he

end Evenio
