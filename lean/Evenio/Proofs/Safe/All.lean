import Evenio.Proofs.Safe.Defs
import Evenio.Proofs.Safe.Flush
import Evenio.Proofs.Safe.Obligations
import Evenio.Proofs.Safe.Samples
