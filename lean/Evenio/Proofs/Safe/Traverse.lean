import Evenio.Proofs.Safe.Samples
import Evenio.Props.ReachStore
/-! # C01, worker W1 — graph primitives

`handlerRefresh_safe`, `handlerRemoveArch_safe`, `registerHandler_safe`, `hlive_keeps`, `traverseInsert_safe`,
`traverseRemove_safe`, `traverseInsert_movePre`, `traverseRemove_movePre`. -/
namespace Evenio
open InvV7

namespace SafeS1

/-! ### handler pointers -/

theorem handlerRefresh_safe' (hk : Key) (a : Arch) :
    Safe (fun w => (w.handlers.get hk).isSome = true ∧ a.ids.length ≠ 0) (handlerRefresh hk a) :=
  Safe.of_noError fun w ⟨hw, ha⟩ => by
    unfold handlerRefresh
    rw [run_bind, run_get]
    dsimp only
    cases hg : w.handlers.get hk with
    | none => rw [hg] at hw; cases hw
    | some h =>
      dsimp only
      rw [run_bind, run_dbgAssert_true _ (.inr (by simpa using ha))]
      exact ⟨_, _, rfl⟩

theorem handlerRemoveArch_safe' (hk : Key) (a : Arch) :
    Safe (fun w => (w.handlers.get hk).isSome = true) (handlerRemoveArch hk a) :=
  Safe.of_noError fun w hw => by
    unfold handlerRemoveArch
    rw [run_bind, run_get]
    dsimp only
    cases hg : w.handlers.get hk with
    | none => rw [hg] at hw; cases hw
    | some h => exact ⟨_, _, rfl⟩

/-! ### registered handlers stay registered (`HK`, Proofs/Listeners.lean) -/

theorem live_of_hk {α : Type} {m : M α} (h : ∀ reg, Keeps (HK reg) m) (k : Key) :
    Keeps (fun w => (w.handlers.get k).isSome = true) m := by
  refine ⟨fun w hw => ?_⟩
  have := (h fun k => (w.handlers.get k).map HInfo.core).run w (fun _ => rfl) k
  dsimp only at this
  have h2 : ((m.run.run w).2.handlers.get k).isSome = ((w.handlers.get k).map HInfo.core).isSome := by
    rw [← this, Option.isSome_map]
  rw [h2, Option.isSome_map]; exact hw

theorem hlive_of_hk {α : Type} {m : M α} (h : ∀ reg, Keeps (HK reg) m) (ks : List Key) :
    Keeps (HLive ks) m :=
  ⟨fun w hw k hk => (live_of_hk h k).run w (hw k hk)⟩

/-! ### `Arch.registerHandler` -/

theorem registerHandler_safe' (a : Arch) (h : HInfo) :
    Safe (fun w => (w.handlers.get h.key).isSome = true) (a.registerHandler h) := by
  unfold Arch.registerHandler
  dsimp only
  split
  · split
    · next hlen =>
      refine Safe.of_keeps_bind (live_of_hk (fun _ => handlerRefresh_hk _ _) _)
        (Safe.pre (handlerRefresh_safe' _ _) fun w hw => ⟨hw, by omega⟩) fun _ => ?_
      safe
    · safe
  · safe

/-! ### `newArch`: the archetype under construction is empty, so `registerHandler` never refreshes -/

theorem registerHandler_empty (b : Arch) (h : HInfo) (hb : b.ids = []) :
    ∃ b', b'.ids = [] ∧ ∀ w, (b.registerHandler h).run.run w = (.ok b', w) := by
  unfold Arch.registerHandler
  dsimp only
  have hlen : ¬ b.ids.length > 0 := by simp [hb]
  simp only [hlen, if_false]
  repeat' split
  all_goals refine ⟨_, ?_, fun w => rfl⟩
  all_goals exact hb

/-- what `newArch` needs: the components are registered (`archetype.rs:Archetype::new:component`), the handler list only
    holds registered handlers (`handler-ptr:by_insert_order`) -/
def NewPre (cs : List Nat) (w : World) : Prop := (∀ c ∈ cs, CompLive c w) ∧ HLive w.byInsertOrder w

theorem newArch_safe (cs : List Nat) (ei er : Option (Nat × Nat)) : Safe (NewPre cs) (newArch cs ei er) := by
  unfold newArch
  refine Safe.get_bind fun w0 _ => ?_
  dsimp only
  refine Hoare.bind (R := fun _ => NewPre cs) ?_ fun _ => ?_
  · -- loop 1: `member_of.insert`; `comps` is only `set`
    refine Hoare.forIn_list_mem (E := NoUB) (fun _ => NewPre cs) fun c hc _ => ?_
    refine Hoare.get_bind fun w hw => ?_
    split
    · next heq => exact absurd (hw.1 c hc) (by unfold CompLive; rw [heq]; simp)
    · next k ci heq =>
      obtain ⟨hg0, -⟩ := SlotMap.getByIndex_get heq
      refine Hoare.bind (R := fun _ => NewPre cs) ⟨fun w1 _ => ?_⟩ fun _ => Hoare.pure fun _ h => h
      simp only [run_set]
      refine ⟨fun c' hc' => ?_, hw.2⟩
      show ((w.comps.set k _).getByIndex c').isSome = true
      rw [InvV1.getByIndex_set_isSome hg0]
      exact hw.1 c' hc'
  · -- loop 2: the registration loop does not touch the world
    split <;> split <;>
    · refine Safe.get_bind_eq fun w1 hw1 => ?_
      refine Hoare.bind (R := fun _ _ => True) ?_ fun s => Safe.of_noError fun w _ => ⟨_, _, rfl⟩
      refine Hoare.pre (P' := (fun (b : Arch) w => b.ids = [] ∧ HLive w1.byInsertOrder w) _) (Hoare.post
        (Hoare.forIn_list_mem (E := NoUB) (fun (b : Arch) w => b.ids = [] ∧ HLive w1.byInsertOrder w)
          fun hk hmem b => ?_) (fun _ _ _ => trivial) fun _ _ h => h) fun w hw => ⟨rfl, hw ▸ hw1.2⟩
      refine Hoare.get_bind fun w hw => ?_
      split
      · next heq => exact absurd (hw.2 hk hmem) (by rw [heq]; simp)
      · next h heq =>
        obtain ⟨b', hb', hrun⟩ := registerHandler_empty b h hw.1
        refine ⟨fun w2 hw2 => ?_⟩
        rw [run_bind, hrun]
        exact ⟨hb', hw2.2⟩

/-! ### `traverseInsert`, `traverseRemove` -/

theorem hoare_const_and {α : Type} {p : Prop} {P : World → Prop} {m : M α} {Q : α → World → Prop}
    {E : Err → World → Prop} (h : p → Hoare P m Q E) : Hoare (fun w => p ∧ P w) m Q E :=
  ⟨fun w hw => (h hw.1).run w hw.2⟩

theorem getArch_at {w0 : World} {i : Nat} {a : Arch} (s : String) (h : w0.archs.get i = some a)
    {E : Err → World → Prop} : Hoare (fun w => w = w0) (getArch i s) (fun r w => r = a ∧ w = w0) E :=
  ⟨fun w hw => by subst hw; rw [run_getArch s h]; exact ⟨rfl, rfl⟩⟩

theorem getArch_safe_at {w0 : World} {i : Nat} {a : Arch} (s : String) (h : w0.archs.get i = some a) :
    Safe (fun w => w = w0) (getArch i s) :=
  Safe.of_hoare (getArch_at (E := fun _ _ => False) s h) fun _ _ h => h.elim

theorem hlive_ord {w : World} (h : WInv w) : HLive w.byInsertOrder w :=
  fun k hk => (h.lists.ordMem k).1 hk

/-- after `newArch` the source archetype is still there: `…:src2`, then `setArch` -/
theorem after_newArch {w1 : World} (hwf : Slab.WF w1.archs) {src : Nat} {sa : Arch} (hsa : w1.archs.get src = some sa)
    {cs : List Nat} {ei er : Option (Nat × Nat)} {d : Nat} {β : Type} (s : String) (f : Arch → M β)
    (hf : ∀ a w, ∃ b w', (f a).run.run w = (.ok b, w')) :
    Safe (fun w' => d = w1.archs.vacantKey ∧ ∃ a, w'.archs = w1.archs.insert a ∧
      C17.NewCore w1.archs.vacantKey cs ei er a) (getArch src s >>= f) := by
  refine Safe.of_noError fun w2 ⟨_, b, hb, _⟩ => ?_
  have hk : src ≠ w1.archs.vacantKey := by
    intro h
    rw [h, Slab.get_vacantKey_none hwf] at hsa; cases hsa
  have hsa2 : w2.archs.get src = some sa := by rw [hb, Slab.get_insert_other _ _ hk]; exact hsa
  rw [run_bind, run_getArch _ hsa2]
  exact hf _ _

theorem traverseInsert_safe' (src c : Nat) :
    Safe (Guarded fun w => WInvMid w ∧ (w.archs.get src).isSome = true ∧ CompLive c w) (traverseInsert src c) := by
  refine Safe.unguard (fun n => traverseInsert_sl src c) fun w0 _ ⟨hW, hsrc, hc⟩ => ?_
  obtain ⟨sa, hsa⟩ := Option.isSome_iff_exists.1 hsrc
  have hG := hW.1.graph.graph
  unfold traverseInsert
  refine Safe.get_bind_eq fun w hw => ?_
  subst hw
  refine Safe.bind_inv (E := fun _ _ => True)
    (Safe.of_noError fun w1 h1 => ⟨_, _, run_dbgAssert_true _ (.inr (h1 ▸ hc))⟩)
    (Hoare.of_keeps (dbgAssert_same w _ _) fun _ _ _ => trivial) fun _ => ?_
  refine Safe.bind (E := fun _ _ => True) (getArch_safe_at _ hsa) (getArch_at _ hsa) fun sa' => ?_
  refine hoare_const_and fun hsa' => ?_
  subst hsa'
  split
  · exact Safe.pure _
  · split
    · exact Safe.pure _
    · dsimp only
      refine Safe.get_bind_eq fun w1 hw1 => ?_
      subst hw1
      split
      · exact Safe.of_noError fun _ _ => ⟨_, _, rfl⟩
      · refine Safe.bind (E := fun _ _ => True)
          (Safe.pre (newArch_safe _ _ _) fun w1 h1 => ?_)
          (Hoare.of_hoareOk (HoareOk.pre (C17.newArch_spec _ _ _ w1.archs) fun w2 h2 => by rw [h2])) fun d => ?_
        · subst h1
          refine ⟨fun c' hc' => ?_, hlive_ord hW.1⟩
          rcases (mem_insertSorted _ _ _).1 hc' with rfl | hm
          · exact hc
          · exact hW.1.graph.compsLive src sa' hsa c' hm
        · exact after_newArch hG.wf hsa _ _ fun _ _ => ⟨_, _, rfl⟩

theorem traverseRemove_safe' (src c : Nat) :
    Safe (Guarded fun w => WInvMid w ∧ (w.archs.get src).isSome = true) (traverseRemove src c) := by
  refine Safe.unguard (fun n => traverseRemove_sl src c) fun w0 _ ⟨hW, hsrc⟩ => ?_
  obtain ⟨sa, hsa⟩ := Option.isSome_iff_exists.1 hsrc
  have hG := hW.1.graph.graph
  unfold traverseRemove
  refine Safe.bind (E := fun _ _ => True) (getArch_safe_at _ hsa) (getArch_at _ hsa) fun sa' => ?_
  refine hoare_const_and fun hsa' => ?_
  subst hsa'
  split
  · exact Safe.pure _
  · split
    · exact Safe.pure _
    · dsimp only
      refine Safe.get_bind_eq fun w1 hw1 => ?_
      subst hw1
      split
      · exact Safe.of_noError fun _ _ => ⟨_, _, rfl⟩
      · refine Safe.bind (E := fun _ _ => True)
          (Safe.pre (newArch_safe _ _ _) fun w1 h1 => ?_)
          (Hoare.of_hoareOk (HoareOk.pre (C17.newArch_spec _ _ _ w1.archs) fun w2 h2 => by rw [h2])) fun d => ?_
        · subst h1
          refine ⟨fun c' hc' => ?_, hlive_ord hW.1⟩
          exact hW.1.graph.compsLive src sa' hsa c' (List.mem_filter.1 hc').1
        · exact after_newArch hG.wf hsa _ _ fun _ _ => ⟨_, _, rfl⟩

/-! ### the contract of the following `moveEntity` -/

theorem filter_insertSorted_new (p : Nat → Bool) (c : Nat) (hc : p c = true) :
    ∀ l : List Nat, (∀ x ∈ l, p x = false) → (insertSorted l c).filter p = [c] := by
  intro l
  induction l with
  | nil => intro _; simp [insertSorted, hc]
  | cons x xs ih =>
    intro h
    have hx : p x = false := h x List.mem_cons_self
    have hxs : ∀ y ∈ xs, p y = false := fun y hy => h y (List.mem_cons_of_mem _ hy)
    have hnil : xs.filter p = [] := List.filter_eq_nil_iff.2 fun y hy => by rw [hxs y hy]; simp
    unfold insertSorted
    split
    · simp [hc, hx, hnil]
    · split
      · next e => subst e; rw [hc] at hx; cases hx
      · rw [List.filter_cons_of_neg (by rw [hx]; simp)]
        exact ih hxs

theorem traverseInsert_movePre' (loc : Loc) (c : Nat) (x : Cell) :
    HoareOk (Guarded fun w => WInvMid w ∧ LocLive loc w ∧ CompLive c w) (traverseInsert loc.arch c)
      (fun dst => Guarded fun w => WInvMid w ∧ MovePre loc dst [(c, x)] w) := by
  refine ⟨fun w hw d w' hr hs' => ?_⟩
  have hs : Small w := SlabMono.small (fun n => traverseInsert_sl loc.arch c) hr hs'
  obtain ⟨hW, ⟨e, he⟩, hc⟩ := hw hs
  have hW' : WInvMid w' := (pieces.kw_traverseInsert loc.arch c).ok (fun _ => hW) hr hs'
  obtain ⟨sa, hsa, -⟩ := ReachStore.read_winv hW.1 he
  obtain ⟨-, hents, -, ⟨sa1, hsa1, hsac⟩, b, hb, hbc, hsame⟩ := ReachStore.traverseInsert_store_winv hW.1 hsa hr
  refine ⟨hW', ⟨e, by rw [hents]; exact he⟩, by rw [hb]; rfl, fun hne sa' da hsa' hda => ?_, fun heq sa' hsa' p hp => ?_⟩
  · rw [hsa1] at hsa'; rw [hb] at hda
    cases hsa'; cases hda
    have hcn : c ∉ sa.comps := fun hin => hne (hsame hin).symm
    rw [if_neg hcn] at hbc
    rw [hbc, hsac]
    exact (filter_insertSorted_new _ c (by simpa using hcn) _ fun y hy => by simpa using hy).symm
  · rw [hb] at hsa'; cases hsa'
    cases List.mem_singleton.1 hp
    rw [hbc]
    split
    · assumption
    · exact (mem_insertSorted _ _ _).2 (.inl rfl)

theorem traverseRemove_movePre' (loc : Loc) (c : Nat) :
    HoareOk (Guarded fun w => WInvMid w ∧ LocLive loc w) (traverseRemove loc.arch c)
      (fun dst => Guarded fun w => WInvMid w ∧ MovePre loc dst [] w) := by
  refine ⟨fun w hw d w' hr hs' => ?_⟩
  have hs : Small w := SlabMono.small (fun n => traverseRemove_sl loc.arch c) hr hs'
  obtain ⟨hW, ⟨e, he⟩⟩ := hw hs
  have hW' : WInvMid w' := (pieces.kw_traverseRemove loc.arch c).ok (fun _ => hW) hr hs'
  obtain ⟨sa, hsa, -⟩ := ReachStore.read_winv hW.1 he
  obtain ⟨-, hents, -, ⟨sa1, hsa1, hsac⟩, b, hb, hbc, hsame⟩ := ReachStore.traverseRemove_store_winv hW.1 hsa hr
  refine ⟨hW', ⟨e, by rw [hents]; exact he⟩, by rw [hb]; rfl, fun hne sa' da hsa' hda => ?_, fun _ _ _ p hp => nomatch hp⟩
  rw [hsa1] at hsa'; rw [hb] at hda
  cases hsa'; cases hda
  rw [hbc, hsac]
  symm
  refine List.filter_eq_nil_iff.2 fun y hy => ?_
  have := (List.mem_filter.1 hy).1
  simpa using this

/-! ### conveniences for the callers (not obligations) -/

/-- the refresh set of a live archetype only holds registered handlers (`ArchListsOK.refresh`): the precondition of the
    `for hk in a.refresh` loops of `archSpawn` / `moveEntity` / `removeEntity` / `dropCompTail` -/
theorem hlive_refresh {w : World} (h : WInv w) {i : Nat} {a : Arch} (ha : w.archs.get i = some a) :
    HLive a.refresh w := fun k hk => by
  obtain ⟨-, hi, hg, -⟩ := ((h.lists.arch i a ha).refresh k).1 hk
  rw [hg]; rfl

/-- the traversals in the form the `Insert` / `Remove` effects call them: at the archetype of a live location -/
theorem traverseInsert_safe_loc (loc : Loc) (c : Nat) :
    Safe (Guarded fun w => WInvMid w ∧ LocLive loc w ∧ CompLive c w) (traverseInsert loc.arch c) :=
  Safe.pre (traverseInsert_safe' loc.arch c) fun w hw hs => by
    obtain ⟨hW, ⟨e, he⟩, hc⟩ := hw hs
    obtain ⟨sa, hsa, -⟩ := ReachStore.read_winv hW.1 he
    exact ⟨hW, by rw [hsa]; rfl, hc⟩

theorem traverseRemove_safe_loc (loc : Loc) (c : Nat) :
    Safe (Guarded fun w => WInvMid w ∧ LocLive loc w) (traverseRemove loc.arch c) :=
  Safe.pre (traverseRemove_safe' loc.arch c) fun w hw hs => by
    obtain ⟨hW, ⟨e, he⟩⟩ := hw hs
    obtain ⟨sa, hsa, -⟩ := ReachStore.read_winv hW.1 he
    exact ⟨hW, by rw [hsa]; rfl⟩

end SafeS1

theorem handlerRefresh_safe : SObl.handlerRefresh_safe := SafeS1.handlerRefresh_safe'
theorem handlerRemoveArch_safe : SObl.handlerRemoveArch_safe := SafeS1.handlerRemoveArch_safe'
theorem registerHandler_safe : SObl.registerHandler_safe := SafeS1.registerHandler_safe'

theorem traverseInsert_safe : SObl.traverseInsert_safe := SafeS1.traverseInsert_safe'
theorem traverseRemove_safe : SObl.traverseRemove_safe := SafeS1.traverseRemove_safe'

theorem traverseInsert_movePre : SObl.traverseInsert_movePre := SafeS1.traverseInsert_movePre'
theorem traverseRemove_movePre : SObl.traverseRemove_movePre := SafeS1.traverseRemove_movePre'

theorem hlive_keeps : SObl.hlive_keeps := fun ks =>
  ⟨fun hk a => SafeS1.hlive_of_hk (fun _ => handlerRefresh_hk hk a) ks,
   fun hk a => SafeS1.hlive_of_hk (fun _ => handlerRemoveArch_hk hk a) ks,
   fun id => SafeS1.hlive_of_hk (fun _ => archSpawn_hk id) ks,
   SafeS1.hlive_of_hk (fun _ => spawnAll_hk) ks,
   fun src dst new => SafeS1.hlive_of_hk (fun _ => moveEntity_hk src dst new) ks,
   fun loc => SafeS1.hlive_of_hk (fun _ => removeEntity_hk loc) ks,
   fun src c => SafeS1.hlive_of_hk (fun _ => traverseInsert_hk src c) ks,
   fun src c => SafeS1.hlive_of_hk (fun _ => traverseRemove_hk src c) ks,
   fun hk it loc => SafeS1.hlive_of_hk (fun _ => runHandler_hk hk it loc) ks⟩

end Evenio

#print axioms Evenio.handlerRefresh_safe
#print axioms Evenio.handlerRemoveArch_safe
#print axioms Evenio.registerHandler_safe
#print axioms Evenio.hlive_keeps
#print axioms Evenio.traverseInsert_safe
#print axioms Evenio.traverseRemove_safe
#print axioms Evenio.traverseInsert_movePre
#print axioms Evenio.traverseRemove_movePre
