import Evenio.Proofs.Safe.Top
import Evenio.Proofs.Safe.Handler
/-!
# C01, the last gap closed — the unconditional end results

W4 (Safe/Deliver.lean) proved the event loop (`handlerLoop_safeK`, `deliverOne_safeK`, `flush_safeK`) from W3's two
statements about `Handler::run` taken as HYPOTHESES: `SObl.runHandler_safeK` and `SObl.runHandler_ctx`.  The second one
is FALSE as stated (`runHandler_ctx_false`, Safe/Handler.lean: it is a `Keeps` from ANY world, and `bumpCell` misbehaves
in a world where an archetype is not stored under its own slab index).  W3 proved the statement the handler loop
really needs: `runHandler_safeK_ctx` (`runHandler_safeK` with the contexts `∀ hk' ∈ hs, RunCtx hk' it loc w` of the
handlers still to run carried in pre- and postcondition — literally the loop invariant of `SObl.handlerLoop_safeK`).

This file re-derives the event loop WITHOUT the false hypothesis (the proofs are W4's, `h2` was only used inside
`SafeS4.runHandler_all`, which is replaced by `SafeFinal.runHandler_all`, an instance of `runHandler_safeK_ctx`):

* `SafeFinal.handlerLoop_safeK : SObl.handlerLoop_safeK`
* `SafeFinal.deliverOne_safeK : SObl.deliverOne_safeK`
* `SafeFinal.flush_safeK : SObl.flush_safeK`

and instantiates the assembler's conditional theorems (Safe/Top.lean), no hypothesis left:

* `SafeFinal.execOp_safe : SObl.execOp_safe`
* `SafeFinal.step_no_ub : SObl.step_no_ub`
* `SafeFinal.reachable_no_ub : SObl.reachable_no_ub`
  (and `removeEvent_safe`, `removeComponent_safe`, `opSpawn_safe`, `ensureAddG_safe`, `push_flush_safe`).

The unprimed names `Evenio.handlerLoop_safeK` … are W4's / the assembler's conditional versions; the unconditional ones
live in the namespace `SafeFinal`.
-/
namespace Evenio
open InvV7

namespace SafeFinal

/-- running one handler of the list keeps the loop invariant of `handlerLoop` — `SafeS4.runHandler_all` without the
    false hypothesis `SObl.runHandler_ctx`: an instance of W3's `runHandler_safeK_ctx` -/
theorem runHandler_all (it : QItem) (loc : Loc) (hs : List Key) (hk : Key) (hm : hk ∈ hs) :
    Hoare (Guarded fun w => SInv w ∧ ∀ hk ∈ hs, RunCtx hk it loc w) (runHandler hk it loc)
      (fun _ => Guarded fun w => SInv w ∧ ∀ hk ∈ hs, RunCtx hk it loc w) (PanicAnd SInv) :=
  Hoare.post (Hoare.pre (runHandler_safeK_ctx hk it loc hs) fun _ h hs' => ⟨(h hs').1, (h hs').2 hk hm, (h hs').2⟩)
    (fun _ _ h hs' => ⟨(h hs').1, (h hs').2.2⟩) fun _ _ h => h

/-- **the handler loop with its unwinding handler** (W4's proof, `SafeFinal.runHandler_all` for the body) -/
theorem handlerLoop_safeK : SObl.handlerLoop_safeK := by
  intro it info loc hs
  unfold handlerLoop
  refine Hoare.post (Hoare.forIn_list_mem
    (Inv := fun _ => Guarded fun w => SInv w ∧ ∀ hk ∈ hs, RunCtx hk it loc w) fun hk hm owned => ?_)
    (fun _ w h hs' => (h hs').1) fun _ _ h => h
  split
  · refine Hoare.bind (R := fun _ => Guarded fun w => SInv w ∧ ∀ hk ∈ hs, RunCtx hk it loc w)
      (Hoare.tryCatch_panicAnd (J1 := SInv) (runHandler_all it loc hs hk hm) (fun e n => by keeps)
        (fun _ => guarded_absorb) fun e hp => ?_) fun _ => Hoare.pure fun _ h => h
    -- first half of `EventDropper::drop`, then rethrow
    cases e with
    | panic s =>
      refine Hoare.get_bind fun _ _ => ?_
      split
      · exact Hoare.bind (R := fun _ => GS) (SafeS4.dropEvent_gs it) fun _ => Hoare.throw fun w hw hs' => ⟨rfl, hw hs'⟩
      · exact Hoare.throw fun w hw hs' => ⟨rfl, hw hs'⟩
    | ub s => cases hp
    | assert s => cases hp
  · exact Hoare.pure fun _ h => h

/-- the part of `deliverOne` after a successful lookup that found a handler list (W4's `SafeS4.deliverSome`) -/
theorem deliverSome (it : QItem) (info : EvInfo) (loc : Loc)
    (hs : List Key) (E : SlotMap Loc) (C : SlotMap CompInfo)
    (hT : (∃ c, info.kind = .insert c) ∨ (∃ c, info.kind = .remove c) ∨ info.kind = .despawn →
      E.get it.target = some loc)
    (hC : ∀ c, info.kind = .insert c → (C.getByIndex c).isSome = true) :
    Hoare (fun w => Guarded (fun w => SInv w ∧ ∀ hk ∈ hs, RunCtx hk it loc w) w ∧ SafeS4.EC E C w)
      (do
        modify fun w => { w with inflightOwned := false }
        let owned ← handlerLoop it info loc hs
        modify fun w => { w with queue := w.queue.reverse }
        if owned then pure () else effectPhase it info loc : M Unit)
      (fun _ => GS) (PanicAnd SInv) := by
  refine Hoare.bind (R := fun _ w => Guarded (fun w => SInv w ∧ ∀ hk ∈ hs, RunCtx hk it loc w) w ∧ SafeS4.EC E C w)
    ⟨fun w hw => ?_⟩ fun _ => ?_
  · simp only [run_modify]
    exact ⟨fun hs' => ⟨⟨⟨(hw.1 hs').1.1.1.frame (by releq) rfl rfl, (hw.1 hs').1.1.2⟩, (hw.1 hs').1.2⟩,
      fun hk hm => SafeS4.runCtx_owned ((hw.1 hs').2 hk hm) false⟩, hw.2⟩
  refine Hoare.bind (R := fun _ w => GS w ∧ SafeS4.EC E C w) ?_ fun owned => ?_
  · exact Hoare.post (Hoare.and (Hoare.pre (handlerLoop_safeK it info loc hs) fun _ h => h.1)
      (Hoare.pre (Hoare.of_keeps (E := fun _ _ => True) (SafeS4.handlerLoop_ec it info loc hs) fun _ _ _ => trivial)
        fun _ h => h.2)) (fun _ _ h => h) fun _ _ h => h.1
  refine Hoare.bind (R := fun _ => Guarded fun w => SInv w ∧ SafeS4.EffPre it info loc w) ⟨fun w hw => ?_⟩ fun _ => ?_
  · simp only [run_modify]
    intro hs'
    obtain ⟨hS, hE⟩ := hw
    refine ⟨⟨⟨(hS hs').1.1.frame (by releq) rfl rfl, (hS hs').1.2⟩, (hS hs').2.reverse⟩, ?_, ?_⟩
    · intro hk; show w.entities.get it.target = some loc; rw [hE.1]; exact hT hk
    · intro c hc; show (w.comps.getByIndex c).isSome = true; rw [hE.2]; exact hC c hc
  split
  · exact Hoare.pure fun _ h hs' => (h hs').1
  · exact effectPhase_safeK it info loc

/-- **the per-delivery obligation** (W4's proof) -/
theorem deliverOne_safeK : SObl.deliverOne_safeK := by
  intro it
  refine Hoare.unguard (fun _ => deliverOne_sl it) (fun _ => guarded_absorb) PanicAnd.absorb fun w0 _ hw0 => ?_
  obtain ⟨hS, hI⟩ := hw0
  rw [deliverOne_phases]
  refine Hoare.get_bind_eq fun w hw => ?_
  subst hw
  obtain ⟨⟨info, hs, loc⟩, hr, hok⟩ := SafeS4.lookupPhase_run it w hS hI
  refine Hoare.bind (R := fun r' w1 => r' = (info, hs, loc) ∧ w1 = w)
    ⟨fun w1 hw1 => by subst hw1; rw [hr]; exact ⟨rfl, rfl⟩⟩ fun r' => ?_
  refine ⟨fun w1 hw1 => ?_⟩
  obtain ⟨rfl, rfl⟩ := hw1
  dsimp only
  cases hs with
  | none =>
    dsimp only
    have : Hoare GS (if info.needsDrop = true then dropEvent it else pure () : M Unit) (fun _ => GS) (PanicAnd SInv) := by
      split
      · exact SafeS4.dropEvent_gs it
      · exact Hoare.pure fun _ h => h
    exact this.run w1 fun _ => hS
  | some hs =>
    exact (deliverSome it info loc hs w1.entities w1.comps (hok.target hs rfl)
      (fun c hc => hok.insComp c hc)).run w1 ⟨fun _ => ⟨hS, hok.ctx hs rfl⟩, rfl, rfl⟩

/-- **the flush keeps the C01 invariant on normal return and on panic, and has no other exit** -/
theorem flush_safeK : SObl.flush_safeK := fun fuel =>
  flushWith_safeK (fun it _ => deliverOne_sl it) (fun it _ => deliverOne_fr it) deliverOne_safeK
    dropQueued_safeK fuel

/-! ## the obligations that were conditional on the flush -/

theorem push_flush_safe : SObl.push_flush_safe := Evenio.push_flush_safe flush_safeK
theorem ensureAddG_safe : SObl.ensureAddG_safe := Evenio.ensureAddG_safe pieces flush_safeK
theorem removeEvent_safe : SObl.removeEvent_safe := Evenio.removeEvent_safe flush_safeK
theorem removeComponent_safe : SObl.removeComponent_safe := Evenio.removeComponent_safe flush_safeK
theorem opSpawn_safe : SObl.opSpawn_safe := Evenio.opSpawn_safe flush_safeK

/-- **no valid operation, started between two operations in a world satisfying the invariants, ends in a `ub` / `assert`
    marker** (as a Hoare triple) -/
theorem execOp_safe : SObl.execOp_safe := Evenio.execOp_safe flush_safeK

/-- **C01 from any world satisfying the invariants** -/
theorem step_no_ub : SObl.step_no_ub := step_no_ub_of_flush flush_safeK

/-- **C01 for reachable worlds** -/
theorem reachable_no_ub : SObl.reachable_no_ub := reachable_no_ub_of_flush flush_safeK

end SafeFinal

#print axioms SafeFinal.handlerLoop_safeK
#print axioms SafeFinal.deliverOne_safeK
#print axioms SafeFinal.flush_safeK
#print axioms SafeFinal.execOp_safe
#print axioms SafeFinal.step_no_ub
#print axioms SafeFinal.reachable_no_ub

end Evenio
