import Evenio.Proofs.Safe.DeliverAux
/-!
# C01, worker W4 — the event loop (section D of `Safe/Obligations.lean`)

All twelve obligations are closed, none had to be corrected:

| obligation | hypotheses (section C, worker W3) |
|---|---|
| `recvInv_of_hk`, `recvInv_deliverOne`, `recvInv_flush` | — |
| `prims_queue_frame` | — |
| `dropQueued_safeK` | — |
| `lookupPhase_safe`, `lookupPhase_ok` | — |
| `handlerLoop_frame` | — |
| `handlerLoop_safeK` | `SObl.runHandler_safeK`, `SObl.runHandler_ctx` |
| `effectPhase_safeK` | — |
| `deliverOne_safeK` | `SObl.runHandler_safeK`, `SObl.runHandler_ctx` |
| `flush_safeK` | `SObl.runHandler_safeK`, `SObl.runHandler_ctx` |

How:
* `lookupPhase_*` — one run-level lemma `SafeS4.lookupPhase_run`: from `SInv` and `ItemOK` the lookup returns normally
  in the same state with `LookupOK` (`ItemOK` for the registry slot, `ListsInv.gExact` for the global list,
  `ReachStore.read_winv` for the target's archetype; `TableExact.mem` + `listenSel`/`globalSel` for `RunCtx`;
  `RegistryInv.gevKind` / `tevComp` for `target` / `insComp`).
* `handlerLoop_safeK` — `Hoare.forIn_list_mem` with the invariant "`SInv` and `RunCtx` of EVERY handler of the list"
  (`SafeS4.runHandler_all`: `runHandler_safeK` for the handler that runs, `runHandler_ctx` for the others), the
  unwinding handler by `Hoare.tryCatch_panicAnd`.
* `effectPhase_safeK` — `SafeS4.safeK_of_parts`: `effectPhase_keepsW` (`Pieces`), handler cores, queue and frame
  untouched, and `SafeS4.effectPhase_safe` (W1 / W2 theorems; `world.rs:flush:insert:location`: `SafeS4.loc_ne_null`).
* `deliverOne_safeK` — unguarded with `deliverOne_sl`, `deliverOne_phases`; between the lookup and the effect the entity
  table and the component registry do not change (`SafeS4.handlerLoop_ec`, Safe/DeliverAux.lean).
* `dropQueued_safeK` — the closed form `dropQueued_spec'`.
* `flush_safeK` — `flushWith_safeK`.
-/
namespace Evenio
open InvV7

namespace SafeS4

/-! ### generic helpers -/

theorem keeps_and {α : Type} {I J : World → Prop} {m : M α} (h1 : Keeps I m) (h2 : Keeps J m) :
    Keeps (fun w => I w ∧ J w) m := ⟨fun w hw => ⟨h1.run w hw.1, h2.run w hw.2⟩⟩

/-! ### `RecvInv` only depends on handler cores -/

theorem paramsOK_core {h : HInfo} : h.core.ParamsOK ↔ h.ParamsOK := by
  have hp : h.core.params = h.params.map fun p => { p with cache := {} } := rfl
  constructor
  · intro ⟨h1, h2, h3⟩
    refine ⟨fun pm h0 hq => ?_, fun pm hm hk hq => ?_, fun pm hm hk => ?_⟩
    · exact h1 { pm with cache := {} } (by rw [hp, List.getElem?_map, h0]; rfl) hq
    · exact h2 { pm with cache := {} } (by rw [hp]; exact List.mem_map_of_mem hm) hk hq
    · exact h3 { pm with cache := {} } (by rw [hp]; exact List.mem_map_of_mem hm) hk
  · intro ⟨h1, h2, h3⟩
    refine ⟨fun pm h0 hq => ?_, fun pm hm hk hq => ?_, fun pm hm hk => ?_⟩
    · rw [hp, List.getElem?_map] at h0
      obtain ⟨pm', h0', rfl⟩ := Option.map_eq_some_iff.1 h0
      exact h1 pm' h0' hq
    · rw [hp] at hm
      obtain ⟨pm', hm', rfl⟩ := List.mem_map.1 hm
      exact h2 pm' hm' hk hq
    · rw [hp] at hm
      obtain ⟨pm', hm', rfl⟩ := List.mem_map.1 hm
      exact h3 pm' hm' hk

end SafeS4

theorem recvInv_of_hk : SObl.recvInv_of_hk := by
  intro α m h
  refine ⟨fun w hw k h' hk => ?_⟩
  have := (h fun k => (w.handlers.get k).map HInfo.core).run w (fun _ => rfl) k
  dsimp only at this
  rw [hk] at this
  obtain ⟨h0, hg, hc⟩ := Option.map_eq_some_iff.1 this.symm
  have := SafeS4.paramsOK_core.2 (hw k h0 hg)
  rw [hc] at this
  exact SafeS4.paramsOK_core.1 this

theorem recvInv_deliverOne : SObl.recvInv_deliverOne := fun it => recvInv_of_hk _ fun _ => deliverOne_hk it
theorem recvInv_flush : SObl.recvInv_flush := fun fuel => recvInv_of_hk _ fun _ => flush_hk fuel

/-! ## `prims_queue_frame`: the primitives write neither the queue nor the frame -/

namespace SafeS4

theorem reserve_qu (q : List QItem) : Keeps (QU q) reserve := by unfold reserve; keeps
theorem bumpCell_qu (q : List QItem) (ai row c : Nat) : Keeps (QU q) (bumpCell ai row c) := by
  unfold bumpCell getArch setArch ubErr; keeps

/-- queue and frame together -/
abbrev QF (q : List QItem) (fr : Frame) : World → Prop := fun w => w.queue = q ∧ w.frame = fr

theorem qf_of {α : Type} {m : M α} {q : List QItem} {fr : Frame} (h1 : Keeps (QU q) m) (h2 : Keeps (FR fr) m) :
    Keeps (QF q fr) m := keeps_and h1 h2

theorem qf_of_ef {α : Type} {m : M α} {q : List QItem} {fr : Frame} (h1 : ∀ ef, Keeps (EF ef) m)
    (h2 : Keeps (FR fr) m) : Keeps (QF q fr) m := qf_of (Keeps.qu_of_ef h1 q) h2

end SafeS4

theorem prims_queue_frame : SObl.prims_queue_frame := fun q _ =>
  ⟨SafeS4.qf_of (SafeS4.reserve_qu q) reserve_fr,
   fun ai row c => SafeS4.qf_of (SafeS4.bumpCell_qu q ai row c) (bumpCell_fr ai row c),
   SafeS4.qf_of_ef (fun _ => spawnAll_ef) spawnAll_fr,
   fun src c => SafeS4.qf_of_ef (fun _ => traverseInsert_ef src c) (traverseInsert_fr src c),
   fun src c => SafeS4.qf_of_ef (fun _ => traverseRemove_ef src c) (traverseRemove_fr src c),
   fun src dst new => SafeS4.qf_of_ef (fun _ => moveEntity_ef src dst new) (moveEntity_fr src dst new),
   fun loc => SafeS4.qf_of_ef (fun _ => removeEntity_ef loc) (removeEntity_fr loc),
   SafeS4.qf_of_ef (fun _ => resRefresh_ef) resRefresh_fr⟩

/-! ## `dropQueued` -/

namespace SafeS4

theorem ItemOK.evInfo {w : World} {q : QItem} (h : ItemOK w.frame q) : (w.evInfo q).isSome = true := by
  unfold World.evInfo
  have h1 := h.1
  split
  · next ht => rw [if_pos ht] at h1; rw [Option.isSome_map]; exact h1
  · next ht => rw [if_neg ht] at h1; rw [Option.isSome_map]; exact h1

/-- `SInv` does not read the ledgers nor the log -/
theorem SInv.ledger {w : World} (h : SInv w) (e : List Nat) (c : List (Nat × Nat)) :
    SInv { w with edrops := e, cdrops := c } :=
  ⟨⟨h.1.1.frame (by releq) rfl rfl, h.1.2⟩, h.2⟩

end SafeS4

theorem dropQueued_safeK : SObl.dropQueued_safeK := by
  refine Hoare.unguard (fun _ => dropQueued_sl) (fun _ => guarded_absorb) PanicAnd.absorb fun w0 _ hw0 => ?_
  refine ⟨fun w hw => ?_⟩
  subst hw
  rw [dropQueued_spec' w fun q hq => SafeS4.ItemOK.evInfo (hw0.2 q hq)]
  exact fun _ => ⟨⟨hw0.1.1.frame (by releq) rfl rfl, hw0.1.2⟩, QInv.of_qnil rfl⟩

/-! ## `lookupPhase` -/

namespace SafeS4

theorem lookupPhase_run (it : QItem) (w0 : World) (hw : SInv w0) (hit : ItemOK w0.frame it) :
    ∃ r, (lookupPhase it w0).run.run w0 = (.ok r, w0) ∧ LookupOK it w0 r.1 r.2.1 r.2.2 := by
  have hW : WInv w0 := hw.winv
  have harena : ∀ x, it.pay.arena = some x → x.1 = w0.arenaEpoch := hit.2
  unfold lookupPhase
  cases ht : it.ty.targeted
  · -- global
    have h1 := hit.1
    rw [if_neg (by rw [ht]; exact Bool.false_ne_true)] at h1
    obtain ⟨⟨gk, info⟩, hg⟩ := Option.isSome_iff_exists.1 h1
    have hg' : w0.gevs.getByIndex it.idx = some (gk, info) := hg
    obtain ⟨hget, hidx⟩ := SlotMap.getByIndex_get hg'
    obtain ⟨l, hl, hex⟩ := hW.lists.gExact gk info hget
    rw [hidx] at hl
    simp only [hg', hl, Bool.false_eq_true, ↓reduceIte]
    refine ⟨_, rfl, ?_, ?_, ?_⟩
    · intro l' hl' hk hm
      cases hl'
      obtain ⟨-, h, hh, hsel⟩ := (hex.mem hk).1 hm
      refine ⟨⟨h, hh, fun htg => ?_⟩, harena⟩
      unfold globalSel at hsel
      rw [htg] at hsel
      cases hsel
    · intro l' _ hkind
      have hk := hW.registry.gevKind gk info hget
      exfalso
      rcases hkind with ⟨c, hc⟩ | ⟨c, hc⟩ | hc <;> rw [hc] at hk <;> unfold gevKind at hk <;> split at hk <;> cases hk
    · intro c hc
      have hk := hW.registry.gevKind gk info hget
      exfalso
      rw [hc] at hk; unfold gevKind at hk; split at hk <;> cases hk
  · -- targeted
    have h1 := hit.1
    rw [if_pos ht] at h1
    obtain ⟨⟨tk, info⟩, hg⟩ := Option.isSome_iff_exists.1 h1
    have hg' : w0.tevs.getByIndex it.idx = some (tk, info) := hg
    obtain ⟨hget, hidx⟩ := SlotMap.getByIndex_get hg'
    have hins : ∀ c, info.kind = .insert c → CompLive c w0 := fun c hc => by
      obtain ⟨ck, ci, hci, -⟩ := (hW.registry.tevComp tk info hget c).1 hc
      unfold CompLive; rw [hci]; rfl
    cases he : w0.entities.get it.target with
    | none =>
      simp only [hg', ↓reduceIte]
      refine ⟨_, rfl, ?_, ?_, hins⟩ <;> intro l' hl' <;> cases hl'
    | some loc =>
      obtain ⟨a, ha, -⟩ := ReachStore.read_winv hW he
      simp only [hg', ↓reduceIte]
      rw [run_bind, run_getArch _ ha]
      refine ⟨_, rfl, ?_, fun _ _ _ => he, hins⟩
      intro l' hl' hk hm
      cases hl'
      have hex := (hW.lists.arch loc.arch a ha).exact tk info hget
      rw [hidx] at hex
      cases hlg : a.listeners.get it.idx with
      | none => rw [hlg] at hm; cases hm
      | some l =>
        rw [hlg] at hm hex
        obtain ⟨-, h, hh, hsel⟩ := (hex.mem hk).1 hm
        refine ⟨⟨h, hh, fun _ => ⟨he, a, ha, ?_⟩⟩, harena⟩
        unfold listenSel at hsel
        simp only [Bool.and_eq_true] at hsel
        exact hsel.2

end SafeS4

theorem lookupPhase_safe : SObl.lookupPhase_safe := fun it w0 =>
  Safe.of_noError fun w ⟨hw, hS, hI⟩ => by
    subst hw
    obtain ⟨r, hr, -⟩ := SafeS4.lookupPhase_run it w hS hI
    exact ⟨_, _, hr⟩

theorem lookupPhase_ok : SObl.lookupPhase_ok := fun it w0 r w1 hS hI hr => by
  obtain ⟨r', hr', hok⟩ := SafeS4.lookupPhase_run it w0 hS hI
  rw [hr'] at hr
  cases hr
  exact ⟨rfl, hok⟩

/-! ## the handler phase does not touch `entities` nor `comps` (`SafeS4.handlerLoop_ec`, Safe/DeliverAux.lean) -/

theorem handlerLoop_frame : SObl.handlerLoop_frame := fun it info loc hs e c =>
  ⟨fun w hw => by
    have := (SafeS4.handlerLoop_ec (E := w.entities) (C := w.comps) it info loc hs).run w ⟨rfl, rfl⟩
    unfold CompLive
    rw [this.1, this.2]; exact hw⟩

/-! ## the handler loop -/

namespace SafeS4

/-- a predicate that does not read the ledgers is kept by `dropEvent` -/
theorem dropEventW_ledger {P : World → Prop} (hP : ∀ w e c, P w → P { w with edrops := e, cdrops := c })
    (it : QItem) {w : World} (h : P w) : P (dropEventW it w) := by
  unfold dropEventW
  split
  · exact hP w _ w.cdrops h
  · exact hP w _ w.cdrops h
  · unfold dropCellW
    split
    · exact hP w w.edrops _ h
    · exact h
  · exact h

theorem dropEvent_gs (it : QItem) {E : Err → World → Prop} : Hoare GS (dropEvent it) (fun _ => GS) E :=
  ⟨fun w hw => by
    rw [run_dropEvent]
    exact dropEventW_ledger (P := GS) (fun w e c h hs => SInv.ledger (h hs) e c) it hw⟩

/-- running one handler of the list: `runHandler_safeK` for the handler itself, `runHandler_ctx` for the others -/
theorem runHandler_all (h1 : SObl.runHandler_safeK) (h2 : SObl.runHandler_ctx) (it : QItem) (loc : Loc)
    (hs : List Key) (hk : Key) (hm : hk ∈ hs) :
    Hoare (Guarded fun w => SInv w ∧ ∀ hk ∈ hs, RunCtx hk it loc w) (runHandler hk it loc)
      (fun _ => Guarded fun w => SInv w ∧ ∀ hk ∈ hs, RunCtx hk it loc w) (PanicAnd SInv) := by
  refine Hoare.unguard (fun _ => runHandler_sl hk it loc) (fun _ => guarded_absorb) PanicAnd.absorb
    fun w0 _ hw0 => ⟨fun w hw => ?_⟩
  subst hw
  have r1 := (h1 hk it loc).run w fun _ => ⟨hw0.1, hw0.2 hk hm⟩
  have r2 : ∀ hk' ∈ hs, RunCtx hk' it loc ((runHandler hk it loc).run.run w).2 :=
    fun hk' hm' => (h2 hk it loc hk').run w (hw0.2 hk' hm')
  generalize (runHandler hk it loc).run.run w = res at r1 r2
  obtain ⟨(e|a), w'⟩ := res
  · exact r1
  · exact fun hs' => ⟨(r1 hs').1, r2⟩

end SafeS4

theorem handlerLoop_safeK (h1 : SObl.runHandler_safeK) (h2 : SObl.runHandler_ctx) : SObl.handlerLoop_safeK := by
  intro it info loc hs
  unfold handlerLoop
  refine Hoare.post (Hoare.forIn_list_mem
    (Inv := fun _ => Guarded fun w => SInv w ∧ ∀ hk ∈ hs, RunCtx hk it loc w) fun hk hm owned => ?_)
    (fun _ w h hs' => (h hs').1) fun _ _ h => h
  split
  · refine Hoare.bind (R := fun _ => Guarded fun w => SInv w ∧ ∀ hk ∈ hs, RunCtx hk it loc w)
      (Hoare.tryCatch_panicAnd (J1 := SInv) (SafeS4.runHandler_all h1 h2 it loc hs hk hm) (fun e n => by keeps)
        (fun _ => guarded_absorb) fun e hp => ?_) fun _ => Hoare.pure fun _ h => h
    -- first half of `EventDropper::drop`, then rethrow
    cases e with
    | panic s =>
      refine Hoare.get_bind fun _ _ => ?_
      split
      · exact Hoare.bind (R := fun _ => GS) (SafeS4.dropEvent_gs it) fun _ => Hoare.throw fun w hw hs' => ⟨rfl, hw hs'⟩
      · exact Hoare.throw fun w hw hs' => ⟨rfl, hw hs'⟩
    | ub s => cases hp
    | assert s => cases hp
  · exact Hoare.pure fun _ h => h


/-! ## the built-in effects -/

namespace SafeS4

/-- **`SafeK`-shaped triple from the parts**: the existing preservation theorem for `WInvMid`, `RecvInv` (handler
    cores), queue and frame untouched, and `Safe` -/
theorem safeK_of_parts {α : Type} {P : World → Prop} {m : M α} (hmono : SlabMono m) (hW : KeepsW m)
    (hR : Keeps RecvInv m) (hQ : ∀ q fr, Keeps (QF q fr) m) (hS : Safe (Guarded fun w => SInv w ∧ P w) m) :
    Hoare (Guarded fun w => SInv w ∧ P w) m (fun _ => GS) (PanicAnd SInv) := by
  refine Hoare.unguard hmono (fun _ => guarded_absorb) PanicAnd.absorb fun w0 _ hw0 => ⟨fun w hw => ?_⟩
  subst hw
  have r1 := Hoare.run hW w fun _ => hw0.1.1.1
  have r2 := hR.run w hw0.1.1.2
  have r3 := (hQ w.queue w.frame).run w ⟨rfl, rfl⟩
  have r4 := hS.run w fun _ => hw0
  have hq : ∀ w', QF w.queue w.frame w' → QInv w' := fun w' h => by
    have := hw0.1.2
    unfold QInv at this ⊢
    rw [h.1, h.2]; exact this
  generalize m.run.run w = res at r1 r2 r3 r4
  obtain ⟨(e|a), w'⟩ := res
  · exact fun hs => ⟨r4 hs, ⟨r1 (r4 hs) hs, r2⟩, hq w' r3⟩
  · exact fun hs => ⟨⟨r1 hs, r2⟩, hq w' r3⟩

theorem effectPhase_qf (q : List QItem) (fr : Frame) (it : QItem) (info : EvInfo) (loc : Loc) :
    Keeps (QF q fr) (effectPhase it info loc) := qf_of (effectPhase_qu q it info loc) (effectPhase_fr it info loc)

theorem effectPhase_kw (it : QItem) (info : EvInfo) (loc : Loc) : KeepsW (effectPhase it info loc) :=
  effectPhase_keepsW pieces.kw_traverseInsert pieces.kw_traverseRemove pieces.kw_moveEntity pieces.kw_spawnAll
    pieces.glue_fixedDespawn it info loc

/-- the location of a live entity is not the null location (`Small`: fewer than `u32::MAX` archetypes) -/
theorem loc_ne_null {w : World} (hW : WInv w) {e : Key} {loc : Loc} (he : w.entities.get e = some loc) :
    (loc != Loc.NULL) = true := by
  obtain ⟨a, ha, -⟩ := ReachStore.read_winv hW he
  have h1 : loc.arch < w.archs.entries.length := Slab.get_lt_length ha
  have h2 := hW.small.1
  rw [bne_iff_ne]
  intro h
  rw [h] at h1
  exact absurd (Nat.lt_trans h1 h2) (Nat.lt_irrefl _)

theorem dbgAssert_keeps {I : World → Prop} (c : Bool) (s : String) : Keeps I (dbgAssert c s) := by
  unfold dbgAssert; keeps

/-- the precondition of the effect phase, apart from `SInv` -/
def EffPre (it : QItem) (info : EvInfo) (loc : Loc) (w : World) : Prop :=
  ((∃ c, info.kind = .insert c) ∨ (∃ c, info.kind = .remove c) ∨ info.kind = .despawn →
      w.entities.get it.target = some loc) ∧ (∀ c, info.kind = .insert c → CompLive c w)

theorem effectPhase_safe (it : QItem) (info : EvInfo) (loc : Loc) :
    Safe (Guarded fun w => SInv w ∧ EffPre it info loc w) (effectPhase it info loc) := by
  unfold effectPhase
  split
  · -- normal
    exact Safe.of_noError fun w _ => by split <;> exact ⟨_, _, by first | exact run_dropEvent _ _ | rfl⟩
  · -- insert
    next c hc =>
    have hpre : ∀ w, Guarded (fun w => SInv w ∧ EffPre it info loc w) w →
        Guarded (fun w => WInvMid w ∧ LocLive loc w ∧ CompLive c w) w := fun w h hs =>
      ⟨(h hs).1.winvMid, ⟨_, (h hs).2.1 (.inl ⟨c, hc⟩)⟩, (h hs).2.2 c hc⟩
    refine Safe.bind_inv (E := fun _ _ => True) ?_ (Hoare.of_keeps (dbgAssert_keeps _ _) fun _ _ _ => trivial)
      fun _ => ?_
    · refine Safe.unguard (fun _ => dbgAssert_sl _ _) fun w0 _ h0 => Safe.of_noError fun w hw => ?_
      subst hw
      exact ⟨_, _, run_dbgAssert_true _ (.inr (loc_ne_null h0.1.winv (h0.2.1 (.inl ⟨c, hc⟩))))⟩
    · exact Safe.bind_ok ((SafeS1.traverseInsert_safe_loc loc c).pre hpre)
        ((traverseInsert_movePre loc c it.pay.cell).pre hpre) fun dst => moveEntity_safe loc dst _
  · -- remove
    next c hc =>
    have hpre : ∀ w, Guarded (fun w => SInv w ∧ EffPre it info loc w) w →
        Guarded (fun w => WInvMid w ∧ LocLive loc w) w := fun w h hs =>
      ⟨(h hs).1.winvMid, ⟨_, (h hs).2.1 (.inr (.inl ⟨c, hc⟩))⟩⟩
    exact Safe.bind_ok ((SafeS1.traverseRemove_safe_loc loc c).pre hpre)
      ((traverseRemove_movePre loc c).pre hpre) fun dst => moveEntity_safe loc dst _
  · -- spawn
    exact Safe.unguard (fun _ => spawnAll_sl) fun w0 _ h =>
      spawnAll_safe.pre fun w hw => by subst hw; exact spawnPre_of_winv _ h.1.winv
  · -- despawn
    next hc =>
    exact (fixedDespawn_safe loc).pre fun w h hs => ⟨(h hs).1.winvMid, ⟨_, (h hs).2.1 (.inr (.inr hc))⟩⟩

end SafeS4

theorem effectPhase_safeK : SObl.effectPhase_safeK := fun it info loc =>
  SafeS4.safeK_of_parts (P := SafeS4.EffPre it info loc) (SafeS4.effectPhase_sl it info loc)
    (SafeS4.effectPhase_kw it info loc) (recvInv_of_hk _ fun _ => SafeS4.effectPhase_hk it info loc)
    (fun q fr => SafeS4.effectPhase_qf q fr it info loc) (SafeS4.effectPhase_safe it info loc)

/-! ## one delivery -/

namespace SafeS4

/-- `RunCtx` does not read the ownership flag -/
theorem runCtx_owned {hk : Key} {it : QItem} {loc : Loc} {w : World} (h : RunCtx hk it loc w) (b : Bool) :
    RunCtx hk it loc { w with inflightOwned := b } := ⟨h.live, h.arena⟩

/-- the part of `deliverOne` after a successful lookup that found a handler list -/
theorem deliverSome (h1 : SObl.runHandler_safeK) (h2 : SObl.runHandler_ctx) (it : QItem) (info : EvInfo) (loc : Loc)
    (hs : List Key) (E : SlotMap Loc) (C : SlotMap CompInfo)
    (hT : (∃ c, info.kind = .insert c) ∨ (∃ c, info.kind = .remove c) ∨ info.kind = .despawn →
      E.get it.target = some loc)
    (hC : ∀ c, info.kind = .insert c → (C.getByIndex c).isSome = true) :
    Hoare (fun w => Guarded (fun w => SInv w ∧ ∀ hk ∈ hs, RunCtx hk it loc w) w ∧ EC E C w)
      (do
        modify fun w => { w with inflightOwned := false }
        let owned ← handlerLoop it info loc hs
        modify fun w => { w with queue := w.queue.reverse }
        if owned then pure () else effectPhase it info loc : M Unit)
      (fun _ => GS) (PanicAnd SInv) := by
  refine Hoare.bind (R := fun _ w => Guarded (fun w => SInv w ∧ ∀ hk ∈ hs, RunCtx hk it loc w) w ∧ EC E C w)
    ⟨fun w hw => ?_⟩ fun _ => ?_
  · simp only [run_modify]
    exact ⟨fun hs' => ⟨⟨⟨(hw.1 hs').1.1.1.frame (by releq) rfl rfl, (hw.1 hs').1.1.2⟩, (hw.1 hs').1.2⟩,
      fun hk hm => runCtx_owned ((hw.1 hs').2 hk hm) false⟩, hw.2⟩
  refine Hoare.bind (R := fun _ w => GS w ∧ EC E C w) ?_ fun owned => ?_
  · exact Hoare.post (Hoare.and (Hoare.pre (handlerLoop_safeK h1 h2 it info loc hs) fun _ h => h.1)
      (Hoare.pre (Hoare.of_keeps (E := fun _ _ => True) (handlerLoop_ec it info loc hs) fun _ _ _ => trivial)
        fun _ h => h.2)) (fun _ _ h => h) fun _ _ h => h.1
  refine Hoare.bind (R := fun _ => Guarded fun w => SInv w ∧ EffPre it info loc w) ⟨fun w hw => ?_⟩ fun _ => ?_
  · simp only [run_modify]
    intro hs'
    obtain ⟨hS, hE⟩ := hw
    refine ⟨⟨⟨(hS hs').1.1.frame (by releq) rfl rfl, (hS hs').1.2⟩, (hS hs').2.reverse⟩, ?_, ?_⟩
    · intro hk; show w.entities.get it.target = some loc; rw [hE.1]; exact hT hk
    · intro c hc; show (w.comps.getByIndex c).isSome = true; rw [hE.2]; exact hC c hc
  split
  · exact Hoare.pure fun _ h hs' => (h hs').1
  · exact effectPhase_safeK it info loc

end SafeS4

theorem deliverOne_safeK (h1 : SObl.runHandler_safeK) (h2 : SObl.runHandler_ctx) : SObl.deliverOne_safeK := by
  intro it
  refine Hoare.unguard (fun _ => deliverOne_sl it) (fun _ => guarded_absorb) PanicAnd.absorb fun w0 _ hw0 => ?_
  obtain ⟨hS, hI⟩ := hw0
  rw [deliverOne_phases]
  refine Hoare.get_bind_eq fun w hw => ?_
  subst hw
  obtain ⟨⟨info, hs, loc⟩, hr, hok⟩ := SafeS4.lookupPhase_run it w hS hI
  refine Hoare.bind (R := fun r' w1 => r' = (info, hs, loc) ∧ w1 = w)
    ⟨fun w1 hw1 => by subst hw1; rw [hr]; exact ⟨rfl, rfl⟩⟩ fun r' => ?_
  refine ⟨fun w1 hw1 => ?_⟩
  obtain ⟨rfl, rfl⟩ := hw1
  dsimp only
  cases hs with
  | none =>
    dsimp only
    have : Hoare GS (if info.needsDrop = true then dropEvent it else pure () : M Unit) (fun _ => GS) (PanicAnd SInv) := by
      split
      · exact SafeS4.dropEvent_gs it
      · exact Hoare.pure fun _ h => h
    exact this.run w1 fun _ => hS
  | some hs =>
    exact (SafeS4.deliverSome h1 h2 it info loc hs w1.entities w1.comps (hok.target hs rfl)
      (fun c hc => hok.insComp c hc)).run w1 ⟨fun _ => ⟨hS, hok.ctx hs rfl⟩, rfl, rfl⟩

/-! ## the flush -/

theorem flush_safeK (h1 : SObl.runHandler_safeK) (h2 : SObl.runHandler_ctx) : SObl.flush_safeK := fun fuel =>
  flushWith_safeK (fun it _ => deliverOne_sl it) (fun it _ => deliverOne_fr it) (deliverOne_safeK h1 h2)
    dropQueued_safeK fuel

end Evenio

#print axioms Evenio.lookupPhase_safe
#print axioms Evenio.lookupPhase_ok
#print axioms Evenio.handlerLoop_safeK
#print axioms Evenio.handlerLoop_frame
#print axioms Evenio.effectPhase_safeK
#print axioms Evenio.deliverOne_safeK
#print axioms Evenio.dropQueued_safeK
#print axioms Evenio.flush_safeK
#print axioms Evenio.prims_queue_frame
#print axioms Evenio.recvInv_of_hk
#print axioms Evenio.recvInv_deliverOne
#print axioms Evenio.recvInv_flush
