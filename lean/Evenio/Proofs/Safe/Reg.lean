import Evenio.Proofs.Safe.Traverse
/-! # C01, worker W5 — the new invariant `RecvInv` along the registration functions, and the registration glue

Closed, each as `theorem <name> : SObl.<name>`:

* no hypotheses: `insertHandler_len`, `removeHandler_len`, `removeEventFinish_safe`, `registerAll_safe`,
  `ensureAddG_itemOK`, `addGlobalEvent_itemOK`, `addTargetedEvent_itemOK`, `recvInv_sendGlobal`,
  `recvInv_addTargetedEvent`, `recvInv_addEvent`, `recvInv_addComponent`, `recvInv_initParam`, `recvInv_addHandler`,
  `recvInv_removeHandler`  (`SObl.recvInv_of_hk` / `SObl.recvInv_flush` are NOT used as hypotheses: the local copies
  `SafeS5.recvInv_of_hk'`, `SafeS5.recvInv_flush` are three lines each);
* from `(hfl : SObl.flush_safeK)` only: `addGlobalEvent_safe`, `addComponent_safe`, `addTargetedEvent_safe`,
  `addEvent_safe`, `initQuery_safe`, `initParam_safe`, `addHandler_safe`, `removeHandler_safe`.

**Corrected** (`SObl.sendGlobal_safe`, `SObl.sendTargeted_safe` are FALSE as stated): both quantify over every payload,
but `ItemOK` of the pushed item needs `pay.arena`, if any, to carry the CURRENT arena epoch — otherwise the first
receiving handler runs into `ub arena:use-after-reset` (`runHandler`); `sendGlobal` moreover pushes the index of a
`gevs` slot, so for a TARGETED `ty` the delivery would index `tevs` with it (`world.rs:flush:targeted_events…`).

* `sendGlobal_safe_false : ¬ SObl.sendGlobal_safe` — machine-checked witness: the world `addh a R:G0` leaves from `{}`
  (it satisfies `MS`), `sendGlobal (.g 0) { arena := some (1000, 0, 0) }` ⇒ `ub arena:use-after-reset`.
* `SObl.sendTargeted_safe`: same failure, `#eval` in the model: from `{}`, `opSpawn; addHandler {params := [R:T0]}`,
  then `sendTargeted (.t 0) ⟨0,1⟩ { arena := some (1000,0,0) }` ⇒ `Err.ub "arena:use-after-reset"`.  (No `theorem …_false`:
  the kernel does not evaluate `addHandler` with a targeted receiver in reasonable time — `decide +kernel` runs out of
  memory in the access-expression code — and the argument is the one machine-checked for `sendGlobal`.)
* `sendGlobal_safe' (hfl) : ∀ ty pay, ty.targeted = false → pay.arena = none → Safe MS (sendGlobal ty pay)`
* `sendTargeted_safe' (hfl) : ∀ ty tg pay, ty.targeted = true → pay.arena = none → Safe MS (sendTargeted ty tg pay)`

The assembler (`execOp_safe`, `removeEvent_safe`, `removeComponent_safe`, `opSpawn_safe`) can still use them: every
call site of the model passes a payload literal without `arena` field (`{ ent := id }`, `{}`, `{ cell := … }`,
`{ serial := s }`, `{ id := k }`: `pay.arena = none` by `rfl`), `sendGlobal` is only called with `.spawn`, `.g _`,
`.addC/.remC/.addH/.remH/.addT/.remG/.remT` (`targeted = false` by `rfl`), and `sendTargeted` with `.despawn`,
`.ins _`, `.rem _`, `.t _`.  `recvInv_execOp` only needs `recvInv_sendGlobal` and `SafeS5.recvInv_sendTargeted`,
which hold for every payload.

Tools for the assembler: `SafeS5.SafeM m` (`Hoare MS m (fun _ => MS) NoUB`, composes with `Hoare.bind_inv`),
`SafeS5.ms_*` (the normal-return triples `MS → MS`), `SafeS5.*_safeM`, `SafeS5.push_flush_then`, `safeT`. -/
namespace Evenio
open InvV7

namespace SafeS5

/-! ### `insertHandler_len`, `removeHandler_len` -/

theorem length_filter_ne_of_nodup {l : List Key} (hnd : l.Nodup) {k : Key} (hk : k ∈ l) :
    (l.filter (· != k)).length = l.length - 1 := by
  induction l with
  | nil => cases hk
  | cons a l ih =>
    obtain ⟨ha, hl⟩ := List.nodup_cons.1 hnd
    by_cases hak : a = k
    · subst hak
      have : l.filter (· != a) = l := by
        apply List.filter_eq_self.2
        intro x hx
        have : x ≠ a := fun e => ha (e ▸ hx)
        simpa using this
      simp [this]
    · have hk' : k ∈ l := by
        rcases List.mem_cons.1 hk with h | h
        · exact absurd h.symm hak
        · exact h
      have hne : (a != k) = true := by simpa using hak
      have : 0 < l.length := List.length_pos_of_mem hk'
      simp only [List.filter_cons, hne, if_true, List.length_cons, ih hl hk']
      omega

/-! ### programs without unchecked sites (precondition `True`) -/

theorem hoare_true {α : Type} {P : World → Prop} {m : M α} : Hoare P m (fun _ _ => True) (fun _ _ => True) :=
  ⟨fun w _ => by generalize m.run.run w = r; obtain ⟨(e|a), w'⟩ := r <;> trivial⟩

theorem safe_bindT {α β : Type} {m : M α} {f : α → M β} (hm : Safe (fun _ => True) m)
    (hf : ∀ a, Safe (fun _ => True) (f a)) : Safe (fun _ => True) (m >>= f) :=
  Safe.bind_inv hm hoare_true hf

theorem safe_noErr {α : Type} {P : World → Prop} {m : M α} (h : ∀ w, ∃ a w', m.run.run w = (.ok a, w')) :
    Safe P m := Safe.of_noError fun w _ => h w

/-- walk a program whose only exits are `throw (.panic _)` -/
macro "safeT" : tactic => `(tactic| repeat' first
  | safe_step
  | exact safe_noErr fun _ => ⟨_, _, rfl⟩
  | refine safe_bindT ?_ fun _ => ?_)

end SafeS5

theorem insertHandler_len : SObl.insertHandler_len := by
  intro w k h handlers' hW hpre
  obtain ⟨mk, hins, -⟩ := hpre.ins
  rw [SlotMap.insertWith_len hins, List.length_append, List.length_singleton, hW.lists.ordLen]

theorem removeHandler_len : SObl.removeHandler_len := by
  intro w k h handlers' hW hrm
  have hg := SlotMap.get_of_remove hrm
  have hmem : k ∈ w.byInsertOrder := (hW.lists.ordMem k).2 (by simp [SlotMap.contains, hg])
  rw [(SlotMap.remove_len hW.1.handlersWF hrm).2, SafeS5.length_filter_ne_of_nodup hW.lists.ordNodup hmem,
    hW.lists.ordLen]

/-! ### `removeEventFinish_safe` -/

theorem removeEventFinish_safe : SObl.removeEventFinish_safe := by
  intro ty k
  unfold removeEventFinish
  safeT

/-! ### `RecvInv` only depends on handler cores -/

namespace SafeS5

theorem paramsOK_core {h : HInfo} : h.core.ParamsOK ↔ h.ParamsOK := by
  have hrecv : h.core.recv = h.recv := rfl
  have hparams : h.core.params = h.params.map fun p => { p with cache := {} } := rfl
  constructor
  · intro ⟨h1, h2, h3⟩
    refine ⟨fun pm h0 hq => ?_, fun pm hm hk hq => ?_, fun pm hm hk => ?_⟩
    · exact h1 { pm with cache := {} } (by rw [hparams, List.getElem?_map, h0]; rfl) hq
    · exact h2 { pm with cache := {} } (by rw [hparams]; exact List.mem_map.2 ⟨pm, hm, rfl⟩) hk hq
    · exact h3 { pm with cache := {} } (by rw [hparams]; exact List.mem_map.2 ⟨pm, hm, rfl⟩) hk
  · intro ⟨h1, h2, h3⟩
    refine ⟨fun pm h0 hq => ?_, fun pm hm hk hq => ?_, fun pm hm hk => ?_⟩
    · rw [hparams, List.getElem?_map] at h0
      cases hp : h.params[0]? with
      | none => rw [hp] at h0; cases h0
      | some p => rw [hp] at h0; cases h0; exact h1 p hp hq
    · rw [hparams] at hm
      obtain ⟨p, hp, rfl⟩ := List.mem_map.1 hm
      exact h2 p hp hk hq
    · rw [hparams] at hm
      obtain ⟨p, hp, rfl⟩ := List.mem_map.1 hm
      exact h3 p hp hk

theorem paramsOK_of_core {h h' : HInfo} (hc : h'.core = h.core) (hp : h.ParamsOK) : h'.ParamsOK :=
  paramsOK_core.1 (hc ▸ paramsOK_core.2 hp)

/-- `SObl.recvInv_of_hk`, proved locally -/
theorem recvInv_of_hk' {α : Type} (m : M α) (h : ∀ reg, Keeps (HK reg) m) : Keeps RecvInv m := by
  refine ⟨fun w hw k h' hk' => ?_⟩
  have := (h fun k => (w.handlers.get k).map HInfo.core).run w (fun _ => rfl) k
  dsimp only at this
  rw [hk'] at this
  cases hg : w.handlers.get k with
  | none => rw [hg] at this; cases this
  | some h0 =>
    rw [hg] at this
    exact paramsOK_of_core (Option.some.inj this) (hw k h0 hg)

/-! ### `HK` along the registration functions (the leaves of Proofs/Listeners.lean are local there) -/

section hk
variable {reg : Key → Option HInfo}
local macro_rules | `(tactic| keeps_leaf) => `(tactic| exact push_hk _)
local macro_rules | `(tactic| keeps_leaf) => `(tactic| exact dropEvent_hk _)
local macro_rules | `(tactic| keeps_leaf) => `(tactic| exact flush_hk _)
local macro_rules | `(tactic| keeps_leaf) => `(tactic| exact ensureAddG_hk)
local macro_rules | `(tactic| keeps_leaf) => `(tactic| exact addGlobalEvent_hk _)
local macro_rules | `(tactic| keeps_leaf) => `(tactic| exact sendGlobal_hk _ _)
theorem addComponent_hk (ty : Nat) : Keeps (HK reg) (addComponent ty) := by unfold addComponent; keeps
local macro_rules | `(tactic| keeps_leaf) => `(tactic| exact addComponent_hk _)
theorem addTargetedEvent_hk (ty : EvTy) : Keeps (HK reg) (addTargetedEvent ty) := by unfold addTargetedEvent; keeps
local macro_rules | `(tactic| keeps_leaf) => `(tactic| exact addTargetedEvent_hk _)
theorem addEvent_hk (ty : EvTy) : Keeps (HK reg) (addEvent ty) := by unfold addEvent; keeps
local macro_rules | `(tactic| keeps_leaf) => `(tactic| exact addEvent_hk _)
theorem sendTargeted_hk (ty : EvTy) (tg : Key) (pay : Payload) : Keeps (HK reg) (sendTargeted ty tg pay) := by
  unfold sendTargeted; keeps
theorem initQuery_hk (q : Query) (cfg : Config) : Keeps (HK reg) (initQuery q cfg) := by unfold initQuery; keeps
local macro_rules | `(tactic| keeps_leaf) => `(tactic| exact initQuery_hk _ _)
theorem initParam_hk (ps : PSpec) (cfg : Config) : Keeps (HK reg) (initParam ps cfg) := by unfold initParam; keeps
end hk

end SafeS5

theorem recvInv_sendGlobal : SObl.recvInv_sendGlobal :=
  fun ty pay => SafeS5.recvInv_of_hk' _ fun _ => sendGlobal_hk ty pay
theorem recvInv_addTargetedEvent : SObl.recvInv_addTargetedEvent :=
  fun ty => SafeS5.recvInv_of_hk' _ fun _ => SafeS5.addTargetedEvent_hk ty
theorem recvInv_addEvent : SObl.recvInv_addEvent := fun ty => SafeS5.recvInv_of_hk' _ fun _ => SafeS5.addEvent_hk ty
theorem recvInv_addComponent : SObl.recvInv_addComponent :=
  fun ty => SafeS5.recvInv_of_hk' _ fun _ => SafeS5.addComponent_hk ty
theorem recvInv_initParam : SObl.recvInv_initParam :=
  fun ps cfg => SafeS5.recvInv_of_hk' _ fun _ => SafeS5.initParam_hk ps cfg

namespace SafeS5
theorem recvInv_ensureAddG : Keeps RecvInv ensureAddG := recvInv_of_hk' _ fun _ => ensureAddG_hk
theorem recvInv_addGlobalEvent (ty : EvTy) : Keeps RecvInv (addGlobalEvent ty) :=
  recvInv_of_hk' _ fun _ => addGlobalEvent_hk ty
theorem recvInv_sendTargeted (ty : EvTy) (tg : Key) (pay : Payload) : Keeps RecvInv (sendTargeted ty tg pay) :=
  recvInv_of_hk' _ fun _ => sendTargeted_hk ty tg pay
theorem recvInv_initQuery (q : Query) (cfg : Config) : Keeps RecvInv (initQuery q cfg) :=
  recvInv_of_hk' _ fun _ => initQuery_hk q cfg
theorem recvInv_flush (fuel : Nat) : Keeps RecvInv (flush fuel) := recvInv_of_hk' _ fun _ => flush_hk fuel
end SafeS5

/-! ### `MS` on normal returns; the returned key is a live slot -/

namespace SafeS5

theorem ms_ensureAddG : Hoare MS ensureAddG (fun _ => MS) (fun _ _ => True) :=
  ms_keeps _ (fun _ => ensureAddG_sl) pieces.glue_ensureAddG ensureAddG_qe recvInv_ensureAddG
theorem ms_addGlobalEvent (ty : EvTy) : Hoare MS (addGlobalEvent ty) (fun _ => MS) (fun _ _ => True) :=
  ms_keeps _ (fun _ => addGlobalEvent_sl ty) (pieces.glue_addGlobalEvent ty) (addGlobalEvent_qe ty)
    (recvInv_addGlobalEvent ty)
theorem ms_sendGlobal (ty : EvTy) (pay : Payload) : Hoare MS (sendGlobal ty pay) (fun _ => MS) (fun _ _ => True) :=
  ms_keeps _ (fun _ => sendGlobal_sl ty pay) (pieces.glue_sendGlobal ty pay) (sendGlobal_qe ty pay)
    (recvInv_sendGlobal ty pay)
theorem ms_addComponent (ty : Nat) : Hoare MS (addComponent ty) (fun _ => MS) (fun _ _ => True) :=
  ms_keeps _ (fun _ => addComponent_sl ty) (pieces.glue_addComponent ty) (addComponent_qe ty)
    (recvInv_addComponent ty)
theorem ms_addTargetedEvent (ty : EvTy) (hty : ty.targeted = true) :
    Hoare MS (addTargetedEvent ty) (fun _ => MS) (fun _ _ => True) :=
  ms_keeps _ (fun _ => addTargetedEvent_sl ty) (pieces.glue_addTargetedEvent ty hty) (addTargetedEvent_qe ty)
    (recvInv_addTargetedEvent ty)
theorem ms_addEvent (ty : EvTy) : Hoare MS (addEvent ty) (fun _ => MS) (fun _ _ => True) :=
  ms_keeps _ (fun _ => addEvent_sl ty) (pieces.glue_addEvent ty) (addEvent_qe ty) (recvInv_addEvent ty)
theorem ms_initQuery (q : Query) (cfg : Config) : Hoare MS (initQuery q cfg) (fun _ => MS) (fun _ _ => True) :=
  ms_keeps _ (fun _ => initQuery_sl q cfg) (pieces.glue_initQuery q cfg) (initQuery_qe q cfg)
    (recvInv_initQuery q cfg)
theorem ms_initParam (ps : PSpec) (cfg : Config) : Hoare MS (initParam ps cfg) (fun _ => MS) (fun _ _ => True) :=
  ms_keeps _ (fun _ => initParam_sl ps cfg) (pieces.glue_initParam ps cfg) (initParam_qe ps cfg)
    (recvInv_initParam ps cfg)

end SafeS5

theorem ensureAddG_itemOK : SObl.ensureAddG_itemOK := by
  refine ⟨fun w hw k w' hr hs' => ?_⟩
  have hs : Small w := SlabMono.small (fun _ => ensureAddG_sl) hr hs'
  obtain ⟨hwf, ei, hg, -⟩ := InvV6.ensureAddG_live.run w (hw hs).1.1.1.gevsWF k w' hr
  show (w'.gevs.getByIndex k.idx).isSome = true
  rw [SlotMap.get_getByIndex hwf hg]; rfl

theorem addGlobalEvent_itemOK : SObl.addGlobalEvent_itemOK := by
  intro ty
  refine ⟨fun w hw k w' hr hs' => ?_⟩
  have hs : Small w := SlabMono.small (fun _ => addGlobalEvent_sl ty) hr hs'
  obtain ⟨hwf, ei, hg, -⟩ := (InvV6.addGlobalEvent_gl ty).run w (hw hs).1.1.1.gevsWF k w' hr
  show (w'.gevs.getByIndex k.idx).isSome = true
  rw [SlotMap.get_getByIndex hwf hg]; rfl

theorem addTargetedEvent_itemOK : SObl.addTargetedEvent_itemOK := by
  intro ty hty
  refine ⟨fun w hw k w' hr hs' => ?_⟩
  obtain ⟨ei, hg, -⟩ := (addTargetedEvent_live ty).run w trivial k w' hr
  have hms : MS w' := (SafeS5.ms_addTargetedEvent ty hty).ok hw hr
  show (w'.tevs.getByIndex k.idx).isSome = true
  rw [SlotMap.get_getByIndex (hms hs').1.1.1.tevsWF hg]; rfl

/-! ## B: the registration functions

`SafeM m` — from `MS`: no `ub`/`assert` exit, and `MS` again on normal return.  It composes with the plain
`Hoare.bind_inv` / `Hoare.forIn_list_inv`. -/

namespace SafeS5

abbrev SafeM {α : Type} (m : M α) : Prop := Hoare MS m (fun _ => MS) NoUB

theorem SafeM.of {α : Type} {m : M α} (hs : Safe MS m) (hk : Hoare MS m (fun _ => MS) (fun _ _ => True)) : SafeM m :=
  Hoare.post (Hoare.and hs hk) (fun _ _ h => h.2) (fun _ _ h => h.1)
theorem SafeM.safe {α : Type} {m : M α} (h : SafeM m) : Safe MS m := Hoare.post h (fun _ _ _ => trivial) fun _ _ h => h

theorem safe_bind_true {α β : Type} {P : World → Prop} {m : M α} {f : α → M β} (hm : Safe P m)
    (hf : ∀ a, Safe (fun _ => True) (f a)) : Safe P (m >>= f) := Safe.bind hm hoare_true hf

theorem itemOK_gev {w : World} {ty : EvTy} {idx : Nat} {tg : Key} {pay : Payload} (hty : ty.targeted = false)
    (hp : pay.arena = none) (h : (w.gevs.getByIndex idx).isSome = true) :
    ItemOK w.frame { ty := ty, idx := idx, target := tg, pay := pay } := by
  refine ⟨?_, fun x hx => ?_⟩
  · simp only [hty, Bool.false_eq_true, if_false]; exact h
  · rw [show ({ ty := ty, idx := idx, target := tg, pay := pay } : QItem).pay.arena = none from hp] at hx; cases hx

theorem itemOK_tev {w : World} {ty : EvTy} {idx : Nat} {tg : Key} {pay : Payload} (hty : ty.targeted = true)
    (hp : pay.arena = none) (h : (w.tevs.getByIndex idx).isSome = true) :
    ItemOK w.frame { ty := ty, idx := idx, target := tg, pay := pay } := by
  refine ⟨?_, fun x hx => ?_⟩
  · simp only [hty, if_true]; exact h
  · rw [show ({ ty := ty, idx := idx, target := tg, pay := pay } : QItem).pay.arena = none from hp] at hx; cases hx

/-- the guard of `send` / `send_to`: the event value is dropped, the error rethrown -/
theorem dropGuard_safe {α : Type} {P : World → Prop} (it : QItem) {e : Err} (hp : e.isPanic = true) :
    Safe P (dropEvent it >>= fun _ => (throw e : M α)) :=
  safe_bind_true (safe_noErr fun w => ⟨_, _, run_dropEvent it w⟩) fun _ => Safe.throw hp

theorem dropGuard_sl {α : Type} (it : QItem) (e : Err) : SlabMono (dropEvent it >>= fun _ => (throw e : M α)) :=
  fun n => by keeps

/-- `tryCatch m (drop; rethrow)`: normal returns are the normal returns of `m` -/
theorem tryCatch_drop_ok {α : Type} {P : World → Prop} {m : M α} {Q : α → World → Prop} {E : Err → World → Prop}
    (it : QItem) (hm : Hoare P m Q E) :
    Hoare P (tryCatch m fun e => dropEvent it >>= fun _ => throw e) Q (fun _ _ => True) :=
  Hoare.tryCatch (E1 := fun _ _ => True) (Hoare.post hm (fun _ _ h => h) fun _ _ _ => trivial) fun _ =>
    Hoare.of_hoareOk HoareOk.bind_throw

section glue
variable (hfl : SObl.flush_safeK)
include hfl

theorem push_flush_then {β : Type} (it : QItem) (fuel : Nat) {f : Unit → M β} (hf : ∀ u, Safe GS (f u)) :
    Safe (Guarded fun w => (SMid w ∧ QNil w) ∧ ItemOK w.frame it) (push it >>= fun _ => flush fuel >>= f) :=
  Safe.bind (push_safe it) (push_gs it) fun _ =>
    Safe.bind (hfl fuel).safe (Hoare.post (hfl fuel) (fun _ _ h => h) fun _ _ _ => trivial) hf

theorem addGlobalEvent_safe' (ty : EvTy) : Safe MS (addGlobalEvent ty) := by
  unfold addGlobalEvent
  split
  · exact ensureAddG_safe pieces hfl
  · refine Safe.get_bind_eq fun w hw => ?_
    split
    · exact Safe.pure _
    · split
      · exact Safe.throw rfl
      · next k gevs hins =>
        refine Safe.bind (E := fun _ _ => True) (R := fun _ => MS)
          (safe_noErr fun _ => ⟨_, _, rfl⟩) ⟨fun w0 _ => ?_⟩ fun _ => ?_
        · simp only [run_set]
          exact fun hs => (ms_regGev pieces hw (ty := ty) hins hs).1
        refine Safe.bind (R := fun ak => Guarded fun w1 => (SMid w1 ∧ QNil w1) ∧
            ItemOK w1.frame { ty := .addG, idx := ak.idx, pay := { id := k } })
          (ensureAddG_safe pieces hfl)
          (Hoare.post (Hoare.and ms_ensureAddG (Hoare.of_hoareOk ensureAddG_itemOK))
            (fun ak w1 h hs => ⟨h.1 hs, itemOK_gev rfl rfl (h.2 hs)⟩) fun _ _ _ => trivial) fun ak => ?_
        exact push_flush_then hfl _ _ fun _ => Safe.pure _

theorem addGlobalEvent_safeM (ty : EvTy) : SafeM (addGlobalEvent ty) :=
  SafeM.of (addGlobalEvent_safe' hfl ty) (ms_addGlobalEvent ty)

/-- **`SObl.sendGlobal_safe`, corrected**: the event is a global one and carries no arena payload -/
theorem sendGlobal_safe' (ty : EvTy) (pay : Payload) (hty : ty.targeted = false) (hp : pay.arena = none) :
    Safe MS (sendGlobal ty pay) := by
  unfold sendGlobal
  refine Safe.bind (R := fun k => Guarded fun w1 => (SMid w1 ∧ QNil w1) ∧
      ItemOK w1.frame { ty := ty, idx := k.idx, pay := pay })
    (Safe.tryCatch (E1 := fun _ _ => True) (addGlobalEvent_safe' hfl ty) hoare_true (fun e => dropGuard_sl _ e)
      fun e he => dropGuard_safe _ he)
    (tryCatch_drop_ok _ (Hoare.post (Hoare.and (ms_addGlobalEvent ty) (Hoare.of_hoareOk (addGlobalEvent_itemOK ty)))
      (fun k w1 h hs => ⟨h.1 hs, itemOK_gev hty hp (h.2 hs)⟩) fun _ _ _ => trivial)) fun k => ?_
  exact push_flush_safe hfl _ _

theorem sendGlobal_safeM (ty : EvTy) (pay : Payload) (hty : ty.targeted = false) (hp : pay.arena = none) :
    SafeM (sendGlobal ty pay) := SafeM.of (sendGlobal_safe' hfl ty pay hty hp) (ms_sendGlobal ty pay)

theorem addComponent_safe' (ty : Nat) : Safe MS (addComponent ty) := by
  unfold addComponent
  refine Safe.get_bind_eq fun w hw => ?_
  split
  · exact Safe.pure _
  · split
    · exact Safe.throw rfl
    · next k comps hins =>
      refine Safe.bind (E := fun _ _ => True) (R := fun _ => MS)
        (safe_noErr fun _ => ⟨_, _, rfl⟩) ⟨fun w0 _ => ?_⟩ fun _ => ?_
      · simp only [run_set]
        intro hs
        have hs0 : Small w := hs
        obtain ⟨⟨hW, hR⟩, hQ⟩ := hw hs0
        exact ⟨⟨winvMid_of_groups hs (fun g => pieces.regComp_keeps g w ty k comps hW hins) hW.2, hR⟩, hQ⟩
      exact safe_bind_true (sendGlobal_safe' hfl _ _ rfl rfl) fun _ => Safe.pure _

theorem addComponent_safeM (ty : Nat) : SafeM (addComponent ty) :=
  SafeM.of (addComponent_safe' hfl ty) (ms_addComponent ty)

omit hfl in
theorem noteEvent_hq (w : World) (kind : EvKind) (k : Key) :
    (Step.noteEvent w kind k).handlers = w.handlers ∧ (Step.noteEvent w kind k).queue = w.queue := by
  unfold Step.noteEvent
  repeat' split
  all_goals exact ⟨rfl, rfl⟩

omit hfl in
/-- the raw registry write of `addTargetedEvent` keeps `MS` -/
theorem ms_regTev {w : World} {kind : EvKind} (hw : Guarded (fun w => (SMid w ∧ QNil w) ∧ KindLive kind w) w)
    {ty : EvTy} (hty : ty.targeted = true) {nd : Bool} {k : Key} {tevs' : SlotMap EvInfo}
    (hins : w.tevs.insertWith (Step.tevEntry ty kind nd) = some (k, tevs')) : MS (Step.regTev w kind k tevs') := by
  intro hs
  have hgw : GW (Step.regTev w kind k tevs') :=
    gw_regTev pieces.regTev_keeps (fun hs0 => ⟨(hw hs0).1.1.1, (hw hs0).2⟩) hty hins
  obtain ⟨e1, e2, -⟩ := noteEvent_frame { w with tevs := tevs' } kind k
  obtain ⟨e3, e4⟩ := noteEvent_hq { w with tevs := tevs' } kind k
  have hs0 : Small w := by
    refine ⟨?_, Nat.lt_of_le_of_lt (SlotMap.length_insertWith hins) ?_⟩
    · have := hs.1; unfold Step.regTev at this; rw [e1] at this; exact this
    · have := hs.2; unfold Step.regTev at this; rw [e2] at this; exact this
  obtain ⟨⟨-, hR⟩, hQ⟩ := (hw hs0).1
  refine ⟨⟨hgw hs, ?_⟩, ?_⟩
  · show RecvInv' (Step.noteEvent { w with tevs := tevs' } kind k).handlers
    rw [e3]; exact hR
  · show (Step.noteEvent { w with tevs := tevs' } kind k).queue = []
    rw [e4]; exact hQ

theorem addTargetedEvent_safe' (ty : EvTy) (hty : ty.targeted = true) : Safe MS (addTargetedEvent ty) := by
  unfold addTargetedEvent
  have hadd : ∀ k, Hoare MS (addComponent k)
      (fun c => Guarded fun w => (SMid w ∧ QNil w) ∧ (w.comps.getByIndex c.idx).isSome = true) NoUB := by
    intro k
    refine Hoare.post (Hoare.and (addComponent_safeM hfl k) (Hoare.of_hoareOk
      (HoareOk.pre (pieces.addComponent_live k) fun _ _ => trivial))) ?_ (fun _ _ h => h.1)
    rintro c w ⟨h1, ci, hci, -⟩ hs
    refine ⟨h1 hs, ?_⟩
    rw [SlotMap.get_getByIndex (h1 hs).1.1.1.compsWF hci]; rfl
  refine Hoare.bind (R := fun kind => Guarded (fun w => (SMid w ∧ QNil w) ∧ KindLive kind w)) ?_ fun kind => ?_
  · split
    · refine Hoare.bind (hadd _) fun c => Hoare.pure fun w hw hs => ⟨(hw hs).1, fun c' hc' => ?_⟩
      rcases hc' with h | h <;> cases h
      exact (hw hs).2
    · refine Hoare.bind (hadd _) fun c => Hoare.pure fun w hw hs => ⟨(hw hs).1, fun c' hc' => ?_⟩
      rcases hc' with h | h <;> cases h
      exact (hw hs).2
    · exact Hoare.pure fun w hw hs => ⟨hw hs, fun c' hc' => by rcases hc' with h | h <;> cases h⟩
    · exact Hoare.pure fun w hw hs => ⟨hw hs, fun c' hc' => by rcases hc' with h | h <;> cases h⟩
  · refine Safe.get_bind_eq fun w hw => ?_
    split
    · exact Safe.pure _
    · extract_lets nd
      split
      · exact Safe.throw rfl
      · next k tevs hins =>
        refine Hoare.bind (R := fun _ w1 => w1 = { w with tevs := tevs }) ⟨fun w0 _ => ?_⟩ fun _ => ?_
        · simp only [run_set]
        extract_lets jp
        have hjp : ∀ r, Safe (fun w2 => w2 = Step.regTev w kind k tevs) (jp r) := by
          intro r
          refine Safe.pre (P' := MS) ?_ fun w2 h2 => ?_
          · exact safe_bind_true (sendGlobal_safe' hfl _ _ rfl rfl) fun _ => Safe.pure _
          · subst h2
            exact ms_regTev hw hty hins
        refine ⟨fun w1 h1 => ?_⟩
        subst h1
        have key := fun r => (hjp r).run _ rfl
        unfold Step.regTev Step.noteEvent at key
        cases kind with
        | insert c =>
          simp only [run_bind, run_get]
          cases hg : w.comps.getByIndex c with
          | none => simp only [hg] at key ⊢; exact key ()
          | some p => obtain ⟨ck, ci⟩ := p; simp only [hg, run_bind, run_set] at key ⊢; exact key ()
        | remove c =>
          simp only [run_bind, run_get]
          cases hg : w.comps.getByIndex c with
          | none => simp only [hg] at key ⊢; exact key ()
          | some p => obtain ⟨ck, ci⟩ := p; simp only [hg, run_bind, run_set] at key ⊢; exact key ()
        | normal => exact key ()
        | spawn => exact key ()
        | despawn => exact key ()

theorem addTargetedEvent_safeM (ty : EvTy) (hty : ty.targeted = true) : SafeM (addTargetedEvent ty) :=
  SafeM.of (addTargetedEvent_safe' hfl ty hty) (ms_addTargetedEvent ty hty)

theorem addEvent_safeM (ty : EvTy) : SafeM (addEvent ty) := by
  unfold addEvent
  split
  · next h => exact addTargetedEvent_safeM hfl ty h
  · exact addGlobalEvent_safeM hfl ty

/-- **`SObl.sendTargeted_safe`, corrected**: no arena payload -/
theorem sendTargeted_safe' (ty : EvTy) (tg : Key) (pay : Payload) (hty : ty.targeted = true) (hp : pay.arena = none) :
    Safe MS (sendTargeted ty tg pay) := by
  unfold sendTargeted
  refine Safe.bind (R := fun k => Guarded fun w1 => (SMid w1 ∧ QNil w1) ∧
      ItemOK w1.frame { ty := ty, idx := k.idx, target := tg, pay := pay })
    (Safe.tryCatch (E1 := fun _ _ => True) (addTargetedEvent_safe' hfl ty hty) hoare_true
      (fun e => dropGuard_sl _ e) fun e he => dropGuard_safe _ he)
    (tryCatch_drop_ok _ (Hoare.post (Hoare.and (ms_addTargetedEvent ty hty)
        (Hoare.of_hoareOk (addTargetedEvent_itemOK ty hty)))
      (fun k w1 h hs => ⟨h.1 hs, itemOK_tev hty hp (h.2 hs)⟩) fun _ _ _ => trivial)) fun k => ?_
  exact push_flush_safe hfl _ _

theorem initQuery_safeM (q : Query) (cfg : Config) : SafeM (initQuery q cfg) := by
  have hAC := addComponent_safeM hfl
  unfold initQuery
  repeat' first
    | exact Hoare.pure fun _ h => h
    | exact hAC _
    | (with_reducible refine Hoare.get_bind fun _ _ => ?_)
    | (with_reducible refine Hoare.bind_inv ?_ fun _ => ?_)
    | (with_reducible refine Hoare.forIn_list_inv fun _ _ => ?_)
    | dsimp only

theorem initParam_safeM (ps : PSpec) (cfg : Config) : SafeM (initParam ps cfg) := by
  have hIQ := initQuery_safeM hfl
  have hATE := addTargetedEvent_safeM hfl
  have hAGE := addGlobalEvent_safeM hfl
  have hAE := addEvent_safeM hfl
  unfold initParam
  repeat' first
    | exact Hoare.pure fun _ h => h
    | exact hIQ _ _
    | exact hATE _ ‹_›
    | exact hAGE _
    | exact hAE _
    | (with_reducible refine Hoare.get_bind fun _ _ => ?_)
    | (with_reducible refine Hoare.bind_inv ?_ fun _ => ?_)
    | (with_reducible refine Hoare.forIn_list_inv fun _ _ => ?_)
    | dsimp only
    | split

end glue
end SafeS5

/-! ## handlers: `registerAll`, `removeHandler`, `addHandler` -/

namespace SafeS5

/-! ### slot-map facts that need no well-formedness -/

theorem get_of_insertWith {α : Type} {sm sm' : SlotMap α} {f : Key → α} {k : Key}
    (h : sm.insertWith f = some (k, sm')) {k' : Key} {v : α} (hg : sm'.get k' = some v) :
    (k' = k ∧ v = f k) ∨ sm.get k' = some v := by
  obtain ⟨i', g'⟩ := k'
  cases hs : sm.slots[sm.nextFree]? with
  | some s =>
    rw [SlotMap.insertWith_pop hs] at h
    obtain ⟨rfl, rfl⟩ := Prod.mk.inj (Option.some.inj h)
    have hlt : sm.nextFree < sm.slots.length := (List.getElem?_eq_some_iff.1 hs).1
    unfold SlotMap.get at hg ⊢
    simp only [List.getElem?_set] at hg
    by_cases hi : sm.nextFree = i'
    · subst hi
      simp only [if_true, hlt] at hg
      split at hg
      · next hgen => left; cases hg; subst hgen; exact ⟨rfl, rfl⟩
      · cases hg
    · simp only [hi, if_false] at hg
      right; exact hg
  | none =>
    by_cases hl : sm.slots.length = U32MAX
    · rw [SlotMap.insertWith_full hs hl] at h; cases h
    · rw [SlotMap.insertWith_push hs hl] at h
      obtain ⟨rfl, rfl⟩ := Prod.mk.inj (Option.some.inj h)
      unfold SlotMap.get at hg ⊢
      simp only at hg ⊢
      by_cases hi : i' < sm.slots.length
      · rw [List.getElem?_append_left hi] at hg
        right; exact hg
      · by_cases hi2 : i' = sm.slots.length
        · subst hi2
          simp only [List.getElem?_append_right (Nat.le_refl _), Nat.sub_self, List.getElem?_cons_zero] at hg
          split at hg
          · next hgen => left; cases hg; subst hgen; exact ⟨rfl, rfl⟩
          · cases hg
        · rw [List.getElem?_eq_none (by simp; omega)] at hg
          cases hg

theorem get_of_remove_other {α : Type} {sm sm' : SlotMap α} {k : Key} {v : α}
    (h : sm.remove k = some (v, sm')) {k' : Key} {v' : α} (hg : sm'.get k' = some v') : sm.get k' = some v' := by
  unfold SlotMap.remove at h
  cases hs : sm.slots[k.idx]? with
  | none => simp [hs] at h
  | some s =>
    simp only [hs] at h
    split at h
    · cases h
    · split at h
      · cases h
      · have hslots : ∃ x : Slot α, x.val = none ∧ sm'.slots = sm.slots.set k.idx x := by
          split at h
          · obtain ⟨-, rfl⟩ := Prod.mk.inj (Option.some.inj h); exact ⟨_, rfl, rfl⟩
          · obtain ⟨-, rfl⟩ := Prod.mk.inj (Option.some.inj h); exact ⟨_, rfl, rfl⟩
        obtain ⟨x, hx, hsl⟩ := hslots
        unfold SlotMap.get at hg ⊢
        rw [hsl, List.getElem?_set] at hg
        by_cases hi : k.idx = k'.idx
        · simp only [hi, if_true] at hg
          by_cases hlt : k'.idx < sm.slots.length
          · simp only [hlt, if_true, hx] at hg
            split at hg <;> cases hg
          · simp only [hlt, if_false] at hg
            cases hg
        · simp only [hi, if_false] at hg
          exact hg

theorem recvInv_insert {H H' : SlotMap HInfo} (h : RecvInv' H) {mk : Key → HInfo} {k : Key}
    (hins : H.insertWith mk = some (k, H')) (hnew : (mk k).ParamsOK) : RecvInv' H' := by
  intro k' h' hg
  rcases get_of_insertWith hins hg with ⟨-, rfl⟩ | hg'
  · exact hnew
  · exact h k' h' hg'

theorem recvInv_remove {H H' : SlotMap HInfo} (h : RecvInv' H) {k : Key} {v : HInfo}
    (hrm : H.remove k = some (v, H')) : RecvInv' H' :=
  fun k' h' hg => h k' h' (get_of_remove_other hrm hg)

/-! ### what the parameter loop of `addHandler` knows about the receiver -/

/-- the received event, as far as configured, is a targeted one (or the configuration is already invalid) -/
def ROK (o : Option (Option (EvTy × Key))) : Prop := o = some none ∨ ∃ ty k, o = some (some (ty, k)) ∧ ty.targeted = true

theorem rok_setRecv_targeted (cfg : Config) {ev : EvTy} (hev : ev.targeted = true) (k : Key) :
    ROK (cfg.setRecv ev k).recvEv := by
  unfold Config.setRecv
  simp only
  split
  · exact .inr ⟨ev, k, rfl, hev⟩
  · split
    · exact .inr ⟨ev, k, rfl, hev⟩
    · exact .inl rfl
  · exact .inl rfl

theorem rok_setRecv {cfg : Config} (h : ROK cfg.recvEv) (ev : EvTy) (k : Key) : ROK (cfg.setRecv ev k).recvEv := by
  unfold Config.setRecv
  simp only
  rcases h with h | ⟨ty, k', h, ht⟩
  · rw [h]; exact .inl rfl
  · rw [h]
    simp only
    split
    · next hc =>
      have : ty = ev := by
        have := Bool.and_eq_true_iff.1 hc
        exact eq_of_beq this.1
      exact .inr ⟨ev, k, rfl, this ▸ ht⟩
    · exact .inl rfl

/-- not a `Fetcher` / `Single` / `TrySingle` specification -/
def NotF : PSpec → Prop
  | .fetch _ | .single _ | .trySingle _ => False
  | _ => True

/-- what one `HandlerParam::init` contributes to `ParamsOK` -/
structure PStep (ps : PSpec) (cfg : Config) (p : Param) (cfg' : Config) : Prop where
  mono : ROK cfg.recvEv → ROK cfg'.recvEv
  recv : p.kind = .recv → p.hasQ = true → ROK cfg'.recvEv
  hasQ : p.kind = .fetch ∨ p.kind = .single ∨ p.kind = .trySingle → p.hasQ = true
  first : NotF ps → p.hasQ = true → p.kind = .recv

theorem initParam_pstep (ps : PSpec) (cfg : Config) : Ret (initParam ps cfg) (fun r => PStep ps cfg r.1 r.2) := by
  unfold initParam
  cases ps with
  | recv ev mutable q =>
    dsimp only
    split
    · next hev =>
      refine Ret.bind' fun k => Ret.bind (initQuery_ret _ cfg) fun r hr => ?_
      obtain ⟨q', ca, cfg1⟩ := r
      obtain ⟨-, -, -, hrv⟩ := hr
      simp only at hrv
      have h1 : ROK (cfg1.setRecv ev k).recvEv := rok_setRecv_targeted cfg1 hev k
      exact Ret.pure ⟨fun _ => h1, fun _ _ => h1, fun h => (by rcases h with h | h | h <;> cases h), fun _ _ => rfl⟩
    · refine Ret.bind' fun k => Ret.pure ⟨fun h => rok_setRecv h ev k, fun _ h => (by cases h),
        fun h => (by rcases h with h | h | h <;> cases h), fun _ h => (by cases h)⟩
  | fetch q =>
    refine Ret.bind (initQuery_ret _ cfg) fun r hr => ?_
    obtain ⟨q', ca, cfg1⟩ := r
    obtain ⟨-, -, -, hrv⟩ := hr
    simp only at hrv
    exact Ret.pure ⟨fun h => (by show ROK cfg1.recvEv; rw [hrv]; exact h), fun h => (by cases h), fun _ => rfl,
      fun h => h.elim⟩
  | single q =>
    refine Ret.bind (initQuery_ret _ cfg) fun r hr => ?_
    obtain ⟨q', ca, cfg1⟩ := r
    obtain ⟨-, -, -, hrv⟩ := hr
    simp only at hrv
    exact Ret.pure ⟨fun h => (by show ROK cfg1.recvEv; rw [hrv]; exact h), fun h => (by cases h), fun _ => rfl,
      fun h => h.elim⟩
  | trySingle q =>
    refine Ret.bind (initQuery_ret _ cfg) fun r hr => ?_
    obtain ⟨q', ca, cfg1⟩ := r
    obtain ⟨-, -, -, hrv⟩ := hr
    simp only at hrv
    exact Ret.pure ⟨fun h => (by show ROK cfg1.recvEv; rw [hrv]; exact h), fun h => (by cases h), fun _ => rfl,
      fun h => h.elim⟩
  | snd evs =>
    dsimp only
    refine Ret.bind' fun idxs => ?_
    refine Ret.bind (Ret.forIn (fun b => cfg.SameFilter b) (Config.SameFilter.refl cfg) fun x b hb => ?_) fun b hb => ?_
    · obtain ⟨ev, i⟩ := x
      dsimp only
      split
      · exact Ret.pure ⟨hb.1, hb.2.1, hb.2.2⟩
      · exact Ret.pure ⟨hb.1, hb.2.1, hb.2.2⟩
    · obtain ⟨-, -, hrv⟩ := hb
      exact Ret.pure ⟨fun h => (by show ROK b.recvEv; rw [hrv]; exact h), fun h => (by cases h),
        fun h => (by rcases h with h | h | h <;> cases h), fun _ h => (by cases h)⟩
  | ents =>
    exact Ret.pure ⟨fun h => h, fun h => (by cases h), fun h => (by rcases h with h | h | h <;> cases h),
      fun _ h => (by cases h)⟩

/-- loop invariant of the parameter loop (`pre`: the specifications processed so far) -/
structure PInv (l : List PSpec) (cfg : Config) (params : List Param) (pre : List PSpec) : Prop where
  len : params.length = pre.length
  first : ∀ pm, params[0]? = some pm → pm.hasQ = true → pm.kind = .recv
  recvT : ∀ pm ∈ params, pm.kind = .recv → pm.hasQ = true → ROK cfg.recvEv
  hasQ : ∀ pm ∈ params, pm.kind = .fetch ∨ pm.kind = .single ∨ pm.kind = .trySingle → pm.hasQ = true

theorem PInv.init (l : List PSpec) : PInv l {} [] [] :=
  ⟨rfl, fun _ h => (by cases h), fun _ h => (by cases h), fun _ h => (by cases h)⟩

theorem notF_of_recvFirst {hs : HSpec} (h : hs.RecvFirst) {a : PSpec} {suf : List PSpec}
    (heq : hs.params = a :: suf) : NotF a := by
  unfold HSpec.RecvFirst at h
  rw [heq] at h
  cases a <;> first | trivial | exact h

theorem PInv.step {hs : HSpec} (hrf : hs.RecvFirst) {cfg : Config} {params : List Param} {pre : List PSpec}
    (h : PInv hs.params cfg params pre) {ps : PSpec} {suf : List PSpec} (hl : hs.params = pre ++ ps :: suf)
    {p : Param} {cfg' : Config} (hp : PStep ps cfg p cfg') : PInv hs.params cfg' (params ++ [p]) (pre ++ [ps]) := by
  refine ⟨by simp [h.len], fun pm h0 hq => ?_, fun pm hm hk hq => ?_, fun pm hm hk => ?_⟩
  · cases hpar : params with
    | nil =>
      have hpre : pre = [] := List.eq_nil_of_length_eq_zero (by rw [← h.len, hpar]; rfl)
      subst hpre
      rw [hpar] at h0
      simp only [List.nil_append, List.getElem?_cons_zero, Option.some.injEq] at h0
      subst h0
      exact hp.first (notF_of_recvFirst hrf hl) hq
    | cons x xs =>
      rw [hpar] at h0
      simp only [List.cons_append, List.getElem?_cons_zero, Option.some.injEq] at h0
      subst h0
      exact h.first x (by rw [hpar]; rfl) hq
  · rcases List.mem_append.1 hm with hm | hm
    · exact hp.mono (h.recvT pm hm hk hq)
    · cases List.mem_singleton.1 hm; exact hp.recv hk hq
  · rcases List.mem_append.1 hm with hm | hm
    · exact h.hasQ pm hm hk
    · cases List.mem_singleton.1 hm; exact hp.hasQ hk

/-- the registry entry built from the final configuration satisfies `ParamsOK` -/
theorem PInv.paramsOK {l : List PSpec} {cfg : Config} {params : List Param} {pre : List PSpec}
    (h : PInv l cfg params pre) {recvTy : EvTy} {recvKey : Key} (hrecv : cfg.recvEv = some (some (recvTy, recvKey)))
    {hi : HInfo} (h1 : hi.params = params) (h2 : hi.recv = recvTy) : hi.ParamsOK := by
  refine ⟨fun pm h0 hq => h.first pm (h1 ▸ h0) hq, fun pm hm hk hq => ?_, fun pm hm hk => h.hasQ pm (h1 ▸ hm) hk⟩
  rcases h.recvT pm (h1 ▸ hm) hk hq with hn | ⟨ty, k, he, ht⟩
  · rw [hrecv] at hn; cases hn
  · rw [hrecv] at he; cases he; rw [h2]; exact ht

/-- a `for` loop whose invariant may depend on the elements already processed -/
theorem hoare_forIn_prefix {β γ : Type} {f : γ → β → M (ForInStep β)} {E : Err → World → Prop}
    (Inv : List γ → β → World → Prop) (l : List γ)
    (hf : ∀ pre a suf b, l = pre ++ a :: suf → Hoare (Inv pre b) (f a b) (fun r => Inv (pre ++ [a]) r.value) E) :
    ∀ (rest pre : List γ) (b : β), l = pre ++ rest →
      Hoare (Inv pre b) (forIn rest b f) (fun b w => ∃ p, Inv p b w) E := by
  intro rest
  induction rest with
  | nil => exact fun pre b _ => Hoare.pure fun _ h => ⟨pre, h⟩
  | cons a rest ih =>
    intro pre b hl
    rw [List.forIn_cons]
    refine Hoare.bind (hf pre a rest b hl) fun r => ?_
    cases r with
    | done b => exact Hoare.pure fun _ h => ⟨_, h⟩
    | yield b => exact ih (pre ++ [a]) b (by rw [List.append_assoc]; exact hl)

theorem hoare_and_ret {α : Type} {P : World → Prop} {m : M α} {Q : α → World → Prop} {E : Err → World → Prop}
    {R : α → Prop} (h : Hoare P m Q E) (hr : Ret m R) : Hoare P m (fun a w => Q a w ∧ R a) E := by
  refine ⟨fun w hw => ?_⟩
  have r1 := h.run w hw
  have r2 := hr w
  generalize m.run.run w = res at r1 r2
  obtain ⟨(e|a), w'⟩ := res
  · exact r1
  · exact ⟨r1, r2 a w' rfl⟩

theorem keeps_of_hoare {α : Type} {I : World → Prop} {m : M α} (h : Hoare I m (fun _ => I) (fun _ => I)) :
    Keeps I m := by
  refine ⟨fun w hw => ?_⟩
  have := h.run w hw
  generalize m.run.run w = r at this
  obtain ⟨(e|u), w'⟩ := r <;> exact this

end SafeS5

/-! ### `registerAll` -/

namespace SafeS5

/-- the set of live archetype indices is `f` -/
abbrev AK (f : Nat → Bool) : World → Prop := fun w => ∀ j, (w.archs.get j).isSome = f j

section ak
variable {f : Nat → Bool}
theorem ubErr_ak {α : Type} (s : String) : Keeps (AK f) (ubErr s : M α) := Keeps.throw _
local macro_rules | `(tactic| keeps_leaf) => `(tactic| exact ubErr_ak _)
theorem dbgAssert_ak (c : Bool) (s : String) : Keeps (AK f) (dbgAssert c s) := by unfold dbgAssert; keeps
local macro_rules | `(tactic| keeps_leaf) => `(tactic| exact dbgAssert_ak _ _)
theorem getArch_ak (i : Nat) (s : String) : Keeps (AK f) (getArch i s) := by unfold getArch; keeps
local macro_rules | `(tactic| keeps_leaf) => `(tactic| exact getArch_ak _ _)
theorem setArch_ak (a : Arch) : Keeps (AK f) (setArch a) := by
  unfold setArch
  refine Keeps.modify fun w h j => ?_
  show ((w.archs.set a.index a).get j).isSome = f j
  rw [Slab.get_set, ← h j]
  split
  · next hj => subst hj; cases w.archs.get a.index <;> rfl
  · rfl
local macro_rules | `(tactic| keeps_leaf) => `(tactic| exact setArch_ak _)
theorem freshEpoch_ak : Keeps (AK f) freshEpoch := by unfold freshEpoch; keeps
local macro_rules | `(tactic| keeps_leaf) => `(tactic| exact freshEpoch_ak)
theorem handlerRefresh_ak (hk : Key) (a : Arch) : Keeps (AK f) (handlerRefresh hk a) := by
  unfold handlerRefresh; keeps
local macro_rules | `(tactic| keeps_leaf) => `(tactic| exact handlerRefresh_ak _ _)
theorem registerHandler_ak (a : Arch) (h : HInfo) : Keeps (AK f) (a.registerHandler h) := by
  unfold Arch.registerHandler; keeps
end ak

theorem keeps_and {α : Type} {I J : World → Prop} {m : M α} (h1 : Keeps I m) (h2 : Keeps J m) :
    Keeps (fun w => I w ∧ J w) m := ⟨fun w hw => ⟨h1.run w hw.1, h2.run w hw.2⟩⟩

theorem core_key {h h' : HInfo} (hc : h'.core = h.core) : h'.key = h.key :=
  (congrArg HInfo.key hc : h'.core.key = h.core.key)

theorem registerAll_safe' (k : Key) (reg : Key → Option HInfo) (f : Nat → Bool) {c : HInfo} (hreg : reg k = some c)
    (hck : c.key = k) : Safe (fun w => HK reg w ∧ AK f w) (registerAll k) := by
  unfold registerAll
  refine Safe.get_bind fun w0 hw0 => ?_
  refine Hoare.bind (Safe.forIn_list_inv (fun _ w => HK reg w ∧ AK f w) (E := fun _ _ => True)
    (fun x hx b => ?_) (fun x hx b => ?_)) fun _ => Safe.pure _
  · -- the body keeps the invariant
    obtain ⟨i, a0⟩ := x
    refine Hoare.of_keeps (keeps_and (I := HK reg) (J := AK f) ?_ ?_) fun _ _ _ => trivial
    · dsimp only
      refine Keeps.bind (getArch_hk _ _) fun a => Keeps.get_bind fun w _ => ?_
      split
      · exact Keeps.bind (registerHandler_hk _ _) fun _ => Keeps.bind (setArch_hk _) fun _ => Keeps.pure _
      · exact Keeps.bind (ubErr_hk _) fun _ => Keeps.pure _
    dsimp only
    refine Keeps.bind (getArch_ak _ _) fun a => Keeps.get_bind fun w _ => ?_
    split
    · exact Keeps.bind (registerHandler_ak _ _) fun _ => Keeps.bind (setArch_ak _) fun _ => Keeps.pure _
    · exact Keeps.bind (ubErr_ak _) fun _ => Keeps.pure _
  · -- … and has no unchecked failure
    obtain ⟨i, a0⟩ := x
    have hi : f i = true := by
      rw [← hw0.2 i, (Slab.mem_toList_iff _ _ _).1 hx]; rfl
    dsimp only
    refine Hoare.bind (R := fun _ w => HK reg w ∧ AK f w) ⟨fun w hw => ?_⟩ fun a => ?_
    · rw [run_getArch']
      cases hg : w.archs.get i with
      | none => have := hw.2 i; rw [hg, hi] at this; cases this
      | some a => exact hw
    refine Safe.get_bind fun w1 hw1 => ?_
    have hk1 := hw1.1 k
    rw [hreg] at hk1
    split
    · next h heq =>
      rw [heq, Option.map_some] at hk1
      have hkey : h.key = k := (congrArg HInfo.key (Option.some.inj hk1) : h.core.key = c.key).trans hck
      refine Safe.bind (R := fun _ _ => True) (Safe.pre (registerHandler_safe _ h) fun w hw => ?_) hoare_true
        fun a' => safe_bindT (safe_noErr fun _ => ⟨_, _, rfl⟩) fun _ => Safe.pure _
      have := hw.1 k
      rw [hreg] at this
      rw [hkey]
      cases hg : w.handlers.get k with
      | none => rw [hg] at this; cases this
      | some _ => rfl
    · next hne =>
      cases hg : w1.handlers.get k with
      | none => rw [hg] at hk1; cases hk1
      | some h => exact absurd hg (hne h)

end SafeS5

theorem registerAll_safe : SObl.registerAll_safe := by
  intro w k h handlers' hW hpre
  obtain ⟨mk, hins, hmk⟩ := hpre.ins
  have hgk : handlers'.get k = some h := by rw [SlotMap.get_insertWith_self hins, hmk]
  refine Safe.pre (SafeS5.registerAll_safe' k (fun k' => (handlers'.get k').map HInfo.core)
    (fun j => (w.archs.get j).isSome) (c := h.core) (by rw [hgk]; rfl) hpre.ok.key) fun w1 h1 => ?_
  subst h1
  exact ⟨fun _ => rfl, fun _ => rfl⟩

/-! ### `removeHandler` -/

namespace SafeS5

theorem recvInv_sendGlobal' (ty : EvTy) (pay : Payload) : Keeps RecvInv (sendGlobal ty pay) :=
  recvInv_sendGlobal ty pay

section rk
local macro_rules | `(tactic| keeps_leaf) => `(tactic| exact recvInv_sendGlobal' _ _)
local macro_rules | `(tactic| keeps_leaf) => `(tactic| exact recvInv_of_hk' _ fun _ => dbgAssert_hk _ _)
local macro_rules | `(tactic| keeps_leaf) => `(tactic| exact recvInv_of_hk' _ fun _ => setArch_hk _)
local macro_rules | `(tactic| keeps_leaf) => `(tactic| exact recvInv_of_hk' _ fun _ => getArch_hk _ _)
local macro_rules | `(tactic| keeps_leaf) => `(tactic| exact recvInv_of_hk' _ fun _ => ubErr_hk _)
local macro_rules | `(tactic| keeps_leaf) => `(tactic| exact recvInv_of_hk' _ fun _ => registerHandler_hk _ _)

theorem recvInv_removeHandler' (k : Key) : Keeps RecvInv (removeHandler k) := by
  unfold removeHandler
  keeps
  all_goals exact Keeps.set (recvInv_remove ‹_› ‹_›)

/-- what follows `Handlers::add` in `addHandler` keeps `RecvInv` -/
theorem recvInv_addTail (k : Key) :
    Keeps RecvInv (registerAll k >>= fun _ => sendGlobal .addH { id := k } >>= fun _ => pure (AddResult.ok k)) := by
  unfold registerAll
  keeps
end rk

theorem removeHandler_safe' (hfl : SObl.flush_safeK) (k : Key) : Safe MS (removeHandler k) := by
  refine Safe.of_run fun w e w' hw hr hs' => ?_
  rw [removeHandler_eq] at hr
  split at hr
  · cases hr
  · have hsafe := sendGlobal_safe' hfl .remH { id := k } rfl rfl
    have hms := ms_sendGlobal .remH { id := k }
    generalize hg : (sendGlobal .remH { id := k }).run.run w = r at hr
    obtain ⟨(e1|u), w1⟩ := r
    · cases hr
      exact hsafe.at_run hw hg hs'
    · have hms1 : MS w1 := hms.ok hw hg
      dsimp only at hr
      cases hrm : w1.handlers.remove k with
      | none => rw [hrm] at hr; cases hr; rfl
      | some p =>
        obtain ⟨h, hs2⟩ := p
        rw [hrm] at hr
        dsimp only at hr
        split at hr
        · next hc =>
          cases hr
          exfalso
          have hs1 : Small w1 := hs'
          have hlen := removeHandler_len w1 k h hs2 (hms1 hs1).1.1 hrm
          simp [World.dropHandlerRegs, hrm, hlen] at hc
        · cases hr

end SafeS5

theorem removeHandler_safe (hfl : SObl.flush_safeK) : SObl.removeHandler_safe := SafeS5.removeHandler_safe' hfl
theorem recvInv_removeHandler : SObl.recvInv_removeHandler := SafeS5.recvInv_removeHandler'

/-! ### `addHandler` -/

namespace SafeS5

theorem recvInv_initParam' (ps : PSpec) (cfg : Config) : Keeps RecvInv (initParam ps cfg) := recvInv_initParam ps cfg

section rk
local macro_rules | `(tactic| keeps_leaf) => `(tactic| exact recvInv_sendGlobal' _ _)
local macro_rules | `(tactic| keeps_leaf) => `(tactic| exact recvInv_of_hk' _ fun _ => dbgAssert_hk _ _)
local macro_rules | `(tactic| keeps_leaf) => `(tactic| exact recvInv_of_hk' _ fun _ => setArch_hk _)
local macro_rules | `(tactic| keeps_leaf) => `(tactic| exact recvInv_of_hk' _ fun _ => getArch_hk _ _)
local macro_rules | `(tactic| keeps_leaf) => `(tactic| exact recvInv_of_hk' _ fun _ => ubErr_hk _)
local macro_rules | `(tactic| keeps_leaf) => `(tactic| exact recvInv_of_hk' _ fun _ => registerHandler_hk _ _)

theorem recvInv_addHandler' (hs : HSpec) (hrf : hs.RecvFirst) :
    Hoare RecvInv (addHandler hs) (fun _ => RecvInv) (fun _ => RecvInv) := by
  unfold addHandler
  extract_lets cfg0 params0 jp
  have hjp : Hoare RecvInv (jp ()) (fun _ => RecvInv) (fun _ => RecvInv) := by
    let Inv : List PSpec → Config × List Param → World → Prop :=
      fun pre s w => PInv hs.params s.1 s.2 pre ∧ RecvInv w
    refine Hoare.bind (R := fun s w => ∃ p, Inv p s w) (Hoare.pre (hoare_forIn_prefix Inv hs.params
      (fun pre ps suf s hl => ?_) hs.params [] _ (List.nil_append _).symm) fun w hw => ⟨PInv.init _, hw⟩) fun s => ?_
    · -- one parameter
      dsimp only
      refine Hoare.bind (R := fun x w => PInv hs.params x.2 (s.2 ++ [x.1]) (pre ++ [ps]) ∧ RecvInv w) ?_ fun x => ?_
      · exact SafeS1.hoare_const_and fun hP => Hoare.post (hoare_and_ret (Hoare.of_keeps (E := fun _ => RecvInv)
          (recvInv_initParam' ps s.1) fun _ _ h => h) (initParam_pstep ps s.1))
          (fun x w h => ⟨hP.step hrf hl h.2, h.1⟩) (fun _ _ h => h)
      · obtain ⟨p, cfg'⟩ := x
        exact Hoare.pure fun w h => h
    · -- the registry entry
      obtain ⟨cfg, params⟩ := s
      dsimp only
      have hR : ∀ w, (∃ p, Inv p (cfg, params) w) → RecvInv w := fun w ⟨p, h⟩ => h.2
      split
      · exact Hoare.pure hR
      · exact Hoare.pure hR
      · next recvTy recvKey hrecv =>
        split
        · exact Hoare.pure hR
        · split
          · exact Hoare.get_bind fun _ _ => Hoare.pure hR
          · refine Hoare.get_bind fun w hw => ?_
            split
            · exact Hoare.throw hR
            · next k handlers hins =>
              obtain ⟨p, hP, hRw⟩ := hw
              refine Hoare.bind (R := fun _ => RecvInv) ⟨fun w0 _ => ?_⟩ fun _ => ?_
              · simp only [run_set]
                exact recvInv_insert hRw hins (hP.paramsOK hrecv rfl rfl)
              · refine Hoare.of_keeps ?_ fun _ _ h => h
                keeps
  split
  · refine Hoare.get_bind fun w _ => ?_
    split
    · exact Hoare.pure fun _ h => h
    · exact hjp
  · exact hjp
end rk

end SafeS5

namespace SafeS5

theorem dbgAssert_at {w1 : World} {c : Bool} (s : String) (hc : c = true) {E : Err → World → Prop} :
    Hoare (fun w => w = w1) (dbgAssert c s) (fun _ w => w = w1) E :=
  ⟨fun w h => by subst h; rw [run_dbgAssert_true s (.inr hc)]⟩

/-- the registration loop re-establishes `MS` -/
theorem ms_registerAll {w : World} (hW : WInvMid w) {k : Key} {h : HInfo} {handlers' : SlotMap HInfo}
    (hpre : NewHandlerPre w k h handlers') (hR : RecvInv' handlers') (hQ : w.queue = []) :
    Hoare (fun w1 => w1 = Step.insertHandler w k handlers' h.recv h.recvKey h.prio) (registerAll k)
      (fun _ => MS) (fun _ _ => True) := by
  refine ⟨fun w1 h1 => ?_⟩
  have r1 := (pieces.registerAll_gw hW hpre).run w1 h1
  have r2 := (registerAll_qe k).run w1 (by subst h1; exact hQ)
  have r3 := (recvInv_of_hk' _ (fun _ => InvV6.registerAll_hk k)).run w1 (by subst h1; exact hR)
  generalize (registerAll k).run.run w1 = res at r1 r2 r3
  obtain ⟨(e|a), w'⟩ := res
  · trivial
  · exact fun hs => ⟨⟨r1 hs, r3⟩, r2⟩

theorem addHandler_safe' (hfl : SObl.flush_safeK) (hs : HSpec) (hvalid : hs.Valid) (hrf : hs.RecvFirst) :
    Safe MS (addHandler hs) := by
  unfold addHandler
  extract_lets cfg0 params0 jp
  have hjp : Safe MS (jp ()) := by
    let Inv : List PSpec → Config × List Param → World → Prop :=
      fun pre s w => PInv hs.params s.1 s.2 pre ∧ (MS w ∧ Guarded (Pieces.CfgInv s.1 s.2) w)
    refine Hoare.bind (R := fun s w => ∃ p, Inv p s w) (Hoare.pre (hoare_forIn_prefix Inv hs.params
      (fun pre ps suf s hl => ?_) hs.params [] _ (List.nil_append _).symm)
      fun w hw => ⟨PInv.init _, hw, fun hs => ⟨(hw hs).1.1, Pieces.configRel_init w, fun _ => rfl⟩⟩) fun s => ?_
    · -- one parameter
      dsimp only
      have hps : ps ∈ hs.params := by rw [hl]; simp
      refine Hoare.bind (R := fun x w => PInv hs.params x.2 (s.2 ++ [x.1]) (pre ++ [ps]) ∧
        (MS w ∧ Guarded (Pieces.CfgInv x.2 (s.2 ++ [x.1])) w)) ?_ fun x => ?_
      · refine SafeS1.hoare_const_and fun hP => ?_
        have h1 := initParam_safeM hfl ps s.1
        have h2 := pieces.initParam_step ps s.1 s.2 (hvalid ps hps)
        exact Hoare.post (hoare_and_ret (Hoare.and (Hoare.pre h1 fun _ h => h.1) (Hoare.pre h2 fun _ h => h.2))
          (initParam_pstep ps s.1)) (fun x w h => ⟨hP.step hrf hl h.2, h.1.1, h.1.2⟩) (fun _ _ h => h.1)
      · obtain ⟨p, cfg'⟩ := x
        exact Hoare.pure fun w h => h
    · -- the registry entry
      obtain ⟨cfg, params⟩ := s
      dsimp only
      split
      · exact Safe.pure _
      · exact Safe.pure _
      · next recvTy recvKey hrecv =>
        split
        · exact Safe.pure _
        · split
          · exact Safe.get_bind fun _ _ => Safe.pure _
          · refine Safe.get_bind_eq fun w hw => ?_
            split
            · exact Safe.throw rfl
            · next k handlers hins =>
              refine Hoare.bind (R := fun _ w' => w' = Step.insertHandler w k handlers recvTy recvKey hs.prio)
                ⟨fun w0 _ => ?_⟩ fun _ => ?_
              · simp only [run_set]; rfl
              refine Hoare.unguard_at (fun n => by keeps) (fun _ _ _ => trivial) NoUB.absorb fun hs1 => ?_
              have hs0 : Small w := hs1
              obtain ⟨p, hP, hMS, hCfg⟩ := hw
              obtain ⟨hW, hC, -⟩ := hCfg hs0
              obtain ⟨⟨-, hR⟩, hQ⟩ := hMS hs0
              have hpre := Pieces.newHandlerPre_of (cfg := cfg) hC hrecv hs.name hs.tid hs.prio hs.body hins
              have hlen := insertHandler_len w k _ handlers hW hpre
              have hR' : RecvInv' handlers := recvInv_insert hR hins (hP.paramsOK hrecv rfl rfl)
              refine Safe.get_bind_eq fun a ha => ?_
              subst ha
              refine Safe.get_bind_eq fun b hb => ?_
              subst hb
              refine Hoare.bind (dbgAssert_at _ (beq_iff_eq.2 hlen)) fun _ => ?_
              refine Hoare.congr_run (m := registerAll k >>= fun _ =>
                (sendGlobal .addH { id := k } >>= fun _ => pure (AddResult.ok k))) ?_ fun w' => ?_
              · refine Safe.bind (registerAll_safe w k _ handlers hW hpre) (ms_registerAll hW hpre hR' hQ) fun _ => ?_
                exact safe_bind_true (sendGlobal_safe' hfl _ _ rfl rfl) fun _ => Safe.pure _
              · unfold registerAll
                simp only [run_bind, run_get]
                generalize StateT.run (ExceptT.run (forIn (m := M) (β := PUnit) w'.archs.toList _ _)) _ = r
                obtain ⟨(e|a), w2⟩ := r <;> rfl
  split
  · refine Safe.get_bind fun w _ => ?_
    split
    · exact Safe.pure _
    · exact hjp
  · exact hjp

end SafeS5

theorem addHandler_safe (hfl : SObl.flush_safeK) : SObl.addHandler_safe := SafeS5.addHandler_safe' hfl

theorem recvInv_addHandler : SObl.recvInv_addHandler :=
  fun hs hrf => SafeS5.keeps_of_hoare (SafeS5.recvInv_addHandler' hs hrf)

/-! ### `SObl.sendGlobal_safe` is false as stated -/

namespace SafeS5

/-- a handler receiving the global event `G0` -/
def cexH : HSpec := { name := "a", params := [.recv (.g 0) false none] }
/-- an arena payload of a foreign epoch -/
def cexPay : Payload := { arena := some (1000, 0, 0) }

end SafeS5

/-- **`SObl.sendGlobal_safe` is false as stated**: it quantifies over EVERY payload; in the world `addh a R:G0` leaves
    (which satisfies `MS`), `sendGlobal (.g 0)` with an arena payload stamped with a foreign epoch ends in
    `ub arena:use-after-reset`.  (Likewise a TARGETED `ty` makes `deliverOne` index `tevs` with a `gevs` index.) -/
theorem sendGlobal_safe_false : ¬ SObl.sendGlobal_safe := by
  intro h
  have h1 : (match ((addHandler SafeS5.cexH).run.run {}).1 with | .ok _ => true | .error _ => false) = true := by
    decide +kernel
  have h2 : (match ((sendGlobal (.g 0) SafeS5.cexPay).run.run ((addHandler SafeS5.cexH).run.run {}).2).1 with
      | .error (.ub _) => true | _ => false) = true := by decide +kernel
  have h3 : Small ((sendGlobal (.g 0) SafeS5.cexPay).run.run ((addHandler SafeS5.cexH).run.run {}).2).2 := by
    unfold Small; decide +kernel
  have hv : SafeS5.cexH.Valid := by
    intro ps hps q he
    have : ps = .recv (.g 0) false none := by simpa [SafeS5.cexH] using hps
    rw [this] at he
    cases he
  have hR0 : RecvInv ({} : World) := fun k h hk => by
    rw [show ({} : World).handlers.get k = none from slotMap_empty_get k] at hk; cases hk
  generalize hr : (addHandler SafeS5.cexH).run.run {} = r at h1 h2 h3
  obtain ⟨(e|a), w1⟩ := r
  · cases h1
  · have k1 : GW w1 := (pieces.glue_addHandler SafeS5.cexH hv).ok (fun _ => winvMid_init) hr
    have k2 : QNil w1 := (addHandler_qe SafeS5.cexH).ok rfl hr
    have k3 : RecvInv w1 := (SafeS5.recvInv_addHandler' SafeS5.cexH trivial).ok hR0 hr
    have hms : MS w1 := fun hs => ⟨⟨k1 hs, k3⟩, k2⟩
    generalize hr2 : (sendGlobal (.g 0) SafeS5.cexPay).run.run w1 = r2 at h2 h3
    obtain ⟨(e2|u), w2⟩ := r2
    · cases e2 with
      | ub s => have := (h (.g 0) SafeS5.cexPay).at_run hms hr2 h3; cases this
      | assert s => cases h2
      | panic s => cases h2
    · cases h2

/-- **`SObl.sendGlobal_safe`, corrected**: a GLOBAL event type and no arena payload (all call sites of the model) -/
theorem sendGlobal_safe' (hfl : SObl.flush_safeK) :
    ∀ ty pay, ty.targeted = false → pay.arena = none → Safe MS (sendGlobal ty pay) := SafeS5.sendGlobal_safe' hfl
/-- **`SObl.sendTargeted_safe`, corrected**: no arena payload (all call sites of the model) -/
theorem sendTargeted_safe' (hfl : SObl.flush_safeK) :
    ∀ ty tg pay, ty.targeted = true → pay.arena = none → Safe MS (sendTargeted ty tg pay) :=
  SafeS5.sendTargeted_safe' hfl

theorem addGlobalEvent_safe (hfl : SObl.flush_safeK) : SObl.addGlobalEvent_safe := SafeS5.addGlobalEvent_safe' hfl
theorem addComponent_safe (hfl : SObl.flush_safeK) : SObl.addComponent_safe := SafeS5.addComponent_safe' hfl
theorem addTargetedEvent_safe (hfl : SObl.flush_safeK) : SObl.addTargetedEvent_safe :=
  SafeS5.addTargetedEvent_safe' hfl
theorem addEvent_safe (hfl : SObl.flush_safeK) : SObl.addEvent_safe := fun ty => (SafeS5.addEvent_safeM hfl ty).safe
theorem initQuery_safe (hfl : SObl.flush_safeK) : SObl.initQuery_safe :=
  fun q cfg => (SafeS5.initQuery_safeM hfl q cfg).safe
theorem initParam_safe (hfl : SObl.flush_safeK) : SObl.initParam_safe :=
  fun ps cfg => (SafeS5.initParam_safeM hfl ps cfg).safe

end Evenio
