import Evenio.Proofs.Safe.Samples
import Evenio.Props.ReachStore
/-!
# C01, worker W2 — store primitives

`spawnAll`, `moveEntity`, `removeEntity`, `fixedDespawn`, `bumpCell`, `dropCompTail`: none of their unchecked sites is
reachable from a world satisfying the invariant (plus the local argument contract).

Closed: `spawnPre_of_winv`, `spawnAll_safe`, `spawnAll_locLive`, `spawnAll_count`, `removeEntity_count`,
`removeEntity_safe`, `moveEntity_safe`, `fixedDespawn_safe`, `dropCompTail_safe`.  `SObl.bumpCell_bumpPre` is FALSE as
stated (`SafeS2.bumpCell_bumpPre_false`); the true variant is `bumpCell_bumpPre_partial` (with `IndexOk`).

Helper lemmas live in `Evenio.SafeS2`; the handler-pointer leaves (`handlerRefresh`, `handlerRemoveArch` and the
preservation of `HLive` by them) are re-proved locally so that nothing here depends on another worker's theorem.
-/
namespace Evenio
open InvV7

namespace SafeS2

/-! ### handler pointers -/

theorem hlive_set {ks : List Key} {w : World} (h : HLive ks w) {hk : Key} {hi : HInfo}
    (hg : w.handlers.get hk = some hi) (v : HInfo) (w' : World) (hw' : w'.handlers = w.handlers.set hk v) :
    HLive ks w' := by
  intro k hkm
  have := h k hkm
  rw [hw']
  have hc := SlotMap.contains_set hg v k
  unfold SlotMap.contains at hc
  rw [hc]; exact this

theorem handlerRefresh_hlive (ks : List Key) (hk : Key) (a : Arch) : Keeps (HLive ks) (handlerRefresh hk a) := by
  refine ⟨fun w hw => ?_⟩
  unfold handlerRefresh
  rw [run_bind, run_get]
  dsimp only
  cases hg : w.handlers.get hk with
  | none => exact hw
  | some hi =>
    dsimp only
    rw [run_bind, run_dbgAssert]
    by_cases hc : (w.debug && !(a.ids.length != 0)) = true
    · rw [if_pos hc]; exact hw
    · rw [if_neg hc]
      dsimp only
      rw [run_set]
      exact hlive_set hw hg _ _ rfl

theorem handlerRemoveArch_hlive (ks : List Key) (hk : Key) (a : Arch) :
    Keeps (HLive ks) (handlerRemoveArch hk a) := by
  refine ⟨fun w hw => ?_⟩
  unfold handlerRemoveArch
  rw [run_bind, run_get]
  dsimp only
  cases hg : w.handlers.get hk with
  | none => exact hw
  | some hi =>
    dsimp only
    rw [run_set]
    exact hlive_set hw hg _ _ rfl

/-- `handlerRefresh` through a valid pointer, for a non-empty archetype -/
theorem handlerRefresh_safe (hk : Key) (a : Arch) :
    Safe (fun w => (w.handlers.get hk).isSome = true ∧ a.ids.length ≠ 0) (handlerRefresh hk a) :=
  Safe.of_noError fun w ⟨hl, hne⟩ => by
    unfold handlerRefresh
    rw [run_bind, run_get]
    dsimp only
    cases hg : w.handlers.get hk with
    | none => rw [hg] at hl; cases hl
    | some hi =>
      dsimp only
      rw [run_bind, run_dbgAssert_true _ (.inr (by simpa using hne))]
      exact ⟨_, _, rfl⟩

theorem handlerRemoveArch_safe (hk : Key) (a : Arch) :
    Safe (fun w => (w.handlers.get hk).isSome = true) (handlerRemoveArch hk a) :=
  Safe.of_noError fun w hl => by
    unfold handlerRemoveArch
    rw [run_bind, run_get]
    dsimp only
    cases hg : w.handlers.get hk with
    | none => rw [hg] at hl; cases hl
    | some hi => exact ⟨_, _, rfl⟩

/-- the refresh loop over a set of valid handler pointers -/
theorem refreshLoop_safe (ks : List Key) (a : Arch) (hne : a.ids.length ≠ 0) :
    Safe (HLive ks) (forIn ks PUnit.unit fun hk _ => do handlerRefresh hk a; pure (ForInStep.yield PUnit.unit)) := by
  refine Safe.forIn_list (fun _ => HLive ks) (E := fun _ _ => True) (fun hk _ _ => ?_) (fun hk hm _ => ?_)
  · exact Hoare.bind_inv (Hoare.of_keeps (handlerRefresh_hlive ks hk a) fun _ _ _ => trivial)
      fun _ => Hoare.pure fun _ h => h
  · exact Safe.bind_inv (E := fun _ _ => True)
      ((handlerRefresh_safe hk a).pre fun w hw => ⟨hw hk hm, hne⟩)
      (Hoare.of_keeps (handlerRefresh_hlive ks hk a) fun _ _ _ => trivial) fun _ => Safe.pure _

theorem removeArchLoop_safe (ks : List Key) (a : Arch) :
    Safe (HLive ks) (forIn ks PUnit.unit fun hk _ => do handlerRemoveArch hk a; pure (ForInStep.yield PUnit.unit)) := by
  refine Safe.forIn_list (fun _ => HLive ks) (E := fun _ _ => True) (fun hk _ _ => ?_) (fun hk hm _ => ?_)
  · exact Hoare.bind_inv (Hoare.of_keeps (handlerRemoveArch_hlive ks hk a) fun _ _ _ => trivial)
      fun _ => Hoare.pure fun _ h => h
  · exact Safe.bind_inv (E := fun _ _ => True)
      ((handlerRemoveArch_safe hk a).pre fun w hw => hw hk hm)
      (Hoare.of_keeps (handlerRemoveArch_hlive ks hk a) fun _ _ _ => trivial) fun _ => Safe.pure _

theorem refreshLoop_hlive (ks ks' : List Key) (a : Arch) :
    Keeps (HLive ks') (forIn ks PUnit.unit fun hk _ => do handlerRefresh hk a; pure (ForInStep.yield PUnit.unit)) :=
  Keeps.forIn_list fun hk _ => Keeps.bind (handlerRefresh_hlive ks' hk a) fun _ => Keeps.pure _

theorem removeArchLoop_hlive (ks ks' : List Key) (a : Arch) :
    Keeps (HLive ks') (forIn ks PUnit.unit fun hk _ => do handlerRemoveArch hk a; pure (ForInStep.yield PUnit.unit)) :=
  Keeps.forIn_list fun hk _ => Keeps.bind (handlerRemoveArch_hlive ks' hk a) fun _ => Keeps.pure _

/-- the refresh set of a live archetype only holds registered handlers -/
theorem hlive_refresh {w : World} (h : WInv w) {i : Nat} {a : Arch} (ha : w.archs.get i = some a) :
    HLive a.refresh w := by
  intro k hk
  obtain ⟨-, hi, hg, -⟩ := ((h.lists.arch i a ha).refresh k).1 hk
  rw [hg]; rfl

end SafeS2

/-! ## `spawnPre_of_winv` -/

theorem spawnPre_of_winv : SObl.spawnPre_of_winv := fun w h => by
  obtain ⟨a0, ha0, -⟩ := h.graph.empty
  exact ⟨a0, ha0, SafeS2.hlive_refresh h ha0⟩

/-! ## `removeEntity_count`, `spawnAll_count` -/

namespace SafeS2

/-- the reservation counter is `n` -/
abbrev RC (n : Nat) : World → Prop := fun w => w.resCount = n

section rc
variable {n : Nat}
theorem ubErr_rc {α : Type} (s : String) : Keeps (RC n) (ubErr s : M α) := Keeps.throw _
local macro_rules | `(tactic| keeps_leaf) => `(tactic| exact ubErr_rc _)
theorem dbgAssert_rc (c : Bool) (s : String) : Keeps (RC n) (dbgAssert c s) := by unfold dbgAssert; keeps
local macro_rules | `(tactic| keeps_leaf) => `(tactic| exact dbgAssert_rc _ _)
theorem getArch_rc (i : Nat) (s : String) : Keeps (RC n) (getArch i s) := by unfold getArch; keeps
local macro_rules | `(tactic| keeps_leaf) => `(tactic| exact getArch_rc _ _)
theorem setArch_rc (a : Arch) : Keeps (RC n) (setArch a) := by unfold setArch; keeps
local macro_rules | `(tactic| keeps_leaf) => `(tactic| exact setArch_rc _)
theorem dropCell_rc (ty : Nat) (c : Cell) : Keeps (RC n) (dropCell ty c) := by unfold dropCell; keeps
local macro_rules | `(tactic| keeps_leaf) => `(tactic| exact dropCell_rc _ _)
theorem dropCellIdx_rc (ty : Nat) (c : Cell) : Keeps (RC n) (dropCellIdx ty c) := by unfold dropCellIdx; keeps
local macro_rules | `(tactic| keeps_leaf) => `(tactic| exact dropCellIdx_rc _ _)
theorem setLoc_rc (id : Key) (s : String) (f : Loc → Loc) : Keeps (RC n) (setLoc id s f) := by unfold setLoc; keeps
local macro_rules | `(tactic| keeps_leaf) => `(tactic| exact setLoc_rc _ _ _)
theorem handlerRemoveArch_rc (hk : Key) (a : Arch) : Keeps (RC n) (handlerRemoveArch hk a) := by
  unfold handlerRemoveArch; keeps
local macro_rules | `(tactic| keeps_leaf) => `(tactic| exact handlerRemoveArch_rc _ _)
theorem removeEntity_rc (loc : Loc) : Keeps (RC n) (removeEntity loc) := by unfold removeEntity; keeps
end rc

/-- `spawnAll` ends with `resCount := 0` (unguarded, from any world) -/
theorem spawnAll_count0 : HoareOk (fun _ => True) spawnAll (fun _ w => w.resCount = 0) :=
  ⟨fun w _ u w' hr => by obtain ⟨w1, -, rfl⟩ := spawnAll_run hr; rfl⟩

end SafeS2

theorem removeEntity_count : SObl.removeEntity_count := fun loc _ => SafeS2.removeEntity_rc loc

theorem spawnAll_count : SObl.spawnAll_count :=
  ⟨fun w _ u w' hr _ => SafeS2.spawnAll_count0.run w trivial u w' hr⟩

/-! ## `spawnAll_locLive` -/

theorem spawnAll_locLive : SObl.spawnAll_locLive := fun loc => by
  refine ⟨fun w hw u w' hr hs => ?_⟩
  have hs0 : Small w := SlabMono.small (fun _ => spawnAll_sl) hr hs
  obtain ⟨hm, e, he⟩ := hw hs0
  refine ⟨(pieces.kw_spawnAll).ok (fun _ => hm) hr hs, e, ?_⟩
  exact (ReachStore.spawnAll_winv hm.1 hr e loc he).1

/-! ## `spawnAll_safe` -/

namespace SafeS2

theorem keeps_and {α : Type} {I J : World → Prop} {m : M α} (h1 : Keeps I m) (h2 : Keeps J m) :
    Keeps (fun w => I w ∧ J w) m := ⟨fun w hw => ⟨h1.run w hw.1, h2.run w hw.2⟩⟩

/-- an invariant kept on every exit, and safety from a second precondition -/
theorem hoare_of_keeps_safe {α : Type} {I P : World → Prop} {m : M α} (hk : Keeps I m) (hs : Safe P m) :
    Hoare (fun w => I w ∧ P w) m (fun _ => I) (fun e w => I w ∧ NoUB e w) := by
  refine ⟨fun w hw => ?_⟩
  have r1 := hk.run w hw.1
  have r2 := hs.run w hw.2
  generalize m.run.run w = res at r1 r2
  obtain ⟨(e|a), w'⟩ := res
  · exact ⟨r1, r2⟩
  · exact r1

/-- the archetype slab is `A` -/
abbrev AE (A : Slab Arch) : World → Prop := fun w => w.archs = A

theorem handlerRefresh_ae (A : Slab Arch) (hk : Key) (a : Arch) : Keeps (AE A) (handlerRefresh hk a) := by
  unfold handlerRefresh ubErr dbgAssert; keeps
theorem handlerRemoveArch_ae (A : Slab Arch) (hk : Key) (a : Arch) : Keeps (AE A) (handlerRemoveArch hk a) := by
  unfold handlerRemoveArch ubErr; keeps

theorem handlerRefresh_spawnPre (hk : Key) (a : Arch) : Keeps SpawnPre (handlerRefresh hk a) :=
  ⟨fun w ⟨a0, ha0, hl⟩ => by
    have h1 := (handlerRefresh_ae w.archs hk a).run w rfl
    have h2 := (handlerRefresh_hlive a0.refresh hk a).run w hl
    exact ⟨a0, by rw [h1]; exact ha0, h2⟩⟩

theorem reserveOne_refresh (a : Arch) (ep : Nat) : (a.reserveOne ep).1.refresh = a.refresh := by
  unfold Arch.reserveOne; split <;> rfl
theorem reserveOne_ids (a : Arch) (ep : Nat) : (a.reserveOne ep).1.ids = a.ids := by
  unfold Arch.reserveOne; split <;> rfl
theorem reserveOne_index (a : Arch) (ep : Nat) : (a.reserveOne ep).1.index = a.index := by
  unfold Arch.reserveOne; split <;> rfl
theorem reserveOne_comps (a : Arch) (ep : Nat) : (a.reserveOne ep).1.comps = a.comps := by
  unfold Arch.reserveOne; split <;> rfl
theorem reserveOne_cols (a : Arch) (ep : Nat) : (a.reserveOne ep).1.cols = a.cols := by
  unfold Arch.reserveOne; split <;> rfl

local macro_rules | `(tactic| keeps_leaf) => `(tactic| exact handlerRefresh_spawnPre _ _)

/-- the trivial triple -/
theorem hoare_true {α : Type} {P : World → Prop} {m : M α} : Hoare P m (fun _ _ => True) (fun _ _ => True) :=
  Hoare.of_hoareOk ⟨fun _ _ _ _ _ => trivial⟩

/-- `Archetypes::spawn`: `SpawnPre` is kept on every exit, and no exit is a marker -/
theorem archSpawn_spec (k : Key) :
    Hoare SpawnPre (archSpawn k) (fun _ => SpawnPre) (fun e w => SpawnPre w ∧ NoUB e w) := by
  refine ⟨fun w ⟨a0, ha0, hl⟩ => ?_⟩
  unfold archSpawn
  rw [run_bind, run_getArch', ha0]
  dsimp only
  rw [run_bind, run_freshEpoch]
  dsimp only
  rw [run_bind, run_setArch]
  dsimp only
  refine (hoare_of_keeps_safe (I := SpawnPre) (P := HLive a0.refresh) ?hkeep ?hsafe).run _ ⟨?_, hl⟩
  case hkeep => keeps
  case hsafe =>
    refine Safe.ite ?_ (Safe.pure _)
    refine Safe.bind_inv (E := fun _ _ => True) ?_ (Hoare.of_keeps (refreshLoop_hlive _ _ _) fun _ _ _ => trivial)
      fun _ => Safe.pure _
    rw [reserveOne_refresh]
    exact refreshLoop_safe _ _ (by simp)
  · -- `SpawnPre` after the write to the slab
    have hg : ∀ (i : Nat) (b : Arch), b.refresh = a0.refresh →
        ∃ b', (w.archs.set i b).get 0 = some b' ∧ b'.refresh = a0.refresh := by
      intro i b hb
      rw [Slab.get_set]
      by_cases hi : 0 = i
      · subst hi; rw [if_pos rfl, ha0]; exact ⟨b, rfl, hb⟩
      · rw [if_neg hi]; exact ⟨a0, ha0, rfl⟩
    obtain ⟨b', hb', hr⟩ := hg (a0.reserveOne w.epochCtr).1.index
      { (a0.reserveOne w.epochCtr).1 with ids := (a0.reserveOne w.epochCtr).1.ids ++ [k] }
      (reserveOne_refresh _ _)
    exact ⟨b', hb', by rw [hr]; exact hl⟩

end SafeS2

/-! ## `bumpCell_bumpPre`

As stated (`Keeps (BumpPre ai' row' c')` from ANY world) the obligation is FALSE: `bumpCell ai …` writes the archetype it
read at slab position `ai` back to position `a.index`; in a world where an archetype is not stored at its own index
(`IndexOk` fails) the write clobbers another archetype.  `bumpCell_bumpPre_false` is the witness.  With `IndexOk`
(a conjunct of `WInv`: `WInv.storeOk.idx`, kept by `bumpCell`) it holds: `bumpCell_bumpPre_partial`. -/

namespace SafeS2

/-- archetype 0 claims index 1: not `IndexOk` -/
def cexW : World :=
  { archs := { entries := [.occ { index := 1, comps := [0], cols := [[⟨0, 0⟩]], ids := [⟨0, 1⟩] },
                           .occ { index := 1, comps := [1], cols := [[⟨0, 0⟩]], ids := [⟨1, 1⟩] }], next := 2 } }

theorem bumpCell_bumpPre_false : ¬ SObl.bumpCell_bumpPre := by
  intro h
  have h1 := (h 0 0 0 1 0 1).run cexW
    ⟨{ index := 1, comps := [1], cols := [[⟨0, 0⟩]], ids := [⟨1, 1⟩] }, 0, [⟨0, 0⟩], ⟨0, 0⟩, rfl, rfl, rfl, rfl⟩
  obtain ⟨a, i, col, x, ha, hi, -, -⟩ := h1
  have hr : ((bumpCell 0 0 0).run.run cexW).2.archs.get 1 =
      some { index := 1, comps := [0], cols := [[⟨1, 0⟩]], ids := [⟨0, 1⟩] } := rfl
  rw [hr] at ha
  cases ha
  have hn : ({ index := 1, comps := [0], cols := [[⟨1, 0⟩]], ids := [⟨0, 1⟩] } : Arch).colIdx 1 = none := rfl
  rw [hn] at hi
  cases hi

theorem bumpCell_bumpPre_partial (ai row c ai' row' c' : Nat) :
    Keeps (fun w => IndexOk w ∧ BumpPre ai' row' c' w) (bumpCell ai row c) := by
  refine ⟨fun w hw => ?_⟩
  obtain ⟨hidx, a', i', col', x', ha', hi', hc', hx'⟩ := hw
  have hw : IndexOk w ∧ BumpPre ai' row' c' w := ⟨hidx, a', i', col', x', ha', hi', hc', hx'⟩
  unfold bumpCell
  rw [run_bind, run_getArch']
  cases ha : w.archs.get ai with
  | none => exact hw
  | some a =>
    dsimp only
    cases hci : a.colIdx c with
    | none => exact hw
    | some i =>
      dsimp only
      cases hcol : a.cols[i]? with
      | none => exact hw
      | some col =>
        dsimp only
        cases hx : col[row]? with
        | none => exact hw
        | some x =>
          dsimp only
          rw [run_setArch]
          have hai : a.index = ai := hidx _ _ ha
          refine ⟨indexOk_set hidx ha (a' := { a with cols := a.cols.set i (col.set row { x with v := x.v + 1 }) })
            (by rw [hai]) hai, ?_⟩
          show ∃ a1 i1 col1 x1, (w.archs.set a.index _).get ai' = some a1 ∧ _
          rw [hai, slab_get_set _ ha]
          by_cases hj : ai' = ai
          · subst hj
            rw [ha] at ha'; cases ha'
            rw [if_pos rfl]
            by_cases hii : i = i'
            · subst hii
              rw [hcol] at hc'; cases hc'
              have hlt : i < a'.cols.length := (List.getElem?_eq_some_iff.1 hcol).1
              have hrl : row' < col'.length := (List.getElem?_eq_some_iff.1 hx').1
              refine ⟨_, i, col'.set row { x with v := x.v + 1 },
                (col'.set row { x with v := x.v + 1 })[row']'(by simpa using hrl), rfl, hi', ?_, ?_⟩
              · simp [hlt]
              · simp
            · refine ⟨_, i', col', x', rfl, hi', ?_, hx'⟩
              show (a'.cols.set i _)[i']? = some col'
              rw [List.getElem?_set_ne hii]; exact hc'
          · rw [if_neg hj]
            exact ⟨a', i', col', x', ha', hi', hc', hx'⟩

/-- the list form W3's bump loop needs -/
theorem bumpCell_bumpPre_list (ai row c : Nat) (L : List (Nat × Nat × Nat)) :
    Keeps (fun w => IndexOk w ∧ ∀ t ∈ L, BumpPre t.1 t.2.1 t.2.2 w) (bumpCell ai row c) := by
  refine ⟨fun w hw => ?_⟩
  have h0 : IndexOk (((bumpCell ai row c).run.run w).2) := by
    by_cases hne : ∃ ai' row' c', BumpPre ai' row' c' w
    · obtain ⟨ai', row', c', h⟩ := hne
      exact ((bumpCell_bumpPre_partial ai row c ai' row' c').run w ⟨hw.1, h⟩).1
    · -- no cell at all: `bumpCell` fails before it writes
      have hfail : ¬ BumpPre ai row c w := fun h => hne ⟨_, _, _, h⟩
      unfold bumpCell
      rw [run_bind, run_getArch']
      cases ha : w.archs.get ai with
      | none => exact hw.1
      | some a =>
        dsimp only
        cases hci : a.colIdx c with
        | none => exact hw.1
        | some i =>
          dsimp only
          cases hcol : a.cols[i]? with
          | none => exact hw.1
          | some col =>
            dsimp only
            cases hx : col[row]? with
            | none => exact hw.1
            | some x => exact (hfail ⟨a, i, col, x, ha, hci, hcol, hx⟩).elim
  exact ⟨h0, fun t ht => ((bumpCell_bumpPre_partial ai row c t.1 t.2.1 t.2.2).run w ⟨hw.1, hw.2 t ht⟩).2⟩

/-- `bumpCell` keeps "every archetype is stored at its own index" on every exit -/
theorem bumpCell_indexOk (ai row c : Nat) : Keeps IndexOk (bumpCell ai row c) :=
  ⟨fun w hw => ((bumpCell_bumpPre_list ai row c []).run w ⟨hw, fun _ h => nomatch h⟩).1⟩

end SafeS2

/-- `bumpCell_bumpPre` with the hypothesis it lacks (`IndexOk`, from `WInv.storeOk.idx`) -/
theorem bumpCell_bumpPre_partial : ∀ ai row c ai' row' c',
    Keeps (fun w => IndexOk w ∧ BumpPre ai' row' c' w) (bumpCell ai row c) := SafeS2.bumpCell_bumpPre_partial

theorem spawnAll_safe : SObl.spawnAll_safe := by
  unfold SObl.spawnAll_safe spawnAll
  refine Safe.get_bind fun w0 _ => ?_
  refine Safe.bind (R := fun _ _ => True) (E := fun _ _ => True) ?_ SafeS2.hoare_true
    fun _ => Safe.of_noError fun _ _ => ⟨_, _, rfl⟩
  · refine Safe.forIn_range (fun _ => SpawnPre) (E := fun e w => SpawnPre w ∧ NoUB e w) (fun _ _ => ?_) (fun _ _ => ?_)
    · -- the body keeps `SpawnPre`
      refine Hoare.get_bind fun w hw => ?_
      split
      · exact Hoare.bind (R := fun _ _ => False) (Hoare.throw fun _ h => ⟨h, NoUB.of_panic rfl⟩) fun _ =>
          ⟨fun _ h => h.elim⟩
      · refine Hoare.bind_inv ⟨fun _ _ => hw⟩ fun _ => ?_
        refine Hoare.bind_inv (SafeS2.archSpawn_spec _) fun loc => ?_
        exact Hoare.bind_inv ⟨fun _ h => h⟩ fun _ => Hoare.pure fun _ h => h
    · refine Safe.get_bind fun w hw => ?_
      split
      · exact Safe.bind (R := fun _ _ => False) (E := fun _ _ => True) (Safe.throw rfl) (Hoare.throw fun _ _ => trivial)
          fun _ => ⟨fun _ h => h.elim⟩
      · refine Safe.bind_inv (E := fun _ _ => True) (Safe.of_noError fun _ _ => ⟨_, _, rfl⟩) ⟨fun _ _ => hw⟩ fun _ => ?_
        refine Safe.bind_inv (Safe.of_hoare (SafeS2.archSpawn_spec _) fun _ _ h => h.2) (SafeS2.archSpawn_spec _)
          fun loc => ?_
        exact Safe.bind_inv (E := fun _ _ => True) (Safe.of_noError fun _ _ => ⟨_, _, rfl⟩) ⟨fun _ h => h⟩
          fun _ => Safe.pure _

/-! ## `removeEntity_safe` -/

namespace SafeS2
open SparseMap (swapRemove)

/-- the column loop of `removeEntity` succeeds when the row exists in every column -/
theorem foldSteps_remove_ok (row : Nat) (l : List (Nat × List Cell)) (hl : ∀ p ∈ l, row < p.2.length)
    (cols0 : List (List Cell)) (w : World) :
    ∃ cols' w', foldSteps (removeStep row) l cols0 w = (.ok cols', w') := by
  induction l generalizing cols0 w with
  | nil => exact ⟨_, _, rfl⟩
  | cons p l ih =>
    have hp := hl p (by simp)
    rw [foldSteps]
    have : removeStep row p cols0 w =
        (.ok (cols0 ++ [swapRemove p.2 row]), dropCellW (w.compTy p.1) p.2[row] w) := by
      unfold removeStep; simp [hp]
    rw [this]
    exact ih (fun q hq => hl q (by simp [hq])) _ _

/-- removing a live key succeeds and returns its value -/
theorem slotMap_remove_of_get {α : Type} {sm : SlotMap α} {k : Key} {v : α} (h : sm.get k = some v) :
    ∃ sm', sm.remove k = some (v, sm') := by
  cases hr : sm.remove k with
  | none => rw [SlotMap.remove_eq_none_iff.1 hr] at h; cases h
  | some p =>
    obtain ⟨v', sm'⟩ := p
    have := SlotMap.get_of_remove hr
    rw [h] at this; cases this
    exact ⟨sm', rfl⟩

/-- the id that `swap_remove` moves into the vacated row is another live entity -/
theorem swapped_live {w : World} (ok : StoreOk w) {i : Nat} {a : Arch} (ha : w.archs.get i = some a) {row : Nat}
    {e : Key} (he : a.ids[row]? = some e) {d : Key} (hd : (swapRemove a.ids row)[row]? = some d) :
    d ≠ e ∧ ∃ l, w.entities.get d = some l := by
  have hrow : row < a.ids.length := (List.getElem?_eq_some_iff.1 he).1
  have hA := absStore_arch_of_get ha
  rw [getElem?_swapRemove _ _ _ hrow] at hd
  split at hd
  · rw [if_pos rfl] at hd
    have hls : (absStore w).loc d = some ⟨i, a.ids.length - 1⟩ :=
      (ok.wf.loc_iff _ _).mpr (by rw [Store.rowId_of_arch hA]; exact hd)
    refine ⟨fun hde => ?_, ⟨_, (absStore_loc ok.ents d).symm.trans hls⟩⟩
    subst hde
    have := ok.wf.ids_inj hA (i := a.ids.length - 1) (j := row) hd he
    omega
  · cases hd

end SafeS2

theorem removeEntity_safe : SObl.removeEntity_safe := fun loc => by
  refine Safe.unguard (fun _ => removeEntity_sl loc) fun w hs0 ⟨hm, e, he⟩ => ?_
  refine Safe.of_run fun w1 err w' hw h hs' => ?_
  subst hw
  have hW := hm.1
  obtain ⟨a, ha, hid, -⟩ := ReachStore.read_winv hW he
  have ok := hW.storeOk
  have hwa : Store.ArchWF (absArch a) := ok.wf.archWF (absStore_arch_of_get ha)
  have hrow : loc.row < a.ids.length := (List.getElem?_eq_some_iff.1 hid).1
  have hl : HLive a.refresh w1 := SafeS2.hlive_refresh hW ha
  unfold removeEntity at h
  rw [run_bind, run_getArch', ha] at h
  dsimp only at h
  rw [run_bind, run_forIn_steps (removeStep loc.row)] at h
  · obtain ⟨cols', w2, hfold⟩ := SafeS2.foldSteps_remove_ok loc.row (a.comps.zip a.cols)
      (fun p hp => by rw [hwa.col_len p.2 (List.of_mem_zip hp).2]; exact hrow) [] w1
    obtain ⟨cols, dr, -, -, -, hw2⟩ := foldSteps_remove hfold
    rw [hfold] at h
    subst hw2
    dsimp only at h
    rw [hid] at h
    dsimp only at h
    rw [run_bind, run_setArch, dropAllW_eq] at h
    dsimp only at h
    rw [run_bind, run_get] at h
    dsimp only at h
    obtain ⟨ents1, hrem⟩ := SafeS2.slotMap_remove_of_get he
    rw [hrem] at h
    dsimp only at h
    rw [run_bind, run_set] at h
    dsimp only at h
    rw [run_bind, run_dbgAssert_true _ (.inr (by simp))] at h
    dsimp only at h
    cases hd : (SparseMap.swapRemove a.ids loc.row)[loc.row]? with
    | none =>
      rw [hd] at h
      dsimp only at h
      refine Safe.at_run (P := HLive a.refresh) ?_ ?_ h hs'
      case refine_2 => exact hl
      refine Safe.ite ?_ (Safe.pure _)
      exact Safe.bind_inv (E := fun _ _ => True) (SafeS2.removeArchLoop_safe _ _)
        (Hoare.of_keeps (SafeS2.removeArchLoop_hlive _ _ _) fun _ _ _ => trivial) fun _ => Safe.pure _
    | some d =>
      rw [hd] at h
      dsimp only at h
      obtain ⟨hde, l2, hl2⟩ := SafeS2.swapped_live ok ha hid hd
      have hl2' : ents1.get d = some l2 := by
        rw [SlotMap.get_remove ok.ents hrem, if_neg hde]; exact hl2
      rw [run_bind, run_setLoc] at h
      dsimp only at h
      rw [hl2'] at h
      dsimp only at h
      refine Safe.at_run (P := HLive a.refresh) ?_ ?_ h hs'
      case refine_2 => exact hl
      refine Safe.ite ?_ (Safe.pure _)
      exact Safe.bind_inv (E := fun _ _ => True) (SafeS2.removeArchLoop_safe _ _)
        (Hoare.of_keeps (SafeS2.removeArchLoop_hlive _ _ _) fun _ _ _ => trivial) fun _ => Safe.pure _
  · intro ⟨c, col⟩ b w0
    unfold removeStep
    simp only
    cases hx : col[loc.row]? with
    | none =>
      simp only [run_bind, run_dbgAssert, run_ubErr]
      cases hd : w0.debug <;> simp
    | some x => simp only [run_bind, run_dropCellIdx, run_pure]

/-! ## `moveEntity_safe` -/

namespace SafeS2
open SparseMap (swapRemove)

theorem idxOf?_of_mem {l : List Nat} {c : Nat} (h : c ∈ l) : ∃ i, l.idxOf? c = some i ∧ i < l.length := by
  cases hi : l.idxOf? c with
  | none => exact absurd h (List.idxOf?_eq_none_iff.1 hi)
  | some i =>
    refine ⟨i, rfl, ?_⟩
    unfold List.idxOf? at hi
    exact (List.findIdx?_eq_some_iff_getElem.1 hi).1

/-- the `Column::assign` loop succeeds when every assigned component is a column of the archetype and the row exists -/
theorem foldSteps_assign_ok (row n : Nat) (new : List (Nat × Cell)) (a : Arch) (w : World)
    (hcl : a.cols.length = a.comps.length) (hcol : ∀ col ∈ a.cols, col.length = n) (hrow : row < n)
    (hnew : ∀ p ∈ new, p.1 ∈ a.comps) :
    ∃ a' w', foldSteps (assignStep row) new a w = (.ok a', w') := by
  induction new generalizing a w with
  | nil => exact ⟨_, _, rfl⟩
  | cons p new ih =>
    obtain ⟨c, x⟩ := p
    obtain ⟨i, hi, hil⟩ := idxOf?_of_mem (hnew (c, x) (by simp))
    have hic : i < a.cols.length := by rw [hcl]; exact hil
    have hlen : a.cols[i].length = n := hcol _ (List.getElem_mem hic)
    have hrl : row < a.cols[i].length := by rw [hlen]; exact hrow
    rw [foldSteps]
    have : assignStep row (c, x) a w =
        (.ok { a with cols := a.cols.set i (a.cols[i].set row x) }, dropCellW (w.compTy c) a.cols[i][row] w) := by
      unfold assignStep
      simp only [Arch.colIdx, hi, List.getElem?_eq_getElem hic, Option.bind_eq_bind, Option.bind_some, assignCol,
        List.getElem?_eq_getElem hrl]
    rw [this]
    refine ih _ _ (by simpa using hcl) (fun col hc => ?_) (fun q hq => hnew q (by simp [hq]))
    rcases List.mem_or_eq_of_mem_set hc with h | h
    · exact hcol col h
    · rw [h, List.length_set]; exact hlen

end SafeS2

theorem moveEntity_safe : SObl.moveEntity_safe := fun src dst new => by
  refine Safe.unguard (fun _ => moveEntity_sl src dst new) fun w hs0 ⟨hm, ⟨e, he⟩, hdst, hno, hsame⟩ => ?_
  refine Safe.of_run fun w1 err w' hw h hs' => ?_
  subst hw
  have hW := hm.1
  obtain ⟨sa, hsa, heid, -⟩ := ReachStore.read_winv hW he
  have ok := hW.storeOk
  have hwsa : Store.ArchWF (absArch sa) := ok.wf.archWF (absStore_arch_of_get hsa)
  have hrow : src.row < sa.ids.length := (List.getElem?_eq_some_iff.1 heid).1
  by_cases hne : src.arch = dst
  · -- `Column::assign` in place
    subst hne
    rw [moveEntity_same] at h
    unfold moveSame at h
    rw [run_bind, run_getArch', hsa] at h
    dsimp only at h
    obtain ⟨a', w2, hfold⟩ := SafeS2.foldSteps_assign_ok src.row sa.ids.length new sa w1 hwsa.cols_len hwsa.col_len hrow
      (hsame rfl sa hsa)
    rw [run_bind, run_forIn_steps (assignStep src.row), hfold] at h
    · simp only [run_bind, run_setArch, run_pure] at h
      cases h
    · intro ⟨c, x⟩ b w0
      unfold assignStep
      simp only
      cases hc : b.colIdx c with
      | none => rfl
      | some i =>
        simp only
        cases hx : (b.cols[i]? >>= fun col => assignCol col src.row x) with
        | none => rfl
        | some r =>
          obtain ⟨col', old⟩ := r
          simp only [run_bind, run_dropCellIdx, run_pure]
  · -- the merge between two archetypes
    cases hda : w1.archs.get dst with
    | none => rw [hda] at hdst; cases hdst
    | some da =>
    have hwda : Store.ArchWF (absArch da) := ok.wf.archWF (absStore_arch_of_get hda)
    have hnew := hno hne sa da hsa hda
    obtain ⟨r, hr⟩ := moveCols_some src.row sa.ids.length sa.comps sa.cols da.comps da.cols new hwsa.sorted
      hwda.sorted hwsa.cols_len hwda.cols_len hwsa.col_len hrow hnew
    have hls : HLive sa.refresh w1 := SafeS2.hlive_refresh hW hsa
    have hld : HLive da.refresh w1 := SafeS2.hlive_refresh hW hda
    unfold moveEntity at h
    have hb : (src.arch == dst) = false := by simpa using hne
    simp only [hb, Bool.false_eq_true, if_false] at h
    rw [run_bind, run_getArch', hsa] at h
    dsimp only at h
    rw [run_bind, run_getArch', hda] at h
    dsimp only at h
    rw [run_bind, run_freshEpoch] at h
    dsimp only at h
    rw [reserveOne_fst] at h
    dsimp only at h
    rw [hr] at h
    dsimp only at h
    rw [run_bind, run_forIn_steps (fun p _ w => (.ok PUnit.unit, dropCellW (w.compTy p.1) p.2 w)) _
      (by intro x b w0; simp only [run_bind, run_dropCellIdx, run_pure]), foldSteps_drop, dropAllW_eq] at h
    dsimp only at h
    rw [heid] at h
    dsimp only at h
    rw [run_bind, run_setArch] at h
    dsimp only at h
    rw [run_bind, run_setArch] at h
    dsimp only at h
    rw [run_bind, run_setLoc] at h
    dsimp only at h
    rw [he] at h
    dsimp only at h
    -- the tail: the two refresh loops
    have hn : (da.ids ++ [e]).length ≠ 0 := by simp
    cases hsw : (SparseMap.swapRemove sa.ids src.row)[src.row]? with
    | none =>
      rw [hsw] at h
      dsimp only at h
      refine Safe.at_run (P := fun w => HLive sa.refresh w ∧ HLive da.refresh w) ?_ ?_ h hs'
      case refine_2 => exact ⟨hls, hld⟩
      refine Safe.ite (Safe.bind_inv (E := fun _ _ => True) ((SafeS2.removeArchLoop_safe _ _).pre fun _ h => h.1)
        (Hoare.of_keeps (SafeS2.keeps_and (SafeS2.removeArchLoop_hlive _ _ _) (SafeS2.removeArchLoop_hlive _ _ _))
          fun _ _ _ => trivial) fun _ => ?_) ?_
      all_goals
        refine Safe.ite ?_ (Safe.pure _)
        exact Safe.bind_inv (E := fun _ _ => True) ((SafeS2.refreshLoop_safe _ _ hn).pre fun _ h => h.2)
          (Hoare.of_keeps (SafeS2.keeps_and (SafeS2.refreshLoop_hlive _ _ _) (SafeS2.refreshLoop_hlive _ _ _))
            fun _ _ _ => trivial) fun _ => Safe.pure _
    | some sw =>
      rw [hsw] at h
      dsimp only at h
      obtain ⟨hde, l2, hl2⟩ := SafeS2.swapped_live ok hsa heid hsw
      rw [run_bind, run_setLoc] at h
      dsimp only at h
      rw [SlotMap.get_set_refine he, if_neg hde, hl2] at h
      dsimp only at h
      refine Safe.at_run (P := fun w => HLive sa.refresh w ∧ HLive da.refresh w) ?_ ?_ h hs'
      case refine_2 => exact ⟨hls, hld⟩
      refine Safe.ite (Safe.bind_inv (E := fun _ _ => True) ((SafeS2.removeArchLoop_safe _ _).pre fun _ h => h.1)
        (Hoare.of_keeps (SafeS2.keeps_and (SafeS2.removeArchLoop_hlive _ _ _) (SafeS2.removeArchLoop_hlive _ _ _))
          fun _ _ _ => trivial) fun _ => ?_) ?_
      all_goals
        refine Safe.ite ?_ (Safe.pure _)
        exact Safe.bind_inv (E := fun _ _ => True) ((SafeS2.refreshLoop_safe _ _ hn).pre fun _ h => h.2)
          (Hoare.of_keeps (SafeS2.keeps_and (SafeS2.refreshLoop_hlive _ _ _) (SafeS2.refreshLoop_hlive _ _ _))
            fun _ _ _ => trivial) fun _ => Safe.pure _

/-! ## `dropCompTail_safe`

Invariant of the archetype-dropping loop (`DInv rm`): every stored archetype only points to registered handlers and,
apart from the removed index `rm`, to live components; nothing is reserved.  Inside one iteration the same holds for the
archetype taken out of the slab (`DInvA`).  Every step only extends the world in the sense of `Ext`. -/

namespace SafeS2

structure ArchLive (rm : Nat) (a : Arch) (w : World) : Prop where
  hl : HLive a.refresh w
  cl : ∀ c ∈ a.comps, c ≠ rm → (w.comps.getByIndex c).isSome = true

structure DInv (rm : Nat) (w : World) : Prop where
  archs : ∀ i a, w.archs.get i = some a → ArchLive rm a w
  rc : w.resCount = 0

structure DInvA (rm : Nat) (arch : Arch) (w : World) : Prop where
  inv : DInv rm w
  cur : ArchLive rm arch w

/-- `w'` has at least the handlers and components of `w`, its archetypes carry refresh sets / component lists of
    archetypes of `w`, and the reservation counter is the same -/
structure Ext (w w' : World) : Prop where
  hs : ∀ k, (w.handlers.get k).isSome = true → (w'.handlers.get k).isSome = true
  cs : ∀ c, (w.comps.getByIndex c).isSome = true → (w'.comps.getByIndex c).isSome = true
  ar : ∀ i a', w'.archs.get i = some a' →
    ∃ j a, w.archs.get j = some a ∧ a'.refresh = a.refresh ∧ a'.comps = a.comps
  rc : w'.resCount = w.resCount

theorem Ext.of_eq {w w' : World} (h1 : w'.handlers = w.handlers) (h2 : w'.comps = w.comps) (h3 : w'.archs = w.archs)
    (h4 : w'.resCount = w.resCount) : Ext w w' :=
  ⟨fun k h => by rw [h1]; exact h, fun c h => by rw [h2]; exact h,
    fun i a' h => ⟨i, a', by rw [← h3]; exact h, rfl, rfl⟩, h4⟩

theorem Ext.handlers_set {w : World} {hk : Key} {hi : HInfo} (hg : w.handlers.get hk = some hi) (v : HInfo) :
    Ext w { w with handlers := w.handlers.set hk v } :=
  ⟨fun k h => by
      have := SlotMap.contains_set hg v k
      unfold SlotMap.contains at this
      show ((w.handlers.set hk v).get k).isSome = true
      rw [this]; exact h,
    fun c h => h, fun i a' h => ⟨i, a', h, rfl, rfl⟩, rfl⟩

theorem Ext.comps_set {w : World} {ck : Key} {ci : CompInfo} (hg : w.comps.get ck = some ci) (v : CompInfo) :
    Ext w { w with comps := w.comps.set ck v } :=
  ⟨fun k h => h, fun c h => by
      show ((w.comps.set ck v).getByIndex c).isSome = true
      rw [InvV1.getByIndex_set_isSome hg]; exact h,
    fun i a' h => ⟨i, a', h, rfl, rfl⟩, rfl⟩

theorem Ext.setArch {w : World} {other : Nat} {oa : Arch} (ho : w.archs.get other = some oa) (oa' : Arch)
    (hr : oa'.refresh = oa.refresh) (hc : oa'.comps = oa.comps) (i : Nat) :
    Ext w { w with archs := w.archs.set i oa' } :=
  ⟨fun k h => h, fun c h => h, fun j a' h => by
      have h : (w.archs.set i oa').get j = some a' := h
      rw [Slab.get_set] at h
      split at h
      · cases hg : w.archs.get i with
        | none => rw [hg] at h; cases h
        | some b => rw [hg] at h; cases h; exact ⟨other, oa, ho, hr, hc⟩
      · exact ⟨j, a', h, rfl, rfl⟩, rfl⟩

theorem Ext.removeArch {w : World} {ai : Nat} {arch : Arch} {archs : Slab Arch}
    (hrem : w.archs.remove ai = some (arch, archs)) : Ext w { w with archs := archs } :=
  ⟨fun k h => h, fun c h => h, fun j a' h => by
      have h : archs.get j = some a' := h
      by_cases hj : j = ai
      · subst hj; rw [Slab.get_remove_same hrem] at h; cases h
      · rw [Slab.get_remove_other hrem hj] at h; exact ⟨j, a', h, rfl, rfl⟩, rfl⟩

theorem ArchLive.ext {rm : Nat} {a : Arch} {w w' : World} (h : ArchLive rm a w) (e : Ext w w') : ArchLive rm a w' :=
  ⟨fun k hk => e.hs k (h.hl k hk), fun c hc hne => e.cs c (h.cl c hc hne)⟩

theorem ArchLive.congr {rm : Nat} {a a' : Arch} {w : World} (h : ArchLive rm a w) (hr : a'.refresh = a.refresh)
    (hc : a'.comps = a.comps) : ArchLive rm a' w :=
  ⟨by rw [hr]; exact h.hl, by rw [hc]; exact h.cl⟩

theorem DInv.ext {rm : Nat} {w w' : World} (h : DInv rm w) (e : Ext w w') : DInv rm w' :=
  ⟨fun i a' ha' => by
      obtain ⟨j, a, ha, hr, hc⟩ := e.ar i a' ha'
      exact ((h.archs j a ha).ext e).congr hr hc,
    by rw [e.rc]; exact h.rc⟩

theorem DInvA.ext {rm : Nat} {arch : Arch} {w w' : World} (h : DInvA rm arch w) (e : Ext w w') : DInvA rm arch w' :=
  ⟨h.inv.ext e, h.cur.ext e⟩

theorem handlerRemoveArch_dinvA {rm : Nat} {arch : Arch} (hk : Key) (a0 : Arch) (hm : hk ∈ arch.refresh) :
    Hoare (DInvA rm arch) (handlerRemoveArch hk a0) (fun _ => DInvA rm arch) NoUB := by
  refine ⟨fun w hw => ?_⟩
  unfold handlerRemoveArch
  rw [run_bind, run_get]
  dsimp only
  cases hg : w.handlers.get hk with
  | none => have := hw.cur.hl hk hm; rw [hg] at this; cases this
  | some hi => exact hw.ext (Ext.handlers_set hg _)

theorem dropCell_dinvA {rm : Nat} {arch : Arch} (ty : Nat) (x : Cell) :
    Hoare (DInvA rm arch) (dropCell ty x) (fun _ => DInvA rm arch) NoUB := by
  unfold dropCell
  split
  · exact ⟨fun w hw => hw.ext (Ext.of_eq rfl rfl rfl rfl)⟩
  · exact Hoare.pure fun _ h => h

/-- **`Archetypes::remove_component`**: no marker, and the reservation counter stays `0` -/
theorem archsRemoveComponent_hoare (info : CompInfo) :
    Hoare (DInv info.id.idx) (archsRemoveComponent info) (fun _ w => w.resCount = 0) NoUB := by
  unfold archsRemoveComponent
  dsimp only
  refine Hoare.bind (R := fun _ => DInv info.id.idx) ?_ fun _ => ?_
  · refine Hoare.forIn_list_inv fun ai _ => ?_
    refine Hoare.get_bind_eq fun w hw => ?_
    split
    · exact Hoare.bind (R := fun _ _ => False) (Hoare.throw fun _ _ => NoUB.of_panic rfl) fun _ =>
        ⟨fun _ h => h.elim⟩
    · next arch archs hrem =>
      have harch : w.archs.get ai = some arch := (Slab.remove_eq_some_iff w.archs ai arch).1 ⟨archs, hrem⟩
      refine Hoare.bind (R := fun _ => DInvA info.id.idx arch)
        ⟨fun w' _ => ⟨hw.ext (Ext.removeArch hrem), (hw.archs ai arch harch).ext (Ext.removeArch hrem)⟩⟩ fun _ => ?_
      refine Hoare.bind_inv ?_ fun _ => Hoare.bind_inv ?_ fun _ => Hoare.bind_inv ?_ fun _ =>
        Hoare.bind_inv ?_ fun _ => Hoare.bind_inv ?_ fun _ => Hoare.bind_inv ?_ fun _ => Hoare.pure fun _ h => h.inv
      · -- the refresh listeners
        exact Hoare.forIn_list_mem (fun _ => DInvA info.id.idx arch) fun hk hm _ =>
          Hoare.bind_inv (handlerRemoveArch_dinvA hk arch hm) fun _ => Hoare.pure fun _ h => h
      · -- `member_of` of the other components
        refine Hoare.forIn_list_mem (fun _ => DInvA info.id.idx arch) fun c hc _ => ?_
        split
        · next hne =>
          refine Hoare.get_bind_eq fun w1 hw1 => ?_
          split
          · next heq =>
            have := hw1.cur.cl c hc (by simpa using hne)
            rw [heq] at this; cases this
          · next ck ci heq =>
            refine ⟨fun w2 hw2 => ?_⟩
            subst hw2
            simp only [run_bind, run_set, run_pure]
            exact hw1.ext (Ext.comps_set (SlotMap.getByIndex_get heq).1 _)
        · exact Hoare.pure fun _ h => h
      · -- the entities of the archetype
        refine Hoare.forIn_list_inv fun id _ => ⟨fun w1 hw1 => ?_⟩
        simp only [run_bind, run_modify, run_pure]
        split
        · exact hw1.ext (Ext.of_eq rfl rfl rfl rfl)
        · exact hw1
      · -- edges pointing back
        refine Hoare.forIn_list_inv fun x _ => ?_
        obtain ⟨c, other⟩ := x
        dsimp only
        refine Hoare.get_bind_eq fun w1 hw1 => ?_
        split
        · next oa heq =>
          refine ⟨fun w2 hw2 => ?_⟩
          subst hw2
          simp only [run_bind, run_setArch, run_pure]
          exact hw1.ext (Ext.setArch heq _ (by rfl) (by rfl) _)
        · exact Hoare.pure fun _ h => h ▸ hw1
      · refine Hoare.forIn_list_inv fun x _ => ?_
        obtain ⟨c, other⟩ := x
        dsimp only
        refine Hoare.get_bind_eq fun w1 hw1 => ?_
        split
        · next oa heq =>
          refine ⟨fun w2 hw2 => ?_⟩
          subst hw2
          simp only [run_bind, run_setArch, run_pure]
          exact hw1.ext (Ext.setArch heq _ (by rfl) (by rfl) _)
        · exact Hoare.pure fun _ h => h ▸ hw1
      · -- `Archetype::drop`
        refine Hoare.forIn_list_inv fun x _ => ?_
        obtain ⟨c, col⟩ := x
        dsimp only
        refine Hoare.get_bind fun w1 _ => ?_
        exact Hoare.bind_inv (Hoare.forIn_list_inv fun x _ => Hoare.bind_inv (dropCell_dinvA _ _) fun _ =>
          Hoare.pure fun _ h => h) fun _ => Hoare.pure fun _ h => h
  · -- the remaining archetypes forget the edge
    refine Hoare.pre (P' := RC 0) ?_ fun _ h => h.rc
    refine Hoare.get_bind fun w _ => ?_
    refine Hoare.bind_inv (Hoare.forIn_list_inv fun x _ => ?_) fun _ => Hoare.pure fun _ h => h
    obtain ⟨i, a⟩ := x
    refine ⟨fun w1 hw1 => ?_⟩
    simp only [run_bind, run_setArch, run_pure]
    exact hw1

end SafeS2

theorem dropCompTail_safe : SObl.dropCompTail_safe := by
  intro w k info comps' hm hrc _ hid hrem
  subst hid
  unfold dropCompTail
  have h0 : SafeS2.DInv info.id.idx (Step.dropComp w info.id comps') := by
    refine ⟨fun i a ha => ⟨SafeS2.hlive_refresh hm.1 ha, fun c hc hne => ?_⟩, hrc⟩
    show (comps'.getByIndex c).isSome = true
    rw [InvV6.getByIndex_remove_ne hm.1.compsWF hrem hne]
    exact hm.1.graph.compsLive i a ha c hc
  have hA := SafeS2.archsRemoveComponent_hoare info
  exact Safe.bind (R := fun _ w => w.resCount = 0) ((Safe.of_hoare hA fun _ _ h => h).pre fun w1 h1 => h1 ▸ h0)
    (hA.pre fun w1 h1 => h1 ▸ h0) fun _ => resRefresh_safe

/-! ## `fixedDespawn_safe` -/

theorem fixedDespawn_safe : SObl.fixedDespawn_safe := fun loc => by
  unfold fixedDespawn
  refine Safe.bind (R := fun _ w => Guarded (fun w => WInvMid w ∧ LocLive loc w) w ∧ w.resCount = 0)
    (E := fun _ _ => True) ?_ ?_ fun _ => ?_
  · exact Safe.unguard (fun _ => spawnAll_sl) fun w0 _ h =>
      spawnAll_safe.pre fun w hw => by subst hw; exact spawnPre_of_winv _ h.1.1
  · exact Hoare.post (Hoare.and (Hoare.of_hoareOk (spawnAll_locLive loc))
      (Hoare.of_hoareOk (SafeS2.spawnAll_count0.pre fun _ _ => trivial))) (fun _ _ h => h) (fun _ _ _ => trivial)
  · refine Safe.bind (R := fun _ w => w.resCount = 0) (E := fun _ _ => True)
      ((removeEntity_safe loc).pre fun _ h => h.1) ?_ fun _ => resRefresh_safe
    exact Hoare.pre (Hoare.of_keeps (SafeS2.removeEntity_rc loc) fun _ _ _ => trivial) fun _ h => h.2

end Evenio
