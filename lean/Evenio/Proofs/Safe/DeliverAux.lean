import Evenio.Proofs.Safe.Store
import Evenio.Proofs.Safe.Traverse
/-!
# C01, worker W4 — structural (`keeps`) walks used by `Safe/Deliver.lean`

Kept in a separate module because the walks over `runAct` / `runHandler` are slow to elaborate.
* `SafeS4.EC E C` — the entity table and the component registry are not assigned by the handler phase;
* `SafeS4.effectPhase_hk`, `SafeS4.effectPhase_fr`, `SafeS4.effectPhase_sl`, `SafeS4.handlerLoop_sl` — handler cores,
  frame and slab monotonicity of the phases of `deliverOne` (the per-function leaves exist in Listeners.lean /
  Frame.lean / Inv/Mono.lean; the phases themselves had none).
-/
namespace Evenio
open InvV7

/-! ## the handler phase does not touch `entities` nor `comps` -/

namespace SafeS4

/-- the entity table and the component registry are `E`, `C` -/
abbrev EC (E : SlotMap Loc) (C : SlotMap CompInfo) : World → Prop := fun w => w.entities = E ∧ w.comps = C

section ec
variable {E : SlotMap Loc} {C : SlotMap CompInfo}
theorem logT_ec (s : String) : Keeps (EC E C) (logT s) := by unfold logT; keeps
local macro_rules | `(tactic| keeps_leaf) => `(tactic| exact logT_ec _)
theorem ubErr_ec {α : Type} (s : String) : Keeps (EC E C) ((ubErr s : M α)) := by unfold ubErr; keeps
local macro_rules | `(tactic| keeps_leaf) => `(tactic| exact ubErr_ec _)
theorem dbgAssert_ec (c : Bool) (s : String) : Keeps (EC E C) (dbgAssert c s) := by unfold dbgAssert; keeps
local macro_rules | `(tactic| keeps_leaf) => `(tactic| exact dbgAssert_ec _ _)
theorem dropCell_ec (ty : Nat) (c : Cell) : Keeps (EC E C) (dropCell ty c) := by unfold dropCell; keeps
local macro_rules | `(tactic| keeps_leaf) => `(tactic| exact dropCell_ec _ _)
theorem dropEvent_ec (it : QItem) : Keeps (EC E C) (dropEvent it) := by unfold dropEvent; keeps
local macro_rules | `(tactic| keeps_leaf) => `(tactic| exact dropEvent_ec _)
theorem getArch_ec (i : Nat) (s : String) : Keeps (EC E C) (getArch i s) := by unfold getArch; keeps
local macro_rules | `(tactic| keeps_leaf) => `(tactic| exact getArch_ec _ _)
theorem setArch_ec (a : Arch) : Keeps (EC E C) (setArch a) := by unfold setArch; keeps
local macro_rules | `(tactic| keeps_leaf) => `(tactic| exact setArch_ec _)
theorem reserve_ec  : Keeps (EC E C) (reserve) := by unfold reserve; keeps
local macro_rules | `(tactic| keeps_leaf) => `(tactic| exact reserve_ec )
theorem push_ec (it : QItem) : Keeps (EC E C) (push it) := by unfold push; keeps
local macro_rules | `(tactic| keeps_leaf) => `(tactic| exact push_ec _)
theorem takeBudget_ec  : Keeps (EC E C) (takeBudget) := by unfold takeBudget; keeps
local macro_rules | `(tactic| keeps_leaf) => `(tactic| exact takeBudget_ec )
theorem freshE_ec  : Keeps (EC E C) (freshE) := by unfold freshE; keeps
local macro_rules | `(tactic| keeps_leaf) => `(tactic| exact freshE_ec )
theorem freshC_ec  : Keeps (EC E C) (freshC) := by unfold freshC; keeps
local macro_rules | `(tactic| keeps_leaf) => `(tactic| exact freshC_ec )
theorem senderPush_ec (h : HInfo) (it : QItem) : Keeps (EC E C) (senderPush h it) := by unfold senderPush; keeps
local macro_rules | `(tactic| keeps_leaf) => `(tactic| exact senderPush_ec _ _)
theorem paramRows_ec (p : Param) : Keeps (EC E C) (paramRows p) := by unfold paramRows; keeps
local macro_rules | `(tactic| keeps_leaf) => `(tactic| exact paramRows_ec _)
theorem itemAt_ec (st : AS) (a : Arch) (row : Nat) : Keeps (EC E C) (itemAt st a row) := by unfold itemAt; keeps
local macro_rules | `(tactic| keeps_leaf) => `(tactic| exact itemAt_ec _ _ _)
theorem paramGet_ec (p : Param) (id : Key) : Keeps (EC E C) (paramGet p id) := by unfold paramGet; keeps
local macro_rules | `(tactic| keeps_leaf) => `(tactic| exact paramGet_ec _ _)
theorem bumpCell_ec (ai row c : Nat) : Keeps (EC E C) (bumpCell ai row c) := by unfold bumpCell; keeps
local macro_rules | `(tactic| keeps_leaf) => `(tactic| exact bumpCell_ec _ _ _)
theorem getParam_ec (h : HInfo) (p : Nat) : Keeps (EC E C) (getParam h p) := by unfold getParam; keeps
local macro_rules | `(tactic| keeps_leaf) => `(tactic| exact getParam_ec _ _)
theorem runAct_ec (hk : Key) (it : QItem) (loc : Loc) (act : Act) : Keeps (EC E C) (runAct hk it loc act) := by unfold runAct; keeps
local macro_rules | `(tactic| keeps_leaf) => `(tactic| exact runAct_ec _ _ _ _)
theorem runHandler_ec (hk : Key) (it : QItem) (loc : Loc) : Keeps (EC E C) (runHandler hk it loc) := by unfold runHandler; keeps
local macro_rules | `(tactic| keeps_leaf) => `(tactic| exact runHandler_ec _ _ _)
theorem handlerLoop_ec (it : QItem) (info : EvInfo) (loc : Loc) (hs : List Key) : Keeps (EC E C) (handlerLoop it info loc hs) := by unfold handlerLoop; keeps
local macro_rules | `(tactic| keeps_leaf) => `(tactic| exact handlerLoop_ec _ _ _ _)
end ec

end SafeS4


/-! ## the phases of `deliverOne`: handler cores, frame, slab -/

namespace SafeS4

theorem effectPhase_hk {reg : Key → Option HInfo} (it : QItem) (info : EvInfo) (loc : Loc) :
    Keeps (HK reg) (effectPhase it info loc) := by
  unfold effectPhase
  split
  · split
    · exact dropEvent_hk _
    · exact Keeps.pure _
  · exact Keeps.bind (dbgAssert_hk _ _) fun _ => Keeps.bind (traverseInsert_hk _ _) fun _ => moveEntity_hk _ _ _
  · exact Keeps.bind (traverseRemove_hk _ _) fun _ => moveEntity_hk _ _ _
  · exact spawnAll_hk
  · exact Keeps.bind spawnAll_hk fun _ => Keeps.bind (removeEntity_hk _) fun _ => resRefresh_hk

theorem effectPhase_fr {fr : Frame} (it : QItem) (info : EvInfo) (loc : Loc) :
    Keeps (FR fr) (effectPhase it info loc) := by unfold effectPhase; keeps

theorem effectPhase_sl (it : QItem) (info : EvInfo) (loc : Loc) : SlabMono (effectPhase it info loc) :=
  fun n => by unfold effectPhase; keeps

theorem handlerLoop_sl (it : QItem) (info : EvInfo) (loc : Loc) (hs : List Key) :
    SlabMono (handlerLoop it info loc hs) := fun n => by unfold handlerLoop; keeps

end SafeS4

end Evenio
