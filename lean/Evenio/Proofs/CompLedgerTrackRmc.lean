import Evenio.Proofs.CompLedgerTrack
/-! # No leak, `Archetypes::remove_component`: the cells of the removed archetypes are passed to their destructors

`archsRemoveComponent_logs`: from any world whose archetypes sit at their own slab index, on normal return of
`archsRemoveComponent info`, for every index `ai` of `info.memberOf`, every cell of every column (paired with a component
index) of the archetype `w0.archs.get ai` is logged if its type has a destructor — the removed component's column with
`info.ty` (the registry entry has just been removed, `compTy` no longer knows it), the others with their registered
type.  `RC` is the loop predicate: component types as at the start (`compsCore`), the slab a subset of the start's with
the same cells, `S` logged. -/
namespace Evenio.CompLedger


/-- every archetype of `A` is an archetype of `A0` at the same index, with the same components and cells, stored at its
    own index -/
def ArchSub (A0 A : Slab Arch) : Prop :=
  ∀ i a, A.get i = some a → a.index = i ∧ ∃ a0, A0.get i = some a0 ∧ a.comps = a0.comps ∧ a.cols = a0.cols

/-- the state of `remove_component` between two steps: component types as at the start, archetypes a subset of the
    start's, `S` logged -/
def RC (C0 : SlotMap CompInfo) (A0 : Slab Arch) (S : List (Nat × Nat)) (w : World) : Prop :=
  w.compsCore = C0 ∧ ArchSub A0 w.archs ∧ ∀ e ∈ S, e ∈ w.cdrops

/-- what `Archetype::drop` logs for an archetype removed by `remove_component`: the removed component's column with the
    type of the entry that has just left the registry -/
def rcNeed (C0 : SlotMap CompInfo) (info : CompInfo) (a : Arch) : List (Nat × Nat) :=
  (a.comps.zip a.cols).flatMap fun p =>
    let ty := if (p.1 == info.id.idx) = true then info.ty else tyOf C0 p.1
    p.2.flatMap fun x => if compNeedsDrop ty then [(ty, x.ser)] else []

theorem RC.mono {C0 A0 S S'} {w : World} (h : RC C0 A0 S' w) (hs : ∀ e ∈ S, e ∈ S') : RC C0 A0 S w :=
  ⟨h.1, h.2.1, fun e he => h.2.2 e (hs e he)⟩

theorem archSub_setArch {A0 A : Slab Arch} (h : ArchSub A0 A) {j : Nat} {oa : Arch} (ho : A.get j = some oa)
    (a' : Arch) (h1 : a'.index = oa.index) (h2 : a'.comps = oa.comps) (h3 : a'.cols = oa.cols) :
    ArchSub A0 (A.set a'.index a') := by
  obtain ⟨hj, a0, ha0, c1, c2⟩ := h j oa ho
  intro i b hb
  rw [Slab.get_set] at hb
  split at hb
  · rename_i hi
    rw [h1, hj] at hi
    subst hi
    rw [h1, hj, ho] at hb
    cases hb
    exact ⟨h1.trans hj, a0, ha0, h2.trans c1, h3.trans c2⟩
  · exact h i b hb

theorem archSub_remove {A0 A A' : Slab Arch} (h : ArchSub A0 A) {i : Nat} {a : Arch} (hr : A.remove i = some (a, A')) :
    ArchSub A0 A' := by
  intro j b hb
  by_cases hj : j = i
  · subst hj; rw [Slab.get_remove_same hr] at hb; cases hb
  · rw [Slab.get_remove_other hr hj] at hb; exact h j b hb



abbrev ET : Err → World → Prop := fun _ _ => True

/-- a loop whose body moves an accumulating predicate from `S` to `S ++ need a` -/
theorem loop_acc {γ : Type} (P : List (Nat × Nat) → World → Prop) (need : γ → List (Nat × Nat))
    (body : γ → PUnit → M (ForInStep PUnit))
    (hb : ∀ a S, Hoare (P S) (body a PUnit.unit) (fun r w => r = ForInStep.yield PUnit.unit ∧ P (S ++ need a) w) ET)
    (l : List γ) (S : List (Nat × Nat)) :
    Hoare (P S) (forIn l PUnit.unit body) (fun _ => P (S ++ l.flatMap need)) ET := by
  induction l generalizing S with
  | nil => exact Hoare.pure fun _ h => by simpa using h
  | cons a l ih =>
    rw [List.forIn_cons]
    refine Hoare.bind (hb a S) fun r => ?_
    refine Hoare.pre (P' := fun w => P (S ++ need a) w ∧ r = ForInStep.yield PUnit.unit)
      (Hoare.of_pure_pre fun hr => ?_) (fun _ h => ⟨h.2, h.1⟩)
    subst hr
    refine Hoare.post (ih (S ++ need a)) (fun _ _ h => ?_) (fun _ _ h => h)
    rw [List.flatMap_cons, ← List.append_assoc]
    exact h

/-- a step that keeps `RC … S` -/
theorem rc_of_kp {α : Type} {C0 A0 S} {m : M α} (h : KP (RC C0 A0 S) m) :
    Hoare (RC C0 A0 S) m (fun _ => RC C0 A0 S) ET :=
  Hoare.post h (fun _ _ h => h) (fun _ _ _ => trivial)

theorem compTy_rc {C0 A0 S} {w : World} (h : RC C0 A0 S w) (c : Nat) : w.compTy c = tyOf C0 c := by
  rw [compTy_eq_tyOf, ← tyOf_core, ← h.1]; rfl

/-- `Archetype::drop` of an archetype that has left the slab -/
theorem dropCols_rc (C0 : SlotMap CompInfo) (A0 : Slab Arch) (info : CompInfo) (arch : Arch) (S : List (Nat × Nat)) :
    Hoare (RC C0 A0 S)
      (forIn (arch.comps.zip arch.cols) PUnit.unit fun x _ =>
        match x with
        | (c, col) => do
          let w' ← get
          have ty : Nat := if (c == info.id.idx) = true then info.ty else w'.compTy c
          forIn col PUnit.unit fun x _ => do
            dropCell ty x
            pure (ForInStep.yield PUnit.unit)
          pure (ForInStep.yield PUnit.unit))
      (fun _ => RC C0 A0 (S ++ rcNeed C0 info arch)) ET := by
  unfold rcNeed
  refine loop_acc (RC C0 A0) _ _ (fun p S' => ?_) _ S
  obtain ⟨c, col⟩ := p
  dsimp only
  refine Hoare.get_bind fun w' hw' => ?_
  rw [compTy_rc hw' c]
  generalize (if (c == info.id.idx) = true then info.ty else tyOf C0 c) = ty
  refine Hoare.bind (R := fun _ => RC C0 A0 (S' ++ col.flatMap fun x =>
      if compNeedsDrop ty = true then [(ty, x.ser)] else [])) ?_
    fun _ => Hoare.pure fun _ h => ⟨rfl, h⟩
  refine loop_acc (RC C0 A0) _ _ (fun x S'' => ?_) col S'
  refine Hoare.bind (R := fun _ => RC C0 A0 (S'' ++ _)) ⟨fun w h => ?_⟩ fun _ => Hoare.pure fun _ h => ⟨rfl, h⟩
  rw [run_dropCell]
  show RC C0 A0 _ (dropCellW _ x w)
  unfold dropCellW
  by_cases hn : compNeedsDrop ty = true
  · rw [if_pos hn, if_pos hn]
    refine ⟨h.1, h.2.1, fun e he => ?_⟩
    rcases List.mem_append.1 he with he | he
    · exact List.mem_cons_of_mem _ (h.2.2 e he)
    · rw [List.mem_singleton.1 he]; exact List.mem_cons_self ..
  · rw [if_neg hn, if_neg hn, List.append_nil]
    exact h


/-- what `remove_component` has to log for the archetype at index `ai` of the slab `A0` -/
def needAt (C0 : SlotMap CompInfo) (A0 : Slab Arch) (info : CompInfo) (ai : Nat) : List (Nat × Nat) :=
  match A0.get ai with
  | some a0 => rcNeed C0 info a0
  | none => []

theorem rcNeed_congr (C0 : SlotMap CompInfo) (info : CompInfo) {a b : Arch} (h1 : a.comps = b.comps)
    (h2 : a.cols = b.cols) : rcNeed C0 info a = rcNeed C0 info b := by
  unfold rcNeed; rw [h1, h2]

/-- read an archetype and write it back with the same components and cells -/
theorem getSet_rc {β : Type} {C0 A0 S} (j : Nat) (f : Arch → Arch)
    (hf : ∀ a, (f a).index = a.index ∧ (f a).comps = a.comps ∧ (f a).cols = a.cols) (c : M β)
    (hc : Hoare (RC C0 A0 S) c (fun _ => RC C0 A0 S) ET) :
    Hoare (RC C0 A0 S) (do
      let l ← get
      match l.archs.get j with
        | some oa => do
          setArch (f oa)
          c
        | none => c) (fun _ => RC C0 A0 S) ET := by
  refine Hoare.get_bind_at fun w hw => ?_
  split
  · rename_i oa hoa
    refine Hoare.bind (R := fun _ => RC C0 A0 S) ⟨fun w' hw' => ?_⟩ fun _ => hc
    subst hw'
    exact ⟨hw.1, archSub_setArch hw.2.1 hoa (f oa) (hf oa).1 (hf oa).2.1 (hf oa).2.2, hw.2.2⟩
  · exact Hoare.pre hc fun w' hw' => by subst hw'; exact hw

/-- **`Archetypes::remove_component`**: on normal return, every cell of every archetype listed in `member_of` has been
    passed to its destructor — the removed component's column with the type of the registry entry that has just been
    removed (`info.ty`), the other columns with their registered type -/
theorem archsRemoveComponent_logs (info : CompInfo) (w0 : World)
    (hidx : ∀ i a, w0.archs.get i = some a → a.index = i) :
    Hoare (fun w => w = w0) (archsRemoveComponent info)
      (fun _ w' => w'.compsCore = w0.compsCore ∧
        ∀ e ∈ w0.cdrops ++ info.memberOf.flatMap (needAt w0.compsCore w0.archs info), e ∈ w'.cdrops) ET := by
  unfold archsRemoveComponent
  dsimp only
  refine Hoare.pre (P' := RC w0.compsCore w0.archs w0.cdrops) ?_ (fun w hw => by
    subst hw
    exact ⟨rfl, fun i a ha => ⟨hidx i a ha, a, ha, rfl, rfl⟩, fun e he => he⟩)
  refine Hoare.bind (loop_acc (RC w0.compsCore w0.archs) (needAt w0.compsCore w0.archs info) _ (fun ai S => ?_) _ _)
    fun _ => ?_
  · refine Hoare.get_bind_at fun w hw => ?_
    split
    · exact hoare_throw_bind _ _ fun _ _ => trivial
    · rename_i arch archs hrem
      have hget : w.archs.get ai = some arch := (Slab.remove_eq_some_iff _ _ _).1 ⟨_, hrem⟩
      obtain ⟨-, a0, ha0, hc1, hc2⟩ := hw.2.1 ai arch hget
      have hneed : needAt w0.compsCore w0.archs info ai = rcNeed w0.compsCore info arch := by
        unfold needAt; rw [ha0]; exact (rcNeed_congr _ _ hc1 hc2).symm
      rw [hneed]
      refine Hoare.bind (R := fun _ => RC w0.compsCore w0.archs S) ⟨fun w' hw' => ?_⟩ fun _ => ?_
      · subst hw'
        exact ⟨hw.1, archSub_remove hw.2.1 hrem, hw.2.2⟩
      refine Hoare.bind_inv (rc_of_kp ?_) fun _ => ?_
      · unfold handlerRemoveArch; cl_keeps
      refine Hoare.bind_inv (rc_of_kp ?_) fun _ => ?_
      · refine Hoare.forIn_list_inv fun c _ => ?_
        split
        · refine Hoare.get_bind fun w1 hw1 => ?_
          split
          · exact hoare_ubErr_bind _ _
          · rename_i ck ci hg
            refine Hoare.bind_inv (KP.set ?_) fun _ => KP.pure _
            exact ⟨cc_set_memberOf hw1.1 hg _, hw1.2.1, hw1.2.2⟩
        · exact KP.pure _
      refine Hoare.bind_inv (rc_of_kp ?_) fun _ => ?_
      · cl_keeps
      refine Hoare.bind_inv ?_ fun _ => ?_
      · refine Hoare.forIn_list_inv fun p _ => ?_
        obtain ⟨c, other⟩ := p
        dsimp only
        refine getSet_rc other _ ?_ _ (Hoare.pure fun _ h => h)
        exact fun _ => ⟨rfl, rfl, rfl⟩
      refine Hoare.bind_inv ?_ fun _ => ?_
      · refine Hoare.forIn_list_inv fun p _ => ?_
        obtain ⟨c, other⟩ := p
        dsimp only
        refine getSet_rc other _ ?_ _ (Hoare.pure fun _ h => h)
        exact fun _ => ⟨rfl, rfl, rfl⟩
      exact Hoare.bind (dropCols_rc _ _ info arch S) fun _ => Hoare.pure fun _ h => ⟨rfl, h⟩
  · refine Hoare.pre (P' := fun w' => w'.compsCore = w0.compsCore ∧
        ∀ e ∈ w0.cdrops ++ info.memberOf.flatMap (needAt w0.compsCore w0.archs info), e ∈ w'.cdrops) ?_
      (fun _ h => ⟨h.1, h.2.2⟩)
    refine Hoare.post (E := PanicOnly fun w' => w'.compsCore = w0.compsCore ∧
        ∀ e ∈ w0.cdrops ++ info.memberOf.flatMap (needAt w0.compsCore w0.archs info), e ∈ w'.cdrops) ?_
      (fun _ _ h => h) (fun _ _ _ => trivial)
    unfold setArch
    cl_keeps

/-! ## the tail of `removeComponent` -/


theorem tyOf_remove_other {C C' : SlotMap CompInfo} {k : Key} {info : CompInfo} (h : C.remove k = some (info, C'))
    {c : Nat} (hc : c ≠ k.idx) : tyOf C' c = tyOf C c := by
  have hs : C'.slots[c]? = C.slots[c]? := by
    unfold SlotMap.remove at h
    split at h
    · cases h
    · split at h
      · cases h
      · split at h
        · cases h
        · dsimp only at h
          split at h <;>
          · cases h
            exact List.getElem?_set_ne (fun e => hc e.symm)
  unfold tyOf World.compTy SlotMap.getByIndex
  rw [hs]

/-- **the tail of `remove_component`** (`Archetypes::remove_component`, then the cursor refresh), run from the world the
    registry write left: every cell of every archetype listed in `member_of` of the removed component — position by
    position — whose component type (in the world BEFORE the removal) has a destructor is in the ledger afterwards -/
theorem dropCompTail_logs (w : World) (k : Key) (info : CompInfo) (comps' : SlotMap CompInfo)
    (hrm : w.comps.remove k = some (info, comps')) (hid : info.id = k) (hty : w.compTy k.idx = info.ty)
    (hidx : ∀ i a, w.archs.get i = some a → a.index = i) :
    Hoare (fun w1 => w1 = Step.dropComp w k comps') (dropCompTail info)
      (fun _ w' => (∀ e ∈ w.cdrops, e ∈ w'.cdrops) ∧
        ∀ ai ∈ info.memberOf, ∀ a, w.archs.get ai = some a → ∀ (j c : Nat) (col : List Cell) (x : Cell),
          a.comps[j]? = some c → a.cols[j]? = some col → x ∈ col → compNeedsDrop (w.compTy c) = true →
          (w.compTy c, x.ser) ∈ w'.cdrops) ET := by
  unfold dropCompTail
  refine Hoare.bind (archsRemoveComponent_logs info (Step.dropComp w k comps') hidx) fun _ => ?_
  have hk : Keeps (fun w' : World => ∀ e ∈ w.cdrops ++ info.memberOf.flatMap
      (needAt (Step.dropComp w k comps').compsCore w.archs info), e ∈ w'.cdrops) resRefresh := by
    unfold resRefresh dbgAssert; io_keeps
  refine Hoare.pre (Hoare.post (Hoare.of_keeps (E := ET) hk fun _ _ _ => trivial) (fun _ w' h => ?_) (fun _ _ h => h))
    (fun _ h => h.2)
  · refine ⟨fun e he => h e (List.mem_append_left _ he), fun ai hai a ha j c col x hc hcol hx hn => ?_⟩
    refine h _ (List.mem_append_right _ (List.mem_flatMap.2 ⟨ai, hai, ?_⟩))
    unfold needAt
    rw [ha]
    unfold rcNeed
    refine List.mem_flatMap.2 ⟨(c, col), ?_, List.mem_flatMap.2 ⟨x, hx, ?_⟩⟩
    · refine List.mem_of_getElem? (i := j) ?_
      rw [List.getElem?_zip_eq_some]; exact ⟨hc, hcol⟩
    · have hT : (if (c == info.id.idx) = true then info.ty
          else tyOf (Step.dropComp w k comps').compsCore c) = w.compTy c := by
        by_cases he : c = k.idx
        · subst he
          rw [hid, if_pos (by simp), hty]
        · rw [hid, if_neg (by simpa using he)]
          show tyOf (SlotMap.mapVal CompInfo.core comps') c = w.compTy c
          rw [tyOf_core, tyOf_remove_other hrm he]
          rfl
      dsimp only
      rw [hT, if_pos hn]
      exact List.mem_singleton.2 rfl

end Evenio.CompLedger
