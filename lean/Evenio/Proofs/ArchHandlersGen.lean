import Evenio.Generated.ArchHandlersGen
import Evenio.Model.World
import Evenio.Proofs.HandlerListGen
/-! The functions regenerated from `/repo/src/archetype.rs` by `tools/rs2lean` (`Evenio.Gen.ArchHandlers.*`:
    `Archetype::register_handler`, `Archetypes::register_handler`, `Archetypes::remove_handler`) against the world model
    (`Model/World.lean`: `Arch.registerHandler`, the loops of `addHandler` / `removeHandler` over the archetypes).

    The world model is monadic (`M = ExceptT Err (StateM World)`): `Arch.registerHandler` refreshes the handler's caches through
    the world (`handlerRefresh`).  The translated function is pure: it takes the `HandlerInfo` and returns the archetype and
    the `HandlerInfo` (`info.handler_mut().refresh_archetype(self)` is `hinfoRefresh`, taken as given).  The tie has two halves:
    * `registerHandler_split`: the world model's `Arch.registerHandler a h` IS "refresh `h` through the world iff `regRefresh a h`,
      then return `regArch a h`" (an equation in `M`, about the hand model alone);
    * `register_handler_eq`: the translated function returns exactly `regArch a h` and the `HandlerInfo` refreshed iff
      `regRefresh a h`.
    `Archetypes::remove_handler` maps `removeArch · h` over every occupied slab entry (`slabMap`); `removeArch` is the body of the
    loop in the world model's `removeHandler` (`refresh.filter (· != k)`, then `listeners.insert recvIdx (l.remove k)` for a
    targeted receiver whose list exists).  `Archetypes::register_handler` folds `register_handler` over every occupied entry,
    threading the `HandlerInfo` (`slabMapState`).  `slabMap_get` / `slabMap_toList`: every occupied entry is visited, in index
    order, vacant entries stay.
    Taken as given (listed in the generated header): `ComponentAccess::matches_archetype` (= `CA.matches`, tied in
    `Proofs/AccessGen.lean`), `column_of` (= `Arch.colIdx`), the `HandlerInfo` accessors, `HandlerList::{new, insert, remove}`
    (= the translated ones of `HandlerListGen`), `SparseMap::{get_mut, insert}` (hand model), `BTreeSet::{insert, remove}`
    (duplicate-free list in insertion order).  Core Lean only. -/
namespace Evenio
namespace ArchHandlersGen
open Rs2Lean Gen.ArchHandlers

/-- the archetype `Arch.registerHandler` returns -/
def regArch (a : Arch) (h : HInfo) : Arch :=
  let a := if h.archFilter.matches a.S then
      { a with refresh := if a.refresh.contains h.key then a.refresh else a.refresh ++ [h.key] } else a
  if h.recv.targeted && h.filter.matches a.S then
    match a.listeners.get h.recvIdx with
    | some l => { a with listeners := a.listeners.insert h.recvIdx (l.insert h.key h.prio) }
    | none => { a with listeners := a.listeners.insert h.recvIdx ((({} : HandlerList Key)).insert h.key h.prio) }
  else a

/-- whether `Arch.registerHandler` refreshes the handler: the archetype filter matches and the archetype is not empty -/
def regRefresh (a : Arch) (h : HInfo) : Bool := h.archFilter.matches a.S && decide (a.ids.length > 0)

/-- the world model's `Arch.registerHandler`, split into its effect on the world and the archetype it returns -/
theorem registerHandler_split (a : Arch) (h : HInfo) :
    a.registerHandler h = (do
      if regRefresh a h then handlerRefresh h.key a
      pure (regArch a h)) := by
  unfold Arch.registerHandler regArch regRefresh
  have hS : ∀ r, ({ a with refresh := r } : Arch).S = a.S := fun _ => rfl
  by_cases h1 : h.archFilter.matches a.S <;> by_cases h2 : a.ids.length > 0 <;> by_cases h3 : h.recv.targeted <;>
    by_cases h4 : h.filter.matches a.S <;> simp [h1, h2, h3, h4, hS] <;>
    cases a.listeners.get h.recvIdx <;> simp [Functor.map, bind_pure_comp] <;> rfl

/-- `column_of(idx).is_some()` is the model's membership test -/
theorem colIdx_isSome (a : Arch) : (fun c => (a.colIdx c).isSome) = a.S := by
  funext c
  simp only [Arch.colIdx, Arch.S]
  cases h : List.idxOf? c a.comps with
  | none => simp [List.idxOf?_eq_none_iff] at h; simp [h]
  | some i =>
    have : (List.idxOf? c a.comps).isSome := by simp [h]
    rw [List.isSome_idxOf?] at this
    simp [this]

/-- the translated `Archetype::register_handler`: the archetype of the world model's `Arch.registerHandler`, and the
    `HandlerInfo` refreshed exactly when the world model refreshes it -/
theorem register_handler_eq (a : Arch) (h : HInfo) :
    register_handler a h = (regArch a h, if regRefresh a h then hinfoRefresh h a else h) := by
  have hS : ∀ r, ({ a with refresh := r } : Arch).S = a.S := fun _ => rfl
  have hc : ∀ b : Arch, (fun c => (b.colIdx c).isSome) = b.S := colIdx_isSome
  simp only [register_handler, regArch, regRefresh, hc, hinfoRefresh, hinfoTargetedAccess, hinfoRecv, archEntityCount,
    sparseGet, sparseSet, gen_insert_eq]
  by_cases h1 : h.archFilter.matches a.S <;> by_cases h2 : a.ids.length > 0 <;> by_cases h3 : h.recv.targeted <;>
    by_cases h4 : h.filter.matches a.S <;> simp [h1, h2, h3, h4, hS] <;>
    (try (cases a.listeners.get h.recvIdx <;> simp)) <;>
    (try (split <;> rfl))

/-- the body of the loop over the archetypes in the world model's `removeHandler` -/
def removeArch (a : Arch) (h : HInfo) : Arch :=
  let a := { a with refresh := a.refresh.filter (· != h.key) }
  if h.recv.targeted then
    match a.listeners.get h.recvIdx with
    | some l => { a with listeners := a.listeners.insert h.recvIdx (l.remove h.key) }
    | none => a
  else a

/-- the translated `Archetypes::remove_handler` applies the world model's loop body to every occupied archetype -/
theorem remove_handler_eq (s : Archetypes) (h : HInfo) :
    Archetypes.remove_handler s h = { s with archetypes := slabMap s.archetypes (fun _ a => removeArch a h) } := by
  simp only [Archetypes.remove_handler]
  congr 2
  funext i a
  simp only [removeArch, hinfoRecv, sparseGet, sparseSet]
  cases h3 : h.recv.targeted with
  | false => rfl
  | true =>
    simp only [if_true]
    cases a.listeners.get h.recvIdx with
    | none => rfl
    | some l => simp [gen_remove_eq]

/-- the translated `Archetypes::register_handler` folds the translated `Archetype::register_handler` over every occupied
    archetype, threading the `HandlerInfo` -/
theorem archetypes_register_handler_eq (s : Archetypes) (h : HInfo) :
    Archetypes.register_handler s h =
      ({ s with archetypes := (slabMapState s.archetypes h (fun _ a h => register_handler a h)).1 },
       (slabMapState s.archetypes h (fun _ a h => register_handler a h)).2) := by
  simp only [Archetypes.register_handler]

/-! ### what the loops visit -/

theorem slabMap_get {α : Type} (s : Slab α) (f : Nat → α → α) (i : Nat) :
    (slabMap s f).get i = (s.get i).map (f i) := by
  simp only [slabMap, Slab.get, List.getElem?_map, List.getElem?_zipIdx]
  cases h : s.entries[i]? with
  | none => simp
  | some e => cases e <;> simp

theorem slabMap_toList {α : Type} (s : Slab α) (f : Nat → α → α) :
    (slabMap s f).toList = s.toList.map fun p => (p.1, f p.1 p.2) := by
  simp only [slabMap, Slab.toList]
  generalize 0 = k
  induction s.entries generalizing k with
  | nil => simp
  | cons e es ih =>
    simp only [List.zipIdx_cons, List.map_cons, List.filterMap_cons]
    cases e with
    | vacant n => simpa using ih (k + 1)
    | occ a => simpa using ih (k + 1)

end ArchHandlersGen
end Evenio
