import Evenio.Proofs.EvLedgerCons
import Evenio.Proofs.Inv.ListsE2
import Evenio.Proofs.Inv.Registry
import Evenio.Proofs.Inv.Facts
import Evenio.Proofs.Inv.QueueEmpty
import Evenio.Props.C16World
/-! # The event ledger along whole WORLD histories, part 4: conservation for every top-level operation

`Proofs/EvLedgerCons.lean` shows that a flush loses no serial if the registries say of every user event that is disposed
of that it has a drop function (`QT`).  This file establishes that hypothesis at every flush of every top-level operation:

* `TW w` — the registry invariant of conservation: well-formed registries (`RegInv []`, C16), registered user event types
  have a drop function and the normal kind, the event set of every registered handler names live registry slots of the
  right type and is covered by the handler's sent-events bit set, registered handlers are in `by_insert_order`, queued user
  events are disposable.  All of it is part of, or follows from, `WInv`; it is stated on its own because
  `execOp_tq : KP (TopQ a Z) (execOp op)` holds from ANY world satisfying it — no `WInv`, no validity of the operation.
* `TopQ a Z w := TW w ∧ Cov a Z w`.
* registrations only let the registries grow (`TW.grow`); `add_handler` resolves its event set while registering it
  (`initParam_tq_refs`, from `InvV3.initParam_refs`); **`remove_event` first removes every handler whose sent-events set
  lists the index** (`removeLoop_tq`: the slice of C14 that conservation needs, proved here from `TW` alone:
  `removeHandler_dead`, `removeHandler_users`) and only then the registry entry (`TopQ.remove_tevs` / `remove_gevs`), with an
  empty queue (`assertQueueEmpty_tq`, `InvV7.sendGlobal_qe`, `InvV7.removeHandler_qe`). -/
namespace Evenio
namespace EvLedger
open InvV3 (IdxLive EvLive)

/-! ## the registry invariant of conservation -/

/-- `i` is listed in the sent-events bit set of `h` that `ev` selects -/
def SentIn (h : HInfo) (ev : EvTy) (i : Nat) : Prop := if ev.targeted then i ∈ h.sentT else i ∈ h.sentG

/-- **what conservation needs of the registries** (all of it is part of, or follows from, `WInv`; it is stated on its own
    because it is kept by every top-level operation from ANY world satisfying it):
    * the registries are well formed (`RegInv []`);
    * a registered user event type has a drop function and the normal kind;
    * every entry `(ev, i)` of the event set of a registered handler names a live registry slot of type `ev`, and `i` is
      in the handler's sent-events set (the set `remove_event` consults: property C14);
    * every registered handler is in `by_insert_order` (the list `remove_event` filters);
    * every queued user event is disposable (`TOK`: its registry slot is live, has a drop function and the normal kind) -/
structure TW (w : World) : Prop where
  ri : RegInv [] w
  dropG : ∀ k info, w.gevs.get k = some info → ∀ n, info.ty = .g n → info.needsDrop = true ∧ info.kind = .normal
  dropT : ∀ k info, w.tevs.get k = some info → ∀ n, info.ty = .t n → info.needsDrop = true ∧ info.kind = .normal
  sends : ∀ hk h, w.handlers.get hk = some h → ∀ ev i, (ev, i) ∈ h.sends → SentIn h ev i ∧ IdxLive w ev i
  listed : ∀ hk h, w.handlers.get hk = some h → hk ∈ w.byInsertOrder
  queue : ∀ q ∈ w.queue, TOK w.gevs w.tevs q

theorem tw_init : TW {} where
  ri := regInv_init
  dropG := fun k info h => by cases h
  dropT := fun k info h => by cases h
  sends := fun hk h hh => by cases hh
  listed := fun hk h hh => by cases hh
  queue := fun q hq => nomatch hq


/-- the handler table up to fetcher caches -/
def _root_.Evenio.World.hreg (w : World) : Key → Option HInfo := fun k => (w.handlers.get k).map HInfo.core

theorem hk_hreg (w : World) : HK w.hreg w := fun _ => rfl

theorem core_sends (h : HInfo) : h.core.sends = h.sends := rfl
theorem core_sentG (h : HInfo) : h.core.sentG = h.sentG := rfl
theorem core_sentT (h : HInfo) : h.core.sentT = h.sentT := rfl

/-- a user item that names a live slot of its type is disposable -/
theorem TW.tok {w : World} (tw : TW w) {x : QItem} (h : x.isUser = true → IdxLive w x.ty x.idx) :
    TOK w.gevs w.tevs x := by
  intro hu
  have hl := h hu
  obtain ⟨ty, idx, tgt, pay⟩ := x
  cases ty <;> first | (cases hu; done) | skip
  · -- `G n`
    rename_i n
    obtain ⟨k, info, hg, hty⟩ : ∃ k info, w.gevs.getByIndex idx = some (k, info) ∧ info.ty = .g n := hl
    refine ⟨info, ?_, tw.dropG k info (SlotMap.getByIndex_get hg).1 n hty⟩
    show (w.gevs.getByIndex idx).map (·.2) = some info
    rw [hg]; rfl
  · rename_i n
    obtain ⟨k, info, hg, hty⟩ : ∃ k info, w.tevs.getByIndex idx = some (k, info) ∧ info.ty = .t n := hl
    refine ⟨info, ?_, tw.dropT k info (SlotMap.getByIndex_get hg).1 n hty⟩
    show (w.tevs.getByIndex idx).map (·.2) = some info
    rw [hg]; rfl

theorem TW.sendsTOK {w : World} (tw : TW w) : ∀ k h, w.hreg k = some h → SendsTOK w.gevs w.tevs h := by
  intro k h hh ev i hm
  unfold World.hreg at hh
  cases hg : w.handlers.get k with
  | none => rw [hg] at hh; cases hh
  | some h0 =>
    rw [hg] at hh
    cases hh
    exact tw.tok fun _ => (tw.sends k h0 hg ev i hm).2

theorem TW.qt {w : World} (tw : TW w) : QT w.gevs w.tevs w.hreg w :=
  ⟨rfl, rfl, hk_hreg w, tw.queue⟩

/-- `TW` only reads the registries, the handler table up to caches, `by_insert_order`, `removedIds` and the queue -/
theorem TW.transfer {w w' : World} (tw : TW w) (hri : RegInv [] w') (hg : w'.gevs = w.gevs) (ht : w'.tevs = w.tevs)
    (hh : ∀ k, w'.hreg k = w.hreg k) (ho : w'.byInsertOrder = w.byInsertOrder)
    (hq : ∀ q ∈ w'.queue, TOK w.gevs w.tevs q) : TW w' := by
  have hidx : ∀ ev i, IdxLive w ev i → IdxLive w' ev i := fun ev i h => by
    unfold IdxLive at h ⊢; rw [hg, ht]; exact h
  have hget : ∀ k h', w'.handlers.get k = some h' → ∃ h, w.handlers.get k = some h ∧ h.core = h'.core := by
    intro k h' hk
    have := hh k
    unfold World.hreg at this
    rw [hk] at this
    cases hk0 : w.handlers.get k with
    | none => rw [hk0] at this; cases this
    | some h => rw [hk0] at this; exact ⟨h, rfl, (Option.some.inj this).symm⟩
  refine ⟨hri, fun k info h => tw.dropG k info (hg ▸ h), fun k info h => tw.dropT k info (ht ▸ h), ?_, ?_, ?_⟩
  · intro hk h' hh' ev i hm
    obtain ⟨h, h1, h2⟩ := hget hk h' hh'
    have hs : h.sends = h'.sends := show h.core.sends = h'.core.sends from congrArg HInfo.sends h2
    have hG : h.sentG = h'.sentG := show h.core.sentG = h'.core.sentG from congrArg HInfo.sentG h2
    have hT : h.sentT = h'.sentT := show h.core.sentT = h'.core.sentT from congrArg HInfo.sentT h2
    obtain ⟨h3, h4⟩ := tw.sends hk h h1 ev i (hs ▸ hm)
    refine ⟨?_, hidx ev i h4⟩
    unfold SentIn at h3 ⊢
    rw [← hG, ← hT]; exact h3
  · intro hk h' hh'
    obtain ⟨h, h1, -⟩ := hget hk h' hh'
    rw [ho]; exact tw.listed hk h h1
  · rw [hg, ht]; exact hq

/-- a function that keeps the frame, the handler table up to caches, the registry invariant and every predicate on the
    ledger fields keeps `TW` -/
theorem tw_of {α : Type} {m : M α} (hfr : ∀ fr, Keeps (FR fr) m) (hhk : ∀ reg, Keeps (HK reg) m)
    (hri : Keeps (RegInv []) m) (hlp : ∀ P, Keeps (LP P) m) : Keeps TW m := by
  refine ⟨fun w tw => ?_⟩
  have h1 := (hfr w.frame).run w rfl
  have h2 := (hhk w.hreg).run w (hk_hreg w)
  have h3 := hri.run w tw.ri
  have h4 := (hlp fun q _ _ _ => ∀ x ∈ q, TOK w.gevs w.tevs x).run w tw.queue
  exact tw.transfer h3 (congrArg Frame.gevs h1) (congrArg Frame.tevs h1) h2 (congrArg Frame.byInsertOrder h1) h4

/-! ## the top-level invariant of conservation -/

/-- **`TW`, and every serial from `a` on is pending, destroyed, or in `Z`** -/
def TopQ (a : Nat) (Z : List Nat) (w : World) : Prop := TW w ∧ Cov a Z w

variable {a : Nat} {Z : List Nat}

theorem topq_of {α : Type} {m : M α} (hfr : ∀ fr, Keeps (FR fr) m) (hhk : ∀ reg, Keeps (HK reg) m)
    (hri : Keeps (RegInv []) m) (hlp : ∀ P, Keeps (LP P) m) : Keeps (TopQ a Z) m :=
  ⟨fun w hw => ⟨(tw_of hfr hhk hri hlp).run w hw.1, (hlp _).run w hw.2⟩⟩

/-- `by_insert_order` is not assigned by a flush -/
theorem flush_ord (o : List Key) (fuel : Nat) : Keeps (fun w => w.byInsertOrder = o) (flush fuel) :=
  flushWith_keeps (fun _ _ _ h => h)
    (fun it => ⟨fun w hw => (congrArg Frame.byInsertOrder (deliverOne_frame it w)).trans hw⟩)
    ⟨fun w hw => (congrArg Frame.byInsertOrder (dropQueued_frame w)).trans hw⟩ fuel

/-- **a flush conserves**, from the top-level invariant -/
theorem flush_tq (fuel : Nat) : KP (TopQ a Z) (flush fuel) := by
  refine ⟨fun w hw => ?_⟩
  have r1 := (flush_cov (a := a) (Z := Z) hw.1.sendsTOK fuel).run w ⟨hw.1.qt, hw.2⟩
  have r2 := (flush_ri (D := []) fuel).run w hw.1.ri
  have r3 := (flush_ord w.byInsertOrder fuel).run w rfl
  have key : ∀ w', FLQ a w.gevs w.tevs w.hreg Z w' → RegInv [] w' → w'.byInsertOrder = w.byInsertOrder →
      TopQ a Z w' := fun w' h1 h2 h3 =>
    ⟨hw.1.transfer h2 h1.1.1 h1.1.2.1 h1.1.2.2.1 h3 h1.1.2.2.2, h1.2⟩
  generalize (flush fuel).run.run w = r at r1 r2 r3
  obtain ⟨(e|u), w'⟩ := r
  · exact fun hp => key w' (r1 hp) r2 r3
  · exact key w' r1 r2 r3


/-! ## the primitive writes of the registration / removal functions -/

theorem idxLive_congr {w w' : World} {ev : EvTy} {i : Nat}
    (hg : ∀ p, w.gevs.getByIndex i = some p → w'.gevs.getByIndex i = some p)
    (ht : ∀ p, w.tevs.getByIndex i = some p → w'.tevs.getByIndex i = some p) (h : IdxLive w ev i) :
    IdxLive w' ev i := by
  unfold IdxLive at h ⊢
  split
  · next hta => rw [if_pos hta] at h; obtain ⟨k, info, h1, h2⟩ := h; exact ⟨k, info, ht _ h1, h2⟩
  · next hta => rw [if_neg hta] at h; obtain ⟨k, info, h1, h2⟩ := h; exact ⟨k, info, hg _ h1, h2⟩

theorem tok_congr {G T G' T' : SlotMap EvInfo} {x : QItem}
    (hg : ∀ p, G.getByIndex x.idx = some p → G'.getByIndex x.idx = some p)
    (ht : ∀ p, T.getByIndex x.idx = some p → T'.getByIndex x.idx = some p) (h : TOK G T x) : TOK G' T' x := by
  intro hu
  obtain ⟨info, hi, h2⟩ := h hu
  refine ⟨info, ?_, h2⟩
  unfold regInfo at hi ⊢
  split
  · next hta =>
    rw [if_pos hta] at hi
    cases hp : T.getByIndex x.idx with
    | none => rw [hp] at hi; cases hi
    | some p => rw [hp] at hi; rw [ht p hp]; exact hi
  · next hta =>
    rw [if_neg hta] at hi
    cases hp : G.getByIndex x.idx with
    | none => rw [hp] at hi; cases hi
    | some p => rw [hp] at hi; rw [hg p hp]; exact hi

/-- **a registry grows**: the other fields `TW` reads are unchanged -/
theorem TW.grow {w w' : World} (tw : TW w) (hri : RegInv [] w')
    (hg : ∀ i p, w.gevs.getByIndex i = some p → w'.gevs.getByIndex i = some p)
    (ht : ∀ i p, w.tevs.getByIndex i = some p → w'.tevs.getByIndex i = some p)
    (hdg : ∀ k info, w'.gevs.get k = some info → w.gevs.get k = some info ∨
      ∀ n, info.ty = .g n → info.needsDrop = true ∧ info.kind = .normal)
    (hdt : ∀ k info, w'.tevs.get k = some info → w.tevs.get k = some info ∨
      ∀ n, info.ty = .t n → info.needsDrop = true ∧ info.kind = .normal)
    (hh : w'.handlers = w.handlers) (ho : w'.byInsertOrder = w.byInsertOrder) (hq : w'.queue = w.queue) : TW w' := by
  refine ⟨hri, fun k info h => ?_, fun k info h => ?_, ?_, ?_, ?_⟩
  · rcases hdg k info h with h1 | h1
    · exact tw.dropG k info h1
    · exact h1
  · rcases hdt k info h with h1 | h1
    · exact tw.dropT k info h1
    · exact h1
  · intro hk h hh' ev i hm
    rw [hh] at hh'
    obtain ⟨h1, h2⟩ := tw.sends hk h hh' ev i hm
    exact ⟨h1, idxLive_congr (hg i) (ht i) h2⟩
  · intro hk h hh'
    rw [hh] at hh'
    rw [ho]; exact tw.listed hk h hh'
  · rw [hq]
    exact fun q hq' => tok_congr (hg q.idx) (ht q.idx) (tw.queue q hq')

theorem TW.insert_gevs {w : World} (tw : TW w) {f : Key → EvInfo} {k : Key} {gevs : SlotMap EvInfo}
    (hins : w.gevs.insertWith f = some (k, gevs))
    (hf : ∀ n, (f k).ty = .g n → (f k).needsDrop = true ∧ (f k).kind = .normal) (bg : List (HandlerList Key)) :
    TW { w with gevs := gevs, byGlobal := bg } := by
  refine tw.grow (RI.insert_gevs tw.ri hins) (fun i p h => ?_) (fun _ _ h => h) (fun k' info h => ?_)
    (fun _ _ h => .inl h) rfl rfl rfl
  · obtain ⟨k0, v⟩ := p
    exact InvV6.getByIndex_insert_mono tw.ri.wfg hins h
  · have : gevs.get k' = some info := h
    rw [SlotMap.get_insertWith tw.ri.wfg hins] at this
    split at this
    · cases this; exact .inr hf
    · exact .inl this

theorem TW.insert_tevs {w : World} (tw : TW w) {f : Key → EvInfo} {k : Key} {tevs : SlotMap EvInfo}
    (hins : w.tevs.insertWith f = some (k, tevs))
    (hf : ∀ n, (f k).ty = .t n → (f k).needsDrop = true ∧ (f k).kind = .normal) :
    TW { w with tevs := tevs } := by
  refine tw.grow (RI.insert_tevs tw.ri hins) (fun _ _ h => h) (fun i p h => ?_) (fun _ _ h => .inl h)
    (fun k' info h => ?_) rfl rfl rfl
  · obtain ⟨k0, v⟩ := p
    exact InvV6.getByIndex_insert_mono tw.ri.wft hins h
  · have : tevs.get k' = some info := h
    rw [SlotMap.get_insertWith tw.ri.wft hins] at this
    split at this
    · cases this; exact .inr hf
    · exact .inl this

/-- a write to `comps` (and to fields `TW` does not read) -/
theorem TW.comps {w w' : World} (tw : TW w) (hri : RegInv [] w') (hg : w'.gevs = w.gevs) (ht : w'.tevs = w.tevs)
    (hh : w'.handlers = w.handlers) (ho : w'.byInsertOrder = w.byInsertOrder) (hq : w'.queue = w.queue) : TW w' :=
  tw.transfer hri hg ht (fun k => by unfold World.hreg; rw [hh]) ho (by rw [hq]; exact tw.queue)


/-! ## the walk -/

syntax "tq_leaf" : tactic
macro_rules | `(tactic| tq_leaf) => `(tactic| fail "no leaf lemma")
syntax "tq_special" : tactic
macro_rules | `(tactic| tq_special) => `(tactic| fail "no special step")
/-- closes `TopQ a Z w'` for the world `w'` a `set` writes, from `h : TopQ a Z w` in the context -/
syntax "tq_fix" : tactic
macro_rules | `(tactic| tq_fix) => `(tactic| assumption)

syntax "tq_step" : tactic
macro_rules
  | `(tactic| tq_step) => `(tactic| first
      | ((with_reducible refine Hoare.pure ?_); exact fun _ h => h)
      | ((with_reducible refine Hoare.throw ?_); exact fun _ h _ => h)
      | ((with_reducible refine Hoare.ubErr ?_); exact fun _ h _ => h)
      | with_reducible tq_leaf
      | tq_special
      | ((with_reducible refine KP.of_keeps (Keeps.set ?_)); tq_fix)
      | (with_reducible refine Hoare.get_bind (fun _ _ => ?_))
      | (with_reducible refine Hoare.bind_inv ?_ (fun _ => ?_))
      | (with_reducible refine Hoare.forIn_list_inv (fun _ _ => ?_))
      | (with_reducible refine Hoare.forIn_range_inv (fun _ _ => ?_))
      | (with_reducible refine Hoare.ite ?_ ?_)
      | dsimp only
      | split)
macro "tq_walk" : tactic => `(tactic| repeat' tq_step)

section walk
variable {a : Nat} {Z : List Nat}

theorem TopQ.fields {w w' : World} (h : TopQ a Z w) (htw : TW w') (hq : w'.queue = w.queue)
    (he : w'.edrops = w.edrops) (hn : w'.nextESerial = w.nextESerial) : TopQ a Z w' := by
  refine ⟨htw, ?_⟩
  show Cover a w'.nextESerial (Z ++ (pend w'.queue ++ w'.edrops))
  rw [hq, he, hn]; exact h.2

macro_rules | `(tactic| tq_leaf) => `(tactic| exact flush_tq _)

/-- queueing an event of a built-in type -/
theorem push_tq0 (x : QItem) (hx : x.isUser = false) : KP (TopQ a Z) (push x) := by
  refine KP.of_keeps (Keeps.modify fun w h => ?_)
  refine ⟨⟨h.1.ri, h.1.dropG, h.1.dropT, h.1.sends, h.1.listed, fun q hq => ?_⟩, ?_⟩
  · rcases List.mem_append.1 hq with h1 | h1
    · exact h.1.queue q h1
    · cases List.mem_singleton.1 h1; exact TOK.of_not_user hx
  · show Cover a w.nextESerial (Z ++ (pend (w.queue ++ [x]) ++ w.edrops))
    rw [pend_append, pend_singleton, ledgerOf_not_user hx, List.append_nil]
    exact h.2
macro_rules | `(tactic| tq_special) => `(tactic| (with_reducible refine push_tq0 _ ?hx); (case hx => rfl))

theorem logT_tq (s : String) : KP (TopQ a Z) (logT s) :=
  KP.of_keeps (topq_of (fun _ => logT_fr _) (fun _ => logT_hk _) (logT_ri _) (fun _ => logT_lp _))
macro_rules | `(tactic| tq_leaf) => `(tactic| exact logT_tq _)

/-- the registry entries `addGlobalEvent` / `addTargetedEvent` write are disposable -/
macro "entry_ok" : tactic =>
  `(tactic| (intro n h; dsimp only at h; first | (cases h; done) | (cases h; exact ⟨rfl, rfl⟩) | (subst h; exact ⟨rfl, rfl⟩)))

theorem TopQ.insert_gevs {w : World} (h : TopQ a Z w) {f : Key → EvInfo} {k : Key} {gevs : SlotMap EvInfo}
    (hins : w.gevs.insertWith f = some (k, gevs))
    (hf : ∀ n, (f k).ty = .g n → (f k).needsDrop = true ∧ (f k).kind = .normal) (bg : List (HandlerList Key)) :
    TopQ a Z { w with gevs := gevs, byGlobal := bg } :=
  h.fields (h.1.insert_gevs hins hf bg) rfl rfl rfl

theorem TopQ.insert_tevs {w : World} (h : TopQ a Z w) {f : Key → EvInfo} {k : Key} {tevs : SlotMap EvInfo}
    (hins : w.tevs.insertWith f = some (k, tevs))
    (hf : ∀ n, (f k).ty = .t n → (f k).needsDrop = true ∧ (f k).kind = .normal) :
    TopQ a Z { w with tevs := tevs } :=
  h.fields (h.1.insert_tevs hins hf) rfl rfl rfl

macro_rules | `(tactic| tq_fix) => `(tactic| first
  | assumption
  | exact TopQ.insert_gevs ‹_› ‹_› (by entry_ok) _
  | exact TopQ.insert_tevs ‹_› ‹_› (by entry_ok))

theorem ensureAddG_tq : KP (TopQ a Z) ensureAddG := by unfold ensureAddG; tq_walk
macro_rules | `(tactic| tq_leaf) => `(tactic| exact ensureAddG_tq)
theorem addGlobalEvent_tq (ty : EvTy) : KP (TopQ a Z) (addGlobalEvent ty) := by unfold addGlobalEvent; tq_walk
macro_rules | `(tactic| tq_leaf) => `(tactic| exact addGlobalEvent_tq _)


/-- an event value in hand, disposable, is queued -/
theorem push_tq (x : QItem) {Y : List Nat} (hY : ledgerOf x = Y) :
    Hoare (fun w => TopQ a (Y ++ Z) w ∧ TOK w.gevs w.tevs x) (push x) (fun _ => TopQ a Z) (PanicOnly (TopQ a Z)) := by
  subst hY
  refine ⟨fun w hw => ?_⟩
  obtain ⟨h, hx⟩ := hw
  show TopQ a Z { w with queue := w.queue ++ [x] }
  refine ⟨⟨h.1.ri, h.1.dropG, h.1.dropT, h.1.sends, h.1.listed, fun q hq => ?_⟩, ?_⟩
  · rcases List.mem_append.1 hq with h1 | h1
    · exact h.1.queue q h1
    · cases List.mem_singleton.1 h1; exact hx
  · show Cover a w.nextESerial (Z ++ (pend (w.queue ++ [x]) ++ w.edrops))
    refine (cover_accounting a).perm h.2 ?_
    rw [pend_append, pend_singleton]
    perm_app

theorem TopQ.dropEventW {x : QItem} {Y : List Nat} {w : World} (h : TopQ a (ledgerOf x ++ Y) w) :
    TopQ a Y (dropEventW x w) := by
  refine ⟨?_, dropEventW_cov h.2⟩
  have h1 := (dropEvent_fr (fr := w.frame) x).run w rfl
  have h2 := (dropEvent_hk (reg := w.hreg) x).run w (hk_hreg w)
  have h3 := (dropEvent_ri (D := []) x).run w h.1.ri
  rw [run_dropEvent] at h1 h2 h3
  exact h.1.transfer h3 (congrArg Frame.gevs h1) (congrArg Frame.tevs h1) h2 (congrArg Frame.byInsertOrder h1)
    (by rw [dropEventW_queue']; exact h.1.queue)

/-- the unwinding handlers of `sendGlobal` / `sendTargeted`: the value in hand is dropped, the panic rethrown -/
theorem dropRethrow_tq (x : QItem) {Y : List Nat} (hY : ledgerOf x = Y) (e : Err) (Q : Key → World → Prop) :
    Hoare (PanicOnly (TopQ a (Y ++ Z)) e) (do dropEvent x; throw e : M Key) Q (PanicOnly (TopQ a Z)) := by
  subst hY
  refine ⟨fun w hw => ?_⟩
  simp only [run_bind, run_dropEvent, run_throw]
  exact fun hp => (hw hp).dropEventW

theorem TW.tok_global {w : World} (tw : TW w) {ty : EvTy} (ht : ty.targeted = false) {k : Key}
    (hl : ∃ ei, w.gevs.get k = some ei ∧ ei.ty = ty) (tg : Key) (pay : Payload) :
    TOK w.gevs w.tevs { ty, idx := k.idx, target := tg, pay } := by
  refine tw.tok fun _ => ?_
  obtain ⟨ei, h1, h2⟩ := hl
  show IdxLive w ty k.idx
  unfold IdxLive
  rw [if_neg (by simp [ht])]
  exact ⟨k, ei, SlotMap.get_getByIndex tw.ri.wfg h1, h2⟩

theorem TW.tok_targeted {w : World} (tw : TW w) {ty : EvTy} (ht : ty.targeted = true) {k : Key}
    (hl : ∃ ei, w.tevs.get k = some ei ∧ ei.ty = ty) (tg : Key) (pay : Payload) :
    TOK w.gevs w.tevs { ty, idx := k.idx, target := tg, pay } := by
  refine tw.tok fun _ => ?_
  obtain ⟨ei, h1, h2⟩ := hl
  show IdxLive w ty k.idx
  unfold IdxLive
  rw [if_pos ht]
  exact ⟨k, ei, SlotMap.get_getByIndex tw.ri.wft h1, h2⟩

/-- **`World::send`** with the event value in hand -/
theorem sendGlobal_tq (ty : EvTy) (ht : ty.targeted = false) (pay : Payload) {Y : List Nat}
    (hY : ledgerOf { ty, idx := 0, pay } = Y) :
    Hoare (TopQ a (Y ++ Z)) (sendGlobal ty pay) (fun _ => TopQ a Z) (PanicOnly (TopQ a Z)) := by
  unfold sendGlobal
  have hadd : Hoare (TopQ a (Y ++ Z)) (addGlobalEvent ty)
      (fun k w => TopQ a (Y ++ Z) w ∧ TOK w.gevs w.tevs { ty, idx := k.idx, pay }) (PanicOnly (TopQ a (Y ++ Z))) := by
    refine Hoare.post (Hoare.and (addGlobalEvent_tq ty)
      (Hoare.of_hoareOk (HoareOk.pre (InvV3.addGlobalEvent_live ty) fun _ h => h.1.ri))) ?_ (fun _ _ h => h.1)
    exact fun k w h => ⟨h.1, h.1.1.tok_global ht h.2 _ pay⟩
  refine Hoare.bind (Hoare.tryCatch hadd fun e => dropRethrow_tq _ hY e _) fun k => ?_
  exact Hoare.bind (push_tq _ (by exact hY)) fun _ => flush_tq _

/-- `World::send` of an event of a built-in type -/
theorem sendGlobal_tq0 (ty : EvTy) (ht : ty.targeted = false) (pay : Payload)
    (hY : ledgerOf { ty, idx := 0, pay } = []) : KP (TopQ a Z) (sendGlobal ty pay) := sendGlobal_tq ty ht pay hY
macro_rules
  | `(tactic| tq_special) => `(tactic| (with_reducible refine sendGlobal_tq0 _ ?ht _ ?hY); (case ht => rfl); (case hY => rfl))


theorem TopQ.comps_write {w : World} (h : TopQ a Z w) {c : SlotMap CompInfo}
    (hri : RI [] c w.gevs w.tevs w.handlers w.removedIds) : TopQ a Z { w with comps := c } :=
  h.fields (h.1.comps hri rfl rfl rfl rfl rfl) rfl rfl rfl

theorem TopQ.insert_comps {w : World} (h : TopQ a Z w) {f : Key → CompInfo} {k : Key} {c : SlotMap CompInfo}
    (hins : w.comps.insertWith f = some (k, c)) : TopQ a Z { w with comps := c } :=
  h.comps_write (RI.insert_comps h.1.ri hins)

theorem TopQ.set_comps_byIndex {w : World} (h : TopQ a Z w) {i : Nat} {k : Key} {v0 : CompInfo}
    (hg : w.comps.getByIndex i = some (k, v0)) (v : CompInfo) : TopQ a Z { w with comps := w.comps.set k v } :=
  h.comps_write (RI.set_comps_byIndex h.1.ri hg v)

macro_rules | `(tactic| tq_fix) => `(tactic| first
  | exact TopQ.insert_comps ‹_› ‹_›
  | exact TopQ.set_comps_byIndex ‹_› ‹_› _)

theorem addComponent_tq (ty : Nat) : KP (TopQ a Z) (addComponent ty) := by unfold addComponent; tq_walk
macro_rules | `(tactic| tq_leaf) => `(tactic| exact addComponent_tq _)

theorem addTargetedEvent_tq (ty : EvTy) : KP (TopQ a Z) (addTargetedEvent ty) := by
  unfold addTargetedEvent
  cases ty <;> simp only [pure_bind, bind_assoc] <;> tq_walk
macro_rules | `(tactic| tq_leaf) => `(tactic| exact addTargetedEvent_tq _)


theorem addEvent_tq (ty : EvTy) : KP (TopQ a Z) (addEvent ty) := by unfold addEvent; tq_walk
macro_rules | `(tactic| tq_leaf) => `(tactic| exact addEvent_tq _)

/-- **`World::send_to`** with the event value in hand -/
theorem sendTargeted_tq (ty : EvTy) (ht : ty.targeted = true) (tg : Key) (pay : Payload) {Y : List Nat}
    (hY : ledgerOf { ty, idx := 0, pay } = Y) :
    Hoare (TopQ a (Y ++ Z)) (sendTargeted ty tg pay) (fun _ => TopQ a Z) (PanicOnly (TopQ a Z)) := by
  unfold sendTargeted
  have hadd : Hoare (TopQ a (Y ++ Z)) (addTargetedEvent ty)
      (fun k w => TopQ a (Y ++ Z) w ∧ TOK w.gevs w.tevs { ty, idx := k.idx, target := tg, pay })
      (PanicOnly (TopQ a (Y ++ Z))) := by
    refine Hoare.post (Hoare.and (addTargetedEvent_tq ty)
      (Hoare.of_hoareOk (HoareOk.pre (InvV3.addTargetedEvent_live ty) fun _ h => h.1.ri))) ?_ (fun _ _ h => h.1)
    exact fun k w h => ⟨h.1, h.1.1.tok_targeted ht h.2 tg pay⟩
  refine Hoare.bind (Hoare.tryCatch hadd fun e => dropRethrow_tq _ hY e _) fun k => ?_
  exact Hoare.bind (push_tq _ (by exact hY)) fun _ => flush_tq _

theorem sendTargeted_tq0 (ty : EvTy) (ht : ty.targeted = true) (tg : Key) (pay : Payload)
    (hY : ledgerOf { ty, idx := 0, pay } = []) : KP (TopQ a Z) (sendTargeted ty tg pay) :=
  sendTargeted_tq ty ht tg pay hY
macro_rules
  | `(tactic| tq_special) =>
    `(tactic| (with_reducible refine sendTargeted_tq0 _ ?ht _ _ ?hY); (case ht => rfl); (case hY => rfl))

theorem initQuery_tq (q : Query) (cfg : Config) : KP (TopQ a Z) (initQuery q cfg) := by unfold initQuery; tq_walk
macro_rules | `(tactic| tq_leaf) => `(tactic| exact initQuery_tq _ _)
theorem initParam_tq (ps : PSpec) (cfg : Config) : KP (TopQ a Z) (initParam ps cfg) := by unfold initParam; tq_walk
macro_rules | `(tactic| tq_leaf) => `(tactic| exact initParam_tq _ _)


/-! ### `add_handler` -/

theorem TopQ.insert_handler {w : World} (h : TopQ a Z w) {mk : Key → HInfo} {k : Key} {handlers : SlotMap HInfo}
    (hins : w.handlers.insertWith mk = some (k, handlers))
    (hmk : ∀ ev i, (ev, i) ∈ (mk k).sends → SentIn (mk k) ev i ∧ IdxLive w ev i)
    (bg : List (HandlerList Key)) (ic : Nat) :
    TopQ a Z { w with handlers := handlers, byGlobal := bg, insertCounter := ic,
                      byInsertOrder := w.byInsertOrder ++ [k] } := by
  refine h.fields ⟨RI.insert_handlers h.1.ri hins, h.1.dropG, h.1.dropT, ?_, ?_, h.1.queue⟩ rfl rfl rfl
  · intro hk h' hh' ev i hm
    have hg : handlers.get hk = some h' := hh'
    rw [SlotMap.get_insertWith h.1.ri.wfh hins] at hg
    split at hg
    · cases hg
      obtain ⟨h1, h2⟩ := hmk ev i hm
      exact ⟨h1, idxLive_congr (fun _ x => x) (fun _ x => x) h2⟩
    · obtain ⟨h1, h2⟩ := h.1.sends hk h' hg ev i hm
      exact ⟨h1, idxLive_congr (fun _ x => x) (fun _ x => x) h2⟩
  · intro hk h' hh'
    have hg : handlers.get hk = some h' := hh'
    rw [SlotMap.get_insertWith h.1.ri.wfh hins] at hg
    show hk ∈ w.byInsertOrder ++ [k]
    split at hg
    · next he => rw [he]; simp
    · exact List.mem_append_left _ (h.1.listed hk h' hg)

open InvV3 (ConfigRefs) in
/-- what `ConfigRefs` says about the event set a new handler is registered with -/
theorem sends_of_configRefs {w : World} {cfg : Config} (hc : ConfigRefs w cfg) {h : HInfo}
    (hs : h.sends = cfg.sends) (hG : h.sentG = cfg.sentG) (hT : h.sentT = cfg.sentT) :
    ∀ ev i, (ev, i) ∈ h.sends → SentIn h ev i ∧ IdxLive w ev i := by
  intro ev i hm
  rw [hs] at hm
  unfold SentIn
  cases ht : ev.targeted
  · obtain ⟨h1, h2⟩ := hc.sendsG ev i hm ht
    exact ⟨by simpa [hG] using h1, h2⟩
  · obtain ⟨h1, h2⟩ := hc.sendsT ev i hm ht
    exact ⟨by simpa [hT] using h1, h2⟩

open InvV3 (ConfigRefs) in
/-- one parameter: the top-level invariant, and the event set resolved so far stays resolved -/
theorem initParam_tq_refs (ps : PSpec) (cfg : Config) :
    Hoare (fun w => TopQ a Z w ∧ ConfigRefs w cfg) (initParam ps cfg)
      (fun r w => TopQ a Z w ∧ ConfigRefs w r.2) (PanicOnly (TopQ a Z)) := by
  refine ⟨fun w hw => ?_⟩
  have r1 := (initParam_tq (a := a) (Z := Z) ps cfg).run w hw.1
  generalize hr : (initParam ps cfg).run.run w = r at r1
  obtain ⟨(e|⟨p, cfg'⟩), w'⟩ := r
  · exact r1
  · exact ⟨r1, InvV3.initParam_refs hw.1.1.ri hw.2 hr⟩

open InvV3 (ConfigRefs) in
theorem configRefs_nil (w : World) : ConfigRefs w {} :=
  ⟨(fun _ h => nomatch h), (fun _ _ h => nomatch h), (fun _ h => nomatch h), (fun _ h => nomatch h),
   (fun _ _ h => nomatch h), (fun _ _ h => nomatch h)⟩


theorem registerHandler_tq (ar : Arch) (h : HInfo) : KP (TopQ a Z) (ar.registerHandler h) :=
  KP.of_keeps (topq_of (fun _ => registerHandler_fr _ _) (fun _ => registerHandler_hk _ _) (registerHandler_ri _ _)
    (fun _ => registerHandler_lp _ _))
macro_rules | `(tactic| tq_leaf) => `(tactic| exact registerHandler_tq _ _)
theorem getArch_tq (i : Nat) (s : String) : KP (TopQ a Z) (getArch i s) :=
  KP.of_keeps (topq_of (fun _ => getArch_fr _ _) (fun _ => getArch_hk _ _) (getArch_ri _ _) (fun _ => getArch_lp _ _))
macro_rules | `(tactic| tq_leaf) => `(tactic| exact getArch_tq _ _)
theorem setArch_tq (ar : Arch) : KP (TopQ a Z) (setArch ar) :=
  KP.of_keeps (topq_of (fun _ => setArch_fr _) (fun _ => setArch_hk _) (setArch_ri _) (fun _ => setArch_lp _))
macro_rules | `(tactic| tq_leaf) => `(tactic| exact setArch_tq _)
theorem dbgAssert_tq (c : Bool) (s : String) : KP (TopQ a Z) (dbgAssert c s) :=
  KP.of_keeps (topq_of (fun _ => dbgAssert_fr _ _) (fun _ => dbgAssert_hk _ _) (dbgAssert_ri _ _) (fun _ => dbgAssert_lp _ _))
macro_rules | `(tactic| tq_leaf) => `(tactic| exact dbgAssert_tq _ _)

macro_rules | `(tactic| tq_fix) => `(tactic|
  exact TopQ.insert_handler ‹_› ‹_› (sends_of_configRefs ‹_› rfl rfl rfl) _ _)

open InvV3 (ConfigRefs) in
/-- the body of `add_handler` after the duplicate check -/
macro "addh_body" a:term:max Z:term:max : tactic => `(tactic| (
  refine Hoare.bind (R := fun (s : Config × List Param) w => TopQ $a $Z w ∧ ConfigRefs w s.1) ?_ (fun s => ?_)
  · refine Hoare.pre (Hoare.forIn_list (fun (s : Config × List Param) w => TopQ $a $Z w ∧ ConfigRefs w s.1) ?_)
      (fun w h => ⟨h, configRefs_nil w⟩)
    rintro ps ⟨cfg, params⟩
    dsimp only
    refine Hoare.bind (initParam_tq_refs ps cfg) fun r => ?_
    obtain ⟨p, cfg'⟩ := r
    exact Hoare.pure fun _ h => h
  · obtain ⟨cfg, params⟩ := s
    dsimp only
    repeat' first
      | ((with_reducible refine Hoare.pure ?_); exact fun _ h => h.1)
      | (with_reducible refine Hoare.ite ?_ ?_)
      | split
    all_goals
      refine Hoare.get_bind fun w hw => ?_
      obtain ⟨hw1, hw2⟩ := hw
      refine Hoare.pre (P' := TopQ $a $Z) ?_ (fun _ h => h.1)
      tq_walk))

theorem addHandler_tq (hs : HSpec) : KP (TopQ a Z) (addHandler hs) := by
  unfold addHandler
  dsimp only
  split
  · refine Hoare.get_bind fun w hw => ?_
    split
    · exact Hoare.pure fun _ h => h
    · addh_body a Z
  · addh_body a Z
macro_rules | `(tactic| tq_leaf) => `(tactic| exact addHandler_tq _)


/-! ### `remove_handler` -/

theorem TopQ.remove_handler {w : World} (h : TopQ a Z w) {k : Key} {v : HInfo} {handlers : SlotMap HInfo}
    (hrem : w.handlers.remove k = some (v, handlers)) (bg : List (HandlerList Key)) :
    TopQ a Z { w with handlers := handlers, byGlobal := bg, byInsertOrder := w.byInsertOrder.filter (· != k),
                      removedIds := ('h', k) :: w.removedIds } := by
  refine h.fields ⟨RI.remove_handlers h.1.ri hrem, h.1.dropG, h.1.dropT, ?_, ?_, h.1.queue⟩ rfl rfl rfl
  · intro hk h' hh' ev i hm
    obtain ⟨-, hg⟩ := InvV6.get_of_get_remove h.1.ri.wfh hrem (show handlers.get hk = some h' from hh')
    obtain ⟨h1, h2⟩ := h.1.sends hk h' hg ev i hm
    exact ⟨h1, idxLive_congr (fun _ x => x) (fun _ x => x) h2⟩
  · intro hk h' hh'
    obtain ⟨hne, hg⟩ := InvV6.get_of_get_remove h.1.ri.wfh hrem (show handlers.get hk = some h' from hh')
    show hk ∈ w.byInsertOrder.filter (· != k)
    exact List.mem_filter.2 ⟨h.1.listed hk h' hg, by simpa using hne⟩

macro_rules | `(tactic| tq_fix) => `(tactic| exact TopQ.remove_handler ‹_› ‹_› _)

theorem removeHandler_tq (k : Key) : KP (TopQ a Z) (removeHandler k) := by unfold removeHandler; tq_walk
macro_rules | `(tactic| tq_leaf) => `(tactic| exact removeHandler_tq _)

/-- the registered handlers that list the event index `i` in the sent-events set `sel` are all in `R` -/
def Users (sel : HInfo → List Nat) (i : Nat) (R : List Key) (w : World) : Prop :=
  ∀ hk h, w.handlers.get hk = some h → i ∈ sel h → hk ∈ R

/-- `hk` is not registered -/
def DeadH (k : Key) (w : World) : Prop := w.handlers.get k = none

theorem hreg_get {w w' : World} (h : ∀ k, w'.hreg k = w.hreg k) {hk : Key} {h' : HInfo}
    (hg : w'.handlers.get hk = some h') : ∃ h0, w.handlers.get hk = some h0 ∧ h0.core = h'.core := by
  have := h hk
  unfold World.hreg at this
  rw [hg] at this
  cases hk0 : w.handlers.get hk with
  | none => rw [hk0] at this; cases this
  | some h0 => rw [hk0] at this; exact ⟨h0, rfl, (Option.some.inj this).symm⟩

theorem users_of_hk {α : Type} {m : M α} {sel : HInfo → List Nat} (hsel : ∀ h, sel h.core = sel h) {i : Nat}
    {R : List Key} (hm : ∀ reg, Keeps (HK reg) m) : Keeps (Users sel i R) m := by
  refine ⟨fun w hw hk h' hg hi => ?_⟩
  obtain ⟨h0, h1, h2⟩ := hreg_get ((hm w.hreg).run w (hk_hreg w)) hg
  refine hw hk h0 h1 ?_
  rw [← hsel h0, h2, hsel h']; exact hi

theorem dead_of_hk {α : Type} {m : M α} {k : Key} (hm : ∀ reg, Keeps (HK reg) m) : Keeps (DeadH k) m := by
  refine ⟨fun w hw => ?_⟩
  have := (hm w.hreg).run w (hk_hreg w) k
  unfold World.hreg at this
  unfold DeadH at hw ⊢
  rw [hw] at this
  cases hg : (m.run.run w).2.handlers.get k with
  | none => rfl
  | some x => rw [hg] at this; cases this

theorem Users.remove {sel : HInfo → List Nat} {i : Nat} {R : List Key} {w : World} (hw : Users sel i R w) {k : Key}
    {v : HInfo} {handlers : SlotMap HInfo} (hrem : w.handlers.remove k = some (v, handlers))
    (bg : List (HandlerList Key)) (ord : List Key) (rid : List (Char × Key)) :
    Users sel i R { w with handlers := handlers, byGlobal := bg, byInsertOrder := ord, removedIds := rid } := by
  intro hk h' hg hi
  have hg' : handlers.get hk = some h' := hg
  rw [InvV6.get_remove_nowf hrem] at hg'
  split at hg'
  · cases hg'
  · exact hw hk h' hg' hi

theorem removeHandler_users {sel : HInfo → List Nat} (hsel : ∀ h, sel h.core = sel h) (i : Nat) (R : List Key)
    (k : Key) : Keeps (Users sel i R) (removeHandler k) := by
  unfold removeHandler
  repeat' first
    | with_reducible exact users_of_hk hsel (fun _ => sendGlobal_hk _ _)
    | with_reducible exact users_of_hk hsel (fun _ => setArch_hk _)
    | with_reducible exact users_of_hk hsel (fun _ => dbgAssert_hk _ _)
    | led_step
  -- the write that removes the handler
  all_goals exact Keeps.set (Users.remove ‹_› ‹_› _ _ _)


/-- **`remove_handler` removes**: on normal return the handler is not registered -/
theorem removeHandler_dead (k : Key) {w w' : World} {b : Bool} (hr : (removeHandler k).run.run w = (.ok b, w')) :
    DeadH k w' := by
  unfold removeHandler at hr
  rw [run_bind, run_get] at hr
  dsimp only at hr
  split at hr
  · next hc =>
    cases hr
    unfold DeadH
    cases hg : w.handlers.get k with
    | none => rfl
    | some x => simp [SlotMap.contains, hg] at hc
  · obtain ⟨_, w1, _, h2⟩ := run_bind_ok hr
    rw [run_bind, run_get] at h2
    dsimp only at h2
    split at h2
    · cases h2
    · next h handlers hrem =>
      obtain ⟨_, w2, h3, h4⟩ := run_bind_ok h2
      cases h3
      have key : ∀ {m : M Bool} {w2 : World}, Keeps (DeadH k) m → m.run.run w2 = (.ok b, w') → DeadH k w2 →
          DeadH k w' := fun hk hr hd => by have := hk.run _ hd; rw [hr] at this; exact this
      refine key ?_ h4 ?_
      · repeat' first
          | with_reducible exact dead_of_hk (fun _ => setArch_hk _)
          | with_reducible exact dead_of_hk (fun _ => dbgAssert_hk _ _)
          | led_step
      · show handlers.get k = none
        rw [InvV6.get_remove_nowf hrem, if_pos rfl]


/-! ### `remove_event`: the handlers that send the event are removed first (C14), then the registry entry -/

/-- the top-level invariant with an empty queue (the state between the steps of `remove_event`) -/
def TopN (a : Nat) (Z : List Nat) (w : World) : Prop := TopQ a Z w ∧ w.queue = []

theorem Hoare.get_bind_eq' {β : Type} {P : World → Prop} {f : World → M β} {Q : β → World → Prop}
    {E : Err → World → Prop} (hf : ∀ w, P w → Hoare (fun w' => w' = w) (f w) Q E) :
    Hoare P (MonadState.get >>= f) Q E := by
  refine ⟨fun w hw => ?_⟩
  rw [run_bind, run_get]
  exact (hf w hw).run w rfl

/-- a function that keeps the top-level invariant and the queue discipline keeps both -/
theorem topN_of {α : Type} {m : M α} (h1 : KP (TopQ a Z) m) (h2 : InvV7.QE m) :
    Hoare (TopN a Z) m (fun _ => TopN a Z) (PanicOnly (TopQ a Z)) := by
  refine ⟨fun w hw => ?_⟩
  have r1 := h1.run w hw.1
  have r2 := h2.run w hw.2
  generalize m.run.run w = r at r1 r2
  obtain ⟨(e|x), w'⟩ := r
  · exact r1
  · exact ⟨r1, r2⟩

/-- the removal loop: afterwards no registered handler lists the index -/
theorem removeLoop_tq {sel : HInfo → List Nat} (hsel : ∀ h, sel h.core = sel h) (i : Nat) (R : List Key) :
    Hoare (fun w => TopN a Z w ∧ Users sel i R w)
      (forIn R PUnit.unit fun hk _ => do
        let _ ← removeHandler hk
        pure (ForInStep.yield PUnit.unit))
      (fun _ w => TopN a Z w ∧ Users sel i [] w) (PanicOnly (TopQ a Z)) := by
  induction R with
  | nil => exact Hoare.pure fun _ h => h
  | cons hk R ih =>
    rw [List.forIn_cons]
    refine Hoare.bind (R := fun r w => r = ForInStep.yield PUnit.unit ∧ TopN a Z w ∧ Users sel i R w) ?_ fun r => ?_
    · refine Hoare.bind (R := fun _ w => TopN a Z w ∧ Users sel i R w) ?_ fun _ => Hoare.pure fun _ h => ⟨rfl, h⟩
      refine ⟨fun w hw => ?_⟩
      have r1 := (topN_of (removeHandler_tq (a := a) (Z := Z) hk) (InvV7.removeHandler_qe hk)).run w hw.1
      have r2 := (removeHandler_users hsel i (hk :: R) hk).run w hw.2
      generalize hr : (removeHandler hk).run.run w = r at r1 r2
      obtain ⟨(e|b), w'⟩ := r
      · exact r1
      · refine ⟨r1, fun hk' h' hg hi => ?_⟩
        rcases List.mem_cons.1 (r2 hk' h' hg hi) with rfl | hm
        · have hd := removeHandler_dead hk' hr
          unfold DeadH at hd
          rw [hd] at hg; cases hg
        · exact hm
    · refine Hoare.pre (P' := fun w => (r = ForInStep.yield PUnit.unit) ∧ TopN a Z w ∧ Users sel i R w) ?_
        (fun _ h => h)
      refine Hoare.pre (P' := fun w => (TopN a Z w ∧ Users sel i R w) ∧ r = ForInStep.yield PUnit.unit) ?_
        (fun _ h => ⟨h.2, h.1⟩)
      refine Hoare.pre_prop fun hr => ?_
      subst hr
      exact ih


theorem TopQ.remove_tevs {w : World} {k : Key} (h : TopN a Z w) (hu : Users HInfo.sentT k.idx [] w) {v : EvInfo}
    {tevs : SlotMap EvInfo} (hrem : w.tevs.remove k = some (v, tevs)) :
    TopQ a Z { w with tevs := tevs, removedIds := ('t', k) :: w.removedIds } := by
  obtain ⟨h, hq⟩ := h
  refine h.fields ⟨RI.remove_tevs h.1.ri hrem, h.1.dropG, fun k' info hg => ?_, ?_, h.1.listed, ?_⟩ rfl rfl rfl
  · exact h.1.dropT k' info (InvV6.get_of_get_remove h.1.ri.wft hrem (show tevs.get k' = some info from hg)).2
  · intro hk h' hh' ev i hm
    obtain ⟨h1, h2⟩ := h.1.sends hk h' hh' ev i hm
    refine ⟨h1, ?_⟩
    unfold IdxLive at h2 ⊢
    split
    · next ht =>
      rw [if_pos ht] at h2
      have hne : i ≠ k.idx := by
        rintro rfl
        unfold SentIn at h1
        rw [if_pos ht] at h1
        exact nomatch hu hk h' hh' h1
      show ∃ k' info, tevs.getByIndex i = some (k', info) ∧ info.ty = ev
      rw [InvV6.getByIndex_remove_ne h.1.ri.wft hrem hne]
      exact h2
    · next ht => rw [if_neg ht] at h2; exact h2
  · show ∀ q ∈ w.queue, _
    rw [hq]; exact fun _ hx => nomatch hx

theorem TopQ.remove_gevs {w : World} {k : Key} (h : TopN a Z w) (hu : Users HInfo.sentG k.idx [] w) {v : EvInfo}
    {gevs : SlotMap EvInfo} (hrem : w.gevs.remove k = some (v, gevs)) :
    TopQ a Z { w with gevs := gevs, removedIds := ('g', k) :: w.removedIds } := by
  obtain ⟨h, hq⟩ := h
  refine h.fields ⟨RI.remove_gevs h.1.ri hrem, fun k' info hg => ?_, h.1.dropT, ?_, h.1.listed, ?_⟩ rfl rfl rfl
  · exact h.1.dropG k' info (InvV6.get_of_get_remove h.1.ri.wfg hrem (show gevs.get k' = some info from hg)).2
  · intro hk h' hh' ev i hm
    obtain ⟨h1, h2⟩ := h.1.sends hk h' hh' ev i hm
    refine ⟨h1, ?_⟩
    unfold IdxLive at h2 ⊢
    split
    · next ht => rw [if_pos ht] at h2; exact h2
    · next ht =>
      rw [if_neg ht] at h2
      have hne : i ≠ k.idx := by
        rintro rfl
        unfold SentIn at h1
        rw [if_neg ht] at h1
        exact nomatch hu hk h' hh' h1
      show ∃ k' info, gevs.getByIndex i = some (k', info) ∧ info.ty = ev
      rw [InvV6.getByIndex_remove_ne h.1.ri.wfg hrem hne]
      exact h2
  · show ∀ q ∈ w.queue, _
    rw [hq]; exact fun _ hx => nomatch hx

/-- the handlers `remove_event` removes first include every registered handler that lists the index -/
theorem users_init {w : World} (tw : TW w) (sel : HInfo → List Nat) (i : Nat) (p : HInfo → Bool)
    (hp : ∀ h, i ∈ sel h → p h = true) :
    Users sel i (w.byInsertOrder.filter fun hk => match w.handlers.get hk with | some h => p h | none => false) w := by
  intro hk h hg hi
  refine List.mem_filter.2 ⟨tw.listed hk h hg, ?_⟩
  rw [hg]
  exact hp h hi

theorem assertQueueEmpty_tq : Hoare (TopQ a Z) assertQueueEmpty (fun _ => TopN a Z) (PanicOnly (TopQ a Z)) := by
  unfold assertQueueEmpty
  refine Hoare.get_bind_eq' fun w hw => ?_
  split
  · exact Hoare.throw fun _ h _ => h ▸ hw
  · next hc =>
    refine Hoare.pure fun w' h => ?_
    subst h
    refine ⟨hw, ?_⟩
    cases hq : w'.queue with
    | nil => rfl
    | cons x l => simp [hq] at hc

theorem removeEvent_tq (ty : EvTy) (k : Key) : KP (TopQ a Z) (removeEvent ty k) := by
  unfold removeEvent
  refine Hoare.bind assertQueueEmpty_tq fun _ => ?_
  refine Hoare.get_bind fun w hw => ?_
  split
  · -- targeted
    split
    · exact Hoare.pure fun _ h => h.1
    · refine Hoare.bind (topN_of (sendGlobal_tq0 _ rfl _ rfl) (InvV7.sendGlobal_qe _ _)) fun _ => ?_
      refine Hoare.get_bind_eq' fun w2 hw2 => ?_
      dsimp only
      refine Hoare.bind (R := fun _ w => TopN a Z w ∧ Users HInfo.sentT k.idx [] w) ?_ fun _ => ?_
      · refine Hoare.pre (removeLoop_tq (fun _ => rfl) k.idx _) fun w' h' => ?_
        subst h'
        exact ⟨hw2, users_init hw2.1.1 HInfo.sentT k.idx _ fun h hi => by simp [hi]⟩
      · refine Hoare.get_bind fun w3 hw3 => ?_
        split
        · exact Hoare.throw fun _ h _ => h.1.1
        · refine Hoare.bind (R := fun _ => TopQ a Z) (Hoare.set_ok (TopQ.remove_tevs hw3.1 hw3.2 ‹_›)) fun _ => ?_
          tq_walk
  · -- global
    split
    · exact Hoare.pure fun _ h => h.1
    · refine Hoare.bind (topN_of (sendGlobal_tq0 _ rfl _ rfl) (InvV7.sendGlobal_qe _ _)) fun _ => ?_
      refine Hoare.get_bind_eq' fun w2 hw2 => ?_
      dsimp only
      refine Hoare.bind (R := fun _ w => TopN a Z w ∧ Users HInfo.sentG k.idx [] w) ?_ fun _ => ?_
      · refine Hoare.pre (removeLoop_tq (fun _ => rfl) k.idx _) fun w' h' => ?_
        subst h'
        exact ⟨hw2, users_init hw2.1.1 HInfo.sentG k.idx _ fun h hi => by simp [hi]⟩
      · refine Hoare.get_bind fun w3 hw3 => ?_
        split
        · exact Hoare.throw fun _ h _ => h.1.1
        · exact Hoare.bind (R := fun _ => TopQ a Z) (Hoare.set_ok (TopQ.remove_gevs hw3.1 hw3.2 ‹_›)) fun _ =>
            Hoare.pure fun _ h => h
macro_rules | `(tactic| tq_leaf) => `(tactic| exact removeEvent_tq _ _)


/-! ### the remaining operations -/

/-- `TopQ` only reads the registries, `by_insert_order`, `removedIds`, the queue, the ledger and the serial counter -/
theorem TopQ.of_fields {w w' : World} (h : TopQ a Z w) (hc : w'.comps = w.comps) (hg : w'.gevs = w.gevs)
    (ht : w'.tevs = w.tevs) (hh : w'.handlers = w.handlers) (ho : w'.byInsertOrder = w.byInsertOrder)
    (hr : w'.removedIds = w.removedIds) (hq : w'.queue = w.queue) (he : w'.edrops = w.edrops)
    (hn : w'.nextESerial = w.nextESerial) : TopQ a Z w' := by
  refine h.fields (h.1.comps ?_ hg ht hh ho hq) hq he hn
  show RI [] w'.comps w'.gevs w'.tevs w'.handlers w'.removedIds
  rw [hc, hg, ht, hh, hr]; exact h.1.ri

theorem TopQ.remove_comps {w : World} (h : TopQ a Z w) {k : Key} {v : CompInfo} {comps : SlotMap CompInfo}
    (hrem : w.comps.remove k = some (v, comps)) :
    TopQ a Z { w with comps := comps, removedIds := ('c', k) :: w.removedIds } :=
  h.fields (h.1.comps (RI.remove_comps h.1.ri hrem) rfl rfl rfl rfl rfl) rfl rfl rfl

macro_rules | `(tactic| tq_fix) => `(tactic| exact TopQ.remove_comps ‹_› ‹_›)
/-- the generation hook writes `entities` and `ords` -/
theorem TopQ.setgen {w : World} (h : TopQ a Z w) (ents : SlotMap Loc) (ords : Array Key) :
    TopQ a Z { w with entities := ents, ords := ords } :=
  h.of_fields rfl rfl rfl rfl rfl rfl rfl rfl rfl
macro_rules | `(tactic| tq_fix) => `(tactic| exact TopQ.setgen ‹_› _ _)

macro_rules
  | `(tactic| tq_special) =>
    `(tactic| ((with_reducible refine KP.of_keeps (Keeps.modify (fun _ h => ?_)));
               exact TopQ.of_fields h rfl rfl rfl rfl rfl rfl rfl rfl rfl))

theorem archsRemoveComponent_tq (info : CompInfo) : KP (TopQ a Z) (archsRemoveComponent info) :=
  KP.of_keeps (topq_of (fun _ => InvV6.archsRemoveComponent_fr _) (fun _ => InvV6.archsRemoveComponent_hk _)
    (archsRemoveComponent_ri _) (fun _ => archsRemoveComponent_lp _))
macro_rules | `(tactic| tq_leaf) => `(tactic| exact archsRemoveComponent_tq _)
theorem resRefresh_tq : KP (TopQ a Z) resRefresh :=
  KP.of_keeps (topq_of (fun _ => resRefresh_fr) (fun _ => resRefresh_hk) resRefresh_ri (fun _ => resRefresh_lp))
macro_rules | `(tactic| tq_leaf) => `(tactic| exact resRefresh_tq)
theorem reserve_tq : KP (TopQ a Z) reserve :=
  KP.of_keeps (topq_of (fun _ => reserve_fr) (fun _ => reserve_hk) reserve_ri (fun _ => reserve_lp))
macro_rules | `(tactic| tq_leaf) => `(tactic| exact reserve_tq)
theorem freshC_tq : KP (TopQ a Z) freshC :=
  KP.of_keeps (topq_of (fun _ => freshC_fr) (fun _ => freshC_hk) freshC_ri (fun _ => freshC_lp))
macro_rules | `(tactic| tq_leaf) => `(tactic| exact freshC_tq)
theorem dropCellIdx_tq (c : Nat) (x : Cell) : KP (TopQ a Z) (dropCellIdx c x) :=
  KP.of_keeps (topq_of (fun _ => dropCellIdx_fr _ _) (fun _ => dropCellIdx_hk _ _) (dropCellIdx_ri _ _)
    (fun _ => dropCellIdx_lp _ _))
macro_rules | `(tactic| tq_leaf) => `(tactic| exact dropCellIdx_tq _ _)

theorem removeComponent_tq (k : Key) : KP (TopQ a Z) (removeComponent k) := by unfold removeComponent; tq_walk
macro_rules | `(tactic| tq_leaf) => `(tactic| exact removeComponent_tq _)
theorem opSpawn_tq : KP (TopQ a Z) opSpawn := by unfold opSpawn; tq_walk
macro_rules | `(tactic| tq_leaf) => `(tactic| exact opSpawn_tq)

/-- a fresh serial is in hand -/
theorem freshE_tq : Hoare (TopQ a Z) freshE (fun s => TopQ a (s :: Z)) (PanicOnly (TopQ a Z)) := by
  refine ⟨fun w hw => ?_⟩
  refine ⟨hw.1.comps hw.1.ri rfl rfl rfl rfl rfl, ?_⟩
  show Cover a (w.nextESerial + 1) ((w.nextESerial :: Z) ++ (pend w.queue ++ w.edrops))
  exact (cover_accounting a).fresh hw.2

/-- **every top-level operation conserves** — on normal return and after a panic -/
theorem execOp_tq (op : Op) : KP (TopQ a Z) (execOp op) := by
  unfold execOp
  cases op with
  | send g =>
    dsimp only
    refine Hoare.bind freshE_tq fun s => ?_
    exact Hoare.bind (sendGlobal_tq (Y := [s]) _ rfl _ rfl) fun _ => Hoare.pure fun _ h => h
  | sendto t n =>
    dsimp only
    refine Hoare.bind freshE_tq fun s => ?_
    refine Hoare.get_bind fun w hw => ?_
    exact Hoare.bind (sendTargeted_tq (Y := [s]) _ rfl _ _ rfl) fun _ => Hoare.pure fun _ h => h
  | _ => tq_walk

end walk
end EvLedger
end Evenio
