import Evenio.Proofs.SlotMap
import Evenio.Proofs.Frame
import Evenio.Proofs.HoareOk
import Evenio.Model.Step
/-! Helpers for C16 at the level of the world monad (`Evenio/Props/C16World.lean`): `toList` after `insertWith`,
    `get`/`set`/`remove` facts that need no history, value-mapped views of a slot map (`SlotMap.mapVal`; with
    `fun _ => ()` the skeleton: generations, free list, occupancy) and the `Keeps` lemmas saying that event delivery only
    ever rewrites the `memberOf` field of registered components. -/
namespace Evenio

/-! ### `toList` after `insertWith` -/

namespace SlotMap
variable {α : Type}

/-- the `iter` filter of `toList` -/
def live? : Slot α × Nat → Option (Key × α) := fun (s, i) =>
  if s.gen % 2 = 0 then none else s.val.map fun v => (⟨i, s.gen⟩, v)

theorem toList_eq (sm : SlotMap α) : sm.toList = sm.slots.zipIdx.filterMap live? := rfl

theorem filterMap_cons_toList {β γ : Type} (g : β → Option γ) (a : β) (l : List β) :
    (a :: l).filterMap g = (g a).toList ++ l.filterMap g := by
  rw [List.filterMap_cons]; cases g a <;> rfl

/-- overwriting position `i` changes the filtered enumeration only in the contribution of position `i` -/
theorem filterMap_zipIdx_set {β γ : Type} (g : β × Nat → Option γ) (l : List β) (i : Nat) (hi : i < l.length)
    (x : β) (n : Nat) :
    ∃ A B, (l.zipIdx n).filterMap g = A ++ (g (l[i], n + i)).toList ++ B ∧
      ((l.set i x).zipIdx n).filterMap g = A ++ (g (x, n + i)).toList ++ B := by
  induction l generalizing i n with
  | nil => cases hi
  | cons a l ih =>
    cases i with
    | zero =>
      refine ⟨[], (l.zipIdx (n + 1)).filterMap g, ?_, ?_⟩
      · simp only [List.zipIdx_cons, filterMap_cons_toList, List.getElem_cons_zero, Nat.add_zero, List.nil_append]
      · simp only [List.set_cons_zero, List.zipIdx_cons, filterMap_cons_toList, Nat.add_zero, List.nil_append]
    | succ j =>
      obtain ⟨A, B, h1, h2⟩ := ih j (Nat.lt_of_succ_lt_succ hi) (n + 1)
      refine ⟨(g (a, n)).toList ++ A, B, ?_, ?_⟩
      · simp only [List.zipIdx_cons, filterMap_cons_toList, List.getElem_cons_succ, h1, List.append_assoc]
        rw [show n + 1 + j = n + (j + 1) by omega]
      · simp only [List.set_cons_succ, List.zipIdx_cons, filterMap_cons_toList, h2, List.append_assoc]
        rw [show n + 1 + j = n + (j + 1) by omega]

/-- **`toList` after `insertWith`**: the new entry is spliced into the enumeration; every other entry keeps its
    place (a vacant slot is filled or a slot is pushed at the end). -/
theorem toList_insertWith {sm sm' : SlotMap α} (wf : WF sm) {f : Key → α} {k : Key}
    (h : sm.insertWith f = some (k, sm')) :
    ∃ A B, sm.toList = A ++ B ∧ sm'.toList = A ++ (k, f k) :: B := by
  rcases wf.insertWith_cases f with
    ⟨s, fl, hs, he, hn, hv, c, nd, hnot, hlt, heq⟩ | ⟨hnf, hlen, heq⟩ | ⟨_, _, heq⟩
  · rw [heq] at h; cases h
    obtain ⟨A, B, h1, h2⟩ := filterMap_zipIdx_set live? sm.slots sm.nextFree hlt
      ⟨s.gen + 1, s.next, some (f ⟨sm.nextFree, s.gen + 1⟩)⟩ 0
    have hget : sm.slots[sm.nextFree] = s := by
      rcases List.getElem?_eq_some_iff.1 hs with ⟨_, h⟩; exact h
    refine ⟨A, B, ?_, ?_⟩
    · rw [toList_eq, h1, hget]
      simp [live?, he]
    · rw [toList_eq, h2]
      have : ¬ (s.gen + 1) % 2 = 0 := by omega
      simp [live?, this]
  · rw [heq] at h; cases h
    refine ⟨sm.toList, [], by simp, ?_⟩
    simp [toList_eq, List.zipIdx_append, live?]
  · rw [heq] at h; cases h

/-- looking up a predicate the new entry does not satisfy is unaffected by the insertion -/
theorem find?_insertWith_of_neg {sm sm' : SlotMap α} (wf : WF sm) {f : Key → α} {k : Key}
    (h : sm.insertWith f = some (k, sm')) (p : Key × α → Bool) (hp : p (k, f k) = false) :
    sm'.toList.find? p = sm.toList.find? p := by
  obtain ⟨A, B, h1, h2⟩ := toList_insertWith wf h
  rw [h1, h2, List.find?_append, List.find?_append, List.find?_cons, hp]

/-- a predicate nothing satisfied before and the new entry satisfies finds the new entry -/
theorem find?_insertWith_new {sm sm' : SlotMap α} (wf : WF sm) {f : Key → α} {k : Key}
    (h : sm.insertWith f = some (k, sm')) (p : Key × α → Bool) (hn : sm.toList.find? p = none)
    (hp : p (k, f k) = true) : sm'.toList.find? p = some (k, f k) := by
  obtain ⟨A, B, h1, h2⟩ := toList_insertWith wf h
  rw [h1, List.find?_append] at hn
  have hA : A.find? p = none := by
    cases hA : A.find? p with
    | none => rfl
    | some x => rw [hA] at hn; cases hn
  rw [h2, List.find?_append, hA, List.find?_cons, hp]
  rfl

/-! ### `get`, `getByIndex`, `set`, `remove` -/

theorem getByIndex_get {sm : SlotMap α} {i : Nat} {k : Key} {v : α} (h : sm.getByIndex i = some (k, v)) :
    sm.get k = some v ∧ k.idx = i := by
  unfold getByIndex at h
  cases hs : sm.slots[i]? with
  | none => simp [hs] at h
  | some s =>
    simp only [hs] at h
    by_cases he : s.gen % 2 = 0
    · simp [he] at h
    · simp only [he, if_false, Option.map_eq_some_iff] at h
      obtain ⟨v', hv, heq⟩ := h
      cases heq
      simp [get, hs, hv]

theorem get_getByIndex {sm : SlotMap α} (wf : WF sm) {k : Key} {v : α} (h : sm.get k = some v) :
    sm.getByIndex k.idx = some (k, v) := by
  unfold get at h
  unfold getByIndex
  cases hs : sm.slots[k.idx]? with
  | none => simp [hs] at h
  | some s =>
    simp only [hs] at h ⊢
    by_cases hg : s.gen = k.gen
    · simp only [hg, if_true] at h
      have hodd : s.gen % 2 = 1 := (wf.valIff _ _ hs).1 (by simp [h])
      have : ¬ k.gen % 2 = 0 := by omega
      simp only [h, Option.map_some, hg, this, if_false]
    · simp [hg] at h

theorem contains_of_getByIndex {sm : SlotMap α} {i : Nat} {k : Key} {v : α} (h : sm.getByIndex i = some (k, v)) :
    sm.contains k = true := by
  simp [contains, (getByIndex_get h).1]

/-- `set` on a live key: only the value under that key changes -/
theorem get_set {sm : SlotMap α} {k : Key} {v0 : α} (h : sm.get k = some v0) (v : α) (k' : Key) :
    (sm.set k v).get k' = if k' = k then some v else sm.get k' := by
  unfold get at h
  cases hs : sm.slots[k.idx]? with
  | none => simp [hs] at h
  | some s =>
    simp only [hs] at h
    by_cases hg : s.gen = k.gen
    · have hlt : k.idx < sm.slots.length := getElem?_lt hs
      simp only [set, hs, hg, if_true, get, List.getElem?_set]
      by_cases hi : k.idx = k'.idx
      · simp only [hi, if_true]
        rw [← hi]; simp only [hlt, if_true, hs]
        by_cases hk : k' = k
        · subst hk; simp
        · have h1 : k.gen ≠ k'.gen := by
            intro e; apply hk; cases k'; cases k; simp_all
          have h2 : s.gen ≠ k'.gen := by rw [hg]; exact h1
          simp [hk, h1, h2]
      · have hk : k' ≠ k := by intro e; apply hi; rw [e]
        simp [hi, hk]
    · simp [hg] at h

/-- after a successful `remove` the key is invalid (no well-formedness needed) -/
theorem contains_remove_self {sm sm' : SlotMap α} {k : Key} {v : α} (h : sm.remove k = some (v, sm')) :
    sm'.contains k = false := by
  unfold remove at h
  cases hs : sm.slots[k.idx]? with
  | none => simp [hs] at h
  | some s =>
    have hlt : k.idx < sm.slots.length := getElem?_lt hs
    simp only [hs] at h
    by_cases hg : s.gen = k.gen
    · cases hv : s.val with
      | none => simp [hg, hv] at h
      | some v' =>
        simp only [hg, hv, ne_eq, not_true_eq_false, if_false] at h
        split at h <;> cases h <;> simp [contains, get, hlt]
    · simp [hg] at h

/-- a valid key is covered (its slot is at the key's generation) -/
theorem covers_of_contains {sm : SlotMap α} {k : Key} (hc : sm.contains k = true) : Covers sm k := by
  obtain ⟨v, hv⟩ := Option.isSome_iff_exists.1 hc
  unfold get at hv
  cases hs : sm.slots[k.idx]? with
  | none => simp [hs] at hv
  | some s =>
    simp only [hs] at hv
    by_cases hg : s.gen = k.gen
    · exact ⟨s, hs, Or.inr (by omega)⟩
    · simp [hg] at hv

/-- the key `insertWith` returns was not valid before -/
theorem insertWith_not_contains {sm sm' : SlotMap α} (wf : WF sm) {f : Key → α} {k : Key}
    (h : sm.insertWith f = some (k, sm')) : sm.contains k = false := by
  cases hc : sm.contains k with
  | false => rfl
  | true => exact absurd ((insertWith_key wf h).2.2.2.2.2 k (covers_of_contains hc) rfl) (Nat.lt_irrefl _)

/-- everything a registry lookup needs to know after an insertion -/
theorem insertWith_usable {sm sm' : SlotMap α} (wf : WF sm) {f : Key → α} {k : Key}
    (h : sm.insertWith f = some (k, sm')) :
    sm'.WF ∧ sm'.get k = some (f k) ∧ sm'.getByIndex k.idx = some (k, f k) ∧
    (∀ k', k' ≠ k → sm'.get k' = sm.get k') ∧ sm.contains k = false := by
  have wf' := wf.insertWith h
  have hget := get_insertWith wf h
  have hk : sm'.get k = some (f k) := by rw [hget]; simp
  exact ⟨wf', hk, get_getByIndex wf' hk, fun k' hne => by rw [hget]; simp [hne], insertWith_not_contains wf h⟩

/-! ### a slot map with its values mapped (`fun _ => ()`: the skeleton — generations, free list, occupancy) -/

variable {β : Type}

def _root_.Evenio.Slot.mapVal (g : α → β) (s : Slot α) : Slot β := ⟨s.gen, s.next, s.val.map g⟩

def mapVal (g : α → β) (sm : SlotMap α) : SlotMap β := ⟨sm.slots.map (Slot.mapVal g), sm.nextFree, sm.len⟩

theorem get_mapVal (g : α → β) (sm : SlotMap α) (k : Key) : (sm.mapVal g).get k = (sm.get k).map g := by
  simp only [get, mapVal, List.getElem?_map]
  cases sm.slots[k.idx]? with
  | none => rfl
  | some s =>
    simp only [Option.map_some, Slot.mapVal]
    split <;> rfl

theorem contains_mapVal (g : α → β) (sm : SlotMap α) (k : Key) : (sm.mapVal g).contains k = sm.contains k := by
  simp [contains, get_mapVal]

theorem covers_mapVal (g : α → β) (sm : SlotMap α) (k : Key) : Covers (sm.mapVal g) k ↔ Covers sm k := by
  simp only [Covers, mapVal, List.getElem?_map]
  cases sm.slots[k.idx]? with
  | none => simp
  | some s => simp [Slot.mapVal]

theorem toList_mapVal (g : α → β) (sm : SlotMap α) :
    (sm.mapVal g).toList = sm.toList.map fun p => (p.1, g p.2) := by
  simp only [toList, mapVal, List.zipIdx_map, List.filterMap_map, List.map_filterMap]
  congr 1
  funext ⟨s, i⟩
  simp only [Function.comp, Prod.map, Slot.mapVal, id]
  split
  · simp [*]
  · cases s.val <;> simp [*]

/-- overwriting the value of a live key by one with the same image does not change the mapped map -/
theorem mapVal_set (g : α → β) {sm : SlotMap α} {k : Key} {v0 : α} (h : sm.get k = some v0) {v : α}
    (hg : g v = g v0) : (sm.set k v).mapVal g = sm.mapVal g := by
  unfold get at h
  cases hs : sm.slots[k.idx]? with
  | none => simp [hs] at h
  | some s =>
    simp only [hs] at h
    by_cases hgen : s.gen = k.gen
    · simp only [hgen, if_true] at h
      simp only [set, hs, hgen, if_true, mapVal]
      congr 1
      apply List.ext_getElem?
      intro j
      simp only [List.getElem?_map, List.getElem?_set]
      by_cases hj : k.idx = j
      · subst hj
        simp only [if_true, getElem?_lt hs, hs, Option.map_some, Slot.mapVal, h, hg, hgen]
      · simp only [hj, if_false]
    · simp [hgen] at h

/-- a `find?` whose predicate looks through `g` -/
theorem find?_mapVal (g : α → β) (sm : SlotMap α) (p : Key × β → Bool) :
    (sm.mapVal g).toList.find? p = (sm.toList.find? fun x => p (x.1, g x.2)).map fun x => (x.1, g x.2) := by
  rw [toList_mapVal, List.find?_map]
  rfl

end SlotMap

/-! ### event delivery rewrites nothing but `memberOf` in the component registry -/

/-- a component entry without its archetype membership -/
def CompInfo.core (ci : CompInfo) : CompInfo := { ci with memberOf := [] }

/-- the component registry up to `memberOf`: slots, generations, free list, and `ty`, `id`, `insEvents`, `remEvents`
    of every entry -/
def World.compsCore (w : World) : SlotMap CompInfo := w.comps.mapVal CompInfo.core

/-- the invariant: the component registry, up to `memberOf`, is `c` -/
abbrev CC (c : SlotMap CompInfo) : World → Prop := fun w => w.compsCore = c

variable {c : SlotMap CompInfo}

theorem cc_set_memberOf {w : World} (h : CC c w) {i : Nat} {k : Key} {ci : CompInfo}
    (hg : w.comps.getByIndex i = some (k, ci)) (m : List Nat) :
    CC c { w with comps := w.comps.set k { ci with memberOf := m } } := by
  show SlotMap.mapVal CompInfo.core (w.comps.set k { ci with memberOf := m }) = c
  rw [SlotMap.mapVal_set CompInfo.core (v := { ci with memberOf := m }) (SlotMap.getByIndex_get hg).1 rfl]
  exact h

/-- `set { w with comps := w.comps.set k { ci with memberOf := _ } }` after `getByIndex _ = some (k, ci)` -/
macro_rules | `(tactic| keeps_leaf) => `(tactic| (refine Keeps.set ?_; exact cc_set_memberOf ‹_› ‹_› _))

theorem logT_cc (s : String) : Keeps (CC c) (logT s) := by unfold logT; keeps
macro_rules | `(tactic| keeps_leaf) => `(tactic| exact logT_cc _)
theorem ubErr_cc {α : Type} (s : String) : Keeps (CC c) ((ubErr s : M α)) := by unfold ubErr; keeps
macro_rules | `(tactic| keeps_leaf) => `(tactic| exact ubErr_cc _)
theorem dbgAssert_cc (b : Bool) (s : String) : Keeps (CC c) (dbgAssert b s) := by unfold dbgAssert; keeps
macro_rules | `(tactic| keeps_leaf) => `(tactic| exact dbgAssert_cc _ _)
theorem dropCell_cc (ty : Nat) (x : Cell) : Keeps (CC c) (dropCell ty x) := by unfold dropCell; keeps
macro_rules | `(tactic| keeps_leaf) => `(tactic| exact dropCell_cc _ _)
theorem dropCellIdx_cc (ty : Nat) (x : Cell) : Keeps (CC c) (dropCellIdx ty x) := by unfold dropCellIdx; keeps
macro_rules | `(tactic| keeps_leaf) => `(tactic| exact dropCellIdx_cc _ _)
theorem dropEvent_cc (it : QItem) : Keeps (CC c) (dropEvent it) := by unfold dropEvent; keeps
macro_rules | `(tactic| keeps_leaf) => `(tactic| exact dropEvent_cc _)
theorem handlerRefresh_cc (hk : Key) (a : Arch) : Keeps (CC c) (handlerRefresh hk a) := by unfold handlerRefresh; keeps
macro_rules | `(tactic| keeps_leaf) => `(tactic| exact handlerRefresh_cc _ _)
theorem handlerRemoveArch_cc (hk : Key) (a : Arch) : Keeps (CC c) (handlerRemoveArch hk a) := by unfold handlerRemoveArch; keeps
macro_rules | `(tactic| keeps_leaf) => `(tactic| exact handlerRemoveArch_cc _ _)
theorem getArch_cc (i : Nat) (s : String) : Keeps (CC c) (getArch i s) := by unfold getArch; keeps
macro_rules | `(tactic| keeps_leaf) => `(tactic| exact getArch_cc _ _)
theorem setArch_cc (a : Arch) : Keeps (CC c) (setArch a) := by unfold setArch; keeps
macro_rules | `(tactic| keeps_leaf) => `(tactic| exact setArch_cc _)
theorem freshEpoch_cc : Keeps (CC c) (freshEpoch) := by unfold freshEpoch; keeps
macro_rules | `(tactic| keeps_leaf) => `(tactic| exact freshEpoch_cc)
theorem registerHandler_cc (a : Arch) (h : HInfo) : Keeps (CC c) (a.registerHandler h) := by unfold Arch.registerHandler; keeps
macro_rules | `(tactic| keeps_leaf) => `(tactic| exact registerHandler_cc _ _)
theorem archSpawn_cc (id : Key) : Keeps (CC c) (archSpawn id) := by unfold archSpawn; keeps
macro_rules | `(tactic| keeps_leaf) => `(tactic| exact archSpawn_cc _)
theorem reserve_cc : Keeps (CC c) (reserve) := by unfold reserve; keeps
macro_rules | `(tactic| keeps_leaf) => `(tactic| exact reserve_cc)
theorem spawnAll_cc : Keeps (CC c) (spawnAll) := by unfold spawnAll; keeps
macro_rules | `(tactic| keeps_leaf) => `(tactic| exact spawnAll_cc)
theorem resRefresh_cc : Keeps (CC c) (resRefresh) := by unfold resRefresh; keeps
macro_rules | `(tactic| keeps_leaf) => `(tactic| exact resRefresh_cc)
theorem setLoc_cc (id : Key) (s : String) (f : Loc → Loc) : Keeps (CC c) (setLoc id s f) := by unfold setLoc; keeps
macro_rules | `(tactic| keeps_leaf) => `(tactic| exact setLoc_cc _ _ _)

/-- `Archetype::new` inserts the archetype into `member_of` of its components: the only write to `comps` any delivery
    performs -/
theorem newArch_cc (cs : List Nat) (a b : Option (Nat × Nat)) : Keeps (CC c) (newArch cs a b) := by
  unfold newArch
  keeps
macro_rules | `(tactic| keeps_leaf) => `(tactic| exact newArch_cc _ _ _)
theorem traverseInsert_cc (src x : Nat) : Keeps (CC c) (traverseInsert src x) := by unfold traverseInsert; keeps
macro_rules | `(tactic| keeps_leaf) => `(tactic| exact traverseInsert_cc _ _)
theorem traverseRemove_cc (src x : Nat) : Keeps (CC c) (traverseRemove src x) := by unfold traverseRemove; keeps
macro_rules | `(tactic| keeps_leaf) => `(tactic| exact traverseRemove_cc _ _)
theorem moveEntity_cc (src : Loc) (dst : Nat) (new : List (Nat × Cell)) : Keeps (CC c) (moveEntity src dst new) := by unfold moveEntity; keeps
macro_rules | `(tactic| keeps_leaf) => `(tactic| exact moveEntity_cc _ _ _)
theorem removeEntity_cc (loc : Loc) : Keeps (CC c) (removeEntity loc) := by unfold removeEntity; keeps
macro_rules | `(tactic| keeps_leaf) => `(tactic| exact removeEntity_cc _)
theorem push_cc (it : QItem) : Keeps (CC c) (push it) := by unfold push; keeps
macro_rules | `(tactic| keeps_leaf) => `(tactic| exact push_cc _)
theorem takeBudget_cc : Keeps (CC c) (takeBudget) := by unfold takeBudget; keeps
macro_rules | `(tactic| keeps_leaf) => `(tactic| exact takeBudget_cc)
theorem freshE_cc : Keeps (CC c) (freshE) := by unfold freshE; keeps
macro_rules | `(tactic| keeps_leaf) => `(tactic| exact freshE_cc)
theorem freshC_cc : Keeps (CC c) (freshC) := by unfold freshC; keeps
macro_rules | `(tactic| keeps_leaf) => `(tactic| exact freshC_cc)
theorem senderPush_cc (h : HInfo) (it : QItem) : Keeps (CC c) (senderPush h it) := by unfold senderPush; keeps
macro_rules | `(tactic| keeps_leaf) => `(tactic| exact senderPush_cc _ _)
theorem paramRows_cc (p : Param) : Keeps (CC c) (paramRows p) := by unfold paramRows; keeps
macro_rules | `(tactic| keeps_leaf) => `(tactic| exact paramRows_cc _)
theorem itemAt_cc (st : AS) (a : Arch) (row : Nat) : Keeps (CC c) (itemAt st a row) := by unfold itemAt; keeps
macro_rules | `(tactic| keeps_leaf) => `(tactic| exact itemAt_cc _ _ _)
theorem paramGet_cc (p : Param) (id : Key) : Keeps (CC c) (paramGet p id) := by unfold paramGet; keeps
macro_rules | `(tactic| keeps_leaf) => `(tactic| exact paramGet_cc _ _)
theorem bumpCell_cc (ai row x : Nat) : Keeps (CC c) (bumpCell ai row x) := by unfold bumpCell; keeps
macro_rules | `(tactic| keeps_leaf) => `(tactic| exact bumpCell_cc _ _ _)
theorem getParam_cc (h : HInfo) (p : Nat) : Keeps (CC c) (getParam h p) := by unfold getParam; keeps
macro_rules | `(tactic| keeps_leaf) => `(tactic| exact getParam_cc _ _)
theorem runAct_cc (hk : Key) (it : QItem) (loc : Loc) (act : Act) : Keeps (CC c) (runAct hk it loc act) := by unfold runAct; keeps
macro_rules | `(tactic| keeps_leaf) => `(tactic| exact runAct_cc _ _ _ _)
theorem runHandler_cc (hk : Key) (it : QItem) (loc : Loc) : Keeps (CC c) (runHandler hk it loc) := by unfold runHandler; keeps
macro_rules | `(tactic| keeps_leaf) => `(tactic| exact runHandler_cc _ _ _)
theorem deliverOne_cc (it : QItem) : Keeps (CC c) (deliverOne it) := by unfold deliverOne; keeps
macro_rules | `(tactic| keeps_leaf) => `(tactic| exact deliverOne_cc _)
theorem dropQueued_cc : Keeps (CC c) (dropQueued) := by unfold dropQueued; keeps
macro_rules | `(tactic| keeps_leaf) => `(tactic| exact dropQueued_cc)

/-! ### the event loop keeps whatever every delivery, `dropQueued`, and writes to `queue`/`arenaEpoch` keep -/

/-- an invariant that does not look at the queue or the arena epoch -/
def QueueBlind (I : World → Prop) : Prop :=
  ∀ w q n, I w → I { w with queue := q, arenaEpoch := n }

theorem flushWith_keeps {I : World → Prop} (hI : QueueBlind I) {deliver : QItem → M Unit}
    (hd : ∀ it, Keeps I (deliver it)) (hq : Keeps I dropQueued) (fuel : Nat) : Keeps I (flushWith deliver fuel) := by
  have hqueue : ∀ w q, I w → I { w with queue := q } := fun w q h => hI w q w.arenaEpoch h
  have hepoch : ∀ w n, I w → I { w with arenaEpoch := n } := fun w n h => hI w w.queue n h
  induction fuel with
  | zero => exact Keeps.throw _
  | succ fuel ih =>
    rw [flushWith]
    refine Keeps.get_bind fun w hw => ?_
    split
    · exact Keeps.set (hepoch w _ hw)
    · refine Keeps.bind (Keeps.set (hqueue w _ hw)) fun _ => ?_
      refine Keeps.bind (Keeps.tryCatch (hd _) fun e => ?_) fun _ => ?_
      · refine Keeps.bind (Keeps.modify fun w h => hqueue w _ h) fun _ => ?_
        cases e with
        | panic s => exact Keeps.bind hq fun _ => Keeps.throw _
        | _ => exact Keeps.throw _
      · exact Keeps.bind (Keeps.modify fun w h => hqueue w _ h) fun _ => ih

theorem cc_queueBlind : QueueBlind (CC c) := fun _ _ _ h => h
theorem fr_queueBlind_modEpoch (g : SlotMap EvInfo × SlotMap EvInfo) :
    QueueBlind (fun w => (w.gevs, w.tevs) = g) := fun _ _ _ h => h

theorem flush_cc (fuel : Nat) : Keeps (CC c) (flush fuel) :=
  flushWith_keeps cc_queueBlind deliverOne_cc dropQueued_cc fuel
macro_rules | `(tactic| keeps_leaf) => `(tactic| exact flush_cc _)

/-- the event registries as an invariant (`Frame` also fixes the arena epoch, which the loop bumps on return) -/
abbrev EV (g : SlotMap EvInfo × SlotMap EvInfo) : World → Prop := fun w => (w.gevs, w.tevs) = g

theorem Keeps.ev_of_frame {α : Type} {m : M α} (h : ∀ fr, Keeps (FR fr) m) (g : SlotMap EvInfo × SlotMap EvInfo) :
    Keeps (EV g) m :=
  ⟨fun w hw => by
    have := (h w.frame).run w rfl
    have e1 : (m.run.run w).2.gevs = w.gevs := congrArg Frame.gevs this
    have e2 : (m.run.run w).2.tevs = w.tevs := congrArg Frame.tevs this
    show ((m.run.run w).2.gevs, (m.run.run w).2.tevs) = g
    rw [e1, e2]; exact hw⟩

theorem flush_ev (g : SlotMap EvInfo × SlotMap EvInfo) (fuel : Nat) : Keeps (EV g) (flush fuel) :=
  flushWith_keeps (fr_queueBlind_modEpoch g) (fun it => Keeps.ev_of_frame (fun _ => deliverOne_fr it) g)
    (Keeps.ev_of_frame (fun _ => dropQueued_fr) g) fuel

/-! ### the tail of `removeComponent` -/

/-- `IndexSet::swap_remove` on `member_of` of the other components of a removed archetype -/
theorem archsRemoveComponent_cc (info : CompInfo) : Keeps (CC c) (archsRemoveComponent info) := by
  unfold archsRemoveComponent
  keeps
  refine Keeps.modify fun w h => ?_
  split <;> exact h
macro_rules | `(tactic| keeps_leaf) => `(tactic| exact archsRemoveComponent_cc _)

/-- whatever keeps the component registry up to `memberOf` keeps every property of it -/
theorem Keeps.of_cc {α : Type} {m : M α} (h : ∀ c, Keeps (CC c) m) (P : SlotMap CompInfo → Prop) :
    Keeps (fun w => P w.compsCore) m :=
  ⟨fun w hw => by
    have e : (m.run.run w).2.compsCore = w.compsCore := (h w.compsCore).run w rfl
    show P (m.run.run w).2.compsCore
    rw [e]; exact hw⟩

/-- in particular validity of a component id -/
theorem Keeps.contains_of_cc {α : Type} {m : M α} (h : ∀ c, Keeps (CC c) m) (k : Key) (b : Bool) :
    Keeps (fun w => w.comps.contains k = b) m := by
  have := Keeps.of_cc h (fun sm => sm.contains k = b)
  simpa only [World.compsCore, SlotMap.contains_mapVal] using this

/-! ### dead ids and the registry invariant -/

namespace SlotMap
variable {α : Type}

/-- rewriting a live entry keeps the map well formed -/
theorem WF.set {sm : SlotMap α} (wf : WF sm) {k : Key} {v0 : α} (hg : sm.get k = some v0) (v : α) :
    WF (sm.set k v) := by
  unfold get at hg
  cases hs : sm.slots[k.idx]? with
  | none => simp [hs] at hg
  | some s =>
    simp only [hs] at hg
    by_cases hgen : s.gen = k.gen
    · simp only [hgen, if_true] at hg
      have hidx : k.idx < sm.slots.length := getElem?_lt hs
      have hodd : s.gen % 2 = 1 := (wf.valIff _ _ hs).1 (by simp [hg])
      obtain ⟨fl, c, nd⟩ := wf.chain
      have hnot : k.idx ∉ fl := by
        intro hm
        obtain ⟨t, ht, hte, _⟩ := c.mem _ hm
        rw [hs] at ht; cases ht; omega
      have hget : sm.slots[k.idx] = s := by
        rcases List.getElem?_eq_some_iff.1 hs with ⟨_, h⟩; exact h
      simp only [SlotMap.set, hs, hgen, if_true]
      refine ⟨?_, ?_, ⟨fl, c.set _ hnot, nd⟩, ?_, ?_⟩
      · intro j t ht
        simp only [List.getElem?_set] at ht
        split at ht
        · simp at ht; subst ht; have := wf.genLt _ _ hs; show k.gen < GENMOD; omega
        · exact wf.genLt _ _ ht
      · intro j t ht
        simp only [List.getElem?_set] at ht
        split at ht
        · simp at ht; subst ht; simp; omega
        · exact wf.valIff _ _ ht
      · simp only [List.countP_set hidx]
        rw [hget, wf.lenEq]
        have hp : (s.gen % 2 == 1) = true := by simp; omega
        have hk : k.gen % 2 = 1 := by omega
        have : 0 < List.countP (fun s => s.gen % 2 == 1) sm.slots :=
          List.countP_pos_iff.2 ⟨s, by rw [← hget]; exact List.getElem_mem _, hp⟩
        simp [hp, hk]
        omega
      · simpa using wf.size
    · simp [hgen] at hg

/-- a dead id: its slot has moved on (or is retired) and it is not valid -/
def DeadKey (sm : SlotMap α) (k : Key) : Prop := Covers sm k ∧ sm.contains k = false

theorem dead_of_remove {sm sm' : SlotMap α} (wf : sm.WF) {k : Key} {v : α}
    (h : sm.remove k = some (v, sm')) : DeadKey sm' k :=
  ⟨covers_remove wf h k (covers_of_contains (by simp [SlotMap.contains, get_of_remove h])), contains_remove_self h⟩

theorem dead_insertWith {sm sm' : SlotMap α} (wf : sm.WF) {k k' : Key} (hd : DeadKey sm k) {f : Key → α}
    (h : sm.insertWith f = some (k', sm')) : k' ≠ k ∧ DeadKey sm' k ∧ (k'.idx = k.idx → k.gen < k'.gen) := by
  obtain ⟨_, _, _, _, hcov, hlt⟩ := insertWith_key wf h
  have hne : k' ≠ k := fun e => by
    have := hlt k hd.1 (by rw [e]); rw [e] at this; exact Nat.lt_irrefl _ this
  refine ⟨hne, ⟨hcov k hd.1, ?_⟩, fun e => hlt k hd.1 e.symm⟩
  have := get_insertWith wf h k
  simp only [SlotMap.contains, this, Ne.symm hne, if_false]
  exact hd.2

theorem dead_remove {sm sm' : SlotMap α} (wf : sm.WF) {k k' : Key} (hd : DeadKey sm k) {v : α}
    (h : sm.remove k' = some (v, sm')) : DeadKey sm' k := by
  refine ⟨covers_remove wf h k hd.1, ?_⟩
  have := get_remove wf h k
  simp only [SlotMap.contains, this]
  split
  · rfl
  · exact hd.2

theorem dead_set {sm : SlotMap α} {k k' : Key} (hd : DeadKey sm k) {v0 : α} (hg : sm.get k' = some v0)
    (v : α) : DeadKey (sm.set k' v) k := by
  have e : (sm.set k' v).mapVal (fun _ => ()) = sm.mapVal (fun _ => ()) := mapVal_set _ hg rfl
  refine ⟨?_, ?_⟩
  · rw [← covers_mapVal (fun _ => ()), e, covers_mapVal]; exact hd.1
  · rw [← contains_mapVal (fun _ => ()), e, contains_mapVal]; exact hd.2

end SlotMap
open SlotMap

/-! ### the registry invariant -/

/-- the registry an entry of `World.removedIds` refers to (as in `World.renderReg`) and what "dead" means there -/
def DeadIn (c : SlotMap CompInfo) (g t : SlotMap EvInfo) (h : SlotMap HInfo) (p : Char × Key) : Prop :=
  if p.1 = 'c' then DeadKey c p.2 else if p.1 = 'g' then DeadKey g p.2 else if p.1 = 't' then DeadKey t p.2
  else DeadKey h p.2

/-- all four registries are well formed, every recorded removed id is dead in its registry, and the ids `D` are
    among the recorded ones -/
structure RI (D : List (Char × Key)) (c : SlotMap CompInfo) (g t : SlotMap EvInfo) (h : SlotMap HInfo)
    (r : List (Char × Key)) : Prop where
  wfc : c.WF
  wfg : g.WF
  wft : t.WF
  wfh : h.WF
  dead : ∀ p ∈ r, DeadIn c g t h p
  sub : ∀ p ∈ D, p ∈ r

abbrev RegInv (D : List (Char × Key)) : World → Prop :=
  fun w => RI D w.comps w.gevs w.tevs w.handlers w.removedIds

variable {D : List (Char × Key)} {c c' : SlotMap CompInfo} {g g' t t' : SlotMap EvInfo} {h h' : SlotMap HInfo}
  {r : List (Char × Key)}

theorem DeadIn.mono (hc : ∀ k, DeadKey c k → DeadKey c' k) (hg : ∀ k, DeadKey g k → DeadKey g' k)
    (ht : ∀ k, DeadKey t k → DeadKey t' k) (hh : ∀ k, DeadKey h k → DeadKey h' k) {p : Char × Key}
    (hp : DeadIn c g t h p) : DeadIn c' g' t' h' p := by
  unfold DeadIn at hp ⊢
  split
  · rw [if_pos ‹_›] at hp; exact hc _ hp
  · rw [if_neg ‹_›] at hp
    split
    · rw [if_pos ‹_›] at hp; exact hg _ hp
    · rw [if_neg ‹_›] at hp
      split
      · rw [if_pos ‹_›] at hp; exact ht _ hp
      · rw [if_neg ‹_›] at hp; exact hh _ hp

theorem RI.set_comps (hi : RI D c g t h r) {k : Key} {v0 : CompInfo} (hg : c.get k = some v0) (v : CompInfo) :
    RI D (c.set k v) g t h r :=
  ⟨hi.wfc.set hg v, hi.wfg, hi.wft, hi.wfh,
    fun p hp => (hi.dead p hp).mono (fun _ hd => dead_set hd hg v) (fun _ x => x) (fun _ x => x) (fun _ x => x), hi.sub⟩

theorem RI.set_comps_byIndex (hi : RI D c g t h r) {i : Nat} {k : Key} {v0 : CompInfo}
    (hg : c.getByIndex i = some (k, v0)) (v : CompInfo) : RI D (c.set k v) g t h r :=
  hi.set_comps (getByIndex_get hg).1 v

theorem RI.set_handlers (hi : RI D c g t h r) {k : Key} {v0 : HInfo} (hg : h.get k = some v0) (v : HInfo) :
    RI D c g t (h.set k v) r :=
  ⟨hi.wfc, hi.wfg, hi.wft, hi.wfh.set hg v,
    fun p hp => (hi.dead p hp).mono (fun _ x => x) (fun _ x => x) (fun _ x => x) (fun _ hd => dead_set hd hg v), hi.sub⟩

theorem RI.insert_comps (hi : RI D c g t h r) {f : Key → CompInfo} {k : Key} (hins : c.insertWith f = some (k, c')) :
    RI D c' g t h r :=
  ⟨hi.wfc.insertWith hins, hi.wfg, hi.wft, hi.wfh,
    fun p hp => (hi.dead p hp).mono (fun _ hd => (dead_insertWith hi.wfc hd hins).2.1) (fun _ x => x) (fun _ x => x)
      (fun _ x => x), hi.sub⟩

theorem RI.insert_gevs (hi : RI D c g t h r) {f : Key → EvInfo} {k : Key} (hins : g.insertWith f = some (k, g')) :
    RI D c g' t h r :=
  ⟨hi.wfc, hi.wfg.insertWith hins, hi.wft, hi.wfh,
    fun p hp => (hi.dead p hp).mono (fun _ x => x) (fun _ hd => (dead_insertWith hi.wfg hd hins).2.1) (fun _ x => x)
      (fun _ x => x), hi.sub⟩

theorem RI.insert_tevs (hi : RI D c g t h r) {f : Key → EvInfo} {k : Key} (hins : t.insertWith f = some (k, t')) :
    RI D c g t' h r :=
  ⟨hi.wfc, hi.wfg, hi.wft.insertWith hins, hi.wfh,
    fun p hp => (hi.dead p hp).mono (fun _ x => x) (fun _ x => x) (fun _ hd => (dead_insertWith hi.wft hd hins).2.1)
      (fun _ x => x), hi.sub⟩

theorem RI.insert_handlers (hi : RI D c g t h r) {f : Key → HInfo} {k : Key} (hins : h.insertWith f = some (k, h')) :
    RI D c g t h' r :=
  ⟨hi.wfc, hi.wfg, hi.wft, hi.wfh.insertWith hins,
    fun p hp => (hi.dead p hp).mono (fun _ x => x) (fun _ x => x) (fun _ x => x)
      (fun _ hd => (dead_insertWith hi.wfh hd hins).2.1), hi.sub⟩

theorem deadIn_c {k : Key} : DeadIn c g t h ('c', k) ↔ DeadKey c k := by simp [DeadIn]
theorem deadIn_g {k : Key} : DeadIn c g t h ('g', k) ↔ DeadKey g k := by simp [DeadIn]
theorem deadIn_t {k : Key} : DeadIn c g t h ('t', k) ↔ DeadKey t k := by simp [DeadIn]
theorem deadIn_h {k : Key} : DeadIn c g t h ('h', k) ↔ DeadKey h k := by simp [DeadIn]

theorem RI.remove_comps (hi : RI D c g t h r) {k : Key} {v : CompInfo} (hrem : c.remove k = some (v, c')) :
    RI D c' g t h (('c', k) :: r) :=
  ⟨hi.wfc.remove hrem, hi.wfg, hi.wft, hi.wfh,
    fun p hp => by
      rcases List.mem_cons.1 hp with rfl | hp
      · exact deadIn_c.2 (dead_of_remove hi.wfc hrem)
      · exact (hi.dead p hp).mono (fun _ hd => dead_remove hi.wfc hd hrem) (fun _ x => x) (fun _ x => x) (fun _ x => x),
    fun p hp => List.mem_cons_of_mem _ (hi.sub p hp)⟩

theorem RI.remove_gevs (hi : RI D c g t h r) {k : Key} {v : EvInfo} (hrem : g.remove k = some (v, g')) :
    RI D c g' t h (('g', k) :: r) :=
  ⟨hi.wfc, hi.wfg.remove hrem, hi.wft, hi.wfh,
    fun p hp => by
      rcases List.mem_cons.1 hp with rfl | hp
      · exact deadIn_g.2 (dead_of_remove hi.wfg hrem)
      · exact (hi.dead p hp).mono (fun _ x => x) (fun _ hd => dead_remove hi.wfg hd hrem) (fun _ x => x) (fun _ x => x),
    fun p hp => List.mem_cons_of_mem _ (hi.sub p hp)⟩

theorem RI.remove_tevs (hi : RI D c g t h r) {k : Key} {v : EvInfo} (hrem : t.remove k = some (v, t')) :
    RI D c g t' h (('t', k) :: r) :=
  ⟨hi.wfc, hi.wfg, hi.wft.remove hrem, hi.wfh,
    fun p hp => by
      rcases List.mem_cons.1 hp with rfl | hp
      · exact deadIn_t.2 (dead_of_remove hi.wft hrem)
      · exact (hi.dead p hp).mono (fun _ x => x) (fun _ x => x) (fun _ hd => dead_remove hi.wft hd hrem) (fun _ x => x),
    fun p hp => List.mem_cons_of_mem _ (hi.sub p hp)⟩

theorem RI.remove_handlers (hi : RI D c g t h r) {k : Key} {v : HInfo} (hrem : h.remove k = some (v, h')) :
    RI D c g t h' (('h', k) :: r) :=
  ⟨hi.wfc, hi.wfg, hi.wft, hi.wfh.remove hrem,
    fun p hp => by
      rcases List.mem_cons.1 hp with rfl | hp
      · exact deadIn_h.2 (dead_of_remove hi.wfh hrem)
      · exact (hi.dead p hp).mono (fun _ x => x) (fun _ x => x) (fun _ x => x) (fun _ hd => dead_remove hi.wfh hd hrem),
    fun p hp => List.mem_cons_of_mem _ (hi.sub p hp)⟩

/-! ### every model function keeps the registry invariant

One `Keeps (RegInv D) _` lemma per model function, in dependency order, up to `execOp` (everything the driver runs). -/

variable {D : List (Char × Key)}

/-- closes the goals `keeps` leaves: a `set` that writes one of the registries -/
syntax "regfix" : tactic
macro_rules | `(tactic| regfix) => `(tactic| first | (refine Keeps.modify fun w h => ?_; split <;> exact h) | (refine Keeps.set ?_; first
      | exact RI.set_comps_byIndex ‹_› ‹_› _
      | exact RI.set_comps ‹_› ‹_› _
      | exact RI.set_handlers ‹_› ‹_› _
      | exact RI.insert_comps ‹_› ‹_›
      | exact RI.insert_gevs ‹_› ‹_›
      | exact RI.insert_tevs ‹_› ‹_›
      | exact RI.insert_handlers ‹_› ‹_›
      | exact RI.remove_comps ‹_› ‹_›
      | exact RI.remove_gevs ‹_› ‹_›
      | exact RI.remove_tevs ‹_› ‹_›
      | exact RI.remove_handlers ‹_› ‹_›))

theorem ri_queueBlind : QueueBlind (RegInv D) := fun _ _ _ h => h

theorem logT_ri (s : String) : Keeps (RegInv D) (logT s) := by
  unfold logT; keeps
  all_goals regfix
macro_rules | `(tactic| keeps_leaf) => `(tactic| exact logT_ri _)
theorem ubErr_ri {α : Type} (s : String) : Keeps (RegInv D) ((ubErr s : M α)) := by
  unfold ubErr; keeps
  all_goals regfix
macro_rules | `(tactic| keeps_leaf) => `(tactic| exact ubErr_ri _)
theorem dbgAssert_ri (c : Bool) (s : String) : Keeps (RegInv D) (dbgAssert c s) := by
  unfold dbgAssert; keeps
  all_goals regfix
macro_rules | `(tactic| keeps_leaf) => `(tactic| exact dbgAssert_ri _ _)
theorem dropCell_ri (ty : Nat) (c : Cell) : Keeps (RegInv D) (dropCell ty c) := by
  unfold dropCell; keeps
  all_goals regfix
macro_rules | `(tactic| keeps_leaf) => `(tactic| exact dropCell_ri _ _)
theorem dropCellIdx_ri (ty : Nat) (c : Cell) : Keeps (RegInv D) (dropCellIdx ty c) := by
  unfold dropCellIdx; keeps
  all_goals regfix
macro_rules | `(tactic| keeps_leaf) => `(tactic| exact dropCellIdx_ri _ _)
theorem dropEvent_ri (it : QItem) : Keeps (RegInv D) (dropEvent it) := by
  unfold dropEvent; keeps
  all_goals regfix
macro_rules | `(tactic| keeps_leaf) => `(tactic| exact dropEvent_ri _)
theorem handlerRefresh_ri (hk : Key) (a : Arch) : Keeps (RegInv D) (handlerRefresh hk a) := by
  unfold handlerRefresh; keeps
  all_goals regfix
macro_rules | `(tactic| keeps_leaf) => `(tactic| exact handlerRefresh_ri _ _)
theorem handlerRemoveArch_ri (hk : Key) (a : Arch) : Keeps (RegInv D) (handlerRemoveArch hk a) := by
  unfold handlerRemoveArch; keeps
  all_goals regfix
macro_rules | `(tactic| keeps_leaf) => `(tactic| exact handlerRemoveArch_ri _ _)
theorem getArch_ri (i : Nat) (s : String) : Keeps (RegInv D) (getArch i s) := by
  unfold getArch; keeps
  all_goals regfix
macro_rules | `(tactic| keeps_leaf) => `(tactic| exact getArch_ri _ _)
theorem setArch_ri (a : Arch) : Keeps (RegInv D) (setArch a) := by
  unfold setArch; keeps
  all_goals regfix
macro_rules | `(tactic| keeps_leaf) => `(tactic| exact setArch_ri _)
theorem freshEpoch_ri  : Keeps (RegInv D) (freshEpoch) := by
  unfold freshEpoch; keeps
  all_goals regfix
macro_rules | `(tactic| keeps_leaf) => `(tactic| exact freshEpoch_ri)
theorem registerHandler_ri (a : Arch) (h : HInfo) : Keeps (RegInv D) (a.registerHandler h) := by
  unfold Arch.registerHandler; keeps
  all_goals regfix
macro_rules | `(tactic| keeps_leaf) => `(tactic| exact registerHandler_ri _ _)
theorem archSpawn_ri (id : Key) : Keeps (RegInv D) (archSpawn id) := by
  unfold archSpawn; keeps
  all_goals regfix
macro_rules | `(tactic| keeps_leaf) => `(tactic| exact archSpawn_ri _)
theorem reserve_ri  : Keeps (RegInv D) (reserve) := by
  unfold reserve; keeps
  all_goals regfix
macro_rules | `(tactic| keeps_leaf) => `(tactic| exact reserve_ri)
theorem spawnAll_ri  : Keeps (RegInv D) (spawnAll) := by
  unfold spawnAll; keeps
  all_goals regfix
macro_rules | `(tactic| keeps_leaf) => `(tactic| exact spawnAll_ri)
theorem resRefresh_ri  : Keeps (RegInv D) (resRefresh) := by
  unfold resRefresh; keeps
  all_goals regfix
macro_rules | `(tactic| keeps_leaf) => `(tactic| exact resRefresh_ri)
theorem setLoc_ri (id : Key) (s : String) (f : Loc → Loc) : Keeps (RegInv D) (setLoc id s f) := by
  unfold setLoc; keeps
  all_goals regfix
macro_rules | `(tactic| keeps_leaf) => `(tactic| exact setLoc_ri _ _ _)
theorem newArch_ri (cs : List Nat) (a b : Option (Nat × Nat)) : Keeps (RegInv D) (newArch cs a b) := by
  unfold newArch; keeps
  all_goals regfix
macro_rules | `(tactic| keeps_leaf) => `(tactic| exact newArch_ri _ _ _)
theorem traverseInsert_ri (src c : Nat) : Keeps (RegInv D) (traverseInsert src c) := by
  unfold traverseInsert; keeps
  all_goals regfix
macro_rules | `(tactic| keeps_leaf) => `(tactic| exact traverseInsert_ri _ _)
theorem traverseRemove_ri (src c : Nat) : Keeps (RegInv D) (traverseRemove src c) := by
  unfold traverseRemove; keeps
  all_goals regfix
macro_rules | `(tactic| keeps_leaf) => `(tactic| exact traverseRemove_ri _ _)
theorem moveEntity_ri (src : Loc) (dst : Nat) (new : List (Nat × Cell)) : Keeps (RegInv D) (moveEntity src dst new) := by
  unfold moveEntity; keeps
  all_goals regfix
macro_rules | `(tactic| keeps_leaf) => `(tactic| exact moveEntity_ri _ _ _)
theorem removeEntity_ri (loc : Loc) : Keeps (RegInv D) (removeEntity loc) := by
  unfold removeEntity; keeps
  all_goals regfix
macro_rules | `(tactic| keeps_leaf) => `(tactic| exact removeEntity_ri _)
theorem push_ri (it : QItem) : Keeps (RegInv D) (push it) := by
  unfold push; keeps
  all_goals regfix
macro_rules | `(tactic| keeps_leaf) => `(tactic| exact push_ri _)
theorem takeBudget_ri  : Keeps (RegInv D) (takeBudget) := by
  unfold takeBudget; keeps
  all_goals regfix
macro_rules | `(tactic| keeps_leaf) => `(tactic| exact takeBudget_ri)
theorem freshE_ri  : Keeps (RegInv D) (freshE) := by
  unfold freshE; keeps
  all_goals regfix
macro_rules | `(tactic| keeps_leaf) => `(tactic| exact freshE_ri)
theorem freshC_ri  : Keeps (RegInv D) (freshC) := by
  unfold freshC; keeps
  all_goals regfix
macro_rules | `(tactic| keeps_leaf) => `(tactic| exact freshC_ri)
theorem senderPush_ri (h : HInfo) (it : QItem) : Keeps (RegInv D) (senderPush h it) := by
  unfold senderPush; keeps
  all_goals regfix
macro_rules | `(tactic| keeps_leaf) => `(tactic| exact senderPush_ri _ _)
theorem paramRows_ri (p : Param) : Keeps (RegInv D) (paramRows p) := by
  unfold paramRows; keeps
  all_goals regfix
macro_rules | `(tactic| keeps_leaf) => `(tactic| exact paramRows_ri _)
theorem itemAt_ri (st : AS) (a : Arch) (row : Nat) : Keeps (RegInv D) (itemAt st a row) := by
  unfold itemAt; keeps
  all_goals regfix
macro_rules | `(tactic| keeps_leaf) => `(tactic| exact itemAt_ri _ _ _)
theorem paramGet_ri (p : Param) (id : Key) : Keeps (RegInv D) (paramGet p id) := by
  unfold paramGet; keeps
  all_goals regfix
macro_rules | `(tactic| keeps_leaf) => `(tactic| exact paramGet_ri _ _)
theorem bumpCell_ri (ai row c : Nat) : Keeps (RegInv D) (bumpCell ai row c) := by
  unfold bumpCell; keeps
  all_goals regfix
macro_rules | `(tactic| keeps_leaf) => `(tactic| exact bumpCell_ri _ _ _)
theorem getParam_ri (h : HInfo) (p : Nat) : Keeps (RegInv D) (getParam h p) := by
  unfold getParam; keeps
  all_goals regfix
macro_rules | `(tactic| keeps_leaf) => `(tactic| exact getParam_ri _ _)
theorem runAct_ri (hk : Key) (it : QItem) (loc : Loc) (act : Act) : Keeps (RegInv D) (runAct hk it loc act) := by
  unfold runAct; keeps
  all_goals regfix
macro_rules | `(tactic| keeps_leaf) => `(tactic| exact runAct_ri _ _ _ _)
theorem runHandler_ri (hk : Key) (it : QItem) (loc : Loc) : Keeps (RegInv D) (runHandler hk it loc) := by
  unfold runHandler; keeps
  all_goals regfix
macro_rules | `(tactic| keeps_leaf) => `(tactic| exact runHandler_ri _ _ _)
theorem deliverOne_ri (it : QItem) : Keeps (RegInv D) (deliverOne it) := by
  unfold deliverOne; keeps
  all_goals regfix
macro_rules | `(tactic| keeps_leaf) => `(tactic| exact deliverOne_ri _)
theorem dropQueued_ri  : Keeps (RegInv D) (dropQueued) := by
  unfold dropQueued; keeps
  all_goals regfix
macro_rules | `(tactic| keeps_leaf) => `(tactic| exact dropQueued_ri)
theorem flush_ri (fuel : Nat) : Keeps (RegInv D) (flush fuel) :=
  flushWith_keeps ri_queueBlind deliverOne_ri dropQueued_ri fuel
macro_rules | `(tactic| keeps_leaf) => `(tactic| exact flush_ri _)
theorem ensureAddG_ri : Keeps (RegInv D) (ensureAddG) := by
  unfold ensureAddG; keeps
  all_goals regfix
macro_rules | `(tactic| keeps_leaf) => `(tactic| exact ensureAddG_ri)
theorem addGlobalEvent_ri (ty : EvTy) : Keeps (RegInv D) (addGlobalEvent ty) := by
  unfold addGlobalEvent; keeps
  all_goals regfix
macro_rules | `(tactic| keeps_leaf) => `(tactic| exact addGlobalEvent_ri _)
theorem sendGlobal_ri (ty : EvTy) (pay : Payload) : Keeps (RegInv D) (sendGlobal ty pay) := by
  unfold sendGlobal; keeps
  all_goals regfix
macro_rules | `(tactic| keeps_leaf) => `(tactic| exact sendGlobal_ri _ _)
theorem addComponent_ri (ty : Nat) : Keeps (RegInv D) (addComponent ty) := by
  unfold addComponent; keeps
  all_goals regfix
macro_rules | `(tactic| keeps_leaf) => `(tactic| exact addComponent_ri _)
theorem addTargetedEvent_ri (ty : EvTy) : Keeps (RegInv D) (addTargetedEvent ty) := by
  unfold addTargetedEvent; keeps
  all_goals regfix
macro_rules | `(tactic| keeps_leaf) => `(tactic| exact addTargetedEvent_ri _)
theorem addEvent_ri (ty : EvTy) : Keeps (RegInv D) (addEvent ty) := by
  unfold addEvent; keeps
  all_goals regfix
macro_rules | `(tactic| keeps_leaf) => `(tactic| exact addEvent_ri _)
theorem sendTargeted_ri (ty : EvTy) (tg : Key) (pay : Payload) : Keeps (RegInv D) (sendTargeted ty tg pay) := by
  unfold sendTargeted; keeps
  all_goals regfix
macro_rules | `(tactic| keeps_leaf) => `(tactic| exact sendTargeted_ri _ _ _)
theorem initQuery_ri (q : Query) (cfg : Config) : Keeps (RegInv D) (initQuery q cfg) := by
  unfold initQuery; keeps
  all_goals regfix
macro_rules | `(tactic| keeps_leaf) => `(tactic| exact initQuery_ri _ _)
theorem initParam_ri (ps : PSpec) (cfg : Config) : Keeps (RegInv D) (initParam ps cfg) := by
  unfold initParam; keeps
  all_goals regfix
macro_rules | `(tactic| keeps_leaf) => `(tactic| exact initParam_ri _ _)
theorem addHandler_ri (hs : HSpec) : Keeps (RegInv D) (addHandler hs) := by
  unfold addHandler; keeps
  all_goals regfix
macro_rules | `(tactic| keeps_leaf) => `(tactic| exact addHandler_ri _)
theorem removeHandler_ri (k : Key) : Keeps (RegInv D) (removeHandler k) := by
  unfold removeHandler; keeps
  all_goals regfix
macro_rules | `(tactic| keeps_leaf) => `(tactic| exact removeHandler_ri _)
theorem assertQueueEmpty_ri : Keeps (RegInv D) (assertQueueEmpty) := by
  unfold assertQueueEmpty; keeps
  all_goals regfix
macro_rules | `(tactic| keeps_leaf) => `(tactic| exact assertQueueEmpty_ri)
theorem removeEvent_ri (ty : EvTy) (k : Key) : Keeps (RegInv D) (removeEvent ty k) := by
  unfold removeEvent; keeps
  all_goals regfix
macro_rules | `(tactic| keeps_leaf) => `(tactic| exact removeEvent_ri _ _)
theorem archsRemoveComponent_ri (info : CompInfo) : Keeps (RegInv D) (archsRemoveComponent info) := by
  unfold archsRemoveComponent; keeps
  all_goals regfix
macro_rules | `(tactic| keeps_leaf) => `(tactic| exact archsRemoveComponent_ri _)
theorem removeComponent_ri (k : Key) : Keeps (RegInv D) (removeComponent k) := by
  unfold removeComponent; keeps
  all_goals regfix
macro_rules | `(tactic| keeps_leaf) => `(tactic| exact removeComponent_ri _)
theorem opSpawn_ri : Keeps (RegInv D) (opSpawn) := by
  unfold opSpawn; keeps
  all_goals regfix
macro_rules | `(tactic| keeps_leaf) => `(tactic| exact opSpawn_ri)
theorem execOp_ri (op : Op) : Keeps (RegInv D) (execOp op) := by
  unfold execOp; keeps
  all_goals regfix
macro_rules | `(tactic| keeps_leaf) => `(tactic| exact execOp_ri _)

end Evenio
