import Evenio.Proofs.Disposition
/-! When and on which state the built-in effect of a delivery (`effectPhase`: Insert / Remove / Spawn / Despawn) is
    applied (C09): after the handler phase, on the state the handlers left, exactly once, iff the target was alive (or
    the event is global) and no handler took the event. -/
namespace Evenio

/-- the state is exactly `w0` -/
abbrev SAME (w0 : World) : World → Prop := fun w => w = w0

theorem getArch_same (w0 : World) (i : Nat) (s : String) : Keeps (SAME w0) (getArch i s) := by
  unfold getArch ubErr; keeps

/-- the lookup phase only reads -/
theorem lookupPhase_same (w0 : World) (it : QItem) (w : World) : Keeps (SAME w0) (lookupPhase it w) := by
  unfold lookupPhase ubErr
  have := getArch_same w0
  keeps
  all_goals exact this _ _

theorem lookupPhase_state (it : QItem) (w w0 : World) : ((lookupPhase it w).run.run w0).2 = w0 :=
  (lookupPhase_same w0 it w).run w0 rfl

/-- the handler list is `none` exactly for a targeted event whose target is not a live entity; otherwise `loc` is the
    target's location (`Loc.NULL` for a global event) -/
theorem lookupPhase_cases {it : QItem} {w w0 w1 : World} {info : EvInfo} {hs : Option (List Key)} {loc : Loc}
    (h : (lookupPhase it w).run.run w0 = (.ok (info, hs, loc), w1)) :
    (hs = none ↔ it.ty.targeted = true ∧ w.entities.get it.target = none) ∧
    (it.ty.targeted = true → hs.isSome → w.entities.get it.target = some loc) ∧
    (it.ty.targeted = false → loc = Loc.NULL) := by
  unfold lookupPhase at h
  split at h
  · rename_i ht
    split at h
    · split at h
      · rename_i hg
        cases h
        refine ⟨⟨fun _ => ⟨ht, hg⟩, fun _ => rfl⟩, ?_, ?_⟩
        · intro _ hc; exact absurd hc (by simp)
        · intro _; rfl
      · rename_i l hg
        rw [run_bind] at h
        generalize (getArch _ _).run.run w0 = r at h
        obtain ⟨(e|a), w2⟩ := r
        · cases h
        · cases h
          refine ⟨⟨?_, ?_⟩, fun _ _ => hg, ?_⟩
          · intro hc; cases hc
          · intro hc; rw [hg] at hc; cases hc.2
          · intro hc; rw [ht] at hc; cases hc
    · cases h
  · rename_i ht
    have ht' : it.ty.targeted = false := by cases hb : it.ty.targeted <;> simp_all
    split at h
    · split at h
      · cases h
        refine ⟨⟨?_, ?_⟩, ?_, fun _ => rfl⟩
        · intro hc; cases hc
        · intro hc; rw [ht'] at hc; cases hc.1
        · intro hc; rw [ht'] at hc; cases hc
      · cases h
    · cases h

/-- **Normal return of a delivery, phase by phase.** The lookup only reads (`w` is unchanged); then either the target
    is dead and only the event is dropped, or the handler phase runs FROM `w` — the handlers see the world as it was
    before the built-in change — to `wh`, the pushed segment is reversed, and — unless a handler took the event — the
    built-in effect is applied, once, to that state. -/
theorem deliverOne_ok_cases {it : QItem} {w w' : World} (h : (deliverOne it).run.run w = (.ok (), w')) :
    ∃ info hs loc,
      (lookupPhase it w).run.run w = (.ok (info, hs, loc), w) ∧ w.evInfo it = some info ∧
      match hs with
      | none => w' = if info.needsDrop then dropEventW it w else w
      | some hs =>
        ∃ owned wh, (handlerPhase it info loc hs).run.run w = (.ok owned, wh) ∧
          if owned then w' = { wh with queue := wh.queue.reverse }
          else (effectPhase it info loc).run.run { wh with queue := wh.queue.reverse } = (.ok (), w') := by
  rw [deliverOne_run] at h
  have hst := lookupPhase_state it w w
  generalize hl : (lookupPhase it w).run.run w = r at h hst
  obtain ⟨(e|⟨info, hs, loc⟩), w1⟩ := r
  · cases h
  · simp only at hst
    subst hst
    refine ⟨info, hs, loc, rfl, lookupPhase_info hl, ?_⟩
    cases hs with
    | none =>
      simp only at h ⊢
      split at h
      · rename_i hn
        rw [run_dropEvent] at h
        cases h
        rw [if_pos hn]
      · rename_i hn
        cases h
        rw [if_neg hn]
    | some hs =>
      simp only at h ⊢
      generalize hh : (handlerPhase it info loc hs).run.run w1 = r at h
      obtain ⟨(e|owned), wh⟩ := r
      · cases h
      · refine ⟨owned, wh, rfl, ?_⟩
        simp only at h
        cases owned with
        | true =>
          simp only [if_true] at h ⊢
          cases h; rfl
        | false =>
          simp only [Bool.false_eq_true, if_false] at h ⊢
          exact h

/-! ### dead target -/

/-- the lookup for a targeted event whose target is not alive -/
theorem lookupPhase_dead {it : QItem} {w w0 : World} {k : Key} {info : EvInfo} (ht : it.ty.targeted = true)
    (hreg : w.tevs.getByIndex it.idx = some (k, info)) (hdead : w.entities.get it.target = none) :
    (lookupPhase it w).run.run w0 = (.ok (info, none, Loc.NULL), w0) := by
  unfold lookupPhase
  rw [if_pos ht, hreg]
  dsimp only
  rw [hdead]
  rfl

/-- **Acting on a dead entity is a no-op**, as an equation: delivering a (registered) targeted event whose target is
    not a live entity runs no handler and no built-in effect; the only thing that happens is that the event value is
    dropped if its registry entry has a drop function. -/
theorem deliverOne_dead_run {it : QItem} {w : World} {k : Key} {info : EvInfo} (ht : it.ty.targeted = true)
    (hreg : w.tevs.getByIndex it.idx = some (k, info)) (hdead : w.entities.get it.target = none) :
    (deliverOne it).run.run w = (.ok (), if info.needsDrop then dropEventW it w else w) := by
  rw [deliverOne_run, lookupPhase_dead ht hreg hdead]
  dsimp only
  split
  · rw [run_dropEvent]
  · rfl

/-! ### the built-in effect, kind by kind -/

theorem effectPhase_normal {it : QItem} {info : EvInfo} {loc : Loc} (h : info.kind = .normal) :
    effectPhase it info loc = (if info.needsDrop then dropEvent it else pure ()) := by
  unfold effectPhase; rw [h]

theorem effectPhase_insert {it : QItem} {info : EvInfo} {loc : Loc} {c : Nat} (h : info.kind = .insert c) :
    effectPhase it info loc = (do
      dbgAssert (loc != Loc.NULL) "world.rs:flush:insert:location"
      let dst ← traverseInsert loc.arch c
      moveEntity loc dst [(c, it.pay.cell)]) := by
  unfold effectPhase; rw [h]

theorem effectPhase_remove {it : QItem} {info : EvInfo} {loc : Loc} {c : Nat} (h : info.kind = .remove c) :
    effectPhase it info loc = (do
      let dst ← traverseRemove loc.arch c
      moveEntity loc dst []) := by
  unfold effectPhase; rw [h]

theorem effectPhase_spawn {it : QItem} {info : EvInfo} {loc : Loc} (h : info.kind = .spawn) :
    effectPhase it info loc = spawnAll := by
  unfold effectPhase; rw [h]

theorem effectPhase_despawn {it : QItem} {info : EvInfo} {loc : Loc} (h : info.kind = .despawn) :
    effectPhase it info loc = (do spawnAll; removeEntity loc; resRefresh) := by
  unfold effectPhase; rw [h]

/-! ### inserting a component the entity has, removing one it lacks -/

theorem run_getArch {w : World} {i : Nat} {a : Arch} (s : String) (h : w.archs.get i = some a) :
    (getArch i s).run.run w = (.ok a, w) := by
  unfold getArch
  rw [run_bind, run_get]
  dsimp only
  rw [h]
  rfl

theorem run_dbgAssert_true {w : World} {c : Bool} (s : String) (h : w.debug = false ∨ c = true) :
    (dbgAssert c s).run.run w = (.ok (), w) := by
  unfold dbgAssert
  rw [run_bind, run_get]
  dsimp only
  rcases h with h | h <;> simp [h] <;> rfl

/-- `traverse_insert` of a component the source archetype already has, when no edge is cached for it (or the cached
    edge is the self-loop): the destination is the source archetype itself and nothing changes -/
theorem traverseInsert_existing {w : World} {src c : Nat} {sa : Arch} (ha : w.archs.get src = some sa)
    (hc : sa.comps.contains c = true) (he : edgeGet sa.insEdges c = none ∨ edgeGet sa.insEdges c = some src)
    (hd : w.debug = false ∨ (w.comps.getByIndex c).isSome = true) :
    (traverseInsert src c).run.run w = (.ok src, w) := by
  unfold traverseInsert
  rw [run_bind, run_get]
  dsimp only
  rw [run_bind, run_dbgAssert_true _ hd]
  dsimp only
  rw [run_bind, run_getArch _ ha]
  dsimp only
  rcases he with he | he
  · rw [he]
    dsimp only
    rw [if_pos hc]
    rfl
  · rw [he]
    rfl

/-- `traverse_remove` of a component the source archetype lacks (no cached edge, or the self-loop): same archetype,
    nothing changes -/
theorem traverseRemove_absent {w : World} {src c : Nat} {sa : Arch} (ha : w.archs.get src = some sa)
    (hc : sa.comps.contains c = false) (he : edgeGet sa.remEdges c = none ∨ edgeGet sa.remEdges c = some src) :
    (traverseRemove src c).run.run w = (.ok src, w) := by
  unfold traverseRemove
  rw [run_bind, run_getArch _ ha]
  dsimp only
  rcases he with he | he
  · rw [he]
    dsimp only
    rw [if_pos (by rw [hc]; rfl)]
    rfl
  · rw [he]
    rfl

/-- the same-archetype branch of `moveEntity`, verbatim (`Column::assign` for every new component) -/
def moveSame (src : Loc) (new : List (Nat × Cell)) : M Unit := do
  let a ← getArch src.arch "archetype.rs:move_entity:same"
  let mut a := a
  for (c, x) in new do
    match a.colIdx c with
    | none => ubErr "archetype.rs:move_entity:column_of_mut"
    | some i =>
      match a.cols[i]? >>= fun col => assignCol col src.row x with
      | none => ubErr "archetype.rs:assign:oob"
      | some (col', old) =>
        dropCellIdx c old
        a := { a with cols := a.cols.set i col' }
  setArch a
  pure ()

/-- `moveEntity` to the archetype the entity is already in is the assignment branch -/
theorem moveEntity_same (src : Loc) (new : List (Nat × Cell)) : moveEntity src src.arch new = moveSame src new := by
  unfold moveEntity moveSame
  rw [if_pos (beq_self_eq_true _)]
  rfl

theorem slab_set_self {α : Type} {s : Slab α} {i : Nat} {a : α} (h : s.get i = some a) : s.set i a = s := by
  obtain ⟨entries, next⟩ := s
  unfold Slab.get at h
  unfold Slab.set
  dsimp only at h ⊢
  split at h
  · rename_i b hb
    cases h
    have hi : i < entries.length := by
      rcases Nat.lt_or_ge i entries.length with hi | hi
      · exact hi
      · rw [List.getElem?_eq_none hi] at hb; cases hb
    have hb' : entries[i] = .occ a := by
      rw [List.getElem?_eq_getElem hi] at hb; exact Option.some.inj hb
    have : entries.set i (.occ a) = entries := by
      rw [← hb', List.set_getElem_self]
    rw [this]
  · cases h

/-- moving an entity within its archetype with nothing to assign rewrites the archetype with itself -/
theorem moveSame_nil {w : World} {src : Loc} {a : Arch} (ha : w.archs.get src.arch = some a)
    (hidx : a.index = src.arch) : (moveSame src []).run.run w = (.ok (), w) := by
  unfold moveSame
  rw [run_bind, run_getArch _ ha]
  dsimp only
  rw [List.forIn_nil, run_bind, run_pure]
  dsimp only
  rw [run_bind]
  unfold setArch
  rw [run_modify, hidx, slab_set_self ha]
  rfl

/-- moving an entity within its archetype with one component to assign: `assignCol` replaces the value in the
    component's column at the entity's row; the old value is dropped (`dropCellIdx`); nothing else changes -/
theorem moveSame_single {w : World} {src : Loc} {a : Arch} {c i : Nat} {col : List Cell} {old x : Cell}
    (ha : w.archs.get src.arch = some a) (hc : a.colIdx c = some i) (hcol : a.cols[i]? = some col)
    (hrow : col[src.row]? = some old) :
    (moveSame src [(c, x)]).run.run w =
      (.ok (), { dropCellW (w.compTy c) old w with
        archs := w.archs.set a.index { a with cols := a.cols.set i (col.set src.row x) } }) := by
  have hassign : (a.cols[i]? >>= fun col => assignCol col src.row x) = some (col.set src.row x, old) := by
    rw [hcol]
    show assignCol col src.row x = _
    unfold assignCol
    rw [hrow]
  unfold moveSame
  rw [run_bind, run_getArch _ ha]
  simp only [List.forIn_cons, List.forIn_nil, hc, hassign, dropCellIdx, run_bind, run_get, run_dropCell, run_pure,
    setArch, run_modify]
  cases hn : compNeedsDrop (w.compTy c) <;> simp [dropCellW, hn]

end Evenio
