import Evenio.Generated.HandlerListGen
import Evenio.Model.HandlerList
import Evenio.Props.C07
/-! The functions regenerated from `/repo/src/handler.rs` by `tools/rs2lean` (`Evenio.Gen.HandlerList.insert`, `.remove`)
    ARE the hand model's `HandlerList.insert` / `HandlerList.remove` (hand-written proofs; the generated file is rewritten
    on every run of `tools/extract.py`, so these theorems are re-checked against what the code says now).
    With them every theorem about the hand model (`Proofs/HandlerList.lean`, `Props/C07.lean`: `insert_inv`, `remove_inv`,
    ordering by priority then insertion, …) holds for the code as translated.
    Core Lean only. -/
namespace Evenio
variable {ρ : Type}

/-- the translated `HandlerList::insert` is the hand model's `insert` -/
theorem gen_insert_eq (hl : HandlerList ρ) (p : ρ) (prio : Priority) :
    Gen.HandlerList.insert hl p prio = hl.insert p prio := by
  cases prio <;> rfl

/-- the list part of the translated `HandlerList::remove` is the hand model's `remove` -/
theorem gen_remove_eq [DecidableEq ρ] (hl : HandlerList ρ) (p : ρ) :
    (Gen.HandlerList.remove hl p).1 = hl.remove p := by
  obtain ⟨before, after, entries⟩ := hl
  simp only [Gen.HandlerList.remove, HandlerList.remove, Rs2Lean.vecPosition, Rs2Lean.vecRemove]
  cases List.idxOf? p entries with
  | none => rfl
  | some idx =>
    by_cases h1 : idx < after <;> by_cases h2 : idx < before <;> simp [h1, h2]

/-- the bool returned by the translated `HandlerList::remove` says whether the handler was in the list -/
theorem gen_remove_found [DecidableEq ρ] (hl : HandlerList ρ) (p : ρ) :
    (Gen.HandlerList.remove hl p).2 = (hl.entries.idxOf? p).isSome := by
  simp only [Gen.HandlerList.remove, Rs2Lean.vecPosition]
  cases List.idxOf? p hl.entries <;> rfl

/-- … i.e. exactly when it was a member -/
theorem gen_remove_found_iff [DecidableEq ρ] (hl : HandlerList ρ) (p : ρ) :
    (Gen.HandlerList.remove hl p).2 = true ↔ p ∈ hl.entries := by
  rw [gen_remove_found]
  simp [List.isSome_idxOf?]

/-- when nothing is found the translated `remove` changes nothing -/
theorem gen_remove_not_found [DecidableEq ρ] (hl : HandlerList ρ) (p : ρ)
    (h : (Gen.HandlerList.remove hl p).2 = false) : (Gen.HandlerList.remove hl p).1 = hl := by
  rw [gen_remove_found] at h
  simp only [Gen.HandlerList.remove, Rs2Lean.vecPosition]
  cases hi : List.idxOf? p hl.entries with
  | none => rfl
  | some idx => simp [hi] at h

/-! ### the theorems about the hand model, restated for the translated code -/

open HandlerList in
/-- the cursor invariant `before ≤ after ≤ len` is kept by the translated `insert` -/
theorem gen_insert_inv {hl : HandlerList ρ} (h : Inv hl) (p : ρ) (prio : Priority) :
    Inv (Gen.HandlerList.insert hl p prio) := by
  rw [gen_insert_eq]; exact insert_inv h p prio

open HandlerList in
/-- the cursor invariant is kept by the translated `remove` -/
theorem gen_remove_inv [DecidableEq ρ] {hl : HandlerList ρ} (h : Inv hl) (p : ρ) :
    Inv (Gen.HandlerList.remove hl p).1 := by
  rw [gen_remove_eq]; exact remove_inv h p

open HandlerList in
/-- the translated `insert` keeps the list ordered by (priority, insertion number) -/
theorem gen_insert_sorted {key : ρ → Priority × Nat} {hl : HandlerList ρ} (hs : SortedBy key hl)
    (hi : Inv hl) {p : ρ} {prio : Priority} {n : Nat} (hk : key p = (prio, n))
    (hn : ∀ x ∈ hl.entries, (key x).2 < n) : SortedBy key (Gen.HandlerList.insert hl p prio) := by
  rw [gen_insert_eq]; exact insert_sorted hs hi hk hn

open HandlerList in
/-- the translated `remove` keeps the list ordered by (priority, insertion number) -/
theorem gen_remove_sorted [DecidableEq ρ] {key : ρ → Priority × Nat} {hl : HandlerList ρ}
    (hs : SortedBy key hl) (hi : Inv hl) (p : ρ) : SortedBy key (Gen.HandlerList.remove hl p).1 := by
  rw [gen_remove_eq]; exact remove_sorted hs hi p

end Evenio
