import Evenio.Proofs.Inv.Obligations
/-! # The component ledger along whole WORLD histories, part 1: the one-state predicate and the storage primitives

`Props/C12.lean` / `Props/C02World.lean` prove the destruction-ledger facts of C12 per storage primitive, for normal
returns (`moveEntity`, `removeEntity` log exactly the cells they drop).  This file and its two successors push ONE
predicate through EVERY model function up to `execOp`, for every exit that the caller can observe and go on from
(normal return and panic; after a `ub` / `assert` marker the driver stops the history and nothing is claimed):

* `cellSers`, `storedSers`, `itemSers`, `queuedSers`, `dropSers` — the serials of the cells in the archetype columns,
  of the cells carried by queued `Insert` events, of the ledger `cdrops`;
* `CLF A Q D n X` / `CL X w` — **no serial (other than the dummy `0` of the default cell) occurs twice** among stored cells, queued `Insert` payloads, the ledger and
  the list `X`, and all of them are below the serial counter `n`.  `X` is a parameter: the serials that are, at this
  point of the run, *somewhere else* — the payload of the event being delivered (popped from the queue, not yet
  stored), the part of the queue `flushWith` has set aside, the cells of an archetype `remove_component` has taken out
  of the slab and not yet dropped, the ledger entries of earlier protocol steps (`step` clears `cdrops`).  The
  predicate also carries the two structural facts without which the ledger is NOT kept: every archetype is stored at
  its own slab index (`setArch a` writes slot `a.index`) and the columns of an archetype have one common length that
  does not exceed the number of rows (`ColsOk`: otherwise `move_entity` logs dropped cells and panics before it has
  taken them out of the columns, see `moveEntity_cl`).
* triples `Hoare (CL (… ++ X)) f (fun _ => CL X) (PanicOnly (CL X))`, `KP (CL X) f` for the storage primitives
  (`setArch`, `archSpawn`, `spawnAll`, `newArch`, `traverseInsert`, `traverseRemove`, `moveEntity`, `removeEntity`,
  `bumpCell`) and the ledger / queue writes (`dropCell`, `dropEvent`, `push`, `senderPush`, `freshC`).

Nothing here needs the world invariant `WInv`: the predicate is inductive on its own, for EVERY operation (valid or
not, `drop` and unbounded `setgen` included) and after EVERY panic (the fuel marker and panics that leave reservations
pending, finding F8, included). -/
namespace Evenio.CompLedger
open SparseMap (swapRemove)
set_option linter.unusedSimpArgs false

/-! ## serials -/

/-- the serials of all cells of a column list -/
def cellSers (cols : List (List Cell)) : List Nat := cols.flatten.map (·.ser)

def entrySers : SlabEntry Arch → List Nat
  | .occ a => cellSers a.cols
  | .vacant _ => []

/-- the serials of all cells stored in any archetype column -/
def storedSers (A : Slab Arch) : List Nat := A.entries.flatMap entrySers

/-- the serial of the cell in the payload of a queued event.  `Insert` events own a component value; every other event
    carries the default cell, whose serial `0` no value has (serials are handed out from `1`): the ledger predicate
    ignores the serial `0`, so that the accounting does not depend on what the registry says about the event. -/
def itemSers (q : QItem) : List Nat := [q.pay.cell.ser]

def queuedSers (Q : List QItem) : List Nat := Q.flatMap itemSers

/-- the serials of the destruction ledger -/
def dropSers (D : List (Nat × Nat)) : List Nat := D.map (·.2)

@[simp] theorem cellSers_nil : cellSers [] = [] := rfl
@[simp] theorem queuedSers_nil : queuedSers [] = [] := rfl
@[simp] theorem dropSers_nil : dropSers [] = [] := rfl

theorem cellSers_cons (c : List Cell) (cols : List (List Cell)) :
    cellSers (c :: cols) = c.map (·.ser) ++ cellSers cols := by
  simp [cellSers]

theorem cellSers_append (a b : List (List Cell)) : cellSers (a ++ b) = cellSers a ++ cellSers b := by
  simp [cellSers]

theorem queuedSers_append (a b : List QItem) : queuedSers (a ++ b) = queuedSers a ++ queuedSers b := by
  simp [queuedSers]

theorem queuedSers_cons (q : QItem) (l : List QItem) : queuedSers (q :: l) = itemSers q ++ queuedSers l := by
  simp [queuedSers]

theorem count_queuedSers_reverse (l : List QItem) (s : Nat) :
    (queuedSers l.reverse).count s = (queuedSers l).count s := by
  induction l with
  | nil => rfl
  | cons q l ih =>
    rw [List.reverse_cons, queuedSers_append, queuedSers_cons, queuedSers_cons, queuedSers_nil]
    simp only [List.count_append, List.count_nil, ih]
    omega

theorem dropSers_cons (p : Nat × Nat) (D : List (Nat × Nat)) : dropSers (p :: D) = p.2 :: dropSers D := rfl

theorem cellSers_replicate_nil (n : Nat) : cellSers (List.replicate n []) = [] := by
  induction n with
  | zero => rfl
  | succ n ih => rw [List.replicate_succ, cellSers_cons, ih]; rfl

theorem cellSers_map_nil {α : Type} (l : List α) : cellSers (l.map fun _ => []) = [] := by
  induction l with
  | nil => rfl
  | cons a l ih => rw [List.map_cons, cellSers_cons, ih]; rfl

/-! ### counting under list updates -/

theorem cnt_flatMap_set {α : Type} (f : α → List Nat) (l : List α) (i : Nat) (x y : α) (h : l[i]? = some x)
    (s : Nat) : ((l.set i y).flatMap f).count s + (f x).count s = (l.flatMap f).count s + (f y).count s := by
  induction l generalizing i with
  | nil => simp at h
  | cons a l ih =>
    cases i with
    | zero =>
      simp only [List.getElem?_cons_zero, Option.some.injEq] at h
      subst h
      simp only [List.set_cons_zero, List.flatMap_cons, List.count_append]
      omega
    | succ i =>
      simp only [List.getElem?_cons_succ] at h
      have := ih i h
      simp only [List.set_cons_succ, List.flatMap_cons, List.count_append]
      omega

theorem count_cellSers_set (cols : List (List Cell)) (i : Nat) (c c' : List Cell) (h : cols[i]? = some c) (s : Nat) :
    (cellSers (cols.set i c')).count s + (c.map (·.ser)).count s
      = (cellSers cols).count s + (c'.map (·.ser)).count s := by
  induction cols generalizing i with
  | nil => simp at h
  | cons a l ih =>
    cases i with
    | zero =>
      simp only [List.getElem?_cons_zero, Option.some.injEq] at h
      subst h
      simp only [List.set_cons_zero, cellSers_cons, List.count_append]
      omega
    | succ i =>
      simp only [List.getElem?_cons_succ] at h
      have := ih i h
      simp only [List.set_cons_succ, cellSers_cons, List.count_append]
      omega

theorem count_map_set (col : List Cell) (row : Nat) (x old : Cell) (h : col[row]? = some old) (s : Nat) :
    ((col.set row x).map (·.ser)).count s + [old.ser].count s = (col.map (·.ser)).count s + [x.ser].count s := by
  induction col generalizing row with
  | nil => simp at h
  | cons a l ih =>
    cases row with
    | zero =>
      simp only [List.getElem?_cons_zero, Option.some.injEq] at h
      subst h
      simp only [List.set_cons_zero, List.map_cons, List.count_cons, List.count_nil]
      omega
    | succ i =>
      simp only [List.getElem?_cons_succ] at h
      have := ih i h
      simp only [List.set_cons_succ, List.map_cons, List.count_cons] at this ⊢
      omega

theorem count_map_swapRemove (col : List Cell) (row : Nat) (x : Cell) (h : col[row]? = some x) (s : Nat) :
    ((swapRemove col row).map (·.ser)).count s + [x.ser].count s = (col.map (·.ser)).count s := by
  have := ((perm_swapRemove col row x h).map (·.ser)).count_eq s
  rw [this, List.map_cons, List.count_cons, List.count_cons, List.count_nil]
  omega

/-! ### the slab -/

theorem count_storedSers_set {A : Slab Arch} {i : Nat} {old : Arch} (h : A.get i = some old) (a : Arch) (s : Nat) :
    (storedSers (A.set i a)).count s + (cellSers old.cols).count s
      = (storedSers A).count s + (cellSers a.cols).count s := by
  have he : A.entries[i]? = some (.occ old) := (Slab.get_eq_some_iff _ _ _).1 h
  unfold storedSers Slab.set
  rw [he]
  exact cnt_flatMap_set entrySers A.entries i (.occ old) (.occ a) he s

theorem slab_set_of_none {A : Slab Arch} {i : Nat} (h : A.get i = none) (a : Arch) : A.set i a = A := by
  unfold Slab.set
  split
  · rename_i b hb
    rw [(Slab.get_eq_some_iff _ _ _).2 hb] at h; cases h
  · rfl

/-- what `insert` can do to a lookup -/
theorem slab_get_insert_cases {A : Slab Arch} {a b : Arch} {i : Nat} (h : (A.insert a).get i = some b) :
    A.get i = some b ∨ (i = A.vacantKey ∧ b = a) := by
  unfold Slab.insert at h
  simp only at h
  split at h
  · rename_i hk
    rw [Slab.get_eq_some_iff] at h
    simp only at h
    by_cases hi : i < A.entries.length
    · rw [List.getElem?_append_left hi] at h
      exact .inl ((Slab.get_eq_some_iff _ _ _).2 h)
    · have hi' : A.entries.length ≤ i := Nat.le_of_not_lt hi
      rw [List.getElem?_append_right hi'] at h
      cases hd : i - A.entries.length with
      | zero =>
        rw [hd] at h
        simp only [List.getElem?_cons_zero, Option.some.injEq, SlabEntry.occ.injEq] at h
        refine .inr ⟨?_, h.symm⟩
        unfold Slab.vacantKey; omega
      | succ n => rw [hd] at h; simp at h
  · split at h
    · rename_i n hn
      rw [Slab.get_eq_some_iff] at h
      simp only at h
      rw [List.getElem?_set] at h
      split at h
      · rename_i hi
        split at h
        · simp only [Option.some.injEq, SlabEntry.occ.injEq] at h
          exact .inr ⟨hi.symm, h.symm⟩
        · cases h
      · exact .inl ((Slab.get_eq_some_iff _ _ _).2 h)
    · exact .inl h

theorem count_storedSers_insert (A : Slab Arch) (a : Arch) (ha : cellSers a.cols = []) (s : Nat) :
    (storedSers (A.insert a)).count s = (storedSers A).count s := by
  unfold Slab.insert
  simp only
  split
  · unfold storedSers
    simp only [List.flatMap_append, List.flatMap_cons, List.flatMap_nil, entrySers, ha, List.append_nil]
  · split
    · rename_i n hn
      have := cnt_flatMap_set entrySers A.entries A.next (.vacant n) (.occ a) hn s
      simp only [entrySers, ha, List.count_nil, Nat.add_zero] at this
      exact this
    · rfl

theorem count_storedSers_remove {A A' : Slab Arch} {i : Nat} {a : Arch} (h : A.remove i = some (a, A')) (s : Nat) :
    (storedSers A').count s + (cellSers a.cols).count s = (storedSers A).count s := by
  unfold Slab.remove at h
  split at h
  · rename_i b hb
    simp only [Option.some.injEq, Prod.mk.injEq] at h
    obtain ⟨rfl, rfl⟩ := h
    have := cnt_flatMap_set entrySers A.entries i (.occ b) (.vacant A.next) hb s
    simp only [entrySers, List.count_nil, Nat.add_zero] at this
    exact this
  · cases h

theorem storedSers_empty : storedSers ({ entries := [], next := 0 } : Slab Arch) = [] := rfl

/-- a stored cell's serial is a stored serial -/
theorem mem_storedSers {A : Slab Arch} {i : Nat} {a : Arch} (h : A.get i = some a) {col : List Cell} (hc : col ∈ a.cols)
    {x : Cell} (hx : x ∈ col) : x.ser ∈ storedSers A := by
  have he : A.entries[i]? = some (.occ a) := (Slab.get_eq_some_iff _ _ _).1 h
  unfold storedSers
  rw [List.mem_flatMap]
  refine ⟨.occ a, List.mem_of_getElem? he, ?_⟩
  show x.ser ∈ cellSers a.cols
  unfold cellSers
  exact List.mem_map_of_mem (List.mem_flatten.2 ⟨col, hc, hx⟩)

/-! ## the predicate -/

/-- the columns of an archetype have one common length, which does not exceed the number of rows -/
def ColsOk (a : Arch) : Prop := ∃ L, (∀ c ∈ a.cols, c.length = L) ∧ L ≤ a.ids.length

/-- `n` occurrences in total -/
def serCount (A : Slab Arch) (Q : List QItem) (D : List (Nat × Nat)) (X : List Nat) (s : Nat) : Nat :=
  (storedSers A).count s + (queuedSers Q).count s + (dropSers D).count s + X.count s

/-- **the ledger predicate** over exactly the fields it reads (so that a write to any other field of the world keeps
    it definitionally) -/
structure CLF (A : Slab Arch) (Q : List QItem) (D : List (Nat × Nat)) (n : Nat) (X : List Nat) : Prop where
  /-- every archetype is stored at its own index -/
  idx : ∀ i a, A.get i = some a → a.index = i
  cols : ∀ i a, A.get i = some a → ColsOk a
  /-- no serial (other than the dummy `0`) twice among stored cells, queued payloads, the ledger, and `X` -/
  once : ∀ s, s ≠ 0 → serCount A Q D X s ≤ 1
  /-- every such serial has been handed out -/
  bound : ∀ s, s ≠ 0 → n ≤ s → serCount A Q D X s = 0
  /-- serials are handed out from `1` -/
  pos : 0 < n

/-- the ledger predicate of a world, with the serials `X` held elsewhere -/
abbrev CL (X : List Nat) (w : World) : Prop := CLF w.archs w.queue w.cdrops w.nextCSerial X

/-- the general transition: the structural facts hold of the new slab, no serial gained an occurrence, the counter did
    not go down -/
theorem CLF.mono {A A' : Slab Arch} {Q Q' : List QItem} {D D' : List (Nat × Nat)} {n n' : Nat} {X X' : List Nat}
    (h : CLF A Q D n X) (hi : ∀ i a, A'.get i = some a → a.index = i) (hc : ∀ i a, A'.get i = some a → ColsOk a)
    (hs : ∀ s, serCount A' Q' D' X' s ≤ serCount A Q D X s) (hn : n ≤ n') : CLF A' Q' D' n' X' :=
  ⟨hi, hc, fun s h0 => Nat.le_trans (hs s) (h.once s h0), fun s h0 hs' => by
    have := h.bound s h0 (Nat.le_trans hn hs'); have := hs s; omega, Nat.lt_of_lt_of_le h.pos hn⟩

/-- only the serial lists change -/
theorem CLF.mono_sers {A : Slab Arch} {Q Q' : List QItem} {D D' : List (Nat × Nat)} {n n' : Nat} {X X' : List Nat}
    (h : CLF A Q D n X) (hs : ∀ s, serCount A Q' D' X' s ≤ serCount A Q D X s) (hn : n ≤ n') : CLF A Q' D' n' X' :=
  h.mono h.idx h.cols hs hn

/-- serials may be forgotten -/
theorem CLF.drop_left {A Q D n} {Y X : List Nat} (h : CLF A Q D n (Y ++ X)) : CLF A Q D n X :=
  h.mono_sers (fun s => by unfold serCount; rw [List.count_append]; omega) (Nat.le_refl _)

theorem CLF.perm {A Q D n} {X X' : List Nat} (h : CLF A Q D n X) (hp : ∀ s, X'.count s ≤ X.count s) : CLF A Q D n X' :=
  h.mono_sers (fun s => by unfold serCount; have := hp s; omega) (Nat.le_refl _)

/-- the dummy serial `0` is not counted -/
theorem CLF.add_zero {A Q D n X} (h : CLF A Q D n X) : CLF A Q D n (0 :: X) := by
  refine ⟨h.idx, h.cols, fun s h0 => ?_, fun s h0 hs => ?_, h.pos⟩
  · have := h.once s h0
    unfold serCount at this ⊢
    rw [List.count_cons, if_neg (by simpa using Ne.symm h0)]
    exact this
  · have := h.bound s h0 hs
    unfold serCount at this ⊢
    rw [List.count_cons, if_neg (by simpa using Ne.symm h0)]
    exact this

/-- a fresh serial: nothing carries it -/
theorem CLF.fresh {A Q D n X} (h : CLF A Q D n X) : CLF A Q D (n + 1) (n :: X) := by
  refine ⟨h.idx, h.cols, fun s h0 => ?_, fun s h0 hs => ?_, Nat.succ_pos _⟩
  · have h1 := h.once s h0
    unfold serCount at h1 ⊢
    rw [List.count_cons]
    split
    · rename_i he
      have : n = s := by simpa using he
      subst this
      have := h.bound n h0 (Nat.le_refl _)
      unfold serCount at this
      omega
    · omega
  · have h1 := h.bound s h0 (by omega)
    unfold serCount at h1 ⊢
    rw [List.count_cons]
    split
    · rename_i he
      have : n = s := by simpa using he
      omega
    · omega

/-- an `Insert` payload (or nothing) moves from `X` onto the queue -/
theorem CLF.push {A Q D n X} (it : QItem) (h : CLF A Q D n (itemSers it ++ X)) : CLF A (Q ++ [it]) D n X :=
  h.mono_sers (fun s => by
    unfold serCount
    rw [queuedSers_append, queuedSers_cons, queuedSers_nil, List.append_nil]
    simp only [List.count_append]
    omega) (Nat.le_refl _)

/-- a cell is destroyed: its serial moves from `X` into the ledger if its type has a destructor, and is forgotten
    otherwise -/
theorem CLF.dropped {A Q D n X} (ty s : Nat) (h : CLF A Q D n (s :: X)) : CLF A Q ((ty, s) :: D) n X :=
  h.mono_sers (fun t => by
    unfold serCount
    rw [dropSers_cons]
    simp only [List.count_cons]
    omega) (Nat.le_refl _)

theorem CLF.forget {A Q D n X} (s : Nat) (h : CLF A Q D n (s :: X)) : CLF A Q D n X :=
  CLF.drop_left (Y := [s]) h

/-- the queue may be reordered -/
theorem CLF.queue_reverse {A Q D n X} (h : CLF A Q D n X) : CLF A Q.reverse D n X :=
  h.mono_sers (fun s => by unfold serCount; rw [count_queuedSers_reverse]; omega) (Nat.le_refl _)

/-- `setArch a` when the cells of slot `a.index` are those of `a` -/
theorem CLF.setArch_same {A Q D n X} (h : CLF A Q D n X) (a : Arch)
    (hs : ∀ old, A.get a.index = some old → cellSers a.cols = cellSers old.cols ∧ ColsOk a) :
    CLF (A.set a.index a) Q D n X := by
  cases hg : A.get a.index with
  | none => rw [slab_set_of_none hg]; exact h
  | some old =>
    obtain ⟨h1, h2⟩ := hs old hg
    refine h.mono (fun i b hb => ?_) (fun i b hb => ?_) (fun s => ?_) (Nat.le_refl _)
    · rw [Slab.get_set] at hb
      split at hb
      · rename_i hc
        subst hc
        rw [hg] at hb
        cases hb; rfl
      · exact h.idx i b hb
    · rw [Slab.get_set] at hb
      split at hb
      · rw [hg] at hb; cases hb; exact h2
      · exact h.cols i b hb
    · have := count_storedSers_set hg a s
      unfold serCount
      rw [h1] at this
      omega

/-! ## the counting half on its own (inside the loops of `move_entity` / `remove_entity` the columns are not uniform) -/

/-- the counting half of `CLF` -/
structure CLN (A : Slab Arch) (Q : List QItem) (D : List (Nat × Nat)) (n : Nat) (X : List Nat) : Prop where
  once : ∀ s, s ≠ 0 → serCount A Q D X s ≤ 1
  bound : ∀ s, s ≠ 0 → n ≤ s → serCount A Q D X s = 0
  pos : 0 < n

theorem CLF.cln {A Q D n X} (h : CLF A Q D n X) : CLN A Q D n X := ⟨h.once, h.bound, h.pos⟩

theorem CLN.clf {A Q D n X} (h : CLN A Q D n X) (hi : ∀ i a, A.get i = some a → a.index = i)
    (hc : ∀ i a, A.get i = some a → ColsOk a) : CLF A Q D n X := ⟨hi, hc, h.once, h.bound, h.pos⟩

theorem CLN.mono {A A' : Slab Arch} {Q Q' : List QItem} {D D' : List (Nat × Nat)} {n n' : Nat} {X X' : List Nat}
    (h : CLN A Q D n X) (hs : ∀ s, serCount A' Q' D' X' s ≤ serCount A Q D X s) (hn : n ≤ n') : CLN A' Q' D' n' X' :=
  ⟨fun s h0 => Nat.le_trans (hs s) (h.once s h0), fun s h0 hs' => by
    have := h.bound s h0 (Nat.le_trans hn hs'); have := hs s; omega, Nat.lt_of_lt_of_le h.pos hn⟩

theorem CLN.dropped {A Q D n X} (ty s : Nat) (h : CLN A Q D n (s :: X)) : CLN A Q ((ty, s) :: D) n X :=
  h.mono (fun t => by
    unfold serCount
    rw [dropSers_cons]
    simp only [List.count_cons]
    omega) (Nat.le_refl _)

theorem CLN.forget {A Q D n X} (s : Nat) (h : CLN A Q D n (s :: X)) : CLN A Q D n X :=
  h.mono (fun t => by unfold serCount; rw [List.count_cons]; omega) (Nat.le_refl _)

/-- one slot is rewritten -/
theorem CLN.set_one {A Q D n} {Y Y' : List Nat} {i : Nat} {a : Arch} (h : CLN A Q D n Y) (hg : A.get i = some a)
    (a' : Arch) (hc : ∀ s, (cellSers a'.cols).count s + Y'.count s ≤ (cellSers a.cols).count s + Y.count s) :
    CLN (A.set i a') Q D n Y' :=
  h.mono (fun s => by
    have := count_storedSers_set hg a' s
    have := hc s
    unfold serCount
    omega) (Nat.le_refl _)

/-- two different slots are rewritten -/
theorem CLN.set_two {A Q D n} {Y Y' : List Nat} {i j : Nat} {a b : Arch} (h : CLN A Q D n Y) (hij : i ≠ j)
    (hi : A.get i = some a) (hj : A.get j = some b) (a' b' : Arch)
    (hc : ∀ s, (cellSers a'.cols).count s + (cellSers b'.cols).count s + Y'.count s
      ≤ (cellSers a.cols).count s + (cellSers b.cols).count s + Y.count s) :
    CLN ((A.set i a').set j b') Q D n Y' :=
  h.mono (fun s => by
    have h1 := count_storedSers_set hi a' s
    have hj' : (A.set i a').get j = some b := by rw [Slab.get_set_other _ (Ne.symm hij)]; exact hj
    have h2 := count_storedSers_set hj' b' s
    have := hc s
    unfold serCount
    omega) (Nat.le_refl _)

/-- index and column shape of a rewritten slot -/
theorem idx_cols_set {A : Slab Arch} (hi : ∀ i a, A.get i = some a → a.index = i)
    (hc : ∀ i a, A.get i = some a → ColsOk a) {i : Nat} {a' : Arch} (h1 : a'.index = i) (h2 : ColsOk a') :
    (∀ j b, (A.set i a').get j = some b → b.index = j) ∧ (∀ j b, (A.set i a').get j = some b → ColsOk b) := by
  constructor <;> intro j b hb <;> rw [Slab.get_set] at hb <;> split at hb
  · rename_i hji
    subst hji
    cases hg : A.get j with
    | none => rw [hg] at hb; cases hb
    | some old => rw [hg] at hb; cases hb; exact h1
  · exact hi j b hb
  · rename_i hji
    subst hji
    cases hg : A.get j with
    | none => rw [hg] at hb; cases hb
    | some old => rw [hg] at hb; cases hb; exact h2
  · exact hc j b hb

theorem slab_set_set (A : Slab Arch) (i : Nat) (a b : Arch) : (A.set i a).set i b = A.set i b := by
  unfold Slab.set
  cases he : A.entries[i]? with
  | none => simp [he]
  | some e =>
    cases e with
    | vacant n => simp [he]
    | occ c =>
      have hlt : i < A.entries.length := (List.getElem?_eq_some_iff.1 he).1
      simp [he, hlt]

theorem count_zip_snd_le {α : Type} (l : List α) (d : List Cell) (s : Nat) :
    ((l.zip d).map (·.2.ser)).count s ≤ (d.map (·.ser)).count s := by
  induction l generalizing d with
  | nil => simp
  | cons a l ih =>
    cases d with
    | nil => simp
    | cons x d =>
      have := ih d
      simp only [List.zip_cons_cons, List.map_cons, List.count_cons]
      omega

theorem count_cellSers_zip_le {α : Type} (l : List α) (cols : List (List Cell)) (s : Nat) :
    (cellSers ((l.zip cols).map (·.2))).count s ≤ (cellSers cols).count s := by
  induction l generalizing cols with
  | nil => simp
  | cons a l ih =>
    cases cols with
    | nil => simp
    | cons c cols =>
      have := ih cols
      simp only [List.zip_cons_cons, List.map_cons, cellSers_cons, List.count_append]
      omega

/-! ## the merge loop of `move_entity`: no serial is duplicated, whatever the arguments -/

theorem moveCols_sers_le (row : Nat) (scs : List Nat) (scols : List (List Cell)) (dcs : List Nat)
    (dcols : List (List Cell)) (new : List (Nat × Cell)) (r : MoveCols)
    (h : moveCols row scs scols dcs dcols new = some r) (s : Nat) :
    (cellSers r.src).count s + (cellSers r.dst).count s + (r.dropped.map (·.ser)).count s
      ≤ (cellSers scols).count s + (cellSers dcols).count s + (new.map (·.2.ser)).count s := by
  fun_induction moveCols row scs scols dcs dcols new generalizing r
  all_goals (try (cases h; done))
  all_goals cases h
  case case1 => simp
  case case2 x r' hr hx ih =>
    have := ih _ hr; have := count_map_swapRemove _ _ _ hx s
    simp only [cellSers_cons, List.count_append, List.map_cons, List.count_cons, List.count_nil] at *
    omega
  case case4 r' hr ih =>
    have := ih _ hr
    simp only [cellSers_cons, List.count_append, List.map_cons, List.count_cons, List.count_nil, cellSers_nil,
      List.map_append, List.map_nil] at *
    omega
  case case7 x r' hr hx ih =>
    have := ih _ hr; have := count_map_swapRemove _ _ _ hx s
    simp only [cellSers_cons, List.count_append, List.map_cons, List.count_cons, List.count_nil] at *
    omega
  case case9 x r' hr hx _ ih =>
    have := ih _ hr; have := count_map_swapRemove _ _ _ hx s
    simp only [cellSers_cons, List.count_append, List.map_cons, List.count_cons, List.count_nil, cellSers_nil,
      List.map_append, List.map_nil] at *
    omega
  case case11 r' hr _ _ ih =>
    have := ih _ hr
    simp only [cellSers_cons, List.count_append, List.map_cons, List.count_cons, List.count_nil, cellSers_nil,
      List.map_append, List.map_nil] at *
    omega

/-- every source column is read at `row` -/
theorem moveCols_src (row : Nat) (scs : List Nat) (scols : List (List Cell)) (dcs : List Nat)
    (dcols : List (List Cell)) (new : List (Nat × Cell)) (r : MoveCols)
    (h : moveCols row scs scols dcs dcols new = some r) :
    (∀ c ∈ scols, row < c.length) ∧ (scols = [] → r.dropped = []) ∧
    ∀ L, (∀ c ∈ scols, c.length = L) → ∀ c ∈ r.src, c.length = L - 1 := by
  fun_induction moveCols row scs scols dcs dcols new generalizing r
  all_goals (try (cases h; done))
  all_goals cases h
  case case1 => simp
  case case2 x r' hr hx ih =>
    obtain ⟨i1, i2, i3⟩ := ih _ hr
    have hlt := (List.getElem?_eq_some_iff.1 hx).1
    refine ⟨?_, by simp, fun L hL c hc => ?_⟩
    · intro c hc; rcases List.mem_cons.1 hc with rfl | hc
      · exact hlt
      · exact i1 c hc
    · rcases List.mem_cons.1 hc with rfl | hc
      · rw [length_swapRemove, hL _ (List.mem_cons_self ..)]
      · exact i3 L (fun c hc => hL c (List.mem_cons_of_mem _ hc)) c hc
  case case4 r' hr ih =>
    obtain ⟨i1, i2, i3⟩ := ih _ hr
    exact ⟨i1, i2, i3⟩
  case case7 x r' hr hx ih =>
    obtain ⟨i1, i2, i3⟩ := ih _ hr
    have hlt := (List.getElem?_eq_some_iff.1 hx).1
    refine ⟨?_, by simp, fun L hL c hc => ?_⟩
    · intro c hc; rcases List.mem_cons.1 hc with rfl | hc
      · exact hlt
      · exact i1 c hc
    · rcases List.mem_cons.1 hc with rfl | hc
      · rw [length_swapRemove, hL _ (List.mem_cons_self ..)]
      · exact i3 L (fun c hc => hL c (List.mem_cons_of_mem _ hc)) c hc
  case case9 x r' hr hx _ ih =>
    obtain ⟨i1, i2, i3⟩ := ih _ hr
    have hlt := (List.getElem?_eq_some_iff.1 hx).1
    refine ⟨?_, by simp, fun L hL c hc => ?_⟩
    · intro c hc; rcases List.mem_cons.1 hc with rfl | hc
      · exact hlt
      · exact i1 c hc
    · rcases List.mem_cons.1 hc with rfl | hc
      · rw [length_swapRemove, hL _ (List.mem_cons_self ..)]
      · exact i3 L (fun c hc => hL c (List.mem_cons_of_mem _ hc)) c hc
  case case11 r' hr _ _ ih =>
    obtain ⟨i1, i2, i3⟩ := ih _ hr
    exact ⟨i1, by simp, i3⟩

theorem moveCols_dst (row : Nat) (scs : List Nat) (scols : List (List Cell)) (dcs : List Nat)
    (dcols : List (List Cell)) (new : List (Nat × Cell)) (r : MoveCols)
    (h : moveCols row scs scols dcs dcols new = some r) :
    ∀ L, (∀ c ∈ dcols, c.length = L) → ∀ c ∈ r.dst, c.length = L + 1 := by
  fun_induction moveCols row scs scols dcs dcols new generalizing r
  all_goals (try (cases h; done))
  all_goals cases h
  case case1 => simp
  case case2 x r' hr hx ih => exact ih r' hr
  case case4 r' hr ih =>
    intro L hL c hc
    rcases List.mem_cons.1 hc with rfl | hc
    · simp [hL _ (List.mem_cons_self ..)]
    · exact ih _ hr L (fun c hc => hL c (List.mem_cons_of_mem _ hc)) c hc
  case case7 x r' hr hx ih => exact ih r' hr
  case case9 x r' hr hx _ ih =>
    intro L hL c hc
    rcases List.mem_cons.1 hc with rfl | hc
    · simp [hL _ (List.mem_cons_self ..)]
    · exact ih _ hr L (fun c hc => hL c (List.mem_cons_of_mem _ hc)) c hc
  case case11 r' hr _ _ ih =>
    intro L hL c hc
    rcases List.mem_cons.1 hc with rfl | hc
    · simp [hL _ (List.mem_cons_self ..)]
    · exact ih _ hr L (fun c hc => hL c (List.mem_cons_of_mem _ hc)) c hc
end Evenio.CompLedger
