import Evenio.Model.ParIter
/-! Helper lemmas for C19: a split tree only re-brackets a list. Core Lean only. -/
namespace Evenio
namespace ParIter

theorem flatten_splitRun {α : Type} (t : Split) (xs : List α) : (splitRun t xs).flatten = xs := by
  induction t generalizing xs with
  | leaf => simp [splitRun]
  | node mid l r ihl ihr => simp [splitRun, ihl, ihr]

theorem flatten_flatMap' {α β : Type} (l : List α) (f : α → List (List β)) :
    (l.flatMap f).flatten = l.flatMap fun x => (f x).flatten := by
  induction l with
  | nil => rfl
  | cons a l ih => simp [List.flatMap_cons, ih]

theorem flatMap_flatten' {α β : Type} (L : List (List α)) (f : α → List β) :
    L.flatten.flatMap f = L.flatMap fun l => l.flatMap f := by
  induction L with
  | nil => rfl
  | cons a l ih => simp [List.flatMap_cons, List.flatMap_append, ih]

/-- every leaf of a split run is a contiguous piece of the input (in particular a sublist) -/
theorem splitRun_ne_nil {α : Type} (t : Split) (xs : List α) : splitRun t xs ≠ [] := by
  induction t generalizing xs with
  | leaf => simp [splitRun]
  | node mid l r ihl ihr => simp [splitRun, ihl]

variable {σ : Type}

theorem flatten_innerTasks (inner : Nat → Split) (ei : Entry σ × Nat) :
    (innerTasks inner ei).flatten = rows ei.1 := flatten_splitRun _ _

theorem flatMap_rows_zipIdx (p : List (Entry σ)) (k : Nat) :
    ((p.zipIdx k).flatMap fun ei => rows ei.1) = p.flatMap rows := by
  induction p generalizing k with
  | nil => rfl
  | cons a p ih => simp [List.zipIdx_cons, List.flatMap_cons, ih]

theorem flatten_tasks (outer : Split) (inner : Nat → Split) (p : List (Entry σ)) :
    (tasks outer inner p).flatten = seqItems p := by
  unfold tasks seqItems
  rw [flatten_flatMap']
  simp only [flatten_flatMap', flatten_innerTasks]
  rw [← flatMap_flatten', flatten_splitRun, flatMap_rows_zipIdx]

theorem mem_rows (e : Entry σ) (x : Item σ) :
    x ∈ rows e ↔ x.1 = e.1 ∧ x.2.1 = e.2.1 ∧ x.2.2 < e.2.2 := by
  obtain ⟨s, i, n⟩ := e
  obtain ⟨s', i', r⟩ := x
  simp only [rows, List.mem_map, List.mem_range, Prod.mk.injEq]
  constructor
  · rintro ⟨a, ha, rfl, rfl, rfl⟩; exact ⟨rfl, rfl, ha⟩
  · rintro ⟨rfl, rfl, h⟩; exact ⟨r, h, rfl, rfl, rfl⟩

theorem nodup_rows_cells (e : Entry σ) : ((rows e).map cell).Nodup := by
  obtain ⟨s, i, n⟩ := e
  simp only [rows, List.map_map]
  unfold List.Nodup
  rw [List.pairwise_map]
  refine (List.nodup_range (n := n)).imp ?_
  intro a b hab h
  simp only [Function.comp, cell, Prod.mk.injEq, true_and] at h
  exact hab h

/-- sequential iteration never yields the same cell twice when the archetype indices are distinct -/
theorem nodup_seqItems_cells {p : List (Entry σ)} (hp : (p.map fun e => e.2.1).Nodup) :
    ((seqItems p).map cell).Nodup := by
  unfold List.Nodup at hp ⊢
  rw [List.pairwise_map] at hp ⊢
  unfold seqItems
  rw [List.pairwise_flatMap]
  refine ⟨fun e _ => ?_, hp.imp ?_⟩
  · have := nodup_rows_cells e
    unfold List.Nodup at this
    rwa [List.pairwise_map] at this
  · intro e₁ e₂ hne x hx y hy h
    rw [mem_rows] at hx hy
    simp only [cell, Prod.mk.injEq] at h
    exact hne (by rw [← hx.2.1, ← hy.2.1, h.1])

end ParIter
end Evenio
