import Evenio.Proofs.EvLedgerTop
import Evenio.Proofs.Listeners
/-! # The event ledger along whole WORLD histories, part 3: conservation on the delivery path

`Proofs/EvLedger.lean` shows that no serial is accounted for twice (`Acct`).  This file shows that none is LOST: `Cover a n l`
— every serial from `a` up to the next one is in `l` — is kept by one delivery (`deliverOne_cov`), by the unwinding path
(`dropQueued_cov`) and by a whole flush (`flush_cov`), on normal return and after a panic, PROVIDED every user event that
is disposed of finds a registry entry with a drop function and the normal kind (`TOK`): that is a fact about the
registries and the event sets of the registered handlers (`QT`), kept by the delivery path on every exit
(`deliverOne_qt`); `Proofs/EvLedgerConsTop.lean` establishes it at every flush of every top-level operation. -/
namespace Evenio
namespace EvLedger

/-! ## the accounting predicate "no serial is missing" -/

/-- every serial from `a` up to the next one is accounted for -/
def Cover (a n : Nat) (l : List Nat) : Prop := ∀ s, a ≤ s → s < n → s ∈ l

theorem Cover.of_subset {a n : Nat} {l l' : List Nat} (h : Cover a n l) (hs : ∀ s ∈ l, s ∈ l') : Cover a n l' :=
  fun s h1 h2 => hs s (h s h1 h2)

theorem cover_accounting (a : Nat) : Accounting (Cover a) where
  perm h p := h.of_subset fun _ hs => p.mem_iff.1 hs
  fresh {n l} h := fun s h1 h2 => by
    by_cases hs : s = n
    · subst hs; exact List.mem_cons_self
    · exact List.mem_cons_of_mem _ (h s h1 (by omega))

/-- **conservation**: every serial allocated so far (from `a` on) is pending, destroyed, or in `Z` -/
abbrev Cov (a : Nat) (Z : List Nat) : World → Prop := LP fun q e n _ => Cover a n (Z ++ (pend q ++ e))

variable {a : Nat} {Z : List Nat}

theorem Cov.perm {Y Y' : List Nat} {w : World} (h : Cov a Y w) (p : ∀ s ∈ Y, s ∈ Y') : Cov a Y' w :=
  Cover.of_subset h fun s hs => by
    rcases List.mem_append.1 hs with h1 | h1
    · exact List.mem_append_left _ (p s h1)
    · exact List.mem_append_right _ h1

theorem Cov.forget {x : QItem} {Y : List Nat} {w : World} (hx : ledgerOf x = []) (h : Cov a (ledgerOf x ++ Y) w) :
    Cov a Y w := by rw [hx] at h; exact h

theorem dropEventW_cov {x : QItem} {Y : List Nat} {w : World} (h : Cov a (ledgerOf x ++ Y) w) :
    Cov a Y (dropEventW x w) := by
  show Cover a (dropEventW x w).nextESerial (Y ++ (pend (dropEventW x w).queue ++ (dropEventW x w).edrops))
  rw [dropEventW_next, dropEventW_queue', dropEventW_edrops, dropE_eq]
  refine (cover_accounting a).perm h ?_
  perm_app

/-! ## what the registries must say about a user event -/

/-- the registry entry the loop looks up for `x` (`World.evInfo`, with the registries explicit) -/
def regInfo (G T : SlotMap EvInfo) (x : QItem) : Option EvInfo :=
  if x.ty.targeted then (T.getByIndex x.idx).map (·.2) else (G.getByIndex x.idx).map (·.2)

theorem evInfo_eq (w : World) (x : QItem) : w.evInfo x = regInfo w.gevs w.tevs x := rfl

/-- **`x` will be destroyed by whoever disposes of it**: if `x` is a user event, its registry entry exists, has a drop
    function and the normal kind (`UserEntryOk`, with the registries explicit) -/
def TOK (G T : SlotMap EvInfo) (x : QItem) : Prop :=
  x.isUser = true → ∃ info, regInfo G T x = some info ∧ info.needsDrop = true ∧ info.kind = .normal

theorem TOK.of_not_user {G T : SlotMap EvInfo} {x : QItem} (h : x.isUser = false) : TOK G T x :=
  fun hu => by rw [h] at hu; cases hu

/-- what a disposal site needs: the entry destroys `x`, or `x` carries no serial -/
theorem TOK.cases {G T : SlotMap EvInfo} {x : QItem} (h : TOK G T x) {info : EvInfo} (hi : regInfo G T x = some info) :
    (info.needsDrop = true ∧ info.kind = .normal) ∨ ledgerOf x = [] := by
  cases hu : x.isUser
  · exact .inr (ledgerOf_not_user hu)
  · obtain ⟨info', h1, h2⟩ := h hu
    rw [hi] at h1; cases h1
    exact .inl h2

theorem Hoare.pre_prop {α : Type} {P : World → Prop} {C : Prop} {m : M α} {Q : α → World → Prop}
    {E : Err → World → Prop} (h : C → Hoare P m Q E) : Hoare (fun w => P w ∧ C) m Q E :=
  ⟨fun w hw => (h hw.2).run w hw.1⟩

/-- the lookup phase keeps every predicate on the ledger fields, returns the entry `World.evInfo` names, and can only
    fail with a marker -/
theorem lookupPhase_spec {P : List QItem → List Nat → Nat → Bool → Prop} (it : QItem) (w : World) :
    Hoare (LP P) (lookupPhase it w) (fun r w' => LP P w' ∧ w.evInfo it = some r.1) (fun e _ => e.isPanic = false) := by
  refine ⟨fun w0 h0 => ?_⟩
  have hk := (lookupPhase_lp (P := P) it w).run w0 h0
  generalize hr : (lookupPhase it w).run.run w0 = r at hk
  obtain ⟨(e|⟨info, hs, loc⟩), w1⟩ := r
  · obtain ⟨s, rfl⟩ := lookupPhase_error_ub hr; rfl
  · exact ⟨hk, lookupPhase_info hr⟩

theorem LedIA.cases_cov {it : QItem} {w : World} (h : LedIA (Cover a) it Z w) :
    (w.inflightOwned = false ∧ Cov a (ledgerOf it ++ Z) w) ∨ (w.inflightOwned = true ∧ Cov a Z w) := by
  cases hf : w.inflightOwned
  · left
    refine ⟨rfl, ?_⟩
    have : Cover a _ ((inFl it w.inflightOwned ++ Z) ++ _) := h
    rw [hf] at this
    exact this
  · right
    refine ⟨rfl, ?_⟩
    have : Cover a _ ((inFl it w.inflightOwned ++ Z) ++ _) := h
    rw [hf] at this
    exact this

/-- the unwinding guard of `deliverOne`, for an event the registry entry `info` destroys (or that carries no serial) -/
theorem unwind_cov (it : QItem) (info : EvInfo) (hok : info.needsDrop = true ∨ ledgerOf it = []) (e : Err)
    (Q : Bool → World → Prop) :
    Hoare (LedIA (Cover a) it Z)
      (do
        match e with
        | .panic _ => if !(← get).inflightOwned && info.needsDrop then dropEvent it
        | _ => pure ()
        throw e : M Bool) Q (PanicOnly (Cov a Z)) := by
  refine ⟨fun w hw => ?_⟩
  have key : ((do
        match e with
        | .panic _ => if !(← get).inflightOwned && info.needsDrop then dropEvent it
        | _ => pure ()
        throw e : M Bool)).run.run w = _ := unwind_run it info e w
  rw [key]
  show PanicOnly (Cov a Z) e _
  cases e with
  | ub s => exact fun hp => nomatch hp
  | assert s => exact fun hp => nomatch hp
  | panic c =>
    intro _
    dsimp only
    rcases hw.cases_cov with ⟨hf, h⟩ | ⟨hf, h⟩
    · rw [hf]
      rcases hok with hn | hx
      · rw [hn]; exact dropEventW_cov h
      · cases info.needsDrop
        · exact Cov.forget hx h
        · exact dropEventW_cov h
    · rw [hf]
      exact h

/-- the handler loop of a delivery, started with the flag clear -/
theorem handlerLoop_cov (it : QItem) (info : EvInfo) (hok : info.needsDrop = true ∨ ledgerOf it = []) (loc : Loc)
    (hs : List Key) :
    Hoare (LInA (Cover a) it Z false) (handlerLoop it info loc hs) (fun o => LInA (Cover a) it Z o)
      (PanicOnly (Cov a Z)) := by
  unfold handlerLoop
  refine Hoare.pre (Hoare.forIn_list (fun (o : Bool) => LInA (Cover a) it Z o) ?_) (fun _ h => h)
  intro hk o
  cases o
  · rw [if_pos (show (!false) = true from rfl)]
    refine Hoare.bind (R := fun r => LInA (Cover a) it Z r) ?_ (fun r => Hoare.pure fun _ h => h)
    refine Hoare.tryCatch (E1 := fun _ => LedIA (Cover a) it Z)
      (Hoare.post (runHandler_ledA (cover_accounting a) (b := false) hk it loc)
        (fun o w h => LInA.bool (Bool.or_false o) h) (fun _ _ h => h))
      (fun e => unwind_cov it info hok e _)
  · rw [if_neg (show ¬ (!true) = true by decide)]
    exact Hoare.pure fun _ h => h

theorem Cov.queue_reverse {Y : List Nat} {w : World} (h : Cov a Y w) : Cov a Y { w with queue := w.queue.reverse } := by
  refine (cover_accounting a).perm h ?_
  show (Y ++ (pend w.queue ++ w.edrops)).Perm (Y ++ (pend w.queue.reverse ++ w.edrops))
  exact ((pend_reverse _).symm.append_right _).append_left _

/-- **one delivery conserves**: handed a user event whose registry entry has a drop function and the normal kind (or an
    event of a built-in type), `deliverOne` moves its serial into the ledger — by the dead-target drop, a `take`, the drop
    after the handler loop, or the unwinding guard — on normal return AND when it panics; every serial its handlers
    allocate is queued or (rejected send) destroyed -/
theorem deliverOne_cov (it : QItem) :
    Hoare (fun w => TOK w.gevs w.tevs it ∧ Cov a (ledgerOf it ++ Z) w) (deliverOne it) (fun _ => Cov a Z)
      (PanicOnly (Cov a Z)) := by
  rw [deliverOne_phases]
  refine Hoare.get_bind fun w hw => ?_
  refine Hoare.pre (P' := Cov a (ledgerOf it ++ Z)) ?_ (fun _ h => h.2)
  refine Hoare.bind (Hoare.post (lookupPhase_spec it w) (fun _ _ h => h) (fun e _ h hp => by rw [h] at hp; cases hp))
    fun r => ?_
  obtain ⟨info, hs, loc⟩ := r
  refine Hoare.pre_prop fun hinfo => ?_
  have hc := hw.1.cases (info := info) hinfo
  have hok : info.needsDrop = true ∨ ledgerOf it = [] := hc.imp (fun h => h.1) id
  cases hs with
  | none =>
    dsimp only
    split
    · refine ⟨fun w hw => ?_⟩
      rw [run_dropEvent]
      exact dropEventW_cov hw
    · rename_i hn
      have hx : ledgerOf it = [] := by
        rcases hok with h1 | h1
        · exact absurd h1 hn
        · exact h1
      exact Hoare.pure fun _ h => Cov.forget hx h
  | some hs =>
    dsimp only
    refine Hoare.bind (R := fun _ => LInA (Cover a) it Z false) ⟨fun w hw => ⟨rfl, hw⟩⟩ fun _ => ?_
    refine Hoare.bind (handlerLoop_cov it info hok loc hs) fun owned => ?_
    refine Hoare.bind (R := fun _ => LInA (Cover a) it Z owned)
      ⟨fun w hw => ⟨hw.1, (Cov.queue_reverse (Y := inFl it owned ++ Z) hw.2)⟩⟩ fun _ => ?_
    cases owned with
    | true =>
      exact Hoare.pure fun _ h => h.2
    | false =>
      simp only [Bool.false_eq_true, if_false]
      refine Hoare.pre (P' := Cov a (ledgerOf it ++ Z)) ?_ (fun _ h => h.2)
      rcases hc with ⟨hn, hk⟩ | hx
      · unfold effectPhase
        rw [hk]
        dsimp only
        rw [if_pos hn]
        refine ⟨fun w hw => ?_⟩
        rw [run_dropEvent]
        exact dropEventW_cov hw
      · unfold effectPhase
        split
        · split
          · refine ⟨fun w hw => ?_⟩
            rw [run_dropEvent]
            exact dropEventW_cov hw
          · exact Hoare.pure fun _ h => Cov.forget hx h
        all_goals
          refine Hoare.post (Q := fun _ => Cov a (ledgerOf it ++ Z)) (E := fun _ => Cov a (ledgerOf it ++ Z)) ?_
            (fun _ _ h => Cov.forget hx h) (fun _ _ h _ => Cov.forget hx h)
          refine Hoare.of_keeps ?_ (fun _ _ h => h)
          led_keeps


/-! ## the unwinding path conserves -/

theorem dropEventW_gevs (it : QItem) (w : World) : (dropEventW it w).gevs = w.gevs := by
  obtain ⟨ty, idx, tgt, pay⟩ := it
  cases ty <;> try rfl
  rename_i k
  simp only [dropEventW, dropCellW]
  split <;> rfl
theorem dropEventW_tevs (it : QItem) (w : World) : (dropEventW it w).tevs = w.tevs := by
  obtain ⟨ty, idx, tgt, pay⟩ := it
  cases ty <;> try rfl
  rename_i k
  simp only [dropEventW, dropCellW]
  split <;> rfl

theorem dropLoop_cov (l : List QItem) {Y : List Nat} {G T : SlotMap EvInfo} {w : World} (hg : w.gevs = G)
    (ht : w.tevs = T) (hok : ∀ q ∈ l, TOK G T q) (h : Cov a (pend l ++ Y) { w with queue := [] }) :
    match dropLoop l w with
    | (.ok _, w') => Cov a Y { w' with queue := [] }
    | (.error e, _) => e.isPanic = false := by
  induction l generalizing w with
  | nil => exact h
  | cons q l ih =>
    simp only [dropLoop]
    cases hq : w.evInfo q with
    | none => rfl
    | some ei =>
      dsimp only
      have hc := (hok q (List.mem_cons_self ..)).cases (info := ei) (by rw [← hg, ← ht]; exact hq)
      have h1 : Cov a (ledgerOf q ++ (pend l ++ Y)) { w with queue := [] } := by
        rw [pend_cons, List.append_assoc] at h; exact h
      have hok' : ∀ q ∈ l, TOK G T q := fun x hx => hok x (List.mem_cons_of_mem _ hx)
      cases hn : ei.needsDrop
      · have hx : ledgerOf q = [] := by
          rcases hc with ⟨h2, -⟩ | h2
          · rw [hn] at h2; cases h2
          · exact h2
        exact ih hg ht hok' (Cov.forget hx h1)
      · simp only [if_true]
        refine ih (by rw [dropEventW_gevs]; exact hg) (by rw [dropEventW_tevs]; exact ht) hok' ?_
        have h2 := dropEventW_cov h1
        show Cover a (dropEventW q w).nextESerial ((pend l ++ Y) ++ (pend [] ++ (dropEventW q w).edrops))
        have e1 : (dropEventW q w).edrops = (dropEventW q { w with queue := [] }).edrops := by
          rw [dropEventW_edrops, dropEventW_edrops]
        have e2 : (dropEventW q w).nextESerial = (dropEventW q { w with queue := [] }).nextESerial := by
          rw [dropEventW_next, dropEventW_next]
        rw [e1, e2]
        have : Cover a (dropEventW q { w with queue := [] }).nextESerial
            ((pend l ++ Y) ++ (pend (dropEventW q { w with queue := [] }).queue ++ (dropEventW q { w with queue := [] }).edrops)) := h2
        rw [dropEventW_queue'] at this
        exact this

/-- **`dropQueued` conserves**: every pending user event whose registry entry has a drop function goes to the ledger -/
theorem dropQueued_cov {G T : SlotMap EvInfo} :
    Hoare (fun w => (w.gevs = G ∧ w.tevs = T ∧ ∀ q ∈ w.queue, TOK G T q) ∧ Cov a Z w) dropQueued
      (fun _ => Cov a Z) (PanicOnly (Cov a Z)) := by
  refine ⟨fun w hw => ?_⟩
  rw [dropQueued_run]
  have h0 : Cov a (pend w.queue ++ Z) { w with queue := [] } := by
    refine (cover_accounting a).perm hw.2 ?_
    show (Z ++ (pend w.queue ++ w.edrops)).Perm ((pend w.queue ++ Z) ++ (pend [] ++ w.edrops))
    rw [pend_nil]
    perm_app
  have := dropLoop_cov w.queue hw.1.1 hw.1.2.1 hw.1.2.2 h0
  generalize dropLoop w.queue w = r at this
  obtain ⟨(e|u), w'⟩ := r
  · intro hp
    rw [this] at hp
    cases hp
  · exact this

/-! ## everything queued during a flush is disposable

`QT G T reg`: the event registries are `G`, `T`, the handler table is `reg` up to fetcher caches (`HK`,
`Proofs/Listeners.lean`), every queued item is disposable.  Kept on every exit by the delivery path when the event sets
of the registered handlers are disposable. -/

theorem TOK.congr {G T : SlotMap EvInfo} {x y : QItem} (hty : x.ty = y.ty) (hidx : x.idx = y.idx) (h : TOK G T x) :
    TOK G T y := by
  intro hu
  have hu' : x.isUser = true := by unfold QItem.isUser at hu ⊢; rw [hty]; exact hu
  obtain ⟨info, hi, h2⟩ := h hu'
  refine ⟨info, ?_, h2⟩
  unfold regInfo at hi ⊢
  rw [← hty, ← hidx]; exact hi

/-- every event a sender may send is disposable -/
def SendsTOK (G T : SlotMap EvInfo) (h : HInfo) : Prop := ∀ ev i, (ev, i) ∈ h.sends → TOK G T { ty := ev, idx := i }

abbrev QT (G T : SlotMap EvInfo) (reg : Key → Option HInfo) : World → Prop :=
  fun w => w.gevs = G ∧ w.tevs = T ∧ HK reg w ∧ ∀ q ∈ w.queue, TOK G T q

section qt
variable {G T : SlotMap EvInfo} {reg : Key → Option HInfo}

/-- a function that keeps the frame, the handler table up to caches, and every predicate on the ledger fields -/
theorem qt_of {α : Type} {m : M α} (hfr : ∀ fr, Keeps (FR fr) m) (hhk : Keeps (HK reg) m)
    (hlp : ∀ P, Keeps (LP P) m) : Keeps (QT G T reg) m := by
  refine ⟨fun w hw => ?_⟩
  have h1 := (hfr w.frame).run w rfl
  have h2 := hhk.run w hw.2.2.1
  have h3 := (hlp fun q _ _ _ => ∀ x ∈ q, TOK G T x).run w hw.2.2.2
  exact ⟨(congrArg Frame.gevs h1).trans hw.1, (congrArg Frame.tevs h1).trans hw.2.1, h2, h3⟩

syntax "qt_leaf" : tactic
macro_rules | `(tactic| qt_leaf) => `(tactic| fail "no leaf lemma")
syntax "qt_step" : tactic
macro_rules
  | `(tactic| qt_step) => `(tactic| first
      | with_reducible exact Keeps.pure _
      | with_reducible exact Keeps.throw _
      | with_reducible exact Keeps.get
      | with_reducible qt_leaf
      | ((with_reducible refine Keeps.set ?_); first | assumption | (simp only []; assumption))
      | ((with_reducible refine Keeps.modify (fun _ h => ?_)); first | exact h | (simp only []; exact h))
      | ((with_reducible refine Keeps.modifyGet (fun _ h => ?_)); first | exact h | (simp only []; exact h))
      | (with_reducible refine Keeps.get_bind (fun _ _ => ?_))
      | (with_reducible refine Keeps.bind ?_ (fun _ => ?_))
      | (with_reducible refine Keeps.tryCatch ?_ (fun _ => ?_))
      | (with_reducible refine Keeps.tryCatchThe ?_ (fun _ => ?_))
      | (with_reducible refine Keeps.forIn_list (fun _ _ => ?_))
      | (with_reducible refine Keeps.forIn_range (fun _ _ => ?_))
      | (with_reducible refine Keeps.ite ?_ ?_)
      | dsimp only
      | split)
macro "qt_keeps" : tactic => `(tactic| repeat' qt_step)

theorem logT_qt (s : String) : Keeps (QT G T reg) (logT s) :=
  qt_of (fun _ => logT_fr _) (logT_hk _) (fun _ => logT_lp _)
macro_rules | `(tactic| qt_leaf) => `(tactic| exact logT_qt _)
theorem ubErr_qt {α : Type} (s : String) : Keeps (QT G T reg) ((ubErr s : M α)) :=
  qt_of (fun _ => ubErr_fr _) (ubErr_hk _) (fun _ => ubErr_lp _)
macro_rules | `(tactic| qt_leaf) => `(tactic| exact ubErr_qt _)
theorem dbgAssert_qt (c : Bool) (s : String) : Keeps (QT G T reg) (dbgAssert c s) :=
  qt_of (fun _ => dbgAssert_fr _ _) (dbgAssert_hk _ _) (fun _ => dbgAssert_lp _ _)
macro_rules | `(tactic| qt_leaf) => `(tactic| exact dbgAssert_qt _ _)
theorem getArch_qt (i : Nat) (s : String) : Keeps (QT G T reg) (getArch i s) :=
  qt_of (fun _ => getArch_fr _ _) (getArch_hk _ _) (fun _ => getArch_lp _ _)
macro_rules | `(tactic| qt_leaf) => `(tactic| exact getArch_qt _ _)
theorem reserve_qt  : Keeps (QT G T reg) (reserve) :=
  qt_of (fun _ => reserve_fr) (reserve_hk) (fun _ => reserve_lp)
macro_rules | `(tactic| qt_leaf) => `(tactic| exact reserve_qt)
theorem takeBudget_qt  : Keeps (QT G T reg) (takeBudget) :=
  qt_of (fun _ => takeBudget_fr) (takeBudget_hk) (fun _ => takeBudget_lp)
macro_rules | `(tactic| qt_leaf) => `(tactic| exact takeBudget_qt)
theorem freshC_qt  : Keeps (QT G T reg) (freshC) :=
  qt_of (fun _ => freshC_fr) (freshC_hk) (fun _ => freshC_lp)
macro_rules | `(tactic| qt_leaf) => `(tactic| exact freshC_qt)
theorem getParam_qt (h : HInfo) (p : Nat) : Keeps (QT G T reg) (getParam h p) :=
  qt_of (fun _ => getParam_fr _ _) (getParam_hk _ _) (fun _ => getParam_lp _ _)
macro_rules | `(tactic| qt_leaf) => `(tactic| exact getParam_qt _ _)
theorem itemAt_qt (st : AS) (a : Arch) (row : Nat) : Keeps (QT G T reg) (itemAt st a row) :=
  qt_of (fun _ => itemAt_fr _ _ _) (itemAt_hk _ _ _) (fun _ => itemAt_lp _ _ _)
macro_rules | `(tactic| qt_leaf) => `(tactic| exact itemAt_qt _ _ _)
theorem paramRows_qt (p : Param) : Keeps (QT G T reg) (paramRows p) :=
  qt_of (fun _ => paramRows_fr _) (paramRows_hk _) (fun _ => paramRows_lp _)
macro_rules | `(tactic| qt_leaf) => `(tactic| exact paramRows_qt _)
theorem paramGet_qt (p : Param) (id : Key) : Keeps (QT G T reg) (paramGet p id) :=
  qt_of (fun _ => paramGet_fr _ _) (paramGet_hk _ _) (fun _ => paramGet_lp _ _)
macro_rules | `(tactic| qt_leaf) => `(tactic| exact paramGet_qt _ _)
theorem bumpCell_qt (ai row c : Nat) : Keeps (QT G T reg) (bumpCell ai row c) :=
  qt_of (fun _ => bumpCell_fr _ _ _) (bumpCell_hk _ _ _) (fun _ => bumpCell_lp _ _ _)
macro_rules | `(tactic| qt_leaf) => `(tactic| exact bumpCell_qt _ _ _)
theorem traverseInsert_qt (src c : Nat) : Keeps (QT G T reg) (traverseInsert src c) :=
  qt_of (fun _ => traverseInsert_fr _ _) (traverseInsert_hk _ _) (fun _ => traverseInsert_lp _ _)
macro_rules | `(tactic| qt_leaf) => `(tactic| exact traverseInsert_qt _ _)
theorem traverseRemove_qt (src c : Nat) : Keeps (QT G T reg) (traverseRemove src c) :=
  qt_of (fun _ => traverseRemove_fr _ _) (traverseRemove_hk _ _) (fun _ => traverseRemove_lp _ _)
macro_rules | `(tactic| qt_leaf) => `(tactic| exact traverseRemove_qt _ _)
theorem moveEntity_qt (src : Loc) (dst : Nat) (new : List (Nat × Cell)) : Keeps (QT G T reg) (moveEntity src dst new) :=
  qt_of (fun _ => moveEntity_fr _ _ _) (moveEntity_hk _ _ _) (fun _ => moveEntity_lp _ _ _)
macro_rules | `(tactic| qt_leaf) => `(tactic| exact moveEntity_qt _ _ _)
theorem removeEntity_qt (loc : Loc) : Keeps (QT G T reg) (removeEntity loc) :=
  qt_of (fun _ => removeEntity_fr _) (removeEntity_hk _) (fun _ => removeEntity_lp _)
macro_rules | `(tactic| qt_leaf) => `(tactic| exact removeEntity_qt _)
theorem spawnAll_qt  : Keeps (QT G T reg) (spawnAll) :=
  qt_of (fun _ => spawnAll_fr) (spawnAll_hk) (fun _ => spawnAll_lp)
macro_rules | `(tactic| qt_leaf) => `(tactic| exact spawnAll_qt)
theorem resRefresh_qt  : Keeps (QT G T reg) (resRefresh) :=
  qt_of (fun _ => resRefresh_fr) (resRefresh_hk) (fun _ => resRefresh_lp)
macro_rules | `(tactic| qt_leaf) => `(tactic| exact resRefresh_qt)
theorem freshE_qt : Keeps (QT G T reg) freshE := by unfold freshE; qt_keeps
macro_rules | `(tactic| qt_leaf) => `(tactic| exact freshE_qt)
theorem dropEvent_qt (x : QItem) : Keeps (QT G T reg) (dropEvent x) := by
  refine ⟨fun w hw => ?_⟩
  rw [run_dropEvent]
  refine ⟨by rw [dropEventW_gevs]; exact hw.1, by rw [dropEventW_tevs]; exact hw.2.1, ?_, ?_⟩
  · have := (dropEvent_hk (reg := reg) x).run w hw.2.2.1
    rw [run_dropEvent] at this
    exact this
  · rw [dropEventW_queue']; exact hw.2.2.2
macro_rules | `(tactic| qt_leaf) => `(tactic| exact dropEvent_qt _)

theorem push_qt {x : QItem} (hx : TOK G T x) : Keeps (QT G T reg) (push x) :=
  Keeps.modify fun _ h => ⟨h.1, h.2.1, h.2.2.1, fun q hq => by
    rcases List.mem_append.1 hq with h1 | h1
    · exact h.2.2.2 q h1
    · cases List.mem_singleton.1 h1; exact hx⟩

theorem senderPush_qt {h : HInfo} (x : QItem) (hs : SendsTOK G T h) : Keeps (QT G T reg) (senderPush h x) := by
  unfold senderPush
  split
  · qt_keeps
  · next ev idx hf =>
    refine push_qt ?_
    have hm := List.mem_of_find?_eq_some hf
    have he : ev = x.ty := by simpa using List.find?_some hf
    exact TOK.congr (x := { ty := ev, idx := idx }) he rfl (hs ev idx hm)

theorem runAct_qt (hst : ∀ k h, reg k = some h → SendsTOK G T h) (hk : Key) (it : QItem) (loc : Loc) (act : Act) :
    Keeps (QT G T reg) (runAct hk it loc act) := by
  unfold runAct
  refine Keeps.get_bind fun w hw => ?_
  split
  · next h hh =>
    have hs : SendsTOK G T h := by
      have := hw.2.2.1 hk
      rw [hh] at this
      exact hst hk h.core this.symm
    repeat' first
      | with_reducible exact senderPush_qt _ hs
      | ((with_reducible refine push_qt ?_); exact TOK.of_not_user rfl)
      | qt_step
  · qt_keeps

theorem runHandler_qt (hst : ∀ k h, reg k = some h → SendsTOK G T h) (hk : Key) (it : QItem) (loc : Loc) :
    Keeps (QT G T reg) (runHandler hk it loc) := by
  unfold runHandler
  repeat' first
    | with_reducible exact runAct_qt hst _ _ _ _
    | qt_step

theorem deliverOne_qt (hst : ∀ k h, reg k = some h → SendsTOK G T h) (it : QItem) :
    Keeps (QT G T reg) (deliverOne it) := by
  unfold deliverOne
  repeat' first
    | with_reducible exact runHandler_qt hst _ _ _
    | qt_step
  exact Keeps.modify fun _ h => ⟨h.1, h.2.1, h.2.2.1, fun q hq => h.2.2.2 q (List.mem_reverse.1 hq)⟩

theorem dropQueued_qt : Keeps (QT G T reg) dropQueued := by
  unfold dropQueued
  qt_keeps
  exact Keeps.modify fun _ h => ⟨h.1, h.2.1, h.2.2.1, fun _ hq => nomatch hq⟩

/-! ## the event loop conserves -/

/-- **the flush-level invariant**: the registries and the handler table (up to caches) are fixed, every queued item is
    disposable, and every serial allocated so far is accounted for -/
abbrev FLQ (a : Nat) (G T : SlotMap EvInfo) (reg : Key → Option HInfo) (Z : List Nat) : World → Prop :=
  fun w => QT G T reg w ∧ Cov a Z w

theorem QT.set_queue {w : World} (h : QT G T reg w) {q : List QItem} (hq : ∀ x ∈ q, TOK G T x) :
    QT G T reg { w with queue := q } := ⟨h.1, h.2.1, h.2.2.1, hq⟩

/-- **`flushWith deliverOne` conserves** — on normal return and when a delivery panics (the guard has put the set-aside
    part of the queue back and `dropQueued` has destroyed everything pending) -/
theorem flush_cov (hst : ∀ k h, reg k = some h → SendsTOK G T h) (fuel : Nat) :
    Hoare (FLQ a G T reg Z) (flush fuel) (fun _ => FLQ a G T reg Z) (PanicOnly (FLQ a G T reg Z)) := by
  unfold flush
  induction fuel with
  | zero => exact Hoare.throw fun _ h _ => h
  | succ fuel ih =>
    rw [flushWith]
    refine Hoare.get_bind fun w hw => ?_
    split
    · exact Hoare.of_keeps (Keeps.set hw) (fun _ _ h _ => h)
    · rename_i it hlast
      have hq := queue_split hlast
      have hitem : TOK G T it := hw.1.2.2.2 it (by rw [hq]; simp)
      have hrest : ∀ x ∈ w.queue.dropLast, TOK G T x := fun x hx => hw.1.2.2.2 x (by rw [hq]; simp [hx])
      have hback : ∀ w1 : World, FLQ a G T reg (pend w.queue.dropLast ++ Z) w1 →
          FLQ a G T reg Z { w1 with queue := w.queue.dropLast ++ w1.queue } := fun w1 h1 => by
        refine ⟨h1.1.set_queue fun x hx => ?_, ?_⟩
        · rcases List.mem_append.1 hx with h2 | h2
          · exact hrest x h2
          · exact h1.1.2.2.2 x h2
        · refine (cover_accounting a).perm h1.2 ?_
          show ((pend w.queue.dropLast ++ Z) ++ (pend w1.queue ++ w1.edrops)).Perm
            (Z ++ (pend (w.queue.dropLast ++ w1.queue) ++ w1.edrops))
          rw [pend_append]
          perm_app
      refine Hoare.bind (R := fun _ => FLQ a G T reg (ledgerOf it ++ (pend w.queue.dropLast ++ Z))) ⟨fun w0 _ => ?_⟩
        fun _ => ?_
      · show FLQ a G T reg (ledgerOf it ++ (pend w.queue.dropLast ++ Z)) { w with queue := [] }
        refine ⟨hw.1.set_queue (fun _ hx => nomatch hx), ?_⟩
        have : Cover a w.nextESerial (Z ++ (pend w.queue ++ w.edrops)) := hw.2
        rw [hq, pend_append, pend_singleton] at this
        refine (cover_accounting a).perm this ?_
        show (Z ++ (pend w.queue.dropLast ++ ledgerOf it ++ w.edrops)).Perm
          ((ledgerOf it ++ (pend w.queue.dropLast ++ Z)) ++ (pend [] ++ w.edrops))
        rw [pend_nil]
        perm_app
      have hd : Hoare (FLQ a G T reg (ledgerOf it ++ (pend w.queue.dropLast ++ Z))) (deliverOne it)
          (fun _ => FLQ a G T reg (pend w.queue.dropLast ++ Z)) (PanicOnly (FLQ a G T reg (pend w.queue.dropLast ++ Z))) := by
        refine ⟨fun w1 h1 => ?_⟩
        have r1 := (deliverOne_qt hst it).run w1 h1.1
        have r2 := (deliverOne_cov (a := a) (Z := pend w.queue.dropLast ++ Z) it).run w1
          ⟨by rw [h1.1.1, h1.1.2.1]; exact hitem, h1.2⟩
        generalize (deliverOne it).run.run w1 = r at r1 r2
        obtain ⟨(e|u), w2⟩ := r
        · exact fun hp => ⟨r1, r2 hp⟩
        · exact ⟨r1, r2⟩
      refine Hoare.bind (R := fun _ => FLQ a G T reg (pend w.queue.dropLast ++ Z)) (Hoare.tryCatch hd fun e => ?_) fun _ => ?_
      · -- the unwinding guard
        cases e with
        | panic s =>
          refine Hoare.pre (P' := FLQ a G T reg (pend w.queue.dropLast ++ Z)) ?_ (fun w h => h rfl)
          refine Hoare.bind (R := fun _ => FLQ a G T reg Z) ⟨fun w1 h1 => hback w1 h1⟩ fun _ => ?_
          refine Hoare.bind_inv ?_ fun _ => Hoare.throw fun _ h _ => h
          refine ⟨fun w1 h1 => ?_⟩
          have r1 := (dropQueued_qt (G := G) (T := T) (reg := reg)).run w1 h1.1
          have r2 := (dropQueued_cov (a := a) (Z := Z) (G := G) (T := T)).run w1 ⟨⟨h1.1.1, h1.1.2.1, h1.1.2.2.2⟩, h1.2⟩
          generalize dropQueued.run.run w1 = r at r1 r2
          obtain ⟨(e|u), w2⟩ := r
          · exact fun hp => ⟨r1, r2 hp⟩
          · exact ⟨r1, r2⟩
        | ub s =>
          refine ⟨fun w _ => ?_⟩
          simp only [run_bind, run_modify, run_throw]
          exact fun hp => nomatch hp
        | assert s =>
          refine ⟨fun w _ => ?_⟩
          simp only [run_bind, run_modify, run_throw]
          exact fun hp => nomatch hp
      · exact Hoare.bind (R := fun _ => FLQ a G T reg Z) ⟨fun w1 h1 => hback w1 h1⟩ fun _ => ih


end qt
end EvLedger
end Evenio
