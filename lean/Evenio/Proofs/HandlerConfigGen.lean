import Evenio.Generated.HandlerConfigGen
import Evenio.Model.World
/-! The functions regenerated from `/repo/src/handler.rs` by `tools/rs2lean` (`Evenio.Gen.HandlerConfig.*`: the nine setters
    of `HandlerConfig`) against the configuration-building code of the world model (`Model/World.lean`: the record `Config`,
    `Config.setRecv`, `Config.setRecvAccess`, `Config.setFilter`, and the record updates `initParam` / `initQuery` perform:
    `accesses ++ [ca]`, `sortedInsert` into `sentG` / `sentT` / `referenced`).  The generated file is rewritten on every run of
    `tools/extract.py`, so these theorems are re-checked against what the code says now.

    The translated record `Gen.HandlerConfig.HandlerConfig` has exactly the fields of the Rust struct.  The model's `Config`
    has the same fields except `event_queue_access` (which the world model does not keep: no parameter of the modelled
    handlers asks for the queue) and carries two bookkeeping fields of its own (`recvMut`, `sends`).  The relation is the
    function `toGen c q` (model config `c` + queue access `q` ↦ translated config); every theorem is a commuting square
    `gen_setter (toGen c q) a = toGen (model_setter c a) q`, and `toGen` is onto (`toGen_surj`).
    `Access::join`, `ComponentAccess::and` are the hand model's `Access.join` (regenerated table) and `CA.and`;
    `BitSet::insert` is `sortedInsert` on the model's sorted lists, paired with "newly inserted".
    Core Lean only. -/
namespace Evenio
namespace HandlerConfigGen
open Rs2Lean Gen.HandlerConfig

/-- the translated `HandlerConfig` of a model configuration `c` whose event-queue access is `q` -/
def toGen (c : Config) (q : Option Access) : HandlerConfig where
  priority := c.prio
  received_event := c.recvEv
  received_event_access := c.recvAccess
  targeted_event_component_access := c.filter
  targeted_event_component_access_set := c.filterSet
  sent_global_events := c.sentG
  sent_targeted_events := c.sentT
  event_queue_access := q
  component_accesses := c.accesses
  referenced_components := c.referenced

/-- every translated configuration is the image of a model configuration -/
theorem toGen_surj (g : HandlerConfig) : ∃ c q, toGen c q = g :=
  ⟨{ prio := g.priority, recvEv := g.received_event, recvAccess := g.received_event_access,
     filter := g.targeted_event_component_access, filterSet := g.targeted_event_component_access_set,
     sentG := g.sent_global_events, sentT := g.sent_targeted_events, accesses := g.component_accesses,
     referenced := g.referenced_components }, g.event_queue_access, rfl⟩

/-- the default `HandlerConfig` (`MaybeInvalidAccess::default()` is `Ok(Access::None)`) is the model's `{}` -/
theorem toGen_default :
    toGen {} (some .none) =
      { priority := .medium, received_event := none, received_event_access := some .none,
        targeted_event_component_access := CA.ff, targeted_event_component_access_set := false,
        sent_global_events := [], sent_targeted_events := [], event_queue_access := some .none,
        component_accesses := [], referenced_components := [] } := rfl

/-- `join`-or-`Invalid`: what `set_received_event_access` / `set_event_queue_access` do to a `MaybeInvalidAccess` -/
def joinOrInvalid (a : Access) : Option Access → Option Access
  | some old => a.join old
  | none => none

private theorem key_beq_iff (a b : Key) : (a == b) = true ↔ a = b := by
  cases a; cases b
  show instBEqKey.beq _ _ = true ↔ _
  simp [instBEqKey.beq]

/-- the translated `set_priority` sets the model's `prio` -/
theorem set_priority_eq (c : Config) (q : Option Access) (p : Priority) :
    set_priority (toGen c q) p = toGen { c with prio := p } q := rfl

/-- the translated `set_received_event` is the model's `Config.setRecv` -/
theorem set_received_event_eq (c : Config) (q : Option Access) (ty : EvTy) (k : Key) :
    set_received_event (toGen c q) (ty, k) = toGen (c.setRecv ty k) q := by
  simp only [set_received_event, Config.setRecv, toGen]
  cases h : c.recvEv with
  | none => rfl
  | some o =>
    cases o with
    | none => rfl
    | some old =>
      obtain ⟨ty', k'⟩ := old
      by_cases h1 : ty' = ty <;> by_cases h2 : k' = k <;> simp [h1, h2, key_beq_iff]

/-- the translated `set_received_event_access` is the model's `Config.setRecvAccess` (join, or `Invalid`) -/
theorem set_received_event_access_eq (c : Config) (q : Option Access) (a : Access) :
    set_received_event_access (toGen c q) a = toGen (c.setRecvAccess a) q := by
  simp only [set_received_event_access, Config.setRecvAccess, toGen]
  cases c.recvAccess with
  | none => rfl
  | some old => cases h : a.join old <;> simp [h]

/-- … in terms of `joinOrInvalid` -/
theorem setRecvAccess_joinOrInvalid (c : Config) (a : Access) :
    (c.setRecvAccess a).recvAccess = joinOrInvalid a c.recvAccess := by
  simp only [Config.setRecvAccess, joinOrInvalid]; cases c.recvAccess <;> rfl

/-- the translated `set_targeted_event_component_access` is the model's `Config.setFilter`:
    the first filter is stored, every later one is `and`-ed to it, and the flag is set -/
theorem set_targeted_event_component_access_eq (c : Config) (q : Option Access) (ca : CA) :
    set_targeted_event_component_access (toGen c q) ca = toGen (c.setFilter ca) q := by
  simp only [set_targeted_event_component_access, Config.setFilter, toGen]
  cases c.filterSet <;> rfl

/-- the translated `set_event_queue_access` joins with the old access, or stays `Invalid`; nothing else changes
    (the world model has no counterpart: it does not keep this field) -/
theorem set_event_queue_access_eq (c : Config) (q : Option Access) (a : Access) :
    set_event_queue_access (toGen c q) a = toGen c (joinOrInvalid a q) := by
  simp only [set_event_queue_access, joinOrInvalid, toGen]
  cases q with
  | none => rfl
  | some old => cases h : a.join old <;> simp [h]

/-- the translated `push_component_access` appends to the model's `accesses` (what `initParam` does), duplicates included -/
theorem push_component_access_eq (c : Config) (q : Option Access) (ca : CA) :
    push_component_access (toGen c q) ca = toGen { c with accesses := c.accesses ++ [ca] } q := rfl

/-- the translated `insert_referenced_components` is the `sortedInsert` of the model's `initQuery` -/
theorem insert_referenced_components_eq (c : Config) (q : Option Access) (i : Nat) :
    insert_referenced_components (toGen c q) i = toGen { c with referenced := sortedInsert c.referenced i } q := rfl

/-- the translated `insert_sent_global_event` is the `sortedInsert` into `sentG` of the model's `initParam`; the result says
    whether the event was new -/
theorem insert_sent_global_event_eq (c : Config) (q : Option Access) (i : Nat) :
    insert_sent_global_event (toGen c q) i = (toGen { c with sentG := sortedInsert c.sentG i } q, !c.sentG.contains i) := rfl

/-- the translated `insert_sent_targeted_event` is the `sortedInsert` into `sentT` of the model's `initParam` -/
theorem insert_sent_targeted_event_eq (c : Config) (q : Option Access) (i : Nat) :
    insert_sent_targeted_event (toGen c q) i = (toGen { c with sentT := sortedInsert c.sentT i } q, !c.sentT.contains i) := rfl

end HandlerConfigGen
end Evenio
