import Evenio.Model.BitSet
/-! Refinement proofs for the `bit_set.rs` model: a `BitSet` denotes the finite set `{v | s.contains v}`, every
    operation of the model is characterised on that abstraction. -/
namespace Evenio.BitSet

/-! ## block level -/

theorem getLsbD_mask (bit i : Nat) : (mask bit).getLsbD i = (decide (i < 64) && decide (i = bit)) := by
  simp only [mask, BitVec.getLsbD_shiftLeft, BitVec.getLsbD_one]
  by_cases h1 : i < 64 <;> by_cases h2 : i < bit <;> by_cases h3 : i = bit <;> simp [h1, h2, h3] <;> omega

theorem shr_and_one (b : Block) (k : Nat) : ((b >>> k) &&& 1#64) = if b.getLsbD k then 1#64 else 0#64 := by
  apply BitVec.eq_of_getLsbD_eq
  intro i hi
  by_cases h0 : i = 0
  · subst h0; cases h : b.getLsbD k <;> simp [h]
  · cases h : b.getLsbD k <;> simp [h0]

theorem shr_and_one_beq (b : Block) (k : Nat) : ((b >>> k) &&& 1 == 1) = b.getLsbD k := by
  have := shr_and_one b k
  cases h : b.getLsbD k <;> simp_all

theorem and_mask_eq_zero (b : Block) (k : Nat) (hk : k < 64) : (b &&& mask k == 0) = !b.getLsbD k := by
  cases h : b.getLsbD k
  · simp only [Bool.not_false, beq_iff_eq]
    apply BitVec.eq_of_getLsbD_eq
    intro i hi
    simp only [BitVec.getLsbD_and, getLsbD_mask]
    by_cases hik : i = k
    · subst hik; simp [h]
    · simp [hik]
  · simp only [Bool.not_true, beq_eq_false_iff_ne, ne_eq]
    intro hc
    have := congrArg (·.getLsbD k) hc
    simp only [BitVec.getLsbD_and, getLsbD_mask, h] at this
    simp [hk] at this

theorem getLsbD_or_mask (b : Block) (k j : Nat) (hj : j < 64) :
    (b ||| mask k).getLsbD j = (decide (j = k) || b.getLsbD j) := by
  simp only [BitVec.getLsbD_or, getLsbD_mask, hj, decide_true, Bool.true_and, Bool.or_comm]

theorem getLsbD_and_not_mask (b : Block) (k j : Nat) (hj : j < 64) :
    (b &&& ~~~ mask k).getLsbD j = (!decide (j = k) && b.getLsbD j) := by
  simp only [BitVec.getLsbD_and, BitVec.getLsbD_not, getLsbD_mask, hj, decide_true, Bool.true_and, Bool.and_comm]


/-! ## list level: blocks are read through `getD · 0` (a missing block is a zero block) -/

/-- block `i` of the set, `0` beyond the end of the vector -/
abbrev blockAt (s : BitSet) (i : Nat) : Block := s.blocks.getD i 0

theorem contains_eq (s : BitSet) (v : Nat) : s.contains v = (s.blockAt (v / 64)).getLsbD (v % 64) := by
  simp only [contains, blockAt, BITS, List.getD_eq_getElem?_getD]
  cases h : s.blocks[v / 64]? with
  | none => simp
  | some b => simp only [Option.getD_some]; exact shr_and_one_beq b _

/-- the abstraction: the set of naturals denoted by a bit set -/
def mem (s : BitSet) (v : Nat) : Prop := s.contains v = true

instance (s : BitSet) (v : Nat) : Decidable (mem s v) := inferInstanceAs (Decidable (_ = true))

/-- two block sequences denote the same set iff they agree block by block -/
theorem blocks_ext_iff (A B : Nat → Block) :
    (∀ x, (A (x / 64)).getLsbD (x % 64) = (B (x / 64)).getLsbD (x % 64)) ↔ ∀ i, A i = B i := by
  constructor
  · intro h i
    apply BitVec.eq_of_getLsbD_eq
    intro j hj
    have := h (64 * i + j)
    have h1 : (64 * i + j) / 64 = i := by omega
    have h2 : (64 * i + j) % 64 = j := by omega
    rwa [h1, h2] at this
  · intro h x; rw [h]

theorem getD_resize (l : List Block) (n i : Nat) :
    (resize l n).getD i 0 = if i < n then l.getD i 0 else 0 := by
  simp only [resize, List.getD_eq_getElem?_getD, List.getElem?_append, List.length_take,
    List.getElem?_take, List.getElem?_replicate]
  by_cases h1 : i < n
  · by_cases h2 : i < l.length
    · simp [h1, h2, Nat.lt_min]
    · have : ¬ i < min n l.length := by omega
      have h3 : l[i]? = none := List.getElem?_eq_none (by omega)
      simp only [this, if_false, h1, if_true, h3]
      split <;> rfl
  · have : ¬ i < min n l.length := by omega
    have : ¬ i - min n l.length < n - l.length := by omega
    simp [*]

theorem length_resize (l : List Block) (n : Nat) : (resize l n).length = n := by
  simp only [resize, List.length_append, List.length_take, List.length_replicate]; omega

theorem blockAt_growToBlock (s : BitSet) (k i : Nat) : (s.growToBlock k).blockAt i = s.blockAt i := by
  unfold growToBlock blockAt
  split
  · simp only [getD_resize]
    split
    · rfl
    · rw [List.getD_eq_getElem?_getD, List.getElem?_eq_none (by omega)]; rfl
  · rfl

theorem length_growToBlock (s : BitSet) (k : Nat) : k < (s.growToBlock k).blocks.length := by
  unfold growToBlock
  split
  · simp [length_resize]
  · omega

theorem getD_set (l : List Block) (k i : Nat) (b : Block) :
    (l.set k b).getD i 0 = if i = k ∧ k < l.length then b else l.getD i 0 := by
  simp only [List.getD_eq_getElem?_getD, List.getElem?_set]
  by_cases h : k = i
  · subst h
    by_cases h2 : k < l.length <;> simp [h2]
  · have : ¬ i = k := fun h' => h h'.symm
    simp [h, this]

/-! ## `new`, `clear`, `insert`, `remove` -/

theorem contains_new (v : Nat) : new.contains v = false := by
  simp [contains, new]

theorem contains_clear (s : BitSet) (v : Nat) : s.clear.contains v = false := by
  simp [contains, clear]

theorem blockAt_insert (s : BitSet) (v i : Nat) :
    (s.insert v).1.blockAt i = if i = v / 64 then s.blockAt i ||| mask (v % 64) else s.blockAt i := by
  simp only [insert, BITS, blockAt, getD_set]
  have hlen := length_growToBlock s (v / 64)
  have hg := blockAt_growToBlock s (v / 64)
  simp only [blockAt] at hg
  by_cases h : i = v / 64
  · subst h; simp only [hlen, and_self, if_true, hg]
  · simp only [h, false_and, if_false, hg]

theorem contains_insert (s : BitSet) (v x : Nat) :
    (s.insert v).1.contains x = (decide (x = v) || s.contains x) := by
  simp only [contains_eq, blockAt_insert]
  by_cases h : x / 64 = v / 64
  · simp only [h, if_true, getLsbD_or_mask _ _ _ (Nat.mod_lt x (by decide : 0 < 64))]
    congr 1
    by_cases h2 : x % 64 = v % 64
    · have : x = v := by omega
      simp [this]
    · have : ¬ x = v := fun e => h2 (by rw [e])
      simp [h2, this]
  · have : ¬ x = v := fun e => h (by rw [e])
    simp [h, this]

theorem insert_snd (s : BitSet) (v : Nat) : (s.insert v).2 = !s.contains v := by
  simp only [insert, BITS, contains_eq]
  rw [and_mask_eq_zero _ _ (Nat.mod_lt v (by decide : 0 < 64))]
  have hg := blockAt_growToBlock s (v / 64) (v / 64)
  simp only [blockAt] at hg ⊢
  rw [hg]

theorem blockAt_remove (s : BitSet) (v i : Nat) :
    (s.remove v).1.blockAt i = if i = v / 64 then s.blockAt i &&& ~~~ mask (v % 64) else s.blockAt i := by
  simp only [remove, BITS, blockAt]
  cases hb : s.blocks[v / 64]? with
  | none =>
    simp only
    split
    · next h => subst h; simp [List.getD_eq_getElem?_getD, hb]
    · rfl
  | some b =>
    simp only [getD_set]
    have hlt : v / 64 < s.blocks.length := by
      rcases Nat.lt_or_ge (v / 64) s.blocks.length with h | h
      · exact h
      · rw [List.getElem?_eq_none h] at hb; cases hb
    by_cases h : i = v / 64
    · subst h
      have hb' : s.blocks[v / 64] = b := by
        rw [List.getElem?_eq_getElem hlt] at hb; exact Option.some.inj hb
      simp [hlt, hb']
    · simp [h]

theorem contains_remove (s : BitSet) (v x : Nat) :
    (s.remove v).1.contains x = (!decide (x = v) && s.contains x) := by
  simp only [contains_eq, blockAt_remove]
  by_cases h : x / 64 = v / 64
  · simp only [h, if_true, getLsbD_and_not_mask _ _ _ (Nat.mod_lt x (by decide : 0 < 64))]
    congr 2
    by_cases h2 : x % 64 = v % 64
    · have : x = v := by omega
      simp [this]
    · have : ¬ x = v := fun e => h2 (by rw [e])
      simp [h2, this]
  · have : ¬ x = v := fun e => h (by rw [e])
    simp [h, this]

theorem remove_snd (s : BitSet) (v : Nat) : (s.remove v).2 = s.contains v := by
  simp only [remove, BITS, contains_eq, blockAt, List.getD_eq_getElem?_getD]
  cases hb : s.blocks[v / 64]? with
  | none => simp
  | some b =>
    simp only [Option.getD_some]
    have := and_mask_eq_zero b (v % 64) (Nat.mod_lt v (by decide : 0 < 64))
    rw [bne, this]; simp

/-! ## `shrink_to_fit` -/

theorem dropZeroPrefix_spec (r : List Block) : ∃ k, r = List.replicate k 0 ++ dropZeroPrefix r := by
  induction r with
  | nil => exact ⟨0, rfl⟩
  | cons b r ih =>
    unfold dropZeroPrefix
    by_cases h : b = 0#64
    · obtain ⟨k, hk⟩ := ih
      refine ⟨k + 1, ?_⟩
      subst h
      have : ((0#64 : Block) != 0) = false := by decide
      simp only [this, Bool.false_eq_true, if_false, List.replicate_succ, List.cons_append]
      rw [← hk]; rfl
    · exact ⟨0, by simp [h]⟩

theorem getD_append_zeros (m : List Block) (k i : Nat) : (m ++ List.replicate k 0).getD i 0 = m.getD i 0 := by
  simp only [List.getD_eq_getElem?_getD, List.getElem?_append, List.getElem?_replicate]
  by_cases h : i < m.length
  · simp [h]
  · rw [List.getElem?_eq_none (Nat.le_of_not_lt h)]
    simp only [h, if_false]
    split <;> rfl

theorem blockAt_shrinkToFit (s : BitSet) (i : Nat) : s.shrinkToFit.blockAt i = s.blockAt i := by
  obtain ⟨k, hk⟩ := dropZeroPrefix_spec s.blocks.reverse
  have : s.blocks = (dropZeroPrefix s.blocks.reverse).reverse ++ List.replicate k 0 := by
    have := congrArg List.reverse hk
    simpa using this
  simp only [blockAt, shrinkToFit]
  conv => rhs; rw [this]
  rw [getD_append_zeros]

theorem contains_shrinkToFit (s : BitSet) (x : Nat) : s.shrinkToFit.contains x = s.contains x := by
  simp only [contains_eq, blockAt_shrinkToFit]

theorem dropZeroPrefix_head (r : List Block) : (dropZeroPrefix r).head? ≠ some 0 := by
  induction r with
  | nil => simp [dropZeroPrefix]
  | cons b r ih =>
    unfold dropZeroPrefix
    by_cases h : b = 0#64
    · simpa [h] using ih
    · simp [h]

/-- after `shrink_to_fit` the vector is empty or ends in a nonzero block -/
theorem shrinkToFit_getLast (s : BitSet) : s.shrinkToFit.blocks.getLast? ≠ some 0 := by
  simp only [shrinkToFit, List.getLast?_reverse]
  exact dropZeroPrefix_head _

/-! ## `|=` and `^=` -/

theorem getD_zipAssign (f : Block → Block → Block) (hf : ∀ a, f a 0#64 = a) :
    ∀ (as bs : List Block) (i : Nat), bs.length ≤ as.length →
      (zipAssign f as bs).getD i 0 = f (as.getD i 0) (bs.getD i 0)
  | [], [], i, _ => by simp [zipAssign, hf]
  | [], _ :: _, _, h => by simp at h
  | a :: as, [], i, _ => by simp [zipAssign, hf]
  | a :: as, b :: bs, 0, _ => by simp [zipAssign]
  | a :: as, b :: bs, i + 1, h => by
    have := getD_zipAssign f hf as bs i (by simpa using h)
    simpa [zipAssign] using this

theorem length_zipAssign (f : Block → Block → Block) :
    ∀ (as bs : List Block), (zipAssign f as bs).length = as.length
  | [], _ => by simp [zipAssign]
  | _ :: _, [] => by simp [zipAssign]
  | a :: as, b :: bs => by simp [zipAssign, length_zipAssign f as bs]

/-- the `resize` step of `|=` / `^=` does not change any block value and makes `self` at least as long as `rhs` -/
theorem resize_step (a b : List Block) :
    let blocks := if a.length < b.length then resize a b.length else a
    b.length ≤ blocks.length ∧ ∀ i, blocks.getD i 0 = a.getD i 0 := by
  intro blocks
  by_cases h : a.length < b.length
  · simp only [blocks, h, if_true, length_resize, getD_resize]
    refine ⟨Nat.le_refl _, fun i => ?_⟩
    split
    · rfl
    · rw [List.getD_eq_getElem?_getD, List.getElem?_eq_none (by omega)]; rfl
  · have : blocks = a := by simp only [blocks, h, if_false]
    rw [this]
    exact ⟨by omega, fun _ => rfl⟩

theorem blockAt_orAssign (a b : BitSet) (i : Nat) : (a.orAssign b).blockAt i = a.blockAt i ||| b.blockAt i := by
  have ⟨h1, h2⟩ := resize_step a.blocks b.blocks
  simp only [blockAt, orAssign]
  rw [getD_zipAssign _ (by simp) _ _ _ h1, h2]

theorem blockAt_xorAssign (a b : BitSet) (i : Nat) : (a.xorAssign b).blockAt i = a.blockAt i ^^^ b.blockAt i := by
  have ⟨h1, h2⟩ := resize_step a.blocks b.blocks
  simp only [blockAt, xorAssign]
  rw [getD_zipAssign _ (by simp) _ _ _ h1, h2]

theorem contains_orAssign (a b : BitSet) (x : Nat) :
    (a.orAssign b).contains x = (a.contains x || b.contains x) := by
  simp only [contains_eq, blockAt_orAssign, BitVec.getLsbD_or]

theorem contains_xorAssign (a b : BitSet) (x : Nat) :
    (a.xorAssign b).contains x = (a.contains x != b.contains x) := by
  simp only [contains_eq, blockAt_xorAssign, BitVec.getLsbD_xor]

/-- the vector length after `|=` / `^=`: the longer of the two (observed by `nblocks`) -/
theorem length_orAssign (a b : BitSet) : (a.orAssign b).blocks.length = max a.blocks.length b.blocks.length := by
  simp only [orAssign, length_zipAssign]
  split
  · rw [length_resize]; omega
  · omega

theorem length_xorAssign (a b : BitSet) : (a.xorAssign b).blocks.length = max a.blocks.length b.blocks.length := by
  simp only [xorAssign, length_zipAssign]
  split
  · rw [length_resize]; omega
  · omega

/-! ## `is_disjoint`, `is_empty` -/

theorem all_zip_iff (p : Block → Block → Block) (hp : ∀ a, p a 0#64 = 0#64 ∧ p 0#64 a = 0#64) :
    ∀ (as bs : List Block),
      ((as.zip bs).all fun (a, b) => p a b == 0) = true ↔ ∀ i, p (as.getD i 0) (bs.getD i 0) = 0
  | [], bs => by simp [hp]
  | a :: as, [] => by simp [hp]
  | a :: as, b :: bs => by
    have ih := all_zip_iff p hp as bs
    simp only [List.zip_cons_cons, List.all_cons, Bool.and_eq_true, beq_iff_eq, ih]
    constructor
    · rintro ⟨h0, h⟩ i
      cases i with
      | zero => simpa using h0
      | succ i => simpa using h i
    · intro h
      exact ⟨by simpa using h 0, fun i => by simpa using h (i + 1)⟩

theorem isDisjoint_iff (a b : BitSet) :
    a.isDisjoint b = true ↔ ∀ x, ¬ (a.contains x = true ∧ b.contains x = true) := by
  unfold isDisjoint
  rw [all_zip_iff (· &&& ·) (by simp)]
  rw [← blocks_ext_iff (fun i => a.blocks.getD i 0 &&& b.blocks.getD i 0) (fun _ => 0)]
  simp only [contains_eq, blockAt, BitVec.getLsbD_and]
  constructor
  · intro h x hx
    have := h x
    rw [hx.1, hx.2] at this
    simp at this
  · intro h x
    have := h x
    cases h1 : (a.blocks.getD (x / 64) 0).getLsbD (x % 64) <;>
      cases h2 : (b.blocks.getD (x / 64) 0).getLsbD (x % 64) <;> simp_all

theorem all_zero_iff : ∀ (as : List Block), (as.all fun b => b == 0) = true ↔ ∀ i, as.getD i 0 = 0
  | [] => by simp
  | a :: as => by
    have ih := all_zero_iff as
    simp only [List.all_cons, Bool.and_eq_true, beq_iff_eq, ih]
    constructor
    · rintro ⟨h0, h⟩ i
      cases i with
      | zero => simpa using h0
      | succ i => simpa using h i
    · intro h
      exact ⟨by simpa using h 0, fun i => by simpa using h (i + 1)⟩

theorem isEmpty_iff (s : BitSet) : s.isEmpty = true ↔ ∀ x, s.contains x = false := by
  unfold isEmpty
  rw [all_zero_iff, ← blocks_ext_iff (fun i => s.blocks.getD i 0) (fun _ => 0)]
  simp only [contains_eq, blockAt]
  constructor
  · intro h x; rw [h x]; simp
  · intro h x; rw [h x]; simp

/-! ## `Ord::cmp` and `PartialEq::eq` -/

theorem cmpLeftDone_eq_iff : ∀ rs : List Block, cmpLeftDone rs = .eq ↔ ∀ i, rs.getD i 0 = 0#64
  | [] => by simp [cmpLeftDone]
  | r :: rs => by
    have ih := cmpLeftDone_eq_iff rs
    unfold cmpLeftDone
    by_cases h : r = 0#64
    · subst h
      have : ((0#64 : Block) != 0) = false := by decide
      simp only [this, Bool.false_eq_true, if_false, ih]
      constructor
      · intro h i
        cases i with
        | zero => rfl
        | succ i => simpa using h i
      · intro h i; simpa using h (i + 1)
    · have : (r != 0) = true := by simpa using h
      simp only [this, if_true]
      constructor
      · intro h'; cases h'
      · intro h'; exact absurd (by simpa using h' 0) h

theorem cmpRightDone_eq_swap (ls : List Block) : cmpRightDone ls = (cmpLeftDone ls).swap := by
  induction ls with
  | nil => rfl
  | cons l ls ih =>
    unfold cmpRightDone cmpLeftDone
    split
    · rfl
    · exact ih

theorem cmpBlocks_nil_right (ls : List Block) : cmpBlocks ls [] = cmpRightDone ls := by
  cases ls <;> rfl

/-- antisymmetry: exchanging the operands reverses the result -/
theorem cmpBlocks_swap : ∀ a b : List Block, cmpBlocks a b = (cmpBlocks b a).swap
  | [], rs => by
    rw [cmpBlocks_nil_right, cmpRightDone_eq_swap, Ordering.swap_swap]; rfl
  | l :: ls, [] => by
    show cmpRightDone (l :: ls) = (cmpLeftDone (l :: ls)).swap
    exact cmpRightDone_eq_swap _
  | l :: ls, r :: rs => by
    have ih := cmpBlocks_swap ls rs
    simp only [cmpBlocks]
    rw [← Nat.compare_swap r.toNat l.toNat]
    cases h : compare r.toNat l.toNat <;> simp [Ordering.swap, ih]

theorem cmp_swap (a b : BitSet) : a.cmp b = (b.cmp a).swap := cmpBlocks_swap _ _

theorem cmpBlocks_eq_iff : ∀ a b : List Block, cmpBlocks a b = .eq ↔ ∀ i, a.getD i 0 = b.getD i 0
  | [], rs => by
    show cmpLeftDone rs = .eq ↔ _
    rw [cmpLeftDone_eq_iff]
    constructor
    · intro h i; rw [h i]; rfl
    · intro h i; rw [← h i]; rfl
  | l :: ls, [] => by
    show cmpRightDone (l :: ls) = .eq ↔ _
    rw [cmpRightDone_eq_swap, Ordering.swap_eq_eq, cmpLeftDone_eq_iff]
    constructor
    · intro h i; rw [h i]; rfl
    · intro h i; rw [h i]; rfl
  | l :: ls, r :: rs => by
    have ih := cmpBlocks_eq_iff ls rs
    simp only [cmpBlocks]
    by_cases hlr : l = r
    · subst hlr
      simp only [Nat.compare_eq_eq.mpr rfl, ih]
      constructor
      · intro h i
        cases i with
        | zero => rfl
        | succ i => simpa using h i
      · intro h i; simpa using h (i + 1)
    · have hne : l.toNat ≠ r.toNat := fun e => hlr (BitVec.eq_of_toNat_eq e)
      constructor
      · intro h
        cases hc : compare l.toNat r.toNat with
        | lt => rw [hc] at h; cases h
        | gt => rw [hc] at h; cases h
        | eq => exact absurd (Nat.compare_eq_eq.mp hc) hne
      · intro h; exact absurd (by simpa using h 0) hlr

/-- `a == b` (i.e. `a.cmp(b).is_eq()`) holds exactly when both denote the same set: trailing zero blocks are ignored -/
theorem beq_iff (a b : BitSet) : a.beq b = true ↔ ∀ x, a.contains x = b.contains x := by
  simp only [beq, cmp, beq_iff_eq, cmpBlocks_eq_iff, contains_eq, blockAt]
  exact (blocks_ext_iff (fun i => a.blocks.getD i 0) (fun i => b.blocks.getD i 0)).symm

theorem cmp_eq_iff (a b : BitSet) : a.cmp b = .eq ↔ ∀ x, a.contains x = b.contains x := by
  rw [← beq_iff]; simp [beq]

theorem cmp_eq_iff_beq (a b : BitSet) : a.cmp b = .eq ↔ a.beq b = true := by simp [beq]

theorem cmp_refl (a : BitSet) : a.cmp a = .eq := (cmp_eq_iff a a).mpr fun _ => rfl

/-- `==` is an equivalence relation (it is equality of the denoted sets) -/
theorem beq_symm (a b : BitSet) : a.beq b = b.beq a := by
  rw [Bool.eq_iff_iff, beq_iff, beq_iff]
  exact ⟨fun h x => (h x).symm, fun h x => (h x).symm⟩

theorem beq_trans (a b c : BitSet) (h1 : a.beq b = true) (h2 : b.beq c = true) : a.beq c = true := by
  rw [beq_iff] at *
  exact fun x => (h1 x).trans (h2 x)

/-- `cmp` is NOT transitive: with block vectors `a = [5]`, `b = [5, 0]`, `c = [5, 7]` (sets `{0,2}`, `{0,2}` with a
    spare block, `{0,2,64,65,66}`) we get `a == b`, `b < c`, but `a > c`: a nonzero surplus block on the right yields
    `Greater` when the left iterator is exhausted, whereas the same block compared with an explicit zero block
    yields `Less`. -/
theorem cmp_not_transitive :
    ∃ a b c : BitSet, a.cmp b = .eq ∧ b.cmp c = .lt ∧ a.cmp c = .gt :=
  ⟨⟨[5]⟩, ⟨[5, 0]⟩, ⟨[5, 7]⟩, by decide, by decide, by decide⟩

/-- consequently `cmp` does not respect `==`: equal sets compare differently against a third one -/
theorem cmp_not_congr : ∃ a b c : BitSet, a.beq b = true ∧ a.cmp c ≠ b.cmp c :=
  ⟨⟨[5]⟩, ⟨[5, 0]⟩, ⟨[5, 7]⟩, by decide, by decide⟩

/-- on vectors of equal length `cmp` is the lexicographic order of the blocks from index 0 upwards, hence lawful;
    stated here as transitivity of `lt` -/
theorem cmpBlocks_lt_trans : ∀ a b c : List Block, a.length = b.length → b.length = c.length →
    cmpBlocks a b = .lt → cmpBlocks b c = .lt → cmpBlocks a c = .lt
  | [], [], [], _, _, h, _ => by cases h
  | [], _ :: _, _, h, _, _, _ => by simp at h
  | _ :: _, [], _, h, _, _, _ => by simp at h
  | _ :: _, _ :: _, [], _, h, _, _ => by simp at h
  | x :: a, y :: b, z :: c, hab, hbc, h1, h2 => by
    have ih := cmpBlocks_lt_trans a b c (by simpa using hab) (by simpa using hbc)
    simp only [cmpBlocks] at h1 h2 ⊢
    cases hxy : compare x.toNat y.toNat <;> rw [hxy] at h1 <;>
      cases hyz : compare y.toNat z.toNat <;> rw [hyz] at h2 <;> simp at h1 h2
    · have : compare x.toNat z.toNat = .lt := by
        rw [Nat.compare_eq_lt] at *; omega
      rw [this]
    · have : compare x.toNat z.toNat = .lt := by
        rw [Nat.compare_eq_eq] at hyz; rw [Nat.compare_eq_lt] at *; omega
      rw [this]
    · have : compare x.toNat z.toNat = .lt := by
        rw [Nat.compare_eq_eq] at hxy; rw [Nat.compare_eq_lt] at *; omega
      rw [this]
    · have : compare x.toNat z.toNat = .eq := by
        rw [Nat.compare_eq_eq] at *; omega
      rw [this]; exact ih h1 h2

/-! ## the iterator -/

/-- the set bits of one block in ascending order -/
def setBits (b : Block) : List Nat := (List.range 64).filter b.getLsbD

theorem ctz_lt (b : Block) (hb : b ≠ 0#64) : b.ctz.toNat < 64 := by
  have := (BitVec.ctz_lt_iff_ne_zero (x := b)).mpr hb
  rw [BitVec.lt_def] at this
  simpa using this

theorem filter_range_skip (p : Nat → Bool) (n t : Nat) (ht : t ≤ n) (h : ∀ i, i < t → p i = false) :
    (List.range n).filter p = (List.range' t (n - t)).filter p := by
  have e : List.range n = List.range' 0 t ++ List.range' t (n - t) := by
    rw [List.range_eq_range']
    have := List.range'_append (s := 0) (m := t) (n := n - t) (step := 1)
    rw [show t + (n - t) = n by omega] at this
    rw [← this]; simp
  rw [e, List.filter_append]
  have : (List.range' 0 t).filter p = [] := by
    rw [List.filter_eq_nil_iff]
    intro a ha
    rw [List.mem_range'_1] at ha
    rw [h a (by omega)]; simp
  rw [this, List.nil_append]

/-- one step of `Iter::next` on the current block: `trailing_zeros` is the least element, and clearing that bit
    leaves the remaining elements -/
theorem setBits_step (b : Block) (hb : b ≠ 0#64) :
    setBits b = b.ctz.toNat :: setBits (b ^^^ mask b.ctz.toNat) := by
  have ht := ctz_lt b hb
  have hlow : ∀ i, i < b.ctz.toNat → b.getLsbD i = false := fun i hi => BitVec.getLsbD_false_of_lt_ctz hi
  have hbit := BitVec.getLsbD_true_ctz_of_ne_zero hb
  generalize b.ctz.toNat = t at *
  have hb' : ∀ i, (b ^^^ mask t).getLsbD i = (b.getLsbD i != (decide (i < 64) && decide (i = t))) := by
    intro i; rw [BitVec.getLsbD_xor, getLsbD_mask]
  unfold setBits
  rw [filter_range_skip b.getLsbD 64 t (by omega) hlow,
    filter_range_skip (b ^^^ mask t).getLsbD 64 (t + 1) (by omega)]
  · rw [show 64 - t = (64 - (t + 1)) + 1 by omega, List.range'_succ, List.filter_cons, hbit, if_pos rfl]
    congr 1
    apply List.filter_congr
    intro x hx
    rw [List.mem_range'_1] at hx
    rw [hb']
    have : ¬ x = t := by omega
    simp [this]
  · intro i hi
    rw [hb']
    by_cases h : i = t
    · subst h; simp [hbit, ht]
    · rw [hlow i (by omega)]; simp [h]

theorem setBits_zero : setBits 0#64 = [] := by
  unfold setBits
  rw [List.filter_eq_nil_iff]
  intro a _; simp

/-- the elements at or above block `j`, ascending -/
def tailFrom (blocks : List Block) (j : Nat) : List Nat :=
  (List.range' (64 * j) (64 * (blocks.length - j))).filter (contains ⟨blocks⟩)

theorem tailFrom_of_le (blocks : List Block) (j : Nat) (h : blocks.length ≤ j) : tailFrom blocks j = [] := by
  unfold tailFrom
  rw [show blocks.length - j = 0 by omega]; rfl

theorem tailFrom_step (blocks : List Block) (j : Nat) (b : Block) (hb : blocks[j]? = some b) :
    tailFrom blocks j = (setBits b).map (64 * j + ·) ++ tailFrom blocks (j + 1) := by
  have hj : j < blocks.length := by
    rcases Nat.lt_or_ge j blocks.length with h | h
    · exact h
    · rw [List.getElem?_eq_none h] at hb; cases hb
  unfold tailFrom setBits
  have e : 64 * (blocks.length - j) = 64 + 64 * (blocks.length - (j + 1)) := by omega
  have := List.range'_append (s := 64 * j) (m := 64) (n := 64 * (blocks.length - (j + 1))) (step := 1)
  rw [e, ← this, List.filter_append]
  congr 1
  · rw [List.range'_eq_map_range, List.filter_map]
    congr 1
    apply List.filter_congr
    intro i hi
    rw [List.mem_range] at hi
    simp only [Function.comp, contains_eq, blockAt, List.getD_eq_getElem?_getD]
    rw [show (64 * j + i) / 64 = j by omega, show (64 * j + i) % 64 = i by omega, hb]; rfl

/-- what an iterator in state `it` is still going to yield: the remaining bits of the current block, then all
    later blocks -/
def Iter.spec (it : Iter) : List Nat :=
  (setBits it.bits).map (64 * it.blockIdx + ·) ++ tailFrom it.blocks (it.blockIdx + 1)

/-- postcondition of the `while self.bits == 0` loop started in state `it`: it does not change what remains to be
    yielded; when it is left normally the current block is nonzero; when `?` returns, nothing remains and the state
    is one in which the loop fails again at once (`FusedIterator`) -/
structure SkipPost (it : Iter) (r : Iter × Bool) : Prop where
  blocks : r.1.blocks = it.blocks
  idx : r.1.blockIdx ≤ it.blocks.length
  spec : r.1.spec = it.spec
  ok : r.2 = true → r.1.bits ≠ 0#64
  done : r.2 = false → it.spec = [] ∧ r.1.bits = 0#64 ∧ r.1.blocks[r.1.blockIdx + 1]? = none

theorem Iter.skipZero_spec : ∀ (fuel : Nat) (it : Iter), it.blockIdx ≤ it.blocks.length →
    it.blocks.length + 1 ≤ fuel + it.blockIdx → SkipPost it (it.skipZero fuel)
  | 0, it, h1, h2 => by omega
  | fuel + 1, it, h1, h2 => by
    unfold Iter.skipZero
    by_cases hb : it.bits = 0#64
    · have hb' : (it.bits == 0) = true := by simpa using hb
      simp only [hb', if_true]
      cases hg : it.blocks[it.blockIdx + 1]? with
      | none =>
        simp only
        have : it.blocks.length ≤ it.blockIdx + 1 := by
          rcases Nat.lt_or_ge (it.blockIdx + 1) it.blocks.length with h | h
          · rw [List.getElem?_eq_getElem h] at hg; cases hg
          · exact h
        have hnil : it.spec = [] := by simp [Iter.spec, hb, setBits_zero, tailFrom_of_le _ _ this]
        exact ⟨rfl, h1, rfl, fun h => (by cases h), fun _ => ⟨hnil, hb, hg⟩⟩
      | some b =>
        simp only
        have hlt : it.blockIdx + 1 < it.blocks.length := by
          rcases Nat.lt_or_ge (it.blockIdx + 1) it.blocks.length with h | h
          · exact h
          · rw [List.getElem?_eq_none h] at hg; cases hg
        have ih := Iter.skipZero_spec fuel { it with bits := b, blockIdx := it.blockIdx + 1 }
          (Nat.le_of_lt hlt) (by simp only; omega)
        have hs : Iter.spec { it with bits := b, blockIdx := it.blockIdx + 1 } = it.spec := by
          simp only [Iter.spec, hb, setBits_zero, List.map_nil, List.nil_append]
          rw [tailFrom_step _ _ _ hg]
        exact ⟨ih.blocks, ih.idx, ih.spec.trans hs, ih.ok, fun h => ⟨hs ▸ (ih.done h).1, (ih.done h).2⟩⟩
    · have hb' : (it.bits == 0) = false := by simpa using hb
      simp only [hb', Bool.false_eq_true, if_false]
      exact ⟨rfl, h1, rfl, fun _ => hb, fun h => by cases h⟩

/-- postcondition of `Iter::next` called in state `it`: `None` exactly when nothing remains (and then `None` again on
    the next call: the iterator is fused), otherwise the least remaining element -/
structure NextPost (it : Iter) (r : Option Nat × Iter) : Prop where
  none : r.1 = none → it.spec = [] ∧ r.2.next.1 = none
  some : ∀ v, r.1 = some v → it.spec = v :: r.2.spec ∧ r.2.blocks = it.blocks ∧ r.2.blockIdx ≤ r.2.blocks.length

theorem Iter.next_spec (it : Iter) (hidx : it.blockIdx ≤ it.blocks.length) : NextPost it it.next := by
  have hs := Iter.skipZero_spec (it.blocks.length + 1) it hidx (by omega)
  unfold Iter.next
  generalize it.skipZero (it.blocks.length + 1) = r at hs
  obtain ⟨it', ok⟩ := r
  obtain ⟨h1, h2, h3, h4, h5⟩ := hs
  simp only at h1 h2 h3 h4 h5
  cases ok with
  | false =>
    simp only
    obtain ⟨e1, e2, e3⟩ := h5 rfl
    refine ⟨fun _ => ⟨e1, ?_⟩, fun v hv => by cases hv⟩
    have : it'.skipZero (it'.blocks.length + 1) = (it', false) := by
      unfold Iter.skipZero
      have : (it'.bits == 0) = true := by simpa using e2
      simp only [this, if_true, e3]
    show it'.next.1 = none
    unfold Iter.next
    rw [this]
  | true =>
    simp only
    refine ⟨fun h => (by cases h), fun v hv => ?_⟩
    have hv' : it'.blockIdx * 64 + it'.bits.ctz.toNat = v := by simpa [BITS] using hv
    have hne := h4 rfl
    refine ⟨?_, h1, by simp only [h1]; exact h2⟩
    rw [← h3]
    simp only [Iter.spec]
    rw [setBits_step _ hne, List.map_cons, List.cons_append, ← hv', Nat.mul_comm]

theorem Iter.collect_spec : ∀ (fuel : Nat) (it : Iter), it.blockIdx ≤ it.blocks.length →
    it.spec.length < fuel → it.collect fuel = it.spec
  | 0, _, _, h => by omega
  | fuel + 1, it, hidx, hf => by
    have ⟨hn, hsome⟩ := Iter.next_spec it hidx
    unfold Iter.collect
    generalize it.next = r at hn hsome
    obtain ⟨o, it'⟩ := r
    cases o with
    | none => simp only; exact (hn rfl).1.symm
    | some v =>
      simp only
      obtain ⟨e1, _, e3⟩ := hsome v rfl
      simp only at e1 e3
      rw [e1] at hf ⊢
      rw [Iter.collect_spec fuel it' e3 (by simpa using hf)]

theorem mkIter_spec (s : BitSet) : s.mkIter.spec = (List.range (64 * s.blocks.length)).filter s.contains := by
  have h0 : (List.range (64 * s.blocks.length)).filter s.contains = tailFrom s.blocks 0 := by
    simp [tailFrom, List.range_eq_range']
  rw [h0]
  cases hb : s.blocks with
  | nil => simp [mkIter, Iter.spec, hb, setBits_zero, tailFrom]
  | cons b bs =>
    rw [tailFrom_step (b :: bs) 0 b rfl]
    simp [mkIter, Iter.spec, hb]

/-- closed form of the iteration: all members below `64 * blocks.len()`, ascending -/
theorem iter_eq_filter (s : BitSet) : s.iter = (List.range (64 * s.blocks.length)).filter s.contains := by
  unfold iter
  rw [Iter.collect_spec _ _ (Nat.zero_le _), mkIter_spec]
  rw [mkIter_spec]
  have := List.length_filter_le s.contains (List.range (64 * s.blocks.length))
  simp only [List.length_range] at this
  simp only [BITS]; omega

theorem contains_lt (s : BitSet) (x : Nat) (h : s.contains x = true) : x < 64 * s.blocks.length := by
  rcases Nat.lt_or_ge (x / 64) s.blocks.length with h' | h'
  · omega
  · simp [contains, BITS, List.getElem?_eq_none h'] at h

/-- `iter()` yields every member exactly once, in ascending order -/
theorem iter_spec (s : BitSet) :
    s.iter.Pairwise (· < ·) ∧ ∀ x, x ∈ s.iter ↔ s.contains x = true := by
  rw [iter_eq_filter]
  refine ⟨List.Pairwise.filter _ List.pairwise_lt_range, fun x => ?_⟩
  rw [List.mem_filter, List.mem_range]
  exact ⟨fun h => h.2, fun h => ⟨contains_lt s x h, h⟩⟩

theorem mem_iter (s : BitSet) (x : Nat) : x ∈ s.iter ↔ mem s x := (iter_spec s).2 x

theorem iter_nodup (s : BitSet) : s.iter.Nodup :=
  (iter_spec s).1.imp (fun h => Nat.ne_of_lt h)

/-- the first `next()` of a fresh iterator returns `None` iff the set is empty; after `None`, always `None` -/
theorem iter_fused (it : Iter) (hidx : it.blockIdx ≤ it.blocks.length) (h : it.next.1 = none) :
    it.next.2.next.1 = none := ((Iter.next_spec it hidx).none h).2

/-! ## `len` -/

theorem cpopNatRec_eq_filter (b : Block) : ∀ (n acc : Nat),
    b.cpopNatRec n acc = acc + ((List.range n).filter b.getLsbD).length
  | 0, acc => by simp [BitVec.cpopNatRec]
  | n + 1, acc => by
    rw [BitVec.cpopNatRec_succ, cpopNatRec_eq_filter b n, List.range_succ, List.filter_append, List.length_append]
    cases h : b.getLsbD n <;> simp [h] <;> omega

theorem cpop_eq_setBits (b : Block) : b.cpop.toNat = (setBits b).length := by
  rw [BitVec.toNat_cpop, cpopNatRec_eq_filter, Nat.zero_add]; rfl

theorem length_tailFrom (blocks : List Block) : ∀ (k j : Nat), k + j = blocks.length →
    (tailFrom blocks j).length = ((blocks.drop j).map fun b => b.cpop.toNat).sum
  | 0, j, h => by
    rw [tailFrom_of_le _ _ (by omega), List.drop_of_length_le (by omega)]; rfl
  | k + 1, j, h => by
    have hj : j < blocks.length := by omega
    rw [tailFrom_step blocks j blocks[j] (List.getElem?_eq_getElem hj), List.drop_eq_getElem_cons hj,
      List.length_append, List.length_map, List.map_cons, List.sum_cons, cpop_eq_setBits,
      length_tailFrom blocks k (j + 1) (by omega)]

theorem len_eq (s : BitSet) : s.len = s.iter.length := by
  rw [iter_eq_filter]
  have h0 : (List.range (64 * s.blocks.length)).filter s.contains = tailFrom s.blocks 0 := by
    simp [tailFrom, List.range_eq_range']
  rw [h0, length_tailFrom s.blocks s.blocks.length 0 rfl]
  rfl

/-! ## the same facts on the abstraction `mem`, `FromIterator`, and the vector length (what `nblocks` observes) -/

theorem not_mem_new (x : Nat) : ¬ mem new x := by simp [mem, contains_new]

theorem not_mem_clear (s : BitSet) (x : Nat) : ¬ mem s.clear x := by simp [mem, contains_clear]

theorem mem_insert (s : BitSet) (v x : Nat) : mem (s.insert v).1 x ↔ x = v ∨ mem s x := by
  simp [mem, contains_insert]

theorem mem_remove (s : BitSet) (v x : Nat) : mem (s.remove v).1 x ↔ x ≠ v ∧ mem s x := by
  simp [mem, contains_remove]

theorem mem_shrinkToFit (s : BitSet) (x : Nat) : mem s.shrinkToFit x ↔ mem s x := by
  simp [mem, contains_shrinkToFit]

theorem mem_orAssign (a b : BitSet) (x : Nat) : mem (a.orAssign b) x ↔ mem a x ∨ mem b x := by
  simp [mem, contains_orAssign]

theorem mem_xorAssign (a b : BitSet) (x : Nat) : mem (a.xorAssign b) x ↔ ¬ (mem a x ↔ mem b x) := by
  simp only [mem, contains_xorAssign]
  cases a.contains x <;> cases b.contains x <;> simp

theorem contains_ofList (vs : List Nat) (x : Nat) : (ofList vs).contains x = vs.contains x := by
  have : ∀ (s : BitSet), (vs.foldl (fun s v => (s.insert v).1) s).contains x = (vs.contains x || s.contains x) := by
    induction vs with
    | nil => intro s; simp
    | cons v vs ih =>
      intro s
      rw [List.foldl_cons, ih, contains_insert, List.contains_cons]
      have hd : decide (x = v) = (x == v) := by by_cases h : x = v <;> simp [h]
      rw [hd]
      cases (x == v) <;> cases vs.contains x <;> cases s.contains x <;> rfl
  rw [ofList, this, contains_new, Bool.or_false]

theorem mem_ofList (vs : List Nat) (x : Nat) : mem (ofList vs) x ↔ x ∈ vs := by
  simp [mem, contains_ofList]

theorem length_insert (s : BitSet) (v : Nat) :
    (s.insert v).1.blocks.length = max s.blocks.length (v / 64 + 1) := by
  simp only [insert, BITS, List.length_set, growToBlock]
  split
  · rw [length_resize]; omega
  · omega

theorem length_remove (s : BitSet) (v : Nat) : (s.remove v).1.blocks.length = s.blocks.length := by
  simp only [remove]
  split
  · simp
  · rfl

theorem length_shrinkToFit_le (s : BitSet) : s.shrinkToFit.blocks.length ≤ s.blocks.length := by
  obtain ⟨k, hk⟩ := dropZeroPrefix_spec s.blocks.reverse
  have := congrArg List.length hk
  simp only [List.length_reverse, List.length_append, List.length_replicate] at this
  simp only [shrinkToFit, List.length_reverse]; omega

/-! ## non-vacuity: every statement above with a hypothesis (or an `↔`) instantiated on concrete sets whose elements
    lie in several blocks -/

/-- `{3, 64, 130}`: one element in each of the blocks 0, 1, 2 -/
def sample : BitSet := ofList [3, 64, 130]

example : sample.blocks = [8#64, 1#64, 4#64] := by decide
example : mem sample 3 ∧ mem sample 64 ∧ mem sample 130 ∧ ¬ mem sample 4 ∧ ¬ mem sample 131 ∧ ¬ mem sample 1000 := by
  decide

-- `insert` / `remove`: both values of the returned flag, with and without growth of the vector
example : (sample.insert 200).2 = true ∧ (sample.insert 200).1.blocks.length = 4 ∧ (sample.insert 64).2 = false ∧
    (sample.insert 64).1 = sample := by decide
example : (sample.remove 130).2 = true ∧ (sample.remove 131).2 = false ∧ (sample.remove 1000).2 = false ∧
    (sample.remove 1000).1 = sample := by decide
example : (sample.insert 200).1.contains 200 = true ∧ (sample.remove 130).1.contains 130 = false := by
  rw [contains_insert, contains_remove]; decide

-- `shrink_to_fit` really drops blocks and keeps the members
example : (sample.remove 130).1.blocks.length = 3 ∧ (sample.remove 130).1.shrinkToFit.blocks.length = 2 ∧
    (sample.remove 130).1.shrinkToFit.contains 64 = true := by decide

-- `|=`, `^=` with operands of different lengths, in both directions
example : ((ofList [3]).orAssign sample).blocks = [8#64, 1#64, 4#64] ∧
    (sample.orAssign (ofList [5])).blocks = [40#64, 1#64, 4#64] ∧
    ((ofList [3, 7]).xorAssign sample).blocks = [128#64, 1#64, 4#64] ∧
    (sample.xorAssign (ofList [3, 7])).blocks = [128#64, 1#64, 4#64] := by decide

-- `isDisjoint_iff`: both sides true, both sides false
example : sample.isDisjoint (ofList [4, 65, 131]) = true := by decide
example : ∀ x, ¬ (sample.contains x = true ∧ (ofList [4, 65, 131]).contains x = true) :=
  (isDisjoint_iff _ _).mp (by decide)
example : sample.isDisjoint (ofList [5, 130]) = false := by decide
example : ¬ ∀ x, ¬ (sample.contains x = true ∧ (ofList [5, 130]).contains x = true) :=
  fun h => h 130 (by decide)

-- `isEmpty_iff`: an empty set with three (zero) blocks, and a nonempty one
example : ((sample.remove 3).1.remove 64).1.remove 130 |>.1.blocks = [0#64, 0#64, 0#64] := by decide
example : (((sample.remove 3).1.remove 64).1.remove 130).1.isEmpty = true := by decide
example : ∀ x, (((sample.remove 3).1.remove 64).1.remove 130).1.contains x = false :=
  (isEmpty_iff _).mp (by decide)
example : sample.isEmpty = false ∧ sample.contains 130 = true := by decide

-- `iter_spec` / `iter_eq_filter` / `len_eq`
example : sample.iter = [3, 64, 130] := by rw [iter_eq_filter]; decide
example : (ofList [130, 3, 64, 3]).iter = [3, 64, 130] := by rw [iter_eq_filter]; decide
example : 130 ∈ sample.iter := (mem_iter sample 130).mpr (by decide)
example : ¬ 131 ∈ sample.iter := fun h => absurd ((mem_iter sample 131).mp h) (by decide)
example : sample.len = 3 ∧ sample.iter.length = 3 := ⟨by decide, by rw [iter_eq_filter]; decide⟩
-- the first call of `next` on a fresh iterator over `{3,64,130}`, then a call on the exhausted one
set_option maxRecDepth 8000 in
example : sample.mkIter.next.1 = some 3 ∧ (Iter.next ⟨0, 2, sample.blocks⟩).1 = none := by decide

-- `beq_iff`: equal sets with different vector lengths, and different sets
example : ((sample.insert 500).1.remove 500).1.blocks.length = 8 := by decide
example : ((sample.insert 500).1.remove 500).1.beq sample = true := by decide
example : ∀ x, ((sample.insert 500).1.remove 500).1.contains x = sample.contains x :=
  (beq_iff _ _).mp (by decide)
example : sample.beq (ofList [3, 64]) = false ∧ sample.contains 130 ≠ (ofList [3, 64]).contains 130 := by decide
-- `beq_trans` with three pairwise different representations of `{3, 64, 130}`
example : sample.beq ((sample.insert 500).1.remove 500).1 = true ∧
    ((sample.insert 500).1.remove 500).1.beq ((sample.insert 300).1.remove 300).1 = true ∧
    sample.beq ((sample.insert 300).1.remove 300).1 = true := by decide

-- `cmp`: all three results, antisymmetry instance, the lawful fragment (equal lengths)
example : sample.cmp (ofList [3, 64, 131]) = .lt ∧ (ofList [3, 64, 131]).cmp sample = .gt ∧
    sample.cmp ((sample.insert 500).1.remove 500).1 = .eq := by decide
example : cmpBlocks [8, 1, 4] [8, 2, 0] = .lt ∧ cmpBlocks [8, 2, 0] [9, 0, 0] = .lt ∧
    cmpBlocks [8, 1, 4] [9, 0, 0] = .lt := by decide
/-- the set-level reading of the `cmp_not_transitive` witnesses -/
example : (⟨[5]⟩ : BitSet).iter = [0, 2] ∧ (⟨[5, 0]⟩ : BitSet).iter = [0, 2] ∧
    (⟨[5, 7]⟩ : BitSet).iter = [0, 2, 64, 65, 66] := by
  simp only [iter_eq_filter]; decide

end Evenio.BitSet
