import Evenio.Proofs.FlushPanic
import Evenio.Proofs.Frame
/-! The frame (`Evenio/Proofs/Frame.lean`) along a whole propagation: if no delivery changes it, neither does a
    completed or an interrupted depth-first propagation; in particular the registry the unwinding guard consults is
    the one of the world the flush started in. -/
namespace Evenio

/-- no delivery, however it ends, changes the frame -/
def FrameStable (deliver : QItem → M Unit) : Prop :=
  ∀ it w, ((deliver it).run.run w).2.frame = w.frame

theorem deliverOne_frameStable : FrameStable deliverOne := deliverOne_frame

variable {deliver : QItem → M Unit}

theorem Step.frame (hdel : FrameStable deliver) {w it w' seg} (h : Step deliver w it w' seg) : w'.frame = w.frame := by
  obtain ⟨w'', hd, _, rfl⟩ := h
  have := hdel it { w with queue := [] }
  rw [hd] at this
  exact this

theorem DfsLog.frame (hdel : FrameStable deliver) {w es w' log} (h : DfsLog deliver w es w' log) :
    w'.frame = w.frame := by
  induction h with
  | nil w => rfl
  | cons hs _ _ ih1 ih2 => exact ih2.trans (ih1.trans (hs.frame hdel))

theorem DfsPanic.frame (hdel : FrameStable deliver) {w es err log x wl P}
    (h : DfsPanic deliver w es err log x wl P) : wl.frame = w.frame := by
  induction h with
  | @here w e es err wl hd =>
    have := hdel e { w with queue := [] }
    rw [hd] at this
    exact this
  | child hs _ ih => exact ih.trans (hs.frame hdel)
  | sibling hs hc _ ih => exact ih.trans ((hc.frame hdel).trans (hs.frame hdel))

/-- the failing delivery of an interrupted propagation: it was started (on an empty segment) in some world `wpre` with
    the frame of the start, and left `wl` -/
theorem DfsPanic.inflight (hdel : FrameStable deliver) {w es err log x wl P}
    (h : DfsPanic deliver w es err log x wl P) :
    ∃ wpre : World, wpre.frame = w.frame ∧ (deliver x).run.run { wpre with queue := [] } = (.error err, wl) := by
  induction h with
  | @here w e es err wl hd => exact ⟨w, rfl, hd⟩
  | child hs _ ih =>
    obtain ⟨wpre, hf, hr⟩ := ih
    exact ⟨wpre, hf.trans (hs.frame hdel), hr⟩
  | sibling hs hc _ ih =>
    obtain ⟨wpre, hf, hr⟩ := ih
    exact ⟨wpre, hf.trans ((hc.frame hdel).trans (hs.frame hdel)), hr⟩

/-- the registry entry of a queued event depends on the frame only -/
theorem evInfo_of_frame {w1 w2 : World} (h : w1.frame = w2.frame) : w1.evInfo = w2.evInfo := by
  have hg : w1.gevs = w2.gevs := congrArg Frame.gevs h
  have ht : w1.tevs = w2.tevs := congrArg Frame.tevs h
  funext q
  simp only [World.evInfo, hg, ht]

theorem dropsE_of_frame {w1 w2 : World} (h : w1.frame = w2.frame) : w1.dropsE = w2.dropsE := by
  funext q
  simp only [World.dropsE, evInfo_of_frame h]

theorem dropsC_of_frame {w1 w2 : World} (h : w1.frame = w2.frame) : w1.dropsC = w2.dropsC := by
  funext q
  simp only [World.dropsC, evInfo_of_frame h]

end Evenio
