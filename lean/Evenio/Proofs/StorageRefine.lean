import Evenio.Proofs.StorageOps
import Evenio.Proofs.SlotMap
import Evenio.Proofs.Effect
import Evenio.Proofs.HoareOk
import Evenio.Model.Inv
import Evenio.Proofs.Edges
/-! Refinement of the pure storage model (`Evenio/Model/StoragePure.lean`) by the monadic world operations
    `moveEntity`, `removeEntity`, `archSpawn` (+ the step of `spawnAll`) of `Evenio/Model/World.lean`.  Helpers for
    `Evenio/Props/C02World.lean`.  Core Lean only.

    * lists: `mapIdx_set`, `filterMap_zipIdx_set`;
    * `SlotMap.toList` (`Entities::iter`) under `set` / `remove` (`toList_set`, `toList_remove`: exact list
      equalities, no well-formedness needed), `toList_keys_nodup`, `get_set_refine`, `WF.set_refine`, `insertWith_fresh`;
    * the abstraction `absStore : World → Store` (`absArch` forgets capacity / buffer epoch; a vacant slab entry becomes an
      empty placeholder archetype), `absStore_loc`, `absStore_arch_of_get`, `invStore_absWF`, `invArch_facts`;
    * `run.run` equations of the primitive steps (`run_getArch'`, `run_setArch`, `run_setLoc`, `run_dropCellIdx`,
      `run_dbgAssert`, `run_bind_ok`) and `run_forIn_steps`: a `for` loop whose body is pointwise a step function is the
      fold `foldSteps` of that function (used for the `Column::assign` loop, the drop loop and the column loop of
      `removeEntity`);
    * the destructor log: `dropAllW` (what a sequence of `dropCellIdx` does) `= cdrops := dropLog … ++ cdrops`;
    * handler caches as a frame: `HF w0` (agreement up to `handlers`) is kept by `handlerRefresh` / `handlerRemoveArch`,
      so the refresh loops at the end of each operation change `handlers` only (`hf_of_run`);
    * closed forms of a normal return: `moveEntity_same_run`, `MoveRun` / `moveEntity_ne_run`, `RemoveRun` /
      `removeEntity_run`, `SpawnRun` / `archSpawn_run`, `spawnAll_run`;
    * the simulation lemmas `moveEntity_sim`, `removeEntity_sim'`, `archSpawn_sim`, `spawnStep_sim`, `spawnAll_sim`
      (`Store.Equiv`: stores up to the order of `locs`), completeness of the component / cell pairing
      (`moveEntity_sim_complete`, `removeEntity_sim_complete`), preservation of the side conditions (`*_keeps`);
    * `HK_refine`: the handler table keeps its keys (`moveEntity_hk_refine`, `removeEntity_hk_refine`, `archSpawn_hk_refine`, `spawnAll_hk_refine`). -/
namespace Evenio
open SparseMap (swapRemove)
set_option linter.unusedSimpArgs false
set_option linter.unusedVariables false

/-! ### lists -/

theorem mapIdx_set {α β} (f : Nat → α → β) (l : List α) (i : Nat) (y : α) :
    (l.set i y).mapIdx f = (l.mapIdx f).set i (f i y) := by
  apply List.ext_getElem?
  intro j
  simp only [List.getElem?_mapIdx, List.getElem?_set, List.length_mapIdx]
  by_cases h : i = j
  · subst h
    by_cases h2 : i < l.length <;> simp [h2]
  · simp [h]

/-- replacing the `i`-th element of a list that is enumerated with positions and filtered: if the image of the new
    element is `F` of the image of the old one and `F` fixes the image of every other position, the result is the
    `filterMap F` of the old result -/
theorem filterMap_zipIdx_set {α β} (g : α × Nat → Option β) (F : β → Option β) (l : List α) (n i : Nat) (y : α)
    (hi : ∀ x, l[i]? = some x → g (y, n + i) = (g (x, n + i)).bind F)
    (ho : ∀ j x b, j ≠ i → l[j]? = some x → g (x, n + j) = some b → F b = some b) :
    ((l.set i y).zipIdx n).filterMap g = ((l.zipIdx n).filterMap g).filterMap F := by
  induction l generalizing n i with
  | nil => simp
  | cons a l ih =>
    cases i with
    | zero =>
      have h0 := hi a (by simp)
      simp only [Nat.add_zero] at h0
      have hrest : ((l.zipIdx (n + 1)).filterMap g).filterMap F = (l.zipIdx (n + 1)).filterMap g := by
        have := ih (n + 1) l.length (by intro x hx; simp at hx)
          (by intro j x b _ hx hb
              exact ho (j + 1) x b (by omega) (by simpa using hx) (by rw [← hb]; congr 2; omega))
        rw [← this, List.set_eq_of_length_le (Nat.le_refl _)]
      simp only [List.set_cons_zero, List.zipIdx_cons, List.filterMap_cons, h0]
      cases hg : g (a, n) with
      | none => simp [hrest]
      | some b =>
        simp only [Option.bind_some, List.filterMap_cons]
        cases F b <;> simp [hrest]
    | succ i =>
      have ha : ∀ b, g (a, n) = some b → F b = some b := by
        intro b hb
        exact ho 0 a b (by omega) (by simp) (by simpa using hb)
      have := ih (n + 1) i
        (by intro x hx
            have := hi x (by simpa using hx)
            rw [show n + 1 + i = n + (i + 1) by omega]; exact this)
        (by intro j x b hj hx hb
            exact ho (j + 1) x b (by omega) (by simpa using hx) (by rw [← hb]; congr 2; omega))
      simp only [List.set_cons_succ, List.zipIdx_cons, List.filterMap_cons, this]
      cases hg : g (a, n) with
      | none => simp
      | some b => simp [ha b hg]

/-! ### `SlotMap.toList` under the slot-map operations -/
namespace SlotMap
variable {α : Type}

/-- the entry of `toList` contributed by slot `p.1` at index `p.2` -/
def tl (p : Slot α × Nat) : Option (Key × α) :=
  if p.1.gen % 2 = 0 then none else p.1.val.map fun v => (⟨p.2, p.1.gen⟩, v)

private theorem toList_eq (sm : SlotMap α) : sm.toList = sm.slots.zipIdx.filterMap tl := rfl

theorem tl_idx {p : Slot α × Nat} {b : Key × α} (h : tl p = some b) : b.1.idx = p.2 ∧ b.1.gen = p.1.gen ∧
    p.1.val = some b.2 := by
  unfold tl at h
  split at h
  · cases h
  · cases hv : p.1.val with
    | none => simp [hv] at h
    | some v => simp [hv] at h; subst h; exact ⟨rfl, rfl, rfl⟩

theorem mem_zipIdx_filterMap_tl {l : List (Slot α)} {n : Nat} {b : Key × α}
    (h : b ∈ (l.zipIdx n).filterMap tl) : n ≤ b.1.idx := by
  induction l generalizing n with
  | nil => simp at h
  | cons a l ih =>
    simp only [List.zipIdx_cons, List.filterMap_cons] at h
    cases hg : tl (a, n) with
    | none => rw [hg] at h; have := ih h; omega
    | some c =>
      rw [hg] at h
      rcases List.mem_cons.mp h with rfl | h
      · have := (tl_idx hg).1; simp at this; omega
      · have := ih h; omega

theorem zipIdx_filterMap_tl_sorted (l : List (Slot α)) (n : Nat) :
    ((l.zipIdx n).filterMap tl).Pairwise (fun a b => a.1.idx < b.1.idx) := by
  induction l generalizing n with
  | nil => simp
  | cons a l ih =>
    simp only [List.zipIdx_cons, List.filterMap_cons]
    cases hg : tl (a, n) with
    | none => exact ih (n + 1)
    | some c =>
      refine List.pairwise_cons.mpr ⟨?_, ih (n + 1)⟩
      intro b hb
      have := mem_zipIdx_filterMap_tl hb
      have := (tl_idx hg).1
      simp at this; omega

/-- `iter` lists every key once (no well-formedness needed: the slot indices are distinct) -/
theorem toList_keys_nodup (sm : SlotMap α) : (sm.toList.map (·.1)).Nodup := by
  rw [toList_eq]
  have := zipIdx_filterMap_tl_sorted sm.slots 0
  rw [List.Nodup, List.pairwise_map]
  exact this.imp (fun h e => by rw [e] at h; omega)

theorem toList_nodup (sm : SlotMap α) : sm.toList.Nodup := by
  have := toList_keys_nodup sm
  rw [List.Nodup, List.pairwise_map] at this
  exact this.imp (fun h e => h (by rw [e]))

/-- half of `mem_toList_iff` that needs no well-formedness -/
theorem get_of_mem_toList {sm : SlotMap α} {k : Key} {v : α} (h : (k, v) ∈ sm.toList) : sm.get k = some v := by
  rw [toList_eq, List.mem_filterMap] at h
  obtain ⟨⟨s, i⟩, hm, ht⟩ := h
  rw [List.mem_zipIdx_iff_getElem?] at hm
  obtain ⟨h1, h2, h3⟩ := tl_idx ht
  simp only at h1 h2 h3 hm
  unfold get
  rw [h1, hm]
  simp [h2, h3]

/-- `get` in terms of the slot -/
theorem get_eq_some {sm : SlotMap α} {k : Key} {v : α} (h : sm.get k = some v) :
    ∃ s, sm.slots[k.idx]? = some s ∧ s.gen = k.gen ∧ s.val = some v := by
  unfold get at h
  cases hs : sm.slots[k.idx]? with
  | none => simp [hs] at h
  | some s =>
    simp only [hs] at h
    by_cases hg : s.gen = k.gen
    · exact ⟨s, rfl, hg, by simpa [hg] using h⟩
    · simp [hg] at h

/-- overwriting the value of a live key rewrites its entry of `iter` in place -/
theorem toList_set {sm : SlotMap α} {k : Key} {l : α} (h : sm.get k = some l) (v : α) :
    (sm.set k v).toList = sm.toList.map fun p => if p.1 = k then (p.1, v) else p := by
  obtain ⟨s, hs, hg, hv⟩ := get_eq_some h
  have hset : sm.set k v = { sm with slots := sm.slots.set k.idx { s with val := some v } } := by
    unfold set; simp [hs, hg]
  rw [hset, toList_eq, toList_eq, ← List.filterMap_eq_map]
  dsimp only
  apply filterMap_zipIdx_set
  · intro x hx
    rw [hs] at hx; cases hx
    unfold tl
    simp only [Nat.zero_add]
    split
    · rfl
    · have : (⟨k.idx, s.gen⟩ : Key) = k := by cases k; simp_all
      simp [hv, this]
  · intro j x b hj hx hb
    have := (tl_idx hb).1
    simp only [Nat.zero_add] at this
    have hne : b.1 ≠ k := by intro e; rw [e] at this; exact hj this.symm
    simp [hne]

/-- removing a live key deletes its entry of `iter` -/
theorem toList_remove {sm sm' : SlotMap α} {k : Key} {v : α} (h : sm.remove k = some (v, sm')) :
    sm'.toList = sm.toList.filter fun p => p.1 ≠ k := by
  have hget := get_of_remove h
  obtain ⟨s, hs, hg, hv⟩ := get_eq_some hget
  have : ∃ g nf nx ln, sm' = { slots := sm.slots.set k.idx ⟨g, nf, none⟩, nextFree := nx, len := ln } := by
    unfold remove at h
    simp only [hs, hg, hv, ne_eq, not_true_eq_false, if_false] at h
    split at h <;> (cases h; exact ⟨_, _, _, _, rfl⟩)
  obtain ⟨g, nf, nx, ln, rfl⟩ := this
  rw [toList_eq, toList_eq, ← List.filterMap_eq_filter]
  dsimp only
  apply filterMap_zipIdx_set
  · intro x hx
    rw [hs] at hx; cases hx
    have h1 : tl ((⟨g, nf, none⟩ : Slot α), 0 + k.idx) = none := by unfold tl; simp
    rw [h1]
    cases ht : tl (s, 0 + k.idx) with
    | none => rfl
    | some b =>
      obtain ⟨h1, h2, _⟩ := tl_idx ht
      simp only [Nat.zero_add] at h1 h2
      have : b.1 = k := by
        obtain ⟨⟨bi, bg⟩, bv⟩ := b
        cases k; simp only at h1 h2 hg ⊢; subst h1 h2; rw [hg]
      simp [Option.guard, this]
  · intro j x b hj hx hb
    have := (tl_idx hb).1
    simp only [Nat.zero_add] at this
    have hne : b.1 ≠ k := by intro e; rw [e] at this; exact hj this.symm
    simp [Option.guard, hne]

theorem get_set_refine {sm : SlotMap α} {k : Key} {l : α} (h : sm.get k = some l) (v : α) (k' : Key) :
    (sm.set k v).get k' = if k' = k then some v else sm.get k' := by
  obtain ⟨s, hs, hg, hv⟩ := get_eq_some h
  have hset : sm.set k v = { sm with slots := sm.slots.set k.idx { s with val := some v } } := by
    unfold set; simp [hs, hg]
  have hlt : k.idx < sm.slots.length := (List.getElem?_eq_some_iff.mp hs).1
  rw [hset]
  unfold get
  simp only [List.getElem?_set]
  by_cases hi : k.idx = k'.idx
  · simp only [hi, if_true]
    rw [← hi]; simp only [hlt, if_true, hs]
    by_cases hk : k' = k
    · subst hk; simp [hg]
    · have : s.gen ≠ k'.gen := by intro e; apply hk; cases k'; cases k; simp_all
      simp [hk, this]
  · have hk : k' ≠ k := by intro e; apply hi; rw [e]
    simp [hi, hk]

theorem Chain.congr {slots slots' : List (Slot α)} {h fl} (c : Chain slots h fl)
    (hs : ∀ (i : Nat) (s : Slot α), slots[i]? = some s →
      ∃ s' : Slot α, slots'[i]? = some s' ∧ s'.gen = s.gen ∧ s'.next = s.next) :
    Chain slots' h fl := by
  induction fl generalizing h with
  | nil => exact c
  | cons j fl ih =>
    obtain ⟨hj, s, hsj, he, hn, c'⟩ := c
    obtain ⟨s', hs', h1, h2⟩ := hs j s hsj
    exact ⟨hj, s', hs', by rw [h1]; exact he, by rw [h1]; exact hn, by rw [h2]; exact ih c'⟩

/-- overwriting the value of a live key keeps the slot map well formed -/
theorem WF.set_refine {sm : SlotMap α} (wf : WF sm) {k : Key} {l : α} (h : sm.get k = some l) (v : α) : WF (sm.set k v) := by
  obtain ⟨s, hs, hg, hv⟩ := get_eq_some h
  have hset : sm.set k v = { sm with slots := sm.slots.set k.idx { s with val := some v } } := by
    unfold SlotMap.set; simp [hs, hg]
  have hlt : k.idx < sm.slots.length := (List.getElem?_eq_some_iff.mp hs).1
  have hodd : s.gen % 2 = 1 := (wf.valIff _ _ hs).1 (by simp [hv])
  have hslot : ∀ (i : Nat) (t : Slot α), (sm.slots.set k.idx { s with val := some v })[i]? = some t →
      ∃ t0 : Slot α, sm.slots[i]? = some t0 ∧ t.gen = t0.gen ∧ t.next = t0.next ∧ (t.val.isSome ↔ t0.val.isSome) := by
    intro i t ht
    rw [List.getElem?_set] at ht
    by_cases hi : k.idx = i
    · subst hi
      simp only [if_true, hlt] at ht
      cases ht
      exact ⟨s, hs, rfl, rfl, by simp [hv]⟩
    · simp only [hi, if_false] at ht
      exact ⟨t, ht, rfl, rfl, Iff.rfl⟩
  rw [hset]
  refine ⟨?_, ?_, ?_, ?_, ?_⟩
  · intro i t ht
    obtain ⟨t0, h0, h1, _, _⟩ := hslot i t ht
    rw [h1]; exact wf.genLt i t0 h0
  · intro i t ht
    obtain ⟨t0, h0, h1, _, h3⟩ := hslot i t ht
    rw [h1, h3]; exact wf.valIff i t0 h0
  · obtain ⟨fl, c, nd⟩ := wf.chain
    refine ⟨fl, c.congr ?_, nd⟩
    intro i t ht
    simp only [List.getElem?_set]
    by_cases hi : k.idx = i
    · subst hi
      rw [hs] at ht; cases ht
      exact ⟨{ s with val := some v }, by simp [hlt], rfl, rfl⟩
    · exact ⟨t, by simp [hi, ht], rfl, rfl⟩
  · show sm.len = _
    rw [wf.lenEq, List.countP_set hlt]
    have : sm.slots[k.idx] = s := (List.getElem?_eq_some_iff.mp hs).2
    simp [this, hodd]
    have : 0 < List.countP (fun s => s.gen % 2 == 1) sm.slots := by
      apply List.countP_pos_iff.2
      exact ⟨s, List.mem_of_getElem? hs, by simp [hodd]⟩
    omega
  · simpa using wf.size

end SlotMap


/-! ### the abstraction function -/

private instance : LawfulBEq Key where
  eq_of_beq {a b} h := by
    cases a; cases b
    simp only [BEq.beq] at h
    simp_all [instBEqKey.beq]
  rfl {a} := by
    cases a
    simp [BEq.beq, instBEqKey.beq]

/-- forget what the pure model does not track (`reserveOne`): capacity and buffer epoch -/
def absArch (a : Arch) : Arch := { a with cap := 0, epoch := 0 }

/-- the archetype the pure store holds at slab position `i`: the occupant (without capacity / epoch), or, for a
    vacant slab entry, a placeholder without components, columns and rows.  The placeholder stores no cell, hosts no
    entity (`rowId` is `none` on it) and is trivially `ArchWF`, so `Store.cells`, `Store.get`, `Store.comps` and
    `Store.WF` do not see it; positions (= `Arch.index`) of the occupied entries are what they are in the slab. -/
def absEntry (i : Nat) : SlabEntry Arch → Arch
  | .occ a => absArch a
  | .vacant _ => { index := i, comps := [], cols := [], ids := [] }

/-- the abstraction: archetypes by slab position, locations from `Entities::iter` -/
def absStore (w : World) : Store :=
  { archs := w.archs.entries.mapIdx absEntry, locs := w.entities.toList }

/-- every archetype is stored at its own index (a conjunct of `World.invArch`) -/
def IndexOk (w : World) : Prop := ∀ i a, w.archs.get i = some a → a.index = i

/-- component lists are strictly sorted (a conjunct of `World.invArch`) -/
def CompsSorted (w : World) : Prop := ∀ i a, w.archs.get i = some a → a.comps.Pairwise (· < ·)

theorem slab_get_eq_some {α : Type} {s : Slab α} {i : Nat} {a : α} :
    s.get i = some a ↔ s.entries[i]? = some (.occ a) := by
  unfold Slab.get
  split
  · rename_i b hb; rw [hb]; simp
  · rename_i hb
    constructor
    · intro h; cases h
    · intro h; exact absurd h (hb a)

theorem slab_mem_toList {α : Type} {s : Slab α} {i : Nat} {a : α} : (i, a) ∈ s.toList ↔ s.get i = some a := by
  rw [slab_get_eq_some]
  unfold Slab.toList
  simp only [List.mem_filterMap, List.mem_zipIdx_iff_getElem?, Prod.exists]
  constructor
  · rintro ⟨e, j, he, hf⟩
    cases e with
    | vacant n => simp at hf
    | occ b => simp at hf; obtain ⟨rfl, rfl⟩ := hf; exact he
  · intro h; exact ⟨.occ a, i, h, rfl⟩

theorem absStore_archs_getElem? (w : World) (i : Nat) :
    (absStore w).archs[i]? = (w.archs.entries[i]?).map (absEntry i) := by
  simp [absStore, List.getElem?_mapIdx]

theorem absStore_arch_of_get {w : World} {i : Nat} {a : Arch} (h : w.archs.get i = some a) :
    (absStore w).archs[i]? = some (absArch a) := by
  rw [absStore_archs_getElem?, slab_get_eq_some.mp h]; rfl

/-- where the slab has no archetype the store has nothing or the empty placeholder -/
theorem absStore_arch_of_get_none {w : World} {i : Nat} (h : w.archs.get i = none) :
    (absStore w).archs[i]? = none ∨
    (absStore w).archs[i]? = some { index := i, comps := [], cols := [], ids := [] } := by
  rw [absStore_archs_getElem?]
  cases he : w.archs.entries[i]? with
  | none => exact .inl rfl
  | some e =>
    cases e with
    | vacant n => exact .inr rfl
    | occ a => rw [slab_get_eq_some.mpr he] at h; cases h

/-- an archetype of the store with a row, a column or a component is an occupied slab entry -/
theorem absStore_arch_cases {w : World} {i : Nat} {A : Arch} (h : (absStore w).archs[i]? = some A) :
    (∃ a, w.archs.get i = some a ∧ A = absArch a) ∨
    (w.archs.get i = none ∧ A = { index := i, comps := [], cols := [], ids := [] }) := by
  rw [absStore_archs_getElem?] at h
  cases he : w.archs.entries[i]? with
  | none => rw [he] at h; cases h
  | some e =>
    rw [he] at h
    cases e with
    | vacant n =>
      refine .inr ⟨?_, (Option.some.inj h).symm⟩
      cases hg : w.archs.get i with
      | none => rfl
      | some a => rw [slab_get_eq_some.mp hg] at he; cases he
    | occ a => exact .inl ⟨a, slab_get_eq_some.mpr he, (Option.some.inj h).symm⟩

/-- `Store.loc` of the abstraction is `Entities::get` -/
theorem absStore_loc {w : World} (wf : w.entities.WF) (e : Key) : (absStore w).loc e = w.entities.get e := by
  show alookup w.entities.toList e = _
  cases hg : w.entities.get e with
  | some v =>
    exact (mem_iff_alookup _ (SlotMap.toList_keys_nodup _) e v).mp ((SlotMap.mem_toList_iff wf e v).mpr hg)
  | none =>
    rw [alookup_eq_none_iff]
    intro hm
    obtain ⟨⟨k, v⟩, hp, rfl⟩ := List.mem_map.mp hm
    rw [SlotMap.get_of_mem_toList hp] at hg; cases hg

-- `strictlySorted_iff` comes from `Evenio.Proofs.Edges` (same statement; the copy that used to live here was deleted)

/-- what the simulation lemmas need of `World.invArch` -/
theorem invArch_facts {w : World} (h : w.invArch = true) :
    IndexOk w ∧ CompsSorted w ∧ (absStore w).HasEmpty := by
  unfold World.invArch at h
  simp only [Bool.and_eq_true, List.all_eq_true] at h
  obtain ⟨h0, hall⟩ := h
  refine ⟨?_, ?_, ?_⟩
  · intro i a ha
    have := hall (i, a) (slab_mem_toList.mpr ha)
    simp only [Bool.and_eq_true, beq_iff_eq] at this
    exact this.1.1.1.1
  · intro i a ha
    have := hall (i, a) (slab_mem_toList.mpr ha)
    simp only [Bool.and_eq_true, beq_iff_eq] at this
    exact (strictlySorted_iff _).mp this.1.1.1.2
  · cases hg : w.archs.get 0 with
    | none => simp [hg] at h0
    | some a =>
      simp only [hg, List.isEmpty_iff] at h0
      exact ⟨absArch a, absStore_arch_of_get hg, h0⟩

/-- **`World.invStore` implies well-formedness of the abstraction**, given the slot-map invariant of `entities` and
    sorted component lists (`World.invArch`) -/
theorem invStore_absWF {w : World} (h : w.invStore = true) (wf : w.entities.WF) (hs : CompsSorted w) :
    (absStore w).WF := by
  unfold World.invStore at h
  simp only [Bool.and_eq_true, List.all_eq_true] at h
  obtain ⟨⟨h1, h2⟩, _⟩ := h
  refine ⟨?_, SlotMap.toList_keys_nodup _, ?_⟩
  · intro A hA
    obtain ⟨i, hi⟩ := List.getElem?_of_mem hA
    rcases absStore_arch_cases hi with ⟨a, ha, rfl⟩ | ⟨_, rfl⟩
    · have := h2 (i, a) (slab_mem_toList.mpr ha)
      simp only [Bool.and_eq_true, beq_iff_eq, List.all_eq_true] at this
      exact ⟨this.1.1, this.1.2, hs i a ha⟩
    · exact ⟨rfl, by simp, by simp⟩
  · intro e l
    constructor
    · intro hm
      have := h1 (e, l) hm
      simp only at this
      cases hg : w.archs.get l.arch with
      | none => simp [hg] at this
      | some a =>
        simp only [hg, beq_iff_eq] at this
        rw [Store.rowId_of_arch (absStore_arch_of_get hg)]
        exact this
    · intro hr
      unfold Store.rowId at hr
      cases hA : (absStore w).archs[l.arch]? with
      | none => simp [hA] at hr
      | some A =>
        simp only [hA] at hr
        rcases absStore_arch_cases hA with ⟨a, ha, rfl⟩ | ⟨_, rfl⟩
        · have := h2 (l.arch, a) (slab_mem_toList.mpr ha)
          simp only [Bool.and_eq_true, List.all_eq_true] at this
          have := this.2 (e, l.row) (List.mem_zipIdx_iff_getElem?.mpr hr)
          simp only [beq_iff_eq] at this
          exact (SlotMap.mem_toList_iff wf e l).mpr this
        · simp at hr


/-! ### `run.run` equations of the primitive steps -/

@[simp] theorem run_setArch (a : Arch) (w : World) :
    (setArch a).run.run w = (.ok (), { w with archs := w.archs.set a.index a }) := rfl

@[simp] theorem run_freshEpoch (w : World) :
    freshEpoch.run.run w = (.ok w.epochCtr, { w with epochCtr := w.epochCtr + 1 }) := rfl

@[simp] theorem run_dropCellIdx (c : Nat) (x : Cell) (w : World) :
    (dropCellIdx c x).run.run w = (.ok (), dropCellW (w.compTy c) x w) := by
  unfold dropCellIdx
  rw [run_bind, run_get]
  exact run_dropCell _ _ _

@[simp] theorem run_ubErr {α : Type} (s : String) (w : World) : (ubErr s : M α).run.run w = (.error (.ub s), w) := rfl

theorem run_getArch_none {w : World} {i : Nat} (s : String) (h : w.archs.get i = none) :
    (getArch i s).run.run w = (.error (.ub s), w) := by
  unfold getArch
  rw [run_bind, run_get]
  dsimp only
  rw [h]
  rfl

theorem run_setLoc_some {w : World} {id : Key} {l : Loc} (s : String) (f : Loc → Loc)
    (h : w.entities.get id = some l) :
    (setLoc id s f).run.run w = (.ok (), { w with entities := w.entities.set id (f l) }) := by
  unfold setLoc
  rw [run_bind, run_get]
  dsimp only
  rw [h]
  rfl

theorem run_setLoc_none {w : World} {id : Key} (s : String) (f : Loc → Loc) (h : w.entities.get id = none) :
    (setLoc id s f).run.run w = (.error (.ub s), w) := by
  unfold setLoc
  rw [run_bind, run_get]
  dsimp only
  rw [h]
  rfl

/-! ### `for` loops whose body is a step function -/

/-- iterate a step function that returns, like `run.run`, a result and a world -/
def foldSteps {β γ : Type} (step : γ → β → World → Except Err β × World) : List γ → β → World → Except Err β × World
  | [], b, w => (.ok b, w)
  | x :: l, b, w =>
    match step x b w with
    | (.ok b', w') => foldSteps step l b' w'
    | (.error e, w') => (.error e, w')

/-- a `for` loop over a list whose body never `break`s and is pointwise the step function `step` -/
theorem run_forIn_steps {β γ : Type} (step : γ → β → World → Except Err β × World)
    (f : γ → β → M (ForInStep β))
    (hf : ∀ x b w, (f x b).run.run w =
      match step x b w with
      | (.ok b', w') => (.ok (.yield b'), w')
      | (.error e, w') => (.error e, w'))
    (l : List γ) (b : β) (w : World) : (forIn l b f).run.run w = foldSteps step l b w := by
  induction l generalizing b w with
  | nil => rfl
  | cons x l ih =>
    rw [List.forIn_cons, run_bind, hf, foldSteps]
    generalize step x b w = r
    obtain ⟨(e|b'), w'⟩ := r
    · rfl
    · exact ih b' w'

/-! ### the destructor log -/

/-- run the destructors of the cells `pairs` (component index, cell), in order -/
def dropAllW (pairs : List (Nat × Cell)) (w : World) : World :=
  pairs.foldl (fun w p => dropCellW (w.compTy p.1) p.2 w) w

/-- the entries `pairs` adds to the ledger `cdrops` (most recent first): `(component type, serial)` of exactly the
    cells whose component type needs a destructor (`compNeedsDrop`) -/
def dropLog (w : World) (pairs : List (Nat × Cell)) : List (Nat × Nat) :=
  ((pairs.filter fun p => compNeedsDrop (w.compTy p.1)).map fun p => (w.compTy p.1, p.2.ser)).reverse

theorem dropCellW_eq (ty : Nat) (c : Cell) (w : World) :
    dropCellW ty c w = { w with cdrops := (if compNeedsDrop ty then [(ty, c.ser)] else []) ++ w.cdrops } := by
  unfold dropCellW
  split <;> rfl

theorem dropAllW_eq (pairs : List (Nat × Cell)) (w : World) :
    dropAllW pairs w = { w with cdrops := dropLog w pairs ++ w.cdrops } := by
  induction pairs generalizing w with
  | nil => rfl
  | cons p pairs ih =>
    show dropAllW pairs (dropCellW (w.compTy p.1) p.2 w) = _
    rw [ih, dropCellW_eq]
    have hc : ∀ (l : List (Nat × Nat)) (c : Nat), World.compTy { w with cdrops := l } c = w.compTy c := fun _ _ => rfl
    simp only [dropLog, hc, List.filter_cons]
    by_cases hn : compNeedsDrop (w.compTy p.1) = true
    · simp [hn]
    · simp [hn]

theorem dropLog_nil (w : World) : dropLog w [] = [] := rfl


/-! ### the slab under `set` -/

/-- the archetype list of the abstraction -/
def absArchs (s : Slab Arch) : List Arch := s.entries.mapIdx absEntry

theorem absStore_eq (w : World) : absStore w = ⟨absArchs w.archs, w.entities.toList⟩ := rfl

theorem slab_set_occ {α : Type} {s : Slab α} {i : Nat} {a : α} (a' : α) (h : s.get i = some a) :
    s.set i a' = { s with entries := s.entries.set i (.occ a') } := by
  unfold Slab.set
  rw [slab_get_eq_some.mp h]

theorem slab_get_set {α : Type} {s : Slab α} {i : Nat} {a : α} (a' : α) (h : s.get i = some a) (j : Nat) :
    (s.set i a').get j = if j = i then some a' else s.get j := by
  rw [slab_set_occ a' h]
  have hlt : i < s.entries.length := (List.getElem?_eq_some_iff.mp (slab_get_eq_some.mp h)).1
  unfold Slab.get
  simp only [List.getElem?_set]
  by_cases hj : j = i
  · subst hj; simp [hlt]
  · simp [hj, Ne.symm hj]

theorem absArchs_set {s : Slab Arch} {i : Nat} {a : Arch} (a' : Arch) (h : s.get i = some a) :
    absArchs (s.set i a') = (absArchs s).set i (absArch a') := by
  rw [slab_set_occ a' h]
  exact mapIdx_set _ _ _ _

theorem absArchs_getElem? {s : Slab Arch} {i : Nat} {a : Arch} (h : s.get i = some a) :
    (absArchs s)[i]? = some (absArch a) := by
  simp [absArchs, List.getElem?_mapIdx, slab_get_eq_some.mp h, absEntry]

/-! ### the same-archetype branch of `moveEntity` -/

/-- one iteration of the `Column::assign` loop -/
def assignStep (row : Nat) (p : Nat × Cell) (a : Arch) (w : World) : Except Err Arch × World :=
  match a.colIdx p.1 with
  | none => (.error (.ub "archetype.rs:move_entity:column_of_mut"), w)
  | some i =>
    match a.cols[i]? >>= fun col => assignCol col row p.2 with
    | none => (.error (.ub "archetype.rs:assign:oob"), w)
    | some (col', old) => (.ok { a with cols := a.cols.set i col' }, dropCellW (w.compTy p.1) old w)

theorem foldSteps_assign {row : Nat} {new : List (Nat × Cell)} {a a' : Arch} {w w' : World}
    (h : foldSteps (assignStep row) new a w = (.ok a', w')) :
    ∃ dr, Store.assignAll a row new = some (a', dr) ∧ dr.length = new.length ∧
      w' = dropAllW ((new.map (·.1)).zip dr) w := by
  induction new generalizing a w with
  | nil => cases h; exact ⟨[], rfl, rfl, rfl⟩
  | cons p new ih =>
    obtain ⟨c, x⟩ := p
    rw [foldSteps] at h
    unfold assignStep at h
    simp only at h
    unfold Store.assignAll
    cases hc : a.colIdx c with
    | none => simp [hc] at h
    | some i =>
      simp only [hc] at h ⊢
      cases hx : (a.cols[i]? >>= fun col => assignCol col row x) with
      | none => simp [hx] at h
      | some r =>
        obtain ⟨col', old⟩ := r
        simp only [hx] at h ⊢
        obtain ⟨dr, h1, h2, h3⟩ := ih h
        refine ⟨old :: dr, by rw [h1], by simp [h2], ?_⟩
        rw [h3]; rfl

theorem assignAll_abs (a : Arch) (row : Nat) (new : List (Nat × Cell)) :
    Store.assignAll (absArch a) row new = (Store.assignAll a row new).map fun r => (absArch r.1, r.2) := by
  induction new generalizing a with
  | nil => rfl
  | cons p new ih =>
    obtain ⟨c, x⟩ := p
    unfold Store.assignAll
    show (match a.colIdx c with | none => none | some i => _) = _
    cases hc : a.colIdx c with
    | none => rfl
    | some i =>
      simp only
      show (match (a.cols[i]? >>= fun col => assignCol col row x) with | none => none | some (col', old) => _) = _
      cases hx : (a.cols[i]? >>= fun col => assignCol col row x) with
      | none => rfl
      | some r =>
        obtain ⟨col', old⟩ := r
        simp only
        have := ih { a with cols := a.cols.set i col' }
        show (match Store.assignAll (absArch { a with cols := a.cols.set i col' }) row new with
          | some (a', dr) => some (a', old :: dr) | none => none) = _
        rw [this]
        cases Store.assignAll { a with cols := a.cols.set i col' } row new with
        | none => rfl
        | some r => rfl

/-- **closed form of the same-archetype branch**: the archetype is rewritten by `assignAll`, the overwritten cells are
    passed to `dropCellIdx` in order, nothing else happens -/
theorem moveEntity_same_run {w w' : World} {src : Loc} {new : List (Nat × Cell)}
    (h : (moveEntity src src.arch new).run.run w = (.ok (), w')) :
    ∃ a a' dr, w.archs.get src.arch = some a ∧ Store.assignAll a src.row new = some (a', dr) ∧
      dr.length = new.length ∧
      w' = { dropAllW ((new.map (·.1)).zip dr) w with archs := w.archs.set a'.index a' } := by
  rw [moveEntity_same] at h
  unfold moveSame at h
  rw [run_bind] at h
  cases ha : w.archs.get src.arch with
  | none => rw [run_getArch_none _ ha] at h; cases h
  | some a =>
    rw [run_getArch _ ha] at h
    dsimp only at h
    rw [run_bind, run_forIn_steps (assignStep src.row)] at h
    · generalize hf : foldSteps (assignStep src.row) new a w = r at h
      obtain ⟨(e|a'), w1⟩ := r
      · cases h
      · obtain ⟨dr, h1, h2, rfl⟩ := foldSteps_assign hf
        simp only [run_bind, run_setArch, run_pure] at h
        cases h
        exact ⟨a, a', dr, rfl, h1, h2, by rw [dropAllW_eq]⟩
    · intro ⟨c, x⟩ b w0
      unfold assignStep
      simp only
      cases hc : b.colIdx c with
      | none => rfl
      | some i =>
        simp only
        cases hx : (b.cols[i]? >>= fun col => assignCol col src.row x) with
        | none => rfl
        | some r =>
          obtain ⟨col', old⟩ := r
          simp only [run_bind, run_dropCellIdx, run_pure]


theorem assignAll_index {a a' : Arch} {row : Nat} {new : List (Nat × Cell)} {dr : List Cell}
    (h : Store.assignAll a row new = some (a', dr)) : a'.index = a.index := by
  induction new generalizing a dr with
  | nil => simp only [Store.assignAll, Option.some.injEq, Prod.mk.injEq] at h; rw [← h.1]
  | cons p new ih =>
    obtain ⟨c, x⟩ := p
    simp only [Store.assignAll] at h
    split at h
    · cases h
    · split at h
      · cases h
      · split at h
        · rename_i a1 dr1 hrec
          simp only [Option.some.injEq, Prod.mk.injEq] at h
          obtain ⟨rfl, _⟩ := h
          have := ih hrec
          exact this
        · cases h

/-! ### unconditional `run.run` equations, handler-cache frame -/

theorem run_getArch' (i : Nat) (s : String) (w : World) :
    (getArch i s).run.run w = match w.archs.get i with
      | some a => (.ok a, w)
      | none => (.error (.ub s), w) := by
  cases h : w.archs.get i with
  | none => exact run_getArch_none s h
  | some a => exact run_getArch s h

theorem run_setLoc (id : Key) (s : String) (f : Loc → Loc) (w : World) :
    (setLoc id s f).run.run w = match w.entities.get id with
      | some l => (.ok (), { w with entities := w.entities.set id (f l) })
      | none => (.error (.ub s), w) := by
  cases h : w.entities.get id with
  | none => exact run_setLoc_none s f h
  | some a => exact run_setLoc_some s f h

/-- `reserve_one` touches capacity and buffer epoch only -/
theorem reserveOne_fst (a : Arch) (ep : Nat) :
    (a.reserveOne ep).1 = { a with cap := (a.reserveOne ep).1.cap, epoch := (a.reserveOne ep).1.epoch } := by
  unfold Arch.reserveOne; split <;> rfl

/-- agreement with `w0` up to the handler table -/
abbrev HF (w0 : World) : World → Prop := fun w => { w with handlers := w0.handlers } = w0

theorem handlerRefresh_hf (w0 : World) (hk : Key) (a : Arch) : Keeps (HF w0) (handlerRefresh hk a) := by
  unfold handlerRefresh dbgAssert ubErr; keeps
macro_rules | `(tactic| keeps_leaf) => `(tactic| exact handlerRefresh_hf _ _ _)
theorem handlerRemoveArch_hf (w0 : World) (hk : Key) (a : Arch) : Keeps (HF w0) (handlerRemoveArch hk a) := by
  unfold handlerRemoveArch ubErr; keeps
macro_rules | `(tactic| keeps_leaf) => `(tactic| exact handlerRemoveArch_hf _ _ _)

/-- a computation that only rewrites handler caches leaves everything but `handlers` alone -/
theorem hf_of_run {m : M Unit} {w2 w' : World} (hk : ∀ w0, Keeps (HF w0) m) (h : m.run.run w2 = (.ok (), w')) :
    w' = { w2 with handlers := w'.handlers } := by
  have := (hk w2).run w2 rfl
  rw [h] at this
  simp only [HF] at this
  rw [← this]

theorem foldSteps_drop (pairs : List (Nat × Cell)) (w : World) :
    foldSteps (fun (p : Nat × Cell) (_ : PUnit) w => (.ok PUnit.unit, dropCellW (w.compTy p.1) p.2 w)) pairs PUnit.unit w
      = (.ok PUnit.unit, dropAllW pairs w) := by
  induction pairs generalizing w with
  | nil => rfl
  | cons p pairs ih => rw [foldSteps]; exact ih _

/-! ### the two-archetype branch of `moveEntity` -/

/-- **closed form of the two-archetype branch** (everything a normal return of `moveEntity src dst new` with
    `src.arch ≠ dst` did): the merge `moveCols` succeeded; the cells `r.dropped` were passed to `dropCellIdx`, zipped
    with the source-only components; the two archetypes were rewritten (`reserve_one` on the destination: capacity and
    epoch); the moved entity's location and that of the entity swapped into its row were updated; the epoch counter
    was bumped; handler caches were refreshed (`handlers`); nothing else changed. -/
structure MoveRun (w w' : World) (src : Loc) (dst : Nat) (new : List (Nat × Cell)) (sa da : Arch) (r : MoveCols)
    (eid : Key) : Prop where
  hsa : w.archs.get src.arch = some sa
  hda : w.archs.get dst = some da
  hr : moveCols src.row sa.comps sa.cols da.comps da.cols new = some r
  heid : sa.ids[src.row]? = some eid
  hents : ∃ l1, w.entities.get eid = some l1 ∧
    match (swapRemove sa.ids src.row)[src.row]? with
    | some sw => ∃ l2, (w.entities.set eid ⟨dst, da.ids.length⟩).get sw = some l2 ∧
        w'.entities = (w.entities.set eid ⟨dst, da.ids.length⟩).set sw { l2 with row := src.row }
    | none => w'.entities = w.entities.set eid ⟨dst, da.ids.length⟩
  hw : w' = { w with
      epochCtr := w.epochCtr + 1
      cdrops := dropLog w ((sa.comps.filter fun c => !da.comps.contains c).zip r.dropped) ++ w.cdrops
      archs := (w.archs.set sa.index { sa with cols := r.src, ids := swapRemove sa.ids src.row }).set da.index
        { da with cols := r.dst, ids := da.ids ++ [eid],
                  cap := (da.reserveOne w.epochCtr).1.cap, epoch := (da.reserveOne w.epochCtr).1.epoch }
      entities := w'.entities
      handlers := w'.handlers }

theorem moveEntity_ne_run {w w' : World} {src : Loc} {dst : Nat} {new : List (Nat × Cell)} (hne : src.arch ≠ dst)
    (h : (moveEntity src dst new).run.run w = (.ok (), w')) : ∃ sa da r eid, MoveRun w w' src dst new sa da r eid := by
  unfold moveEntity at h
  have hb : (src.arch == dst) = false := by simpa using hne
  simp only [hb, Bool.false_eq_true, if_false] at h
  rw [run_bind, run_getArch'] at h
  cases hsa : w.archs.get src.arch with
  | none => rw [hsa] at h; cases h
  | some sa =>
    rw [hsa] at h
    dsimp only at h
    rw [run_bind, run_getArch'] at h
    cases hda : w.archs.get dst with
    | none => rw [hda] at h; cases h
    | some da =>
      rw [hda] at h
      dsimp only at h
      rw [run_bind, run_freshEpoch] at h
      dsimp only at h
      rw [reserveOne_fst] at h
      dsimp only at h
      split at h
      · cases h
      · rename_i r hr
        rw [run_bind, run_forIn_steps (fun p _ w => (.ok PUnit.unit, dropCellW (w.compTy p.1) p.2 w)) _
          (by intro x b w0; simp only [run_bind, run_dropCellIdx, run_pure]), foldSteps_drop, dropAllW_eq] at h
        dsimp only at h
        split at h
        · cases h
        · rename_i eid heid
          rw [run_bind, run_setArch] at h
          dsimp only at h
          rw [run_bind, run_setArch] at h
          dsimp only at h
          rw [run_bind, run_setLoc] at h
          dsimp only at h
          cases hl1 : w.entities.get eid with
          | none => rw [hl1] at h; cases h
          | some l1 =>
            rw [hl1] at h
            dsimp only at h
            refine ⟨sa, da, r, eid, ?_⟩
            split at h
            · rename_i sw hsw
              rw [run_bind, run_setLoc] at h
              dsimp only at h
              cases hl2 : (w.entities.set eid ⟨dst, da.ids.length⟩).get sw with
              | none => rw [hl2] at h; cases h
              | some l2 =>
                rw [hl2] at h
                dsimp only at h
                have := hf_of_run (fun w0 => by keeps) h
                have he : w'.entities =
                    (w.entities.set eid ⟨dst, da.ids.length⟩).set sw { l2 with row := src.row } := by rw [this]
                refine ⟨hsa, hda, hr, heid, ⟨l1, hl1, ?_⟩, this.trans ?_⟩
                · rw [hsw]; exact ⟨l2, hl2, he⟩
                · rw [he]; rfl
            · rename_i hsw
              have := hf_of_run (fun w0 => by keeps) h
              have he : w'.entities = w.entities.set eid ⟨dst, da.ids.length⟩ := by rw [this]
              refine ⟨hsa, hda, hr, heid, ⟨l1, hl1, ?_⟩, this.trans ?_⟩
              · rw [hsw]; exact he
              · rw [he]; rfl


/-! ### simulation: `moveEntity` -/

theorem alookup_toList {ents : SlotMap Loc} (wf : ents.WF) (e : Key) : alookup ents.toList e = ents.get e := by
  cases hg : ents.get e with
  | some v =>
    exact (mem_iff_alookup _ (SlotMap.toList_keys_nodup _) e v).mp ((SlotMap.mem_toList_iff wf e v).mpr hg)
  | none =>
    rw [alookup_eq_none_iff]
    intro hm
    obtain ⟨⟨k, v⟩, hp, rfl⟩ := List.mem_map.mp hm
    rw [SlotMap.get_of_mem_toList hp] at hg; cases hg

/-- `setLoc` on the abstraction is `entities.set` -/
theorem setLoc_abs (archs : List Arch) {ents : SlotMap Loc} (wf : ents.WF) {id : Key} {l : Loc} (f : Loc → Loc)
    (h : ents.get id = some l) :
    Store.setLoc ⟨archs, ents.toList⟩ id f = some ⟨archs, (ents.set id (f l)).toList⟩ := by
  unfold Store.setLoc
  have : Store.loc ⟨archs, ents.toList⟩ id = some l := by
    show alookup ents.toList id = _
    rw [alookup_toList wf, h]
  rw [this]
  dsimp only
  rw [SlotMap.toList_set h]
  congr 2
  apply List.map_congr_left
  intro p hp
  by_cases hpi : p.1 = id
  · have := SlotMap.get_of_mem_toList (k := p.1) (v := p.2) hp
    rw [hpi, h] at this
    simp only [hpi, if_true]
    rw [← Option.some.inj this]
  · simp only [hpi, if_false]

/-- `removeLoc` on the abstraction is `entities.remove` -/
theorem removeLoc_abs (archs : List Arch) {ents ents' : SlotMap Loc} (wf : ents.WF) {id : Key} {l : Loc}
    (h : ents.remove id = some (l, ents')) :
    Store.removeLoc ⟨archs, ents.toList⟩ id = some (l, ⟨archs, ents'.toList⟩) := by
  unfold Store.removeLoc
  have : Store.loc ⟨archs, ents.toList⟩ id = some l := by
    show alookup ents.toList id = _
    rw [alookup_toList wf, SlotMap.get_of_remove h]
  rw [this]
  dsimp only
  rw [SlotMap.toList_remove h]

theorem moveEntity_same_sim {w w' : World} {src : Loc} {new : List (Nat × Cell)} (hidx : IndexOk w)
    (h : (moveEntity src src.arch new).run.run w = (.ok (), w')) :
    ∃ dr, Store.moveEntity (absStore w) src src.arch new = some (absStore w', dr) ∧ dr.length = new.length ∧
      w' = { w with archs := w'.archs, cdrops := dropLog w ((new.map (·.1)).zip dr) ++ w.cdrops } := by
  obtain ⟨a, a', dr, ha, hassign, hlen, rfl⟩ := moveEntity_same_run h
  have hi : a'.index = src.arch := by rw [assignAll_index hassign]; exact hidx _ _ ha
  refine ⟨dr, ?_, hlen, by rw [dropAllW_eq]⟩
  unfold Store.moveEntity
  rw [if_pos rfl, absStore_arch_of_get ha]
  dsimp only
  rw [assignAll_abs, hassign]
  dsimp only [Option.map]
  rw [dropAllW_eq, hi]
  simp only [absStore_eq, absArchs_set _ ha]

theorem absArchs_set' {s : Slab Arch} {i j : Nat} {a : Arch} (a' : Arch) (h : s.get i = some a) (hj : j = i) :
    absArchs (s.set j a') = (absArchs s).set i (absArch a') := by
  subst hj; exact absArchs_set a' h

theorem moveEntity_ne_sim {w w' : World} {src : Loc} {dst : Nat} {new : List (Nat × Cell)} (hidx : IndexOk w)
    (hwf : w.entities.WF) (hne : src.arch ≠ dst) (h : (moveEntity src dst new).run.run w = (.ok (), w')) :
    ∃ sa da r eid, MoveRun w w' src dst new sa da r eid ∧
      Store.moveEntity (absStore w) src dst new = some (absStore w', r.dropped) := by
  obtain ⟨sa, da, r, eid, m⟩ := moveEntity_ne_run hne h
  refine ⟨sa, da, r, eid, m, ?_⟩
  obtain ⟨l1, hl1, hents⟩ := m.hents
  have hsi : sa.index = src.arch := hidx _ _ m.hsa
  have hdi : da.index = dst := hidx _ _ m.hda
  have hda' : ∀ x, (w.archs.set sa.index x).get dst = some da := by
    intro x
    rw [hsi, slab_get_set _ m.hsa, if_neg (Ne.symm hne), m.hda]
  have hA : absArchs w'.archs =
      ((absArchs w.archs).set src.arch { absArch sa with cols := r.src, ids := swapRemove sa.ids src.row }).set dst
        { absArch da with cols := r.dst, ids := da.ids ++ [eid] } := by
    rw [m.hw]
    dsimp only
    rw [absArchs_set' _ (hda' _) hdi, absArchs_set' _ m.hsa hsi]
    rfl
  unfold Store.moveEntity
  rw [if_neg hne, absStore_arch_of_get m.hsa, absStore_arch_of_get m.hda]
  dsimp only [absArch]
  rw [m.hr]
  dsimp only
  rw [m.heid]
  dsimp only
  rw [absStore_eq w, absStore_eq w']
  dsimp only
  rw [setLoc_abs _ hwf _ hl1]
  dsimp only
  have hwf2 := hwf.set_refine hl1 ⟨dst, da.ids.length⟩
  split at hents
  · rename_i sw hsw
    obtain ⟨l2, hl2, he⟩ := hents
    rw [hsw]
    dsimp only
    rw [setLoc_abs _ hwf2 _ hl2]
    dsimp only
    rw [hA, he]
    rfl
  · rename_i hsw
    rw [hsw]
    dsimp only
    rw [hA, hents]
    rfl



/-! ### simulation: `removeEntity` -/

theorem run_dbgAssert (c : Bool) (s : String) (w : World) :
    (dbgAssert c s).run.run w = if (w.debug && !c) = true then (.error (.assert s), w) else (.ok (), w) := by
  unfold dbgAssert
  rw [run_bind, run_get]
  dsimp only
  split <;> rfl

/-- one iteration of the column loop of `removeEntity` -/
def removeStep (row : Nat) (p : Nat × List Cell) (cols : List (List Cell)) (w : World) :
    Except Err (List (List Cell)) × World :=
  match p.2[row]? with
  | none => (.error (if w.debug = true then .assert "archetype.rs:swap_remove:oob" else .ub "archetype.rs:swap_remove:oob"), w)
  | some x => (.ok (cols ++ [swapRemove p.2 row]), dropCellW (w.compTy p.1) x w)

theorem foldSteps_remove {row : Nat} {l : List (Nat × List Cell)} {cols0 cols' : List (List Cell)} {w w' : World}
    (h : foldSteps (removeStep row) l cols0 w = (.ok cols', w')) :
    ∃ cols dr, Store.removeCols row l = some (cols, dr) ∧ cols' = cols0 ++ cols ∧ dr.length = l.length ∧
      w' = dropAllW ((l.map (·.1)).zip dr) w := by
  induction l generalizing cols0 w with
  | nil => cases h; exact ⟨[], [], rfl, by simp, rfl, rfl⟩
  | cons p l ih =>
    obtain ⟨c, col⟩ := p
    rw [foldSteps] at h
    unfold removeStep at h
    simp only at h
    unfold Store.removeCols
    cases hx : col[row]? with
    | none => simp [hx] at h
    | some x =>
      simp only [hx] at h ⊢
      obtain ⟨cols, dr, h1, h2, h3, h4⟩ := ih h
      refine ⟨swapRemove col row :: cols, x :: dr, by rw [h1], by rw [h2]; simp, by simp [h3], ?_⟩
      rw [h4]; rfl

/-- **closed form of `removeEntity`** -/
structure RemoveRun (w w' : World) (loc : Loc) (a : Arch) (cols : List (List Cell)) (dr : List Cell) (id : Key) :
    Prop where
  ha : w.archs.get loc.arch = some a
  hcols : Store.removeCols loc.row (a.comps.zip a.cols) = some (cols, dr)
  hlen : dr.length = (a.comps.zip a.cols).length
  hid : a.ids[loc.row]? = some id
  hents : ∃ removed ents1, w.entities.remove id = some (removed, ents1) ∧ (w.debug = true → removed = loc) ∧
    match (swapRemove a.ids loc.row)[loc.row]? with
    | some d => ∃ l2, ents1.get d = some l2 ∧ w'.entities = ents1.set d { l2 with row := loc.row }
    | none => w'.entities = ents1
  hw : w' = { w with
      cdrops := dropLog w (((a.comps.zip a.cols).map (·.1)).zip dr) ++ w.cdrops
      archs := w.archs.set a.index { a with cols := cols, ids := swapRemove a.ids loc.row }
      entities := w'.entities
      handlers := w'.handlers }

theorem removeEntity_run {w w' : World} {loc : Loc} (h : (removeEntity loc).run.run w = (.ok (), w')) :
    ∃ a cols dr id, RemoveRun w w' loc a cols dr id := by
  unfold removeEntity at h
  rw [run_bind, run_getArch'] at h
  cases ha : w.archs.get loc.arch with
  | none => rw [ha] at h; cases h
  | some a =>
    rw [ha] at h
    dsimp only at h
    rw [run_bind, run_forIn_steps (removeStep loc.row)] at h
    · generalize hf : foldSteps (removeStep loc.row) (a.comps.zip a.cols) [] w = r at h
      obtain ⟨(e|cols'), w1⟩ := r
      · cases h
      · obtain ⟨cols, dr, h1, h2, h3, rfl⟩ := foldSteps_remove hf
        simp only [List.nil_append] at h2
        subst h2
        dsimp only at h
        split at h
        · cases h
        · rename_i id hid
          rw [run_bind, run_setArch, dropAllW_eq] at h
          dsimp only at h
          rw [run_bind, run_get] at h
          dsimp only at h
          cases hrem : w.entities.remove id with
          | none => rw [hrem] at h; cases h
          | some p =>
            obtain ⟨removed, ents1⟩ := p
            rw [hrem] at h
            dsimp only at h
            rw [run_bind, run_set] at h
            dsimp only at h
            rw [run_bind, run_dbgAssert] at h
            dsimp only at h
            by_cases hdbg : (w.debug && !(removed == loc)) = true
            · rw [if_pos hdbg] at h; cases h
            · rw [if_neg hdbg] at h
              dsimp only at h
              have hdbg' : w.debug = true → removed = loc := by
                intro hd
                simp only [hd, Bool.true_and, Bool.not_eq_true'] at hdbg
                simpa using hdbg
              refine ⟨a, cols', dr, id, ?_⟩
              split at h
              · rename_i d hd
                rw [run_bind, run_setLoc] at h
                dsimp only at h
                cases hl2 : ents1.get d with
                | none => rw [hl2] at h; cases h
                | some l2 =>
                  rw [hl2] at h
                  dsimp only at h
                  have := hf_of_run (fun w0 => by keeps) h
                  have he : w'.entities = ents1.set d { l2 with row := loc.row } := by rw [this]
                  refine ⟨ha, h1, h3, hid, ⟨removed, ents1, hrem, hdbg', ?_⟩, this.trans ?_⟩
                  · rw [hd]; exact ⟨l2, hl2, he⟩
                  · rw [he]
              · rename_i hd
                have := hf_of_run (fun w0 => by keeps) h
                have he : w'.entities = ents1 := by rw [this]
                refine ⟨ha, h1, h3, hid, ⟨removed, ents1, hrem, hdbg', ?_⟩, this.trans ?_⟩
                · rw [hd]; exact he
                · rw [he]
    · intro ⟨c, col⟩ b w0
      unfold removeStep
      simp only
      cases hx : col[loc.row]? with
      | none =>
        simp only [run_bind, run_dbgAssert, run_ubErr]
        cases hd : w0.debug <;> simp
      | some x => simp only [run_bind, run_dropCellIdx, run_pure]

theorem removeEntity_sim {w w' : World} {loc : Loc} (hidx : IndexOk w) (hwf : w.entities.WF)
    (h : (removeEntity loc).run.run w = (.ok (), w')) :
    ∃ a cols dr id, RemoveRun w w' loc a cols dr id ∧
      Store.removeEntity (absStore w) loc = some (absStore w', dr) := by
  obtain ⟨a, cols, dr, id, m⟩ := removeEntity_run h
  refine ⟨a, cols, dr, id, m, ?_⟩
  obtain ⟨removed, ents1, hrem, _, hents⟩ := m.hents
  have hai : a.index = loc.arch := hidx _ _ m.ha
  have hA : absArchs w'.archs =
      (absArchs w.archs).set loc.arch { absArch a with cols := cols, ids := swapRemove a.ids loc.row } := by
    rw [m.hw]
    dsimp only
    rw [absArchs_set' _ m.ha hai]
    rfl
  unfold Store.removeEntity
  rw [absStore_arch_of_get m.ha]
  dsimp only [absArch]
  rw [m.hcols]
  dsimp only
  rw [m.hid]
  dsimp only
  rw [absStore_eq w, absStore_eq w']
  dsimp only
  rw [removeLoc_abs _ hwf hrem]
  dsimp only
  have hwf1 := hwf.remove hrem
  split at hents
  · rename_i d hd
    obtain ⟨l2, hl2, he⟩ := hents
    rw [hd]
    dsimp only
    rw [setLoc_abs _ hwf1 _ hl2]
    dsimp only
    rw [hA, he]
    rfl
  · rename_i hd
    rw [hd]
    dsimp only
    rw [hA, hents]
    rfl


/-! ### `archSpawn` -/

theorem hf_of_run' {α : Type} {m : M α} {w2 w' : World} {a : α} (hk : ∀ w0, Keeps (HF w0) m)
    (h : m.run.run w2 = (.ok a, w')) : w' = { w2 with handlers := w'.handlers } := by
  have := (hk w2).run w2 rfl
  rw [h] at this
  simp only [HF] at this
  rw [← this]

theorem run_bind_ok {α β : Type} {m : M α} {f : α → M β} {w w' : World} {b : β}
    (h : (m >>= f).run.run w = (.ok b, w')) :
    ∃ a w1, m.run.run w = (.ok a, w1) ∧ (f a).run.run w1 = (.ok b, w') := by
  rw [run_bind] at h
  generalize m.run.run w = r at h
  obtain ⟨(e|a), w1⟩ := r
  · cases h
  · exact ⟨a, w1, rfl, h⟩

/-- **closed form of `archSpawn`** (`Archetypes::spawn`): the id is appended to archetype 0 (after `reserve_one`:
    capacity / epoch), the epoch counter is bumped, handler caches are refreshed; `entities` is NOT touched -/
structure SpawnRun (w w' : World) (id : Key) (loc : Loc) (a0 : Arch) : Prop where
  ha : w.archs.get 0 = some a0
  hloc : loc = ⟨0, a0.ids.length⟩
  hw : w' = { w with
      epochCtr := w.epochCtr + 1
      archs := w.archs.set a0.index { a0 with
        ids := a0.ids ++ [id]
        cap := (a0.reserveOne w.epochCtr).1.cap
        epoch := (a0.reserveOne w.epochCtr).1.epoch }
      handlers := w'.handlers }

theorem archSpawn_run {w w' : World} {id : Key} {loc : Loc} (h : (archSpawn id).run.run w = (.ok loc, w')) :
    ∃ a0, SpawnRun w w' id loc a0 := by
  unfold archSpawn at h
  rw [run_bind, run_getArch'] at h
  cases ha : w.archs.get 0 with
  | none => rw [ha] at h; cases h
  | some a0 =>
    rw [ha] at h
    dsimp only at h
    rw [run_bind, run_freshEpoch] at h
    dsimp only at h
    rw [reserveOne_fst] at h
    dsimp only at h
    rw [run_bind, run_setArch] at h
    dsimp only at h
    split at h
    · obtain ⟨u, w3, hm, h⟩ := run_bind_ok h
      cases h
      have := hf_of_run' (fun w0 => by keeps) hm
      exact ⟨a0, ha, rfl, this⟩
    · cases h
      exact ⟨a0, ha, rfl, rfl⟩

/-! ### stores up to the order of `locs` -/
namespace Store

/-- same archetypes, and the same location map listed in a possibly different order (`SlotMap.insertWith` reuses a
    freed slot, so the new entry of `Entities::iter` is not necessarily the last one, while `Store.spawn` appends) -/
def Equiv (a b : Store) : Prop := a.archs = b.archs ∧ a.locs.Perm b.locs

theorem Equiv.refl (a : Store) : Equiv a a := ⟨rfl, List.Perm.refl _⟩
theorem Equiv.symm {a b : Store} (h : Equiv a b) : Equiv b a := ⟨h.1.symm, h.2.symm⟩
theorem Equiv.trans {a b c : Store} (h : Equiv a b) (h' : Equiv b c) : Equiv a c := ⟨h.1.trans h'.1, h.2.trans h'.2⟩
theorem Equiv.of_eq {a b : Store} (h : a = b) : Equiv a b := h ▸ Equiv.refl a

theorem Equiv.keys {a b : Store} (h : Equiv a b) (hk : (a.locs.map (·.1)).Nodup) : (b.locs.map (·.1)).Nodup :=
  (h.2.map _).nodup_iff.mp hk

theorem Equiv.loc {a b : Store} (h : Equiv a b) (hk : (a.locs.map (·.1)).Nodup) (e : Key) : a.loc e = b.loc e := by
  show alookup a.locs e = alookup b.locs e
  cases ha : alookup a.locs e with
  | some v =>
    have := (mem_iff_alookup _ hk e v).mpr ha
    exact ((mem_iff_alookup _ (h.keys hk) e v).mp (h.2.mem_iff.mp this)).symm
  | none =>
    symm
    rw [alookup_eq_none_iff] at ha ⊢
    intro hm
    exact ha ((h.2.map _).mem_iff.mpr hm)

theorem Equiv.rowId {a b : Store} (h : Equiv a b) (l : Loc) : a.rowId l = b.rowId l := by
  unfold Store.rowId; rw [h.1]

theorem Equiv.wf {a b : Store} (h : Equiv a b) (hw : a.WF) : b.WF := by
  refine ⟨?_, h.keys hw.keys, ?_⟩
  · rw [← h.1]; exact hw.arch
  · intro e l
    rw [← h.rowId, ← hw.bij]
    exact h.2.mem_iff.symm

theorem Equiv.get {a b : Store} (h : Equiv a b) (hk : (a.locs.map (·.1)).Nodup) (e : Key) (c : Nat) :
    a.get e c = b.get e c := by
  unfold Store.get; rw [h.loc hk, h.1]

theorem Equiv.comps {a b : Store} (h : Equiv a b) (hk : (a.locs.map (·.1)).Nodup) (e : Key) :
    a.comps e = b.comps e := by
  unfold Store.comps; rw [h.loc hk, h.1]

theorem Equiv.cells {a b : Store} (h : Equiv a b) : a.cells = b.cells := by
  unfold Store.cells; rw [h.1]

theorem Equiv.hasEmpty {a b : Store} (h : Equiv a b) (he : a.HasEmpty) : b.HasEmpty := by
  unfold Store.HasEmpty at *; rw [← h.1]; exact he

theorem Equiv.spawn {a b : Store} (h : Equiv a b) (id : Key) : Equiv (a.spawn id) (b.spawn id) := by
  unfold Store.spawn
  rw [← h.1]
  cases a.archs[0]? with
  | none => exact h
  | some e => exact ⟨rfl, h.2.append_right _⟩

end Store

/-! ### simulation: `archSpawn` and the step of `spawnAll` -/

/-- `Store.spawn` on the abstraction, computed -/
theorem spawn_abs {w : World} {a0 : Arch} (ha : w.archs.get 0 = some a0) (id : Key) :
    (absStore w).spawn id =
      ⟨(absArchs w.archs).set 0 { absArch a0 with ids := a0.ids ++ [id] },
       w.entities.toList ++ [(id, ⟨0, a0.ids.length⟩)]⟩ := by
  unfold Store.spawn
  rw [absStore_arch_of_get ha]
  rfl

theorem SpawnRun.archs {w w' : World} {id : Key} {loc : Loc} {a0 : Arch} (m : SpawnRun w w' id loc a0)
    (hidx : IndexOk w) :
    absArchs w'.archs = (absArchs w.archs).set 0 { absArch a0 with ids := a0.ids ++ [id] } := by
  rw [m.hw]
  dsimp only
  rw [absArchs_set' _ m.ha (hidx _ _ m.ha)]
  rfl

/-- `archSpawn id` does the archetype half of `Store.spawn id` and returns the location `Store.spawn` records;
    `entities` (hence `locs`) is not touched -/
theorem archSpawn_sim {w w' : World} {id : Key} {loc : Loc} (hidx : IndexOk w)
    (h : (archSpawn id).run.run w = (.ok loc, w')) :
    ∃ a0, SpawnRun w w' id loc a0 ∧
      (absStore w').archs = ((absStore w).spawn id).archs ∧
      ((absStore w).spawn id).locs = (absStore w).locs ++ [(id, loc)] ∧
      (absStore w').locs = (absStore w).locs := by
  obtain ⟨a0, m⟩ := archSpawn_run h
  refine ⟨a0, m, ?_, ?_, ?_⟩
  · rw [spawn_abs m.ha]; exact m.archs hidx
  · rw [spawn_abs m.ha, m.hloc]; rfl
  · rw [m.hw]; rfl

/-- one iteration of `ReservedEntities::spawn_all`, verbatim -/
def spawnStep : M Unit := do
  let w ← get
  match w.entities.insertWith (fun _ => Loc.NULL) with
  | none => throw (.panic "capacity")
  | some (k, ents) =>
    set { w with entities := ents }
    let loc ← archSpawn k
    modify fun w => { w with entities := w.entities.set k loc }

theorem SlotMap.insertWith_fresh {α : Type} {sm sm' : SlotMap α} (wf : sm.WF) {f : Key → α} {k : Key}
    (h : sm.insertWith f = some (k, sm')) : sm.get k = none := by
  cases hg : sm.get k with
  | none => rfl
  | some v =>
    obtain ⟨s, hs, hgen, _⟩ := SlotMap.get_eq_some hg
    have := (SlotMap.insertWith_key wf h).2.2.2.2.2 k ⟨s, hs, Or.inr (by omega)⟩ rfl
    omega

/-- **the step of `spawnAll`** (`insertWith`, `archSpawn`, `entities.set`) is `Store.spawn` of the fresh key, up to the
    order of `locs` -/
theorem spawnStep_sim {w w' : World} (hidx : IndexOk w) (hwf : w.entities.WF)
    (h : spawnStep.run.run w = (.ok (), w')) :
    ∃ k ents1 a0, w.entities.insertWith (fun _ => Loc.NULL) = some (k, ents1) ∧ w.entities.get k = none ∧
      w.archs.get 0 = some a0 ∧
      Store.Equiv (absStore w') ((absStore w).spawn k) ∧ w'.entities.WF ∧
      w' = { w with
        epochCtr := w.epochCtr + 1
        archs := w.archs.set a0.index { a0 with
          ids := a0.ids ++ [k]
          cap := (a0.reserveOne w.epochCtr).1.cap
          epoch := (a0.reserveOne w.epochCtr).1.epoch }
        entities := ents1.set k ⟨0, a0.ids.length⟩
        handlers := w'.handlers } := by
  unfold spawnStep at h
  rw [run_bind, run_get] at h
  dsimp only at h
  cases hins : w.entities.insertWith (fun _ => Loc.NULL) with
  | none => rw [hins] at h; cases h
  | some p =>
    obtain ⟨k, ents1⟩ := p
    rw [hins] at h
    dsimp only at h
    rw [run_bind, run_set] at h
    dsimp only at h
    obtain ⟨loc, w2, hs, h⟩ := run_bind_ok h
    rw [run_modify] at h
    cases h
    have hidx1 : IndexOk { w with entities := ents1 } := hidx
    obtain ⟨a0, m⟩ := archSpawn_run hs
    have ha0 : w.archs.get 0 = some a0 := m.ha
    have hfresh := SlotMap.insertWith_fresh hwf hins
    have hwf1 := hwf.insertWith hins
    have hg1 : ents1.get k = some Loc.NULL := by rw [SlotMap.get_insertWith hwf hins, if_pos rfl]
    have he2 : w2.entities = ents1 := by rw [m.hw]
    have hwf2 : (ents1.set k loc).WF := hwf1.set_refine hg1 loc
    refine ⟨k, ents1, a0, rfl, hfresh, ha0, ?_, by rw [he2]; exact hwf2, ?_⟩
    · rw [spawn_abs ha0]
      refine ⟨m.archs hidx1, ?_⟩
      show (w2.entities.set k loc).toList.Perm _
      rw [he2, ← m.hloc]
      rw [List.perm_ext_iff_of_nodup (SlotMap.toList_nodup _)]
      · intro ⟨k', v⟩
        rw [SlotMap.mem_toList_iff hwf2, SlotMap.get_set_refine hg1, SlotMap.get_insertWith hwf hins, List.mem_append,
          SlotMap.mem_toList_iff hwf]
        by_cases hk : k' = k
        · subst hk
          simp [hfresh]
          exact eq_comm
        · simp [hk]
      · rw [List.nodup_append]
        refine ⟨SlotMap.toList_nodup _, by simp, ?_⟩
        intro a ha b hb
        simp only [List.mem_singleton] at hb
        subst hb
        intro hab; subst hab
        rw [SlotMap.mem_toList_iff hwf, hfresh] at ha; cases ha
    · rw [m.hw, m.hloc]




/-! ### uniform statement for `moveEntity`, preservation of the side conditions -/

/-- the component indices whose cells `moveEntity` passes to `dropCellIdx`, in order: the assigned components
    (same archetype) or the source-only components (two archetypes) -/
def moveDropComps (w : World) (src : Loc) (dst : Nat) (new : List (Nat × Cell)) : List Nat :=
  if src.arch = dst then new.map (·.1) else
  match w.archs.get src.arch, w.archs.get dst with
  | some sa, some da => sa.comps.filter fun c => !da.comps.contains c
  | _, _ => []

theorem indexOk_set {w : World} (hidx : IndexOk w) {i : Nat} {a a' : Arch} (ha : w.archs.get i = some a)
    {w1 : World} (h1 : w1.archs = w.archs.set i a') (hi : a'.index = i) : IndexOk w1 := by
  intro j b hb
  rw [h1, slab_get_set _ ha] at hb
  by_cases hj : j = i
  · rw [if_pos hj] at hb; cases hb; rw [hj]; exact hi
  · rw [if_neg hj] at hb; exact hidx j b hb

/-- **simulation, `moveEntity`** (both branches): a normal return of the monadic `moveEntity` is a successful step of
    the pure `Store.moveEntity` on the abstraction, with `dropped` the cells passed to `dropCellIdx`, in order; the
    ledger `cdrops` gains exactly the log of those cells (paired with their component indices `moveDropComps`) whose
    component type needs a destructor; and apart from `archs`, `entities`, `handlers` (cache refresh), `epochCtr` and
    `cdrops` no field of the world changes -/
theorem moveEntity_sim {w w' : World} {src : Loc} {dst : Nat} {new : List (Nat × Cell)} (hidx : IndexOk w)
    (hwf : w.entities.WF) (h : (moveEntity src dst new).run.run w = (.ok (), w')) :
    ∃ dropped, Store.moveEntity (absStore w) src dst new = some (absStore w', dropped) ∧
      w' = { w with
        epochCtr := w'.epochCtr, archs := w'.archs, entities := w'.entities, handlers := w'.handlers
        cdrops := dropLog w ((moveDropComps w src dst new).zip dropped) ++ w.cdrops } := by
  by_cases hne : src.arch = dst
  · subst hne
    obtain ⟨dr, h1, _, h2⟩ := moveEntity_same_sim hidx h
    refine ⟨dr, h1, ?_⟩
    unfold moveDropComps
    rw [if_pos rfl]
    refine h2.trans ?_
    have e1 : w'.epochCtr = w.epochCtr := by rw [h2]
    have e2 : w'.entities = w.entities := by rw [h2]
    have e3 : w'.handlers = w.handlers := by rw [h2]
    rw [e1, e2, e3]
  · obtain ⟨sa, da, r, eid, m, h1⟩ := moveEntity_ne_sim hidx hwf hne h
    refine ⟨r.dropped, h1, ?_⟩
    unfold moveDropComps
    rw [if_neg hne, m.hsa, m.hda]
    dsimp only
    refine m.hw.trans ?_
    conv => rhs; rw [m.hw]

theorem assignAll_length {a a' : Arch} {row : Nat} {new : List (Nat × Cell)} {dr : List Cell}
    (h : Store.assignAll a row new = some (a', dr)) : dr.length = new.length := by
  induction new generalizing a a' dr with
  | nil => simp only [Store.assignAll, Option.some.injEq, Prod.mk.injEq] at h; obtain ⟨_, rfl⟩ := h; rfl
  | cons p new ih =>
    obtain ⟨c, x⟩ := p
    simp only [Store.assignAll] at h
    split at h
    · cases h
    · split at h
      · cases h
      · split at h
        · rename_i a1 dr1 hrec
          simp only [Option.some.injEq, Prod.mk.injEq] at h
          obtain ⟨_, rfl⟩ := h
          simp [ih hrec]
        · cases h

/-- in a well-formed store (sorted component lists) the zip with the component indices loses no dropped cell: every
    cell passed to `dropCellIdx` is paired with its component -/
theorem moveEntity_sim_complete {w w' : World} {src : Loc} {dst : Nat} {new : List (Nat × Cell)} (hidx : IndexOk w)
    (hwf : w.entities.WF) (hst : (absStore w).WF) (h : (moveEntity src dst new).run.run w = (.ok (), w'))
    {dropped : List Cell} (hs : Store.moveEntity (absStore w) src dst new = some (absStore w', dropped)) :
    (moveDropComps w src dst new).length = dropped.length ∧
    ((moveDropComps w src dst new).zip dropped).map (·.2) = dropped := by
  have key : (moveDropComps w src dst new).length = dropped.length := by
    unfold moveDropComps
    by_cases hne : src.arch = dst
    · rw [if_pos hne]
      obtain ⟨a, a', m⟩ := Store.moveEntity_same_inv hne hs
      rw [assignAll_length m.hassign]; simp
    · rw [if_neg hne]
      obtain ⟨sa, da, r, eid, m, h1⟩ := moveEntity_ne_sim hidx hwf hne h
      rw [hs] at h1
      have hd : dropped = r.dropped := (Prod.mk.inj (Option.some.inj h1)).2
      rw [m.hsa, m.hda, hd]
      dsimp only
      have s1 := (hst.archWF (absStore_arch_of_get m.hsa)).sorted
      have s2 := (hst.archWF (absStore_arch_of_get m.hda)).sorted
      have := congrArg List.length (moveCols_dropped _ _ _ _ _ _ _ m.hr s1 s2)
      simpa using this.symm
  exact ⟨key, List.map_snd_zip (by omega)⟩

/-- `moveEntity` keeps the side conditions of the simulation -/
theorem moveEntity_keeps {w w' : World} {src : Loc} {dst : Nat} {new : List (Nat × Cell)} (hidx : IndexOk w)
    (hwf : w.entities.WF) (h : (moveEntity src dst new).run.run w = (.ok (), w')) :
    IndexOk w' ∧ w'.entities.WF := by
  by_cases hne : src.arch = dst
  · subst hne
    obtain ⟨a, a', dr, ha, hassign, _, rfl⟩ := moveEntity_same_run h
    have hi : a'.index = src.arch := by rw [assignAll_index hassign]; exact hidx _ _ ha
    refine ⟨indexOk_set hidx ha (by rw [hi]) hi, ?_⟩
    rw [dropAllW_eq]; exact hwf
  · obtain ⟨sa, da, r, eid, m⟩ := moveEntity_ne_run hne h
    have hsi : sa.index = src.arch := hidx _ _ m.hsa
    have hdi : da.index = dst := hidx _ _ m.hda
    constructor
    · have h1 : IndexOk { w with archs := w.archs.set src.arch { sa with cols := r.src, ids := swapRemove sa.ids src.row } } :=
        indexOk_set hidx m.hsa rfl (by exact hsi)
      refine indexOk_set h1 (a := da) ?_ (by rw [m.hw, hsi, hdi]) (by rfl)
      show (w.archs.set src.arch _).get dst = some da
      rw [slab_get_set _ m.hsa, if_neg (Ne.symm hne), m.hda]
    · obtain ⟨l1, hl1, hents⟩ := m.hents
      have hwf2 := hwf.set_refine hl1 ⟨dst, da.ids.length⟩
      split at hents
      · obtain ⟨l2, hl2, he⟩ := hents
        rw [he]; exact hwf2.set_refine hl2 _
      · rw [hents]; exact hwf2

/-! ### uniform statement for `removeEntity` -/

/-- the component indices whose cells `removeEntity` passes to `dropCellIdx`, in order (all components of the
    archetype; `zip` with the columns as in the loop) -/
def removeDropComps (w : World) (loc : Loc) : List Nat :=
  match w.archs.get loc.arch with
  | some a => (a.comps.zip a.cols).map (·.1)
  | none => []

/-- **simulation, `removeEntity`**: a normal return of the monadic `removeEntity` is a successful step of the pure
    `Store.removeEntity` on the abstraction, with `dropped` the cells passed to `dropCellIdx`, in order; `cdrops` gains
    exactly their log; apart from `archs`, `entities`, `handlers` (cache removal) and `cdrops` nothing changes -/
theorem removeEntity_sim' {w w' : World} {loc : Loc} (hidx : IndexOk w) (hwf : w.entities.WF)
    (h : (removeEntity loc).run.run w = (.ok (), w')) :
    ∃ dropped, Store.removeEntity (absStore w) loc = some (absStore w', dropped) ∧
      w' = { w with
        archs := w'.archs, entities := w'.entities, handlers := w'.handlers
        cdrops := dropLog w ((removeDropComps w loc).zip dropped) ++ w.cdrops } := by
  obtain ⟨a, cols, dr, id, m, h1⟩ := removeEntity_sim hidx hwf h
  refine ⟨dr, h1, ?_⟩
  unfold removeDropComps
  rw [m.ha]
  dsimp only
  refine m.hw.trans ?_
  conv => rhs; rw [m.hw]

theorem removeEntity_sim_complete {w w' : World} {loc : Loc} (hidx : IndexOk w) (hwf : w.entities.WF)
    (hst : (absStore w).WF) (h : (removeEntity loc).run.run w = (.ok (), w'))
    {dropped : List Cell} (hs : Store.removeEntity (absStore w) loc = some (absStore w', dropped)) :
    (∃ a, w.archs.get loc.arch = some a ∧ removeDropComps w loc = a.comps) ∧
    (removeDropComps w loc).length = dropped.length ∧
    ((removeDropComps w loc).zip dropped).map (·.2) = dropped := by
  obtain ⟨a, cols, dr, id, m, h1⟩ := removeEntity_sim hidx hwf h
  rw [hs] at h1
  have hd : dropped = dr := (Prod.mk.inj (Option.some.inj h1)).2
  have hcl : a.cols.length = a.comps.length := (hst.archWF (absStore_arch_of_get m.ha)).cols_len
  have e : removeDropComps w loc = a.comps := by
    unfold removeDropComps
    rw [m.ha]
    exact List.map_fst_zip (by omega)
  have key : (removeDropComps w loc).length = dropped.length := by
    rw [e, hd, m.hlen, List.length_zip]; omega
  exact ⟨⟨a, m.ha, e⟩, key, List.map_snd_zip (by omega)⟩

/-- `removeEntity` keeps the side conditions of the simulation -/
theorem removeEntity_keeps {w w' : World} {loc : Loc} (hidx : IndexOk w) (hwf : w.entities.WF)
    (h : (removeEntity loc).run.run w = (.ok (), w')) : IndexOk w' ∧ w'.entities.WF := by
  obtain ⟨a, cols, dr, id, m⟩ := removeEntity_run h
  have hai : a.index = loc.arch := hidx _ _ m.ha
  constructor
  · exact indexOk_set hidx m.ha (by rw [m.hw, hai]) (by rfl)
  · obtain ⟨removed, ents1, hrem, _, hents⟩ := m.hents
    have hwf1 := hwf.remove hrem
    split at hents
    · obtain ⟨l2, hl2, he⟩ := hents
      rw [he]; exact hwf1.set_refine hl2 _
    · rw [hents]; exact hwf1

theorem spawnStep_keeps {w w' : World} (hidx : IndexOk w) (hwf : w.entities.WF)
    (h : spawnStep.run.run w = (.ok (), w')) : IndexOk w' ∧ w'.entities.WF := by
  obtain ⟨k, ents1, a0, _, _, ha0, _, hw, he⟩ := spawnStep_sim hidx hwf h
  have h0 : a0.index = 0 := hidx _ _ ha0
  exact ⟨indexOk_set hidx ha0 (by rw [he, h0]) (by rfl), hw⟩

/-! ### `spawnAll` -/

/-- `n` consecutive normal returns of `m` -/
inductive Iter (m : M Unit) : Nat → World → World → Prop
  | zero (w : World) : Iter m 0 w w
  | succ {n : Nat} {w w1 w2 : World} : m.run.run w = (.ok (), w1) → Iter m n w1 w2 → Iter m (n + 1) w w2

theorem foldSteps_iter {γ : Type} (m : M Unit) (l : List γ) {w w1 : World}
    (h : foldSteps (fun (_ : γ) (_ : PUnit) w => m.run.run w) l PUnit.unit w = (.ok PUnit.unit, w1)) :
    Iter m l.length w w1 := by
  induction l generalizing w with
  | nil => cases h; exact .zero _
  | cons x l ih =>
    rw [foldSteps] at h
    generalize hm : m.run.run w = r at h
    obtain ⟨(e|u), w2⟩ := r
    · cases h
    · exact .succ hm (ih h)

/-- `spawnAll` runs `spawnStep` `resCount` times, then resets the reservation cursor -/
theorem spawnAll_run {w w' : World} (h : spawnAll.run.run w = (.ok (), w')) :
    ∃ w1, Iter spawnStep w.resCount w w1 ∧
      w' = { w1 with resIndex := w1.entities.nextKeyIndex, resCount := 0 } := by
  unfold spawnAll at h
  rw [run_bind, run_get] at h
  dsimp only at h
  obtain ⟨u, w1, hl, h⟩ := run_bind_ok h
  rw [run_modify] at h
  cases h
  refine ⟨w1, ?_, rfl⟩
  rw [Std.Legacy.Range.forIn_eq_forIn_range', run_forIn_steps (fun _ _ w => spawnStep.run.run w)] at hl
  · have := foldSteps_iter spawnStep _ hl
    simpa using this
  · intro x b w0
    unfold spawnStep
    simp only [run_bind, run_get]
    cases hins : w0.entities.insertWith (fun _ => Loc.NULL) with
    | none => rfl
    | some p =>
      obtain ⟨k, ents⟩ := p
      simp only [run_bind, run_set]
      generalize (archSpawn k).run.run _ = r
      obtain ⟨(e|loc), w2⟩ := r <;> rfl

theorem Store.Equiv.foldl_spawn {a b : Store} (h : Store.Equiv a b) (ks : List Key) :
    Store.Equiv (ks.foldl Store.spawn a) (ks.foldl Store.spawn b) := by
  induction ks generalizing a b with
  | nil => exact h
  | cons k ks ih => exact ih (h.spawn k)

/-- `n` steps of `spawnAll` are `n` pure `Store.spawn`s of keys that were not live before and are pairwise distinct -/
theorem iter_spawnStep_sim {n : Nat} {w w1 : World} (hit : Iter spawnStep n w w1) (hidx : IndexOk w)
    (hwf : w.entities.WF) :
    ∃ ks : List Key, ks.length = n ∧ Store.Equiv (absStore w1) (ks.foldl Store.spawn (absStore w)) ∧
      ks.Nodup ∧ (∀ k ∈ ks, w.entities.get k = none) ∧ IndexOk w1 ∧ w1.entities.WF := by
  induction hit with
  | zero w => exact ⟨[], rfl, Store.Equiv.refl _, List.nodup_nil, by simp, hidx, hwf⟩
  | @succ n w w1 w2 hstep _ ih =>
    obtain ⟨k, ents1, a0, hins, hfresh, _, heq, hwf1, he⟩ := spawnStep_sim hidx hwf hstep
    obtain ⟨hidx1, _⟩ := spawnStep_keeps hidx hwf hstep
    obtain ⟨ks, hlen, heq2, hnd, hfr, hidx2, hwf2⟩ := ih hidx1 hwf1
    have hg1 : ents1.get k = some Loc.NULL := by rw [SlotMap.get_insertWith hwf hins, if_pos rfl]
    have hget : ∀ k', w1.entities.get k' = if k' = k then some ⟨0, a0.ids.length⟩ else w.entities.get k' := by
      intro k'
      rw [he]
      dsimp only
      rw [SlotMap.get_set_refine hg1, SlotMap.get_insertWith hwf hins]
      by_cases hk : k' = k <;> simp [hk]
    refine ⟨k :: ks, by simp [hlen], ?_, ?_, ?_, hidx2, hwf2⟩
    · exact heq2.trans (heq.foldl_spawn ks)
    · refine List.nodup_cons.mpr ⟨?_, hnd⟩
      intro hk
      have := hfr k hk
      rw [hget, if_pos rfl] at this; cases this
    · intro k' hk'
      rcases List.mem_cons.mp hk' with rfl | hk'
      · exact hfresh
      · have := hfr k' hk'
        rw [hget] at this
        by_cases hkk : k' = k
        · rw [if_pos hkk] at this; cases this
        · rw [if_neg hkk] at this; exact this

/-- **simulation, `spawnAll`**: a normal return of `spawnAll` is `resCount` pure spawns (up to the order of `locs`) -/
theorem spawnAll_sim {w w' : World} (hidx : IndexOk w) (hwf : w.entities.WF)
    (h : spawnAll.run.run w = (.ok (), w')) :
    ∃ ks : List Key, ks.length = w.resCount ∧ Store.Equiv (absStore w') (ks.foldl Store.spawn (absStore w)) ∧
      ks.Nodup ∧ (∀ k ∈ ks, w.entities.get k = none) ∧ IndexOk w' ∧ w'.entities.WF := by
  obtain ⟨w1, hit, rfl⟩ := spawnAll_run h
  obtain ⟨ks, h1, h2, h3, h4, h5, h6⟩ := iter_spawnStep_sim hit hidx hwf
  exact ⟨ks, h1, h2, h3, h4, h5, h6⟩

/-! ### the handler table keeps its keys -/

/-- the handler table has the keys of `H` -/
abbrev HK_refine (H : SlotMap HInfo) : World → Prop := fun w => ∀ k, w.handlers.contains k = H.contains k

theorem SlotMap.contains_set {α : Type} {sm : SlotMap α} {k : Key} {l : α} (h : sm.get k = some l) (v : α) (k' : Key) :
    (sm.set k v).contains k' = sm.contains k' := by
  unfold SlotMap.contains
  rw [SlotMap.get_set_refine h]
  by_cases hk : k' = k
  · rw [if_pos hk, hk, h]; rfl
  · rw [if_neg hk]

theorem handlerRefresh_hk_refine (H : SlotMap HInfo) (hk : Key) (a : Arch) : Keeps (HK_refine H) (handlerRefresh hk a) := by
  refine ⟨fun w hw => ?_⟩
  unfold handlerRefresh
  rw [run_bind, run_get]
  dsimp only
  cases hg : w.handlers.get hk with
  | none => exact hw
  | some hi =>
    dsimp only
    rw [run_bind, run_dbgAssert]
    by_cases hc : (w.debug && !(a.ids.length != 0)) = true
    · rw [if_pos hc]; exact hw
    · rw [if_neg hc]
      dsimp only
      rw [run_set]
      intro k
      dsimp only
      rw [SlotMap.contains_set hg]
      exact hw k
macro_rules | `(tactic| keeps_leaf) => `(tactic| exact handlerRefresh_hk_refine _ _ _)

theorem handlerRemoveArch_hk_refine (H : SlotMap HInfo) (hk : Key) (a : Arch) : Keeps (HK_refine H) (handlerRemoveArch hk a) := by
  refine ⟨fun w hw => ?_⟩
  unfold handlerRemoveArch
  rw [run_bind, run_get]
  dsimp only
  cases hg : w.handlers.get hk with
  | none => exact hw
  | some hi =>
    dsimp only
    rw [run_set]
    intro k
    dsimp only
    rw [SlotMap.contains_set hg]
    exact hw k
macro_rules | `(tactic| keeps_leaf) => `(tactic| exact handlerRemoveArch_hk_refine _ _ _)

theorem getArch_hk_refine (H : SlotMap HInfo) (i : Nat) (s : String) : Keeps (HK_refine H) (getArch i s) := by
  unfold getArch ubErr; keeps
macro_rules | `(tactic| keeps_leaf) => `(tactic| exact getArch_hk_refine _ _ _)
theorem setArch_hk_refine (H : SlotMap HInfo) (a : Arch) : Keeps (HK_refine H) (setArch a) := by unfold setArch; keeps
macro_rules | `(tactic| keeps_leaf) => `(tactic| exact setArch_hk_refine _ _)
theorem freshEpoch_hk_refine (H : SlotMap HInfo) : Keeps (HK_refine H) freshEpoch := by unfold freshEpoch; keeps
macro_rules | `(tactic| keeps_leaf) => `(tactic| exact freshEpoch_hk_refine _)
theorem dropCellIdx_hk_refine (H : SlotMap HInfo) (c : Nat) (x : Cell) : Keeps (HK_refine H) (dropCellIdx c x) := by
  unfold dropCellIdx dropCell; keeps
macro_rules | `(tactic| keeps_leaf) => `(tactic| exact dropCellIdx_hk_refine _ _ _)
theorem setLoc_hk_refine (H : SlotMap HInfo) (id : Key) (s : String) (f : Loc → Loc) : Keeps (HK_refine H) (setLoc id s f) := by
  unfold setLoc ubErr; keeps
macro_rules | `(tactic| keeps_leaf) => `(tactic| exact setLoc_hk_refine _ _ _ _)
theorem dbgAssert_hk_refine (H : SlotMap HInfo) (c : Bool) (s : String) : Keeps (HK_refine H) (dbgAssert c s) := by
  unfold dbgAssert; keeps
macro_rules | `(tactic| keeps_leaf) => `(tactic| exact dbgAssert_hk_refine _ _ _)

theorem moveEntity_hk_refine (H : SlotMap HInfo) (src : Loc) (dst : Nat) (new : List (Nat × Cell)) :
    Keeps (HK_refine H) (moveEntity src dst new) := by unfold moveEntity ubErr; keeps
theorem removeEntity_hk_refine (H : SlotMap HInfo) (loc : Loc) : Keeps (HK_refine H) (removeEntity loc) := by
  unfold removeEntity ubErr; keeps
theorem archSpawn_hk_refine (H : SlotMap HInfo) (id : Key) : Keeps (HK_refine H) (archSpawn id) := by
  unfold archSpawn; keeps
macro_rules | `(tactic| keeps_leaf) => `(tactic| exact archSpawn_hk_refine _ _)
theorem spawnAll_hk_refine (H : SlotMap HInfo) : Keeps (HK_refine H) spawnAll := by unfold spawnAll; keeps


end Evenio
