import Evenio.Generated.SparseMapGen
import Evenio.Model.SparseMap
import Evenio.Proofs.SparseMap
/-! The functions regenerated from `/repo/src/sparse_map.rs` by `tools/rs2lean` (`Evenio.Gen.SparseMap.{get, insert, remove}`)
    against the hand model the world model executes (`Evenio.SparseMap.get`, `insert`, `remove`).  The generated file is
    rewritten on every run of `tools/extract.py`, so these theorems are re-checked against what the code says now.

    `K: SparseIndex` is `Nat` with `K::MAX.index() = U32MAX`, as in the hand model.
    * `get`: plain equality (`get_unchecked` is a checked lookup on both sides).
    * `insert`: the map part of the translated `(map, old value)` EQUALS the hand model's `insert`, unconditionally; the old
      value is the hand model's `get` before the insertion (on a well-formed map).
    * `remove`: the map part equals the hand model's `remove` provided the dense index stored for the key is in range of
      `dense` and `indices` — the two `assume_unchecked` conditions of the code (the translated `swap_remove` leaves the list
      alone out of range, where Rust panics; the hand model's `swapRemove` drops the last element there); both follow from
      `SparseMap.WF`.  The value returned is the hand model's `get` before the removal (on a well-formed map).
    Core Lean only. -/
namespace Evenio
namespace SparseMapGen
open Rs2Lean
variable {ν : Type}

/-- in range, the translator's `vecSwapRemove` is the hand model's `swapRemove` -/
theorem vecSwapRemove_eq {α : Type} (l : List α) {i : Nat} (h : i < l.length) :
    vecSwapRemove l i = SparseMap.swapRemove l i := by
  simp only [vecSwapRemove, SparseMap.swapRemove]
  cases hl : l.getLast? with
  | none => rfl
  | some last =>
    simp only [h, if_true]
    by_cases he : i + 1 = l.length
    · simp only [he, if_true]
      have hi : i = l.length - 1 := by omega
      have hne : l ≠ [] := by intro e; simp [e] at h
      have : l.set i last = l := by
        apply List.ext_getElem (by simp)
        intro n h1 h2
        by_cases hn : i = n
        · subst hn
          simp only [List.getElem_set_self]
          rw [List.getLast?_eq_some_getLast hne] at hl
          cases hl
          simp [List.getLast_eq_getElem, hi]
        · simp [List.getElem_set_ne hn]
      rw [this]
    · simp [he]

/-- the translated `SparseMap::get` is the hand model's `get` -/
theorem get_eq (m : SparseMap ν) (k : Nat) : Gen.SparseMap.get m k = m.get k := by
  simp only [Gen.SparseMap.get, SparseMap.get, vecGet]
  cases m.sparse[k]? with
  | none => rfl
  | some idx =>
    by_cases h : idx ≥ U32MAX
    · simp [h]
    · cases hd : m.dense[idx]? <;> simp [h, hd]

/-- the map the translated `SparseMap::insert` leaves is the hand model's `insert` -/
theorem insert_eq (m : SparseMap ν) (k : Nat) (v : ν) : (Gen.SparseMap.insert m k v).1 = m.insert k v := by
  simp only [Gen.SparseMap.insert, SparseMap.insert, vecGet, vecSet, vecPush, vecLen, vecResize]
  by_cases hk : k ≥ m.sparse.length
  · have ht : List.take (k + 1) m.sparse = m.sparse := List.take_of_length_le (by omega)
    have hget : (m.sparse ++ List.replicate (k + 1 - m.sparse.length) U32MAX)[k]? = some U32MAX := by
      rw [List.getElem?_append_right hk, List.getElem?_replicate]
      simp; omega
    simp [hk, ht, hget]
  · have hlt : k < m.sparse.length := by omega
    simp only [hk, if_false]
    rw [List.getElem?_eq_getElem hlt]
    by_cases hm : m.sparse[k] = U32MAX
    · simp [hm]
    · cases hd : m.dense[m.sparse[k]]? with
      | none =>
        have : m.dense.length ≤ m.sparse[k] := List.getElem?_eq_none_iff.1 hd
        simp [hm, hd, List.set_eq_of_length_le this]
      | some old => simp [hm, hd]

/-- what the translated `insert` returns is the value the hand model's `get` found before (well-formed maps) -/
theorem insert_result_wf {m : SparseMap ν} (wf : m.WF) (k : Nat) (v : ν) :
    (Gen.SparseMap.insert m k v).2 = m.get k := by
  simp only [Gen.SparseMap.insert, SparseMap.get, vecGet, vecSet, vecPush, vecLen, vecResize]
  by_cases hk : k ≥ m.sparse.length
  · have ht : List.take (k + 1) m.sparse = m.sparse := List.take_of_length_le (by omega)
    have hget : (m.sparse ++ List.replicate (k + 1 - m.sparse.length) U32MAX)[k]? = some U32MAX := by
      rw [List.getElem?_append_right hk, List.getElem?_replicate]
      simp; omega
    simp [hk, ht, hget]
  · have hlt : k < m.sparse.length := by omega
    simp only [hk, if_false]
    rw [List.getElem?_eq_getElem hlt]
    by_cases hm : m.sparse[k] = U32MAX
    · simp [hm]
    · by_cases hge : m.sparse[k] ≥ U32MAX
      · have : m.dense[m.sparse[k]]? = none := List.getElem?_eq_none (by have := wf.small; omega)
        simp [hm, hge, this]
      · cases hd : m.dense[m.sparse[k]]? <;> simp [hm, hge, hd]

/-- the map the translated `SparseMap::remove` leaves is the hand model's `remove`, provided the dense index stored for
    the key is in range (the code's two `assume_unchecked` conditions) -/
theorem remove_eq (m : SparseMap ν) (k : Nat)
    (h : ∀ i, m.sparse[k]? = some i → i ≠ U32MAX → i < m.dense.length ∧ i < m.indices.length) :
    (Gen.SparseMap.remove m k).1 = m.remove k := by
  simp only [Gen.SparseMap.remove, SparseMap.remove, vecGet, vecSet]
  cases hs : m.sparse[k]? with
  | none => rfl
  | some idx =>
    by_cases hm : idx = U32MAX
    · simp [hm]
    · obtain ⟨h1, h2⟩ := h idx hs hm
      simp only [hm, if_false]
      rw [List.getElem?_eq_getElem h1]
      simp only [vecSwapRemove_eq _ h1, vecSwapRemove_eq _ h2]
      cases (SparseMap.swapRemove m.indices idx)[idx]? <;> rfl

/-- … in particular on every well-formed map -/
theorem remove_eq_wf {m : SparseMap ν} (wf : m.WF) (k : Nat) : (Gen.SparseMap.remove m k).1 = m.remove k := by
  apply remove_eq
  intro i hi hm
  rcases wf.bwd k i hi with h | h
  · exact absurd h hm
  · have : i < m.indices.length := (List.getElem?_eq_some_iff.1 h).1
    exact ⟨wf.len ▸ this, this⟩

/-- what the translated `remove` returns is the value the hand model's `get` found before (well-formed maps) -/
theorem remove_result_wf {m : SparseMap ν} (wf : m.WF) (k : Nat) : (Gen.SparseMap.remove m k).2 = m.get k := by
  simp only [Gen.SparseMap.remove, SparseMap.get, vecGet, vecSet]
  cases hs : m.sparse[k]? with
  | none => rfl
  | some idx =>
    by_cases hm : idx = U32MAX
    · simp [hm]
    · rcases wf.bwd k idx hs with h | h
      · exact absurd h hm
      · have hi : idx < m.indices.length := (List.getElem?_eq_some_iff.1 h).1
        have hd : idx < m.dense.length := wf.len ▸ hi
        have hlt : ¬ idx ≥ U32MAX := by have := wf.small; omega
        simp only [hm, hlt, if_false]
        rw [List.getElem?_eq_getElem hd]

end SparseMapGen
end Evenio
