import Evenio.Proofs.SlotMap
import Evenio.Proofs.Effect
import Evenio.Model.Step
/-! Helper lemmas for C03 at the level of `World` (`Evenio/Props/C03World.lean`): reservations (`reserve`),
    their materialisation (`spawnAll`), removal (`removeEntity`) and cursor refresh (`resRefresh`).

    * slot-map level: `reserveN` grows by one `nextKey` at the end (`reserveN_snoc`), `SlotMap.set` is invisible to
      the invariant and to the predictor, keys returned by `insertMany` are pairwise distinct and were not covered;
    * `World` level: the invariant `Reserved`, the frame of `archSpawn`, one iteration of `spawnAll` (`spawnBody`),
      the loop, `removeEntity`, what handlers (`HQ`) and relocating effects (`MQ`) keep. Core Lean only. -/
namespace Evenio
namespace SlotMap
variable {α : Type}

/-! ### `reserveN`, one more key at the end -/

theorem reserveN_snoc {sm : SlotMap α} {n i : Nat} {ks : List Key} {j : Nat} {k : Key} {j' : Nat}
    (h : reserveN sm n i = .ok ks j) (hk : sm.nextKey j = .key k j') :
    reserveN sm (n + 1) i = .ok (ks ++ [k]) j' := by
  induction n generalizing i ks with
  | zero =>
    simp only [reserveN, Reserve.ok.injEq] at h
    obtain ⟨rfl, rfl⟩ := h
    simp [reserveN, hk]
  | succ n ih =>
    rw [reserveN] at h
    rw [reserveN]
    cases hi : sm.nextKey i with
    | key k0 i0 =>
      simp only [hi] at h ⊢
      cases hr : reserveN sm n i0 with
      | ok ks0 j0 =>
        simp only [hr, Reserve.ok.injEq] at h
        obtain ⟨rfl, hj⟩ := h
        rw [hj] at hr
        rw [ih hr]
        rfl
      | exhausted => simp [hr] at h
      | badState => simp [hr] at h
    | exhausted => simp [hi] at h
    | badState => simp [hi] at h

/-- one more reservation at the end, whatever its outcome -/
theorem reserveN_succ_eq {sm : SlotMap α} {n i : Nat} {ks : List Key} {j : Nat}
    (h : reserveN sm n i = .ok ks j) :
    reserveN sm (n + 1) i =
      match sm.nextKey j with
      | .key k j' => .ok (ks ++ [k]) j'
      | .exhausted => .exhausted
      | .badState => .badState := by
  induction n generalizing i ks with
  | zero =>
    simp only [reserveN, Reserve.ok.injEq] at h
    obtain ⟨rfl, rfl⟩ := h
    simp only [reserveN]
    cases sm.nextKey i <;> rfl
  | succ n ih =>
    rw [reserveN] at h
    rw [reserveN]
    cases hi : sm.nextKey i with
    | key k0 i0 =>
      simp only [hi] at h ⊢
      cases hr : reserveN sm n i0 with
      | ok ks0 j0 =>
        simp only [hr, Reserve.ok.injEq] at h
        obtain ⟨rfl, hj⟩ := h
        rw [hj] at hr
        rw [ih hr]
        cases sm.nextKey j <;> rfl
      | exhausted => simp [hr] at h
      | badState => simp [hr] at h
    | exhausted => simp [hi] at h
    | badState => simp [hi] at h

theorem reserveN_length {sm : SlotMap α} {n i : Nat} {ks : List Key} {j : Nat}
    (h : reserveN sm n i = .ok ks j) : ks.length = n := by
  induction n generalizing i ks j with
  | zero => simp only [reserveN, Reserve.ok.injEq] at h; rw [← h.1]; rfl
  | succ n ih =>
    rw [reserveN] at h
    cases hi : sm.nextKey i with
    | key k0 i0 =>
      simp only [hi] at h
      cases hr : reserveN sm n i0 with
      | ok ks0 j0 =>
        simp only [hr, Reserve.ok.injEq] at h
        rw [← h.1, List.length_cons, ih hr]
      | exhausted => simp [hr] at h
      | badState => simp [hr] at h
    | exhausted => simp [hi] at h
    | badState => simp [hi] at h

/-- the first of `n + 1` reservations -/
theorem reserveN_succ_ok {sm : SlotMap α} {n i : Nat} {k : Key} {ks : List Key} {j : Nat}
    (h : reserveN sm (n + 1) i = .ok (k :: ks) j) :
    ∃ i', sm.nextKey i = .key k i' ∧ reserveN sm n i' = .ok ks j := by
  rw [reserveN] at h
  cases hi : sm.nextKey i with
  | key k0 i0 =>
    simp only [hi] at h
    cases hr : reserveN sm n i0 with
    | ok ks0 j0 =>
      simp only [hr, Reserve.ok.injEq, List.cons.injEq] at h
      obtain ⟨⟨rfl, rfl⟩, rfl⟩ := h
      exact ⟨i0, rfl, hr⟩
    | exhausted => simp [hr] at h
    | badState => simp [hr] at h
  | exhausted => simp [hi] at h
  | badState => simp [hi] at h

/-! ### `set` (overwrite the value of a live key) -/

theorem set_slots_length (sm : SlotMap α) (k : Key) (v : α) : (sm.set k v).slots.length = sm.slots.length := by
  unfold set
  split
  · split <;> simp
  · rfl

theorem set_nextFree (sm : SlotMap α) (k : Key) (v : α) : (sm.set k v).nextFree = sm.nextFree := by
  unfold set
  split
  · split <;> rfl
  · rfl

theorem set_len (sm : SlotMap α) (k : Key) (v : α) : (sm.set k v).len = sm.len := by
  unfold set
  split
  · split <;> rfl
  · rfl

theorem set_nextKeyIndex (sm : SlotMap α) (k : Key) (v : α) : (sm.set k v).nextKeyIndex = sm.nextKeyIndex := by
  simp only [nextKeyIndex, set_nextFree, set_slots_length]

/-- slot by slot: `set` changes at most the value of the slot of `k`, and only if `k` is live -/
theorem set_slot (sm : SlotMap α) (k : Key) (v : α) (i : Nat) :
    (sm.set k v).slots[i]? =
      match sm.slots[i]? with
      | some s => if i = k.idx ∧ s.gen = k.gen then some { s with val := some v } else some s
      | none => none := by
  unfold set
  cases hk : sm.slots[k.idx]? with
  | none =>
    simp only
    cases hi : sm.slots[i]? with
    | none => rfl
    | some s =>
      simp only
      split
      · rename_i hc; rw [hc.1, hk] at hi; cases hi
      · rfl
  | some s0 =>
    simp only
    by_cases hg : s0.gen = k.gen
    · simp only [hg, if_true, List.getElem?_set]
      by_cases hik : k.idx = i
      · subst hik
        have hlt := getElem?_lt hk
        simp only [hlt, if_true, hk, hg, and_self]
      · simp only [hik, if_false]
        cases hi : sm.slots[i]? with
        | none => rfl
        | some s =>
          simp only
          rw [if_neg (fun hc => hik hc.1.symm)]
    · simp only [hg, if_false]
      cases hi : sm.slots[i]? with
      | none => rfl
      | some s =>
        simp only
        split
        · rename_i hc; rw [hc.1, hk] at hi; cases hi; exact absurd hc.2 hg
        · rfl

theorem set_slot_some {sm : SlotMap α} {k : Key} {v : α} {i : Nat} {t : Slot α}
    (h : (sm.set k v).slots[i]? = some t) :
    ∃ s, sm.slots[i]? = some s ∧ t.gen = s.gen ∧ t.next = s.next ∧ (t.val.isSome ↔ s.val.isSome ∨ (i = k.idx ∧ s.gen = k.gen)) := by
  rw [set_slot] at h
  cases hi : sm.slots[i]? with
  | none => rw [hi] at h; cases h
  | some s =>
    rw [hi] at h
    simp only at h
    split at h
    · rename_i hc
      cases h
      exact ⟨s, rfl, rfl, rfl, by simp [hc]⟩
    · rename_i hc
      cases h
      exact ⟨t, rfl, rfl, rfl, by simp [hc]⟩

theorem nextKey_set (sm : SlotMap α) (k : Key) (v : α) (i : Nat) : (sm.set k v).nextKey i = sm.nextKey i := by
  unfold nextKey
  rw [set_slot, set_slots_length]
  cases sm.slots[i]? with
  | none => rfl
  | some s =>
    simp only
    by_cases hc : i = k.idx ∧ s.gen = k.gen
    · rw [if_pos hc]
    · rw [if_neg hc]

theorem reserveN_set (sm : SlotMap α) (k : Key) (v : α) (n i : Nat) :
    reserveN (sm.set k v) n i = reserveN sm n i := by
  induction n generalizing i with
  | zero => rfl
  | succ n ih =>
    simp only [reserveN, nextKey_set]
    cases sm.nextKey i with
    | key k0 i0 => simp only [ih]
    | exhausted => rfl
    | badState => rfl

private theorem Chain.congr {slots slots' : List (Slot α)} {h : Nat} {fl : List Nat} (c : Chain slots h fl)
    (hag : ∀ (i : Nat) (s : Slot α), slots[i]? = some s → ∃ t : Slot α, slots'[i]? = some t ∧ t.gen = s.gen ∧ t.next = s.next) :
    Chain slots' h fl := by
  induction fl generalizing h with
  | nil => exact c
  | cons j fl ih =>
    obtain ⟨hj, s, hs, he, hn, c'⟩ := c
    obtain ⟨t, ht, hg, hx⟩ := hag j s hs
    refine ⟨hj, t, ht, ?_, ?_, ?_⟩
    · rw [hg]; exact he
    · rw [hg]; exact hn
    · rw [hx]; exact ih c'

/-- `set` on a key of odd generation (in particular a live key) keeps the map well-formed -/
theorem WF.set_reserve {sm : SlotMap α} (wf : WF sm) {k : Key} (hk : k.gen % 2 = 1) (v : α) : WF (sm.set k v) := by
  refine ⟨?_, ?_, ?_, ?_, ?_⟩
  · intro i t ht
    obtain ⟨s, hs, hg, _, _⟩ := set_slot_some ht
    rw [hg]; exact wf.genLt i s hs
  · intro i t ht
    obtain ⟨s, hs, hg, _, hv⟩ := set_slot_some ht
    rw [hg, hv]
    have := wf.valIff i s hs
    constructor
    · rintro (h | ⟨_, h⟩)
      · exact this.1 h
      · rw [h]; exact hk
    · intro h; exact Or.inl (this.2 h)
  · obtain ⟨fl, c, nd⟩ := wf.chain
    refine ⟨fl, ?_, nd⟩
    rw [set_nextFree]
    refine c.congr ?_
    intro i s hs
    have := set_slot sm k v i
    rw [hs] at this
    simp only at this
    split at this
    · exact ⟨_, this, rfl, rfl⟩
    · exact ⟨_, this, rfl, rfl⟩
  · rw [set_len, wf.lenEq]
    unfold SlotMap.set
    cases hs : sm.slots[k.idx]? with
    | none => rfl
    | some s =>
      simp only
      split
      · have hlt := getElem?_lt hs
        have hget : sm.slots[k.idx] = s := by
          rcases List.getElem?_eq_some_iff.1 hs with ⟨_, h⟩; exact h
        simp only [List.countP_set hlt, hget]
        cases hp : (s.gen % 2 == 1)
        · simp
        · have : 0 < List.countP (fun s => s.gen % 2 == 1) sm.slots :=
            List.countP_pos_iff.2 ⟨s, by rw [← hget]; exact List.getElem_mem _, hp⟩
          simp; omega
      · rfl
  · rw [set_slots_length]; exact wf.size

theorem get_odd {sm : SlotMap α} (wf : WF sm) {k : Key} {v : α} (h : sm.get k = some v) : k.gen % 2 = 1 := by
  unfold get at h
  cases hs : sm.slots[k.idx]? with
  | none => simp [hs] at h
  | some s =>
    simp only [hs] at h
    split at h
    · rename_i hg
      rw [← hg]
      exact (wf.valIff _ _ hs).1 (by simp [h])
    · cases h

/-- `get` after `set` on a live key -/
private theorem get_set {sm : SlotMap α} {k : Key} {l : α} (h : sm.get k = some l) (v : α) (k' : Key) :
    (sm.set k v).get k' = if k' = k then some v else sm.get k' := by
  unfold get at h ⊢
  rw [set_slot]
  cases hs : sm.slots[k.idx]? with
  | none => simp [hs] at h
  | some s =>
    simp only [hs] at h
    by_cases hg : s.gen = k.gen
    · by_cases hk : k' = k
      · subst hk
        simp [hs, hg]
      · rw [if_neg hk]
        cases hs' : sm.slots[k'.idx]? with
        | none => rfl
        | some s' =>
          simp only
          by_cases hc : k'.idx = k.idx ∧ s'.gen = k.gen
          · rw [if_pos hc]
            have : s'.gen ≠ k'.gen := by
              intro e; apply hk
              cases k'; cases k; simp_all
            simp [this]
          · rw [if_neg hc]
    · simp [hg] at h

private theorem contains_set {sm : SlotMap α} {k : Key} {l : α} (h : sm.get k = some l) (v : α) (k' : Key) :
    (sm.set k v).contains k' = sm.contains k' := by
  unfold contains
  rw [get_set h]
  split
  · rename_i hk; subst hk; simp [h]
  · rfl

/-- `set` on a key that is not live with a matching slot changes nothing observable through `get` of
    other keys; in particular `set` never changes which keys other than `k` are live -/
theorem covers_set {sm : SlotMap α} (k : Key) (v : α) (k' : Key) : Covers (sm.set k v) k' ↔ Covers sm k' := by
  unfold Covers
  constructor
  · rintro ⟨t, ht, hc⟩
    obtain ⟨s, hs, hg, _, _⟩ := set_slot_some ht
    exact ⟨s, hs, hg ▸ hc⟩
  · rintro ⟨s, hs, hc⟩
    have := set_slot sm k v k'.idx
    rw [hs] at this
    simp only at this
    split at this
    · exact ⟨_, this, hc⟩
    · exact ⟨_, this, hc⟩

/-! ### freshness of predicted keys, locally (no history needed) -/

/-- a live key is covered -/
theorem covers_of_get {sm : SlotMap α} {k : Key} {v : α} (h : sm.get k = some v) : Covers sm k := by
  unfold get at h
  cases hs : sm.slots[k.idx]? with
  | none => simp [hs] at h
  | some s =>
    simp only [hs] at h
    split at h
    · rename_i hg
      exact ⟨s, hs, Or.inr (Nat.le_of_eq hg.symm)⟩
    · cases h

theorem get_none_of_not_covers {sm : SlotMap α} {k : Key} (h : ¬ Covers sm k) : sm.get k = none := by
  cases hg : sm.get k with
  | none => rfl
  | some v => exact absurd (covers_of_get hg) h

/-- what "not covered" means slot-wise: the index was never allocated, or the slot is not retired and its
    generation is strictly below the key's -/
theorem not_covers_iff {sm : SlotMap α} {k : Key} :
    ¬ Covers sm k ↔ ∀ s, sm.slots[k.idx]? = some s → s.gen ≠ 0 ∧ s.gen < k.gen := by
  unfold Covers
  constructor
  · intro h s hs
    refine ⟨fun h0 => h ⟨s, hs, Or.inl h0⟩, ?_⟩
    rcases Nat.lt_or_ge s.gen k.gen with hlt | hge
    · exact hlt
    · exact absurd ⟨s, hs, Or.inr hge⟩ h
  · rintro h ⟨s, hs, hc⟩
    obtain ⟨h0, hlt⟩ := h s hs
    rcases hc with hc | hc
    · exact h0 hc
    · omega

/-- The keys returned by successive inserts are pairwise distinct, none of them was covered (so none was ever
    issued before, and none is live) in the map the inserts started from, all of them are covered afterwards, and
    coverage only grows. -/
theorem insertMany_fresh {sm sm' : SlotMap α} (wf : WF sm) {fs : List (Key → α)} {ks : List Key}
    (h : sm.insertMany fs = some (ks, sm')) :
    ks.Nodup ∧ (∀ k ∈ ks, ¬ Covers sm k) ∧ (∀ k, Covers sm k → Covers sm' k) ∧ (∀ k ∈ ks, Covers sm' k) := by
  induction fs generalizing sm ks with
  | nil =>
    simp only [SlotMap.insertMany, Option.some.injEq, Prod.mk.injEq] at h
    obtain ⟨rfl, rfl⟩ := h
    exact ⟨List.nodup_nil, by simp, fun _ h => h, by simp⟩
  | cons f fs ih =>
    simp only [SlotMap.insertMany] at h
    cases h1 : sm.insertWith f with
    | none => simp [h1] at h
    | some r =>
      obtain ⟨k, sm1⟩ := r
      simp only [h1] at h
      cases h2 : sm1.insertMany fs with
      | none => simp [h2] at h
      | some r2 =>
        obtain ⟨ks2, sm2⟩ := r2
        simp only [h2, Option.some.injEq, Prod.mk.injEq] at h
        obtain ⟨rfl, rfl⟩ := h
        obtain ⟨_, _, _, hcov, hmono, hfresh⟩ := insertWith_key wf h1
        obtain ⟨nd, hnc, hm2, hc2⟩ := ih (wf.insertWith h1) h2
        have hk : ¬ Covers sm k := fun hc => Nat.lt_irrefl _ (hfresh k hc rfl)
        refine ⟨List.nodup_cons.2 ⟨fun hm => hnc k hm hcov, nd⟩, ?_, fun k' hc => hm2 k' (hmono k' hc), ?_⟩
        · intro k' hk'
          rcases List.mem_cons.1 hk' with rfl | hk'
          · exact hk
          · exact fun hc => hnc k' hk' (hmono k' hc)
        · intro k' hk'
          rcases List.mem_cons.1 hk' with rfl | hk'
          · exact hm2 _ hcov
          · exact hc2 k' hk'

/-- Reserved keys (predicted from `nextKeyIndex`) are pairwise distinct, not live, and were never issued
    (not covered): the local form of `reserved_fresh`, for any well-formed map. -/
theorem reserveN_fresh {sm : SlotMap α} (wf : WF sm) (v : α) {n : Nat} {ks : List Key} {j : Nat}
    (h : reserveN sm n sm.nextKeyIndex = .ok ks j) :
    ks.Nodup ∧ ∀ k ∈ ks, ¬ Covers sm k ∧ sm.get k = none := by
  have hp := reserveN_eq_insertMany wf (List.replicate n (fun _ => v))
  rw [List.length_replicate, h] at hp
  cases hm : sm.insertMany (List.replicate n fun _ => v) with
  | none => rw [hm] at hp; cases hp
  | some r =>
    obtain ⟨ks', sm'⟩ := r
    rw [hm] at hp
    simp only [Reserve.ok.injEq] at hp
    obtain ⟨rfl, _⟩ := hp
    obtain ⟨nd, hnc, _, _⟩ := insertMany_fresh wf hm
    exact ⟨nd, fun k hk => ⟨hnc k hk, get_none_of_not_covers (hnc k hk)⟩⟩

/-- One insert from a map with `n + 1` predicted keys: it succeeds, returns the first predicted key, and the
    remaining predictions are the predictions of the new map, ending at the same cursor. -/
theorem insertWith_of_reserved {sm : SlotMap α} (wf : WF sm) (f : Key → α) {n : Nat} {k : Key} {ks : List Key}
    {j : Nat} (h : reserveN sm (n + 1) sm.nextKeyIndex = .ok (k :: ks) j) :
    ∃ sm', sm.insertWith f = some (k, sm') ∧ reserveN sm' n sm'.nextKeyIndex = .ok ks j := by
  obtain ⟨i', hk, hr⟩ := reserveN_succ_ok h
  cases hi : sm.insertWith f with
  | none => rw [reserve_full wf hi] at hk; cases hk
  | some r =>
    obtain ⟨k', sm'⟩ := r
    obtain ⟨hk', hrest⟩ := reserve_step wf hi
    rw [hk] at hk'
    simp only [NextKey.key.injEq] at hk'
    obtain ⟨rfl, rfl⟩ := hk'
    exact ⟨sm', rfl, by rw [← hrest]; exact hr⟩

end SlotMap

/-! ### the part of the world the entity bookkeeping lives in -/

/-- the fields read and written by `reserve` / `spawnAll` / `removeEntity` / `resRefresh` -/
structure EView where
  entities : SlotMap Loc
  resIndex : Nat
  resCount : Nat
  archs : Slab Arch

def World.eview (w : World) : EView := ⟨w.entities, w.resIndex, w.resCount, w.archs⟩

abbrev EV_reserve (Q : EView → Prop) : World → Prop := fun w => Q w.eview

section leaves
variable {Q : EView → Prop}
theorem logT_ev (s : String) : Keeps (EV_reserve Q) (logT s) := by unfold logT; keeps
macro_rules | `(tactic| keeps_leaf) => `(tactic| exact logT_ev _)
theorem ubErr_ev {α : Type} (s : String) : Keeps (EV_reserve Q) (ubErr s : M α) := by unfold ubErr; keeps
macro_rules | `(tactic| keeps_leaf) => `(tactic| exact ubErr_ev _)
theorem dbgAssert_ev (c : Bool) (s : String) : Keeps (EV_reserve Q) (dbgAssert c s) := by unfold dbgAssert; keeps
macro_rules | `(tactic| keeps_leaf) => `(tactic| exact dbgAssert_ev _ _)
theorem handlerRefresh_ev (hk : Key) (a : Arch) : Keeps (EV_reserve Q) (handlerRefresh hk a) := by unfold handlerRefresh; keeps
macro_rules | `(tactic| keeps_leaf) => `(tactic| exact handlerRefresh_ev _ _)
theorem dropCell_ev (ty : Nat) (c : Cell) : Keeps (EV_reserve Q) (dropCell ty c) := by unfold dropCell; keeps
macro_rules | `(tactic| keeps_leaf) => `(tactic| exact dropCell_ev _ _)
theorem dropCellIdx_ev (ty : Nat) (c : Cell) : Keeps (EV_reserve Q) (dropCellIdx ty c) := by unfold dropCellIdx; keeps
macro_rules | `(tactic| keeps_leaf) => `(tactic| exact dropCellIdx_ev _ _)
theorem dropEvent_ev (it : QItem) : Keeps (EV_reserve Q) (dropEvent it) := by unfold dropEvent; keeps
macro_rules | `(tactic| keeps_leaf) => `(tactic| exact dropEvent_ev _)
theorem handlerRemoveArch_ev (hk : Key) (a : Arch) : Keeps (EV_reserve Q) (handlerRemoveArch hk a) := by
  unfold handlerRemoveArch; keeps
macro_rules | `(tactic| keeps_leaf) => `(tactic| exact handlerRemoveArch_ev _ _)
theorem getArch_ev (i : Nat) (s : String) : Keeps (EV_reserve Q) (getArch i s) := by unfold getArch; keeps
macro_rules | `(tactic| keeps_leaf) => `(tactic| exact getArch_ev _ _)
theorem freshEpoch_ev : Keeps (EV_reserve Q) freshEpoch := by unfold freshEpoch; keeps
macro_rules | `(tactic| keeps_leaf) => `(tactic| exact freshEpoch_ev)
theorem takeBudget_ev : Keeps (EV_reserve Q) takeBudget := by unfold takeBudget; keeps
macro_rules | `(tactic| keeps_leaf) => `(tactic| exact takeBudget_ev)
theorem freshE_ev : Keeps (EV_reserve Q) freshE := by unfold freshE; keeps
macro_rules | `(tactic| keeps_leaf) => `(tactic| exact freshE_ev)
theorem freshC_ev : Keeps (EV_reserve Q) freshC := by unfold freshC; keeps
macro_rules | `(tactic| keeps_leaf) => `(tactic| exact freshC_ev)
theorem push_ev (it : QItem) : Keeps (EV_reserve Q) (push it) := by unfold push; keeps
macro_rules | `(tactic| keeps_leaf) => `(tactic| exact push_ev _)
theorem senderPush_ev (h : HInfo) (it : QItem) : Keeps (EV_reserve Q) (senderPush h it) := by unfold senderPush; keeps
macro_rules | `(tactic| keeps_leaf) => `(tactic| exact senderPush_ev _ _)
theorem paramRows_ev (p : Param) : Keeps (EV_reserve Q) (paramRows p) := by unfold paramRows; keeps
macro_rules | `(tactic| keeps_leaf) => `(tactic| exact paramRows_ev _)
theorem itemAt_ev (st : AS) (a : Arch) (row : Nat) : Keeps (EV_reserve Q) (itemAt st a row) := by unfold itemAt; keeps
macro_rules | `(tactic| keeps_leaf) => `(tactic| exact itemAt_ev _ _ _)
theorem paramGet_ev (p : Param) (id : Key) : Keeps (EV_reserve Q) (paramGet p id) := by unfold paramGet; keeps
macro_rules | `(tactic| keeps_leaf) => `(tactic| exact paramGet_ev _ _)
theorem getParam_ev (h : HInfo) (p : Nat) : Keeps (EV_reserve Q) (getParam h p) := by unfold getParam; keeps
macro_rules | `(tactic| keeps_leaf) => `(tactic| exact getParam_ev _ _)
end leaves

theorem eview_of_keeps {α : Type} {m : M α} (hk : ∀ Q, Keeps (EV_reserve Q) m) (w : World) :
    (m.run.run w).2.eview = w.eview := (hk (· = w.eview)).run w rfl

/-- what `Archetypes::spawn` does, on normal return: the id is appended to the id list of the archetype stored at
    index 0 (written back at that archetype's own `index`), whose capacity/epoch may change; the returned location is
    the new last row; entities and reservations are untouched -/
theorem archSpawn_ok {w w' : World} {k : Key} {a : Arch} {loc : Loc} (ha : w.archs.get 0 = some a)
    (h : (archSpawn k).run.run w = (.ok loc, w')) :
    loc = ⟨0, a.ids.length⟩ ∧ w'.entities = w.entities ∧ w'.resIndex = w.resIndex ∧ w'.resCount = w.resCount ∧
    ∃ a', w'.archs = w.archs.set a.index a' ∧ a'.ids = a.ids ++ [k] ∧ a'.comps = a.comps ∧ a'.index = a.index ∧
      a'.cols = a.cols := by
  unfold archSpawn at h
  rw [run_bind, run_getArch _ ha] at h
  simp only [freshEpoch, run_bind, run_modifyGet, setArch, run_modify] at h
  have hro : ∀ ep, (a.reserveOne ep).fst.ids = a.ids ∧ (a.reserveOne ep).fst.index = a.index ∧
      (a.reserveOne ep).fst.comps = a.comps ∧ (a.reserveOne ep).fst.cols = a.cols := by
    intro ep; unfold Arch.reserveOne; split <;> exact ⟨rfl, rfl, rfl, rfl⟩
  obtain ⟨hids, hidx, hcomps, hcols⟩ := hro w.epochCtr
  generalize hw1 : ({ w with archs := _, epochCtr := _ } : World) = w1 at h
  have hev : w1.eview = ⟨w.entities, w.resIndex, w.resCount,
      w.archs.set a.index { (a.reserveOne w.epochCtr).fst with ids := (a.reserveOne w.epochCtr).fst.ids ++ [k] }⟩ := by
    rw [← hw1, ← hidx]; rfl
  have fin : ∀ w2 : World, w2.eview = w1.eview →
      w2.entities = w.entities ∧ w2.resIndex = w.resIndex ∧ w2.resCount = w.resCount ∧
      ∃ a', w2.archs = w.archs.set a.index a' ∧ a'.ids = a.ids ++ [k] ∧ a'.comps = a.comps ∧ a'.index = a.index ∧
        a'.cols = a.cols := by
    intro w2 h2
    rw [hev] at h2
    refine ⟨congrArg EView.entities h2, congrArg EView.resIndex h2, congrArg EView.resCount h2, _,
      congrArg EView.archs h2, ?_, hcomps, hidx, hcols⟩
    show (a.reserveOne w.epochCtr).fst.ids ++ [k] = _
    rw [hids]
  split at h
  · rw [run_bind] at h
    generalize hr : (forIn (m := M) (a.reserveOne w.epochCtr).fst.refresh PUnit.unit _).run.run w1 = r at h
    have hk : r.2.eview = w1.eview := by
      rw [← hr]; exact eview_of_keeps (fun Q => by keeps) w1
    obtain ⟨(e|u), w2⟩ := r
    · cases h
    · cases h
      exact ⟨by rw [hids], fin _ hk⟩
  · cases h
    exact ⟨by rw [hids], fin _ rfl⟩

open SlotMap

/-! ### `Slab.set` -/

theorem Slab.get_set_reserve {α : Type} (s : Slab α) (i : Nat) (a : α) (j : Nat) :
    (s.set i a).get j = if j = i ∧ (s.get i).isSome then some a else s.get j := by
  unfold Slab.set Slab.get
  cases hi : s.entries[i]? with
  | none => simp
  | some e =>
    cases e with
    | vacant n => simp
    | occ b =>
      have hlt : i < s.entries.length := by
        rcases List.getElem?_eq_some_iff.1 hi with ⟨h, _⟩; exact h
      simp only [List.getElem?_set]
      by_cases hj : i = j
      · subst hj; simp [hlt]
      · have : ¬ (j = i) := fun e => hj e.symm
        simp [hj, this]

theorem Slab.set_set {α : Type} (s : Slab α) (i : Nat) (a b : α) : (s.set i a).set i b = s.set i b := by
  unfold Slab.set
  cases hi : s.entries[i]? with
  | none => simp [hi]
  | some e =>
    cases e with
    | vacant n => simp [hi]
    | occ c =>
      have hlt : i < s.entries.length := by
        rcases List.getElem?_eq_some_iff.1 hi with ⟨h, _⟩; exact h
      simp [hlt]

/-! ### the reservation invariant -/

/-- **The reservation invariant.** The entity map is well formed, `resCount` reservations are pending, they are —
    in order — exactly the keys `ks` the slot map's predictor yields from `nextKeyIndex`, i.e. (`nextKey_predicts`)
    the keys the next `ks.length` inserts will return, and `resIndex` is where the prediction stopped. -/
def Reserved (w : World) (ks : List Key) : Prop :=
  w.entities.WF ∧ w.resCount = ks.length ∧
    w.entities.reserveN ks.length w.entities.nextKeyIndex = .ok ks w.resIndex

/-- one iteration of the loop of `spawnAll`, verbatim -/
def spawnBody : M (ForInStep PUnit) := do
  let w ← get
  match w.entities.insertWith (fun _ => Loc.NULL) with
  | none => do
    throw (.panic "capacity")
    pure (ForInStep.yield PUnit.unit)
  | some (k, ents) => do
    set { w with entities := ents }
    let loc ← archSpawn k
    modify fun w => { w with entities := w.entities.set k loc }
    pure (ForInStep.yield PUnit.unit)

theorem spawnAll_eq : spawnAll = (do
    let w ← get
    forIn (List.range' 0 w.resCount) PUnit.unit (fun _ _ => spawnBody)
    modify fun w => { w with resIndex := w.entities.nextKeyIndex, resCount := 0 }) := by
  unfold spawnAll
  simp only [Std.Legacy.Range.forIn_eq_forIn_range', Std.Legacy.Range.size]
  simp only [Nat.sub_zero, Nat.add_sub_cancel, Nat.div_one]
  rfl


/-- One iteration of `spawnAll` from a state with `ks.length + 1` pending predictions `k :: ks`, archetype 0 being `a`
    (stored at its own index): on normal return the insert returned the first prediction `k`, `k` is located at the
    new last row of archetype 0, which now ends in `k`; everything else in the entity map is as before; the remaining
    predictions `ks` are the predictions of the new map and end at the same cursor. -/
theorem spawnBody_ok {w w' : World} {k : Key} {ks : List Key} {j : Nat} {a : Arch} {r : ForInStep PUnit}
    (wf : w.entities.WF) (hres : w.entities.reserveN (ks.length + 1) w.entities.nextKeyIndex = .ok (k :: ks) j)
    (ha : w.archs.get 0 = some a) (hidx : a.index = 0)
    (h : spawnBody.run.run w = (.ok r, w')) :
    r = .yield PUnit.unit ∧ w'.entities.WF ∧ w'.entities.reserveN ks.length w'.entities.nextKeyIndex = .ok ks j ∧
    (∀ k', w'.entities.get k' = if k' = k then some ⟨0, a.ids.length⟩ else w.entities.get k') ∧
    w'.entities.len = w.entities.len + 1 ∧ w'.resIndex = w.resIndex ∧ w'.resCount = w.resCount ∧
    (∀ k', Covers w.entities k' → Covers w'.entities k') ∧ ¬ Covers w.entities k ∧
    ∃ a', w'.archs = w.archs.set 0 a' ∧ a'.ids = a.ids ++ [k] ∧ a'.comps = a.comps ∧ a'.index = 0 ∧
      a'.cols = a.cols := by
  obtain ⟨sm1, hins, hres1⟩ := insertWith_of_reserved wf (fun _ => Loc.NULL) hres
  unfold spawnBody at h
  rw [run_bind, run_get] at h
  simp only [hins, run_bind, run_set] at h
  generalize hr : (archSpawn k).run.run _ = r1 at h
  obtain ⟨(e|loc), w2⟩ := r1
  · cases h
  · obtain ⟨hloc, he, hri, hrc, a', harch, hids, hcomps, hidx', hcols⟩ := archSpawn_ok (w := { w with entities := sm1 }) ha hr
    simp only [run_modify, run_pure] at h
    cases h
    obtain ⟨hodd, _, _, hcov, hmono, hfresh⟩ := insertWith_key wf hins
    have hget1 := get_insertWith wf hins
    have hk1 : sm1.get k = some Loc.NULL := by rw [hget1]; simp
    have hent : w2.entities = sm1 := he
    refine ⟨rfl, ?_, ?_, ?_, ?_, hri, hrc, ?_, ?_, a', ?_, hids, hcomps, hidx'.trans hidx, hcols⟩
    · show (w2.entities.set k loc).WF
      rw [hent]; exact (wf.insertWith hins).set_reserve hodd _
    · show (w2.entities.set k loc).reserveN _ (w2.entities.set k loc).nextKeyIndex = _
      rw [hent, reserveN_set, set_nextKeyIndex]; exact hres1
    · intro k'
      show (w2.entities.set k loc).get k' = _
      rw [hent, get_set hk1, hloc, hget1]
      by_cases hkk : k' = k
      · simp [hkk]
      · simp [hkk]
    · show (w2.entities.set k loc).len = _
      rw [hent, set_len, insertWith_len hins]
    · intro k' hc
      show Covers (w2.entities.set k loc) k'
      rw [hent, covers_set]; exact hmono k' hc
    · exact fun hc => Nat.lt_irrefl _ (hfresh k hc rfl)
    · rw [harch, hidx]

/-- state after the loop of `spawnAll`, relative to the state `w` before it, `a` being archetype 0 of `w` -/
structure SpawnPost (w : World) (a : Arch) (ks : List Key) (j : Nat) (w' : World) : Prop where
  wf : w'.entities.WF
  cursor : w'.entities.nextKeyIndex = j
  new : ∀ (i : Nat) (k : Key), ks[i]? = some k → w'.entities.get k = some ⟨0, a.ids.length + i⟩
  old : ∀ k', k' ∉ ks → w'.entities.get k' = w.entities.get k'
  len : w'.entities.len = w.entities.len + ks.length
  resIndex : w'.resIndex = w.resIndex
  resCount : w'.resCount = w.resCount
  covers : ∀ k', Covers w.entities k' → Covers w'.entities k'
  fresh : ∀ k ∈ ks, ¬ Covers w.entities k
  nodup : ks.Nodup
  archs : ∃ a', w'.archs = w.archs.set 0 a' ∧ a'.ids = a.ids ++ ks ∧ a'.comps = a.comps ∧ a'.index = 0 ∧
    a'.cols = a.cols

theorem spawnLoop_ok (ks : List Key) : ∀ (s : Nat) (w w' : World) (a : Arch) (j : Nat) (u : PUnit),
    w.entities.WF → w.entities.reserveN ks.length w.entities.nextKeyIndex = .ok ks j →
    w.archs.get 0 = some a → a.index = 0 →
    (forIn (List.range' s ks.length) PUnit.unit (fun _ _ => spawnBody)).run.run w = (.ok u, w') →
    SpawnPost w a ks j w' := by
  induction ks with
  | nil =>
    intro s w w' a j u wf hres ha hidx h
    simp only [List.length_nil, List.range'_zero, List.forIn_nil, run_pure] at h
    cases h
    simp only [List.length_nil, reserveN, Reserve.ok.injEq, true_and] at hres
    exact ⟨wf, hres, by simp, fun _ _ => rfl, by simp, rfl, rfl, fun _ h => h, by simp, List.nodup_nil,
      a, (slab_set_self ha).symm, by simp, rfl, hidx, rfl⟩
  | cons k ks ih =>
    intro s w w' a j u wf hres ha hidx h
    simp only [List.length_cons, List.range'_succ, List.forIn_cons] at h
    rw [run_bind] at h
    generalize hr : spawnBody.run.run w = r1 at h
    obtain ⟨(e|r), w1⟩ := r1
    · cases h
    · obtain ⟨hyield, wf1, hres1, hget1, hlen1, hri1, hrc1, hcov1, hnk, a1, harch1, hids1, hcomps1, hidx1, hcols1⟩ :=
        spawnBody_ok wf hres ha hidx hr
      have ha1 : w1.archs.get 0 = some a1 := by
        rw [harch1, Slab.get_set_reserve]; simp [ha]
      have hrun : (forIn (List.range' (s + 1) ks.length) PUnit.unit (fun _ _ => spawnBody)).run.run w1 = (.ok u, w') := by
        subst hyield; exact h
      have post := ih (s + 1) w1 w' a1 j u wf1 hres1 ha1 hidx1 hrun
      have hfr := (reserveN_fresh wf1 Loc.NULL hres1)
      have hkn : k ∉ ks := by
        intro hm
        have := (hfr.2 k hm).2
        rw [hget1] at this
        simp at this
      refine ⟨post.wf, post.cursor, ?_, ?_, ?_, post.resIndex.trans hri1, post.resCount.trans hrc1,
        fun k' hc => post.covers k' (hcov1 k' hc), ?_, List.nodup_cons.2 ⟨hkn, post.nodup⟩, ?_⟩
      · intro i k' hi
        cases i with
        | zero =>
          simp only [List.getElem?_cons_zero, Option.some.injEq] at hi
          subst hi
          rw [post.old _ hkn, hget1]; simp
        | succ i =>
          simp only [List.getElem?_cons_succ] at hi
          rw [post.new i k' hi, hids1]
          simp only [List.length_append, List.length_singleton, Option.some.injEq, Loc.mk.injEq, true_and]
          omega
      · intro k' hk'
        simp only [List.mem_cons, not_or] at hk'
        rw [post.old _ hk'.2, hget1, if_neg hk'.1]
      · rw [post.len, hlen1, List.length_cons]; omega
      · intro k' hk'
        rcases List.mem_cons.1 hk' with rfl | hk'
        · exact hnk
        · exact fun hc => post.fresh k' hk' (hcov1 k' hc)
      · obtain ⟨a', harch', hids', hcomps', hidx', hcols'⟩ := post.archs
        refine ⟨a', ?_, ?_, hcomps'.trans hcomps1, hidx', hcols'.trans hcols1⟩
        · rw [harch', harch1, Slab.set_set]
        · rw [hids', hids1]; simp


/-- `spawnAll` from a reserved state: the loop ends in a `SpawnPost` state, then the cursor is reset to the new
    `nextKeyIndex` (which is where it already was) and the count to 0 -/
theorem spawnAll_ok {w w' : World} {ks : List Key} {a : Arch} {u : Unit} (hr : Reserved w ks)
    (ha : w.archs.get 0 = some a) (hidx : a.index = 0) (h : spawnAll.run.run w = (.ok u, w')) :
    ∃ w1, SpawnPost w a ks w.resIndex w1 ∧
      w' = { w1 with resIndex := w1.entities.nextKeyIndex, resCount := 0 } := by
  obtain ⟨wf, hc, hres⟩ := hr
  rw [spawnAll_eq, run_bind, run_get] at h
  simp only [hc] at h
  rw [run_bind] at h
  generalize hl : (forIn (List.range' 0 ks.length) PUnit.unit (fun _ _ => spawnBody)).run.run w = r at h
  obtain ⟨(e|x), w1⟩ := r
  · cases h
  · simp only [run_modify] at h
    cases h
    exact ⟨w1, spawnLoop_ok ks 0 w w1 a w.resIndex x wf hres ha hidx hl, rfl⟩


theorem ok_eview {α : Type} {m : M α} (hk : ∀ Q, Keeps (EV_reserve Q) m) {w w' : World} {a : α}
    (h : m.run.run w = (.ok a, w')) : w'.eview = w.eview := by
  have := eview_of_keeps hk w
  rw [h] at this
  exact this

theorem dbgAssert_ok {c : Bool} {s : String} {w w' : World} {u : Unit}
    (h : (dbgAssert c s).run.run w = (.ok u, w')) : w' = w := by
  unfold dbgAssert at h
  rw [run_bind, run_get] at h
  simp only at h
  split at h
  · cases h
  · cases h; rfl

theorem setLoc_ok {id : Key} {s : String} {f : Loc → Loc} {w w' : World} {u : Unit}
    (h : (setLoc id s f).run.run w = (.ok u, w')) :
    ∃ l, w.entities.get id = some l ∧ w' = { w with entities := w.entities.set id (f l) } := by
  unfold setLoc at h
  rw [run_bind, run_get] at h
  simp only at h
  split at h
  · rename_i l hl
    cases h
    exact ⟨l, hl, rfl⟩
  · cases h

theorem removeEntity_ok {w w' : World} {loc : Loc} {a : Arch} {id : Key} {u : Unit}
    (ha : w.archs.get loc.arch = some a) (hid : a.ids[loc.row]? = some id)
    (h : (removeEntity loc).run.run w = (.ok u, w')) :
    w'.resCount = w.resCount ∧ w'.resIndex = w.resIndex ∧
    ∃ v ents, w.entities.remove id = some (v, ents) ∧
      (w'.entities = ents ∨ ∃ d l, ents.get d = some l ∧ w'.entities = ents.set d { l with row := loc.row }) := by
  unfold removeEntity at h
  rw [run_bind, run_getArch _ ha] at h
  simp only at h
  rw [run_bind] at h
  generalize hl : (forIn (m := M) (a.comps.zip a.cols) ([] : List (List Cell)) _).run.run w = r at h
  obtain ⟨(e|cols), w1⟩ := r
  · cases h
  · have h1 : w1.eview = w.eview := ok_eview (fun Q => by keeps) hl
    simp only [hid, setArch, run_bind, run_modify, run_get] at h
    have he1 : w1.entities = w.entities := congrArg EView.entities h1
    have hc1 : w1.resCount = w.resCount := congrArg EView.resCount h1
    have hi1 : w1.resIndex = w.resIndex := congrArg EView.resIndex h1
    cases hrem : w1.entities.remove id with
    | none => simp only [hrem] at h; cases h
    | some p =>
      obtain ⟨removed, ents⟩ := p
      simp only [hrem, run_bind, run_set] at h
      generalize hw2 : ({ w1 with entities := ents, archs := _ } : World) = w2 at h
      have he2 : w2.entities = ents := by rw [← hw2]
      have hc2 : w2.resCount = w.resCount := by rw [← hw2]; exact hc1
      have hi2 : w2.resIndex = w.resIndex := by rw [← hw2]; exact hi1
      generalize hd : (dbgAssert (removed == loc) "archetype.rs:remove_entity:loc").run.run w2 = r at h
      obtain ⟨(e|x), w3⟩ := r
      · cases h
      · have := dbgAssert_ok hd
        subst this
        simp only at h
        rw [he1] at hrem
        have fin : w'.resCount = w3.resCount ∧ w'.resIndex = w3.resIndex ∧
            (w'.entities = w3.entities ∨ ∃ d l, w3.entities.get d = some l ∧
              w'.entities = w3.entities.set d { l with row := loc.row }) := by
          split at h
          · rename_i displaced _
            rw [run_bind] at h
            generalize hs : (setLoc displaced _ _).run.run w3 = r at h
            obtain ⟨(e|x), w4⟩ := r
            · cases h
            · obtain ⟨l, hl, rfl⟩ := setLoc_ok hs
              have h5 := ok_eview (fun Q => by keeps) h
              exact ⟨congrArg EView.resCount h5, congrArg EView.resIndex h5, Or.inr ⟨displaced, l, hl,
                congrArg EView.entities h5⟩⟩
          · have h5 := ok_eview (fun Q => by keeps) h
            exact ⟨congrArg EView.resCount h5, congrArg EView.resIndex h5, Or.inl (congrArg EView.entities h5)⟩
        rw [he2, hc2, hi2] at fin
        exact ⟨fin.1, fin.2.1, removed, ents, hrem, fin.2.2⟩


/-- `removeEntity`, in terms of the entity map only: the id stored at the location is removed from the map (it was
    live), every other key keeps its liveness and its archetype — its row changes only for the entity swapped into
    the vacated row — the map stays well formed and the reservation fields are untouched. -/
theorem removeEntity_entities {w w' : World} {loc : Loc} {a : Arch} {id : Key} {u : Unit}
    (wf : w.entities.WF) (ha : w.archs.get loc.arch = some a) (hid : a.ids[loc.row]? = some id)
    (h : (removeEntity loc).run.run w = (.ok u, w')) :
    w'.entities.WF ∧ w'.resCount = w.resCount ∧ w'.resIndex = w.resIndex ∧
    (w.entities.get id).isSome ∧ w'.entities.get id = none ∧
    (∀ k l, k ≠ id → w.entities.get k = some l →
      w'.entities.get k = some l ∨ w'.entities.get k = some { l with row := loc.row }) ∧
    (∀ k, k ≠ id → w.entities.get k = none → w'.entities.get k = none) ∧
    0 < w.entities.len ∧ w'.entities.len = w.entities.len - 1 ∧
    (∀ k, Covers w.entities k → Covers w'.entities k) := by
  obtain ⟨hc, hi, v, ents, hrem, hcase⟩ := removeEntity_ok ha hid h
  have wf1 := wf.remove hrem
  have hget := get_remove wf hrem
  have hlen := remove_len wf hrem
  have hlive : (w.entities.get id).isSome := by rw [get_of_remove hrem]; rfl
  rcases hcase with he | ⟨d, l, hd, he⟩
  · rw [he]
    refine ⟨wf1, hc, hi, hlive, by rw [hget]; simp, ?_, ?_, hlen.1, hlen.2, covers_remove wf hrem⟩
    · intro k l hk hl; left; rw [hget, if_neg hk]; exact hl
    · intro k hk hl; rw [hget, if_neg hk]; exact hl
  · rw [he]
    have hdne : d ≠ id := by
      intro e; rw [e, hget] at hd; simp at hd
    refine ⟨wf1.set_reserve (get_odd wf1 hd) _, hc, hi, hlive, ?_, ?_, ?_, hlen.1, by rw [set_len]; exact hlen.2, ?_⟩
    · rw [get_set hd, if_neg (fun e => hdne e.symm), hget]; simp
    · intro k l' hk hl
      rw [get_set hd]
      by_cases hkd : k = d
      · subst hkd
        right
        rw [if_pos rfl]
        rw [hget, if_neg hk, hl] at hd
        cases hd; rfl
      · left; rw [if_neg hkd, hget, if_neg hk]; exact hl
    · intro k hk hl
      rw [get_set hd]
      by_cases hkd : k = d
      · subst hkd; rw [hget, if_neg hk, hl] at hd; cases hd
      · rw [if_neg hkd, hget, if_neg hk]; exact hl
    · intro k hk; rw [covers_set]; exact covers_remove wf hrem k hk

/-- with no reservation pending, `resRefresh` passes its debug assertion and resets the cursor -/
theorem resRefresh_run {w : World} (hc : w.resCount = 0) :
    resRefresh.run.run w = (.ok (), { w with resIndex := w.entities.nextKeyIndex }) := by
  unfold resRefresh
  rw [run_bind, run_get]
  simp only
  rw [run_bind, run_dbgAssert_true _ (Or.inr (by simp [hc]))]
  simp only [run_modify]

/-- with reservations pending and debug assertions on, `resRefresh` fails its assertion -/
theorem resRefresh_assert {w : World} (hc : w.resCount ≠ 0) (hd : w.debug = true) :
    resRefresh.run.run w = (.error (.assert "entity.rs:refresh:count"), w) := by
  have hda : (dbgAssert (w.resCount == 0) "entity.rs:refresh:count").run.run w =
      (.error (.assert "entity.rs:refresh:count"), w) := by
    unfold dbgAssert
    rw [run_bind, run_get]
    have : (w.debug && !(w.resCount == 0)) = true := by simp [hc, hd]
    simp only [this, if_true, run_throw]
  unfold resRefresh
  rw [run_bind, run_get]
  simp only
  rw [run_bind, hda]


/-! ### what handlers can do to the reservations -/

/-- the part of `World.invArch` the spawn path relies on: every archetype is stored at its own index, and the
    archetype at index 0 is the component-less one -/
def ArchOK (ar : Slab Arch) : Prop :=
  (∀ i a, ar.get i = some a → a.index = i) ∧ ∃ a0, ar.get 0 = some a0 ∧ a0.comps = []

/-- handler-phase invariant: the entity map is exactly `ents`, the archetype discipline holds, the id list of every
    archetype is what it was (`ids0`), and the pending reservations extend `ks` -/
def HQ (ents : SlotMap Loc) (ids0 : Nat → Option (List Key)) (ks : List Key) : EView → Prop := fun v =>
  v.entities = ents ∧ (ArchOK v.archs ∧ ∀ i, (v.archs.get i).map (·.ids) = ids0 i) ∧
    ∃ ks', ents.WF ∧ v.resCount = (ks ++ ks').length ∧
      ents.reserveN (ks ++ ks').length ents.nextKeyIndex = .ok (ks ++ ks') v.resIndex

variable {ents : SlotMap Loc} {ids0 : Nat → Option (List Key)} {ks : List Key}

theorem reserve_hq : Keeps (EV_reserve (HQ ents ids0 ks)) reserve := by
  unfold reserve
  refine Keeps.get_bind fun w hw => ?_
  obtain ⟨he, har, ks', wf, hc, hres⟩ := hw
  have he' : w.entities = ents := he
  split
  · rename_i k i' hk
    refine Keeps.bind (Keeps.set ?_) (fun _ => Keeps.pure _)
    refine ⟨he, har, ks' ++ [k], wf, ?_, ?_⟩
    · show w.resCount + 1 = _
      rw [show w.resCount = (ks ++ ks').length from hc]; simp; omega
    · rw [he'] at hk
      have := reserveN_snoc hres hk
      rw [← List.append_assoc, List.length_append, List.length_singleton]
      exact this
  · exact Keeps.throw _
  · exact Keeps.throw _

theorem Slab.set_of_get_none {α : Type} {s : Slab α} {i : Nat} (h : s.get i = none) (a : α) : s.set i a = s := by
  unfold Slab.get at h
  unfold Slab.set
  split at h
  · cases h
  · rfl

theorem archOK_set {ar : Slab Arch} (h : ArchOK ar) {i : Nat} {b : Arch}
    (hidx : b.index = i) (hcomps : i = 0 → b.comps = []) : ArchOK (ar.set i b) := by
  obtain ⟨h1, a0, h0, hc0⟩ := h
  refine ⟨?_, ?_⟩
  · intro j x hx
    rw [Slab.get_set_reserve] at hx
    split at hx
    · rename_i hc; cases hx; rw [hidx]; exact hc.1.symm
    · exact h1 j x hx
  · rw [Slab.get_set_reserve]
    by_cases hc : 0 = i ∧ (ar.get i).isSome
    · rw [if_pos hc]
      exact ⟨b, rfl, hcomps hc.1.symm⟩
    · rw [if_neg hc]; exact ⟨a0, h0, hc0⟩

theorem Keeps.ubErr_bind {α β : Type} {I : World → Prop} (s : String) (f : α → M β) :
    Keeps I ((ubErr s : M α) >>= f) := by
  refine ⟨fun w hw => ?_⟩
  rw [run_bind]
  exact hw

theorem bumpCell_hq (ai row c : Nat) : Keeps (EV_reserve (HQ ents ids0 ks)) (bumpCell ai row c) := by
  unfold bumpCell getArch
  simp only [bind_assoc]
  refine Keeps.get_bind fun w hw => ?_
  cases ha : w.archs.get ai with
  | none => exact Keeps.ubErr_bind _ _
  | some a =>
    simp only [pure_bind]
    have hidx : a.index = ai := hw.2.1.1.1 ai a ha
    have hids : some a.ids = ids0 ai := by
      have := hw.2.1.2 ai
      have ha' : w.eview.archs.get ai = some a := ha
      rw [ha'] at this; exact this
    have hcomps : ai = 0 → a.comps = [] := by
      intro h0
      obtain ⟨a0, h0', hc0⟩ := hw.2.1.1.2
      have h0'' : w.archs.get 0 = some a0 := h0'
      rw [h0, h0''] at ha; cases ha; exact hc0
    split
    · keeps
    · split
      · keeps
      · split
        · keeps
        · unfold setArch
          refine Keeps.modify fun w' hw' => ?_
          obtain ⟨he, ⟨har, hids'⟩, rest⟩ := hw'
          refine ⟨he, ⟨?_, ?_⟩, rest⟩
          · show ArchOK (w'.archs.set a.index _)
            exact archOK_set har rfl (fun h0 => hcomps (hidx.symm.trans h0))
          · intro j
            show ((w'.archs.set a.index _).get j).map (·.ids) = ids0 j
            rw [Slab.get_set_reserve]
            split
            · rename_i hc
              rw [hc.1, hidx]; exact hids
            · exact hids' j

theorem runAct_hq (hk : Key) (it : QItem) (loc : Loc) (act : Act) : Keeps (EV_reserve (HQ ents ids0 ks)) (runAct hk it loc act) := by
  unfold runAct
  have h1 := @reserve_hq ents ids0 ks
  have h2 := @bumpCell_hq ents ids0 ks
  keeps
  all_goals first | exact h1 | exact h2 _ _ _


theorem runHandler_hq (hk : Key) (it : QItem) (loc : Loc) : Keeps (EV_reserve (HQ ents ids0 ks)) (runHandler hk it loc) := by
  unfold runHandler
  have h1 := @runAct_hq ents ids0 ks
  keeps
  all_goals exact h1 _ _ _ _

theorem handlerLoop_hq (it : QItem) (info : EvInfo) (loc : Loc) (hs : List Key) :
    Keeps (EV_reserve (HQ ents ids0 ks)) (handlerLoop it info loc hs) := by
  unfold handlerLoop
  have h1 := @runHandler_hq ents ids0 ks
  keeps
  all_goals exact h1 _ _ _

theorem handlerPhase_hq (it : QItem) (info : EvInfo) (loc : Loc) (hs : List Key) :
    Keeps (EV_reserve (HQ ents ids0 ks)) (handlerPhase it info loc hs) := by
  unfold handlerPhase
  have h1 := @handlerLoop_hq ents ids0 ks
  keeps
  all_goals exact h1 _ _ _ _


/-! ### effects that only relocate entities (`Insert`, `Remove`) -/

/-- invariant of the effects that only relocate entities (`Insert`, `Remove`): the reservations `ks` stay exactly
    as they are and the set of valid ids is `live` -/
def MQ (ks : List Key) (live : Key → Bool) : EView → Prop := fun v =>
  (v.entities.WF ∧ v.resCount = ks.length ∧ v.entities.reserveN ks.length v.entities.nextKeyIndex = .ok ks v.resIndex) ∧
    ∀ k, v.entities.contains k = live k

variable {ks : List Key} {live : Key → Bool}

theorem setLoc_mq (id : Key) (s : String) (f : Loc → Loc) : Keeps (EV_reserve (MQ ks live)) (setLoc id s f) := by
  unfold setLoc
  refine Keeps.get_bind fun w hw => ?_
  split
  · rename_i l hl
    refine Keeps.set ?_
    obtain ⟨⟨wf, hc, hres⟩, hlive⟩ := hw
    refine ⟨⟨?_, hc, ?_⟩, ?_⟩
    · exact WF.set_reserve wf (get_odd wf hl) _
    · show (w.entities.set id (f l)).reserveN _ (w.entities.set id (f l)).nextKeyIndex = _
      rw [reserveN_set, set_nextKeyIndex]; exact hres
    · intro k
      show (w.entities.set id (f l)).contains k = _
      rw [contains_set hl]; exact hlive k
  · keeps

theorem setArch_mq (a : Arch) : Keeps (EV_reserve (MQ ks live)) (setArch a) := by
  unfold setArch
  exact Keeps.modify fun w h => h

theorem registerHandler_mq (a : Arch) (h : HInfo) : Keeps (EV_reserve (MQ ks live)) (a.registerHandler h) := by
  unfold Arch.registerHandler; keeps

theorem newArch_mq (cs : List Nat) (a b : Option (Nat × Nat)) : Keeps (EV_reserve (MQ ks live)) (newArch cs a b) := by
  unfold newArch
  have h1 := @registerHandler_mq ks live
  keeps
  all_goals first | exact h1 _ _


theorem traverseInsert_mq (src c : Nat) : Keeps (EV_reserve (MQ ks live)) (traverseInsert src c) := by
  unfold traverseInsert
  have h1 := @newArch_mq ks live
  have h2 := @setArch_mq ks live
  keeps
  all_goals first | exact h1 _ _ _ | exact h2 _

theorem traverseRemove_mq (src c : Nat) : Keeps (EV_reserve (MQ ks live)) (traverseRemove src c) := by
  unfold traverseRemove
  have h1 := @newArch_mq ks live
  have h2 := @setArch_mq ks live
  keeps
  all_goals first | exact h1 _ _ _ | exact h2 _

theorem moveEntity_mq (src : Loc) (dst : Nat) (new : List (Nat × Cell)) :
    Keeps (EV_reserve (MQ ks live)) (moveEntity src dst new) := by
  unfold moveEntity
  have h1 := @setLoc_mq ks live
  have h2 := @setArch_mq ks live
  keeps
  all_goals first | exact h1 _ _ _ | exact h2 _


/-! ### the steps of the `Despawn` effect -/

/-- the reservation count is not written by `removeEntity`, however it ends -/
theorem removeEntity_resCount (loc : Loc) (w : World) :
    ((removeEntity loc).run.run w).2.resCount = w.resCount := by
  have : Keeps (fun x => x.resCount = w.resCount) (removeEntity loc) := by
    have hq : ∀ {α : Type} (m : M α), (∀ Q, Keeps (EV_reserve Q) m) → Keeps (fun x : World => x.resCount = w.resCount) m :=
      fun m h => h (fun v => v.resCount = w.resCount)
    unfold removeEntity setArch setLoc
    keeps
    all_goals first
      | exact hq _ (fun Q => by keeps)
  exact this.run w rfl

/-- the three steps of the effect, on normal return -/
theorem despawn_run_ok {loc : Loc} {w w' : World}
    (h : (do spawnAll; removeEntity loc; resRefresh : M Unit).run.run w = (.ok (), w')) :
    ∃ w1 w2, spawnAll.run.run w = (.ok (), w1) ∧ (removeEntity loc).run.run w1 = (.ok (), w2) ∧
      resRefresh.run.run w2 = (.ok (), w') := by
  rw [run_bind] at h
  generalize h1 : spawnAll.run.run w = r at h
  obtain ⟨(e|x), w1⟩ := r
  · cases h
  · simp only at h
    rw [run_bind] at h
    generalize h2 : (removeEntity loc).run.run w1 = r at h
    obtain ⟨(e|y), w2⟩ := r
    · cases h
    · exact ⟨w1, w2, rfl, h2, h⟩


/-! ### small run equations used by the `World::spawn` / `Sender::spawn` theorems -/

/-- `addGlobalEvent` of an already registered (non-`AddGlobalEvent`) type only looks the id up -/
theorem addGlobalEvent_registered {w : World} {ty : EvTy} {gk : Key} {gi : EvInfo} (hty : ty ≠ .addG)
    (hreg : w.gevOfTy ty = some (gk, gi)) : (addGlobalEvent ty).run.run w = (.ok gk, w) := by
  unfold addGlobalEvent
  have : (ty == EvTy.addG) = false := by simp [hty]
  rw [this]
  simp only [Bool.false_eq_true, if_false]
  rw [run_bind, run_get]
  simp only [hreg, run_pure]


/-- an entry listed by `toList` is the entry `getByIndex` finds at its index -/
theorem SlotMap.getByIndex_of_mem_toList {α : Type} {sm : SlotMap α} {k : Key} {v : α} (h : (k, v) ∈ sm.toList) :
    sm.getByIndex k.idx = some (k, v) := by
  unfold SlotMap.toList at h
  simp only [List.mem_filterMap, List.mem_zipIdx_iff_getElem?, Prod.exists] at h
  obtain ⟨s, i, hs, hf⟩ := h
  by_cases he : s.gen % 2 = 0
  · simp [he] at hf
  · simp only [he, if_false, Option.map_eq_some_iff] at hf
    obtain ⟨v', hv, heq⟩ := hf
    cases heq
    unfold SlotMap.getByIndex
    simp [hs, he, hv]

theorem gevOfTy_getByIndex {w : World} {ty : EvTy} {gk : Key} {gi : EvInfo} (h : w.gevOfTy ty = some (gk, gi)) :
    w.gevs.getByIndex gk.idx = some (gk, gi) :=
  SlotMap.getByIndex_of_mem_toList (List.mem_of_find?_eq_some h)


theorem takeBudget_run (w : World) :
    takeBudget.run.run w = if w.budget = 0 then (.ok false, w) else (.ok true, { w with budget := w.budget - 1 }) := by
  unfold takeBudget
  rw [run_bind, run_get]
  simp only
  split
  · rfl
  · rfl


end Evenio
