import Evenio.Proofs.Keeps
/-! `deliverOne` split into its phases (registry lookup, handler loop, reversal of the pushed segment, built-in
    effect), and two facts about the queue:
    * the lookup and the built-in effect do not touch the queue — nor the event ledger, the log, the send budget, the
      serial counters (`EF`): the built-in effect sends nothing and destroys no event;
    * handlers only ever append to the queue (`PFX`). -/
namespace Evenio

/-- registry lookup and handler-list selection of `deliverOne`, verbatim -/
def lookupPhase (it : QItem) (w : World) : M (EvInfo × Option (List Key) × Loc) := do
  if it.ty.targeted then
    let some (_, info) := w.tevs.getByIndex it.idx | ubErr "world.rs:flush:targeted_events.get_by_index"
    match w.entities.get it.target with
    | none => pure (info, none, Loc.NULL)
    | some loc =>
      let a ← getArch loc.arch "world.rs:flush:archetypes.get"
      pure (info, some ((a.listeners.get it.idx).map (·.entries) |>.getD []), loc)
  else
    let some (_, info) := w.gevs.getByIndex it.idx | ubErr "world.rs:flush:global_events.get_by_index"
    let some l := w.byGlobal[it.idx]? | ubErr "world.rs:flush:get_global_list"
    pure (info, some l.entries, Loc.NULL)

/-- the handler loop of `deliverOne`, verbatim: returns whether a handler took ownership. The unwinding handler is
    the first half of `EventDropper::drop`: the in-flight event is dropped unless a handler owns it. -/
def handlerLoop (it : QItem) (info : EvInfo) (loc : Loc) (hs : List Key) : M Bool :=
  forIn hs false fun hk owned =>
    if (!owned) = true then do
      let r ← tryCatch (runHandler hk it loc) fun e => do
        match e with
        | .panic _ => if !(← get).inflightOwned && info.needsDrop then dropEvent it
        | _ => pure ()
        throw e
      pure (ForInStep.yield r)
    else pure (ForInStep.yield owned)

/-- the handler phase: clear the ownership flag of the event in flight, run the handler loop -/
def handlerPhase (it : QItem) (info : EvInfo) (loc : Loc) (hs : List Key) : M Bool := do
  modify fun w => { w with inflightOwned := false }
  handlerLoop it info loc hs

/-- the built-in effect of `deliverOne`, verbatim -/
def effectPhase (it : QItem) (info : EvInfo) (loc : Loc) : M Unit :=
  match info.kind with
  | .normal => if info.needsDrop then dropEvent it else pure ()
  | .insert c => do
    dbgAssert (loc != Loc.NULL) "world.rs:flush:insert:location"
    let dst ← traverseInsert loc.arch c
    moveEntity loc dst [(c, it.pay.cell)]
  | .remove c => do
    let dst ← traverseRemove loc.arch c
    moveEntity loc dst []
  | .spawn => spawnAll
  | .despawn => do
    spawnAll
    removeEntity loc
    resRefresh

theorem deliverOne_phases (it : QItem) :
    deliverOne it = (do
      let w ← get
      let (info, hs, loc) ← lookupPhase it w
      match hs with
      | none => if info.needsDrop then dropEvent it else pure ()
      | some hs => do
        modify fun w => { w with inflightOwned := false }
        let owned ← handlerLoop it info loc hs
        modify fun w => { w with queue := w.queue.reverse }
        if owned then pure () else effectPhase it info loc) := by
  rfl

theorem handlerPhase_run (it : QItem) (info : EvInfo) (loc : Loc) (hs : List Key) (w : World) :
    (handlerPhase it info loc hs).run.run w =
      (handlerLoop it info loc hs).run.run { w with inflightOwned := false } := by
  unfold handlerPhase
  rw [run_bind, run_modify]

/-- `deliverOne`, phase by phase, in `run.run` form: lookup; if the target is dead, drop the event; otherwise handler
    phase, reversal of the pushed segment, and — unless a handler took the event — the built-in effect. -/
theorem deliverOne_run (it : QItem) (w : World) :
    (deliverOne it).run.run w =
      match (lookupPhase it w).run.run w with
      | (.error e, w1) => (.error e, w1)
      | (.ok (info, none, _), w1) => (if info.needsDrop then dropEvent it else pure () : M Unit).run.run w1
      | (.ok (info, some hs, loc), w1) =>
        match (handlerPhase it info loc hs).run.run w1 with
        | (.error e, wh) => (.error e, wh)
        | (.ok owned, wh) =>
          if owned then (.ok (), { wh with queue := wh.queue.reverse })
          else (effectPhase it info loc).run.run { wh with queue := wh.queue.reverse } := by
  rw [deliverOne_phases, run_bind, run_get]
  simp only
  rw [run_bind]
  generalize (lookupPhase it w).run.run w = r
  obtain ⟨(e|⟨info, hs, loc⟩), w1⟩ := r
  · rfl
  · cases hs with
    | none => rfl
    | some hs =>
      simp only
      rw [run_bind, run_modify, handlerPhase_run]
      simp only
      rw [run_bind]
      generalize (handlerLoop it info loc hs).run.run { w1 with inflightOwned := false } = r
      obtain ⟨(e|owned), wh⟩ := r
      · rfl
      · simp only
        rw [run_bind, run_modify]
        cases owned <;> rfl

/-! ### what the lookup and the built-in effect leave alone -/

/-- fields never assigned by the lookup phase and by the built-in effects `Insert`/`Remove`/`Spawn`/`Despawn` -/
structure EffFrame where
  queue : List QItem
  edrops : List Nat
  out : Array String
  budget : Nat
  nextESerial : Nat
  nextCSerial : Nat
  ords : Array Key
  arenaCount : Nat
  inflightOwned : Bool

def World.effFrame (w : World) : EffFrame :=
  ⟨w.queue, w.edrops, w.out, w.budget, w.nextESerial, w.nextCSerial, w.ords, w.arenaCount, w.inflightOwned⟩

abbrev EF (ef : EffFrame) : World → Prop := fun w => w.effFrame = ef

section eff
variable {ef : EffFrame}
theorem ubErr_ef {α : Type} (s : String) : Keeps (EF ef) ((ubErr s : M α)) := by unfold ubErr; keeps
macro_rules | `(tactic| keeps_leaf) => `(tactic| exact ubErr_ef _)
theorem dbgAssert_ef (c : Bool) (s : String) : Keeps (EF ef) (dbgAssert c s) := by unfold dbgAssert; keeps
macro_rules | `(tactic| keeps_leaf) => `(tactic| exact dbgAssert_ef _ _)
theorem dropCell_ef (ty : Nat) (c : Cell) : Keeps (EF ef) (dropCell ty c) := by unfold dropCell; keeps
macro_rules | `(tactic| keeps_leaf) => `(tactic| exact dropCell_ef _ _)
theorem dropCellIdx_ef (ty : Nat) (c : Cell) : Keeps (EF ef) (dropCellIdx ty c) := by unfold dropCellIdx; keeps
macro_rules | `(tactic| keeps_leaf) => `(tactic| exact dropCellIdx_ef _ _)
theorem handlerRefresh_ef (hk : Key) (a : Arch) : Keeps (EF ef) (handlerRefresh hk a) := by unfold handlerRefresh; keeps
macro_rules | `(tactic| keeps_leaf) => `(tactic| exact handlerRefresh_ef _ _)
theorem handlerRemoveArch_ef (hk : Key) (a : Arch) : Keeps (EF ef) (handlerRemoveArch hk a) := by unfold handlerRemoveArch; keeps
macro_rules | `(tactic| keeps_leaf) => `(tactic| exact handlerRemoveArch_ef _ _)
theorem getArch_ef (i : Nat) (s : String) : Keeps (EF ef) (getArch i s) := by unfold getArch; keeps
macro_rules | `(tactic| keeps_leaf) => `(tactic| exact getArch_ef _ _)
theorem setArch_ef (a : Arch) : Keeps (EF ef) (setArch a) := by unfold setArch; keeps
macro_rules | `(tactic| keeps_leaf) => `(tactic| exact setArch_ef _)
theorem freshEpoch_ef  : Keeps (EF ef) (freshEpoch) := by unfold freshEpoch; keeps
macro_rules | `(tactic| keeps_leaf) => `(tactic| exact freshEpoch_ef)
theorem registerHandler_ef (a : Arch) (h : HInfo) : Keeps (EF ef) (a.registerHandler h) := by unfold Arch.registerHandler; keeps
macro_rules | `(tactic| keeps_leaf) => `(tactic| exact registerHandler_ef _ _)
theorem archSpawn_ef (id : Key) : Keeps (EF ef) (archSpawn id) := by unfold archSpawn; keeps
macro_rules | `(tactic| keeps_leaf) => `(tactic| exact archSpawn_ef _)
theorem spawnAll_ef  : Keeps (EF ef) (spawnAll) := by unfold spawnAll; keeps
macro_rules | `(tactic| keeps_leaf) => `(tactic| exact spawnAll_ef)
theorem resRefresh_ef  : Keeps (EF ef) (resRefresh) := by unfold resRefresh; keeps
macro_rules | `(tactic| keeps_leaf) => `(tactic| exact resRefresh_ef)
theorem setLoc_ef (id : Key) (s : String) (f : Loc → Loc) : Keeps (EF ef) (setLoc id s f) := by unfold setLoc; keeps
macro_rules | `(tactic| keeps_leaf) => `(tactic| exact setLoc_ef _ _ _)
theorem newArch_ef (cs : List Nat) (a b : Option (Nat × Nat)) : Keeps (EF ef) (newArch cs a b) := by unfold newArch; keeps
macro_rules | `(tactic| keeps_leaf) => `(tactic| exact newArch_ef _ _ _)
theorem traverseInsert_ef (src c : Nat) : Keeps (EF ef) (traverseInsert src c) := by unfold traverseInsert; keeps
macro_rules | `(tactic| keeps_leaf) => `(tactic| exact traverseInsert_ef _ _)
theorem traverseRemove_ef (src c : Nat) : Keeps (EF ef) (traverseRemove src c) := by unfold traverseRemove; keeps
macro_rules | `(tactic| keeps_leaf) => `(tactic| exact traverseRemove_ef _ _)
theorem moveEntity_ef (src : Loc) (dst : Nat) (new : List (Nat × Cell)) : Keeps (EF ef) (moveEntity src dst new) := by unfold moveEntity; keeps
macro_rules | `(tactic| keeps_leaf) => `(tactic| exact moveEntity_ef _ _ _)
theorem removeEntity_ef (loc : Loc) : Keeps (EF ef) (removeEntity loc) := by unfold removeEntity; keeps
macro_rules | `(tactic| keeps_leaf) => `(tactic| exact removeEntity_ef _)
theorem lookupPhase_ef (it : QItem) (w : World) : Keeps (EF ef) (lookupPhase it w) := by unfold lookupPhase; keeps
macro_rules | `(tactic| keeps_leaf) => `(tactic| exact lookupPhase_ef _ _)
end eff

/-! ### handlers only append to the queue -/

/-- the queue extends `q` -/
abbrev PFX (q : List QItem) : World → Prop := fun w => q <+: w.queue

section pfx
variable {q : List QItem}

theorem push_pfx (it : QItem) : Keeps (PFX q) (push it) :=
  ⟨fun w h => by
    show q <+: w.queue ++ [it]
    exact h.trans (List.prefix_append _ _)⟩
macro_rules | `(tactic| keeps_leaf) => `(tactic| exact push_pfx _)
theorem logT_pfx (s : String) : Keeps (PFX q) (logT s) := by unfold logT; keeps
macro_rules | `(tactic| keeps_leaf) => `(tactic| exact logT_pfx _)
theorem ubErr_pfx {α : Type} (s : String) : Keeps (PFX q) ((ubErr s : M α)) := by unfold ubErr; keeps
macro_rules | `(tactic| keeps_leaf) => `(tactic| exact ubErr_pfx _)
theorem dbgAssert_pfx (c : Bool) (s : String) : Keeps (PFX q) (dbgAssert c s) := by unfold dbgAssert; keeps
macro_rules | `(tactic| keeps_leaf) => `(tactic| exact dbgAssert_pfx _ _)
theorem dropCell_pfx (ty : Nat) (c : Cell) : Keeps (PFX q) (dropCell ty c) := by unfold dropCell; keeps
macro_rules | `(tactic| keeps_leaf) => `(tactic| exact dropCell_pfx _ _)
theorem dropEvent_pfx (it : QItem) : Keeps (PFX q) (dropEvent it) := by unfold dropEvent; keeps
macro_rules | `(tactic| keeps_leaf) => `(tactic| exact dropEvent_pfx _)
theorem getArch_pfx (i : Nat) (s : String) : Keeps (PFX q) (getArch i s) := by unfold getArch; keeps
macro_rules | `(tactic| keeps_leaf) => `(tactic| exact getArch_pfx _ _)
theorem setArch_pfx (a : Arch) : Keeps (PFX q) (setArch a) := by unfold setArch; keeps
macro_rules | `(tactic| keeps_leaf) => `(tactic| exact setArch_pfx _)
theorem reserve_pfx  : Keeps (PFX q) (reserve) := by unfold reserve; keeps
macro_rules | `(tactic| keeps_leaf) => `(tactic| exact reserve_pfx)
theorem takeBudget_pfx  : Keeps (PFX q) (takeBudget) := by unfold takeBudget; keeps
macro_rules | `(tactic| keeps_leaf) => `(tactic| exact takeBudget_pfx)
theorem freshE_pfx  : Keeps (PFX q) (freshE) := by unfold freshE; keeps
macro_rules | `(tactic| keeps_leaf) => `(tactic| exact freshE_pfx)
theorem freshC_pfx  : Keeps (PFX q) (freshC) := by unfold freshC; keeps
macro_rules | `(tactic| keeps_leaf) => `(tactic| exact freshC_pfx)
theorem senderPush_pfx (h : HInfo) (it : QItem) : Keeps (PFX q) (senderPush h it) := by unfold senderPush; keeps
macro_rules | `(tactic| keeps_leaf) => `(tactic| exact senderPush_pfx _ _)
theorem paramRows_pfx (p : Param) : Keeps (PFX q) (paramRows p) := by unfold paramRows; keeps
macro_rules | `(tactic| keeps_leaf) => `(tactic| exact paramRows_pfx _)
theorem itemAt_pfx (st : AS) (a : Arch) (row : Nat) : Keeps (PFX q) (itemAt st a row) := by unfold itemAt; keeps
macro_rules | `(tactic| keeps_leaf) => `(tactic| exact itemAt_pfx _ _ _)
theorem paramGet_pfx (p : Param) (id : Key) : Keeps (PFX q) (paramGet p id) := by unfold paramGet; keeps
macro_rules | `(tactic| keeps_leaf) => `(tactic| exact paramGet_pfx _ _)
theorem bumpCell_pfx (ai row c : Nat) : Keeps (PFX q) (bumpCell ai row c) := by unfold bumpCell; keeps
macro_rules | `(tactic| keeps_leaf) => `(tactic| exact bumpCell_pfx _ _ _)
theorem getParam_pfx (h : HInfo) (p : Nat) : Keeps (PFX q) (getParam h p) := by unfold getParam; keeps
macro_rules | `(tactic| keeps_leaf) => `(tactic| exact getParam_pfx _ _)
theorem runAct_pfx (hk : Key) (it : QItem) (loc : Loc) (act : Act) : Keeps (PFX q) (runAct hk it loc act) := by unfold runAct; keeps
macro_rules | `(tactic| keeps_leaf) => `(tactic| exact runAct_pfx _ _ _ _)
theorem runHandler_pfx (hk : Key) (it : QItem) (loc : Loc) : Keeps (PFX q) (runHandler hk it loc) := by unfold runHandler; keeps
macro_rules | `(tactic| keeps_leaf) => `(tactic| exact runHandler_pfx _ _ _)
theorem handlerLoop_pfx (it : QItem) (info : EvInfo) (loc : Loc) (hs : List Key) : Keeps (PFX q) (handlerLoop it info loc hs) := by unfold handlerLoop; keeps
macro_rules | `(tactic| keeps_leaf) => `(tactic| exact handlerLoop_pfx _ _ _ _)
theorem handlerPhase_pfx (it : QItem) (info : EvInfo) (loc : Loc) (hs : List Key) : Keeps (PFX q) (handlerPhase it info loc hs) := by unfold handlerPhase; keeps
macro_rules | `(tactic| keeps_leaf) => `(tactic| exact handlerPhase_pfx _ _ _ _)
end pfx

end Evenio
