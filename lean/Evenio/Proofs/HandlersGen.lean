import Evenio.Generated.HandlersGen
import Evenio.Proofs.SlotMapGen
import Evenio.Proofs.HandlerListGen
import Evenio.Model.World
/-! The functions regenerated from `/repo/src/handler.rs` by `tools/rs2lean` (`Evenio.Gen.Handlers.*`:
    `Handlers::{remove, register_event, get_global_list, get, get_by_index, contains}`) against the registry part of the world
    model (`Model/World.lean`: `handlers : SlotMap HInfo`, `byGlobal`, `byInsertOrder`, and what `removeHandler` does to them).

    The translated record `Gen.Handlers.Handlers` has the fields of the Rust struct; `by_insert_order : BTreeMap<u64, ptr>` and
    `by_type_id : TypeIdMap<ptr>` are association lists (`List (Nat × Key)`, the order of the list is the order of the keys —
    insertion counters only grow).  The world model keeps `byInsertOrder : List Key` (the values, in counter order) and no
    `by_type_id` (it looks the type id up in `handlers`); `remove_by_insert_order` states the projection.
    `Handlers::add` is NOT translated: the translator rejects it at `assert!(self.by_type_id.insert(type_id, ptr).is_none())`
    (a side effect inside an assertion; it is an `assert!`, so the effect exists in every build, but a translation that skips
    assertions would drop it), and the closure handed to `insert_with` (writes through a raw pointer, changes
    `self.by_global_event`) is outside the subset anyway.
    The slot-map functions called are the translated ones of `SlotMapGen`, `HandlerList::remove` the one of `HandlerListGen`.
    Core Lean only. -/
namespace Evenio
namespace HandlersGen
open Rs2Lean Gen.Handlers

private theorem key_beq_iff (a b : Key) : (a == b) = true ↔ a = b := by
  cases a; cases b
  show instBEqKey.beq _ _ = true ↔ _
  simp [instBEqKey.beq]

private theorem key_bne_self (k : Key) : (k != k) = false := by
  simp [bne, (key_beq_iff k k).2 rfl]

private theorem key_bne_of_ne {a b : Key} (h : a ≠ b) : (a != b) = true := by
  simp only [bne]
  cases hb : a == b
  · rfl
  · exact absurd ((key_beq_iff a b).1 hb) h

/-- `Handlers::remove` in terms of the hand model's functions -/
def removeModel (g : Handlers) (k : Key) : Handlers × Option HInfo :=
  match g.infos.remove k with
  | none => (g, none)
  | some (h, infos) =>
    ({ infos,
       by_global_event :=
         if h.recv.targeted then g.by_global_event else
           match g.by_global_event[h.recvIdx]? with
           | some l => g.by_global_event.set h.recvIdx (l.remove h.key)
           | none => g.by_global_event,
       by_type_id := match h.tid with
         | some t => g.by_type_id.filter (·.1 != t)
         | none => g.by_type_id,
       insert_counter := g.insert_counter,
       by_insert_order := g.by_insert_order.filter (·.1 != h.order) }, some h)

/-- the translated `Handlers::remove`: the slot map's `remove`; for a global receiver the handler leaves the event's list; the
    type id and the insertion counter leave their maps; `insert_counter` stays (precondition as for `SlotMapGen.remove_eq`) -/
theorem remove_eq (g : Handlers) (k : Key)
    (hv : ∀ s, g.infos.slots[k.idx]? = some s → s.gen = k.gen → s.val.isSome) :
    remove g k = removeModel g k := by
  simp only [remove, removeModel, SlotMapGen.remove_eq g.infos k hv, hinfoRecv, optUnwrap, vecGet, vecSet,
    gen_remove_eq]
  cases g.infos.remove k with
  | none => rfl
  | some p =>
    obtain ⟨h, infos⟩ := p
    simp only [SlotMapGen.asGen]
    cases h3 : h.recv.targeted <;> cases h4 : h.tid <;> simp <;>
      (cases h5 : g.by_global_event[h.recvIdx]? <;> simp [h5, List.set_eq_of_length_le, List.getElem?_eq_none_iff.1])
    all_goals (try (rw [List.set_eq_of_length_le (List.getElem?_eq_none_iff.1 h5)]))

/-- … on a well-formed slot map, for ids as Rust builds them -/
theorem remove_eq_wf {g : Handlers} (wf : g.infos.WF) {k : Key} (hk : k.gen % 2 = 1) : remove g k = removeModel g k :=
  remove_eq g k fun s hs hg => (wf.valIff k.idx s hs).2 (hg ▸ hk)

/-- the `byGlobal` update of the world model's `removeHandler`, verbatim (`h.key = k` for the handler stored under `k`) -/
theorem remove_by_global {g : Handlers} {k : Key} {h : HInfo} {infos : SlotMap HInfo}
    (hr : g.infos.remove k = some (h, infos)) (hk : h.key = k) :
    (removeModel g k).1.by_global_event =
      (if h.recv.targeted then g.by_global_event else
        match g.by_global_event[h.recvIdx]? with
        | some l => g.by_global_event.set h.recvIdx (l.remove k)
        | none => g.by_global_event) := by
  simp only [removeModel, hr, hk]

/-- the `byInsertOrder` update of the world model's `removeHandler` (`filter (· != k)` on the values), provided the map pairs
    the handler's counter with its key and with nothing else -/
theorem remove_by_insert_order {g : Handlers} {k : Key} {h : HInfo} {infos : SlotMap HInfo}
    (hr : g.infos.remove k = some (h, infos))
    (hord : ∀ p ∈ g.by_insert_order, (p.1 = h.order ↔ p.2 = k)) :
    (removeModel g k).1.by_insert_order.map (·.2) = (g.by_insert_order.map (·.2)).filter (· != k) := by
  simp only [removeModel, hr]
  generalize g.by_insert_order = l at hord
  induction l with
  | nil => rfl
  | cons p l ih =>
    have hp := hord p (List.mem_cons_self ..)
    have hl : ∀ q ∈ l, (q.1 = h.order ↔ q.2 = k) := fun q hq => hord q (List.mem_cons_of_mem _ hq)
    by_cases h1 : p.1 = h.order
    · have h2 : p.2 = k := hp.1 h1
      simp [h1, h2, ih hl, key_bne_self]
    · have h2 : p.2 ≠ k := fun e => h1 (hp.2 e)
      simp [h1, key_bne_of_ne h2, ih hl]

/-- the translated `Handlers::get` is the slot map's `get` -/
theorem get_eq (g : Handlers) (k : Key) : Gen.Handlers.get g k = g.infos.get k := by
  simp only [Gen.Handlers.get, SlotMapGen.get_eq]

/-- the translated `Handlers::contains` compares index AND generation: it is the slot map's `contains` -/
theorem contains_eq (g : Handlers) (k : Key) : Gen.Handlers.contains g k = g.infos.contains k := by
  simp only [Gen.Handlers.contains, get_eq, SlotMap.contains]

/-- the translated `Handlers::get_by_index` is the value part of the slot map's `getByIndex` -/
theorem get_by_index_eq (g : Handlers) (i : Nat) : get_by_index g i = (g.infos.getByIndex i).map (·.2) := by
  simp only [get_by_index, SlotMapGen.getByIndex_eq]

/-- the translated `Handlers::register_event` grows `by_global_event` with empty lists up to the index -/
theorem register_event_eq (g : Handlers) (i : Nat) :
    register_event g i =
      if i ≥ g.by_global_event.length then
        { g with by_global_event := g.by_global_event ++ List.replicate (i + 1 - g.by_global_event.length) {} }
      else g := by
  simp only [register_event, vecLen, vecResize]
  split
  · rename_i h
    rw [List.take_of_length_le (by omega)]
    rfl
  · rfl

theorem get_global_list_eq (g : Handlers) (i : Nat) : get_global_list g i = g.by_global_event[i]? := rfl

end HandlersGen
end Evenio
