import Evenio.Proofs.SlotMap
/-!
# C03 — entity ids (generational slot map)

> "Every id returned by spawning differs from every id returned earlier in that world … stays valid
> until that entity is despawned. The id of a despawned entity never becomes valid again, even when
> its storage slot is recycled up to the generation limit, and the live-entity count always equals
> the entities created minus those removed."

All theorems quantify over EVERY finite history of `insertWith` / `remove` calls starting from
`SlotMap.empty` (`run ops`, induction over the operation list, no bound on its length), at the real
constants `U32MAX = 2^32 - 1`, `GENMOD = 2^32`.

* `(run ops).issued`  : every key returned by `insertWith`, oldest first;
* `(run ops).removed` : every key for which `remove` succeeded, oldest first.

The model definitions are in `Evenio/Model/SlotMap.lean`, the invariant and helper lemmas in
`Evenio/Proofs/SlotMap.lean`.
-/
namespace Evenio
open SlotMap
variable {α : Type}

/-! ## Well-formedness -/

/-- The representation invariant holds after every history. -/
theorem wf_reachable (ops : List (SMOp α)) : (run ops).sm.WF := (inv_run ops).wf

/-- Every issued key is a valid `Key`: odd (so non-zero) generation `< 2^32`, index `< u32::MAX`
    (never `Key::NULL`). -/
theorem issued_valid (ops : List (SMOp α)) :
    ∀ k ∈ (run ops).issued, k.gen % 2 = 1 ∧ k.gen < GENMOD ∧ k.idx < U32MAX := (inv_run ops).valid

/-- After every history the free list is a finite duplicate-free chain of in-range, vacant,
    non-retired slots ending in `u32::MAX`; in particular a retired slot is never on it. -/
theorem free_list_sound (ops : List (SMOp α)) :
    ∃ fl, Chain (run ops).sm.slots (run ops).sm.nextFree fl ∧ fl.Nodup ∧
      ∀ i ∈ fl, i < (run ops).sm.slots.length ∧ i ≠ U32MAX ∧ ¬ (run ops).sm.Retired i ∧
        ∃ s, (run ops).sm.slots[i]? = some s ∧ s.gen % 2 = 0 ∧ s.val = none :=
  (wf_reachable ops).free_list

/-! ## Freshness -/

/-- Issued keys in chronological order: a later key that reuses an index has a strictly larger
    generation. -/
theorem issued_gen_increasing (ops : List (SMOp α)) :
    (run ops).issued.Pairwise (fun a b => a.idx = b.idx → a.gen < b.gen) := (inv_run ops).mono

/-- No key is ever returned twice (covers slot reuse and retirement at the generation limit). -/
theorem issued_nodup (ops : List (SMOp α)) : (run ops).issued.Nodup := by
  refine (issued_gen_increasing ops).imp ?_
  intro a b h e
  subst e
  exact Nat.lt_irrefl _ (h rfl)

/-- The key returned by the next `insertWith` (any initialiser `f`) differs from every key issued
    earlier in the history. -/
theorem keys_fresh (ops : List (SMOp α)) (f : Key → α) {k : Key} {sm' : SlotMap α}
    (h : (run ops).sm.insertWith f = some (k, sm')) : k ∉ (run ops).issued := by
  intro hm
  have inv := inv_run ops
  have := (insertWith_key inv.wf h).2.2.2.2.2 k (inv.covered k hm) rfl
  exact Nat.lt_irrefl _ this

/-- The same at the level of histories: appending an insert appends a key that was not issued before. -/
theorem keys_fresh_step (ops : List (SMOp α)) (v : α) :
    (run (ops ++ [.ins v])).issued = (run ops).issued ∨
    ∃ k, (run (ops ++ [.ins v])).issued = (run ops).issued ++ [k] ∧ k ∉ (run ops).issued := by
  have hstep : run (ops ++ [.ins v]) = (run ops).insStep (fun _ => v) := run_snoc ops _
  cases h : (run ops).sm.insertWith (fun _ => v) with
  | none => left; rw [hstep, Trace.insStep_none h]
  | some r =>
    obtain ⟨k, sm'⟩ := r
    right
    exact ⟨k, by rw [hstep, Trace.insStep_some h], keys_fresh ops _ h⟩

/-! ## Validity -/

/-- A key is valid exactly when it was issued and has not been removed. -/
theorem get_iff_live (ops : List (SMOp α)) (k : Key) :
    ((run ops).sm.get k).isSome ↔ (k ∈ (run ops).issued ∧ k ∉ (run ops).removed) :=
  (inv_run ops).live k

theorem contains_iff_live (ops : List (SMOp α)) (k : Key) :
    (run ops).sm.contains k = true ↔ (k ∈ (run ops).issued ∧ k ∉ (run ops).removed) :=
  get_iff_live ops k

/-- An issued id stays valid until it is removed. -/
theorem valid_until_removed (ops : List (SMOp α)) {k : Key}
    (hi : k ∈ (run ops).issued) (hr : k ∉ (run ops).removed) : (run ops).sm.contains k = true :=
  (contains_iff_live ops k).2 ⟨hi, hr⟩

/-- Only issued keys are ever removed, each at most once. -/
theorem removed_subset_issued (ops : List (SMOp α)) :
    (∀ k ∈ (run ops).removed, k ∈ (run ops).issued) ∧ (run ops).removed.Nodup :=
  ⟨(inv_run ops).remSub, (inv_run ops).remNodup⟩

/-- Once removed, a key is invalid after every continuation of the history. -/
theorem removed_never_valid (ops more : List (SMOp α)) {k : Key} (h : k ∈ (run ops).removed) :
    (run (ops ++ more)).sm.contains k = false := by
  have hp : (run ops).removed <+: (run (ops ++ more)).removed := by
    rw [run_append]; exact Trace.runFrom_removed_prefix _ _
  have hm : k ∈ (run (ops ++ more)).removed := hp.subset h
  cases hc : (run (ops ++ more)).sm.contains k with
  | false => rfl
  | true => exact absurd hm ((contains_iff_live _ k).1 hc).2

/-- Once removed, a key is never returned by a later insert. -/
theorem removed_never_reissued (ops more : List (SMOp α)) {k : Key} (h : k ∈ (run ops).removed) :
    ∃ ext, (run (ops ++ more)).issued = (run ops).issued ++ ext ∧ k ∉ ext := by
  have hp : (run ops).issued <+: (run (ops ++ more)).issued := by
    rw [run_append]; exact Trace.runFrom_issued_prefix _ _
  obtain ⟨ext, hext⟩ := hp
  refine ⟨ext, hext.symm, ?_⟩
  intro hk
  have nd := issued_nodup (ops ++ more)
  rw [← hext] at nd
  exact (List.nodup_append.1 nd).2.2 k ((inv_run ops).remSub k h) k hk rfl

/-! ## Count -/

/-- `len` plus the number of removals is the number of insertions. -/
theorem len_add_removed (ops : List (SMOp α)) :
    (run ops).sm.len + (run ops).removed.length = (run ops).issued.length := (inv_run ops).lenEq

/-- The live count equals the entities created minus those removed. -/
theorem len_eq (ops : List (SMOp α)) :
    (run ops).sm.len = (run ops).issued.length - (run ops).removed.length := by
  have := len_add_removed ops; omega

/-- `len` never exceeds `u32::MAX`, so the `u32` counter cannot overflow, and `len -= 1` in `remove`
    is never applied at 0. -/
theorem len_bounds (ops : List (SMOp α)) : (run ops).sm.len ≤ U32MAX := by
  have wf := wf_reachable ops
  rw [wf.lenEq]
  exact Nat.le_trans List.countP_le_length wf.size

/-! ## Generation limit -/

/-- Removing a key at generation `u32::MAX` (4294967295) retires the slot: in every continuation the
    index is never handed out again (and the free-list head is untouched). Holds from any well-formed
    state, in particular any reachable one. -/
theorem wrap_retires {t : Trace α} (wf : t.sm.WF) {k : Key} (hk : k.gen = 4294967295) {v : α}
    {sm' : SlotMap α} (h : t.sm.remove k = some (v, sm')) (more : List (SMOp α)) :
    sm'.nextFree = t.sm.nextFree ∧
    ∃ ext, ((t.step (.rem k)).runFrom more).issued = t.issued ++ ext ∧ ∀ k' ∈ ext, k'.idx ≠ k.idx := by
  obtain ⟨hr, hnf⟩ := remove_max_retires wf h hk
  refine ⟨hnf, ?_⟩
  have hs : t.step (.rem k) = _ := Trace.remStep_some (t := t) h
  have wf' : (t.step (.rem k)).sm.WF := Trace.wf_step wf _
  have hr' : (t.step (.rem k)).sm.Retired k.idx := by rw [hs]; exact hr
  obtain ⟨_, ext, he, hn⟩ := Trace.retired_runFrom wf' hr' more
  exact ⟨ext, by rw [he, hs], hn⟩

/-- In a reachable history: after a key of generation `u32::MAX` is issued, no later key has its index. -/
theorem wrap_retires_reachable (ops : List (SMOp α)) :
    (run ops).issued.Pairwise (fun a b => a.gen = 4294967295 → b.idx ≠ a.idx) := by
  have hv := issued_valid ops
  have hp := issued_gen_increasing ops
  generalize (run ops).issued = l at hv hp
  induction l with
  | nil => exact List.Pairwise.nil
  | cons a l ih =>
    rw [List.pairwise_cons] at hp ⊢
    refine ⟨?_, ih (fun k hk => hv k (List.mem_cons_of_mem _ hk)) hp.2⟩
    intro b hb ha e
    have h1 := hp.1 b hb e.symm
    have h2 := (hv b (List.mem_cons_of_mem _ hb)).2.1
    simp only [GENMOD] at h2
    omega

/-- A concrete well-formed state one step before the limit: slot 0 occupied at generation 4294967295. -/
def nearWrap : SlotMap Unit :=
  { slots := [⟨4294967295, U32MAX, some ()⟩], nextFree := U32MAX, len := 1 }

theorem nearWrap_wf : nearWrap.WF := by
  refine ⟨?_, ?_, ⟨[], rfl, List.nodup_nil⟩, by decide, by decide⟩
  · intro i s h
    cases i with
    | zero => simp [nearWrap] at h; subst h; decide
    | succ i => simp [nearWrap] at h
  · intro i s h
    cases i with
    | zero => simp [nearWrap] at h; subst h; decide
    | succ i => simp [nearWrap] at h

/-- Closed example at the wrap: removing `0v4294967295` leaves slot 0 at generation 0 and off the free
    list; the key is invalid; the next inserts get `1v1`, `2v1`, never index 0; the predictor agrees. -/
example :
    (nearWrap.remove ⟨0, 4294967295⟩).map (fun r => (r.2.slots.map (·.gen), r.2.nextFree, r.2.len))
      = some ([0], U32MAX, 0) ∧
    (nearWrap.remove ⟨0, 4294967295⟩).map (fun r => r.2.contains ⟨0, 4294967295⟩) = some false ∧
    ((nearWrap.remove ⟨0, 4294967295⟩).bind fun r =>
        (r.2.insertMany [fun _ => (), fun _ => ()]).map (·.1)) = some [⟨1, 1⟩, ⟨2, 1⟩] ∧
    (nearWrap.remove ⟨0, 4294967295⟩).map (fun r => r.2.reserveN 2 r.2.nextKeyIndex)
      = some (.ok [⟨1, 1⟩, ⟨2, 1⟩] 3) := by
  decide

/-- … and in every continuation (inserts and removes) index 0 is never issued again. -/
example (more : List (SMOp Unit)) :
    ∃ ext, ((({ sm := nearWrap } : Trace Unit).step (.rem ⟨0, 4294967295⟩)).runFrom more).issued = ext ∧
      ∀ k' ∈ ext, k'.idx ≠ 0 := by
  have h : nearWrap.remove ⟨0, 4294967295⟩ =
      some ((), { slots := [⟨0, U32MAX, none⟩], nextFree := U32MAX, len := 0 }) := rfl
  obtain ⟨_, ext, he, hn⟩ := wrap_retires (t := { sm := nearWrap }) nearWrap_wf rfl h more
  exact ⟨ext, by simpa using he, hn⟩

/-! ## Key prediction (`NextKeyIter`, `ReservedEntities`) -/

/-- In a well-formed map, `n` successive `nextKey` calls starting at `nextKeyIndex` return exactly
    the keys of the next `n` `insertWith` calls (no `remove` in between) and leave the cursor at the
    new map's `nextKeyIndex`; the predictor reports `exhausted` exactly when one of the inserts fails
    for lack of indices. -/
theorem nextKey_predicts {sm : SlotMap α} (wf : sm.WF) (fs : List (Key → α)) :
    sm.reserveN fs.length sm.nextKeyIndex =
      match sm.insertMany fs with
      | some (ks, sm') => .ok ks sm'.nextKeyIndex
      | none => .exhausted :=
  reserveN_eq_insertMany wf fs

/-- … and never hits `panic!("incorrect state for next key iter")`. -/
theorem nextKey_never_badState {sm : SlotMap α} (wf : sm.WF) (n : Nat) :
    sm.reserveN n sm.nextKeyIndex ≠ .badState := by
  intro h
  obtain ⟨j, hj⟩ := reserveN_bad h
  obtain ⟨v⟩ := nextKey_bad_nonempty wf hj
  have := reserveN_eq_insertMany wf (List.replicate n (fun _ => v))
  rw [List.length_replicate, h] at this
  split at this <;> cases this

/-- The same for every reachable map. -/
theorem nextKey_predicts_reachable (ops : List (SMOp α)) (fs : List (Key → α)) :
    (run ops).sm.reserveN fs.length (run ops).sm.nextKeyIndex =
      match (run ops).sm.insertMany fs with
      | some (ks, sm') => .ok ks sm'.nextKeyIndex
      | none => .exhausted :=
  nextKey_predicts (wf_reachable ops) fs

/-- Reservation lemma (`ReservedEntities::reserve` × `count`, then `spawn_all`): if the cursor was
    taken from `nextKeyIndex` and `count` reservations produced `ks` and final cursor `j`, then
    `count` inserts on the same map succeed, return exactly `ks` in order, keep the map well-formed,
    and `j` is the new map's `nextKeyIndex` — the value `spawn_all` resets the cursor to. -/
theorem spawn_all {sm : SlotMap α} (wf : sm.WF) {cursor count : Nat} {ks : List Key} {j : Nat}
    (hc : cursor = sm.nextKeyIndex) (hr : sm.reserveN count cursor = .ok ks j)
    (fs : List (Key → α)) (hl : fs.length = count) :
    ∃ sm', sm.insertMany fs = some (ks, sm') ∧ sm'.nextKeyIndex = j ∧ sm'.WF := by
  subst hc; subst hl
  have h := reserveN_eq_insertMany wf fs
  rw [hr] at h
  cases hm : sm.insertMany fs with
  | none => rw [hm] at h; cases h
  | some r =>
    obtain ⟨ks', sm'⟩ := r
    rw [hm] at h
    simp only [Reserve.ok.injEq] at h
    obtain ⟨rfl, rfl⟩ := h
    exact ⟨sm', rfl, rfl, wf.insertMany hm⟩

/-- Reserved keys are pairwise distinct and none of them is currently valid. -/
theorem reserved_fresh (ops : List (SMOp α)) {count : Nat} {ks : List Key} {j : Nat}
    (hr : (run ops).sm.reserveN count (run ops).sm.nextKeyIndex = .ok ks j) (v : α) :
    ks.Nodup ∧ ∀ k ∈ ks, k ∉ (run ops).issued := by
  obtain ⟨sm', hm, _, _⟩ :=
    spawn_all (wf_reachable ops) rfl hr (List.replicate count (fun _ => v)) (by simp)
  -- replay the inserts as a history
  have key : ∀ (n : Nat) (t : Trace α) (ks : List Key) (sm' : SlotMap α),
      t.sm.insertMany (List.replicate n (fun _ => v)) = some (ks, sm') →
      (t.runFrom (List.replicate n (.ins v))).issued = t.issued ++ ks := by
    intro n
    induction n with
    | zero => intro t ks sm' h; simp [SlotMap.insertMany] at h; simp [Trace.runFrom, h.1.symm]
    | succ n ih =>
      intro t ks sm' h
      simp only [List.replicate_succ, SlotMap.insertMany] at h
      cases h1 : t.sm.insertWith (fun _ => v) with
      | none => simp [h1] at h
      | some r =>
        obtain ⟨k, sm1⟩ := r
        simp only [h1] at h
        cases h2 : sm1.insertMany (List.replicate n fun _ => v) with
        | none => simp [h2] at h
        | some r2 =>
          obtain ⟨ks2, sm2⟩ := r2
          simp [h2] at h
          have := ih { sm := sm1, issued := t.issued ++ [k], removed := t.removed } ks2 sm2 h2
          simp only [List.replicate_succ, Trace.runFrom, List.foldl_cons] at this ⊢
          rw [show t.step (.ins v) = t.insStep (fun _ => v) from rfl, Trace.insStep_some h1, this,
            ← h.1]; simp
  have hiss := key count (run ops) ks sm' hm
  have nd := issued_nodup (ops ++ List.replicate count (.ins v))
  have : (run (ops ++ List.replicate count (.ins v))).issued = (run ops).issued ++ ks := by
    simp only [run, Trace.runFrom_append] at hiss ⊢; exact hiss
  rw [this] at nd
  obtain ⟨_, h2, h3⟩ := List.nodup_append.1 nd
  exact ⟨h2, fun k hk hi => h3 k hi k hk rfl⟩

/-! ### The preconditions are necessary -/

/-- A `remove` between reservation and insertion invalidates the prediction: reserved `2v1`, but
    after removing `0v1` the insert returns `0v3`. -/
example :
    let sm := (run [.ins (), .ins ()] : Trace Unit).sm
    sm.reserveN 1 sm.nextKeyIndex = .ok [⟨2, 1⟩] 3 ∧
    ((sm.remove ⟨0, 1⟩).bind fun r => (r.2.insertMany [fun _ => ()]).map (·.1)) = some [⟨0, 3⟩] := by
  decide

/-- A stale cursor (not refreshed after an insert that bypassed the reservation queue) reaches the
    `badState` panic. -/
example :
    let sm := (run [.ins (), .ins (), .rem ⟨0, 1⟩] : Trace Unit).sm
    let cursor := sm.nextKeyIndex
    (sm.insertWith fun _ => ()).map
      (fun r => match r.2.nextKey cursor with | .badState => true | _ => false) = some true := by
  decide

/-! ## Non-vacuity -/

/-- A history exercising reuse: keys, removals, live set and count. -/
example :
    let t : Trace Nat := run [.ins 10, .ins 20, .rem ⟨0, 1⟩, .rem ⟨0, 1⟩, .ins 30, .rem ⟨7, 1⟩, .ins 40]
    t.issued = [⟨0, 1⟩, ⟨1, 1⟩, ⟨0, 3⟩, ⟨2, 1⟩] ∧ t.removed = [⟨0, 1⟩] ∧ t.sm.len = 3 ∧
    t.sm.get ⟨0, 1⟩ = none ∧ t.sm.get ⟨0, 3⟩ = some 30 ∧ t.sm.get ⟨1, 1⟩ = some 20 ∧
    t.sm.toList = [(⟨0, 3⟩, 30), (⟨1, 1⟩, 20), (⟨2, 1⟩, 40)] := by
  decide

/-- Key-dependent initialisers (`insert_with`), as used by the registries. -/
example :
    let t : Trace Key := run [.insWith id, .insWith id, .rem ⟨1, 1⟩, .insWith id]
    t.sm.toList = [(⟨0, 1⟩, ⟨0, 1⟩), (⟨1, 3⟩, ⟨1, 3⟩)] ∧ t.issued = [⟨0, 1⟩, ⟨1, 1⟩, ⟨1, 3⟩] := by
  decide

/-- Prediction walks the free list (most recently freed first) and then fresh indices. -/
example :
    let t : Trace Nat := run [.ins 1, .ins 2, .ins 3, .rem ⟨0, 1⟩, .rem ⟨2, 1⟩]
    t.sm.reserveN 4 t.sm.nextKeyIndex = .ok [⟨2, 3⟩, ⟨0, 3⟩, ⟨3, 1⟩, ⟨4, 1⟩] 5 ∧
    (t.sm.insertMany [fun _ => 7, fun _ => 8, fun _ => 9, fun _ => 10]).map (·.1)
      = some [⟨2, 3⟩, ⟨0, 3⟩, ⟨3, 1⟩, ⟨4, 1⟩] := by
  decide

#print axioms wf_reachable
#print axioms issued_valid
#print axioms free_list_sound
#print axioms issued_gen_increasing
#print axioms issued_nodup
#print axioms keys_fresh
#print axioms keys_fresh_step
#print axioms get_iff_live
#print axioms contains_iff_live
#print axioms valid_until_removed
#print axioms removed_subset_issued
#print axioms removed_never_valid
#print axioms removed_never_reissued
#print axioms len_add_removed
#print axioms len_eq
#print axioms len_bounds
#print axioms wrap_retires
#print axioms wrap_retires_reachable
#print axioms nearWrap_wf
#print axioms nextKey_predicts
#print axioms nextKey_never_badState
#print axioms nextKey_predicts_reachable
#print axioms spawn_all
#print axioms reserved_fresh

end Evenio
