import Evenio.Proofs.Graph
import Evenio.Proofs.SlotMap
import Evenio.Props.C02
/-!
# C17 — the invariant at quiescent points

"Whenever control is back with the caller, each live entity is stored in exactly one archetype at exactly the row its
recorded location says … Archetypes have pairwise distinct, sorted component sets … retrievable by component set, the
component-less archetype always exists, cached transitions lead to live archetypes that differ by exactly the labelled
component, per-archetype listener tables name only live handlers whose filter matches, and no entity reservation or
queued event is left pending."

`World.Inv` (Model/Inv.lean) is that statement as an executable predicate (ten Boolean conjuncts); the driver
evaluates it after every top-level operation.  Here:

* `init_inv` — a new world satisfies it;
* `slab_laws` — the `slab` crate model behaves like a partial map with a well-formed vacant list: the key handed to a
  new archetype is not live, `insert` makes exactly that key live, `remove` frees exactly one, iteration = lookup;
* `Inv_iff`, `invStore_iff`, `invArch_iff`, `invEdges_iff`, `invPending_iff` — the Boolean conjuncts as logic, so that
  the property text can be read off;
* preservation by the pure pieces: `invStore_toStore_wf` (the storage conjunct IS `Store.WF` of the abstraction, which
  `move_wf` / `remove_wf` / `spawn_wf` of C02 preserve: `move_keeps_store`, …), `edges_ok_insert` / `edges_ok_remove`
  / `link_keeps_invEdges` (the edges `traverse_insert` / `traverse_remove` add keep the edge conjunct),
  `new_comps_sorted_distinct` (the component set of a new archetype is sorted and new);
* `C17.traverseInsert_spec`, `C17.traverseRemove_spec` (+ `C17.newArch_spec`, `C17.registerHandler_spec`) — the model's
  own `traverse_insert` / `traverse_remove` (monadic code, including `Archetype::new` and handler registration) keep
  the graph part of the invariant (`Graph.GraphOK`: slab well-formed, archetypes under their own index, strictly
  sorted pairwise distinct component sets, every cached edge correct), keep every existing archetype's rows and
  columns, and return a LIVE archetype with exactly the source's component set plus / minus the component.
-/
namespace Evenio

/-! ## 1. the initial world -/

theorem init_inv : ({} : World).Inv = true := by decide

/-! ## 2. the slab -/

theorem slab_laws {α : Type} {s : Slab α} (hw : Slab.WF s) (a : α) :
    -- the key handed out next is not live; after `insert` it holds the value, everything else is unchanged
    s.get s.vacantKey = none ∧
    (s.insert a).get s.vacantKey = some a ∧
    (∀ k, k ≠ s.vacantKey → (s.insert a).get k = s.get k) ∧
    Slab.WF (s.insert a) ∧
    -- `remove` succeeds exactly on live keys, frees that key only, and keeps the vacant list well-formed
    (∀ i b, (∃ s', s.remove i = some (b, s')) ↔ s.get i = some b) ∧
    (∀ i b s', s.remove i = some (b, s') → s'.get i = none ∧ (∀ k, k ≠ i → s'.get k = s.get k) ∧ Slab.WF s') ∧
    -- iteration visits exactly the live keys, each once, in increasing order
    (∀ i b, (i, b) ∈ s.toList ↔ s.get i = some b) ∧
    (s.toList.map (·.1)).Pairwise (· < ·) :=
  ⟨Slab.get_vacantKey_none hw, Slab.get_insert_vacantKey hw a, fun _ hk => Slab.get_insert_other s a hk,
   Slab.insert_wf hw a, Slab.remove_eq_some_iff s,
   fun _ _ _ h => ⟨Slab.get_remove_same h, fun _ hk => Slab.get_remove_other h hk, Slab.remove_wf hw h⟩,
   Slab.mem_toList_iff s, Slab.toList_keys_sorted s⟩

/-- the initial slab of archetypes is well-formed -/
theorem init_archs_wf : Slab.WF ({} : World).archs :=
  ⟨⟨[], .done rfl, List.nodup_nil, by
    intro i n h
    cases i with
    | zero => simp at h
    | succ i => simp at h⟩⟩

/-! ## 3. the conjuncts as logic -/

theorem Inv_iff (w : World) :
    w.Inv = true ↔
      w.invStore = true ∧ w.invArch = true ∧ w.invEdges = true ∧ w.invMembers = true ∧ w.invListeners = true ∧
      w.invGlobal = true ∧ w.invRefresh = true ∧ w.invCache = true ∧ w.invPending = true ∧ w.invRegistry = true := by
  unfold World.Inv World.invReport
  cases w.invStore <;> cases w.invArch <;> cases w.invEdges <;> cases w.invMembers <;> cases w.invListeners <;>
    cases w.invGlobal <;> cases w.invRefresh <;> cases w.invCache <;> cases w.invPending <;>
    cases w.invRegistry <;> decide

/-- "each live entity is stored in exactly one archetype at exactly the row its recorded location says" (and vice
    versa, and the columns have the shape of the id list) -/
theorem invStore_iff (w : World) :
    w.invStore = true ↔
      (∀ k loc, (k, loc) ∈ w.entities.toList →
        ∃ a, w.archs.get loc.arch = some a ∧ a.ids[loc.row]? = some k) ∧
      (∀ i a, w.archs.get i = some a →
        a.cols.length = a.comps.length ∧ (∀ col ∈ a.cols, col.length = a.ids.length) ∧
        ∀ row id, a.ids[row]? = some id → w.entities.get id = some ⟨i, row⟩) ∧
      w.entities.len = (w.archs.toList.map fun (_, a) => a.ids.length).sum := by
  unfold World.invStore
  rw [Bool.and_eq_true, Bool.and_eq_true, List.all_eq_true, List.all_eq_true, beq_iff_eq, and_assoc]
  refine and_congr ?_ (and_congr ?_ Iff.rfl)
  · constructor
    · intro h k loc hm
      have := h (k, loc) hm
      dsimp only at this
      split at this
      · next a ha => exact ⟨a, ha, by simpa using this⟩
      · cases this
    · rintro h ⟨k, loc⟩ hm
      obtain ⟨a, ha, hk⟩ := h k loc hm
      dsimp only
      rw [ha]
      simpa using hk
  · constructor
    · intro h i a hia
      have := h (i, a) ((Slab.mem_toList_iff _ _ _).2 hia)
      simp only [Bool.and_eq_true, beq_iff_eq, List.all_eq_true] at this
      refine ⟨this.1.1, this.1.2, fun row id hr => ?_⟩
      exact this.2 (id, row) (List.mem_zipIdx_iff_getElem?.2 hr)
    · rintro h ⟨i, a⟩ hm
      obtain ⟨h1, h2, h3⟩ := h i a ((Slab.mem_toList_iff _ _ _).1 hm)
      simp only [Bool.and_eq_true, beq_iff_eq, List.all_eq_true]
      refine ⟨⟨h1, h2⟩, ?_⟩
      rintro ⟨id, row⟩ hx
      exact h3 row id (List.mem_zipIdx_iff_getElem?.1 hx)

/-- retrievability by component set, spelt out -/
theorem archByComps_eq_some_iff (w : World) (cs : List Nat) (i : Nat) :
    w.archByComps cs = some i ↔
      ∃ a, (i, a) ∈ w.archs.toList ∧ a.comps = cs ∧
        w.archs.toList.find? (fun x => x.2.comps == cs) = some (i, a) := by
  unfold World.archByComps
  have hfun : (fun x : Nat × Arch => match x with | (_, a) => a.comps == cs) = fun x => x.2.comps == cs := by
    funext x; obtain ⟨j, b⟩ := x; rfl
  rw [hfun, Option.map_eq_some_iff]
  constructor
  · rintro ⟨⟨j, a⟩, hf, rfl⟩
    exact ⟨a, List.mem_of_find?_eq_some hf, by simpa using List.find?_some hf, hf⟩
  · rintro ⟨a, -, -, hf⟩
    exact ⟨(i, a), hf, rfl⟩

/-- "archetypes have pairwise distinct, sorted component sets over live component types, are retrievable by
    component set, the component-less archetype always exists" (at index 0), and every archetype is stored under
    its own index -/
theorem invArch_iff (w : World) :
    w.invArch = true ↔
      (∃ a, w.archs.get 0 = some a ∧ a.comps = []) ∧
      (∀ i a, w.archs.get i = some a →
        a.index = i ∧ a.comps.Pairwise (· < ·) ∧ (∀ c ∈ a.comps, (w.comps.getByIndex c).isSome = true) ∧
        w.archByComps a.comps = some i ∧
        ∀ j b, w.archs.get j = some b → i = j ∨ a.comps ≠ b.comps) := by
  unfold World.invArch
  rw [Bool.and_eq_true, List.all_eq_true]
  refine and_congr ?_ ?_
  · constructor
    · intro h
      split at h
      · next a ha => exact ⟨a, ha, by simpa using h⟩
      · cases h
    · rintro ⟨a, ha, hc⟩
      rw [ha]
      simp [hc]
  · constructor
    · intro h i a hia
      have := h (i, a) ((Slab.mem_toList_iff _ _ _).2 hia)
      simp only [Bool.and_eq_true, beq_iff_eq, List.all_eq_true, strictlySorted_iff] at this
      obtain ⟨⟨⟨⟨h1, h2⟩, h3⟩, h4⟩, h5⟩ := this
      refine ⟨h1, h2, h3, h4, fun j b hjb => ?_⟩
      have := h5 (j, b) ((Slab.mem_toList_iff _ _ _).2 hjb)
      simpa using this
    · rintro h ⟨i, a⟩ hm
      obtain ⟨h1, h2, h3, h4, h5⟩ := h i a ((Slab.mem_toList_iff _ _ _).1 hm)
      simp only [Bool.and_eq_true, beq_iff_eq, List.all_eq_true, strictlySorted_iff]
      refine ⟨⟨⟨⟨h1, h2⟩, h3⟩, h4⟩, ?_⟩
      rintro ⟨j, b⟩ hjb
      have := h5 j b ((Slab.mem_toList_iff _ _ _).1 hjb)
      simpa using this

/-- two live archetypes with the same component set are the same archetype -/
theorem arch_comps_injective {w : World} (h : w.invArch = true) {i j : Nat} {a b : Arch}
    (ha : w.archs.get i = some a) (hb : w.archs.get j = some b) (hc : a.comps = b.comps) : i = j := by
  rcases ((invArch_iff w).1 h).2 i a ha |>.2.2.2.2 j b hb with h | h
  · exact h
  · exact absurd hc h

/-- `invArch` contains the hypothesis `IndexOK` of the sweep theorems -/
theorem invArch_indexOK {w : World} (h : w.invArch = true) : IndexOK w.archs :=
  fun i a hia => (((invArch_iff w).1 h).2 i a hia).1

/-- "no entity reservation or queued event is left pending" -/
theorem invPending_iff (w : World) :
    w.invPending = true ↔ w.resCount = 0 ∧ w.queue = [] ∧ w.resIndex = w.entities.nextKeyIndex := by
  unfold World.invPending
  simp [and_assoc]

/-- "cached transitions lead to live archetypes that differ by exactly the labelled component" -/
theorem C17_invEdges_iff (w : World) :
    w.invEdges = true ↔ ∀ i a, w.archs.get i = some a →
      (∀ c d, (c, d) ∈ a.insEdges →
        ∃ b, w.archs.get d = some b ∧ c ∉ a.comps ∧ b.comps = insertSorted a.comps c) ∧
      (∀ c d, (c, d) ∈ a.remEdges →
        ∃ b, w.archs.get d = some b ∧ c ∈ a.comps ∧ b.comps = a.comps.filter (· != c)) :=
  invEdges_iff w

/-! ## 4. preservation by the pure pieces -/

/-! ### (a) the storage conjunct is `Store.WF` of the abstraction -/

/-- what a vacant slab entry looks like to the positional store of Model/StoragePure.lean: an archetype without
    components and rows (never addressed by a location) -/
def vacantArch : Arch := { index := 0, comps := [], cols := [], ids := [] }

def absEntry_c17 : SlabEntry Arch → Arch
  | .occ a => a
  | .vacant _ => vacantArch

/-- the abstraction of the (archetypes, entities) part of a world to the pure store of C02 -/
def World.toStore (w : World) : Store :=
  { archs := w.archs.entries.map absEntry_c17, locs := w.entities.toList }

theorem toStore_archs_getElem? (w : World) (i : Nat) :
    w.toStore.archs[i]? = (w.archs.entries[i]?).map absEntry_c17 := by
  simp [World.toStore]

theorem toStore_archs_of_get {w : World} {i : Nat} {a : Arch} (h : w.archs.get i = some a) :
    w.toStore.archs[i]? = some a := by
  rw [toStore_archs_getElem?, (Slab.get_eq_some_iff _ _ _).1 h]; rfl

/-- the row lookups of the abstraction are the row lookups of the live archetypes -/
theorem toStore_rowId (w : World) (l : Loc) (e : Key) :
    w.toStore.rowId l = some e ↔ ∃ a, w.archs.get l.arch = some a ∧ a.ids[l.row]? = some e := by
  unfold Store.rowId
  rw [toStore_archs_getElem?]
  cases he : w.archs.entries[l.arch]? with
  | none =>
    simp only [Option.map_none]
    constructor
    · intro h; cases h
    · rintro ⟨a, ha, -⟩
      rw [Slab.get_eq_some_iff, he] at ha; cases ha
  | some en =>
    cases en with
    | vacant n =>
      simp only [Option.map_some, absEntry_c17, vacantArch]
      constructor
      · intro h; simp at h
      · rintro ⟨a, ha, -⟩
        rw [Slab.get_eq_some_iff, he] at ha; cases ha
    | occ a =>
      simp only [Option.map_some, absEntry_c17]
      constructor
      · intro h; exact ⟨a, (Slab.get_eq_some_iff _ _ _).2 he, h⟩
      · rintro ⟨a', ha', h⟩
        rw [Slab.get_eq_some_iff, he] at ha'
        cases ha'
        exact h

/-- the keys of a slot map's iteration are pairwise distinct (even their indices are) -/
theorem slotMap_toList_keys_nodup {α : Type} (sm : SlotMap α) : (sm.toList.map (·.1)).Nodup := by
  rw [List.nodup_iff_pairwise_ne]
  unfold SlotMap.toList
  rw [List.pairwise_map]
  refine List.Pairwise.filterMap (R := fun x y : Slot α × Nat => x.2 < y.2) _ ?_ ?_
  · rintro ⟨s, i⟩ ⟨s', i'⟩ hlt b hb b' hb'
    dsimp only at hb hb' hlt
    split at hb
    · cases hb
    · split at hb'
      · cases hb'
      · rw [Option.map_eq_some_iff] at hb hb'
        obtain ⟨v, -, rfl⟩ := hb
        obtain ⟨v', -, rfl⟩ := hb'
        intro h
        have := congrArg Key.idx h
        dsimp only at this
        omega
  · rw [List.zipIdx_eq_zip_range']
    have := List.pairwise_lt_range' (s := 0) (n := sm.slots.length) 1
    rw [List.pairwise_iff_getElem] at this ⊢
    intro i j hi hj hij
    simp only [List.getElem_zip]
    simp only [List.length_zip, List.length_range', Nat.min_self] at hi hj
    exact this i j (by simpa using hi) (by simpa using hj) hij

/-- The first two conjuncts of `invStore` (entity → row, row → entity, column shapes) together with the sortedness
    part of `invArch` are EXACTLY well-formedness of the abstraction (`Store.WF`, the invariant `move_wf`,
    `remove_wf`, `spawn_wf` of C02 preserve).  `SlotMap.WF` of the entity map is needed to go from `get` to the
    iteration.  (The third conjunct of `invStore`, `entities.len = Σ rows`, is a counting consequence that
    `Store.WF` does not mention.) -/
theorem toStore_wf_iff {w : World} (hent : w.entities.WF) :
    w.toStore.WF ↔
      (∀ k loc, (k, loc) ∈ w.entities.toList →
        ∃ a, w.archs.get loc.arch = some a ∧ a.ids[loc.row]? = some k) ∧
      (∀ i a, w.archs.get i = some a →
        a.cols.length = a.comps.length ∧ (∀ col ∈ a.cols, col.length = a.ids.length) ∧
        a.comps.Pairwise (· < ·) ∧
        ∀ row id, a.ids[row]? = some id → w.entities.get id = some ⟨i, row⟩) := by
  constructor
  · intro h
    refine ⟨fun k loc hm => (toStore_rowId w loc k).1 ((h.bij k loc).1 hm), fun i a hia => ?_⟩
    have hm : a ∈ w.toStore.archs := List.mem_of_getElem? (toStore_archs_of_get hia)
    obtain ⟨h1, h2, h3⟩ := h.arch a hm
    refine ⟨h1, h2, h3, fun row id hr => ?_⟩
    have : (id, (⟨i, row⟩ : Loc)) ∈ w.toStore.locs := (h.bij id ⟨i, row⟩).2 ((toStore_rowId w _ _).2 ⟨a, hia, hr⟩)
    exact (SlotMap.mem_toList_iff hent _ _).1 this
  · rintro ⟨h1, h2⟩
    refine ⟨fun a hm => ?_, slotMap_toList_keys_nodup _, fun e l => ?_⟩
    · obtain ⟨i, hi⟩ := List.getElem?_of_mem hm
      rw [toStore_archs_getElem?] at hi
      cases he : w.archs.entries[i]? with
      | none => rw [he] at hi; cases hi
      | some en =>
        rw [he] at hi
        cases en with
        | vacant n =>
          cases hi
          exact ⟨rfl, by simp [absEntry_c17, vacantArch], by simp [absEntry_c17, vacantArch]⟩
        | occ b =>
          cases hi
          obtain ⟨p1, p2, p3, -⟩ := h2 i b ((Slab.get_eq_some_iff _ _ _).2 he)
          exact ⟨p1, p2, p3⟩
    · constructor
      · intro hm
        exact (toStore_rowId w l e).2 (h1 e l hm)
      · intro hr
        obtain ⟨a, ha, hrow⟩ := (toStore_rowId w l e).1 hr
        have := (h2 l.arch a ha).2.2.2 l.row e hrow
        exact (SlotMap.mem_toList_iff hent _ _).2 this

/-- the storage and archetype conjuncts of the invariant give a well-formed store -/
theorem invStore_toStore_wf {w : World} (hent : w.entities.WF) (hs : w.invStore = true) (ha : w.invArch = true) :
    w.toStore.WF := by
  obtain ⟨h1, h2, -⟩ := (invStore_iff w).1 hs
  refine (toStore_wf_iff hent).2 ⟨h1, fun i a hia => ?_⟩
  obtain ⟨p1, p2, p3⟩ := h2 i a hia
  exact ⟨p1, p2, (((invArch_iff w).1 ha).2 i a hia).2.1, p3⟩

/-- the component-less archetype of the abstraction -/
theorem invArch_toStore_hasEmpty {w : World} (ha : w.invArch = true) : w.toStore.HasEmpty := by
  obtain ⟨a, h0, hc⟩ := ((invArch_iff w).1 ha).1
  exact ⟨a, toStore_archs_of_get h0, hc⟩

/-- `move_entity`, `remove_entity`, `spawn` (their pure counterparts, built from the same `moveCols` /
    `swapRemove` / `assignCol`) started in the abstraction of a world satisfying the invariant end in a well-formed
    store: every live entity is again stored at exactly the row its location says, and the columns keep the shape
    of the id list -/
theorem move_keeps_store {w : World} (hent : w.entities.WF) (hs : w.invStore = true) (ha : w.invArch = true)
    {src : Loc} {dst : Nat} {new : List (Nat × Cell)} {st' : Store} {dr : List Cell}
    (h : w.toStore.moveEntity src dst new = some (st', dr)) : st'.WF ∧ st'.HasEmpty :=
  ⟨move_wf (invStore_toStore_wf hent hs ha) h,
   move_hasEmpty h (invArch_toStore_hasEmpty ha)⟩

theorem remove_keeps_store {w : World} (hent : w.entities.WF) (hs : w.invStore = true) (ha : w.invArch = true)
    {loc : Loc} {st' : Store} {dr : List Cell} (h : w.toStore.removeEntity loc = some (st', dr)) :
    st'.WF ∧ st'.HasEmpty :=
  ⟨remove_wf (invStore_toStore_wf hent hs ha) h,
   remove_hasEmpty (invStore_toStore_wf hent hs ha) h (invArch_toStore_hasEmpty ha)⟩

theorem spawn_keeps_store {w : World} (hent : w.entities.WF) (hs : w.invStore = true) (ha : w.invArch = true)
    {id : Key} (hfresh : w.entities.get id = none) : (w.toStore.spawn id).WF ∧ (w.toStore.spawn id).HasEmpty := by
  refine spawn_wf (invStore_toStore_wf hent hs ha) (invArch_toStore_hasEmpty ha) ?_
  intro hm
  obtain ⟨⟨k, l⟩, hkl, rfl⟩ := List.mem_map.1 hm
  rw [(SlotMap.mem_toList_iff hent _ _).1 hkl] at hfresh
  cases hfresh

/-! ### (b) the edges `traverse_insert` / `traverse_remove` add keep the edge conjunct -/

/-- `traverse_insert`: if `b`'s set is `a`'s plus the new component `c`, then recording `a --ins c--> b` on `a` and
    `b --rem c--> a` on `b` keeps the edge property of both (`get` is the table the two updated archetypes live in;
    only the component sets stored under the two indices matter) -/
theorem edges_ok_insert {get : Nat → Option Arch} {a b : Arch} {c : Nat}
    (hla : ∃ a0, get a.index = some a0 ∧ a0.comps = a.comps) (hlb : ∃ b0, get b.index = some b0 ∧ b0.comps = b.comps)
    (ha : EdgesOK get a) (hb : EdgesOK get b) (hbc : b.comps = insertSorted a.comps c) (hc : c ∉ a.comps) :
    EdgesOK get { a with insEdges := edgeInsert a.insEdges c b.index } ∧
    EdgesOK get { b with remEdges := edgeInsert b.remEdges c a.index } := by
  refine ⟨⟨fun c' d hcd => ?_, ha.2⟩, ⟨hb.1, fun c' d hcd => ?_⟩⟩
  · rcases mem_edgeInsert hcd with h | h
    · cases h
      obtain ⟨b0, hb0, hbb⟩ := hlb
      exact ⟨b0, hb0, hc, hbb.trans hbc⟩
    · exact ha.1 c' d h
  · rcases mem_edgeInsert hcd with h | h
    · cases h
      obtain ⟨a0, ha0, haa⟩ := hla
      refine ⟨a0, ha0, ?_, ?_⟩
      · show c ∈ b.comps
        rw [hbc]; exact insertSorted_mem _ _
      · show a0.comps = b.comps.filter (· != c)
        rw [haa, hbc, filter_insertSorted hc]
    · exact hb.2 c' d h

/-- `traverse_remove`: if `b`'s set is `a`'s (strictly sorted) minus its component `c`, then recording
    `a --rem c--> b` on `a` and `b --ins c--> a` on `b` keeps the edge property of both -/
theorem edges_ok_remove {get : Nat → Option Arch} {a b : Arch} {c : Nat}
    (hla : ∃ a0, get a.index = some a0 ∧ a0.comps = a.comps) (hlb : ∃ b0, get b.index = some b0 ∧ b0.comps = b.comps)
    (ha : EdgesOK get a) (hb : EdgesOK get b) (hs : a.comps.Pairwise (· < ·))
    (hbc : b.comps = a.comps.filter (· != c)) (hc : c ∈ a.comps) :
    EdgesOK get { a with remEdges := edgeInsert a.remEdges c b.index } ∧
    EdgesOK get { b with insEdges := edgeInsert b.insEdges c a.index } := by
  refine ⟨⟨ha.1, fun c' d hcd => ?_⟩, ⟨fun c' d hcd => ?_, hb.2⟩⟩
  · rcases mem_edgeInsert hcd with h | h
    · cases h
      obtain ⟨b0, hb0, hbb⟩ := hlb
      exact ⟨b0, hb0, hc, hbb.trans hbc⟩
    · exact ha.2 c' d h
  · rcases mem_edgeInsert hcd with h | h
    · cases h
      obtain ⟨a0, ha0, haa⟩ := hla
      refine ⟨a0, ha0, ?_, ?_⟩
      · show c ∉ b.comps
        rw [hbc]; exact fun hm => ((mem_filter_ne _ _ _).1 hm).2 rfl
      · show a0.comps = insertSorted b.comps c
        rw [haa, hbc, insertSorted_filter hs hc]
    · exact hb.1 c' d h

/-- writing back an archetype with unchanged component set keeps the edge invariant of the world if the written
    archetype's own edges are fine -/
theorem setArch_keeps_invEdges {w : World} (he : w.invEdges = true) {a a' : Arch} (hlive : w.archs.get a.index = some a)
    (hidx : a'.index = a.index) (hc : a'.comps = a.comps)
    (hok : EdgesOK (w.archs.set a'.index a').get a') :
    ({ w with archs := w.archs.set a'.index a' } : World).invEdges = true := by
  rw [invEdges_iff] at he ⊢
  intro j b hjb
  dsimp only at hjb ⊢
  by_cases hj : j = a'.index
  · subst hj
    rw [hidx, Slab.get_set_same hlive] at hjb
    cases hjb
    exact hok
  · rw [Slab.get_set_other _ hj] at hjb
    refine EdgesOK.congr (fun d x hd => ?_) rfl (fun _ h => h) (fun _ h => h) (he j b hjb)
    by_cases hd' : d = a'.index
    · subst hd'
      rw [hidx] at hd
      rw [hidx, Slab.get_set_same hlive]
      rw [hlive] at hd
      cases hd
      exact ⟨a', rfl, hc⟩
    · exact ⟨x, by rw [Slab.get_set_other _ hd']; exact hd, rfl⟩

/-- the "destination already exists" branch of `traverse_insert` (`by_components` found `d`): caching the
    one-directional edge `src --ins c--> d` keeps the edge conjunct of the invariant -/
theorem link_ins_keeps_invEdges {w : World} (he : w.invEdges = true) (hi : IndexOK w.archs) {src d c : Nat}
    {sa da : Arch} (hsa : w.archs.get src = some sa) (hda : w.archs.get d = some da)
    (hdc : da.comps = insertSorted sa.comps c) (hc : c ∉ sa.comps) :
    ({ w with archs := w.archs.set sa.index { sa with insEdges := edgeInsert sa.insEdges c d } } : World).invEdges
      = true := by
  have hsi : sa.index = src := hi src sa hsa
  have hdi : da.index = d := hi d da hda
  have hlive : w.archs.get sa.index = some sa := hsi ▸ hsa
  refine setArch_keeps_invEdges (a := sa) (a' := { sa with insEdges := edgeInsert sa.insEdges c d }) he hlive rfl rfl ?_
  have hold := (invEdges_iff w).1 he
  -- the lookup after the write: same component sets everywhere
  have hget : ∀ x b, w.archs.get x = some b →
      ∃ b', (w.archs.set sa.index { sa with insEdges := edgeInsert sa.insEdges c d }).get x = some b' ∧
        b'.comps = b.comps := by
    intro x b hx
    by_cases hxs : x = sa.index
    · subst hxs
      rw [hlive] at hx; cases hx
      exact ⟨_, Slab.get_set_same hlive _, rfl⟩
    · exact ⟨b, by rw [Slab.get_set_other _ hxs]; exact hx, rfl⟩
  have h1 : EdgesOK (w.archs.set sa.index { sa with insEdges := edgeInsert sa.insEdges c d }).get sa :=
    EdgesOK.congr hget rfl (fun _ h => h) (fun _ h => h) (hold src sa hsa)
  have h2 : EdgesOK (w.archs.set sa.index { sa with insEdges := edgeInsert sa.insEdges c d }).get da :=
    EdgesOK.congr hget rfl (fun _ h => h) (fun _ h => h) (hold d da hda)
  have := (edges_ok_insert (a := sa) (b := da) (c := c) (hget _ _ hlive)
    (hget _ _ (hdi.symm ▸ hda)) h1 h2 hdc hc).1
  rw [hdi] at this
  exact this

/-- the same for `traverse_remove` -/
theorem link_rem_keeps_invEdges {w : World} (he : w.invEdges = true) (hi : IndexOK w.archs) {src d c : Nat}
    {sa da : Arch} (hsa : w.archs.get src = some sa) (hda : w.archs.get d = some da)
    (hs : sa.comps.Pairwise (· < ·)) (hdc : da.comps = sa.comps.filter (· != c)) (hc : c ∈ sa.comps) :
    ({ w with archs := w.archs.set sa.index { sa with remEdges := edgeInsert sa.remEdges c d } } : World).invEdges
      = true := by
  have hsi : sa.index = src := hi src sa hsa
  have hdi : da.index = d := hi d da hda
  have hlive : w.archs.get sa.index = some sa := hsi ▸ hsa
  refine setArch_keeps_invEdges (a := sa) (a' := { sa with remEdges := edgeInsert sa.remEdges c d }) he hlive rfl rfl ?_
  have hold := (invEdges_iff w).1 he
  have hget : ∀ x b, w.archs.get x = some b →
      ∃ b', (w.archs.set sa.index { sa with remEdges := edgeInsert sa.remEdges c d }).get x = some b' ∧
        b'.comps = b.comps := by
    intro x b hx
    by_cases hxs : x = sa.index
    · subst hxs
      rw [hlive] at hx; cases hx
      exact ⟨_, Slab.get_set_same hlive _, rfl⟩
    · exact ⟨b, by rw [Slab.get_set_other _ hxs]; exact hx, rfl⟩
  have h1 : EdgesOK (w.archs.set sa.index { sa with remEdges := edgeInsert sa.remEdges c d }).get sa :=
    EdgesOK.congr hget rfl (fun _ h => h) (fun _ h => h) (hold src sa hsa)
  have h2 : EdgesOK (w.archs.set sa.index { sa with remEdges := edgeInsert sa.remEdges c d }).get da :=
    EdgesOK.congr hget rfl (fun _ h => h) (fun _ h => h) (hold d da hda)
  have := (edges_ok_remove (a := sa) (b := da) (c := c) (hget _ _ hlive)
    (hget _ _ (hdi.symm ▸ hda)) h1 h2 hs hdc hc).1
  rw [hdi] at this
  exact this

/-! ### (c) the component set of a new archetype -/

/-- `traverse_insert` computes the new set by sorted insertion of a component the source lacks: the result is
    strictly sorted again, different from the source's, one longer, and contains exactly the old components plus the
    new one — so, the source's set being distinct from all others, a NEW archetype is created only if no live one
    has this set (`by_components` lookup), and "pairwise distinct, sorted" is kept -/
theorem new_comps_sorted_distinct {l : List Nat} (hs : strictlySorted l = true) {c : Nat} (hc : c ∉ l) :
    strictlySorted (insertSorted l c) = true ∧ insertSorted l c ≠ l ∧
    (insertSorted l c).length = l.length + 1 ∧ ∀ x, x ∈ insertSorted l c ↔ x = c ∨ x ∈ l := by
  rw [strictlySorted_iff] at hs ⊢
  exact ⟨insertSorted_sorted hs c, insertSorted_ne_of_not_mem hc, insertSorted_length_of_not_mem hc,
    mem_insertSorted_edges l c⟩

/-- `traverse_remove`: filtering out a present component keeps the set strictly sorted and makes it different -/
theorem removed_comps_sorted_distinct {l : List Nat} (hs : strictlySorted l = true) {c : Nat} (hc : c ∈ l) :
    strictlySorted (l.filter (· != c)) = true ∧ l.filter (· != c) ≠ l ∧
    ∀ x, x ∈ l.filter (· != c) ↔ x ∈ l ∧ x ≠ c := by
  rw [strictlySorted_iff] at hs ⊢
  refine ⟨filter_ne_sorted hs c, fun h => ?_, mem_filter_ne l c⟩
  have hm : c ∈ l.filter (· != c) := by rw [h]; exact hc
  exact ((mem_filter_ne l c c).1 hm).2 rfl

/-! ## 5. `traverse_insert` / `traverse_remove` keep the graph part of the invariant -/

namespace C17
open Graph


/-- writing back a live archetype with more edges -/
theorem graph_set_arch {A : Slab Arch} (hG : GraphOK A) {src : Nat} {sa sa2 : Arch} (hsa : A.get src = some sa)
    (hcore : SameButEdges sa sa2) (hE : EdgesOK (A.set src sa2).get sa2) :
    GraphOK (A.set src sa2) ∧ Extends A (A.set src sa2) := by
  have hget : ∀ j, (A.set src sa2).get j = if j = src then some sa2 else A.get j := by
    intro j
    rw [Slab.get_set, hsa]; rfl
  have hcomps : ∀ d x, A.get d = some x → ∃ x', (A.set src sa2).get d = some x' ∧ x'.comps = x.comps := by
    intro d x hd
    rw [hget]
    split
    · next h => subst h; rw [hsa] at hd; cases hd; exact ⟨sa2, rfl, hcore.comps⟩
    · exact ⟨x, hd, rfl⟩
  have hback : ∀ j x', (A.set src sa2).get j = some x' → ∃ x, A.get j = some x ∧ x'.comps = x.comps ∧
      (j ≠ src → x' = x) := by
    intro j x' hj
    rw [hget] at hj
    split at hj
    · next h => subst h; cases hj; exact ⟨sa, hsa, hcore.comps, fun h => absurd rfl h⟩
    · exact ⟨x', hj, rfl, fun _ => rfl⟩
  refine ⟨⟨Slab.set_wf hG.wf _ _, ?_, ?_, ?_, ?_⟩, ?_⟩
  · intro j x' hj
    rw [hget] at hj
    split at hj
    · next h => subst h; cases hj; exact hcore.index.trans (hG.idx _ _ hsa)
    · exact hG.idx j x' hj
  · intro j x' hj
    obtain ⟨x, hx, hc, -⟩ := hback j x' hj
    rw [hc]; exact hG.sorted j x hx
  · intro i j a b hi hj hab
    obtain ⟨x, hx, hc, -⟩ := hback i a hi
    obtain ⟨y, hy, hc', -⟩ := hback j b hj
    exact hG.distinct i j x y hx hy (by rw [← hc, ← hc', hab])
  · intro j x' hj
    by_cases hjs : j = src
    · subst hjs
      rw [hget, if_pos rfl] at hj
      cases hj
      exact hE
    · obtain ⟨x, hx, -, he⟩ := hback j x' hj
      rw [he hjs]
      exact EdgesOK.congr hcomps rfl (fun _ h => h) (fun _ h => h) (hG.edges j x hx)
  · intro j x hj
    rw [hget]
    split
    · next h => subst h; rw [hsa] at hj; cases hj; exact ⟨sa2, rfl, hcore⟩
    · exact ⟨x, hj, SameButEdges.refl x⟩

/-- inserting a new archetype (under the vacant key) with a new component set, and writing back a live
    archetype with more edges -/
theorem graph_add_arch {A : Slab Arch} (hG : GraphOK A) {src : Nat} {sa sa2 b : Arch} (hsa : A.get src = some sa)
    (hcore : SameButEdges sa sa2) (hbi : b.index = A.vacantKey) (hbs : b.comps.Pairwise (· < ·))
    (hnew : ∀ i a, A.get i = some a → a.comps ≠ b.comps)
    (hEsa : EdgesOK ((A.insert b).set src sa2).get sa2) (hEb : EdgesOK ((A.insert b).set src sa2).get b) :
    GraphOK ((A.insert b).set src sa2) ∧ Extends A ((A.insert b).set src sa2) ∧
    ((A.insert b).set src sa2).get A.vacantKey = some b := by
  have hk : src ≠ A.vacantKey := by
    intro h
    rw [h, Slab.get_vacantKey_none hG.wf] at hsa; cases hsa
  have hsa1 : (A.insert b).get src = some sa := by rw [Slab.get_insert_other _ _ hk]; exact hsa
  have hget : ∀ j, ((A.insert b).set src sa2).get j =
      if j = src then some sa2 else if j = A.vacantKey then some b else A.get j := by
    intro j
    rw [Slab.get_set, hsa1]
    split
    · rfl
    · split
      · next h => subst h; exact Slab.get_insert_vacantKey hG.wf b
      · next h => exact Slab.get_insert_other _ _ h
  have hcomps : ∀ d x, A.get d = some x →
      ∃ x', ((A.insert b).set src sa2).get d = some x' ∧ x'.comps = x.comps := by
    intro d x hd
    rw [hget]
    split
    · next h => subst h; rw [hsa] at hd; cases hd; exact ⟨sa2, rfl, hcore.comps⟩
    · split
      · next h => subst h; rw [Slab.get_vacantKey_none hG.wf] at hd; cases hd
      · exact ⟨x, hd, rfl⟩
  have hback : ∀ j x', ((A.insert b).set src sa2).get j = some x' →
      (j = A.vacantKey ∧ x' = b) ∨
      (j ≠ A.vacantKey ∧ ∃ x, A.get j = some x ∧ x'.comps = x.comps ∧ (j ≠ src → x' = x)) := by
    intro j x' hj
    rw [hget] at hj
    split at hj
    · next h => subst h; cases hj; exact .inr ⟨hk, sa, hsa, hcore.comps, fun h => absurd rfl h⟩
    · split at hj
      · next h => cases hj; exact .inl ⟨h, rfl⟩
      · next h => exact .inr ⟨h, x', hj, rfl, fun _ => rfl⟩
  refine ⟨⟨Slab.set_wf (Slab.insert_wf hG.wf b) _ _, ?_, ?_, ?_, ?_⟩, ?_, ?_⟩
  · intro j x' hj
    rcases hback j x' hj with ⟨rfl, rfl⟩ | ⟨-, x, hx, -, he⟩
    · exact hbi
    · by_cases hjs : j = src
      · subst hjs
        rw [hget, if_pos rfl] at hj; cases hj
        exact hcore.index.trans (hG.idx _ _ hsa)
      · rw [he hjs]; exact hG.idx j x hx
  · intro j x' hj
    rcases hback j x' hj with ⟨-, rfl⟩ | ⟨-, x, hx, hc, -⟩
    · exact hbs
    · rw [hc]; exact hG.sorted j x hx
  · intro i j a' b' hi hj hab
    rcases hback i a' hi with ⟨rfl, rfl⟩ | ⟨hik, x, hx, hc, -⟩
    · rcases hback j b' hj with ⟨rfl, rfl⟩ | ⟨-, y, hy, hc', -⟩
      · rfl
      · exact absurd (by rw [← hc', hab]) (hnew j y hy)
    · rcases hback j b' hj with ⟨rfl, rfl⟩ | ⟨-, y, hy, hc', -⟩
      · exact absurd (by rw [← hc, hab]) (hnew i x hx)
      · exact hG.distinct i j x y hx hy (by rw [← hc, ← hc', hab])
  · intro j x' hj
    rcases hback j x' hj with ⟨rfl, rfl⟩ | ⟨-, x, hx, -, he⟩
    · exact hEb
    · by_cases hjs : j = src
      · subst hjs
        rw [hget, if_pos rfl] at hj; cases hj
        exact hEsa
      · rw [he hjs]
        exact EdgesOK.congr hcomps rfl (fun _ h => h) (fun _ h => h) (hG.edges j x hx)
  · intro j x hj
    rw [hget]
    split
    · next h => subst h; rw [hsa] at hj; cases hj; exact ⟨sa2, rfl, hcore⟩
    · split
      · next h => subst h; rw [Slab.get_vacantKey_none hG.wf] at hj; cases hj
      · exact ⟨x, hj, SameButEdges.refl x⟩
  · rw [hget, if_neg (Ne.symm hk), if_pos rfl]

/-- the fields of an archetype that registering handlers does not touch -/
structure SameCore (a a' : Arch) : Prop where
  index : a'.index = a.index
  comps : a'.comps = a.comps
  cols : a'.cols = a.cols
  ids : a'.ids = a.ids
  cap : a'.cap = a.cap
  epoch : a'.epoch = a.epoch
  insEdges : a'.insEdges = a.insEdges
  remEdges : a'.remEdges = a.remEdges

theorem SameCore.refl (a : Arch) : SameCore a a := ⟨rfl, rfl, rfl, rfl, rfl, rfl, rfl, rfl⟩

theorem registerHandler_spec (A : Slab Arch) (a : Arch) (h : HInfo) :
    HoareOk (fun w => w.archs = A) (a.registerHandler h) (fun a' w' => w'.archs = A ∧ SameCore a a') := by
  unfold Arch.registerHandler
  dsimp only
  repeat' first
    | (refine HoareOk.pure fun w hw => ⟨hw, ⟨rfl, rfl, rfl, rfl, rfl, rfl, rfl, rfl⟩⟩)
    | (refine HoareOk.bind_inv (HoareOk.of_keeps (handlerRefresh_archs A _ _)) fun _ => ?_)
    | (refine HoareOk.ite ?_ ?_)
    | split


/-- what `Archetype::new` builds (handlers only add refresh listeners and listener tables) -/
def NewCore (idx : Nat) (cs : List Nat) (ei er : Option (Nat × Nat)) (a : Arch) : Prop :=
  a.index = idx ∧ a.comps = cs ∧ a.cols = cs.map (fun _ => []) ∧ a.ids = [] ∧
  a.insEdges = (match ei with | some (c, d) => [(c, d)] | none => []) ∧
  a.remEdges = (match er with | some (c, d) => [(c, d)] | none => [])

theorem NewCore.of_sameCore {idx cs ei er a a'} (h : NewCore idx cs ei er a) (hs : SameCore a a') :
    NewCore idx cs ei er a' := by
  obtain ⟨h1, h2, h3, h4, h5, h6⟩ := h
  exact ⟨hs.index.trans h1, hs.comps.trans h2, hs.cols.trans h3, hs.ids.trans h4, hs.insEdges.trans h5,
    hs.remEdges.trans h6⟩

theorem SameCore.trans {a b c : Arch} (h1 : SameCore a b) (h2 : SameCore b c) : SameCore a c :=
  ⟨h2.index.trans h1.index, h2.comps.trans h1.comps, h2.cols.trans h1.cols, h2.ids.trans h1.ids,
   h2.cap.trans h1.cap, h2.epoch.trans h1.epoch, h2.insEdges.trans h1.insEdges, h2.remEdges.trans h1.remEdges⟩

/-- a loop threading an archetype through steps that keep the slab and the archetype's core -/
theorem forIn_sameCore {γ : Type} (A : Slab Arch) {l : List γ} {a0 : Arch} {f : γ → Arch → M (ForInStep Arch)}
    (hf : ∀ x b, HoareOk (fun w => w.archs = A) (f x b) (fun r w => w.archs = A ∧ SameCore b r.value)) :
    HoareOk (fun w => w.archs = A) (forIn l a0 f) (fun s w => w.archs = A ∧ SameCore a0 s) := by
  refine HoareOk.pre (HoareOk.forIn_list (fun b w => w.archs = A ∧ SameCore a0 b) fun x b => ?_)
    (fun w hw => ⟨hw, SameCore.refl a0⟩)
  refine hoare_and_const fun hb => ?_
  exact HoareOk.post (hf x b) fun r w hr => ⟨hr.1, hb.trans hr.2⟩

theorem newArch_spec (cs : List Nat) (ei er : Option (Nat × Nat)) (A : Slab Arch) :
    HoareOk (fun w => w.archs = A) (newArch cs ei er)
      (fun idx w' => idx = A.vacantKey ∧ ∃ a, w'.archs = A.insert a ∧ NewCore A.vacantKey cs ei er a) := by
  unfold newArch
  refine HoareOk.get_bind fun w0 hw0 => ?_
  dsimp only
  refine HoareOk.bind (R := fun _ w => w.archs = A) (HoareOk.of_keeps ?_) fun _ => ?_
  · keeps
    exact ubErr_archs A _
  · split <;> split <;>
    · refine HoareOk.get_bind fun w1 hw1 => ?_
      refine HoareOk.bind (forIn_sameCore A fun hk b => ?_) fun s => ?_
      · refine HoareOk.get_bind fun w2 hw2 => ?_
        split
        · exact HoareOk.bind (R := fun _ _ => False) (HoareOk.ubErr _) fun _ => ⟨fun _ h => h.elim⟩
        · refine HoareOk.bind (registerHandler_spec A b _) fun a' => ?_
          exact HoareOk.pure fun w hw => hw
      · refine ⟨fun w hw r w' hr => ?_⟩
        rw [run_bind, run_modify] at hr
        cases hr
        exact ⟨hw0 ▸ rfl, s, by rw [← hw.1], NewCore.of_sameCore ⟨hw0 ▸ rfl, rfl, rfl, rfl, rfl, rfl⟩ hw.2⟩


theorem archByComps_some {w : World} {cs : List Nat} {d : Nat} (h : w.archByComps cs = some d) :
    ∃ da, w.archs.get d = some da ∧ da.comps = cs := by
  obtain ⟨a, hm, hc, -⟩ := (archByComps_eq_some_iff w cs d).1 h
  exact ⟨a, (Slab.mem_toList_iff _ _ _).1 hm, hc⟩

theorem archByComps_none {w : World} {cs : List Nat} (h : w.archByComps cs = none) :
    ∀ i a, w.archs.get i = some a → a.comps ≠ cs := by
  intro i a hia hc
  unfold World.archByComps at h
  rw [Option.map_eq_none_iff, List.find?_eq_none] at h
  have := h (i, a) ((Slab.mem_toList_iff _ _ _).2 hia)
  simp [hc] at this

theorem set_comps_preserved {A : Slab Arch} {src : Nat} {sa sa2 : Arch} (hsa : A.get src = some sa)
    (hc : sa2.comps = sa.comps) :
    ∀ d x, A.get d = some x → ∃ x', (A.set src sa2).get d = some x' ∧ x'.comps = x.comps := by
  intro d x hd
  rw [Slab.get_set, hsa]
  split
  · next h => subst h; rw [hsa] at hd; cases hd; exact ⟨sa2, rfl, hc⟩
  · exact ⟨x, hd, rfl⟩

theorem insert_set_comps_preserved {A : Slab Arch} (hw : Slab.WF A) {src : Nat} {sa sa2 : Arch} (b : Arch)
    (hsa : A.get src = some sa) (hc : sa2.comps = sa.comps) :
    ∀ d x, A.get d = some x → ∃ x', ((A.insert b).set src sa2).get d = some x' ∧ x'.comps = x.comps := by
  have hk : src ≠ A.vacantKey := by
    intro h
    rw [h, Slab.get_vacantKey_none hw] at hsa; cases hsa
  have hsa1 : (A.insert b).get src = some sa := by rw [Slab.get_insert_other _ _ hk]; exact hsa
  intro d x hd
  have hdk : d ≠ A.vacantKey := by
    intro h
    rw [h, Slab.get_vacantKey_none hw] at hd; cases hd
  obtain ⟨x', hx', hc'⟩ := set_comps_preserved (sa2 := sa2) hsa1 hc d x (by rw [Slab.get_insert_other _ _ hdk]; exact hd)
  exact ⟨x', hx', hc'⟩

/-- existing destination, insert direction -/
theorem graph_link_ins {A : Slab Arch} (hG : GraphOK A) {src d c : Nat} {sa da : Arch} (hsa : A.get src = some sa)
    (hda : A.get d = some da) (hdc : da.comps = insertSorted sa.comps c) (hc : c ∉ sa.comps) :
    GraphOK (A.set src { sa with insEdges := edgeInsert sa.insEdges c d }) ∧
    Extends A (A.set src { sa with insEdges := edgeInsert sa.insEdges c d }) ∧
    ∃ b, (A.set src { sa with insEdges := edgeInsert sa.insEdges c d }).get d = some b ∧
      b.comps = insertSorted sa.comps c := by
  have hpres := set_comps_preserved (sa2 := { sa with insEdges := edgeInsert sa.insEdges c d }) hsa rfl
  have hsi := hG.idx src sa hsa
  have hdi := hG.idx d da hda
  have h1 := EdgesOK.congr hpres rfl (fun _ h => h) (fun _ h => h) (hG.edges src sa hsa)
  have h2 := EdgesOK.congr hpres rfl (fun _ h => h) (fun _ h => h) (hG.edges d da hda)
  have hE := (edges_ok_insert (a := sa) (b := da) (c := c) (hpres _ _ (hsi.symm ▸ hsa)) (hpres _ _ (hdi.symm ▸ hda))
    h1 h2 hdc hc).1
  rw [hdi] at hE
  obtain ⟨g1, g2⟩ := graph_set_arch (sa2 := { sa with insEdges := edgeInsert sa.insEdges c d }) hG hsa
    ⟨rfl, rfl, rfl, rfl, rfl, rfl, rfl, rfl⟩ hE
  obtain ⟨b, hb, hbc⟩ := hpres d da hda
  exact ⟨g1, g2, b, hb, hbc.trans hdc⟩

/-- existing destination, remove direction -/
theorem graph_link_rem {A : Slab Arch} (hG : GraphOK A) {src d c : Nat} {sa da : Arch} (hsa : A.get src = some sa)
    (hda : A.get d = some da) (hdc : da.comps = sa.comps.filter (· != c)) (hc : c ∈ sa.comps) :
    GraphOK (A.set src { sa with remEdges := edgeInsert sa.remEdges c d }) ∧
    Extends A (A.set src { sa with remEdges := edgeInsert sa.remEdges c d }) ∧
    ∃ b, (A.set src { sa with remEdges := edgeInsert sa.remEdges c d }).get d = some b ∧
      b.comps = sa.comps.filter (· != c) := by
  have hpres := set_comps_preserved (sa2 := { sa with remEdges := edgeInsert sa.remEdges c d }) hsa rfl
  have hsi := hG.idx src sa hsa
  have hdi := hG.idx d da hda
  have h1 := EdgesOK.congr hpres rfl (fun _ h => h) (fun _ h => h) (hG.edges src sa hsa)
  have h2 := EdgesOK.congr hpres rfl (fun _ h => h) (fun _ h => h) (hG.edges d da hda)
  have hE := (edges_ok_remove (a := sa) (b := da) (c := c) (hpres _ _ (hsi.symm ▸ hsa)) (hpres _ _ (hdi.symm ▸ hda))
    h1 h2 (hG.sorted src sa hsa) hdc hc).1
  rw [hdi] at hE
  obtain ⟨g1, g2⟩ := graph_set_arch (sa2 := { sa with remEdges := edgeInsert sa.remEdges c d }) hG hsa
    ⟨rfl, rfl, rfl, rfl, rfl, rfl, rfl, rfl⟩ hE
  obtain ⟨b, hb, hbc⟩ := hpres d da hda
  exact ⟨g1, g2, b, hb, hbc.trans hdc⟩

/-- new destination, insert direction -/
theorem graph_new_ins {A : Slab Arch} (hG : GraphOK A) {src c : Nat} {sa b : Arch} (hsa : A.get src = some sa)
    (hc : c ∉ sa.comps) (hnone : ∀ i a, A.get i = some a → a.comps ≠ insertSorted sa.comps c)
    (hb : NewCore A.vacantKey (insertSorted sa.comps c) none (some (c, src)) b) :
    GraphOK ((A.insert b).set src { sa with insEdges := edgeInsert sa.insEdges c A.vacantKey }) ∧
    Extends A ((A.insert b).set src { sa with insEdges := edgeInsert sa.insEdges c A.vacantKey }) ∧
    ((A.insert b).set src { sa with insEdges := edgeInsert sa.insEdges c A.vacantKey }).get A.vacantKey = some b ∧
    b.comps = insertSorted sa.comps c := by
  obtain ⟨hbi, hbc, -, -, hbins, hbrem⟩ := hb
  have hsi := hG.idx src sa hsa
  have hpres := insert_set_comps_preserved hG.wf (sa2 := { sa with insEdges := edgeInsert sa.insEdges c A.vacantKey })
    b hsa rfl
  -- the new archetype without its edge, as seen from the final table
  have hk : src ≠ A.vacantKey := by
    intro h
    rw [h, Slab.get_vacantKey_none hG.wf] at hsa; cases hsa
  have hgetk : ((A.insert b).set src { sa with insEdges := edgeInsert sa.insEdges c A.vacantKey }).get A.vacantKey
      = some b := by
    rw [Slab.get_set_other _ (Ne.symm hk)]; exact Slab.get_insert_vacantKey hG.wf b
  have h1 := EdgesOK.congr hpres rfl (fun _ h => h) (fun _ h => h) (hG.edges src sa hsa)
  have h2 : EdgesOK ((A.insert b).set src { sa with insEdges := edgeInsert sa.insEdges c A.vacantKey }).get
      { b with remEdges := [] } := by
    refine ⟨fun c' d' h => ?_, fun c' d' h => ?_⟩
    · rw [show ({ b with remEdges := [] } : Arch).insEdges = b.insEdges from rfl, hbins] at h; cases h
    · cases h
  have hE := edges_ok_insert (a := sa) (b := { b with remEdges := [] }) (c := c) (hpres _ _ (hsi.symm ▸ hsa))
    ⟨b, by rw [show ({ b with remEdges := [] } : Arch).index = b.index from rfl, hbi]; exact hgetk, rfl⟩
    h1 h2 hbc hc
  have hE1 : EdgesOK ((A.insert b).set src { sa with insEdges := edgeInsert sa.insEdges c A.vacantKey }).get
      { sa with insEdges := edgeInsert sa.insEdges c A.vacantKey } := by
    have := hE.1
    rw [show ({ b with remEdges := [] } : Arch).index = b.index from rfl, hbi] at this
    exact this
  have hE2 : EdgesOK ((A.insert b).set src { sa with insEdges := edgeInsert sa.insEdges c A.vacantKey }).get b := by
    refine ⟨fun c' d' h => hE.2.1 c' d' h, fun c' d' h => hE.2.2 c' d' ?_⟩
    rw [hbrem] at h
    show (c', d') ∈ edgeInsert [] c sa.index
    rw [hsi]
    exact h
  obtain ⟨g1, g2, g3⟩ := graph_add_arch (sa2 := { sa with insEdges := edgeInsert sa.insEdges c A.vacantKey }) hG hsa
    ⟨rfl, rfl, rfl, rfl, rfl, rfl, rfl, rfl⟩ hbi
    (hbc ▸ insertSorted_sorted (hG.sorted src sa hsa) c) (fun i a hia => hbc ▸ hnone i a hia) hE1 hE2
  exact ⟨g1, g2, g3, hbc⟩

/-- new destination, remove direction -/
theorem graph_new_rem {A : Slab Arch} (hG : GraphOK A) {src c : Nat} {sa b : Arch} (hsa : A.get src = some sa)
    (hc : c ∈ sa.comps) (hnone : ∀ i a, A.get i = some a → a.comps ≠ sa.comps.filter (· != c))
    (hb : NewCore A.vacantKey (sa.comps.filter (· != c)) (some (c, src)) none b) :
    GraphOK ((A.insert b).set src { sa with remEdges := edgeInsert sa.remEdges c A.vacantKey }) ∧
    Extends A ((A.insert b).set src { sa with remEdges := edgeInsert sa.remEdges c A.vacantKey }) ∧
    ((A.insert b).set src { sa with remEdges := edgeInsert sa.remEdges c A.vacantKey }).get A.vacantKey = some b ∧
    b.comps = sa.comps.filter (· != c) := by
  obtain ⟨hbi, hbc, -, -, hbins, hbrem⟩ := hb
  have hsi := hG.idx src sa hsa
  have hpres := insert_set_comps_preserved hG.wf (sa2 := { sa with remEdges := edgeInsert sa.remEdges c A.vacantKey })
    b hsa rfl
  have hk : src ≠ A.vacantKey := by
    intro h
    rw [h, Slab.get_vacantKey_none hG.wf] at hsa; cases hsa
  have hgetk : ((A.insert b).set src { sa with remEdges := edgeInsert sa.remEdges c A.vacantKey }).get A.vacantKey
      = some b := by
    rw [Slab.get_set_other _ (Ne.symm hk)]; exact Slab.get_insert_vacantKey hG.wf b
  have h1 := EdgesOK.congr hpres rfl (fun _ h => h) (fun _ h => h) (hG.edges src sa hsa)
  have h2 : EdgesOK ((A.insert b).set src { sa with remEdges := edgeInsert sa.remEdges c A.vacantKey }).get
      { b with insEdges := [] } := by
    refine ⟨fun c' d' h => ?_, fun c' d' h => ?_⟩
    · cases h
    · rw [show ({ b with insEdges := [] } : Arch).remEdges = b.remEdges from rfl, hbrem] at h; cases h
  have hE := edges_ok_remove (a := sa) (b := { b with insEdges := [] }) (c := c) (hpres _ _ (hsi.symm ▸ hsa))
    ⟨b, by rw [show ({ b with insEdges := [] } : Arch).index = b.index from rfl, hbi]; exact hgetk, rfl⟩
    h1 h2 (hG.sorted src sa hsa) hbc hc
  have hE1 : EdgesOK ((A.insert b).set src { sa with remEdges := edgeInsert sa.remEdges c A.vacantKey }).get
      { sa with remEdges := edgeInsert sa.remEdges c A.vacantKey } := by
    have := hE.1
    rw [show ({ b with insEdges := [] } : Arch).index = b.index from rfl, hbi] at this
    exact this
  have hE2 : EdgesOK ((A.insert b).set src { sa with remEdges := edgeInsert sa.remEdges c A.vacantKey }).get b := by
    refine ⟨fun c' d' h => hE.2.1 c' d' ?_, fun c' d' h => hE.2.2 c' d' h⟩
    rw [hbins] at h
    show (c', d') ∈ edgeInsert [] c sa.index
    rw [hsi]
    exact h
  obtain ⟨g1, g2, g3⟩ := graph_add_arch (sa2 := { sa with remEdges := edgeInsert sa.remEdges c A.vacantKey }) hG hsa
    ⟨rfl, rfl, rfl, rfl, rfl, rfl, rfl, rfl⟩ hbi
    (hbc ▸ filter_ne_sorted (hG.sorted src sa hsa) c) (fun i a hia => hbc ▸ hnone i a hia) hE1 hE2
  exact ⟨g1, g2, g3, hbc⟩

/-- `traverse_insert`: started in a world whose archetype graph is fine, from a live archetype `sa`, it returns
    (if it returns) a LIVE archetype whose component set is `sa`'s plus `c` (`sa`'s own if it has `c` already); the
    graph is fine again — the slab, the indices, sortedness, pairwise distinctness, every cached edge including the
    ones just added — and every archetype that was there is still there with the same rows, columns, capacity,
    epoch, refresh listeners and listener tables. -/
theorem traverseInsert_spec {A : Slab Arch} (hG : GraphOK A) {src : Nat} {sa : Arch} (hsa : A.get src = some sa)
    (c : Nat) :
    HoareOk (fun w => w.archs = A) (traverseInsert src c)
      (fun d w' => GraphOK w'.archs ∧ Extends A w'.archs ∧
        ∃ b, w'.archs.get d = some b ∧
          b.comps = if c ∈ sa.comps then sa.comps else insertSorted sa.comps c) := by
  have hsi : sa.index = src := hG.idx src sa hsa
  unfold traverseInsert
  refine HoareOk.get_bind fun w0 hw0 => ?_
  refine HoareOk.bind_inv (HoareOk.of_keeps (dbgAssert_archs A _ _)) fun _ => ?_
  refine HoareOk.bind (getArch_spec A src _) fun sa' => ?_
  refine hoare_and_const fun hsa' => ?_
  rw [hsa] at hsa'
  cases hsa'
  split
  · next d hd =>
    obtain ⟨b, hb, hc, hbc⟩ := (hG.edges src sa hsa).1 c d (edgeGet_mem hd)
    refine HoareOk.pure fun w hw => ?_
    rw [hw]
    exact ⟨hG, extends_refl A, b, hb, by rw [if_neg hc]; exact hbc⟩
  · split
    · next hc =>
      have hc' : c ∈ sa.comps := by simpa using hc
      refine HoareOk.pure fun w hw => ?_
      rw [hw]
      exact ⟨hG, extends_refl A, sa, hsa, by rw [if_pos hc']⟩
    · next hc =>
      have hc' : c ∉ sa.comps := by simpa using hc
      dsimp only
      refine HoareOk.get_bind fun w1 hw1 => ?_
      split
      · next d hd =>
        obtain ⟨da, hda, hdc⟩ := archByComps_some hd
        rw [hw1] at hda
        refine HoareOk.bind (setArch_spec A _) fun _ => ?_
        refine HoareOk.pure fun w hw => ?_
        dsimp only at hw
        rw [hw, if_neg hc']
        have := graph_link_ins hG hsa hda hdc hc'
        rw [← hsi] at this
        exact this
      · next hn =>
        have hnone : ∀ i a, A.get i = some a → a.comps ≠ insertSorted sa.comps c := by
          intro i a hia
          exact archByComps_none hn i a (hw1 ▸ hia)
        refine HoareOk.bind (newArch_spec _ _ _ A) fun d => ?_
        refine hoare_const_and fun hd => ?_
        subst hd
        refine hoare_exists fun b => ?_
        refine hoare_and_const fun hb => ?_
        have hk : src ≠ A.vacantKey := by
          intro h
          rw [h, Slab.get_vacantKey_none hG.wf] at hsa; cases hsa
        refine HoareOk.bind (getArch_spec (A.insert b) src _) fun sa' => ?_
        refine hoare_and_const fun hsa' => ?_
        rw [Slab.get_insert_other _ _ hk, hsa] at hsa'
        cases hsa'
        refine HoareOk.bind (setArch_spec (A.insert b) _) fun _ => ?_
        refine HoareOk.pure fun w hw => ?_
        dsimp only at hw
        rw [hw, if_neg hc']
        obtain ⟨g1, g2, g3, g4⟩ := graph_new_ins hG hsa hc' hnone hb
        rw [← hsi] at g1 g2 g3
        exact ⟨g1, g2, b, g3, g4⟩

/-- `traverse_remove`: the same for removing a component; the returned archetype's set is `sa`'s minus `c` -/
theorem traverseRemove_spec {A : Slab Arch} (hG : GraphOK A) {src : Nat} {sa : Arch} (hsa : A.get src = some sa)
    (c : Nat) :
    HoareOk (fun w => w.archs = A) (traverseRemove src c)
      (fun d w' => GraphOK w'.archs ∧ Extends A w'.archs ∧
        ∃ b, w'.archs.get d = some b ∧ b.comps = sa.comps.filter (· != c)) := by
  have hsi : sa.index = src := hG.idx src sa hsa
  unfold traverseRemove
  refine HoareOk.bind (getArch_spec A src _) fun sa' => ?_
  refine hoare_and_const fun hsa' => ?_
  rw [hsa] at hsa'
  cases hsa'
  split
  · next d hd =>
    obtain ⟨b, hb, hc, hbc⟩ := (hG.edges src sa hsa).2 c d (edgeGet_mem hd)
    refine HoareOk.pure fun w hw => ?_
    rw [hw]
    exact ⟨hG, extends_refl A, b, hb, hbc⟩
  · split
    · next hc =>
      have hc' : c ∉ sa.comps := by simpa using hc
      refine HoareOk.pure fun w hw => ?_
      rw [hw]
      exact ⟨hG, extends_refl A, sa, hsa, (filter_ne_of_not_mem hc').symm⟩
    · next hc =>
      have hc' : c ∈ sa.comps := by simpa using hc
      dsimp only
      refine HoareOk.get_bind fun w1 hw1 => ?_
      split
      · next d hd =>
        obtain ⟨da, hda, hdc⟩ := archByComps_some hd
        rw [hw1] at hda
        refine HoareOk.bind (setArch_spec A _) fun _ => ?_
        refine HoareOk.pure fun w hw => ?_
        dsimp only at hw
        rw [hw]
        have := graph_link_rem hG hsa hda hdc hc'
        rw [← hsi] at this
        exact this
      · next hn =>
        have hnone : ∀ i a, A.get i = some a → a.comps ≠ sa.comps.filter (· != c) := by
          intro i a hia
          exact archByComps_none hn i a (hw1 ▸ hia)
        refine HoareOk.bind (newArch_spec _ _ _ A) fun d => ?_
        refine hoare_const_and fun hd => ?_
        subst hd
        refine hoare_exists fun b => ?_
        refine hoare_and_const fun hb => ?_
        have hk : src ≠ A.vacantKey := by
          intro h
          rw [h, Slab.get_vacantKey_none hG.wf] at hsa; cases hsa
        refine HoareOk.bind (getArch_spec (A.insert b) src _) fun sa' => ?_
        refine hoare_and_const fun hsa' => ?_
        rw [Slab.get_insert_other _ _ hk, hsa] at hsa'
        cases hsa'
        refine HoareOk.bind (setArch_spec (A.insert b) _) fun _ => ?_
        refine HoareOk.pure fun w hw => ?_
        dsimp only at hw
        rw [hw]
        obtain ⟨g1, g2, g3, g4⟩ := graph_new_rem hG hsa hc' hnone hb
        rw [← hsi] at g1 g2 g3
        exact ⟨g1, g2, b, g3, g4⟩


/-- the graph part of the invariant follows from `invArch`, `invEdges` and the well-formedness of the slab's
    vacant list (which is NOT a conjunct of `World.Inv`: it is needed so that `Archetype::new` gets a dead key) -/
theorem graphOK_of_inv {w : World} (hwf : Slab.WF w.archs) (ha : w.invArch = true) (he : w.invEdges = true) :
    GraphOK w.archs := by
  have h := ((invArch_iff w).1 ha).2
  exact ⟨hwf, fun i a hia => (h i a hia).1, fun i a hia => (h i a hia).2.1,
    fun i j a b hia hjb hc => arch_comps_injective ha hia hjb hc, (invEdges_iff w).1 he⟩


/-- `traverse_insert` on worlds: see `traverseInsert_spec` -/
theorem traverseInsert_keeps_graph {w w' : World} (hG : GraphOK w.archs) {src c d : Nat} {sa : Arch}
    (hsa : w.archs.get src = some sa) (hr : (traverseInsert src c).run.run w = (.ok d, w')) :
    GraphOK w'.archs ∧ w'.invEdges = true ∧ Extends w.archs w'.archs ∧
    ∃ b, w'.archs.get d = some b ∧ b.comps = if c ∈ sa.comps then sa.comps else insertSorted sa.comps c := by
  obtain ⟨g1, g2, g3⟩ := (traverseInsert_spec hG hsa c).run w rfl d w' hr
  exact ⟨g1, g1.invEdges, g2, g3⟩

theorem traverseRemove_keeps_graph {w w' : World} (hG : GraphOK w.archs) {src c d : Nat} {sa : Arch}
    (hsa : w.archs.get src = some sa) (hr : (traverseRemove src c).run.run w = (.ok d, w')) :
    GraphOK w'.archs ∧ w'.invEdges = true ∧ Extends w.archs w'.archs ∧
    ∃ b, w'.archs.get d = some b ∧ b.comps = sa.comps.filter (· != c) := by
  obtain ⟨g1, g2, g3⟩ := (traverseRemove_spec hG hsa c).run w rfl d w' hr
  exact ⟨g1, g1.invEdges, g2, g3⟩

/-- the initial world's graph is fine -/
theorem init_graphOK : GraphOK ({} : World).archs :=
  graphOK_of_inv init_archs_wf (by decide) (by decide)

end C17

end Evenio

#print axioms Evenio.init_inv
#print axioms Evenio.slab_laws
#print axioms Evenio.init_archs_wf
#print axioms Evenio.Inv_iff
#print axioms Evenio.invStore_iff
#print axioms Evenio.archByComps_eq_some_iff
#print axioms Evenio.invArch_iff
#print axioms Evenio.arch_comps_injective
#print axioms Evenio.invArch_indexOK
#print axioms Evenio.invPending_iff
#print axioms Evenio.C17_invEdges_iff
#print axioms Evenio.toStore_wf_iff
#print axioms Evenio.invStore_toStore_wf
#print axioms Evenio.move_keeps_store
#print axioms Evenio.remove_keeps_store
#print axioms Evenio.spawn_keeps_store
#print axioms Evenio.edges_ok_insert
#print axioms Evenio.edges_ok_remove
#print axioms Evenio.setArch_keeps_invEdges
#print axioms Evenio.link_ins_keeps_invEdges
#print axioms Evenio.link_rem_keeps_invEdges
#print axioms Evenio.new_comps_sorted_distinct
#print axioms Evenio.removed_comps_sorted_distinct
#print axioms Evenio.C17.registerHandler_spec
#print axioms Evenio.C17.newArch_spec
#print axioms Evenio.C17.graph_set_arch
#print axioms Evenio.C17.graph_add_arch
#print axioms Evenio.C17.traverseInsert_spec
#print axioms Evenio.C17.traverseRemove_spec
#print axioms Evenio.C17.graphOK_of_inv
#print axioms Evenio.C17.traverseInsert_keeps_graph
#print axioms Evenio.C17.traverseRemove_keeps_graph
#print axioms Evenio.C17.init_graphOK
