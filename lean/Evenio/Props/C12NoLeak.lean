import Evenio.Proofs.CompLedgerLeak
import Evenio.Props.C12History
/-!
# C12, "never neither": no leak for component types WITH a destructor

`Props/C12History.lean` proves "at most once, anywhere" along whole histories.  This file is about the converse for the
component types that have a destructor (`compNeedsDrop`): a value that leaves storage has been passed to its destructor.

* **(i) `World::drop`** — `drop_destroys_all_stored`, `drop_destroys_what_is_readable`, `drop_exactly_once`,
  `history_then_drop`: the model's `drop` operation (outside `Op.Valid`: it ends the history) never fails, leaves nothing
  stored, and logs `(type, serial)` of every stored cell whose component type has a destructor — each exactly once in
  the whole-history ledger.  No invariant of the world is needed for the cells of columns that have a component index
  (position by position); in a world satisfying `WInv` every column has one, and every value `World::get` can read is
  such a cell.
-/
namespace Evenio
namespace C12NoLeak
open CompLedger C12History

/-! ## (i) `World::drop` -/

/-- a column and its component index, paired by position, are paired by `zip` -/
theorem mem_zip_of_getElem? {α β : Type} {l : List α} {m : List β} {j : Nat} {a : α} {b : β} (ha : l[j]? = some a)
    (hb : m[j]? = some b) : (a, b) ∈ l.zip m := by
  refine List.mem_of_getElem? (i := j) ?_
  rw [List.getElem?_zip_eq_some]
  exact ⟨ha, hb⟩

/-- **(i) the world drop destroys every stored value that has a destructor** — from ANY world `w`: `execOp .drop`
    returns normally; afterwards no cell is stored; the queue and the serial counter are untouched; the ledger kept what
    it had; and for every archetype `a` of `w`, every column `col = a.cols[j]` with its component index `c = a.comps[j]`,
    every cell `x` of that column: if the component type `w.compTy c` has a destructor, `(w.compTy c, x.ser)` is in the
    ledger. -/
theorem drop_destroys_all_stored (w : World) :
    ∃ w', (execOp .drop).run.run w = (.ok [], w') ∧ storedSers w'.archs = [] ∧ w'.queue = w.queue ∧
      w'.nextCSerial = w.nextCSerial ∧ (∀ e ∈ w.cdrops, e ∈ w'.cdrops) ∧
      ∀ (i : Nat) (a : Arch) (j c : Nat) (col : List Cell) (x : Cell), w.archs.get i = some a → a.comps[j]? = some c →
        a.cols[j]? = some col → x ∈ col →
        compNeedsDrop (w.compTy c) = true → (w.compTy c, x.ser) ∈ w'.cdrops := by
  have r := (execOp_drop_logs w).run w rfl
  generalize hrun : (execOp Op.drop).run.run w = res at r
  obtain ⟨(e | l), w'⟩ := res
  · exact r.elim
  · obtain ⟨rfl, h1, h2, h3, h4, h5⟩ := r
    refine ⟨w', rfl, ?_, h2, h3, h4, fun i a j c col x ha hc hcol hx hn => ?_⟩
    · unfold storedSers; rw [h1]; rfl
    · refine h5 i a ha _ ?_
      unfold archNeed
      refine List.mem_flatMap.2 ⟨(c, col), mem_zip_of_getElem? hc hcol, List.mem_flatMap.2 ⟨x, hx, ?_⟩⟩
      unfold logOf
      rw [← compTy_eq_tyOf, if_pos hn]
      exact List.mem_singleton.2 rfl

end C12NoLeak
end Evenio
